/-
C10 — Resource limits and cancellation are hard bounds (walk-engine clauses; the image-layer byte
limit is `C10_layer_bytes` in Properties/C10Layer.lean).

NAMING AND CONFIGURATION CLASSES.  A theorem that holds only inside a class of configurations carries the class in its NAME
(`_benign`, `_fatalcfg`, `_limitcfg`, `_cancelcfg`): that is a restriction of the property's quantifier over configurations,
not a relabelling; `_partial` marks a hypothesis that narrows the quantifier over inputs (DistinctNames, one root, `paths = []`,
NoGiFaults, NoReadFaults).  Names without suffix hold for EVERY configuration (at most `NoExtractorPanic` / the matcher's domain law).
  * EVERY configuration (any limit, fatal errors or not, cancellation before / inside any `Extract`, panicking
    extractors, all combinations): the hard bounds `C10_inodes` (processed inodes ≤ MaxInodes), `C10_size`,
    `C10_cancel_walk`, `C10_cancel_same_file`, `C10_cancel_before`.
  * `LimitCfg c` (inode limit set; errors not fatal, no cancellation, no panicking extractor): EXACT theorem
    `C10_inodes_exact_limitcfg` (+ `C10_fails_when_more`, `C10_visits_vs_inodes`).
  * `CancelCfg c k` (cancelled from inside the k-th `Extract`; no inode limit, errors not fatal, no panicking
    extractor): EXACT theorems `C10_cancel_trace_cancelcfg`, `C10_cancel_outcome_cancelcfg`, `C10_cancel_prefix_cancelcfg`, `C10_cancel_between`.
  * Every NON-FATAL configuration without a panicking extractor — including limit + cancellation together and
    cancellation before the scan — is described exactly by `run_trace` (Proofs/WalkTrace.lean), of which the two
    classes above are corollaries.  Combinations with `ErrorOnFSErrors` (limit+fatal, cancellation+fatal) have the
    hard bounds plus `C09_eofs_only_by_failing` (if the scan does not fail with the filesystem error it IS the
    non-fatal scan); configurations with a panicking extractor have only the hard bounds.
All theorems are for every forest, fault plan and option combination; `DomainLaw c.giMatch` (go-git's domain rule)
is the only hypothesis on the gitignore matcher (it is needed even with `useGitignore = false` only because the
refinement lemma is stated once for both settings).
-/
import Scalibr.Proofs.WalkInv
import Scalibr.Proofs.WalkMore
import Scalibr.Spec.Walk
import Scalibr.Proofs.WalkLimit
import Scalibr.Proofs.WalkCancel
import Scalibr.Proofs.WalkAnchor
import Scalibr.Proofs.WalkAny
namespace Scalibr.Walk

/-- Whatever the forest, fault plans, options and cancellation point: `AfterInodeVisited` — i.e. an inode
being processed — happens at most `MaxInodes` times over the whole scan (all roots together). -/
theorem C10_inodes (c : Cfg) (roots : List (Node × Faults)) (hm : c.maxInodes > 0) :
    (run c roots).visited ≤ c.maxInodes := by
  unfold run
  exact runRoots_visited c roots _ [] [] (by intro _; simp) hm

/-- No file larger than the size limit is ever handed to ANY extractor; a file of exactly the limit is
(see the non-vacuity example). -/
theorem C10_size (c : Cfg) (roots : List (Node × Faults)) (hm : c.maxFileSize > 0) :
    ∀ cl ∈ (run c roots).calls, cl.size ≤ c.maxFileSize := by
  intro cl hcl
  unfold run at hcl
  exact runRoots_sizeInv c roots _ [] [] (by intro x hx; simp at hx) cl hcl hm

/-- Once the context is cancelled, a walk step (a file, a directory with everything below it) starts no
extraction and reports an error, which every enclosing loop passes on. -/
theorem C10_cancel_walk (c : Cfg) (f : Faults) (s : St) (p : Path) (n : Node) (hc : s.cancelled = true) :
    (walkNode c f s p n).2 ≠ .none ∧ (walkNode c f s p n).1.calls = s.calls :=
  walkNode_cancelled c f s p n hc

/-- … and the extractions still started after a cancellation from inside `Extract` all concern the file
being handled at that moment: the loop over extractors only ever makes attempts for its own file.  (A structural
fact of the loop, independent of cancellation; the cancellation-specific statement is `C10_cancel_trace_cancelcfg`.) -/
theorem C10_cancel_same_file (c : Cfg) (f : Faults) (p : Path) (size : Nat) (rs : List Nat) (s : St) (chk : Bool) :
    ∃ cs, (extractLoop c f p size s rs chk).1.calls = s.calls ++ cs ∧ ∀ cl ∈ cs, cl.path = p :=
  extractLoop_paths c f p size rs s chk

/-- A scan whose context is already cancelled (EVERY configuration, requested paths included, at least one root):
no extraction is attempted and the scan fails — with the context error after reporting exactly ONE inode (the
first `handleFile` call), except in one corner: with `ErrorOnFSErrors` and gitignore handling, an unreadable parent
`.gitignore` of a requested directory is met before any `handleFile` call and fails the scan with the filesystem
error instead (0 inodes). -/
theorem C10_cancel_before (c : Cfg) (hc : c.cancelBefore = true) (r : Node) (f : Faults) (rest : List (Node × Faults)) :
    (run c ((r, f) :: rest)).calls = [] ∧
    (((run c ((r, f) :: rest)).err = .ctx ∧ (run c ((r, f) :: rest)).visited = 1) ∨
     ((run c ((r, f) :: rest)).err = .fs ∧ (run c ((r, f) :: rest)).visited = 0 ∧
       c.errorOnFSErrors = true ∧ c.useGitignore = true ∧ c.paths ≠ [])) :=
  run_cancelBefore c hc r f rest

/-- … so for whole-tree scans, or when errors are not fatal, or without gitignore handling:
`err = .ctx ∧ calls = [] ∧ visited = 1`. -/
theorem C10_cancel_before_ctx_partial (c : Cfg) (hc : c.cancelBefore = true)
    (hq : c.paths = [] ∨ c.errorOnFSErrors = false ∨ c.useGitignore = false)
    (r : Node) (f : Faults) (rest : List (Node × Faults)) :
    (run c ((r, f) :: rest)).err = .ctx ∧ (run c ((r, f) :: rest)).calls = [] ∧ (run c ((r, f) :: rest)).visited = 1 :=
  run_cancelBefore_ctx c hc hq r f rest

/-! Non-vacuity: a file of exactly the limit is extracted, one byte more is not. -/
def exC : Cfg := { nExt := 1, required := fun _ _ => true, extract := fun _ _ => {}, maxFileSize := 5,
                   giMatch := fun _ _ _ _ => false }
example : (mustOne exC {} [] ⟨["at"], .reg, 5, []⟩).length = 1 ∧ mustOne exC {} [] ⟨["over"], .reg, 6, []⟩ = [] := by decide

/-! ### exact behaviour at the inode limit and under cancellation (refinement to the specification)

Both follow from `run_trace` (Proofs/WalkTrace.lean): whenever filesystem errors are not fatal and
extractors do not panic, model A behaves — for every forest, fault plan, option combination, limit and
cancellation point — like the sequential machine "count the inode, check the context, make the attempts"
run over `traceScan`, the specification's list of `handleFile` calls. -/

/-- Exact behaviour at the inode limit (class `LimitCfg`).  `visitsScan` (Spec/WalkCount.lean; anchored declaratively
by `C10_visits_vs_inodes`) counts the `handleFile` CALLS of the scan run to the end, which is what the engine's
counter counts — NOT inodes: every inode the walk gets to costs one call, and in addition an entered directory that
cannot be opened, the first failing `ReadDir` of a listing, and a start path that cannot be stat'ed / does not exist
are each reported by one more call that also increments the counter.  The scan fails with the MaxInodes error
EXACTLY when that number exceeds the limit, and reports exactly `min visitsScan MaxInodes` visits.  The counter is
shared by all roots.  For the property's wording in terms of inodes see `C10_inodes` (never more than the limit
are processed), `C10_fails_when_more` (it fails when the forest holds more reachable inodes than the limit) and the
remark at `C10_early_failure_witness` (error reports can make it fail although the inodes alone would fit). -/
theorem C10_inodes_exact_limitcfg (c : Cfg) (hl : LimitCfg c) (hd : DomainLaw c.giMatch) (roots : List (Node × Faults)) :
    (run c roots).err = (if visitsScan c roots > c.maxInodes then .maxInodes else .none) ∧
    (run c roots).visited = min (visitsScan c roots) c.maxInodes :=
  run_limit c hl hd roots

/-- **Calls versus inodes** (no hypothesis on the configuration).  `reachableInodesScan` (Spec/WalkNodes.lean) is the
declarative count of the INODES a scan gets to: the records of `allNodes` (every node of a tree, files and
directories, with the chain of directories above it) all of whose ancestor directories are not excluded, can be
opened and list without failure up to the entry leading on; a requested file counts 1, a start path that cannot be
stat'ed or does not exist counts 0.  Then `visitsScan` = the same enumeration with `1 + secondCalls` per record
(`callsScan`), hence inodes ≤ calls, with EQUALITY when no directory open / read fails and every start path can be
stat'ed and exists. -/
theorem C10_visits_vs_inodes (c : Cfg) (roots : List (Node × Faults)) :
    visitsScan c roots = callsScan c roots ∧ reachableInodesScan c roots ≤ visitsScan c roots ∧
    ((∀ rf ∈ roots, NoWalkFaults rf.2 ∧ (if c.paths.isEmpty then rf.2.statFail [] = false
        else ∀ p ∈ c.paths, rf.2.statFail p = false ∧ lookup rf.1 p ≠ none)) →
      visitsScan c roots = reachableInodesScan c roots) :=
  ⟨visitsScan_anchor c roots, reachableInodesScan_le_visitsScan c roots, visitsScan_eq_reachable' c roots⟩

/-- "… and fails when the tree holds more", exact error (class `LimitCfg`; for every configuration see
`C10_fails_when_more`): if the forest holds more reachable inodes than the
limit, the scan fails with the MaxInodes error (having processed exactly `MaxInodes` of them: `C10_inodes_exact_limitcfg`). -/
theorem C10_fails_when_more_limitcfg (c : Cfg) (hl : LimitCfg c) (hd : DomainLaw c.giMatch) (roots : List (Node × Faults))
    (h : reachableInodesScan c roots > c.maxInodes) : (run c roots).err = .maxInodes := by
  have := (C10_inodes_exact_limitcfg c hl hd roots).1
  have hle := reachableInodesScan_le_visitsScan c roots
  rw [this, if_pos (by omega)]

/-- **"… and fails when the tree holds more", for EVERY configuration without a panicking extractor** (fatal errors or
not, cancellation before the scan or inside any `Extract`, a size limit — all combinations): with an inode limit set,
if the forest holds more reachable inodes than the limit, the scan does not succeed.  (Which error it reports depends
on what comes first — the limit, a fatal filesystem error or the cancelled context; `C10_fails_when_more_limitcfg`
gives the exact error in class `LimitCfg`.) -/
theorem C10_fails_when_more (c : Cfg) (hx : ∀ e p, (c.extract e p).panics = false) (hd : DomainLaw c.giMatch)
    (roots : List (Node × Faults)) (hm : c.maxInodes > 0) (h : reachableInodesScan c roots > c.maxInodes) :
    (run c roots).err ≠ .none :=
  run_fails_when_more c hx hd roots hm h

/-- **Every configuration without a panicking extractor is the sequential machine, unless it fails with the filesystem
error**: the scan ends with the filesystem error (possible only with `ErrorOnFSErrors`), or its attempts, error and
visited-inode count are those `machineOutcome` (Spec/WalkMachine.lean: count the inode — MaxInodes beyond the limit;
report the visit — context error when cancelled; make the call's attempts, the k-th `Extract` cancels) prescribes on
the specification's trace of the configuration with the flag cleared.  Covers limit + cancellation together,
cancellation before the scan, and — through the first disjunct — the fatal combinations. -/
theorem C10_machine_any (c : Cfg) (hx : ∀ e p, (c.extract e p).panics = false) (hd : DomainLaw c.giMatch)
    (roots : List (Node × Faults)) :
    ((run c roots).err = .fs ∧ c.errorOnFSErrors = true) ∨
    ((run c roots).calls, (run c roots).err, (run c roots).visited) = machineOutcome (nonFatal c) roots :=
  run_machine_any c hx hd roots

/-- … and conversely, when nothing on the walk fails, it fails ONLY then: with no failing directory open / read and
all start paths present, `err = .maxInodes ↔ reachable inodes > limit`. -/
theorem C10_fails_iff_more_partial (c : Cfg) (hl : LimitCfg c) (hd : DomainLaw c.giMatch) (roots : List (Node × Faults))
    (hnf : ∀ rf ∈ roots, NoWalkFaults rf.2 ∧ (if c.paths.isEmpty then rf.2.statFail [] = false
        else ∀ p ∈ c.paths, rf.2.statFail p = false ∧ lookup rf.1 p ≠ none)) :
    (run c roots).err = .maxInodes ↔ reachableInodesScan c roots > c.maxInodes := by
  have h1 := (C10_inodes_exact_limitcfg c hl hd roots).1
  rw [visitsScan_eq_reachable' c roots hnf] at h1
  rw [h1]
  split <;> simp_all

/-- "… once its context is cancelled starts no extraction on any further file … reporting failure whenever
work remained": the context is cancelled from inside the k-th `Extract` (no inode limit, errors not fatal,
no extractor panic).  `mustExtract` = the attempts owed without cancellation; `traceScan` = the
`handleFile` calls of the uncancelled scan in order, each with its attempts (first two conjuncts: it is
`mustExtract` grouped by call, and all attempts of one call concern one file).
* fewer than `k` `Extract` calls owed: never cancelled — success, exactly `mustExtract`, every inode visited;
* otherwise, with `blk` the call in which the k-th `Extract` happens (`pre`/`post` = the calls before/after;
  the decomposition is unique): the scan makes exactly the attempts of `pre` and ALL of `blk` (the remaining
  extractors of the file being handled still run), nothing of `post`; it fails with the context error iff
  a `handleFile` call remained (`post ≠ []`: a further file, directory or error report), which is still
  counted as visited. -/
theorem C10_cancel_trace_cancelcfg (c : Cfg) (k : Nat) (hc : CancelCfg c k) (hd : DomainLaw c.giMatch) (roots : List (Node × Faults)) :
    (traceScan c roots).flatten = mustExtract c roots ∧ (∀ b ∈ traceScan c roots, OnePath b) ∧
    (openedCount (mustExtract c roots) < k →
      (run c roots).err = .none ∧ (run c roots).calls = mustExtract c roots ∧
      (run c roots).visited = visitsScan c roots) ∧
    (k ≤ openedCount (mustExtract c roots) → ∃ pre blk post, traceScan c roots = pre ++ blk :: post ∧
      openedCount pre.flatten < k ∧ k ≤ openedCount (pre.flatten ++ blk) ∧
      (run c roots).calls = pre.flatten ++ blk ∧
      (run c roots).err = (if post = [] then .none else .ctx) ∧
      (run c roots).visited = pre.length + 1 + (if post = [] then 0 else 1)) :=
  run_cancel c k hc hd roots

/-- … and in terms of `mustExtract` alone: the attempts made are a prefix of the attempts owed; the scan
fails — with the context error — whenever an owed attempt was not made; the attempts from the cancelling
one on (`blk`) all concern one file. -/
theorem C10_cancel_prefix_cancelcfg (c : Cfg) (k : Nat) (hc : CancelCfg c k) (hd : DomainLaw c.giMatch) (roots : List (Node × Faults)) :
    ∃ rest, mustExtract c roots = (run c roots).calls ++ rest ∧
      (rest ≠ [] → (run c roots).err = .ctx) ∧
      ((run c roots).err = .none ∨ (run c roots).err = .ctx) ∧
      (openedCount (mustExtract c roots) < k → rest = [] ∧ (run c roots).err = .none) ∧
      (k ≤ openedCount (mustExtract c roots) → ∃ done blk, (run c roots).calls = done ++ blk ∧
        openedCount done < k ∧ k ≤ openedCount (done ++ blk) ∧ OnePath blk) :=
  run_cancel_prefix c k hc hd roots

/-- … and as a function: the attempts, the error and the visited-inode count are exactly what
`cancelOutcome` (Spec/WalkCount.lean: "every `handleFile` call up to and including the one holding the k-th
`Extract`, nothing after it, failure iff a call remained") reads off the specification's trace. -/
theorem C10_cancel_outcome_cancelcfg (c : Cfg) (k : Nat) (hc : CancelCfg c k) (hd : DomainLaw c.giMatch) (roots : List (Node × Faults)) :
    ((run c roots).calls, (run c roots).err, (run c roots).visited) = cancelOutcome k 0 (traceScan c roots) :=
  run_cancel_outcome c k hc hd roots

/-- **Cancellation "between files".**  The engine looks at the context only at the start of a `handleFile` call, so it
cannot tell at which moment DURING a call the context was cancelled: a cancellation from inside ANY `Extract` of
the j-th call (`cancelAt`) has exactly the outcome of a cancellation arriving between the j-th call and the next one
(`cancelBetween j`: the calls so far complete, nothing later attempted, failure iff a call remained, which is still
counted as visited).  Hence every between-calls cancellation point that follows a call which ran at least one
`Extract` IS one of the modelled `cancelAt` points, and `C10_cancel_outcome_cancelcfg` describes it.
NOT expressible at scan level in this model (nor producible by the harness, whose cancellations are triggered from
inside a fake `Extract`, or before the scan — `cancelBefore`, `C10_cancel_before`): a cancellation arriving after a
call that ran no `Extract` (a directory, an ignored or not required file).  For those points the statements are the
step theorem `C10_cancel_walk` (from ANY cancelled state the next walk step attempts nothing and fails, which every
enclosing loop passes on) together with the hard bounds; the observable difference to the nearest modelled point is
only the number of inodes reported before the failure. -/
theorem C10_cancel_between (k : Nat) (pre : List (List Call)) (blk : List Call) (post : List (List Call))
    (h1 : openedCount pre.flatten < k) (h2 : k ≤ openedCount (pre.flatten ++ blk)) :
    cancelOutcome k 0 (pre ++ blk :: post) = cancelBetween (pre.length + 1) (pre ++ blk :: post) :=
  cancelOutcome_between k pre blk post h1 h2

/-- … and at scan level (class `CancelCfg`): when the k-th `Extract` is owed, the scan's attempts, error and
visited-inode count ARE `cancelBetween j` of the specification's trace, `j` being the `handleFile` call during which the
k-th `Extract` runs — the engine cancelled inside that `Extract` does exactly what a cancellation between call `j` and
call `j+1` must produce.  (Between-calls points after a call WITHOUT any `Extract` remain outside the model: no
theorem at scan level, see above.) -/
theorem C10_cancel_between_run_cancelcfg (c : Cfg) (k : Nat) (hc : CancelCfg c k) (hd : DomainLaw c.giMatch) (roots : List (Node × Faults))
    (hk : k ≤ openedCount (mustExtract c roots)) :
    ∃ j, 1 ≤ j ∧ j ≤ (traceScan c roots).length ∧
      openedCount ((traceScan c roots).take (j - 1)).flatten < k ∧ k ≤ openedCount ((traceScan c roots).take j).flatten ∧
      ((run c roots).calls, (run c roots).err, (run c roots).visited) = cancelBetween j (traceScan c roots) :=
  run_cancel_between c k hc hd roots hk

/-! Non-vacuity (specification side only).  A tree with 5 inodes to visit (also 5 when directory `d` cannot be
opened: the failure is reported by a second call and `b` is not reached; 6 + 1 with a failing end-of-listing
read of the root and a second root, since the counter is shared) against a limit of 3 / of 5. -/
def exL (n : Nat) : Cfg := { nExt := 1, required := fun _ _ => true, extract := fun _ _ => {}, maxInodes := n,
                             giMatch := fun _ _ _ _ => false }
def exTreeL : Node := .dir none [("a", .file .reg 1), ("d", .dir none [("b", .file .reg 2)]), ("e", .file .reg 3)]
example : LimitCfg (exL 3) ∧ DomainLaw (exL 3).giMatch := ⟨⟨by decide, rfl, rfl, rfl, fun _ _ => rfl⟩, fun _ _ _ _ _ => rfl⟩
example : visitsScan (exL 3) [(exTreeL, {})] = 5 ∧ visitsScan (exL 3) [(exTreeL, { openFail := fun p => p = ["d"] })] = 5 ∧
    visitsScan (exL 3) [(exTreeL, { readEntryFail := fun p k => p = [] ∧ k = 3 }), (.file .reg 1, {})] = 7 := by decide
/-- the theorem at work: over the limit the scan fails after exactly 3 visits, at the limit it succeeds -/
example : (run (exL 3) [(exTreeL, {})]).err = .maxInodes ∧ (run (exL 3) [(exTreeL, {})]).visited = 3 ∧
    (run (exL 5) [(exTreeL, {})]).err = .none := by
  have h3 := C10_inodes_exact_limitcfg (exL 3) ⟨by decide, rfl, rfl, rfl, fun _ _ => rfl⟩ (fun _ _ _ _ _ => rfl) [(exTreeL, {})]
  have h5 := C10_inodes_exact_limitcfg (exL 5) ⟨by decide, rfl, rfl, rfl, fun _ _ => rfl⟩ (fun _ _ _ _ _ => rfl) [(exTreeL, {})]
  rw [h3.1, h3.2, h5.1]
  decide

/-! Two extractors, cancellation from inside the 1st `Extract`: the second extractor still gets file `a`,
file `b` gets nothing, and the scan fails because `b` remained. -/
def exK (k : Nat) : Cfg := { nExt := 2, required := fun _ _ => true, extract := fun _ _ => {}, cancelAt := some k,
                             giMatch := fun _ _ _ _ => false }
def exTree2 : Node := .dir none [("a", .file .reg 1), ("b", .file .reg 2)]
example : CancelCfg (exK 1) 1 ∧ DomainLaw (exK 1).giMatch := ⟨⟨rfl, rfl, rfl, rfl, by decide, fun _ _ => rfl⟩, fun _ _ _ _ _ => rfl⟩
example : traceScan (exK 1) [(exTree2, {})] =
    [[]] ++ [⟨0, ["a"], 1, true⟩, ⟨1, ["a"], 1, true⟩] :: [[⟨0, ["b"], 2, true⟩, ⟨1, ["b"], 2, true⟩]] ∧
    openedCount (mustExtract (exK 1) [(exTree2, {})]) = 4 := by decide
/-- the theorem at work: both extractors get `a`, nothing for `b`, the scan fails; root, `a` and `b` are counted -/
example : (run (exK 1) [(exTree2, {})]).calls = [⟨0, ["a"], 1, true⟩, ⟨1, ["a"], 1, true⟩] ∧
    (run (exK 1) [(exTree2, {})]).err = .ctx ∧ (run (exK 1) [(exTree2, {})]).visited = 3 := by
  have h := C10_cancel_outcome_cancelcfg (exK 1) 1 ⟨rfl, rfl, rfl, rfl, by decide, fun _ _ => rfl⟩ (fun _ _ _ _ _ => rfl) [(exTree2, {})]
  have h' : cancelOutcome 1 0 (traceScan (exK 1) [(exTree2, {})]) = ([⟨0, ["a"], 1, true⟩, ⟨1, ["a"], 1, true⟩], .ctx, 3) := by decide
  rw [h'] at h
  simp only [Prod.mk.injEq] at h
  exact h
/-- cancellation inside the LAST attempt of the LAST file: nothing remained, the scan succeeds -/
example : cancelOutcome 4 0 (traceScan (exK 4) [(exTree2, {})]) = (mustExtract (exK 4) [(exTree2, {})], .none, 3) := by decide
/-- never reached: 4 `Extract` calls owed, cancellation in the 5th -/
example : openedCount (mustExtract (exK 5) [(exTree2, {})]) < 5 := by decide

/-! ### Remark: error reports count against the inode limit (calls ≠ inodes)

The auditor's witness: root directory with one sub-directory `d` that cannot be opened — 2 inodes, but 3 `handleFile`
calls (the failing `Open` is reported by a second call for `d`, which increments the engine's counter again).  With
`MaxInodes = 2` the scan FAILS with the MaxInodes error although the tree holds exactly 2 inodes; without the fault it
succeeds.  The property's two clauses hold ("processes no more inodes than the limit": `C10_inodes`; "fails when the
tree holds more": `C10_fails_when_more`), but the failure can come EARLIER than the inode count alone would give:
each error report costs one unit of the budget.  This mirrors `walkDirUnsorted`'s second call into `handleFile`,
where `wc.inodesVisited++` runs before the error is looked at. -/
def exDTree : Node := .dir none [("d", .dir none [])]
def exDFault : Faults := { openFail := fun p => p = ["d"] }
example : reachableInodesScan (exL 2) [(exDTree, exDFault)] = 2 ∧ visitsScan (exL 2) [(exDTree, exDFault)] = 3 ∧
    visitsScan (exL 2) [(exDTree, {})] = 2 := by decide
theorem C10_early_failure_witness :
    (run (exL 2) [(exDTree, exDFault)]).err = .maxInodes ∧ (run (exL 2) [(exDTree, {})]).err = .none ∧
    reachableInodesScan (exL 2) [(exDTree, exDFault)] ≤ (exL 2).maxInodes := by
  have h1 := C10_inodes_exact_limitcfg (exL 2) ⟨by decide, rfl, rfl, rfl, fun _ _ => rfl⟩ (fun _ _ _ _ _ => rfl) [(exDTree, exDFault)]
  have h2 := C10_inodes_exact_limitcfg (exL 2) ⟨by decide, rfl, rfl, rfl, fun _ _ => rfl⟩ (fun _ _ _ _ _ => rfl) [(exDTree, {})]
  rw [h1.1, h2.1]
  decide
/-- the fault-free hypothesis of `C10_visits_vs_inodes` / `C10_fails_iff_more_partial` is satisfiable -/
example : ∀ rf ∈ [(exTreeL, ({} : Faults))], NoWalkFaults rf.2 ∧ (if (exL 3).paths.isEmpty then rf.2.statFail [] = false
    else ∀ p ∈ (exL 3).paths, rf.2.statFail p = false ∧ lookup rf.1 p ≠ none) := by
  intro rf hrf
  simp only [List.mem_singleton] at hrf
  subst hrf
  exact ⟨⟨fun _ => rfl, fun _ _ => rfl⟩, by simp [exL]⟩
/-- `C10_cancel_between` on the example: cancelling inside the 1st `Extract` (file `a`, call 2 of the trace) = cancelling
between call 2 and call 3 -/
example : cancelOutcome 1 0 (traceScan (exK 1) [(exTree2, {})]) = cancelBetween 2 (traceScan (exK 1) [(exTree2, {})]) := by decide
/-- `C10_cancel_before` hypotheses are satisfiable with requested paths -/
example : ({ exK 1 with cancelBefore := true, paths := [["a"]] } : Cfg).cancelBefore = true := rfl

/-! `C10_fails_when_more` / `C10_machine_any` outside the exact classes: inode limit 3 TOGETHER with fatal errors and a
cancellation inside the 1st `Extract`, on the 5-inode tree — more reachable inodes than the limit, so the scan fails;
the machine says how: the context error at the third visit (`a` is extracted, cancelling; `d` is the failing call). -/
def exLC : Cfg := { exL 3 with errorOnFSErrors := true, cancelAt := some 1 }
example : reachableInodesScan exLC [(exTreeL, {})] = 5 ∧
    machineOutcome (nonFatal exLC) [(exTreeL, {})] = ([⟨0, ["a"], 1, true⟩], .ctx, 3) := by decide
example : (run exLC [(exTreeL, {})]).err ≠ .none :=
  C10_fails_when_more exLC (fun _ _ => rfl) (fun _ _ _ _ _ => rfl) _ (by decide) (by decide)

end Scalibr.Walk
