/-
C16(c) — the status ticker of the filesystem walk.  This module is the only one that imports the table
regenerated from extractor/filesystem/*.go on every run (lean/Scalibr/Gen/Ticker.lean, written by
/verif/translator/cmd/tickerdump); it is built and audited separately from Properties/C16.lean, so a source change
that breaks `C16_ticker_guarded` fails exactly this obligation.
-/
import Scalibr.Gen.Ticker
namespace Scalibr.C16

/-! ## (c) the status ticker -/
open Scalibr.Gen.Ticker in
/-- **C16_ticker_guarded.** Over the table regenerated from extractor/filesystem/*.go: the translator understood
every lock region; `printStatus` runs on the ticker goroutine (it is reached from the `go func` in `RunFS`); and for
every pair of accesses to the same `walkContext` field, one on the ticker goroutine and one on the walking
goroutine, at least one of them a write (initialisation of the not-yet-shared object excepted), BOTH are lexically
between `statusMu.Lock()` and the matching `Unlock()` / deferred `Unlock()`.  The fields concerned are exactly
`inodesVisited`, `extractCalls`, `currentPath` … (whatever `sharedFields` evaluates to now) and there is at least one.
Side condition on goroutine lifetimes (Model/Ticker.lean): one ticker per `RunFS`, signalled but NOT joined, one `walkContext` for all roots of
a `Run` — so "written in `RunFS` before the goroutine starts" is ordered by the `go` statement only w.r.t. the SAME root's ticker and counts
here as an ordinary (unguarded unless under `statusMu`) walker-side write: it races with the previous root's ticker.  Only the `walkContext`
literal of `InitWalkContext` is exempt. -/
theorem C16_ticker_guarded :
    table.wellFormed = true ∧
    (funcs.idxOf "printStatus") ∈ tickerFuncs ∧ (funcs.idxOf "handleFile") ∈ walkerFuncs ∧
    table.conflictsGuarded = true ∧ table.sharedFields ≠ [] := by
  decide +kernel

/-
The stronger reading of the design entry — "every field accessed by printStatus that is also written by a
walker-side function is accessed only under statusMu at EVERY site" (`Table.allSitesGuarded`) — does not hold for
the unchanged code and is not needed for race freedom: `handleFile` reads `wc.inodesVisited` for the MaxInodes
test right after releasing the lock, and `RunFS` reads `inodesVisited`/`extractCalls` for its final log line;
both run on the walking goroutine, which is the only writer of these fields, and the ticker only reads them.
The translator prints the number of such sites into the evidence (`unguarded_sites_of_shared_fields`).
-/

end Scalibr.C16
