/-
C15 — SBOMs the library writes can be read back by the library.
Property theorems only; helper lemmas live in `Scalibr.Proofs.Sbom`.

Shape. `roundTripSpdx` / `roundTripCdx` = (writer of the chosen format) ∘ ToSPDX23 / ToCDX, then the SBOM
extractor's `Extract` on the written file (file-name dispatch included). The serialiser/parser pair is the
parameter `codecOf f : Codec Doc Bytes`; `Codec.roundtrips` for it is an ASSUMPTION about tools-golang /
cyclonedx-go (validated differentially by `harness/cmd/c15gen`, not proved). The purl library is the
parameter `ops`; `norm u` is what `purl.FromString(u.String())` returns.

Known finding C15/spdx-tag-value-supplier. For the SPDX tag-value format the assumption is FALSE on the
unchanged tree for every document ToSPDX23 produces, the empty inventory included: every package (the
"main" one too) gets `PackageSupplier{Supplier: NOASSERTION, SupplierType: NOASSERTION}`, the writer prints
`PackageSupplier: NOASSERTION: NOASSERTION`, the reader rejects the sub-key `NOASSERTION`
(`C15_tagvalue_supplier_rejected`), so `decode (encode d) = none` and `C15_codec_failure` applies: the scan of
the written file fails. Behind it, a newline or `<text>` / `</text>` in a name or location breaks the same format.
-/
import Scalibr.Proofs.Sbom
namespace Scalibr.Sbom

variable {Purl Bytes : Type}

/-! ## SPDX 2.3 (JSON, YAML, tag-value) -/

/-- General form, all inventories, no hypothesis on purls: if the chosen format's codec round-trips, the
scan of the written file succeeds and returns — in inventory order — the parsed-back purl of every package
ToSPDX23 exports (purl present, name and version non-empty) whose purl string the library can parse. -/
theorem C15_spdx_general (ops : PurlOps Purl) (env : Env) (cfg : SPDXConfig)
    (codecOf : SpdxFormat → Codec SpdxDoc Bytes) (f : SpdxFormat) (hf : f ≠ .rdf)
    (hc : (codecOf f).roundtrips) (inv : List (Pkg Purl)) :
    ∃ pkgs, roundTripSpdx ops env cfg codecOf f inv = .ok pkgs ∧ purlsOf pkgs = specSpdx ops inv := by
  refine ⟨convertSpdxDocToPackage ops (toSpdx ops env cfg inv) (spdxFileName f), ?_, spdx_doc_import ops env cfg _ inv⟩
  unfold roundTripSpdx extractSpdx
  rw [spdx_dispatch f hf]
  simp only [hc _]

/-- (Superseded by `C15_spdx_partial`, whose codec hypothesis is pointwise and whose `norm` is constrained; kept because the
identity-codec examples and the driver use it.) **C15 for SPDX**: with a round-tripping codec and every purl of the inventory parsing back to its
normal form, the purls imported from the written file are a permutation of (indeed equal to) the exported
packages' normalised purls — for every inventory (duplicates, purl-less packages, any length). -/
theorem C15_spdx (ops : PurlOps Purl) (env : Env) (cfg : SPDXConfig)
    (codecOf : SpdxFormat → Codec SpdxDoc Bytes) (f : SpdxFormat) (hf : f ≠ .rdf)
    (hc : (codecOf f).roundtrips) (norm : Purl → Purl) (inv : List (Pkg Purl)) (hn : ParsesBack ops norm inv) :
    ∃ pkgs, roundTripSpdx ops env cfg codecOf f inv = .ok pkgs ∧
      (purlsOf pkgs).Perm (((inv.filter (exportedSpdx ops)).filterMap (·.purl)).map norm) := by
  obtain ⟨pkgs, h1, h2⟩ := C15_spdx_general ops env cfg codecOf f hf hc inv
  refine ⟨pkgs, h1, ?_⟩
  rw [h2, specSpdx, specPurls_eq_specNorm ops norm _ inv hn]
  exact List.Perm.refl _

/-- The statement with plain `hasPurl` (every package that has a purl comes back) needs: no purl of the
inventory has an empty name or version. -/
theorem C15_spdx_hasPurl (ops : PurlOps Purl) (env : Env) (cfg : SPDXConfig)
    (codecOf : SpdxFormat → Codec SpdxDoc Bytes) (f : SpdxFormat) (hf : f ≠ .rdf)
    (hc : (codecOf f).roundtrips) (norm : Purl → Purl) (inv : List (Pkg Purl)) (hn : ParsesBack ops norm inv)
    (hnv : ∀ p ∈ inv, ∀ u, p.purl = some u → ops.name u ≠ "" ∧ ops.version u ≠ "") :
    ∃ pkgs, roundTripSpdx ops env cfg codecOf f inv = .ok pkgs ∧
      (purlsOf pkgs).Perm (((inv.filter hasPurl).filterMap (·.purl)).map norm) := by
  obtain ⟨pkgs, h1, h2⟩ := C15_spdx ops env cfg codecOf f hf hc norm inv hn
  refine ⟨pkgs, h1, ?_⟩
  have : inv.filter (exportedSpdx ops) = inv.filter hasPurl := by
    apply List.filter_congr
    intro p hp
    cases hu : p.purl with
    | none => simp [exportedSpdx, hasPurl, hu]
    | some u => have := hnv p hp u hu; simp [exportedSpdx, hasPurl, hu, this.1, this.2]
  rw [← this]; exact h2

/-! ### the statements the property needs: POINTWISE codec hypothesis, constrained `norm`

`Codec.roundtrips` (∀ d) is far stronger than needed and FALSE for the real tag-value codec on every document (and for YAML
on documents with control characters), so theorems that assume it say nothing for those formats even on clean inventories.
The `_partial` theorems below only assume that THIS inventory's document survives the codec, and they constrain `norm`
(`NormLaws`) and conclude field-level facts about every purl that comes back. `_partial`: the hypotheses (`hc`, `ParsesBack`,
`NormLaws`) narrow the property — `hc` is exactly the assumption about tools-golang / cyclonedx-go that the stream validates. -/

theorem C15_spdx_at (ops : PurlOps Purl) (env : Env) (cfg : SPDXConfig)
    (codecOf : SpdxFormat → Codec SpdxDoc Bytes) (f : SpdxFormat) (hf : f ≠ .rdf) (inv : List (Pkg Purl))
    (hc : (codecOf f).decode ((codecOf f).encode (toSpdx ops env cfg inv)) = some (toSpdx ops env cfg inv)) :
    ∃ pkgs, roundTripSpdx ops env cfg codecOf f inv = .ok pkgs ∧ purlsOf pkgs = specSpdx ops inv := by
  refine ⟨convertSpdxDocToPackage ops (toSpdx ops env cfg inv) (spdxFileName f), ?_, spdx_doc_import ops env cfg _ inv⟩
  unfold roundTripSpdx extractSpdx
  rw [spdx_dispatch f hf]
  simp only [hc]

theorem C15_cdx_at (ops : PurlOps Purl) (env : Env) (cfg : CDXConfig)
    (codecOf : CdxFormat → Codec Bom Bytes) (f : CdxFormat) (hempty : ops.parse "" = none) (inv : List (Pkg Purl))
    (hc : (codecOf f).decode ((codecOf f).encode (toCdx ops env cfg inv)) = some (toCdx ops env cfg inv)) :
    ∃ pkgs, roundTripCdx ops env cfg codecOf f inv = .ok pkgs ∧ purlsOf pkgs = specCdx ops inv := by
  refine ⟨convertCdxBomToPackage ops (toCdx ops env cfg inv) (cdxFileName f), ?_, cdx_doc_import ops env cfg _ hempty inv⟩
  unfold roundTripCdx extractCdx
  rw [cdx_dispatch f]
  simp only [hc]

/-- what a returned purl `q` shares with the exported purl `u` it is the normal form of: everything but the case of the type, the
case / separator folding of the name, case and empty segments of the namespace, the case of qualifier keys and meaningless
sub-path segments -/
def SameUpToType (ops : PurlOps Purl) (fld : PurlFields Purl) (q u : Purl) : Prop :=
  ops.version q = ops.version u ∧ canonName (ops.name q) = canonName (ops.name u) ∧ (fld.typ q).toList = lowerL (fld.typ u) ∧
  (cleanSegs (fld.ns q)).map lowerL = (cleanSegs (fld.ns u)).map lowerL ∧
  (∀ x, x ∈ canonQuals (fld.quals q) ↔ x ∈ canonQuals (fld.quals u)) ∧ cleanSegs (fld.subpath q) = cleanSegs (fld.subpath u)

/-- every purl of the spec list is the normal form of an exported package's purl, with that package's version, a name equal
up to `canonName`, and is itself normal -/
theorem specNorm_fields (ops : PurlOps Purl) (fld : PurlFields Purl) (norm : Purl → Purl) (hl : NormLaws ops fld norm) (exported : Pkg Purl → Bool)
    (inv : List (Pkg Purl)) : ∀ q ∈ specNorm norm exported inv, ∃ p ∈ inv, ∃ u, exported p = true ∧ p.purl = some u ∧ q = norm u ∧
      SameUpToType ops fld q u ∧ norm q = q := by
  intro q hq
  simp only [specNorm, List.mem_map, List.mem_filterMap, List.mem_filter] at hq
  obtain ⟨u, ⟨p, ⟨hp, hex⟩, hu⟩, rfl⟩ := hq
  exact ⟨p, hp, u, hex, hu, rfl, ⟨hl.version u, hl.name u, hl.typ u, hl.ns u, hl.quals u, hl.subpath u⟩, hl.idem u⟩

/-- **C15 for SPDX (json / yaml / tag-value alike)**: if the document built for THIS inventory survives the format's
writer + reader, the scan of the written file returns, as a multiset, exactly the normal forms of the exported packages' purls;
and each of them carries the version of the package it came from, the same name up to case / separator folding, and is a fixed
point of the normalisation. -/
theorem C15_spdx_partial (ops : PurlOps Purl) (env : Env) (cfg : SPDXConfig)
    (codecOf : SpdxFormat → Codec SpdxDoc Bytes) (f : SpdxFormat) (hf : f ≠ .rdf) (inv : List (Pkg Purl))
    (hc : (codecOf f).decode ((codecOf f).encode (toSpdx ops env cfg inv)) = some (toSpdx ops env cfg inv))
    (fld : PurlFields Purl) (norm : Purl → Purl) (hn : ParsesBack ops norm inv) (hl : NormLaws ops fld norm) :
    ∃ pkgs, roundTripSpdx ops env cfg codecOf f inv = .ok pkgs ∧
      (purlsOf pkgs).Perm (((inv.filter (exportedSpdx ops)).filterMap (·.purl)).map norm) ∧
      ∀ q ∈ purlsOf pkgs, ∃ p ∈ inv, ∃ u, exportedSpdx ops p = true ∧ p.purl = some u ∧ q = norm u ∧
        SameUpToType ops fld q u ∧ norm q = q := by
  obtain ⟨pkgs, h1, h2⟩ := C15_spdx_at ops env cfg codecOf f hf inv hc
  have h3 : purlsOf pkgs = specNorm norm (exportedSpdx ops) inv := by
    rw [h2, specSpdx, specPurls_eq_specNorm ops norm _ inv hn]
  refine ⟨pkgs, h1, by rw [h3]; exact List.Perm.refl _, ?_⟩
  rw [h3]; exact specNorm_fields ops fld norm hl _ inv

/-- **C15 for CycloneDX (json / xml)**, same shape; exported = has a purl -/
theorem C15_cdx_partial (ops : PurlOps Purl) (env : Env) (cfg : CDXConfig)
    (codecOf : CdxFormat → Codec Bom Bytes) (f : CdxFormat) (hempty : ops.parse "" = none) (inv : List (Pkg Purl))
    (hc : (codecOf f).decode ((codecOf f).encode (toCdx ops env cfg inv)) = some (toCdx ops env cfg inv))
    (fld : PurlFields Purl) (norm : Purl → Purl) (hn : ParsesBack ops norm inv) (hl : NormLaws ops fld norm) :
    ∃ pkgs, roundTripCdx ops env cfg codecOf f inv = .ok pkgs ∧
      (purlsOf pkgs).Perm (((inv.filter hasPurl).filterMap (·.purl)).map norm) ∧
      ∀ q ∈ purlsOf pkgs, ∃ p ∈ inv, ∃ u, hasPurl p = true ∧ p.purl = some u ∧ q = norm u ∧
        SameUpToType ops fld q u ∧ norm q = q := by
  obtain ⟨pkgs, h1, h2⟩ := C15_cdx_at ops env cfg codecOf f hempty inv hc
  have h3 : purlsOf pkgs = specNorm norm exportedCdx inv := by
    rw [h2, specCdx, specPurls_eq_specNorm ops norm _ inv hn]
  refine ⟨pkgs, h1, by rw [h3]; exact List.Perm.refl _, ?_⟩
  rw [h3]; exact specNorm_fields ops fld norm hl _ inv

/-- the audit's counterexample is excluded: a normalisation that sends everything to one purl violates `NormLaws` as soon
as two purls have different versions -/
theorem C15_constant_norm_excluded (ops : PurlOps Purl) (fld : PurlFields Purl) (e u : Purl) (h : ops.version u ≠ ops.version e) :
    ¬ NormLaws ops fld (fun _ => e) := fun hl => h (hl.version u).symm

/-- AUDIT-2's counterexample is excluded: a library that maps every purl to type "evil" (keeping name and version) violates
`NormLaws` as soon as one purl has another type; so does one that drops or rewrites a qualifier value (seeded change C15e: a blank
in `distro=Plucky Puffin` read back as `+`) -/
theorem C15_evil_type_excluded (ops : PurlOps Purl) (fld : PurlFields Purl) (norm : Purl → Purl)
    (hevil : ∀ u, fld.typ (norm u) = "evil") (u : Purl) (hu : lowerL (fld.typ u) ≠ "evil".toList) : ¬ NormLaws ops fld norm :=
  fun hl => hu ((hl.typ u).symm.trans (by rw [hevil u]))

theorem C15_qualifier_rewrite_excluded (ops : PurlOps Purl) (fld : PurlFields Purl) (norm : Purl → Purl) (u : Purl) (k v : String)
    (hv : v ≠ "") (hin : (k, v) ∈ fld.quals u) (hout : ∀ k', (k', v) ∉ fld.quals (norm u)) : ¬ NormLaws ops fld norm := by
  intro hl
  have h1 : (lowerL k, v) ∈ canonQuals (fld.quals u) := by
    simp only [canonQuals, List.mem_map, List.mem_filter]
    exact ⟨(k, v), ⟨hin, by simpa using hv⟩, rfl⟩
  have h2 := (hl.quals u (lowerL k, v)).mpr h1
  simp only [canonQuals, List.mem_map, List.mem_filter] at h2
  obtain ⟨⟨k', v'⟩, ⟨hm, _⟩, he⟩ := h2
  simp only [Prod.mk.injEq] at he
  exact hout k' (he.2 ▸ hm)

/-! ### the wrapper package is recognised by STRUCTURE, never by name

ToSPDX23 puts one synthetic package in front (the target of the document's DESCRIBES relationship, without external
references); every other package of the document stands for an inventory package and carries exactly one purl reference.
The importer keeps a package iff it has a parsable purl (or a CPE) — so every non-wrapper package whose purl parses is
imported, WHATEVER its name or SPDX id looks like (`main`, `main-bower-files`, `Package-main`, ids that collide after
sanitising). A reader that skipped packages by an id / name prefix (seeded change C15d) contradicts this theorem's model. -/
theorem spdxLoop_refs (ops : PurlOps Purl) (env : Env) (mainId : String) : ∀ (inv : List (Pkg Purl)) (k : Nat),
    ∀ p ∈ (spdxLoop ops env mainId k inv).1, ∃ loc, p.extRefs = [{ category := "PACKAGE-MANAGER", refType := "purl", locator := loc }] := by
  intro inv
  induction inv with
  | nil => intro k p hp; simp [spdxLoop] at hp
  | cons pkg rest ih =>
    intro k p hp
    simp only [spdxLoop] at hp
    split at hp
    · exact ih k p hp
    · split at hp
      · exact ih k p hp
      · simp only [List.mem_cons] at hp
        rcases hp with rfl | hp
        · exact ⟨_, rfl⟩
        · exact ih (k + 1) p hp

theorem C15_spdx_nonwrapper_imported (ops : PurlOps Purl) (env : Env) (cfg : SPDXConfig) (inv : List (Pkg Purl)) (path : String) :
    ∃ w rest, (toSpdx ops env cfg inv).packages = w :: rest ∧
      -- the wrapper, structurally: the DESCRIBES target, with no external reference
      (∃ r ∈ (toSpdx ops env cfg inv).relationships, r.kind = "DESCRIBES" ∧ r.refB = toDocElementID w.id) ∧ w.extRefs = [] ∧
      -- every other package: one purl reference; if it parses, the package is imported with that purl
      ∀ p ∈ rest, ∃ loc, p.extRefs = [{ category := "PACKAGE-MANAGER", refType := "purl", locator := loc }] ∧
        ∀ u, ops.parse loc = some u →
          ∃ ip ∈ convertSpdxDocToPackage ops (toSpdx ops env cfg inv) path, ip.purl = some u ∧ ip.name = ops.name u := by
  refine ⟨_, (spdxLoop ops env _ 1 inv).1, rfl, ⟨_, List.mem_cons_self, rfl, rfl⟩, rfl, ?_⟩
  intro p hp
  obtain ⟨loc, hloc⟩ := spdxLoop_refs ops env _ inv 1 p hp
  refine ⟨loc, hloc, fun u hu => ?_⟩
  have hconv : convertSpdxPackage ops path p = some { name := ops.name u, version := "", locations := [path], cpes := [], purl := some u } := by
    simp [convertSpdxPackage, hloc, refStep, hu]
  refine ⟨{ name := ops.name u, version := "", locations := [path], cpes := [], purl := some u }, ?_, rfl, rfl⟩
  simp only [convertSpdxDocToPackage, List.mem_filterMap]
  exact ⟨p, by simp [toSpdx, hp], hconv⟩

/-! ## CycloneDX (JSON, XML) -/

theorem C15_cdx_general (ops : PurlOps Purl) (env : Env) (cfg : CDXConfig)
    (codecOf : CdxFormat → Codec Bom Bytes) (f : CdxFormat)
    (hc : (codecOf f).roundtrips) (hempty : ops.parse "" = none) (inv : List (Pkg Purl)) :
    ∃ pkgs, roundTripCdx ops env cfg codecOf f inv = .ok pkgs ∧ purlsOf pkgs = specCdx ops inv := by
  refine ⟨convertCdxBomToPackage ops (toCdx ops env cfg inv) (cdxFileName f), ?_, cdx_doc_import ops env cfg _ hempty inv⟩
  unfold roundTripCdx extractCdx
  rw [cdx_dispatch f]
  simp only [hc _]

/-- **C15 for CycloneDX**: every package with a purl comes back, normalised; nothing else carries a purl. -/
theorem C15_cdx (ops : PurlOps Purl) (env : Env) (cfg : CDXConfig)
    (codecOf : CdxFormat → Codec Bom Bytes) (f : CdxFormat)
    (hc : (codecOf f).roundtrips) (hempty : ops.parse "" = none)
    (norm : Purl → Purl) (inv : List (Pkg Purl)) (hn : ParsesBack ops norm inv) :
    ∃ pkgs, roundTripCdx ops env cfg codecOf f inv = .ok pkgs ∧
      (purlsOf pkgs).Perm (((inv.filter hasPurl).filterMap (·.purl)).map norm) := by
  obtain ⟨pkgs, h1, h2⟩ := C15_cdx_general ops env cfg codecOf f hc hempty inv
  refine ⟨pkgs, h1, ?_⟩
  rw [h2, specCdx, specPurls_eq_specNorm ops norm _ inv hn]
  exact List.Perm.refl _

/-! ## The order of the inventory is irrelevant to the multiset -/

theorem C15_inventory_order (ops : PurlOps Purl) (exported : Pkg Purl → Bool) (inv inv' : List (Pkg Purl))
    (h : inv.Perm inv') : (specPurls ops exported inv).Perm (specPurls ops exported inv') :=
  (h.filter _).filterMap _

/-! ## Without a round-tripping codec the importer fails (formal shape of the tag-value finding) -/

/-- If the parser rejects what the writer produced, scanning the written file fails — whatever the
inventory, the empty one included. -/
theorem C15_codec_failure (ops : PurlOps Purl) (env : Env) (cfg : SPDXConfig)
    (codecOf : SpdxFormat → Codec SpdxDoc Bytes) (f : SpdxFormat) (hf : f ≠ .rdf) (inv : List (Pkg Purl))
    (hrej : (codecOf f).decode ((codecOf f).encode (toSpdx ops env cfg inv)) = none) :
    roundTripSpdx ops env cfg codecOf f inv = .error .parse := by
  unfold roundTripSpdx extractSpdx
  rw [spdx_dispatch f hf]
  simp only [hrej]

theorem C15_codec_failure_cdx (ops : PurlOps Purl) (env : Env) (cfg : CDXConfig)
    (codecOf : CdxFormat → Codec Bom Bytes) (f : CdxFormat) (inv : List (Pkg Purl))
    (hrej : (codecOf f).decode ((codecOf f).encode (toCdx ops env cfg inv)) = none) :
    roundTripCdx ops env cfg codecOf f inv = .error .parse := by
  unfold roundTripCdx extractCdx
  rw [cdx_dispatch f]
  simp only [hrej]

/-- Every document ToSPDX23 builds contains the supplier pair (NOASSERTION, NOASSERTION): on its first
package, for every inventory. -/
theorem C15_every_doc_has_noassertion_supplier (ops : PurlOps Purl) (env : Env) (cfg : SPDXConfig) (inv : List (Pkg Purl)) :
    ∃ m rest, (toSpdx ops env cfg inv).packages = m :: rest ∧
      m.supplier = some { supplier := "NOASSERTION", supplierType := "NOASSERTION" } :=
  ⟨_, _, rfl, rfl⟩

/-- tools-golang's tag-value writer prints that pair as `NOASSERTION: NOASSERTION`, and its reader rejects
the line (sub-key `NOASSERTION` is neither `Person` nor `Organization`). -/
theorem C15_tagvalue_supplier_rejected :
    tvWriteSupplier "NOASSERTION".toList "NOASSERTION".toList = "NOASSERTION: NOASSERTION".toList ∧
    tvReadSupplier (tvWriteSupplier "NOASSERTION".toList "NOASSERTION".toList) = none := by decide

/-- …whereas the pair (NOASSERTION, "") — what the reader itself produces for `PackageSupplier: NOASSERTION`
— survives. (The one-line repair; it changes literals asserted by converter_test.go, hence a known finding.) -/
theorem C15_tagvalue_supplier_repair :
    tvReadSupplier (tvWriteSupplier "NOASSERTION".toList []) = some ("NOASSERTION".toList, []) := by decide

/-! ## File-name dispatch does not depend on Go's map iteration order -/

/-- no key of `extensionHandlers` / `cdxExtensions` is a suffix of another key … -/
theorem C15_dispatch_keys_suffix_free :
    (∀ a ∈ spdxExtensionHandlers, ∀ b ∈ spdxExtensionHandlers, a.1.toList <:+ b.1.toList → a = b) ∧
    (∀ a ∈ cdxExtensions, ∀ b ∈ cdxExtensions, a.1.toList <:+ b.1.toList → a = b) := by
  constructor <;> decide

/-- … hence at most one key matches any path, and `findExtractor`'s result is the same for every
iteration order of the map. -/
theorem C15_spdx_dispatch_unambiguous (path : String) (a b : String × SpdxFormat)
    (ha : a ∈ spdxExtensionHandlers) (hb : b ∈ spdxExtensionHandlers)
    (h1 : hasFileExtension path a.1 = true) (h2 : hasFileExtension path b.1 = true) : a = b := by
  unfold hasFileExtension at h1 h2
  rw [List.isSuffixOf_iff_suffix] at h1 h2
  rcases Nat.le_total a.1.toList.length b.1.toList.length with hl | hl
  · exact C15_dispatch_keys_suffix_free.1 a ha b hb (List.suffix_of_suffix_length_le h1 h2 hl)
  · exact (C15_dispatch_keys_suffix_free.1 b hb a ha (List.suffix_of_suffix_length_le h2 h1 hl)).symm

/-! ## Where the unchanged code leaves the plain-`hasPurl` reading for SPDX, and non-vacuity -/

/-- a toy purl library: purls are their strings; `FromString` rejects "" and "pkg:bogus/x@1" and lower-cases
the type of one upper-case purl -/
def toyOps : PurlOps String where
  str := id
  parse := fun s => if s = "" ∨ s = "pkg:bogus/x@1" then none else if s = "pkg:NPM/B@2" then some "pkg:npm/B@2" else some s
  name := fun s => if s = "pkg:npm/@1" then "" else "n"
  version := fun s => if s = "pkg:gem/v" then "" else "1"

def toyNorm (s : String) : String := if s = "pkg:NPM/B@2" then "pkg:npm/B@2" else s
def toyEnv : Env := { uuid := fun k => toString k, now := "2025-01-01T00:00:00Z" }
def idCodec (Doc : Type) : Codec Doc Doc := { encode := id, decode := some }
/-- a codec whose parser rejects everything (the tag-value situation) -/
def deafCodec (Doc : Type) : Codec Doc Doc := { encode := id, decode := fun _ => none }

def mkPkg (name : String) (purl : Option String) : Pkg String :=
  { name := name, version := "1", locations := ["f"], extractor := "x", purl := purl, cpes := [] }

/-- three packages: an upper-case-type purl, a package without purl, and a duplicate of the first -/
def exInv : List (Pkg String) := [mkPkg "b" (some "pkg:NPM/B@2"), mkPkg "nopurl" none, mkPkg "b" (some "pkg:NPM/B@2"), mkPkg "a" (some "pkg:npm/a@1")]

example : (idCodec SpdxDoc).roundtrips := fun _ => rfl
example : (idCodec Bom).roundtrips := fun _ => rfl
example : toyOps.parse "" = none := by decide
example : ParsesBack toyOps toyNorm exInv := by
  intro p hp u hu
  simp only [exInv, mkPkg, List.mem_cons, List.mem_nil_iff, or_false] at hp
  rcases hp with rfl | rfl | rfl | rfl <;> simp at hu <;> subst hu <;> decide
example : ∀ p ∈ exInv, ∀ u, p.purl = some u → toyOps.name u ≠ "" ∧ toyOps.version u ≠ "" := by
  intro p hp u hu
  simp only [exInv, mkPkg, List.mem_cons, List.mem_nil_iff, or_false] at hp
  rcases hp with rfl | rfl | rfl | rfl <;> simp at hu <;> subst hu <;> decide
/-- the model really returns the three normalised purls, duplicate kept, purl-less package absent -/
example : (roundTripSpdx toyOps toyEnv {} (fun _ => idCodec SpdxDoc) .json exInv).toOption.map purlsOf
    = some ["pkg:npm/B@2", "pkg:npm/B@2", "pkg:npm/a@1"] := by decide
example : (roundTripCdx toyOps toyEnv {} (fun _ => idCodec Bom) .xml exInv).toOption.map purlsOf
    = some ["pkg:npm/B@2", "pkg:npm/B@2", "pkg:npm/a@1"] := by decide
/-- `C15_codec_failure`'s hypothesis is satisfiable, for the empty inventory already -/
example : (deafCodec SpdxDoc).decode ((deafCodec SpdxDoc).encode (toSpdx toyOps toyEnv {} [])) = none := rfl
example : (roundTripSpdx toyOps toyEnv {} (fun _ => deafCodec SpdxDoc) .tagValue ([] : List (Pkg String))).toOption.map purlsOf = none := by decide

/-- Outside `hnv`: a package whose purl has no version (or no name) is not exported to SPDX at all, so the
plain-`hasPurl` statement fails there although the codec round-trips and the purl parses. CycloneDX keeps it. -/
theorem C15_spdx_versionless_dropped :
    (roundTripSpdx toyOps toyEnv {} (fun _ => idCodec SpdxDoc) .json [mkPkg "v" (some "pkg:gem/v")]).toOption.map purlsOf = some [] ∧
    (roundTripCdx toyOps toyEnv {} (fun _ => idCodec Bom) .json [mkPkg "v" (some "pkg:gem/v")]).toOption.map purlsOf = some ["pkg:gem/v"] := by
  decide

/-- Outside `ParsesBack`: an exported purl that `FromString` rejects is silently lost by both importers. -/
theorem C15_unparsable_lost :
    (roundTripSpdx toyOps toyEnv {} (fun _ => idCodec SpdxDoc) .yaml [mkPkg "x" (some "pkg:bogus/x@1")]).toOption.map purlsOf = some [] ∧
    (roundTripCdx toyOps toyEnv {} (fun _ => idCodec Bom) .xml [mkPkg "x" (some "pkg:bogus/x@1")]).toOption.map purlsOf = some [] := by
  decide

/-! non-vacuity of the `_partial` hypotheses: the toy library's normalisation obeys `NormLaws`; the identity codec satisfies
the pointwise hypothesis on the example inventory -/
def toyFld : PurlFields String where
  typ := fun s => if s = "pkg:NPM/B@2" then "NPM" else if s = "pkg:npm/B@2" then "npm" else "t"
  ns := fun _ => ""
  quals := fun s => if s = "pkg:NPM/B@2" ∨ s = "pkg:npm/B@2" then [("arch", "amd64")] else []
  subpath := fun _ => ""

example : NormLaws toyOps toyFld toyNorm := by
  refine ⟨fun u => ?_, fun u => ?_, fun u => ?_, fun u => ?_, fun u => ?_, fun u x => ?_, fun u => ?_⟩
  · unfold toyNorm; split <;> simp
  · unfold toyNorm toyOps; split
    · rename_i h; subst h; decide
    · rfl
  · unfold toyNorm toyOps; split
    · rename_i h; subst h; simp
    · rfl
  · unfold toyNorm toyFld; split
    · rename_i h; subst h; decide
    · rename_i h; simp only [h, if_false]; split <;> decide
  · rfl
  · unfold toyNorm toyFld; split
    · rename_i h; subst h; simp
    · rfl
  · rfl

/-- the toy library with every type rewritten to "evil" is NOT a model of the laws -/
example : ¬ NormLaws toyOps { toyFld with typ := fun s => if s = "pkg:npm/a@1" then "npm" else "evil" } (fun _ => "x") :=
  C15_evil_type_excluded _ _ _ (fun _ => by decide) "pkg:npm/a@1" (by decide)
example : (idCodec SpdxDoc).decode ((idCodec SpdxDoc).encode (toSpdx toyOps toyEnv {} exInv)) = some (toSpdx toyOps toyEnv {} exInv) := rfl

/-- a package whose purl NAME is `main` (and whose SPDX id therefore starts with `SPDXRef-Package-main-`, exactly like the
wrapper's) is imported: the wrapper is the DESCRIBES target, not "whatever is called main" -/
def mainOps : PurlOps String where
  str := id
  parse := fun s => if s = "" then none else some s
  name := fun s => if s = "pkg:npm/main@1" then "main" else "other"
  version := fun _ => "1"
example : (roundTripSpdx mainOps toyEnv {} (fun _ => idCodec SpdxDoc) .json
      [mkPkg "main" (some "pkg:npm/main@1"), mkPkg "x" (some "pkg:npm/x@1")]).toOption.map purlsOf
    = some ["pkg:npm/main@1", "pkg:npm/x@1"] := by decide

end Scalibr.Sbom
