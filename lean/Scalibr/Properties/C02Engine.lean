/-
C02 — engine-level part: what the walk-engine model says about an extractor that fails or panics.
(This module was re-created after the original text of the engine theorems was overwritten by the parser
totality file `Properties/C02.lean`; the statements below are re-derived from the walk-engine results
`run_nopanic`, `run_spec`, `run_results` and `C09_status_meaning`.)
-/
import Scalibr.Properties.C09
namespace Scalibr.Walk

/-- The engine has no `recover`: a scan ends in a panic ONLY IF some extractor's `Extract` panics on some
path — whatever the trees, fault plans, limits, options and cancellation point. (Contrapositive of
`C09_no_panic`.) -/
theorem C02_panic_only_from_extractor (c : Cfg) (roots : List (Node × Faults)) (h : (run c roots).err = .panic) :
    ∃ e p, (c.extract e p).panics = true := by
  apply Classical.byContradiction
  intro hn
  have hx : NoExtractorPanic c := by
    intro e p
    cases hp : (c.extract e p).panics with
    | false => rfl
    | true => exact absurd ⟨e, p, hp⟩ hn
  exact run_nopanic c hx roots h

theorem pkgsOfCalls_filter (c : Cfg) (e0 : Nat) (p0 : Path) (cs : List Call) :
    (pkgsOfCalls c cs).filter (fun k => !(k.ext = e0 && k.loc = p0))
      = pkgsOfCalls c (cs.filter fun cl => !(cl.ext = e0 && cl.path = p0)) := by
  induction cs with
  | nil => rfl
  | cons cl cs ih =>
    have hcons : pkgsOfCalls c (cl :: cs) = pkgsOfCalls c [cl] ++ pkgsOfCalls c cs := pkgsOfCalls_append c [cl] cs
    rw [hcons, List.filter_append, ih]
    by_cases hk : (cl.ext = e0 && cl.path = p0) = true
    · have h1 : (pkgsOfCalls c [cl]).filter (fun k => !(k.ext = e0 && k.loc = p0)) = [] := by
        rw [List.filter_eq_nil_iff]
        intro k hkm
        simp only [pkgsOfCalls, List.flatMap_cons, List.flatMap_nil, List.append_nil] at hkm
        split at hkm
        · obtain ⟨i, _, rfl⟩ := List.mem_map.mp hkm
          simpa using hk
        · simp at hkm
      rw [h1, List.filter_cons_of_neg (by simpa using hk)]; rfl
    · have h1 : (pkgsOfCalls c [cl]).filter (fun k => !(k.ext = e0 && k.loc = p0)) = pkgsOfCalls c [cl] := by
        rw [List.filter_eq_self]
        intro k hkm
        simp only [pkgsOfCalls, List.flatMap_cons, List.flatMap_nil, List.append_nil] at hkm
        split at hkm
        · obtain ⟨i, _, rfl⟩ := List.mem_map.mp hkm
          cases hb' : (cl.ext = e0 && cl.path = p0) with
          | true => exact absurd hb' hk
          | false => simp [hb']
        · simp at hkm
      have hk' : (!(cl.ext = e0 && cl.path = p0)) = true := by
        cases hb' : (cl.ext = e0 && cl.path = p0) with
        | true => exact absurd hb' hk
        | false => rfl
      have hf : (cl :: cs).filter (fun cl => !(cl.ext = e0 && cl.path = p0))
          = cl :: cs.filter (fun cl => !(cl.ext = e0 && cl.path = p0)) := by
        simp only [List.filter_cons, hk', if_true]
      rw [h1, hf]
      exact (pkgsOfCalls_append c [cl] _).symm

/-- **Confinement.** In a scan without limits / cancellation / fatal-errors option and with extractors that do
not panic, whatever `Extract` returns for extractor `e0` on file `p0` (an error, a partial inventory, nothing):
the scan itself does not fail; the invocations made are exactly the ones the specification owes (`mustExtract`,
which never looks at an `Extract` result); the packages NOT produced by (`e0`, `p0`) are exactly what the other
invocations returned; and an extractor's status is `failed`/`partial` exactly when one of ITS OWN attempts
failed. -/
theorem C02_confined (c : Cfg) (hb : Benign c) (roots : List (Node × Faults)) (ho : GiOK c) (e0 : Nat) (p0 : Path) :
    (run c roots).err = .none ∧
    (run c roots).calls = mustExtract c roots ∧
    (run c roots).pkgs.filter (fun k => !(k.ext = e0 && k.loc = p0))
      = pkgsOfCalls c ((mustExtract c roots).filter fun cl => !(cl.ext = e0 && cl.path = p0)) ∧
    (run c roots).statuses = roots.flatMap (fun (r, f) => (List.range c.nExt).map fun e => (e, statusSpec c f r e)) ∧
    ∀ (f : Faults) (root : Node) (e : Nat), statusSpec c f root e ≠ .ok ↔
      ∃ cl ∈ mustRoot c f root, cl.ext = e ∧ (cl.opened = false ∨ (c.extract cl.ext cl.path).err = true) := by
  obtain ⟨h1, h2⟩ := run_spec c hb roots ho
  obtain ⟨h3, h4⟩ := run_results c hb roots ho
  refine ⟨h1, h2, ?_, h4, fun f root e => (C09_status_meaning c f root e).1⟩
  rw [h3, pkgsOfCalls_filter]

end Scalibr.Walk
