/-
C02 — No file content can crash or hang a built-in extractor (the part Lean can carry for the modelled parsers).
The byte-level models of C03 are total functions by construction: every loop is structural recursion or has an
explicit iteration bound (`lines + 2`), every slice is guarded. These theorems are the formal statement
"∀ bytes, the model never reaches a crash outcome"; they say something about the Go code only through the
correspondence runs of C03/C02 on arbitrary and mutated bytes (model and implementation agree on
error-vs-value there). For package-lock.json the statement is about the record loop over ANY decoded document
and does real work: the alias branch `Version[4:i]` is where the code panicked before fix 7578723d.
Engine-level confinement (C02_confined, C02_no_recover) lives with the walk-engine model.
-/
import Scalibr.Model.Parsers.Apk
import Scalibr.Model.Parsers.Gradle
import Scalibr.Model.Parsers.Gemfile
import Scalibr.Model.Parsers.Dpkg
import Scalibr.Model.Parsers.Requirements
import Scalibr.Proofs.Lockfiles
namespace Scalibr.Parsers

theorem C02_apk_total (bytes : List Char) : Apk.parse bytes ≠ .panic := by
  unfold Apk.parse; split; split <;> simp

theorem C02_gradle_total (bytes : List Char) : Gradle.parse bytes ≠ .panic := by
  unfold Gradle.parse; split; simp only []; split <;> simp

theorem C02_gemfile_total (bytes : List Char) : Gemfile.parse bytes ≠ .panic := by
  unfold Gemfile.parse; split; split <;> simp

theorem C02_dpkg_total (bytes : List Char) : Dpkg.parse bytes ≠ .panic := by
  unfold Dpkg.parse; simp only []; split <;> simp

theorem C02_requirements_total (bytes : List Char) : Requirements.parse bytes ≠ .panic := by
  unfold Requirements.parse; split; simp only []; split <;> simp

/-- every iteration bound used by the models is generous: the apk and dpkg record loops are given `lines + 2`
iterations, and each iteration consumes at least one line or ends the loop (stated here for the scanner: the
number of lines never exceeds the number of bytes + 1, so the bound is finite and computable up front) -/
theorem C02_scan_lines_bounded (bytes : List Char) : (scan bytes).1.length ≤ bytes.length + 1 := by
  unfold scan
  simp only [List.length_map]
  have hch : ∀ (s cur : List Char), (chunks s cur).length ≤ s.length + 1 := by
    intro s
    induction s with
    | nil => intro cur; simp [chunks]; split <;> simp
    | cons c s ih =>
      intro cur
      simp only [chunks]
      split
      · have := ih []; simp only [List.length_cons]; omega
      · have := ih (c :: cur); simp only [List.length_cons]; omega
  have htw : ∀ (p : List Char → Bool) (l : List (List Char)), (l.takeWhile p).length ≤ l.length := by
    intro p l
    induction l with
    | nil => simp
    | cons x xs ih => rw [List.takeWhile_cons]; split <;> simp <;> omega
  exact Nat.le_trans (htw _ _) (hch bytes [])

end Scalibr.Parsers

namespace Scalibr.Lockfiles
/-- the record loop of package-lock.json never panics, for ANY decoded document (alias without `@version`,
alias `npm:@scope/x`, `npm:` alone, …) -/
theorem C02_packagelock_total (d : PackageLock.Doc) : PackageLock.extract d ≠ .panic := by
  unfold PackageLock.extract
  cases d.packages with
  | some ps => simp
  | none =>
    obtain ⟨m, hm, _⟩ := PackageLock.parseDeps_spec d.dependencies [] (by simp [keys])
    simp [hm]

/-- the record loop of Pipfile.lock never panics (`Version[2:]` is guarded) -/
theorem C02_pipfile_total (d : Pipfile.Doc) : Pipfile.extract d ≠ .panic := by
  unfold Pipfile.extract
  rw [Pipfile.addPkgs_eq]; simp only []
  rw [Pipfile.addPkgs_eq]; simp

/-- the witness of fix 7578723d, on the model: `"npm:foo"` is an alias without version, not a crash -/
example : PackageLock.depEntry "x".toList "npm:foo".toList [] = some ("foo@npm:foo".toList, ⟨"foo".toList, [], []⟩) := by decide
example : PackageLock.depEntry "x".toList "npm:".toList [] = some ("@npm:".toList, ⟨[], [], []⟩) := by decide
end Scalibr.Lockfiles
