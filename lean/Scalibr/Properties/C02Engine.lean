/-
C02 — engine-level part: what the walk-engine model says about an extractor that fails or panics.
(This module was re-created after the original text of the engine theorems was overwritten by the parser
totality file `Properties/C02.lean`; the statements below are re-derived from the walk-engine results
`run_nopanic`, `run_spec`, `run_results` and `C09_status_meaning`.)
-/
import Scalibr.Properties.C09
namespace Scalibr.Walk

/-- The engine has no `recover`: a scan ends in a panic ONLY IF some extractor's `Extract` panics on some
path — whatever the trees, fault plans, limits, options and cancellation point. (Contrapositive of
`C09_no_panic`.) -/
theorem C02_panic_only_from_extractor (c : Cfg) (roots : List (Node × Faults)) (h : (run c roots).err = .panic) :
    ∃ e p, (c.extract e p).panics = true := by
  apply Classical.byContradiction
  intro hn
  have hx : NoExtractorPanic c := by
    intro e p
    cases hp : (c.extract e p).panics with
    | false => rfl
    | true => exact absurd ⟨e, p, hp⟩ hn
  exact run_nopanic c hx roots h

theorem pkgsOfCalls_filter (c : Cfg) (e0 : Nat) (p0 : Path) (cs : List Call) :
    (pkgsOfCalls c cs).filter (fun k => !(k.ext = e0 && k.loc = p0))
      = pkgsOfCalls c (cs.filter fun cl => !(cl.ext = e0 && cl.path = p0)) := by
  induction cs with
  | nil => rfl
  | cons cl cs ih =>
    have hcons : pkgsOfCalls c (cl :: cs) = pkgsOfCalls c [cl] ++ pkgsOfCalls c cs := pkgsOfCalls_append c [cl] cs
    rw [hcons, List.filter_append, ih]
    by_cases hk : (cl.ext = e0 && cl.path = p0) = true
    · have h1 : (pkgsOfCalls c [cl]).filter (fun k => !(k.ext = e0 && k.loc = p0)) = [] := by
        rw [List.filter_eq_nil_iff]
        intro k hkm
        simp only [pkgsOfCalls, List.flatMap_cons, List.flatMap_nil, List.append_nil] at hkm
        split at hkm
        · obtain ⟨i, _, rfl⟩ := List.mem_map.mp hkm
          simpa using hk
        · simp at hkm
      rw [h1, List.filter_cons_of_neg (by simpa using hk)]; rfl
    · have h1 : (pkgsOfCalls c [cl]).filter (fun k => !(k.ext = e0 && k.loc = p0)) = pkgsOfCalls c [cl] := by
        rw [List.filter_eq_self]
        intro k hkm
        simp only [pkgsOfCalls, List.flatMap_cons, List.flatMap_nil, List.append_nil] at hkm
        split at hkm
        · obtain ⟨i, _, rfl⟩ := List.mem_map.mp hkm
          cases hb' : (cl.ext = e0 && cl.path = p0) with
          | true => exact absurd hb' hk
          | false => simp [hb']
        · simp at hkm
      have hk' : (!(cl.ext = e0 && cl.path = p0)) = true := by
        cases hb' : (cl.ext = e0 && cl.path = p0) with
        | true => exact absurd hb' hk
        | false => rfl
      have hf : (cl :: cs).filter (fun cl => !(cl.ext = e0 && cl.path = p0))
          = cl :: cs.filter (fun cl => !(cl.ext = e0 && cl.path = p0)) := by
        simp only [List.filter_cons, hk', if_true]
      rw [h1, hf]
      exact (pkgsOfCalls_append c [cl] _).symm

/-- **Confinement.** In a scan without limits / cancellation / fatal-errors option and with extractors that do
not panic, whatever `Extract` returns for extractor `e0` on file `p0` (an error, a partial inventory, nothing):
the scan itself does not fail; the invocations made are exactly the ones the specification owes (`mustExtract`,
which never looks at an `Extract` result); the packages NOT produced by (`e0`, `p0`) are exactly what the other
invocations returned; and an extractor's status is `failed`/`partial` exactly when one of ITS OWN attempts
failed. -/
theorem C02_confined_benign (c : Cfg) (hb : Benign c) (roots : List (Node × Faults)) (ho : GiOK c) (e0 : Nat) (p0 : Path) :
    (run c roots).err = .none ∧
    (run c roots).calls = mustExtract c roots ∧
    (run c roots).pkgs.filter (fun k => !(k.ext = e0 && k.loc = p0))
      = pkgsOfCalls c ((mustExtract c roots).filter fun cl => !(cl.ext = e0 && cl.path = p0)) ∧
    (run c roots).statuses = roots.flatMap (fun (r, f) => (List.range c.nExt).map fun e => (e, statusSpec c f r e)) ∧
    ∀ (f : Faults) (root : Node) (e : Nat), statusSpec c f root e ≠ .ok ↔
      ∃ cl ∈ mustRoot c f root, cl.ext = e ∧ (cl.opened = false ∨ (c.extract cl.ext cl.path).err = true) := by
  obtain ⟨h1, h2⟩ := run_spec c hb roots ho
  obtain ⟨h3, h4⟩ := run_results c hb roots ho
  refine ⟨h1, h2, ?_, h4, fun f root e => (C09_status_meaning c f root e).1⟩
  rw [h3, pkgsOfCalls_filter]

/-- the configuration in which `Extract` of extractor `e0` on file `p0` has outcome `out`; everything else as in `c` -/
def withOutcome (c : Cfg) (e0 : Nat) (p0 : Path) (out : ExtractOut) : Cfg :=
  { c with extract := fun e p => if e = e0 ∧ p = p0 then out else c.extract e p }

theorem withOutcome_other (c : Cfg) (e0 : Nat) (p0 : Path) (out : ExtractOut) (e : Nat) (p : Path)
    (h : ¬ (e = e0 ∧ p = p0)) : (withOutcome c e0 p0 out).extract e p = c.extract e p := by
  simp [withOutcome, h]

theorem withOutcome_benign {c : Cfg} (hb : Benign c) (e0 : Nat) (p0 : Path) (out : ExtractOut) (ho : out.panics = false) :
    Benign (withOutcome c e0 p0 out) := by
  obtain ⟨h1, h2, h3, h4, h5⟩ := hb
  refine ⟨h1, h2, h3, h4, ?_⟩
  intro e p
  by_cases h : e = e0 ∧ p = p0
  · simp [withOutcome, h, ho]
  · rw [withOutcome_other c e0 p0 out e p h]; exact h5 e p

/-- the specification never looks at an `Extract` result -/
theorem mustExtract_withOutcome (c : Cfg) (e0 : Nat) (p0 : Path) (out : ExtractOut) (roots : List (Node × Faults)) :
    mustExtract (withOutcome c e0 p0 out) roots = mustExtract c roots := rfl
theorem mustRoot_withOutcome (c : Cfg) (e0 : Nat) (p0 : Path) (out : ExtractOut) (f : Faults) (r : Node) :
    mustRoot (withOutcome c e0 p0 out) f r = mustRoot c f r := rfl

theorem pkgsOfCalls_congr (c c' : Cfg) (cs : List Call)
    (h : ∀ cl ∈ cs, c'.extract cl.ext cl.path = c.extract cl.ext cl.path) : pkgsOfCalls c' cs = pkgsOfCalls c cs := by
  induction cs with
  | nil => rfl
  | cons cl cs ih =>
    have h1 := h cl (by simp)
    have h2 := ih (fun x hx => h x (by simp [hx]))
    simp only [pkgsOfCalls, List.flatMap_cons] at h2 ⊢
    rw [h1, h2]

theorem errs_contains_congr (c c' : Cfg) (e : Nat) (cs : List Call)
    (h : ∀ cl ∈ cs, cl.ext = e → c'.extract cl.ext cl.path = c.extract cl.ext cl.path) :
    (errsOfCalls c' cs).contains e = (errsOfCalls c cs).contains e := by
  induction cs with
  | nil => rfl
  | cons cl cs ih =>
    have h2 := ih (fun x hx => h x (by simp [hx]))
    have e1 : errsOfCalls c' (cl :: cs) = errsOfCalls c' [cl] ++ errsOfCalls c' cs := errsOfCalls_append c' [cl] cs
    have e2 : errsOfCalls c (cl :: cs) = errsOfCalls c [cl] ++ errsOfCalls c cs := errsOfCalls_append c [cl] cs
    rw [e1, e2, List.contains_append, List.contains_append, h2]
    congr 1
    by_cases he : cl.ext = e
    · have := h cl (by simp) he
      simp only [errsOfCalls, List.flatMap_cons, List.flatMap_nil, List.append_nil, this]
    · simp only [errsOfCalls, List.flatMap_cons, List.flatMap_nil, List.append_nil]
      have he' : ¬ e = cl.ext := fun x => he x.symm
      split <;> split <;> simp [he']

theorem found_contains_congr (c c' : Cfg) (e : Nat) (cs : List Call)
    (h : ∀ cl ∈ cs, cl.ext = e → c'.extract cl.ext cl.path = c.extract cl.ext cl.path) :
    (foundOfCalls c' cs).contains e = (foundOfCalls c cs).contains e := by
  induction cs with
  | nil => rfl
  | cons cl cs ih =>
    have h2 := ih (fun x hx => h x (by simp [hx]))
    have e1 : foundOfCalls c' (cl :: cs) = foundOfCalls c' [cl] ++ foundOfCalls c' cs := foundOfCalls_append c' [cl] cs
    have e2 : foundOfCalls c (cl :: cs) = foundOfCalls c [cl] ++ foundOfCalls c cs := foundOfCalls_append c [cl] cs
    rw [e1, e2, List.contains_append, List.contains_append, h2]
    congr 1
    by_cases he : cl.ext = e
    · have := h cl (by simp) he
      simp only [foundOfCalls, List.flatMap_cons, List.flatMap_nil, List.append_nil, this]
    · simp only [foundOfCalls, List.flatMap_cons, List.flatMap_nil, List.append_nil]
      have he' : ¬ e = cl.ext := fun x => he x.symm
      split <;> split <;> simp [he']

theorem filter_status_map (g : Nat → Status) (e0 : Nat) (l : List Nat) :
    ((l.map fun e => (e, g e)).filter fun x => x.1 != e0) = (l.filter fun e => e != e0).map fun e => (e, g e) := by
  induction l with
  | nil => rfl
  | cons a l ih =>
    simp only [List.map_cons, List.filter_cons, ih]
    split <;> simp

/-- **Confinement, two-scan form (C02, second sentence, at full strength on the engine model).**
Take any scan without limits / cancellation / fatal-errors option, and change NOTHING but the outcome of `Extract`
for one extractor `e0` on one file `p0` — to an error, a partial inventory, an empty result, anything but a panic.
Then the second scan also completes; it makes exactly the same extraction attempts; every package that does not come
from (`e0`, `p0`) is reported identically, in the same order; and the status of every OTHER extractor, in every root,
is the same. -/
theorem C02_confined_two_benign (c : Cfg) (hb : Benign c) (roots : List (Node × Faults)) (hg : GiOK c)
    (e0 : Nat) (p0 : Path) (out : ExtractOut) (ho : out.panics = false) :
    let c' := withOutcome c e0 p0 out
    (run c' roots).err = .none ∧ (run c roots).err = .none ∧
    (run c' roots).calls = (run c roots).calls ∧
    (run c' roots).pkgs.filter (fun k => !(k.ext = e0 && k.loc = p0))
      = (run c roots).pkgs.filter (fun k => !(k.ext = e0 && k.loc = p0)) ∧
    (run c' roots).statuses.filter (fun x => x.1 != e0) = (run c roots).statuses.filter (fun x => x.1 != e0) := by
  intro c'
  have hb' : Benign c' := withOutcome_benign hb e0 p0 out ho
  have hg' : GiOK c' := hg
  obtain ⟨a1, a2⟩ := run_spec c hb roots hg
  obtain ⟨b1, b2⟩ := run_spec c' hb' roots hg'
  obtain ⟨a3, a4⟩ := run_results c hb roots hg
  obtain ⟨b3, b4⟩ := run_results c' hb' roots hg'
  refine ⟨b1, a1, ?_, ?_, ?_⟩
  · rw [a2, b2]; rfl
  · rw [a3, b3, pkgsOfCalls_filter, pkgsOfCalls_filter, mustExtract_withOutcome]
    apply pkgsOfCalls_congr
    intro cl hcl
    apply withOutcome_other
    have := (List.mem_filter.mp hcl).2
    intro hh
    simp [hh.1, hh.2] at this
  · rw [a4, b4]
    have hn : c'.nExt = c.nExt := rfl
    rw [hn]
    simp only [List.filter_flatMap]
    congr 1
    funext rf
    obtain ⟨r, f⟩ := rf
    rw [filter_status_map, filter_status_map]
    apply List.map_congr_left
    intro e he
    have hne : e ≠ e0 := by
      have := (List.mem_filter.mp he).2
      simpa using this
    have hcong : ∀ cl ∈ mustRoot c f r, cl.ext = e → c'.extract cl.ext cl.path = c.extract cl.ext cl.path := by
      intro cl _ hce
      apply withOutcome_other
      intro hh; exact hne (hce ▸ hh.1)
    have hm : mustRoot c' f r = mustRoot c f r := rfl
    have h1 := errs_contains_congr c c' e (mustRoot c f r) hcong
    have h2 := found_contains_congr c c' e (mustRoot c f r) hcong
    simp only [statusSpec, hm, h1, h2]


/-- non-vacuity: the example configuration of C01 is benign with a lawful matcher, and replacing the outcome of
extractor 0 on `a/x` by an error is a legal instance -/
example : Benign (withOutcome { nExt := 2, required := fun _ _ => true, extract := fun _ _ => {}, giMatch := matcherMatch } 0 ["a", "x"] { err := true }) :=
  withOutcome_benign ⟨rfl, rfl, rfl, rfl, fun _ _ => rfl⟩ _ _ _ rfl

end Scalibr.Walk
