/-
C20 — Detectors see all extracted packages and their findings are reported intact.

All theorems are for ALL detector lists (detectors are arbitrary functions of the index), all finding
lists — nil entries included — and all inventories; helper lemmas live in `Scalibr.Proofs.Detector` /
`Scalibr.Proofs.Index`. The model is the code after fix e8c67092 (findings are tagged on a copy, a nil
entry fails the scan), so tagging holds for shared finding objects too.

ENTRY CONDITION (audit-2, finding 13). `run` / `scanTail` describe `detector.Run` and the tail of `Scan` ENTERED WITH A
LIVE CONTEXT AFTER THE EARLIER PHASES RETURNED NO ERROR: `run` starts its loop with `cancelled := false`, and a
`ScanIn` is what `filesystem.Run` and `standalone.Run` delivered. `NoCancel` speaks of the detectors only. What
happens otherwise is stated, not hidden: `C20_cancelled_at_entry` (context already cancelled when `detector.Run` is
entered, e.g. by the last standalone extractor: no detector runs, no detector status, `ctx.Err()`), and, for the
whole phase sequence — an earlier phase failing, cancellation before the scan or inside any earlier plugin —
`Scalibr.Phases` (C10): `C10_plugins_detector_entry` says which entry state `Scan` hands to the detector loop and
`C10_plugins_detector_models_agree` that the two models of that loop agree from every entry state.

Naming: a theorem with a hypothesis the full statement needs is `…_partial`. Two hypotheses occur:
* `NoCancel` — no detector cancels the scan's context while another detector is still to run (then the
  remaining detectors are skipped by design and the scan fails; `C20_once_prefix` and C10's
  `Scalibr.Phases` cover that case). Without it the statements are false, by design of the code.
The property's sentence about inconsistent FINDINGS is read over all findings a scan collects — those carried by
the extractors' inventories included (`ConsistentAll`). Since fix 89f87523 `Scan` validates them together with the
detectors' (`detector.ValidateAdvisories(sro.Inventory.Findings)`), so the scan-level statements hold at full
strength: `C20_scan_status_partial` (needs only `NoCancel`), `C20_emitted_consistent` and `C20_no_sort_panic`
(no hypothesis at all).
-/
import Scalibr.Proofs.Detector
import Scalibr.Proofs.Index
namespace Scalibr.Detector
open Scalibr.Index

/-! ### detector.Run -/

/-- Each detector's `Scan` is called exactly once, in configuration order, each time with the very
index `Run` was given. -/
theorem C20_once_partial (ds : List Detector) (px : PkgMap) (hn : NoCancel ds) :
    (run ds px).calls = ds.map (fun d => (d.name, px)) := by
  have h := (runLoop_nocancel px ds {} rfl rfl hn).2.2.1
  unfold run
  simp only []
  split
  · simpa using h
  · split <;> simpa using h

/-- `run` is `detector.Run` entered with a live context (the entry condition of every `C20_*_partial` theorem). -/
theorem C20_entry_live (ds : List Detector) (px : PkgMap) : runFrom false ds px = run ds px := rfl

/-- Entered with the context ALREADY CANCELLED (the last plugin of an earlier phase cancelled it): no detector is
called, no status entry is produced, `Run` returns `ctx.Err()` — unless there is no detector at all. -/
theorem C20_cancelled_at_entry (ds : List Detector) (px : PkgMap) (h : ds ≠ []) :
    (runFrom true ds px).calls = [] ∧ (runFrom true ds px).status = [] ∧ (runFrom true ds px).findings = [] ∧
    (runFrom true ds px).err = some .ctx := by
  cases ds with
  | nil => exact absurd rfl h
  | cons d ds => simp [runFrom, runLoop]

/-- Without any hypothesis: never twice, never out of order, never another index — the calls are a
prefix of the configured detectors (a proper prefix only after a cancellation). -/
theorem C20_once_prefix (ds : List Detector) (px : PkgMap) :
    ∃ k, (run ds px).calls = (ds.take k).map (fun d => (d.name, px)) := by
  obtain ⟨k, hk⟩ := runLoop_calls_prefix px ds {}
  refine ⟨k, ?_⟩
  unfold run
  simp only []
  split
  · simpa using hk
  · split <;> simpa using hk

/-- One status entry per detector, in order: failed iff that detector's `Scan` returned an error —
whether or not the advisories are consistent. -/
theorem C20_status_partial (ds : List Detector) (px : PkgMap) (hn : NoCancel ds) :
    (run ds px).status = specStatus ds px := by
  obtain ⟨_, h2, _, h5⟩ := runLoop_nocancel px ds {} rfl rfl hn
  unfold run
  simp only [h5, Bool.false_eq_true, if_false]
  split <;> simpa using h2

/-- `validateAdvisories` accepts exactly the consistent finding lists (no nil entry, every finding has an
advisory with an ID, equal IDs carry identical advisories). -/
theorem C20_validate_spec (fs : List (Option Finding)) : validate fs [] = none ↔ Consistent fs :=
  validate_spec fs

/-- Consistent advisories: `Run` succeeds and returns every finding of every detector, in order, untouched
except for the tag naming ITS detector — whatever objects the detectors share (no pointer hypothesis any more;
`_partial` is for `NoCancel`). Audit note: since the repaired code copies, the model's loop is a `flatMap` of
`tagResults`, and `tag = tagCopy` by `rfl`; what this theorem adds over the definition is that validation
lets exactly the consistent lists through and that nothing is dropped (`consistent_no_nil`); that the Go loop
IS this `flatMap` (copies, no write to the detector's object) is the stream's `find=`/`mut=0` comparison. -/
theorem C20_tagged_partial (ds : List Detector) (px : PkgMap) (hn : NoCancel ds)
    (hc : Consistent (specFindings ds px)) :
    (run ds px).findings.map some = specFindings ds px ∧ (run ds px).err = none := by
  obtain ⟨h1, _, _, h5⟩ := runLoop_nocancel px ds {} rfl rfl hn
  have hf : (runLoop px ds {}).findings = specFindings ds px := by simpa using h1
  have hv : validate (specFindings ds px) [] = none := (validate_spec _).2 hc
  unfold run
  simp only [h5, Bool.false_eq_true, if_false, hf, hv]
  exact ⟨consistent_no_nil _ hc, trivial⟩

/-- Two detectors returning the SAME finding object: it is reported twice, once tagged with each
detector (before fix e8c67092 both copies carried the second detector's name). -/
def sharedF : Finding := ⟨1, some ⟨some (0, [7]), 0⟩, 0, [], []⟩
def sharedDs : List Detector :=
  [⟨"d1", fun _ => ([some sharedF], false), false⟩, ⟨"d2", fun _ => ([some sharedF], false), false⟩]
theorem C20_tagged_shared_pointer :
    (run sharedDs []).findings = [tag "d1" sharedF, tag "d2" sharedF] ∧ (run sharedDs []).err = none := by
  refine ⟨by decide, by decide⟩

/-- Inconsistent findings — two findings share an advisory ID but differ in content, a finding lacks an
advisory or an advisory ID, or a detector returned a NIL finding: `Run` returns an error and NO
findings, and still one status per detector. -/
theorem C20_inconsistent_partial (ds : List Detector) (px : PkgMap) (hn : NoCancel ds)
    (hc : ¬ Consistent (specFindings ds px)) :
    (run ds px).err ≠ none ∧ (run ds px).findings = [] ∧ (run ds px).status = specStatus ds px := by
  obtain ⟨h1, h2, _, h5⟩ := runLoop_nocancel px ds {} rfl rfl hn
  have hf : (runLoop px ds {}).findings = specFindings ds px := by simpa using h1
  have hv : validate (runLoop px ds {}).findings [] ≠ none := by
    intro hv; rw [hf] at hv; exact hc ((validate_spec _).1 hv)
  unfold run
  simp only [h5, Bool.false_eq_true, if_false]
  cases hval : validate (runLoop px ds {}).findings [] with
  | none => exact absurd hval hv
  | some e => exact ⟨by simp, rfl, by simpa using h2⟩

/-- A nil entry in any detector's result is such an inconsistency. -/
theorem C20_nil_finding_partial (ds : List Detector) (px : PkgMap) (hn : NoCancel ds)
    (hnil : ∃ d ∈ ds, none ∈ (d.scan px).1) :
    (run ds px).err ≠ none ∧ (run ds px).findings = [] := by
  have hc : ¬ Consistent (specFindings ds px) := by
    rintro ⟨h, _⟩
    obtain ⟨d, hd, hm⟩ := hnil
    have : (none : Option Finding) ∈ specFindings ds px := by
      unfold specFindings
      rw [List.mem_flatMap]
      exact ⟨d, hd, List.mem_map.2 ⟨none, hm, rfl⟩⟩
    obtain ⟨f, _, _, hx, _, _⟩ := h none this
    cases hx
  exact ⟨(C20_inconsistent_partial ds px hn hc).1, (C20_inconsistent_partial ds px hn hc).2.1⟩

/-- … and conversely an error of `Run` (without cancellation) always means inconsistent findings:
a detector's own error never fails the run. -/
theorem C20_error_iff_partial (ds : List Detector) (px : PkgMap) (hn : NoCancel ds) :
    (run ds px).err = none ↔ Consistent (specFindings ds px) := by
  constructor
  · intro h
    apply Classical.byContradiction
    intro hc
    exact (C20_inconsistent_partial ds px hn hc).1 h
  · intro h; exact (C20_tagged_partial ds px hn h).2

/-- What `Run` returns on success holds no nil entry (so giving it as a list of findings loses nothing). -/
theorem C20_run_no_nil_partial (ds : List Detector) (px : PkgMap) (hn : NoCancel ds) (h : (run ds px).err = none) :
    (run ds px).findings.map some = (runLoop px ds {}).findings := by
  have hc := (C20_error_iff_partial ds px hn).1 h
  obtain ⟨h1, _, _, _⟩ := runLoop_nocancel px ds {} rfl rfl hn
  rw [(C20_tagged_partial ds px hn hc).1]; simpa using h1.symm

/-! The index laws (`new_getSpecific`, `new_getAllOfType`, `new_getAll`, `new_has`, `new_only`) are proved in
`Scalibr.Proofs.Index`; C14 states them as its own property theorems. -/

/-! ### tail of Scan -/

/-- Every detector is called once, in order, with the index of exactly the packages extracted in this
scan (filesystem ++ standalone), which answers every query as a filter of that list. -/
theorem C20_index_partial (i : ScanIn) (hn : NoCancel i.dets) :
    (scanTail i).calls = i.dets.map (fun d => (d.name, Index.new (i.fsPkgs ++ i.stPkgs))) ∧
    (∀ n t, getSpecific (Index.new (i.fsPkgs ++ i.stPkgs)) n t = specSpecific (i.fsPkgs ++ i.stPkgs) n t) ∧
    (∀ t, (getAllOfType (Index.new (i.fsPkgs ++ i.stPkgs)) t).Perm (specOfType (i.fsPkgs ++ i.stPkgs) t)) ∧
    (getAll (Index.new (i.fsPkgs ++ i.stPkgs))).Perm (specAll (i.fsPkgs ++ i.stPkgs)) :=
  ⟨C20_once_partial _ _ hn, fun n t => new_getSpecific _ n t, fun t => new_getAllOfType _ t, new_getAll _⟩

/-- what `Scan` validates is the specification's list of all findings (extractor-emitted ++ tagged detector findings) whenever
`detector.Run` itself succeeded -/
theorem scan_validates_all (i : ScanIn) (hn : NoCancel i.dets)
    (hr : (run i.dets (Index.new (i.fsPkgs ++ i.stPkgs))).err = none) :
    (i.fsFindings ++ i.stFindings ++ (run i.dets (Index.new (i.fsPkgs ++ i.stPkgs))).findings).map some = allFindings i := by
  have hc := (C20_error_iff_partial i.dets _ hn).1 hr
  unfold allFindings
  rw [List.map_append, (C20_tagged_partial i.dets _ hn hc).1]

/-- STATUS, full strength over ALL findings (`_partial` only for `NoCancel`): the scan reports failure exactly when
the findings it collected — the extractors' and the detectors' together — are inconsistent: two of them share an
advisory ID and differ in content, or one lacks an advisory or an advisory ID (or is nil). A failing detector
alone does not fail the scan. -/
theorem C20_scan_status_partial (i : ScanIn) (hn : NoCancel i.dets) :
    (scanTail i).failed = false ↔ ConsistentAll i := by
  unfold scanTail scanFindings ConsistentAll
  simp only []
  cases hr : (run i.dets (Index.new (i.fsPkgs ++ i.stPkgs))).err with
  | none =>
    rw [← scan_validates_all i hn hr, ← validate_spec]
    cases hv : validate ((i.fsFindings ++ i.stFindings ++ (run i.dets (Index.new (i.fsPkgs ++ i.stPkgs))).findings).map some) [] <;>
      simp [hv, hr]
  | some e =>
    have hnc : ¬ Consistent (specFindings i.dets (Index.new (i.fsPkgs ++ i.stPkgs))) := by
      intro hc; rw [(C20_error_iff_partial i.dets _ hn).2 hc] at hr; cases hr
    have hna : ¬ Consistent (allFindings i) := fun h => hnc (consistent_append_right _ _ h)
    constructor
    · intro h
      exfalso
      revert h
      split <;> simp [hr]
    · intro h; exact absurd h hna

/-- TAGGED, scan level: consistent findings ⇒ the scan succeeds and reports (as a sorted permutation) exactly all of
them — the extractors' as they are, every detector finding tagged with its detector. -/
theorem C20_tagged_scan_partial (i : ScanIn) (hn : NoCancel i.dets) (hc : ConsistentAll i) :
    (scanTail i).failed = false ∧ ((scanTail i).findings.map some).Perm (allFindings i) := by
  refine ⟨(C20_scan_status_partial i hn).2 hc, ?_⟩
  have hcs : Consistent (specFindings i.dets (Index.new (i.fsPkgs ++ i.stPkgs))) := consistent_append_right _ _ hc
  have hr := (C20_error_iff_partial i.dets _ hn).2 hcs
  have hall := scan_validates_all i hn hr
  have hv : validate ((i.fsFindings ++ i.stFindings ++ (run i.dets (Index.new (i.fsPkgs ++ i.stPkgs))).findings).map some) [] = none := by
    rw [hall]; exact (validate_spec _).2 hc
  unfold scanTail scanFindings
  simp only [hv]
  rw [← hall]
  exact (isort_perm _ _).map some

/-- Scan level, statuses: the plugin statuses are (a sorted permutation of) the extractors' statuses
plus one entry per detector reflecting whether it failed. -/
theorem C20_status_scan_partial (i : ScanIn) (hn : NoCancel i.dets) :
    (scanTail i).pluginStatus.Perm
      (i.fsStatus ++ i.stStatus ++ specStatus i.dets (Index.new (i.fsPkgs ++ i.stPkgs))) := by
  unfold scanTail
  simp only [C20_status_partial i.dets _ hn]
  exact isort_perm _ _

/-- NEVER INCONSISTENT — for every scan, with or without cancellation, whatever extractors and detectors return: the
findings a scan emits are consistent (every one has an advisory with an ID, equal IDs carry identical advisories).
"The scan reports failure INSTEAD OF emitting inconsistent findings." -/
theorem C20_emitted_consistent (i : ScanIn) : Consistent ((scanTail i).findings.map some) := by
  have h := scanFindings_consistent i
  unfold scanTail
  simp only []
  exact consistent_perm _ _ ((isort_perm findingLt (scanFindings i).1).symm.map some) h

/-- INCONSISTENT, scan level, over ALL findings: the scan reports failure and emits no detector finding; what it
still emits is nothing at all, or — when the detectors' findings were the inconsistent ones and `detector.Run`
already discarded them — the extractors' findings, consistent among themselves (`C20_emitted_consistent`). -/
theorem C20_inconsistent_scan_partial (i : ScanIn) (hn : NoCancel i.dets) (hc : ¬ ConsistentAll i) :
    (scanTail i).failed = true ∧
    ((scanTail i).findings = [] ∨ (scanTail i).findings.Perm (i.fsFindings ++ i.stFindings)) := by
  have hf : (scanTail i).failed = true := by
    cases h : (scanTail i).failed with
    | true => rfl
    | false => exact absurd ((C20_scan_status_partial i hn).1 h) hc
  refine ⟨hf, ?_⟩
  unfold scanTail scanFindings
  simp only []
  cases hv : validate ((i.fsFindings ++ i.stFindings ++ (run i.dets (Index.new (i.fsPkgs ++ i.stPkgs))).findings).map some) [] with
  | some e => left; simp [isort]
  | none =>
    right
    cases hr : (run i.dets (Index.new (i.fsPkgs ++ i.stPkgs))).err with
    | none =>
      exfalso
      apply hc
      unfold ConsistentAll
      rw [← scan_validates_all i hn hr]
      exact (validate_spec _).1 hv
    | some e =>
      simp only [run_err_findings _ _ e hr, List.append_nil]
      exact isort_perm _ _

/-- the two inputs of the repaired defect (known finding C20/extractor-findings-unvalidated until fix 89f87523): an
extractor's finding and a detector's share an advisory ID and differ in content; an extractor's finding lacks an
advisory (alone, and next to another one, where `sortResults` used to panic) — failure, no findings, no panic -/
def exfI : ScanIn :=
  ⟨[], [⟨1, some ⟨some (0, [7]), 0⟩, 1, [], []⟩], [], [], [], [],
   [⟨"d", fun _ => ([some ⟨2, some ⟨some (0, [7]), 1⟩, 2, [], []⟩], false), false⟩]⟩
def exfJ (n : Nat) : ScanIn :=
  ⟨[], (List.range n).map fun k => ⟨k, none, k, [], []⟩, [], [], [], [], []⟩
theorem C20_extractor_findings_validated_witness :
    (scanTail exfI).failed = true ∧ (scanTail exfI).findings = [] ∧
    (scanTail (exfJ 1)).failed = true ∧ (scanTail (exfJ 1)).findings = [] ∧
    (scanTail (exfJ 2)).failed = true ∧ (scanTail (exfJ 2)).findings = [] ∧ (scanTail (exfJ 2)).panics = false := by
  refine ⟨by decide, by decide, by decide, by decide, by decide, by decide, by decide⟩

/-- UNREACHABLE: `sortResults` never sees a finding without advisory or advisory ID — for EVERY scan (no hypothesis):
what reaches it passed `ValidateAdvisories` or is empty. The `panics` outcome of the model cannot occur. -/
theorem C20_no_sort_panic (i : ScanIn) : (scanTail i).panics = false := by
  have hk := consistent_keyed _ (scanFindings_consistent i)
  unfold scanTail
  simp only []
  have : ((scanFindings i).1.any fun f => (sortKey f).isNone) = false := by
    rw [List.any_eq_false]; intro f hf
    have := hk f hf
    cases h : sortKey f <;> simp_all
  simp [this]

/-! ### the gate in front of the phases -/

/-- GATE. `Scan` runs its phases — hence any detector at all — exactly when the specification's four conditions hold, and then the
result is the one of `scanTail` (to which every theorem above applies). -/
theorem C20_gate_runs_iff (e v : Bool) (n : Nat) (p : Bool) (i : ScanIn) :
    (∃ o, scanHead (preCheck e v n p) i = .ok o) ↔ Runs e v n p := by
  unfold Runs preCheck scanHead
  rcases Nat.eq_zero_or_pos n with h | h
  · subst h; cases e <;> cases v <;> cases p <;> simp
  · have hn : n ≠ 0 := by omega
    by_cases h1 : 1 < n
    · have hne : n ≠ 1 := by omega
      cases e <;> cases v <;> cases p <;> simp [hn, h1, h, hne]
    · have he : n = 1 := by omega
      subst he
      cases e <;> cases v <;> cases p <;> simp

/-- …and otherwise NOTHING runs: the outcome is the bare error (no `ScanOut`, so no detector call, no finding, no package, no plugin
status), and the error is the first unmet condition in the order enable, requirements, roots, files. -/
theorem C20_gate_blocked (e v : Bool) (n : Nat) (p : Bool) (i : ScanIn) (h : ¬ Runs e v n p) :
    ∃ err, scanHead (preCheck e v n p) i = .error err ∧ specReason e v n p = some err := by
  unfold Runs at h
  unfold preCheck scanHead specReason
  rcases Nat.eq_zero_or_pos n with h0 | h0
  · subst h0; cases e <;> cases v <;> cases p <;> simp
  · have hn : n ≠ 0 := by omega
    by_cases h1 : 1 < n
    · have hne : n ≠ 1 := by omega
      cases e <;> cases v <;> cases p <;> simp_all
    · have he : n = 1 := by omega
      subst he
      cases e <;> cases v <;> cases p <;> simp_all

theorem C20_gate_ok (i : ScanIn) (e v : Bool) (n : Nat) (p : Bool) (h : Runs e v n p) :
    scanHead (preCheck e v n p) i = .ok (scanTail i) ∧ runsB e v n p = true := by
  obtain ⟨rfl, rfl, h0, h1⟩ := h
  unfold preCheck scanHead runsB
  have hn : n ≠ 0 := by omega
  cases p
  · simp [hn, h0]
  · have := h1 rfl; subst this; simp

/-! ### non-vacuity -/

def exA : Adv := ⟨some (1, [5]), 3⟩
def exB : Adv := ⟨some (1, [6]), 4⟩
/-- three detectors: two report the same advisory (identical bodies), one of them also fails with an
error, the third looks a package up in the index and reports one finding per hit -/
def exDs : List Detector :=
  [⟨"d1", fun _ => ([some ⟨1, some exA, 0, [], []⟩], false), false⟩,
   ⟨"d2", fun _ => ([some ⟨2, some exA, 0, [1], ["stale"]⟩, some ⟨3, some exB, 9, [], []⟩], true), false⟩,
   ⟨"d3", fun px => ((getSpecific px "n" "t").map fun p => some ⟨10 + p.id, some exB, p.id, [2], []⟩, false), false⟩]
def exPkgs : List Pkg := [⟨0, some ("t", "n")⟩, ⟨1, none⟩, ⟨2, some ("t", "m")⟩, ⟨3, some ("t", "n")⟩]

/-- the LAST detector may cancel the context: nothing is skipped -/
example : NoCancel [⟨"a", fun _ => ([], false), false⟩, ⟨"b", fun _ => ([], false), true⟩] := by
  intro d hd; simp at hd; rw [hd]
example : NoCancel exDs := by intro d hd; simp [exDs] at hd; rcases hd with rfl | rfl | rfl <;> rfl
example : consistentB (specFindings exDs (Index.new exPkgs)) = true := by decide
example : ((run exDs (Index.new exPkgs)).findings.map fun f => (f.ptr, f.detectors)) =
    [(1, ["d1"]), (2, ["d2"]), (3, ["d2"]), (10, ["d3"]), (13, ["d3"])] := by decide
example : (run exDs (Index.new exPkgs)).status = [⟨"d1", .succeeded⟩, ⟨"d2", .failed⟩, ⟨"d3", .succeeded⟩] := by decide
/-- inconsistent inputs exist: same ID with a different body; a nil entry -/
example : consistentB [some ⟨1, some ⟨some (1, [5]), 3⟩, 0, [], []⟩, some ⟨2, some ⟨some (1, [5]), 4⟩, 0, [], []⟩] = false := by decide
example : (run [⟨"d", fun _ => ([some sharedF, none], false), false⟩] []).err = some .nilFinding ∧
    (run [⟨"d", fun _ => ([some sharedF, none], false), false⟩] []).findings = [] := by
  refine ⟨by decide, by decide⟩

end Scalibr.Detector
