/-
C06 (unpack half) — loading or unpacking an image never creates, modifies or deletes anything outside the directory
designated for it, whatever entry names, link targets and entry orders the archive contains, and no symlink left
inside the target resolves to a location outside it.

Full-strength statement (`C06_unpack_contained`): for every sandbox state `s0` whose target directory `D` exists and
every tar stream `es`, `Contained D s0 (unpackAll D s0 es).1`.  The unchanged code does not satisfy it
(`C06_unpack_contained_fails`, DESIGN §6 #37: `symlink.TargetOutsideRoot` is lexical, so `s → /` followed by
`t → s/..` leaves a link inside the target that the kernel resolves to the target's parent).  Since fix dccd4936 nothing
is created THROUGH such a link any more: clause 1 ("nothing outside changes") holds for every stream
(`C06_unpack_outside_unchanged`); only clause 2 ("no link inside resolves outside") keeps the hypothesis.  The theorem in force is `C06_unpack_contained_partial` under the
decidable hypothesis `noDotDotTargets` (no relative link target has a `..` component); entry NAMES are unrestricted.

Scope (Audit-1): only `UnpackSquashedFromTarball` is modelled and proved about.  The other clauses of the property —
a scan never modifies the scanned tree or the working directory, temporary files are removed, the image's temporary
directory is gone after `CleanUp`, layer loading stays inside its extraction directory — are RUN-TIME OBSERVATIONS
(`harness/cmd/c06scan`, `checks/c06.py: scan_stream`; C04's loader model writes only below the layer directories by
construction of `Disk`), not theorems.

On the hypothesis (Audit-1, MEDIUM): `noDotDotTargets` is sufficient, not necessary — `usr/bin/x → ../lib/y` violates it
and is contained (`C06_hypothesis_only_sufficient`).  It is not weakened to "the target, resolved lexically from the
link's directory, stays inside", because that is exactly what the code checks and it is unsound (finding 37); and a
leading-`..`-only form is unsound as well when a link is placed THROUGH another link (`a/u → ..`, then
`a/u/v → ../x` lands at `<target>/v` and points outside).  A sound weakening has to bound the `..` count of each link
by the depth of the PHYSICAL directory the link ends up in, which depends on the state reached; not attempted.
-/
import Scalibr.Proofs.Unpack
namespace Scalibr.Unpack

theorem isPrefix_dropLast {D p : Path} (h : isPrefix D p = true) (hne : p ≠ D) : isPrefix D p.dropLast = true := by
  unfold isPrefix at h ⊢
  simp only [Bool.and_eq_true, decide_eq_true_eq, beq_iff_eq] at h ⊢
  obtain ⟨hl, ht⟩ := h
  have hlt : D.length < p.length := by
    rcases Nat.lt_or_ge D.length p.length with h' | h'
    · exact h'
    · exfalso; apply hne
      have : p.length = D.length := by omega
      rw [← ht, ← this, List.take_length]
  refine ⟨by rw [List.length_dropLast]; omega, ?_⟩
  rw [List.dropLast_eq_take, List.take_take]
  have hm : min D.length (p.length - 1) = D.length := by omega
  rw [hm]; exact ht

theorem Contained_of_Safe {D : Path} {s0 s : FS} (hS : Safe D s0 s) : Contained D s0 s := by
  obtain ⟨h1, h2, h3⟩ := hS
  refine ⟨h1, ?_⟩
  intro p t hp hg fuel r hr
  have hpne : p ≠ D := fun e => by subst e; rw [h3] at hg; cases hg
  unfold linkDest at hr
  apply resolve_inside D s h2 fuel _ t.comps r _ (h2 p t hp hg) hr
  split
  · exact isPrefix_refl D
  · exact isPrefix_dropLast hp hpne

theorem goodEntry_of_noDotDot {es : List TarEntry} (h : noDotDotTargets es = true) : ∀ e ∈ es, goodEntry e := by
  intro e he htyp habs
  unfold noDotDotTargets at h
  rw [List.all_eq_true] at h
  have := h e he
  simp [htyp, habs] at this
  exact this

/-- **C06 (unpack), partial form.** For every sandbox state whose target directory `D` exists and holds no link with
a `..` in its text, and every tar stream — any entry names (`..`, `.`, empty segments, absolute, prefix-confusable
siblings, over-long), any order, regular files, links, directories, anything else, three passes and the final
clean-up, whether or not the unpacker stops with an error — whose relative link targets contain no `..`:
nothing outside `D` changes and every link inside `D` that resolves, resolves inside `D`. -/
theorem C06_unpack_contained_partial (D : Path) (s0 : FS) (es : List TarEntry)
    (hD : s0.get D = some .dir)
    (h0 : ∀ p t, isPrefix D p = true → s0.get p = some (.link t) → ".." ∉ t.comps)
    (hes : noDotDotTargets es = true) :
    Contained D s0 (unpackAll D s0 es).1 :=
  Contained_of_Safe (unpackAll_safe es (goodEntry_of_noDotDot hes) ⟨fun _ _ => rfl, h0, hD⟩)

/-- **C06 (unpack), clause 1 at full strength (since fix dccd4936).** For every sandbox state whose target directory `D`
exists and EVERY tar stream — no hypothesis on names, link targets, order or types — unpacking creates, modifies and
deletes nothing outside `D`: every object is placed below a directory whose symlink-evaluated path was tested to be
inside `D` (regular files, links, directory entries and every level of `mkdirAllInside`), and the clean-up only
removes links below `D`. -/
theorem C06_unpack_outside_unchanged (D : Path) (s0 : FS) (es : List TarEntry) (hD : s0.get D = some .dir) :
    ∀ p, isPrefix D p = false → (unpackAll D s0 es).1.get p = s0.get p :=
  (unpackAll_safeG (good := fun _ => True) es (fun _ _ _ => trivial) ⟨fun _ _ => rfl, fun _ _ _ _ => trivial, hD⟩).1

/-- **… for every configuration of the unpacker**: symlink resolution retain or not (links written as copies of what
they point to), either symlink error strategy, any number of passes, any size limit, any requirer (with the bookkeeping of
required link targets), any working directory. -/
theorem C06_unpack_outside_unchanged_cfg (cfg : Cfg) (D : Path) (s0 : FS) (es : List TarEntry) (hD : s0.get D = some .dir) :
    ∀ p, isPrefix D p = false → (unpackAllC cfg D s0 es).1.get p = s0.get p :=
  (unpackAllC_safeG (good := fun _ => True) cfg es (fun _ _ _ => trivial) ⟨fun _ _ => rfl, fun _ _ _ _ => trivial, hD⟩).1

/-- … and when the tarball is cut inside its `k`-th entry (the unpacker returns an error part-way) -/
theorem C06_unpack_outside_unchanged_cut (cfg : Cfg) (D : Path) (s0 : FS) (es : List TarEntry) (k : Nat) (hD : s0.get D = some .dir) :
    ∀ p, isPrefix D p = false → (unpackAllCut cfg D s0 es k).1.get p = s0.get p :=
  (unpackAllCut_safeG (good := fun _ => True) cfg es k (fun _ _ _ => trivial) ⟨fun _ _ => rfl, fun _ _ _ _ => trivial, hD⟩).1

/-- the partial form, for every configuration -/
theorem C06_unpack_contained_cfg_partial (cfg : Cfg) (D : Path) (s0 : FS) (es : List TarEntry)
    (hD : s0.get D = some .dir)
    (h0 : ∀ p t, isPrefix D p = true → s0.get p = some (.link t) → ".." ∉ t.comps)
    (hes : noDotDotTargets es = true) :
    Contained D s0 (unpackAllC cfg D s0 es).1 :=
  Contained_of_Safe (unpackAllC_safe cfg es (goodEntry_of_noDotDot hes) ⟨fun _ _ => rfl, h0, hD⟩)

/-- the executable verdict the driver prints agrees with the first clause of `Contained` on the touched paths -/
theorem outsideUnchangedB_sound (D : Path) (s0 s : FS) (h : ∀ p, isPrefix D p = false → s.get p = s0.get p) :
    outsideUnchangedB D s0 s = true := by
  unfold outsideUnchangedB
  rw [List.all_eq_true]
  intro p _
  cases hp : isPrefix D p with
  | true => simp
  | false => simp [h p hp]

/-- the other direction for clause 2, on the touched paths: a contained state passes the driver's link test (the test
runs `resolve` with `fuelFor`, clause 2 quantifies over every fuel) -/
theorem linksInsideB_of_Contained (D : Path) (s0 s : FS) (h : Contained D s0 s) : linksInsideB D s = true := by
  unfold linksInsideB
  rw [List.all_eq_true]
  intro p _
  cases hp : isPrefix D p with
  | false => simp
  | true =>
    simp only [Bool.not_true, Bool.false_or]
    cases hg : s.get p with
    | none => rfl
    | some o =>
      cases o with
      | dir => rfl
      | file c => rfl
      | link t =>
        simp only
        cases hr : linkDest D s (fuelFor s t.comps) p t with
        | error e => rfl
        | ok r => exact h.2 p t hp hg _ r hr

/-- fuel (Audit-1 §1): `resolve`'s answer is independent of the fuel unless the fuel ran out … -/
theorem C06_fuel_monotone (D : Path) (s : FS) (fuel : Nat) (cur : Path) (cs : List String) (x : Except RErr Path)
    (h : resolve D s fuel cur cs = x) (hx : x ≠ .error .loop) (k : Nat) : resolve D s (fuel + k) cur cs = x :=
  resolve_fuel_mono D s fuel cur cs x h hx k

/-- … and the fuel the model uses (`fuelFor`: path length + 40 link texts) never runs out on a path that meets no
link, however long the name is -/
theorem C06_fuel_adequate_nolink (D : Path) (s : FS) (hnl : ∀ p t, s.get p ≠ some (.link t)) (cur : Path) (cs : List String) :
    resolveA D s cur cs ≠ .error .loop := by
  unfold resolveA fuelFor
  rw [show cs.length + 40 * (maxLinkLen s + 1) + 1 = cs.length + 1 + 40 * (maxLinkLen s + 1) by omega]
  exact resolve_nolink_adequate D s hnl cs cur _

/-- the resolution lemma on its own: the core of the containment argument -/
theorem C06_resolution_stays_inside (D : Path) (s : FS)
    (hl : ∀ p t, isPrefix D p = true → s.get p = some (.link t) → ".." ∉ t.comps)
    (fuel : Nat) (cur : Path) (cs : List String) (r : Path)
    (hcur : isPrefix D cur = true) (hcs : ".." ∉ cs) (h : resolve D s fuel cur cs = .ok r) : isPrefix D r = true :=
  resolve_inside D s hl fuel cur cs r hcur hcs h

/-! ### the full statement fails: finding 37 -/

def exD : Path := ["sb", "target"]
def exS0 : FS := ((⟨fun _ => none, []⟩ : FS).put [] .dir |>.put ["sb"] .dir |>.put ["sb", "target"] .dir)
def lnk (name : List String) (abs : Bool) (comps : List String) (raw : String) : TarEntry := ⟨'l', false, name, 0, abs, comps, raw, 0⟩
def reg (name : List String) (cid : Nat) : TarEntry := ⟨'r', false, name, cid, false, [""], "", 2⟩

/-- `s → /`, `t → s/..`: both pass the lexical check; the kernel resolves `target/t` to `sb`, outside the target -/
def ex37 : List TarEntry := [lnk ["s"] true ["", ""] "/", lnk ["t"] false ["s", ".."] "s/.."]

theorem C06_unpack_contained_fails :
    (unpackAll exD exS0 ex37).1.get ["sb", "target", "t"] = some (.link ⟨false, ["s", ".."], "s/.."⟩) ∧
    linkDest exD (unpackAll exD exS0 ex37).1 50 ["sb", "target", "t"] ⟨false, ["s", ".."], "s/.."⟩ = .ok ["sb"] ∧
    isPrefix exD ["sb"] = false ∧
    containedB exD exS0 (unpackAll exD exS0 ex37).1 = false :=
  ⟨by decide, by rfl, by decide, by decide⟩

theorem C06_unpack_not_contained : ¬ Contained exD exS0 (unpackAll exD exS0 ex37).1 := by
  intro h
  have := h.2 ["sb", "target", "t"] ⟨false, ["s", ".."], "s/.."⟩ (by decide) C06_unpack_contained_fails.1 50 ["sb"]
    C06_unpack_contained_fails.2.1
  exact absurd this (by decide)

/-- REPAIRED (fix dccd4936): through the escaping link nothing is created outside any more — neither the link `t/x` nor the
directory `t/d` (`mkdirAllInside`, and the link's evaluated parent is tested like a regular file's) -/
def ex37b : List TarEntry := ex37 ++ [lnk ["t", "x"] false ["y"] "y", reg ["t", "d", "f"] 1]
example :
    (unpackAll exD exS0 ex37b).1.get ["sb", "x"] = none ∧
    (unpackAll exD exS0 ex37b).1.get ["sb", "d"] = none ∧
    outsideUnchangedB exD exS0 (unpackAll exD exS0 ex37b).1 = true := by decide

/-- the hypothesis is only sufficient: an ordinary relative link with a leading `..` fails it and is contained -/
def exRel : List TarEntry := [reg ["usr", "lib", "y"] 1, lnk ["usr", "bin", "x"] false ["..", "lib", "y"] "../lib/y"]
theorem C06_hypothesis_only_sufficient :
    noDotDotTargets exRel = false ∧ containedB exD exS0 (unpackAll exD exS0 exRel).1 = true ∧
    (unpackAll exD exS0 exRel).1.get ["sb", "target", "usr", "bin", "x"] = some (.link ⟨false, ["..", "lib", "y"], "../lib/y"⟩) := by decide

/-- the witness violates the hypothesis, as it must -/
example : noDotDotTargets ex37 = false := by decide

/-! ### non-vacuity: a stream with hostile names, an absolute link, a link to a sibling directory and a write through
it satisfies the hypothesis, is unpacked non-trivially and is contained -/
def exOK : List TarEntry :=
  [ reg ["..", "target-evil", "x"] 1,            -- refused: outside
    reg ["a", "..", "..", "target", "b", "f"] 2, -- cleans to b/f inside
    lnk ["l"] true ["", "b"] "/b",               -- absolute link to target/b
    reg ["l", "g"] 3,                            -- written through the link
    lnk ["m"] false ["b", "f"] "b/f" ]
example : noDotDotTargets exOK = true := by decide
example : (unpackAll exD exS0 exOK).1.get ["sb", "target", "b", "f"] = some (.file 2) ∧
    (unpackAll exD exS0 exOK).1.get ["sb", "target", "b", "g"] = some (.file 3) ∧
    (unpackAll exD exS0 exOK).1.get ["sb", "target-evil"] = none ∧
    (unpackAll exD exS0 exOK).1.get ["sb", "target", "l"] = some (.link ⟨true, ["b"], ""⟩) ∧
    containedB exD exS0 (unpackAll exD exS0 exOK).1 = true := by decide
example : exS0.get exD = some .dir := by decide

/-! ### the non-retain mode reads a relative link target relative to the link (fix <P4>) -/

/-- sandbox with a working directory `w` holding a file `a` (content 99) -/
def exS0w : FS := (exS0.put ["w"] .dir).put ["w", "a"] (.file 99)
def cfgCopy : Cfg := { Cfg.dflt with retain := false, cwd := ["w"] }
/-- `usr/a` (content 1) and the link `usr/x -> a` beside it: the copy written for `usr/x` holds 1, whatever the working
directory has -/
theorem C06_unpack_nonretain_reads_beside_the_link :
    (unpackAllC cfgCopy exD exS0w [reg ["usr", "a"] 1, lnk ["usr", "x"] false ["a"] "a"]).1.get ["sb", "target", "usr", "x"] = some (.file 1) := by decide

end Scalibr.Unpack
