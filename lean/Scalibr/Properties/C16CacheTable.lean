/-
C16(b) — lock discipline of `RequestCache` (clients/datasource/cache.go).  Like C16Ticker.lean this module is the only one
that imports its regenerated table (lean/Scalibr/Gen/CacheAccess.lean, written by /verif/translator/cmd/tickerdump
`-struct RequestCache -mutex mu -anygoroutine` on every run) and is built and audited on its own.
-/
import Scalibr.Gen.CacheAccess
namespace Scalibr.C16

open Scalibr.Gen.CacheAccess in
/-- **C16_cache_guarded.**  The methods of `RequestCache` are called from any number of goroutines, so every function
of the table is on both "sides".  Over the regenerated table: the translator understood every lock region (including the
two early returns that release `mu` inside an `if`, and the final `Lock(); defer Unlock()`), and EVERY access to the
fields `cache` and `calls` — reads, map element assignments, `delete` — other than the initialisation of the fresh object
in `NewRequestCache` is lexically between `rq.mu.Lock()` and the matching `Unlock()` / deferred `Unlock()`; both fields are
in fact written, so the statement is not vacuous.
NOT covered by this table (observation only: the cache schedules of the harness run under the race detector): the fields
of `requestCacheCall` (`val`, `err`), which are deliberately written OUTSIDE `mu` by the goroutine that owns the call and
read by the waiters after `wg.Wait()` — their ordering comes from `sync.WaitGroup`, i.e. from the Go memory model; and
whatever the values `V` point to (the cache hands out shallow copies). -/
theorem C16_cache_guarded :
    table.wellFormed = true ∧
    (fields.idxOf "cache") ∈ table.sharedFields ∧ (fields.idxOf "calls") ∈ table.sharedFields ∧
    table.conflictsGuarded = true ∧ table.allSitesGuarded = true := by
  decide +kernel

end Scalibr.C16
