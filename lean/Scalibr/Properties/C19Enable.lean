/-
C19 (and, at Scan level, C01's "invoked exactly once / the inventory is exactly the union"): two set-union clauses.

* RESOLVING A LIST OF NAMES (`ExtractorsFromNames` / `DetectorsFromNames`, for detectors, filesystem and standalone
  extractors alike) is the set union of the single resolutions and yields no plugin twice, however the names overlap
  (group + member, group + group, `all` + anything, member before / after its group, the same name twice).
* AUTO-ENABLING (`ScanConfig.EnableRequiredExtractors`) is an idempotent union preserving first occurrence: after it no
  extractor name occurs twice in either list — so no extractor runs twice on a file and no package is reported twice for
  that reason —, every required name is enabled, and the explicitly enabled extractors are kept, first, in order.
General theorems (all tables / all lists) + their instances over the registry REGENERATED from /repo on every run.
Tie: the `names`, `enab` cases of harness/cmd/c19gen against lean/Drivers/C19.lean (a real `scalibr.New().Scan` counting
`Extract` calls for `enab`). Helper lemmas: `Scalibr.Proofs.Registry`.
-/
import Scalibr.Proofs.Registry
import Scalibr.Gen.Registry
namespace Scalibr.Registry
open Scalibr.Gen.Registry

/-! ### resolving a list of names -/

/-- For every name table whose keys are distinct and in which a plugin name identifies the plugin: whatever list of names
`…FromNames` accepts, the result is the set union of what the names stand for, and no plugin name occurs twice. -/
theorem C19_resolves_list_partial (t : Table) (hk : KeysNodup t) (hdet : NameDetermines t) (names : List String) (r : List Plugin)
    (h : fromNames t names = .ok r) : ResolvesTo t names r := by
  obtain ⟨h1, h2⟩ := fromNamesLoop_spec t hk hdet names [] r (by simp) (by simp) h
  exact ⟨h1, fun p => by simpa using h2 p⟩

/-- … and it refuses a list exactly when some name is not a key. -/
theorem C19_resolves_list_error (t : Table) (names : List String) :
    (∃ n, fromNames t names = .error n) ↔ ∃ n ∈ names, t.lookup n = none := by
  have key : ∀ (names : List String) (res : List Plugin),
      (∃ n, fromNamesLoop t names res = .error n) ↔ ∃ n ∈ names, t.lookup n = none := by
    intro names
    induction names with
    | nil => intro res; simp [fromNamesLoop]
    | cons n ns ih =>
      intro res
      unfold fromNamesLoop
      cases hl : t.lookup n with
      | none => exact ⟨fun _ => ⟨n, by simp, hl⟩, fun _ => ⟨n, rfl⟩⟩
      | some ms =>
        simp only [List.mem_cons, exists_eq_or_imp, hl, reduceCtorEq, false_or]
        exact ih _
  exact key names []

/-- the three regenerated registries are such tables -/
theorem C19_registry_names_determine :
    (KeysNodup fsNames ∧ NameDetermines fsNames) ∧ (KeysNodup stNames ∧ NameDetermines stNames) ∧
    (KeysNodup detNames ∧ NameDetermines detNames) := by
  unfold KeysNodup NameDetermines
  refine ⟨⟨by decide +kernel, by decide +kernel⟩, ⟨by decide +kernel, by decide +kernel⟩, ⟨by decide +kernel, by decide +kernel⟩⟩

/-- Over the real registry: every accepted list of filesystem-extractor / standalone-extractor / detector names resolves to
the set union of the single names, no plugin twice. -/
theorem C19_resolves_list (names : List String) (r : List Plugin) :
    (fromNames fsNames names = .ok r → ResolvesTo fsNames names r) ∧
    (fromNames stNames names = .ok r → ResolvesTo stNames names r) ∧
    (fromNames detNames names = .ok r → ResolvesTo detNames names r) :=
  ⟨C19_resolves_list_partial _ C19_registry_names_determine.1.1 C19_registry_names_determine.1.2 names r,
   C19_resolves_list_partial _ C19_registry_names_determine.2.1.1 C19_registry_names_determine.2.1.2 names r,
   C19_resolves_list_partial _ C19_registry_names_determine.2.2.1 C19_registry_names_determine.2.2.2 names r⟩

/-- what the seeded `DetectorsFromNames` got wrong, as a witness on the registry: a group and one of its members -/
example : (fromNames detNames ["weakcreds", "all"]).toOption.map (·.length) = some (allPlugins detAll).length := by decide +kernel

/-! ### auto-enabling required extractors -/

/-- For all name tables, all explicitly enabled lists (without a name twice) and all detectors with any
`RequiredExtractors()` lists — overlapping between detectors, repeated inside one list, already enabled explicitly, of the
filesystem or the standalone kind: after `EnableRequiredExtractors`
* no extractor name occurs twice in the filesystem list nor in the standalone list,
* the explicitly enabled extractors are still there, first and in order (a prefix),
* every required name is enabled (in at least one of the two lists). -/
theorem C19_enable_once_partial (fsT stT : Table) (fs st dets : List Plugin) (c : Cfg)
    (hfs : (fs.map (·.name)).Nodup) (hst : (st.map (·.name)).Nodup)
    (h : enableRequired fsT stT fs st dets = .ok c) :
    (c.fs.map (·.name)).Nodup ∧ (c.st.map (·.name)).Nodup ∧ fs <+: c.fs ∧ st <+: c.st ∧
    ∀ d ∈ dets, ∀ e ∈ d.required, e ∈ c.fs.map (·.name) ∨ e ∈ c.st.map (·.name) := by
  unfold enableRequired at h
  have hi : EnInv ⟨fs, st, fs.map (·.name) ++ st.map (·.name)⟩ :=
    ⟨hfs, hst, fun n hn => by simpa using hn, fun n hn => by simpa using hn⟩
  obtain ⟨i, p, q, _, e⟩ := enableDets_inv fsT stT dets _ c hi h
  exact ⟨i.fsNodup, i.stNodup, p, q, fun d hd x hx => i.complete x (e d hd x hx)⟩

/-- IDEMPOTENT: enabling again changes nothing. -/
theorem C19_enable_idempotent (fsT stT : Table) (fs st dets : List Plugin) (c : Cfg)
    (hfs : (fs.map (·.name)).Nodup) (hst : (st.map (·.name)).Nodup)
    (h : enableRequired fsT stT fs st dets = .ok c) :
    ∃ c', enableRequired fsT stT c.fs c.st dets = .ok c' ∧ c'.fs = c.fs ∧ c'.st = c.st := by
  obtain ⟨_, _, _, _, hreq⟩ := C19_enable_once_partial fsT stT fs st dets c hfs hst h
  -- every required name is already in `enabled`, so every step is the `continue` branch
  have key : ∀ (ds : List Plugin) (k : Cfg), (∀ d ∈ ds, ∀ e ∈ d.required, e ∈ k.enabled) → enableDets fsT stT k ds = .ok k := by
    intro ds
    induction ds with
    | nil => intro k _; rfl
    | cons d ds ih =>
      intro k hk
      have hl : ∀ (es : List String), (∀ e ∈ es, e ∈ k.enabled) → enableList fsT stT k es = .ok k := by
        intro es
        induction es with
        | nil => intro _; rfl
        | cons e es ihe =>
          intro he
          have : k.enabled.contains e = true := by simpa using he e (by simp)
          simp only [enableList, enableOne, this, if_true]
          exact ihe (fun x hx => he x (by simp [hx]))
      simp only [enableDets, hl d.required (hk d (by simp))]
      exact ih k (fun x hx => hk x (by simp [hx]))
  refine ⟨_, key dets ⟨c.fs, c.st, c.fs.map (·.name) ++ c.st.map (·.name)⟩ ?_, rfl, rfl⟩
  intro d hd e he
  simpa using hreq d hd e he

/-- the shape of the seeded defect: two detectors require the same extractor, which is not enabled explicitly — it is
enabled ONCE (and a name repeated inside one list, or enabled explicitly, changes nothing) -/
example :
    let w : Plugin := ⟨"python/wheelegg", ⟨.any, .any, false, false⟩, []⟩
    let d := fun (n : String) (r : List String) => (⟨n, ⟨.any, .any, false, false⟩, r⟩ : Plugin)
    (enableRequired [("python/wheelegg", [w])] [] [] [] [d "d1" ["python/wheelegg", "python/wheelegg"], d "d2" ["python/wheelegg"]]).toOption.map
      (fun c => c.fs.map (·.name)) = some ["python/wheelegg"] := by decide

end Scalibr.Registry
