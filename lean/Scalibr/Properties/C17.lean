/-
C17 — Symlink resolution in image views terminates with the right answer.
Property theorems only; helper lemmas live in `Scalibr.Proofs.Symlink`.
All theorems hold for every graph (finite or not, cyclic or not), every maximum depth and every
start entry; nothing is bounded.
-/
import Scalibr.Proofs.Symlink
namespace Scalibr.Symlink
set_option linter.unusedSectionVars false

variable {α : Type} [DecidableEq α]

/-- Termination. `resolve` is defined by structural recursion on `depth + 1` (no fuel), so it is total;
and the loop as Go writes it — an unbounded `for` with an `Int` counter, modelled with explicit fuel —
returns that very answer within `maxDepth + 2` iterations on every graph; more fuel changes nothing. -/
theorem C17_terminates (g : Graph α) (D : Nat) (p : α) (fuel : Nat) (h : D + 2 ≤ fuel) :
    loopF g fuel p p false (D : Int) = some (resolve g D p) := by
  have := loopF_eq_loop g (D+1) fuel p p false (by omega)
  rw [show ((D + 1 : Nat) : Int) - 1 = (D : Int) by omega] at this
  exact this

/-- Success exactly when the first non-symlink is at most `D` hops away (everything before it on the
chain being a symlink). -/
theorem C17_ok_iff (g : Graph α) (D : Nat) (p n : α) :
    resolve g D p = .ok n ↔
      ∃ k, k ≤ D ∧ chain g k p = some n ∧ isTerm g n = true ∧
        ∀ j, j < k → ∃ q, chain g j p = some q ∧ isLink g q = true := by
  constructor
  · intro h
    obtain ⟨k, hk, hc, hn⟩ := loop_ok_sound g _ _ _ _ _ h
    refine ⟨k, by omega, hc, hn, ?_⟩
    intro j hj
    cases k with
    | zero => omega
    | succ k => exact chain_prefix_link g k j p n hc (by omega)
  · rintro ⟨k, hk, hc, hn, _⟩
    exact loop_complete g (D+1) p p false k n (behind_refl g p) hc hn (by omega)

/-- Never the wrong file: a successful answer is THE first non-symlink of the chain, whatever the
configured depth. -/
theorem C17_never_wrong (g : Graph α) (D : Nat) (p n : α) (h : resolve g D p = .ok n) :
    ∀ k n', chain g k p = some n' → isTerm g n' = true → n' = n := by
  intro k n' hc' hn'
  obtain ⟨k0, _, hc, hn⟩ := loop_ok_sound g _ _ _ _ _ h
  exact (chain_term_unique g p k k0 n' n hc' hn' hc hn).2

theorem C17_depth_independent (g : Graph α) (D D' : Nat) (p n n' : α)
    (h : resolve g D p = .ok n) (h' : resolve g D' p = .ok n') : n = n' := by
  obtain ⟨k, _, hc, hn⟩ := loop_ok_sound g _ _ _ _ _ h
  exact (C17_never_wrong g D' p n' h' k n hc hn)

/-- Not found: a missing entry at hop `j ≤ D` — and, pinned by the code, also at hop `D + 1`, because
the lookup precedes the depth test — yields not-exist. -/
theorem C17_notfound (g : Graph α) (D : Nat) (p q : α) (j : Nat)
    (hc : chain g j p = some q) (hq : g q = none) (hj : j ≤ D + 1) :
    resolve g D p = .notExist :=
  loop_notfound g (D+1) p p false j q (behind_refl g p) hc hq hj (by omega)

/-- … and not-exist is reported for nothing else. -/
theorem C17_notExist_only_if (g : Graph α) (D : Nat) (p : α) (h : resolve g D p = .notExist) :
    ∃ j q, j ≤ D + 1 ∧ chain g j p = some q ∧ g q = none :=
  loop_notExist_sound g (D+1) p p false (behind_refl g p) h

/-- Otherwise: no non-symlink within `D` hops and no missing entry within `D + 1` hops gives a cycle
or a depth error. -/
theorem C17_otherwise (g : Graph α) (D : Nat) (p : α)
    (h1 : ∀ k n, k ≤ D → chain g k p = some n → isTerm g n = false)
    (h2 : ∀ j q, j ≤ D + 1 → chain g j p = some q → g q ≠ none) :
    resolve g D p = .cycle ∨ resolve g D p = .depth :=
  resolve_err g D p h1 h2

/-- Cycle detection can only pre-empt a depth error: a reported cycle is a real one (the chain never
reaches a non-symlink or a missing entry). -/
theorem C17_cycle_real (g : Graph α) (D : Nat) (p : α) (h : resolve g D p = .cycle) :
    ∀ k, ∃ q, chain g k p = some q ∧ isLink g q = true := by
  intro k
  have hall := loop_cycle_real g (D+1) p p false (behind_refl g p) h
  cases hc : chain g (k+1) p with
  | none => exact (hall (k+1) hc).elim
  | some q => exact chain_prefix_link g k k p q hc (Nat.le_refl k)

/-- The whole sentence at the observation point: what `Stat` answers is allowed by the walk of the
chain with `D` hops (`specWalk`): the first real file/directory within `D` hops; not-exist for a
missing or deleted entry within `D` hops; any error class when such an entry sits exactly one hop past
the budget; cycle or depth otherwise. -/
theorem C17_stat_meets_spec (g : Graph α) (D : Nat) (p : α) :
    allowed g (specWalk g D p) (stat g D p) = true := by
  have errCase : (∃ q, chain g (D+1) p = some q ∧ (g q = none → False)) →
      ∃ x, g p = some x ∧ (resolve g D p = .cycle ∨ resolve g D p = .depth) := by
    rintro ⟨q, hc, hq⟩
    have hp := chain_prefix_link g D 0 p q hc (by omega)
    obtain ⟨n0, hn0, hl0⟩ := hp
    simp only [chain, Option.some.injEq] at hn0
    subst hn0
    have hne := isLink_some g p hl0
    cases hgp : g p with
    | none => exact (hne hgp).elim
    | some x =>
      refine ⟨x, rfl, ?_⟩
      apply resolve_err
      · intro k n hk hcn
        obtain ⟨n', hn', hl⟩ := chain_prefix_link g D k p q hc hk
        rw [hcn] at hn'
        cases hn'
        exact isLink_not_term g n hl
      · intro j q' hj hcq hq'
        by_cases hjd : j ≤ D
        · obtain ⟨n', hn', hl⟩ := chain_prefix_link g D j p q hc hjd
          rw [hcq] at hn'
          cases hn'
          exact isLink_some g q' hl hq'
        · have : j = D + 1 := by omega
          subst this
          rw [hc] at hcq
          cases hcq
          exact hq hq'
  cases hv : specWalk g D p with
  | mustOk n =>
    obtain ⟨k, hk, hc, hr⟩ := specWalk_mustOk g D p n hv
    have hres : resolve g D p = .ok n :=
      loop_complete g (D+1) p p false k n (behind_refl g p) hc (isReal_isTerm g n hr) (by omega)
    have hns : (g n).isSome = true := by
      unfold isReal at hr
      cases hgn : g n with
      | none => simp [hgn] at hr
      | some _ => rfl
    have hp := chain_target_some g k p n hc hns
    unfold stat
    cases hgp : g p with
    | none => simp [hgp] at hp
    | some x =>
      simp only [hres]
      unfold isReal at hr
      cases hgn : g n with
      | none => simp [hgn] at hr
      | some y =>
        cases y with
        | link t => simp [hgn] at hr
        | term kd => cases kd <;> simp [hgn, allowed] at hr ⊢
  | mustNotExist =>
    obtain ⟨k, q, hk, hc, hq⟩ := specWalk_mustNotExist g D p hv
    unfold stat
    cases hgp : g p with
    | none => rfl
    | some x =>
      simp only []
      unfold isGone at hq
      cases hgq : g q with
      | none =>
        rw [C17_notfound g D p q k hc hgq (by omega)]; rfl
      | some y =>
        cases y with
        | link t => simp [hgq] at hq
        | term kd =>
          cases kd <;> simp [hgq] at hq
          have hres : resolve g D p = .ok q :=
            loop_complete g (D+1) p p false k q (behind_refl g p) hc (by simp [isTerm, hgq]) (by omega)
          simp [hres, hgq, allowed]
  | boundary =>
    obtain ⟨q, hc, hq⟩ := (specWalk_past g D p).1 hv
    unfold isGone at hq
    cases hgq : g q with
    | none =>
      have hres := C17_notfound g D p q (D+1) hc hgq (Nat.le_refl _)
      unfold stat
      cases hgp : g p with
      | none => rfl
      | some x => simp [hres, allowed]
    | some y =>
      obtain ⟨x, hx, hr⟩ := errCase ⟨q, hc, by simp [hgq]⟩
      unfold stat
      rcases hr with hr | hr <;> simp [hx, hr, allowed]
  | cycleOrDepth =>
    obtain ⟨q, hc, hq⟩ := (specWalk_past g D p).2 hv
    have hqs : g q = none → False := by
      intro hn; simp [isGone, hn] at hq
    obtain ⟨x, hx, hr⟩ := errCase ⟨q, hc, hqs⟩
    unfold stat
    rcases hr with hr | hr <;> simp [hx, hr, allowed]

/-- `Open` then `Stat` on the handle is `Stat` (what `runExtractor` does). -/
theorem C17_open_then_stat (g : Graph α) (D : Nat) (p : α) :
    stat g D p =
      (match openNode g D p with
       | .ok n => (match g n with
          | some (.term .file) => .file n
          | some (.term .dir) => .dir n
          | _ => .notExist)
       | .notExist => .notExist
       | .cycle => .cycle
       | .depth => .depth) := by
  unfold stat openNode
  cases g p <;> rfl

/-! ### load time -/

/-- A symlink whose target would leave the image root gets no node (the entry is skipped), so it can
never be followed. -/
theorem C17_outside (dir linkSegs : List String)
    (h : targetOutsideRoot dir (linkSegs.head? = some "") linkSegs = true) :
    handleSymlink dir linkSegs = .skipped := by
  unfold handleSymlink
  have hne : linkSegs ≠ [""] := by
    intro he; subst he
    simp [targetOutsideRoot, cleanRel, cleanRelAux, isDot, isDotDot] at h
  simp [hne, h]

/-- `TargetOutsideRoot` is exactly "some prefix of the joined path has more `..` than names" — under
the assumption that the random marker directory occurs in no segment. -/
theorem C17_outside_iff (dir tgt : List String) (hd : ∀ n ∈ dir, plain n = true) :
    targetOutsideRoot dir false tgt = escapes dir.length tgt ∧
    targetOutsideRoot dir true tgt = escapes 0 tgt := by
  unfold targetOutsideRoot cleanRel
  simp only [Bool.false_eq_true, if_false, if_true, List.contains_reverse]
  have h1 := cleanRelAux_marker (dir ++ tgt) [] (by simp)
  have h2 := cleanRelAux_marker tgt [] (by simp)
  simp only [List.map_nil, List.nil_append, List.length_nil] at h1 h2
  have step : ∀ xs : List String, cleanRelAux [] (none :: xs.map some) = cleanRelAux [none] (xs.map some) := by
    intro xs; simp [cleanRelAux, isDot, isDotDot]
  rw [step, step, h1, h2, escapes_plain_prefix dir tgt 0 hd]
  simp

/-- Every stored target is a canonical tree key (no "", "." or ".." segment), for relative and absolute
link names alike. -/
theorem C17_target_canonical (dir linkSegs key : List String)
    (h : handleSymlink dir linkSegs = .node key) : canonical key = true := by
  have hc : ∀ xs, canonical (cleanAbs xs) = true := by
    intro xs
    have := canonical_cleanAbsAux xs [] rfl
    unfold cleanAbs canonical
    unfold canonical at this
    simpa using this
  unfold handleSymlink at h
  split at h
  · cases h
  · simp only [] at h
    split at h
    · cases h
    · split at h <;> (simp only [Loaded.node.injEq] at h; subst h; exact hc _)

/-- The node created for a symlink addresses exactly the entry the link name denotes — for every
relative and every absolute name, however it is spelled (`/./a`, `//a`, `/d/` included). -/
theorem C17_stored_target (dir linkSegs key : List String) (hd : ∀ n ∈ dir, plain n = true)
    (h : handleSymlink dir linkSegs = .node key) : denotes dir linkSegs = some key := by
  unfold handleSymlink at h
  split at h
  · cases h
  · by_cases habs : linkSegs.head? = some ""
    · simp only [habs, decide_true, if_true] at h
      split at h
      · cases h
      · rename_i hout
        simp only [Loaded.node.injEq] at h
        have hiff := (C17_outside_iff dir linkSegs hd).2
        simp only [Bool.not_eq_true] at hout
        rw [hout] at hiff
        unfold denotes
        simp only [habs, if_true, ← hiff, Bool.false_eq_true, if_false, Option.some.injEq]
        exact h
    · simp only [habs, decide_false] at h
      split at h
      · cases h
      · rename_i hout
        simp only [if_false, Loaded.node.injEq] at h
        have hiff := (C17_outside_iff dir linkSegs hd).1
        simp only [Bool.not_eq_true] at hout
        rw [hout] at hiff
        unfold denotes
        simp only [habs, if_false, ← hiff, Bool.false_eq_true, Option.some.injEq]
        exact h

/-- … and conversely a link whose name denotes an entry inside the root always gets its node. -/
theorem C17_denoted_is_stored (dir linkSegs key : List String) (hd : ∀ n ∈ dir, plain n = true)
    (hne : linkSegs ≠ [""]) (h : denotes dir linkSegs = some key) : handleSymlink dir linkSegs = .node key := by
  unfold denotes at h
  unfold handleSymlink
  simp only [hne, if_false]
  by_cases habs : linkSegs.head? = some ""
  · simp only [habs, if_true, decide_true] at h ⊢
    rw [(C17_outside_iff dir linkSegs hd).2]
    split at h
    · cases h
    · rename_i he
      simp only [Option.some.injEq] at h
      simp [he, h]
  · simp only [habs, if_false, decide_false] at h ⊢
    rw [(C17_outside_iff dir linkSegs hd).1]
    split at h
    · cases h
    · rename_i he
      simp only [Option.some.injEq] at h
      simp [he, h]

/-! ### non-vacuity and concrete witnesses (graphs on `Nat`) -/

/-- 0 → 1 → 2 → 3(file); 4 → 5 → 4 (cycle); 6 → 7 (missing); 8 → 9 (deleted); 10 → 10 -/
def exG : Graph Nat := fun i =>
  match i with
  | 0 => some (.link 1) | 1 => some (.link 2) | 2 => some (.link 3) | 3 => some (.term .file)
  | 4 => some (.link 5) | 5 => some (.link 4)
  | 6 => some (.link 7)
  | 8 => some (.link 9) | 9 => some (.term .wh)
  | 10 => some (.link 10)
  | _ => none

example : resolve exG 3 0 = .ok 3 ∧ resolve exG 2 0 = .depth ∧ stat exG 3 0 = .file 3 := by decide
example : resolve exG 6 4 = .cycle ∧ resolve exG 0 4 = .depth ∧ resolve exG 1 10 = .cycle := by decide
example : resolve exG 0 6 = .notExist ∧ stat exG 1 8 = .notExist ∧ stat exG 0 8 = .depth := by decide
-- hypotheses of C17_ok_iff / C17_notfound / C17_otherwise are satisfiable
example : chain exG 3 0 = some 3 ∧ isTerm exG 3 = true := by decide
example : chain exG 1 6 = some 7 ∧ exG 7 = none := by decide
example : (∀ k n, k ≤ 2 → chain exG k 4 = some n → isTerm exG n = false) := by
  intro k n hk
  have : k = 0 ∨ k = 1 ∨ k = 2 := by omega
  rcases this with rfl | rfl | rfl <;> simp only [chain, exG] <;> intro h <;> cases h <;> decide
-- the boundary hop: a deleted entry exactly one hop past the budget is a depth error in the code,
-- a missing one is not-exist; the specification allows either (`boundary`)
example : specWalk exG 0 8 = .boundary ∧ specWalk exG 0 6 = .boundary := by decide
-- load time
example : handleSymlink ["d"] ["..", "..", "x"] = .skipped := by decide
example : handleSymlink ["d"] ["..", "x"] = .node ["x"] := by decide
example : handleSymlink ["d"] ["", "..", "x"] = .skipped := by decide
example : handleSymlink [] ["", "n0"] = .node ["n0"] := by decide
-- absolute names in any spelling are stored canonically (regression for fix a23f8926)
example : handleSymlink [] ["", ".", "a"] = .node ["a"] ∧ handleSymlink [] ["", "", "a"] = .node ["a"] ∧
    handleSymlink ["s"] ["", "d", ""] = .node ["d"] ∧ handleSymlink [] ["", ""] = .node [] := by decide
-- `C17_stored_target`'s hypotheses are satisfiable, for an absolute and a relative name
example : handleSymlink ["s"] ["", "s", "d"] = .node ["s", "d"] ∧ denotes ["s"] ["", "s", "d"] = some ["s", "d"] := by decide
example : handleSymlink ["s"] ["..", ".", "a"] = .node ["a"] ∧ plain "s" = true := by decide

end Scalibr.Symlink
