/-
C17 — Symlink resolution in image views terminates with the right answer.
Property theorems only; helper lemmas live in `Scalibr.Proofs.Symlink`.
All theorems hold for every graph (finite or not, cyclic or not), every maximum depth and every
start entry; nothing is bounded and none carries a restricting hypothesis.

The property's sentence, read strictly (`Spec.specWalk`): with a budget of `D` hops,
  * the first non-symlink target when it is at most `D` hops away            → that node;
  * a missing or deleted entry reached within `D` hops                       → not found;
  * otherwise (anything — file, deleted entry, nothing — lies past the budget, or the chain cycles)
                                                                             → cycle or depth error.
There is no slack at the budget's edge. (Before fix 51e26c4a a dangling target exactly one hop past
the budget was answered not-exist while a deleted or present one at the same distance was a depth
error, and before fix d91e0833 `Open`/`ReadDir` of a deleted entry returned a handle / an empty
listing; the witnesses are kept in corpus/C17/budget-edge.case as strict regression cases.)
-/
import Scalibr.Proofs.Symlink
import Scalibr.Proofs.SymlinkOverlay
namespace Scalibr.Symlink
set_option linter.unusedSectionVars false

variable {α : Type} [DecidableEq α]

/-- Termination. `resolve` is defined by structural recursion on `depth + 1` (no fuel), so it is total;
and the loop as Go writes it — an unbounded `for` with an `Int` counter, modelled with explicit fuel —
returns that very answer within `maxDepth + 2` iterations on every graph; more fuel changes nothing.
(Reviewer: "fuel adequacy between two Lean transcriptions" — yes, that is what it is: the structural
definition is the one all other theorems are about, this theorem says the literal transcription of the
`for {}` agrees with it and needs at most `D + 2` iterations.) -/
theorem C17_terminates (g : Graph α) (D : Nat) (p : α) (fuel : Nat) (h : D + 2 ≤ fuel) :
    loopF g fuel p p false (D : Int) = some (resolve g D p) := by
  have := loopF_eq_loop g (D+1) fuel p p false (by omega)
  rw [show ((D + 1 : Nat) : Int) - 1 = (D : Int) by omega] at this
  exact this

/-- Success exactly when the first non-symlink is at most `D` hops away (everything before it on the
chain being a symlink). -/
theorem C17_ok_iff (g : Graph α) (D : Nat) (p n : α) :
    resolve g D p = .ok n ↔
      ∃ k, k ≤ D ∧ chain g k p = some n ∧ isTerm g n = true ∧
        ∀ j, j < k → ∃ q, chain g j p = some q ∧ isLink g q = true := by
  constructor
  · intro h
    obtain ⟨k, hk, hc, hn⟩ := loop_ok_sound g _ _ _ _ _ h
    refine ⟨k, by omega, hc, hn, ?_⟩
    intro j hj
    cases k with
    | zero => omega
    | succ k => exact chain_prefix_link g k j p n hc (by omega)
  · rintro ⟨k, hk, hc, hn, _⟩
    exact loop_complete g (D+1) p p false k n (behind_refl g p) hc hn (by omega)

/-- Never the wrong file: a successful answer is THE first non-symlink of the chain, whatever the
configured depth. -/
theorem C17_never_wrong (g : Graph α) (D : Nat) (p n : α) (h : resolve g D p = .ok n) :
    ∀ k n', chain g k p = some n' → isTerm g n' = true → n' = n := by
  intro k n' hc' hn'
  obtain ⟨k0, _, hc, hn⟩ := loop_ok_sound g _ _ _ _ _ h
  exact (chain_term_unique g p k k0 n' n hc' hn' hc hn).2

theorem C17_depth_independent (g : Graph α) (D D' : Nat) (p n n' : α)
    (h : resolve g D p = .ok n) (h' : resolve g D' p = .ok n') : n = n' := by
  obtain ⟨k, _, hc, hn⟩ := loop_ok_sound g _ _ _ _ _ h
  exact (C17_never_wrong g D' p n' h' k n hc hn)

/-- Not found: a missing entry at hop `j ≤ D` yields not-exist … -/
theorem C17_notfound (g : Graph α) (D : Nat) (p q : α) (j : Nat)
    (hc : chain g j p = some q) (hq : g q = none) (hj : j ≤ D) :
    resolve g D p = .notExist :=
  loop_notfound g (D+1) p p false j q (behind_refl g p) hc hq (by omega)

/-- … and not-exist is reported for nothing else: only for a missing entry WITHIN the budget. -/
theorem C17_notExist_only_if (g : Graph α) (D : Nat) (p : α) (h : resolve g D p = .notExist) :
    ∃ j q, j ≤ D ∧ chain g j p = some q ∧ g q = none := by
  obtain ⟨j, q, hj, hc, hq⟩ := loop_notExist_sound g (D+1) p p false (behind_refl g p) h
  exact ⟨j, q, by omega, hc, hq⟩

/-- Otherwise: no non-symlink within `D` hops and no missing entry within `D` hops gives a cycle or a
depth error — in particular when the missing entry is exactly one hop past the budget. -/
theorem C17_otherwise (g : Graph α) (D : Nat) (p : α)
    (h1 : ∀ k n, k ≤ D → chain g k p = some n → isTerm g n = false)
    (h2 : ∀ j q, j ≤ D → chain g j p = some q → g q ≠ none) :
    resolve g D p = .cycle ∨ resolve g D p = .depth :=
  resolve_err g D p h1 h2

/-- Cycle detection can only pre-empt a depth error: a reported cycle is a real one (the chain never
reaches a non-symlink or a missing entry). -/
theorem C17_cycle_real (g : Graph α) (D : Nat) (p : α) (h : resolve g D p = .cycle) :
    ∀ k, ∃ q, chain g k p = some q ∧ isLink g q = true := by
  intro k
  have hall := loop_cycle_real g (D+1) p p false (behind_refl g p) h
  cases hc : chain g (k+1) p with
  | none => exact (hall (k+1) hc).elim
  | some q => exact chain_prefix_link g k k p q hc (Nat.le_refl k)

/-- `specWalk` IS the sentence, read on the chain: each verdict is one clause of it. -/
theorem C17_spec_reads_sentence (g : Graph α) (D : Nat) (p : α) :
    (∀ n, specWalk g D p = .mustOk n → ∃ k, k ≤ D ∧ chain g k p = some n ∧ isReal g n = true) ∧
    (specWalk g D p = .mustNotExist → ∃ k q, k ≤ D ∧ chain g k p = some q ∧ isGone g q = true) ∧
    (specWalk g D p = .cycleOrDepth →
      ∀ k, k ≤ D → ∃ q, chain g k p = some q ∧ isLink g q = true) := by
  refine ⟨fun n h => specWalk_mustOk g D p n h, fun h => specWalk_mustNotExist g D p h, ?_⟩
  intro h k hk
  obtain ⟨q, hc⟩ := specWalk_cod g D p h
  exact chain_prefix_link g D k p q hc hk

/-- the common core of the two "meets the specification" theorems -/
private theorem resolve_meets (g : Graph α) (D : Nat) (p : α) :
    match specWalk g D p with
    | .mustOk n => (g p).isSome = true ∧ resolve g D p = .ok n ∧ isReal g n = true
    | .mustNotExist => g p = none ∨ resolve g D p = .notExist ∨
        (∃ n, resolve g D p = .ok n ∧ g n = some (.term .wh))
    | .cycleOrDepth => (g p).isSome = true ∧ (resolve g D p = .cycle ∨ resolve g D p = .depth) := by
  cases hv : specWalk g D p with
  | mustOk n =>
    obtain ⟨k, hk, hc, hr⟩ := specWalk_mustOk g D p n hv
    have hres : resolve g D p = .ok n :=
      loop_complete g (D+1) p p false k n (behind_refl g p) hc (isReal_isTerm g n hr) (by omega)
    have hns : (g n).isSome = true := by
      unfold isReal at hr
      cases hgn : g n with
      | none => simp [hgn] at hr
      | some _ => rfl
    exact ⟨chain_target_some g k p n hc hns, hres, hr⟩
  | mustNotExist =>
    obtain ⟨k, q, hk, hc, hq⟩ := specWalk_mustNotExist g D p hv
    simp only []
    unfold isGone at hq
    cases hgq : g q with
    | none =>
      cases k with
      | zero => simp only [chain, Option.some.injEq] at hc; subst hc; exact Or.inl hgq
      | succ k => exact Or.inr (Or.inl (C17_notfound g D p q (k+1) hc hgq hk))
    | some y =>
      cases y with
      | link t => simp [hgq] at hq
      | term kd =>
        cases kd <;> simp [hgq] at hq
        exact Or.inr (Or.inr ⟨q, loop_complete g (D+1) p p false k q (behind_refl g p) hc
          (by simp [isTerm, hgq]) (by omega), hgq⟩)
  | cycleOrDepth =>
    obtain ⟨q, hc⟩ := specWalk_cod g D p hv
    simp only []
    have h0 := chain_reaches_link_or_end g D 0 p q hc (Nat.zero_le _) p rfl
    refine ⟨?_, ?_⟩
    · cases hgp : g p with
      | none => exact (h0.2 hgp).elim
      | some _ => rfl
    · apply resolve_err
      · intro k n hk hcn; exact (chain_reaches_link_or_end g D k p q hc hk n hcn).1
      · intro j q' hj hcq; exact (chain_reaches_link_or_end g D j p q hc hj q' hcq).2

/-- The whole sentence at the observation point `Stat`: what `Stat` answers is exactly what the walk
of the chain with `D` hops prescribes. No hypothesis. -/
theorem C17_stat_meets_spec (g : Graph α) (D : Nat) (p : α) :
    allowed g (specWalk g D p) (stat g D p) = true := by
  have h := resolve_meets g D p
  cases hv : specWalk g D p with
  | mustOk n =>
    rw [hv] at h
    obtain ⟨hp, hres, hr⟩ := h
    unfold stat
    cases hgp : g p with
    | none => simp [hgp] at hp
    | some x =>
      simp only [hres]
      unfold isReal at hr
      cases hgn : g n with
      | none => simp [hgn] at hr
      | some y =>
        cases y with
        | link t => simp [hgn] at hr
        | term kd => cases kd <;> simp [hgn, allowed] at hr ⊢
  | mustNotExist =>
    rw [hv] at h
    unfold stat
    cases hgp : g p with
    | none => rfl
    | some x =>
      rcases h with h | h | ⟨n, h, hn⟩
      · simp [hgp] at h
      · simp [h, allowed]
      · simp [h, hn, allowed]
  | cycleOrDepth =>
    rw [hv] at h
    obtain ⟨hp, hr⟩ := h
    unfold stat
    cases hgp : g p with
    | none => simp [hgp] at hp
    | some x => rcases hr with hr | hr <;> simp [hr, allowed]

/-- … and at the observation point `Open`: the result of `Open` ITSELF meets the sentence — a deleted
entry is not-exist already at `Open`, not only at a later `Stat`/`Read` on a handle. No hypothesis. -/
theorem C17_open_meets_spec (g : Graph α) (D : Nat) (p : α) :
    allowedOpen (specWalk g D p) (openNode g D p) = true := by
  have h := resolve_meets g D p
  cases hv : specWalk g D p with
  | mustOk n =>
    rw [hv] at h
    obtain ⟨hp, hres, hr⟩ := h
    unfold openNode
    cases hgp : g p with
    | none => simp [hgp] at hp
    | some x =>
      simp only [hres]
      unfold isReal at hr
      cases hgn : g n with
      | none => simp [hgn] at hr
      | some y =>
        cases y with
        | link t => simp [hgn] at hr
        | term kd => cases kd <;> simp [hgn, allowedOpen] at hr ⊢
  | mustNotExist =>
    rw [hv] at h
    unfold openNode
    cases hgp : g p with
    | none => rfl
    | some x =>
      rcases h with h | h | ⟨n, h, hn⟩
      · simp [hgp] at h
      · simp [h, allowedOpen]
      · simp [h, hn, allowedOpen]
  | cycleOrDepth =>
    rw [hv] at h
    obtain ⟨hp, hr⟩ := h
    unfold openNode
    cases hgp : g p with
    | none => simp [hgp] at hp
    | some x => rcases hr with hr | hr <;> simp [hr, allowedOpen]

/-- `ReadDir` fails exactly when `Open` fails, with the same class (so a deleted entry has no listing).
DEFINITIONAL (`rfl`): it restates the model's `readDir`; it is listed only so that the reader of
`C17_open_meets_spec` sees what it implies for `ReadDir`. -/
theorem C17_readdir_follows_open (g : Graph α) (kids : α → List String) (D : Nat) (p : α) :
    readDir g kids D p =
      (match openNode g D p with
       | .ok n => .ok (kids n) | .notExist => .notExist | .cycle => .cycle | .depth => .depth) := rfl

/-- `Open` then `Stat` on the handle is `Stat` (what `runExtractor` does). DEFINITIONAL (unfold + case
split): it relates two model functions, not the model and the specification. -/
theorem C17_open_then_stat (g : Graph α) (D : Nat) (p : α) :
    stat g D p =
      (match openNode g D p with
       | .ok n => (match g n with
          | some (.term .file) => .file n
          | some (.term .dir) => .dir n
          | _ => .notExist)
       | .notExist => .notExist
       | .cycle => .cycle
       | .depth => .depth) := by
  unfold stat openNode
  cases g p with
  | none => rfl
  | some x =>
    simp only []
    cases resolve g D p with
    | ok n =>
      simp only []
      cases hgn : g n with
      | none => simp [hgn]
      | some y => cases y with
        | link t => simp [hgn]
        | term kd => cases kd <;> simp [hgn]
    | notExist => rfl
    | cycle => rfl
    | depth => rfl

/-! ### the final view under a file requirer -/

/-- the nodes a required symlink needs within the budget are exactly the ones `markFrom` marks -/
theorem markFrom_covers (g : Graph α) : ∀ (D : Nat) (r : α) (k : Nat) (q : α),
    chain g k r = some q → 1 ≤ k → k ≤ D → g q ≠ none → q ∈ markFrom g D r := by
  intro D
  induction D with
  | zero => intro r k q _ h1 h2; omega
  | succ d ih =>
    intro r k q hc h1 h2 hq
    cases k with
    | zero => omega
    | succ k =>
      simp only [chain] at hc
      unfold markFrom
      cases hg : g r with
      | none => simp [hg] at hc
      | some x =>
        cases x with
        | term kd => simp [hg] at hc
        | link t =>
          simp only [hg] at hc ⊢
          cases k with
          | zero =>
            simp only [chain, Option.some.injEq] at hc
            subst hc
            cases hgt : g t with
            | none => exact (hq hgt).elim
            | some y => simp
          | succ k =>
            have hts : (g t).isSome = true := by
              apply chain_target_some g (k+1) t q hc
              cases hgq : g q with
              | none => exact (hq hgq).elim
              | some _ => rfl
            cases hgt : g t with
            | none => simp [hgt] at hts
            | some y =>
              simp only [List.mem_cons]
              exact Or.inr (ih t (k+1) q hc (by omega) (by omega) hq)

/-- A REQUIRED symlink survives the pruning of the final view with everything it needs: `Stat` of it in the
pruned view still meets the sentence read on the UNPRUNED view — the first non-symlink target within the
budget, not-found, or a cycle/depth error — whatever else the requirer lets go. -/
theorem C17_required_link_survives (g : Graph α) (nodes : List α) (req : α → Bool) (D : Nat) (r : α)
    (hr : req r = true) (hrn : r ∈ nodes) :
    allowed g (specWalk g D r) (stat (pruned g nodes req D) D r) = true := by
  -- every node within D hops of r is kept as it is
  have kept : ∀ k q, k ≤ D → chain g k r = some q → pruned g nodes req D q = g q := by
    intro k q hk hc
    unfold pruned
    cases hgq : g q with
    | none => rfl
    | some x =>
      cases x with
      | term kd => cases kd <;> simp only []
                   -- a regular file: required itself (k = 0) or marked
                   cases k with
                   | zero => simp only [chain, Option.some.injEq] at hc; subst hc; simp [hr]
                   | succ k =>
                     have hm := markFrom_covers g D r (k+1) q hc (by omega) hk (by simp [hgq])
                     have : nodes.any (fun r' => req r' && (markFrom g D r').contains q) = true := by
                       rw [List.any_eq_true]; exact ⟨r, hrn, by simp [hr, hm]⟩
                     rw [this]; simp
      | link t =>
        simp only []
        cases k with
        | zero => simp only [chain, Option.some.injEq] at hc; subst hc; simp [hr]
        | succ k =>
          have hm := markFrom_covers g D r (k+1) q hc (by omega) hk (by simp [hgq])
          have : nodes.any (fun r' => req r' && (markFrom g D r').contains q) = true := by
            rw [List.any_eq_true]; exact ⟨r, hrn, by simp [hr, hm]⟩
          rw [this]; simp
  -- hence the specification's walk reads the same verdict on both graphs
  have walk : ∀ b p, (∀ k q, k ≤ b → chain g k p = some q → pruned g nodes req D q = g q) →
      specWalk (pruned g nodes req D) b p = specWalk g b p := by
    intro b
    induction b with
    | zero =>
      intro p h
      have h0 := h 0 p (Nat.le_refl _) rfl
      unfold specWalk
      rw [h0]
    | succ b ih =>
      intro p h
      have h0 := h 0 p (Nat.zero_le _) rfl
      unfold specWalk
      rw [h0]
      cases hg : g p with
      | none => rfl
      | some x =>
        cases x with
        | term kd => cases kd <;> rfl
        | link t =>
          simp only []
          apply ih t
          intro k q hk hc
          exact h (k+1) q (by omega) (by simp [chain, hg, hc])
  have hspec := walk D r kept
  have hmeets := C17_stat_meets_spec (pruned g nodes req D) D r
  rw [hspec] at hmeets
  -- transfer `allowed` from the pruned graph to the original one
  cases hv : specWalk g D r with
  | mustOk n =>
    rw [hv] at hmeets
    obtain ⟨k, hk, hc, _⟩ := specWalk_mustOk g D r n hv
    have hn := kept k n hk hc
    cases hs : stat (pruned g nodes req D) D r <;> simp only [hs, allowed, hn] at hmeets ⊢ <;> exact hmeets
  | mustNotExist =>
    rw [hv] at hmeets
    cases hs : stat (pruned g nodes req D) D r <;> simp only [hs, allowed] at hmeets ⊢ <;> exact hmeets
  | cycleOrDepth =>
    rw [hv] at hmeets
    cases hs : stat (pruned g nodes req D) D r <;> simp only [hs, allowed] at hmeets ⊢ <;> exact hmeets

/-! ### load time -/

/-- A symlink whose target would leave the image root gets no link node (the entry is rejected; the loader
leaves a plain whiteout node at its path), so it can never be followed. (Reviewer: "is `simp [handleSymlink, ..]`" — it is a statement about the control
flow of `handleSymlink`; its content is `C17_outside_iff`, which says what "outside" means.) -/
theorem C17_outside (dir linkSegs : List String)
    (h : targetOutsideRoot dir (linkSegs.head? = some "") linkSegs = true) :
    handleSymlink dir linkSegs = .skipped := by
  unfold handleSymlink
  have hne : linkSegs ≠ [""] := by
    intro he; subst he
    simp [targetOutsideRoot, cleanRel, cleanRelAux, isDot, isDotDot] at h
  simp [hne, h]

/-- `TargetOutsideRoot` is exactly "some prefix of the joined path has more `..` than names". No
hypothesis on `dir` (the earlier `plain dir` hypothesis is gone: the joined path `dir ++ target` is read
as a whole). Standing modelling assumption, not a hypothesis on inputs: the random uuid marker
directory occurs in no segment. -/
theorem C17_outside_iff (dir tgt : List String) :
    targetOutsideRoot dir false tgt = escapes 0 (dir ++ tgt) ∧
    targetOutsideRoot dir true tgt = escapes 0 tgt := by
  unfold targetOutsideRoot cleanRel
  simp only [Bool.false_eq_true, if_false, if_true, List.contains_reverse]
  have h1 := cleanRelAux_marker (dir ++ tgt) [] (by simp)
  have h2 := cleanRelAux_marker tgt [] (by simp)
  simp only [List.map_nil, List.nil_append, List.length_nil] at h1 h2
  have step : ∀ xs : List String, cleanRelAux [] (none :: xs.map some) = cleanRelAux [none] (xs.map some) := by
    intro xs; simp [cleanRelAux, isDot, isDotDot]
  rw [step, step, h1, h2]
  simp

/-- Every stored target is a canonical tree key (no "", "." or ".." segment), for relative and absolute
link names alike. -/
theorem C17_target_canonical (dir linkSegs key : List String)
    (h : handleSymlink dir linkSegs = .node key) : canonical key = true := by
  have hc : ∀ xs, canonical (cleanAbs xs) = true := by
    intro xs
    have := canonical_cleanAbsAux xs [] rfl
    unfold cleanAbs canonical
    unfold canonical at this
    simpa using this
  unfold handleSymlink at h
  split at h
  · cases h
  · simp only [] at h
    split at h
    · cases h
    · split at h <;> (simp only [Loaded.node.injEq] at h; subst h; exact hc _)

/-- The loader and the specification's own lexical resolver (`resolveLex`, which shares no code with
`cleanAbs`/`cleanRel`/`targetOutsideRoot`) agree on every link name: a node is created exactly when the
name denotes an entry inside the root, and it addresses exactly that entry. No hypothesis. -/
theorem C17_stored_target (dir linkSegs : List String) (hne : linkSegs ≠ [""]) :
    handleSymlink dir linkSegs =
      (match denotes dir linkSegs with
       | some key => .node key
       | none => .skipped) := by
  unfold handleSymlink denotes
  simp only [hne, if_false]
  have hiff := C17_outside_iff dir linkSegs
  by_cases habs : linkSegs.head? = some ""
  · simp only [habs, decide_true, if_true, hiff.2, resolveLex_eq linkSegs [], List.length_nil,
      List.reverse_nil, cleanAbs]
    split <;> rfl
  · simp only [habs, decide_false, if_false, hiff.1, resolveLex_eq (dir ++ linkSegs) [], List.length_nil,
      List.reverse_nil, cleanAbs]
    split <;> rfl

/-- Hard links (`tar.TypeLink`): the node addresses the archive entry the link names, read from the image
root whatever directory the link sits in; a name that climbs above the root gets no node. Being a link
node, it is then resolved exactly like a symlink (all theorems above apply: the answer is the first
non-link target). There is no load error for an empty name (it denotes the root). -/
theorem C17_hardlink_target (dir linkSegs : List String) :
    handleHardLink dir linkSegs =
      (match resolveLex [] (hardLinkSegs linkSegs) with
       | some key => .node key
       | none => .skipped) := by
  have hne : hardLinkSegs linkSegs ≠ [""] := by
    unfold hardLinkSegs
    split
    · rename_i h
      simp only [Bool.and_eq_true, decide_eq_true_eq] at h
      intro he; rw [he] at h; simp at h
    · split <;> simp_all
  have habs : (hardLinkSegs linkSegs).head? = some "" := by
    unfold hardLinkSegs
    split
    · rename_i h
      simp only [Bool.and_eq_true, decide_eq_true_eq] at h
      exact h.2
    · rfl
  unfold handleHardLink
  rw [C17_stored_target dir _ hne]
  unfold denotes
  simp [habs]

/-- The two Lean models of the loader's symlink handling are the same functions: C04's
(`Overlay.targetOutsideRoot`/`Overlay.targetSegs` in Model/OverlayImage.lean: leading ".." count and kept
segments of `GoPath.cleanComps`) and C17's (`targetOutsideRoot`: marker directory on a segment stack;
`cleanAbs`). `vp` is the link's virtual path as segments, `target` the link name. The only glue left
unproved is a fact about `String.splitOn`/`startsWith` (`GoPath.isAbs t ↔ (GoPath.comps t).head? = some ""`),
which is why `isAbs target` appears on the C17 side instead of `handleSymlink`'s own test. -/
theorem C17_loader_models_agree (vp : List String) (target : String) :
    Overlay.targetOutsideRoot vp target =
      targetOutsideRoot vp.dropLast (GoPath.isAbs target) (GoPath.comps target) ∧
    Overlay.targetSegs vp target =
      (if GoPath.isAbs target then cleanAbs (GoPath.comps target)
       else cleanAbs (vp.dropLast ++ GoPath.comps target)) := by
  have hout : ∀ xs : List String, decide ((GoPath.cleanComps false xs).1 > 0) = escapes 0 xs := by
    intro xs
    have hprop : (GoPath.cleanComps false xs).1 > 0 ↔ escapes 0 xs = true := by
      show (xs.foldl (GoPath.cleanStep false) (0, [])).1 > 0 ↔ _
      rw [foldl_cleanStep_ups]; simp
    cases he : escapes 0 xs with
    | true => exact decide_eq_true (hprop.2 he)
    | false => exact decide_eq_false (fun h => by have := hprop.1 h; rw [he] at this; cases this)
  have hseg : ∀ xs : List String, (GoPath.cleanComps true xs).2 = cleanAbs xs := by
    intro xs
    show ((xs.foldl (GoPath.cleanStep true) (0, [])).2).reverse = _
    rw [foldl_cleanStep_rooted xs 0 []]; rfl
  have hiff := C17_outside_iff vp.dropLast (GoPath.comps target)
  constructor
  · unfold Overlay.targetOutsideRoot
    by_cases ha : GoPath.isAbs target = true
    · simp only [ha, if_true, hout, hiff.2]
    · simp only [Bool.not_eq_true] at ha
      simp only [ha, Bool.false_eq_true, if_false, hout, hiff.1]
  · unfold Overlay.targetSegs
    by_cases ha : GoPath.isAbs target = true
    · simp only [ha, if_true, hseg]
    · simp only [Bool.not_eq_true] at ha
      simp only [ha, Bool.false_eq_true, if_false, hseg]

/-! ### non-vacuity and concrete witnesses (graphs on `Nat`) -/

/-- 0 → 1 → 2 → 3(file); 4 → 5 → 4 (cycle); 6 → 7 (missing); 8 → 9 (deleted); 10 → 10 -/
def exG : Graph Nat := fun i =>
  match i with
  | 0 => some (.link 1) | 1 => some (.link 2) | 2 => some (.link 3) | 3 => some (.term .file)
  | 4 => some (.link 5) | 5 => some (.link 4)
  | 6 => some (.link 7)
  | 8 => some (.link 9) | 9 => some (.term .wh)
  | 10 => some (.link 10)
  | _ => none

example : resolve exG 3 0 = .ok 3 ∧ resolve exG 2 0 = .depth ∧ stat exG 3 0 = .file 3 := by decide
example : resolve exG 6 4 = .cycle ∧ resolve exG 0 4 = .depth ∧ resolve exG 1 10 = .cycle := by decide
-- the budget's edge is symmetric: a missing, a deleted and a present entry one hop past the budget are
-- all a depth error; within the budget the first two are not-exist
example : stat exG 0 6 = .depth ∧ stat exG 0 8 = .depth ∧ stat exG 2 0 = .depth := by decide
example : stat exG 1 6 = .notExist ∧ stat exG 1 8 = .notExist := by decide
example : specWalk exG 0 6 = .cycleOrDepth ∧ specWalk exG 0 8 = .cycleOrDepth ∧ specWalk exG 1 8 = .mustNotExist := by decide
-- Open of a deleted entry (directly, or through a link) is not-exist, not a handle
example : openNode exG 1 8 = .notExist ∧ openNode exG 0 9 = .notExist ∧ openNode exG 3 0 = .ok 3 := by decide
-- hypotheses of C17_ok_iff / C17_notfound / C17_otherwise are satisfiable
example : chain exG 3 0 = some 3 ∧ isTerm exG 3 = true := by decide
example : chain exG 1 6 = some 7 ∧ exG 7 = none := by decide
example : (∀ k n, k ≤ 2 → chain exG k 4 = some n → isTerm exG n = false) := by
  intro k n hk
  have : k = 0 ∨ k = 1 ∨ k = 2 := by omega
  rcases this with rfl | rfl | rfl <;> simp only [chain, exG] <;> intro h <;> cases h <;> decide
-- load time
example : handleSymlink ["d"] ["..", "..", "x"] = .skipped := by decide
example : handleSymlink ["d"] ["..", "x"] = .node ["x"] := by decide
example : handleSymlink ["d"] ["", "..", "x"] = .skipped := by decide
example : handleSymlink [] ["", "n0"] = .node ["n0"] := by decide
-- absolute names in any spelling are stored canonically (regression for fix a23f8926)
example : handleSymlink [] ["", ".", "a"] = .node ["a"] ∧ handleSymlink [] ["", "", "a"] = .node ["a"] ∧
    handleSymlink ["s"] ["", "d", ""] = .node ["d"] ∧ handleSymlink [] ["", ""] = .node [] := by decide
-- hard links are read from the root, whatever directory they sit in
example : handleHardLink ["s"] ["a"] = .node ["a"] ∧ handleHardLink ["s"] ["", "s", "d"] = .node ["s", "d"] ∧
    handleHardLink ["s"] ["..", "a"] = .skipped ∧ handleHardLink ["s"] [""] = .node [] := by decide
-- the specification's resolver on the same names
example : denotes ["s"] ["", "s", "d"] = some ["s", "d"] ∧ denotes ["s"] ["..", ".", "a"] = some ["a"] ∧
    denotes ["s"] ["..", "..", "a"] = none ∧ denotes [] ["", ".", "a"] = some ["a"] := by decide

end Scalibr.Symlink
