/-
C16 — Concurrent parts are race-free and schedule-independent  (level `other`: partial).

What is proved here is about the Lean models (Model/Worklist, Model/Cache + Model/CacheLin; the two regenerated access
tables have their own modules C16Ticker.lean / C16CacheTable.lean); the Go memory model below the granularity of the
callbacks / critical sections and the race detector's view of the executed schedules are runtime (checks/c16.py runs
them and says so in META).

WHAT IS NONDETERMINISTIC AND WHAT IS NOT, in model (a).  The nondeterminism is the *scheduling of the patch attempts*:
which pending attempt's result the collector receives next (`exec σ`, σ any list of positions), hence the order in
which patches are appended and follow-up attempts are launched.  An attempt itself is ONE step: `patchFn : Task → Option
Patch` is a function of the vuln-id list.  That is an assumption about the callbacks the attempts make, not a theorem:
the resolve client (`Versions`, `Requirements`, `MatchingVersions`) and the vulnerability matcher are assumed to answer
as functions of their arguments, whatever else runs concurrently, and attempts share no other mutable state (each works
on `resolved.Manifest.Clone()`).  The theorems therefore do NOT cover interleavings *inside* an attempt at callback
granularity; what covers them is (i) part (b): the one piece of state the real clients share between attempts, the
request caches, is linearizable and single-flight (`C16_cache_linearizable_partial`, `C16_cache_once`), i.e. a client built
on it answers as a function of its arguments provided the upstream does; (ii) the harness: free runs of the real
ComputePatches whose attempts go through a shared, stateful, linearizable fake client (a real RequestCache under
Gosched/sleep perturbation, GOMAXPROCS 1/16, also under -race) must return the schedule-free result.
With `patchFn` a function, confluence of the *multiset* is close to "by construction" — the content of (a) is the rest:
the launched follow-ups depend on the delivered result (so the set of attempts is a closure, `C16_tasks_confluent`), the
final list is schedule-free under the one remaining hypothesis of `C16_final_partial` (strict weak order of the version
comparison), which fails on concrete inputs (`C16_patchcmp_mixed_cycle`; the second, `CmpEqImpliesEq`, is proved since the repair), and the loop needs a finiteness hypothesis to terminate.

(a) `common.ComputePatches` as a nondeterministic worklist — `C16_confluent`, `C16_final_partial`, `C16_patchcmp_order_partial`,
    `C16_terminates_partial` and the decided counterexamples to their unrestricted forms.
(b) `RequestCache` at lock granularity — `C16_cache_inv`, `C16_cache_once`, `C16_cache_linearizable_partial` (+ the decided
    non-linearizable history with an overlapping SetMap), `C16_cache_provenance`, `C16_cache_content`, `C16_cache_shared`.
    Lock discipline of the struct fields: `C16_cache_guarded` (C16CacheTable.lean, regenerated table).
(c) the status ticker — `C16_ticker_guarded` (C16Ticker.lean, regenerated table).
-/
import Scalibr.Proofs.Worklist
import Scalibr.Proofs.WorklistSort
import Scalibr.Proofs.WorklistOutput
import Scalibr.Proofs.Cache
import Scalibr.Proofs.CacheLin
import Scalibr.Proofs.OnceCell
import Scalibr.Spec.Worklist
namespace Scalibr.C16
open Scalibr Scalibr.Worklist

/-! ## (a) ComputePatches -/

/-- **C16_confluent.** (Nondeterminism = the delivery order σ of attempt results; `patchFn`, i.e. the attempt with all
its resolve-client / matcher callbacks, is assumed to be a function of the id list — see the file header.)
For every strategy function, both spawning modes and every list of initial
vulnerabilities: two schedules (lists of positions in the pending list — every delivery order the Go scheduler
can produce) that run to completion collect permutations of one multiset of patches. -/
theorem C16_confluent (patchFn : Task → Option Patch) (grouped : Bool) (vulns : List Str)
    (σ σ' : List Nat) (c c' : List Patch)
    (h : exec (outCP patchFn) (spawnCP patchFn grouped) σ (initCP vulns) = some ⟨[], c⟩)
    (h' : exec (outCP patchFn) (spawnCP patchFn grouped) σ' (initCP vulns) = some ⟨[], c'⟩) :
    c.Perm c' :=
  exec_confluent _ _ σ σ' _ c c' h h'

/-- the same at the level of tasks: the multiset of `patchFunc` calls ever made is the closure of the initial
tasks under the spawn function, independent of the delivery order (generic worklist) -/
theorem C16_tasks_confluent {τ : Type} [DecidableEq τ] (spawn : τ → List τ) (P : List τ) (ps ps' : List τ)
    (h : Runs spawn P ps) (h' : Runs spawn P ps') : ps.Perm ps' :=
  h.confluent P ps' h' (List.Perm.refl _)

/-- **C16_compare_total** (since fix 09778cd0): `Patch.Compare` returns 0 only for identical patches — every patch, any
version comparison.  "Identical" is identity of the REDUCED model `Patch` (Model/Worklist.lean): an update is (Name, VersionFrom,
VersionTo, Transitive, alias) where the alias string stands for `PackageUpdate.Type` as far as the universes vary it, and a
fixed / introduced vulnerability is its ID (`result.Vuln.Packages` and `Unactionable` are not modelled: the Go comparison does
not look at them either; they are functions of the ID and the graphs).  Key 6 (per update VersionTo, VersionFrom, Transitive, Type; then the fixed and the introduced ids)
separates whatever keys 1–5 leave tied. -/
theorem C16_compare_total (vc : Str → Str → Int) (a b : Patch) (h : Patch.compare vc a b = 0) : a = b :=
  compare_eq_zero_imp_eq vc a b h

/-- hence `CmpEqImpliesEq`, formerly a hypothesis of the three theorems below, is a theorem of the model -/
theorem C16_cmpeq_holds (vc : Str → Str → Int) (c : List Patch) : CmpEqImpliesEq vc c :=
  fun a _ b _ h => compare_eq_zero_imp_eq vc a b h


/-! ### "sorted and de-duplicated" -/

/-- **C16_output_members** (no hypothesis): whatever the version comparison does, the list `ComputePatches` returns contains
exactly the patches that were collected — `CompactFunc` only ever drops a patch identical to its predecessor
(`C16_compare_total`).  With `C16_confluent`: under any two complete delivery orders the results contain the same patches. -/
theorem C16_output_members (patchFn : Task → Option Patch) (grouped : Bool) (vulns : List Str) (vc : Str → Str → Int)
    (σ σ' : List Nat) (c c' : List Patch)
    (h : exec (outCP patchFn) (spawnCP patchFn grouped) σ (initCP vulns) = some ⟨[], c⟩)
    (h' : exec (outCP patchFn) (spawnCP patchFn grouped) σ' (initCP vulns) = some ⟨[], c'⟩) (p : Patch) :
    (p ∈ sortCompact vc c ↔ p ∈ c) ∧ (p ∈ sortCompact vc c ↔ p ∈ sortCompact vc c') := by
  have hp := C16_confluent patchFn grouped vulns σ σ' c c' h h'
  refine ⟨mem_sortCompact vc c p, ?_⟩
  rw [mem_sortCompact, mem_sortCompact]; exact hp.mem_iff

/-- **C16_output_sorted_partial.**  Hypothesis: the version comparison is a strict weak order on a set `V` containing the
target versions of the collected patches (the one hypothesis of `C16_final_partial`).  Then the returned list is STRICTLY
increasing w.r.t. `Patch.Compare`: sorted, and no two entries compare equal. -/
theorem C16_output_sorted_partial (patchFn : Task → Option Patch) (grouped : Bool) (vulns : List Str)
    (V : Str → Prop) (vc : Str → Str → Int) (hvc : Cmp3 (fun x y => V x ∧ V y) vc) (σ : List Nat) (c : List Patch)
    (h : exec (outCP patchFn) (spawnCP patchFn grouped) σ (initCP vulns) = some ⟨[], c⟩)
    (hV : ∀ p ∈ c, ∀ u ∈ p.updates, V u.vto) :
    (sortCompact vc c).Pairwise (fun a b => Patch.compare vc a b < 0) :=
  sortCompact_strict V vc hvc c (fun p hp => ⟨collected_ok patchFn grouped vulns σ c h p hp, hV p hp⟩)

/-- **C16_output_nodup_partial.**  Under the same hypothesis the returned list has no duplicates. -/
theorem C16_output_nodup_partial (patchFn : Task → Option Patch) (grouped : Bool) (vulns : List Str)
    (V : Str → Prop) (vc : Str → Str → Int) (hvc : Cmp3 (fun x y => V x ∧ V y) vc) (σ : List Nat) (c : List Patch)
    (h : exec (outCP patchFn) (spawnCP patchFn grouped) σ (initCP vulns) = some ⟨[], c⟩)
    (hV : ∀ p ∈ c, ∀ u ∈ p.updates, V u.vto) :
    (sortCompact vc c).Nodup := by
  have hs := C16_output_sorted_partial patchFn grouped vulns V vc hvc σ c h hV
  have hok : ∀ p ∈ sortCompact vc c, PatchOK V p := fun p hp =>
    have hpc := (mem_sortCompact vc c p).mp hp
    ⟨collected_ok patchFn grouped vulns σ c h p hpc, hV p hpc⟩
  have h3 := compare_cmp3 V vc hvc
  refine (hs.imp_of_mem ?_)
  intro a b ha _ hab e
  subst e
  have := h3.flip a a ⟨hok a ha, hok a ha⟩
  omega

/-- FULL-STRENGTH statement that does NOT hold: "the returned list is de-duplicated" without the hypothesis on the version
comparison.  With mixed parsable / unparsable target versions (`C16_patchcmp_mixed_cycle`) the sort can leave identical patches
apart, and `CompactFunc` only looks at neighbours: of the six collected patches (each twice) four survive, two of them equal. -/
theorem C16_output_nodup_needs_order :
    let p9 := one "a" "9.0.0" ["V"]
    let p10 := one "a" "10.0.0" ["V"]
    let p1x := one "a" "1x" ["V"]
    (sortCompact demoVc [p9, p10, p1x, p9, p10, p1x]).length = 4 ∧ (sortCompact demoVc [p9, p10, p1x, p9, p10, p1x]).Nodup = False := by
  decide

/-- **C16_final_partial.** The value `ComputePatches` returns (sort by `Patch.Compare`, compact) is the same under any two
complete schedules.  The ONE remaining hypothesis: the per-version comparison of step 5 is a strict weak order on a set `V`
containing the target versions of the collected patches.  It holds when all of them parse and the ecosystem's semantic
comparison is a strict weak order (npm), and when none parses (relax: string order) — `C16_patchcmp_order_parsed_partial`,
`C16_patchcmp_order_unparsed`; it is an assumption for Maven (C07: `mavenutil`'s comparison is not transitive in general) and
fails for mixed forms (`C16_patchcmp_mixed_cycle`).  (`CmpEqImpliesEq`, the second hypothesis before the repair, is now proved.) -/
theorem C16_final_partial (patchFn : Task → Option Patch) (grouped : Bool) (vulns : List Str)
    (V : Str → Prop) (vc : Str → Str → Int) (hvc : Cmp3 (fun x y => V x ∧ V y) vc)
    (σ σ' : List Nat) (c c' : List Patch)
    (h : exec (outCP patchFn) (spawnCP patchFn grouped) σ (initCP vulns) = some ⟨[], c⟩)
    (h' : exec (outCP patchFn) (spawnCP patchFn grouped) σ' (initCP vulns) = some ⟨[], c'⟩)
    (hV : ∀ p ∈ c, ∀ u ∈ p.updates, V u.vto) :
    sortCompact vc c = sortCompact vc c' := by
  have hp := C16_confluent patchFn grouped vulns σ σ' c c' h h'
  have hok := collected_ok patchFn grouped vulns σ c h
  have h3 := compare_cmp3 V vc hvc
  unfold sortCompact
  congr 1
  apply isort_eq_of_perm_on (PatchOK V) (patchLt vc)
  · intro a b ha hb; exact cmp3_lt_asymm h3 a b ⟨ha, hb⟩
  · intro a b d ha hb hd; exact cmp3_lt_negTrans h3 a b d ⟨ha, hb⟩ ⟨hb, hd⟩ ⟨ha, hd⟩
  · exact hp
  · intro a ha; exact ⟨hok a ha, hV a ha⟩
  · intro a b ha hb h1 h2
    exact compare_eq_zero_imp_eq vc a b (cmp3_eq_zero h3 a b ⟨⟨hok a ha, hV a ha⟩, ⟨hok b hb, hV b hb⟩⟩ h1 h2)

/-- the same statement about the function value `computePatches` -/
theorem C16_schedule_independent_partial (patchFn : Task → Option Patch) (grouped : Bool) (vulns : List Str)
    (V : Str → Prop) (vc : Str → Str → Int) (hvc : Cmp3 (fun x y => V x ∧ V y) vc)
    (σ σ' : List Nat) (r r' : List Patch)
    (h : computePatches patchFn grouped vc vulns σ = some r)
    (h' : computePatches patchFn grouped vc vulns σ' = some r')
    (hV : ∀ t p, patchFn t = some p → ∀ u ∈ p.updates, V u.vto) : r = r' := by
  unfold computePatches at h h'
  cases he : exec (outCP patchFn) (spawnCP patchFn grouped) σ (initCP vulns) with
  | none => rw [he] at h; cases h
  | some s =>
    cases he' : exec (outCP patchFn) (spawnCP patchFn grouped) σ' (initCP vulns) with
    | none => rw [he'] at h'; cases h'
    | some s' =>
      rw [he] at h; rw [he'] at h'
      obtain ⟨p, c⟩ := s
      obtain ⟨p', c'⟩ := s'
      cases p with
      | cons _ _ => cases h
      | nil =>
        cases p' with
        | cons _ _ => cases h'
        | nil =>
          simp only [Option.some.injEq] at h h'
          subst h; subst h'
          obtain ⟨ps, _, hc⟩ := exec_runs _ _ σ _ _ he rfl
          simp only [initCP, List.nil_append] at hc
          have hmem : ∀ q ∈ c, ∃ t, outCP patchFn t = some q := by
            intro q hq; rw [hc] at hq
            obtain ⟨t, _, ht⟩ := List.mem_filterMap.mp hq
            exact ⟨t, ht⟩
          apply C16_final_partial patchFn grouped vulns V vc hvc σ σ' c c' he he'
          intro q hq u hu
          obtain ⟨t, ht⟩ := hmem q hq
          exact hV t q (outCP_some ht).1 u hu

/-- every complete schedule returns what the breadth-first closure (the executable specification the driver
prints as `spec=`) returns -/
theorem C16_spec_partial (patchFn : Task → Option Patch) (grouped : Bool) (vulns : List Str)
    (V : Str → Prop) (vc : Str → Str → Int) (hvc : Cmp3 (fun x y => V x ∧ V y) vc)
    (σ : List Nat) (c : List Patch) (n : Nat)
    (h : exec (outCP patchFn) (spawnCP patchFn grouped) σ (initCP vulns) = some ⟨[], c⟩)
    (hf : (fifo (outCP patchFn) (spawnCP patchFn grouped) n (initCP vulns)).pending = [])
    (hV : ∀ p ∈ c, ∀ u ∈ p.updates, V u.vto) :
    sortCompact vc c = sortCompact vc (fifo (outCP patchFn) (spawnCP patchFn grouped) n (initCP vulns)).collected := by
  obtain ⟨σ', hσ'⟩ := fifo_exec (outCP patchFn) (spawnCP patchFn grouped) n (initCP vulns)
  have : fifo (outCP patchFn) (spawnCP patchFn grouped) n (initCP vulns)
      = ⟨[], (fifo (outCP patchFn) (spawnCP patchFn grouped) n (initCP vulns)).collected⟩ := by
    cases hh : fifo (outCP patchFn) (spawnCP patchFn grouped) n (initCP vulns) with
    | mk p c' => rw [hh] at hf; simp at hf; subst hf; rfl
  rw [this] at hσ'
  exact C16_final_partial patchFn grouped vulns V vc hvc σ σ' c _ h hσ' hV

/-- **C16_patchcmp_order_partial.** `Patch.Compare` is a strict weak order — in the three-way form `slices.SortFunc`
takes: `cmp(a,b) < 0 ↔ cmp(b,a) > 0`, and "not less" is transitive — among patches that have at least one
update and whose target versions lie in a set `V` on which the per-version comparison of step 5 is one. -/
-- Reviewer's note (AUDIT-1): the hypothesis `Cmp3 … vc` is shown satisfiable below only for the harness grammar
-- (`parseMajor`), and the driver's `order=` flag ("all parse or none") is a proxy for it, not `Cmp3` of the real comparator.
-- Agreed, and kept as an explicit hypothesis: for npm the generator asserts at start-up that deps.dev's `semver.NPM` orders
-- the version pool as `parseMajor` does; for Maven (override strategy) C07 proves the comparator is NOT transitive
-- (`C07_maven_trans_fails`), so there `hvc` can genuinely fail and nothing here says the sorted result is schedule-free.
theorem C16_patchcmp_order_partial (V : Str → Prop) (vc : Str → Str → Int) (hvc : Cmp3 (fun x y => V x ∧ V y) vc) :
    Cmp3 (fun a b => PatchOK V a ∧ PatchOK V b) (Patch.compare vc) :=
  compare_cmp3 V vc hvc

/-- the hypothesis of `C16_patchcmp_order` holds when every target version parses (override strategy: concrete
versions) and the semantic comparison is a three-way comparator … -/
theorem C16_patchcmp_order_parsed_partial {ν} (parse : Str → Option ν) (scmp : ν → ν → Int) (hs : Cmp3 (fun _ _ => True) scmp) :
    Cmp3 (fun a b => PatchOK (fun s => (parse s).isSome) a ∧ PatchOK (fun s => (parse s).isSome) b)
      (Patch.compare (verCmp parse scmp)) :=
  compare_cmp3 _ _ (verCmp_cmp3_parsed parse scmp hs)

/-- … and when no target version parses (relax strategy: ranges such as `^1.2.3`) -/
theorem C16_patchcmp_order_unparsed {ν} (parse : Str → Option ν) (scmp : ν → ν → Int) :
    Cmp3 (fun a b => PatchOK (fun s => parse s = none) a ∧ PatchOK (fun s => parse s = none) b)
      (Patch.compare (verCmp parse scmp)) :=
  compare_cmp3 _ _ (verCmp_cmp3_unparsed parse scmp)

/-! ### counterexamples: the hypotheses cannot be dropped -/

/-- FULL-STRENGTH statement that does NOT hold: "`Patch.Compare` is a strict weak order on all patches with ≥ 1
update".  Mixing a target version that does not parse ("1x": string comparison) with ones that do (semantic
comparison) gives a cycle 9.0.0 < 10.0.0 < 1x < 9.0.0. -/
theorem C16_patchcmp_mixed_cycle :
    Patch.compare demoVc (one "a" "9.0.0" ["V"]) (one "a" "10.0.0" ["V"]) < 0 ∧
    Patch.compare demoVc (one "a" "10.0.0" ["V"]) (one "a" "1x" ["V"]) < 0 ∧
    Patch.compare demoVc (one "a" "1x" ["V"]) (one "a" "9.0.0" ["V"]) < 0 := by decide

/-- with an empty patch the multiplied-out ratio of step 1 compares equal to everything and the order is cyclic:
`a < e < b < a` (so "≥ 1 update" cannot be dropped; `ComputePatches` never collects an empty patch) -/
theorem C16_patchcmp_needs_updates :
    let u : Upd := ⟨bytes "a", [], bytes "2.0.0", false, []⟩
    let a : Patch := ⟨[u], [bytes "V", bytes "W", bytes "X"], [bytes "A", bytes "B", bytes "C"]⟩   -- ratio 0/1, 3 fixed
    let b : Patch := ⟨[u], [bytes "V"], []⟩                                                         -- ratio 1/1, 1 fixed
    let e : Patch := ⟨[], [bytes "V", bytes "W"], [bytes "A", bytes "B"]⟩                           -- ratio 0/0, 2 fixed
    Patch.compare demoVc a e < 0 ∧ Patch.compare demoVc e b < 0 ∧ Patch.compare demoVc b a < 0 := by decide

/-- The witness of the former known finding C16/compare-equal-distinct-patches (two patches with the same update and
different `Fixed` ids; before the repair `Compare` returned 0 for them and `CompactFunc` kept whichever was delivered first):
both survive now, in the same order under both delivery orders. -/
theorem C16_final_formerly_order_dependent :
    computePatches demoFn true demoVc [bytes "A", bytes "B"] [0, 0] = some [one "x" "2.0.0" ["A"], one "x" "2.0.0" ["B"]] ∧
    computePatches demoFn true demoVc [bytes "A", bytes "B"] [1, 0] = some [one "x" "2.0.0" ["A"], one "x" "2.0.0" ["B"]] := by decide

/-! ### non-vacuity -/

example :
    exec (outCP okFn) (spawnCP okFn true) [0, 0, 0] (initCP [bytes "A", bytes "B"]) = some ⟨[], [okA, okB, okAC]⟩ ∧
    exec (outCP okFn) (spawnCP okFn true) [1, 0, 0] (initCP [bytes "A", bytes "B"]) = some ⟨[], [okB, okA, okAC]⟩ ∧
    CmpEqImpliesEq demoVc [okA, okB, okAC] ∧ (∀ p ∈ [okA, okB, okAC], ∀ u ∈ p.updates, (parseMajor u.vto).isSome) ∧
    sortCompact demoVc [okA, okB, okAC] = [okAC, okB, okA] := by decide

/-- a per-version comparison satisfying the hypothesis of `C16_patchcmp_order_partial`: all versions parse -/
example : Cmp3 (fun x y => (parseMajor x).isSome ∧ (parseMajor y).isSome) demoVc :=
  verCmp_cmp3_parsed parseMajor _ (cmp3_key (fun n : Nat => (n : Int)))

/-- **C16_terminates_partial.** If the vulnerabilities patches can introduce lie in a finite universe `U` (at most `b` per
patch), then (i) no schedule is longer than the initial measure — the loop `for toProcess > 0` cannot run
forever — and (ii) breadth-first delivery with that much fuel empties the worklist, so complete schedules exist. -/
theorem C16_terminates_partial (patchFn : Task → Option Patch) (grouped : Bool) (U : List Str) (b : Nat)
    (hf : FiniteCP U b patchFn) (vulns : List Str) :
    let μ := mu (rankCP U) (b + 1) (initCP vulns).pending
    (∀ σ s', exec (outCP patchFn) (spawnCP patchFn grouped) σ (initCP vulns) = some s' → σ.length ≤ μ) ∧
    (fifo (outCP patchFn) (spawnCP patchFn grouped) μ (initCP vulns)).pending = [] := by
  intro μ
  have hr := spawnCP_rank U b patchFn grouped hf
  have hb := spawnCP_length U b patchFn grouped hf
  constructor
  · intro σ s' h
    have := exec_length_le (outCP patchFn) (spawnCP patchFn grouped) (rankCP U) (b + 1) hr hb σ _ _ h
    omega
  · exact fifo_complete (outCP patchFn) (spawnCP patchFn grouped) (rankCP U) (b + 1) hr hb μ _ (Nat.le_refl _)

example : FiniteCP [bytes "A", bytes "B", bytes "C"] 1 okFn := by
  intro t p h
  unfold okFn at h
  split at h
  · cases h; simp [bytes]
  · split at h
    · cases h; simp
    · split at h
      · cases h; simp
      · cases h

/-- without the finiteness hypothesis the loop need not terminate: a strategy that introduces a fresh vulnerability on
every attempt keeps exactly one attempt pending after ANY number of deliveries -/
theorem C16_terminates_needs_finite : ∀ n : Nat,
    ((exec (outCP freshFn) (spawnCP freshFn true) (List.replicate n 0) (initCP [[0]])).map (·.pending.length)) = some 1 := by
  have spawn_eq : ∀ t : Task, (∀ x ∈ t, x.length ≤ t.length) →
      spawnCP freshFn true t = [t ++ [List.replicate (t.length + 1) 7]] := by
    intro t ht
    have hnot : t.contains (List.replicate (t.length + 1) 7) = false := by
      cases hc : t.contains (List.replicate (t.length + 1) 7) with
      | false => rfl
      | true =>
        have := ht _ (by simpa using hc)
        simp only [List.length_replicate] at this
        omega
    have hn : List.replicate (t.length + 1) 7 ∉ t := by simpa using hnot
    simp [spawnCP, outCP, freshFn, newlyAdded, hn]
  have key : ∀ (n : Nat) (t : Task) (c : List Patch), (∀ x ∈ t, x.length ≤ t.length) →
      ((exec (outCP freshFn) (spawnCP freshFn true) (List.replicate n 0) ⟨[t], c⟩).map (·.pending.length)) = some 1 := by
    intro n
    induction n with
    | zero => intro t c _; rfl
    | succ n ih =>
      intro t c ht
      simp only [List.replicate_succ, exec, stepAt, List.getElem?_cons_zero, List.eraseIdx_cons_zero, List.nil_append, spawn_eq t ht]
      apply ih
      intro x hx
      rcases List.mem_append.mp hx with h | h
      · have := ht x h; simp only [List.length_append, List.length_singleton]; omega
      · simp only [List.mem_singleton] at h; subst h; simp
  intro n
  exact key n [[0]] [] (by simp)

/-! ## (b) RequestCache -/
open Scalibr.Cache in
/-- **C16_cache_inv.** In every state reachable by any interleaving (any number of callers, keys, SetMap/GetMap
calls): at most one fetch is in flight per key (two callers fetching the same key are the same caller), the
pending-call table points exactly at it, a caller only waits on a call created for its own key, and while a call for `k`
is in flight no fetch for `k` has succeeded since the last SetMap (so the in-flight fetch is never redundant). -/
theorem C16_cache_inv (keyOf : Nat → Option Cache.K) (as : List Cache.Act) :
    let s := Cache.run keyOf as
    (∀ t t' c c' k, s.pcs t = .fetching c k → s.pcs t' = .fetching c' k → t = t') ∧
    (∀ t c k, s.pcs t = .fetching c k → s.calls k = some c) ∧
    (∀ k c, s.calls k = some c → ∃ t, s.pcs t = .fetching c k) ∧
    (∀ t c k, s.pcs t = .waiting c k → s.ckey c = some k) ∧
    (∀ k c, s.calls k = some c → s.succeeded k = false) :=
  let h := Cache.inv_run keyOf as
  ⟨h.fetch_uniq, h.fetch_calls, h.calls_owner, fun t c k hw => (h.ckey_wait t c k hw).1,
   fun k c hc => by
     cases hs : (Cache.run keyOf as).succeeded k with
     | false => rfl
     | true => have := h.succ_nocall k hs; rw [hc] at this; cases this⟩

open Scalibr.Cache in
/-- **C16_cache_once.** (i) No fetch is ever *started* for a key that has had a successful fetch since the last
SetMap, and at most one fetch per key succeeds between two SetMaps; (ii) without SetMap, the number of times the
fetch function ran for `k` is at most the number of its failures plus one: once per success. -/
theorem C16_cache_once (keyOf : Nat → Option Cache.K) (as : List Cache.Act) :
    let s := Cache.run keyOf as
    s.lateFetch = false ∧ (∀ k, s.nok k ≤ 1) ∧
    ((∀ a ∈ as, a.isSetMap = false) → ∀ k, s.nfetch k ≤ s.nerr k + 1 ∧ s.nokT k ≤ 1) := by
  intro s
  have h := Cache.inv_run keyOf as
  refine ⟨h.no_late, ?_, ?_⟩
  · intro k; have := h.nok_succ k; show (Cache.run keyOf as).nok k ≤ 1; split at this <;> omega
  · intro hns k
    have e := Cache.nokT_eq_nok as (Cache.init keyOf) hns (fun _ => rfl) k
    have hc := h.count k
    have hn := h.nok_succ k
    have hs := h.succ_nocall k
    show (Cache.run keyOf as).nfetch k ≤ (Cache.run keyOf as).nerr k + 1 ∧ (Cache.run keyOf as).nokT k ≤ 1
    unfold Cache.run at *
    cases hsk : (Cache.runFrom (Cache.init keyOf) as).succeeded k with
    | true => simp [hsk] at hn; have := hs hsk; simp [this] at hc; omega
    | false => simp [hsk] at hn; split at hc <;> omega

open Scalibr.Cache in
/-- **C16_cache_provenance** (formerly `C16_cache_linear`; it is provenance, NOT linearizability — a caller could return
any result ever published for `k` and still satisfy it; the linearizability statement is `C16_cache_linearizable_partial`
below).  Whatever a caller of `Get(k)` returns — `(v, nil)` or `(zero, err)` — is the result
that a fetch *for the same key* published earlier in the history (`as = as1 ++ publish t' r :: as2`, `t'` was
fetching `k`), or a value that an earlier `SetMap` installed for `k`.  In particular errors are only ever
reported to callers of the key whose fetch failed, and no value crosses keys. -/
theorem C16_cache_provenance (keyOf : Nat → Option Cache.K) (as : List Cache.Act) (t : Nat) (k : Cache.K) (r : Cache.R)
    (hd : (Cache.run keyOf as).pcs t = .done k r) :
    (∃ as1 t' as2 c, as = as1 ++ Cache.Act.publish t' r :: as2 ∧ (Cache.run keyOf as1).pcs t' = .fetching c k) ∨
    (∃ v as1 m as2, r = .ok v ∧ as = as1 ++ Cache.Act.setMap m :: as2 ∧ m k = some v) := by
  have h := Cache.inv_run keyOf as
  rcases h.done_org t k r hd with hp | ⟨v, hv, hs⟩
  · rcases Cache.pub_history k r as (Cache.init keyOf) hp with h0 | h1
    · simp [Cache.init] at h0
    · exact Or.inl h1
  · rcases Cache.setv_history k v as (Cache.init keyOf) hs with h0 | ⟨as1, m, as2, he, hm⟩
    · simp [Cache.init] at h0
    · exact Or.inr ⟨v, as1, m, as2, hv, he, hm⟩


open Scalibr.Cache in
/-- **C16_cache_linearizable_partial.**  Hypothesis (`RunOK`): `SetMap` is only executed while no fetch is in flight
(it loads a saved cache before the client is used; without this the statement is FALSE, see
`C16_cache_setmap_overlap_not_linearizable`).  Then for every interleaving `as` of lookup / publish / wake / SetMap /
GetMap steps (any number of callers and keys) the ghost log `lin` of Model/CacheLin.lean — which never influences the
run (`lrun_base`) — is a linearization:
 1. it is a legal history of the SEQUENTIAL specification "a map with fetch-on-miss" that ends in the actual cache:
    every `Get` in it returns the stored value on a hit and the outcome of its fetch on a miss (stored iff it succeeded),
    every `GetMap` returns exactly the map at that point;
 2. every completed call of `Get` is in it with the result it really returned, at a time `τ` inside the call's
    interval `[tLook, tRet]` (first critical section … result available);
 3. nothing else is in it: every `Get` entry belongs to a caller that has returned that result, or is blocked in `wg.Wait()`
    on a call whose (published) result it will return; no caller occurs twice;
 4. its order is the order of the times `τ`;
 5. its `GetMap` entries are, in order, exactly the maps the executed GetMap calls returned (`base.maps`), and its `SetMap`
    entries are, in order, exactly the arguments of the executed SetMap actions.
 2 + 4 give the real-time clause: if call A's result was available before call B's first step (`tRet A < tLook B`), then
 `τ_A < τ_B`, so A precedes B.  "At most once per key per success" for the real fetch function is `C16_cache_once`
 (in the sequential history a waiter of a FAILED call counts as a miss whose fetch fails with the shared error). -/
theorem C16_cache_linearizable_partial (keyOf : Nat → Option K) (as : List Act) (hq : RunOK (init keyOf) as) :
    let l := lrun keyOf as
    l.base = run keyOf as ∧
    SpecRun (fun _ => none) (l.lin.map (·.2)) l.base.cache ∧
    (∀ t k r, l.base.pcs t = .done k r →
      ∃ τ a b, (τ, LinOp.get t k r) ∈ l.lin ∧ l.tLook t = some a ∧ l.tRet t = some b ∧ a ≤ τ ∧ τ ≤ b) ∧
    (∀ τ t k r, (τ, LinOp.get t k r) ∈ l.lin →
      l.base.pcs t = .done k r ∨ ∃ c, l.base.pcs t = .waiting c k ∧ l.base.results c = some r) ∧
    (callers l.lin).Nodup ∧
    l.lin.Pairwise (fun x y => x.1 ≤ y.1) ∧
    l.lin.filterMap (fun e => e.2.snapOf) = l.base.maps.reverse ∧
    l.lin.filterMap (fun e => e.2.setOf) = as.filterMap Act.setOf := by
  intro l
  have h1 := linv_runFrom as (linit keyOf) (linv_init keyOf) hq
  have h2 := linv2_runFrom as (linit keyOf) (linv_init keyOf) (linv2_init keyOf) hq
  have h3 := lin_snaps_sets as (linit keyOf) (by simp [linit, init])
  exact ⟨lrun_base keyOf as, h1.spec, h1.done_lin, h1.lin_real, h2.nodup, h2.sorted, h3.1, by have := h3.2; simp only [linit, List.filterMap_nil, List.nil_append] at this; exact this⟩

open Scalibr.Cache in
/-- the real-time clause spelled out: a call whose result was available before another call's first step is linearized
strictly earlier -/
theorem C16_cache_realtime (keyOf : Nat → Option K) (as : List Act) (hq : RunOK (init keyOf) as)
    (tA tB : Nat) (kA kB : K) (rA rB : R)
    (hA : (lrun keyOf as).base.pcs tA = .done kA rA) (hB : (lrun keyOf as).base.pcs tB = .done kB rB)
    (hrt : ∀ b a, (lrun keyOf as).tRet tA = some b → (lrun keyOf as).tLook tB = some a → b < a) :
    ∃ τA τB, (τA, LinOp.get tA kA rA) ∈ (lrun keyOf as).lin ∧ (τB, LinOp.get tB kB rB) ∈ (lrun keyOf as).lin ∧ τA < τB := by
  obtain ⟨_, _, hd, _, _, _, _, _⟩ := C16_cache_linearizable_partial keyOf as hq
  obtain ⟨τA, aA, bA, hmA, _, hbA, _, h2A⟩ := hd tA kA rA hA
  obtain ⟨τB, aB, bB, hmB, haB, _, h1B, _⟩ := hd tB kB rB hB
  have := hrt bA aB hbA haB
  exact ⟨τA, τB, hmA, hmB, by omega⟩

/-! FULL-STRENGTH statement that does NOT hold: "RequestCache is linearizable for every interleaving of Get / SetMap / GetMap".
One caller fetches key 0; while the fetch is in flight `SetMap({0 ↦ 5})` runs; the fetch then succeeds with 7 and `Get`
returns 7; `GetMap` afterwards shows `0 ↦ 7`.  Sequentially, `SetMap` before `Get` makes `Get` a hit returning 5; `Get`
before `SetMap` leaves `0 ↦ 5` for `GetMap`.  (The publish step overwrites what SetMap installed: `rq.cache[key] = c.val`.) -/
inductive SOp | get (ret : Cache.R) | set (v : Option Cache.V) | snap (v : Option Cache.V)
deriving DecidableEq

/-- the sequential specification restricted to the single key 0, executable -/
def seqStep (m : Option Cache.V) : SOp → Option (Option Cache.V)
  | .get (.ok v) => match m with
    | some w => if w = v then some m else none
    | none => some (some v)
  | .get .err => match m with
    | some _ => none
    | none => some none
  | .set v => some v
  | .snap v => if v = m then some m else none

def seqOK (ops : List SOp) : Bool := (ops.foldlM seqStep none).isSome

theorem C16_cache_setmap_overlap_not_linearizable :
    let keyOf : Nat → Option Nat := fun t => if t = 0 then some 0 else none
    let s := Cache.run keyOf [.lookup 0, .setMap (fun k => if k = 0 then some 5 else none), .publish 0 (.ok 7), .getMap]
    -- what the three calls observed
    s.pcs 0 = .done 0 (.ok 7) ∧ (s.maps.head?.map (· 0)) = some (some 7) ∧
    -- GetMap started after both other calls had returned, so real-time order puts it last; neither remaining sequential
    -- order of {Get → ok 7, SetMap {0↦5}, GetMap → {0↦7}} is legal
    (∀ ops ∈ [[SOp.get (.ok 7), .set (some 5), .snap (some 7)], [.set (some 5), .get (.ok 7), .snap (some 7)]],
      seqOK ops = false) ∧
    -- (the order Get, GetMap, SetMap would be legal, but GetMap ran after SetMap had returned)
    seqOK [.get (.ok 7), .snap (some 7), .set (some 5)] = true := by decide

/-- the same for the cache content (what GetMap hands out) -/
theorem C16_cache_content (keyOf : Nat → Option Cache.K) (as : List Cache.Act) (k : Cache.K) (v : Cache.V)
    (hc : (Cache.run keyOf as).cache k = some v) :
    (∃ as1 t' as2 c, as = as1 ++ Cache.Act.publish t' (.ok v) :: as2 ∧ (Cache.run keyOf as1).pcs t' = .fetching c k) ∨
    (∃ as1 m as2, as = as1 ++ Cache.Act.setMap m :: as2 ∧ m k = some v) := by
  have h := Cache.inv_run keyOf as
  rcases h.cache_org k v hc with hp | hs
  · rcases Cache.pub_history k _ as (Cache.init keyOf) hp with h0 | h1
    · simp [Cache.init] at h0
    · exact Or.inl h1
  · rcases Cache.setv_history k v as (Cache.init keyOf) hs with h0 | h1
    · simp [Cache.init] at h0
    · exact Or.inr h1

/-- **C16_cache_shared.** Once a call's result is stored it never changes: the fetcher and every waiter of that
call return the same `(v, err)`, however late the waiter wakes up. -/
theorem C16_cache_shared (keyOf : Nat → Option Cache.K) (as bs : List Cache.Act) (c : Cache.Cid) (r : Cache.R)
    (hr : (Cache.run keyOf as).results c = some r) : (Cache.run keyOf (as ++ bs)).results c = some r := by
  unfold Cache.run Cache.runFrom at *
  rw [List.foldl_append]
  have hi := Cache.inv_run keyOf as
  unfold Cache.run Cache.runFrom at hi
  generalize List.foldl Cache.step (Cache.init keyOf) as = s at hr hi
  induction bs generalizing s with
  | nil => exact hr
  | cons b bs ih => exact ih _ (Cache.results_stable s b hi c r hr) (Cache.inv_step s b hi)

/-- non-vacuity: two callers of one key, the first fetch fails (both see the error), a third caller fetches again
and succeeds, a fourth hits the cache; one SetMap in between -/
example :
    let keyOf : Nat → Option Nat := fun t => if t < 4 then some 0 else none
    let s := Cache.run keyOf [.lookup 0, .lookup 1, .publish 0 .err, .wake 1, .lookup 2, .publish 2 (.ok 7), .lookup 3,
                              .setMap (fun _ => none), .getMap]
    s.pcs 0 = .done 0 .err ∧ s.pcs 1 = .done 0 .err ∧ s.pcs 2 = .done 0 (.ok 7) ∧ s.pcs 3 = .done 0 (.ok 7) ∧
    s.nfetch 0 = 2 ∧ s.nerr 0 = 1 ∧ s.cache 0 = none := by decide

/-- the hypothesis of `C16_cache_linearizable_partial` is satisfiable by a history with a SetMap, waiters, a failed and a
successful fetch -/
example : Cache.RunOK (Cache.init (fun t => if t < 4 then some 0 else none))
    [.setMap (fun k => if k = 1 then some 9 else none), .lookup 0, .lookup 1, .publish 0 .err, .wake 1, .lookup 2, .publish 2 (.ok 7),
     .lookup 3, .getMap, .setMap (fun _ => none), .getMap] := by
  simp [Cache.RunOK, Cache.stepOK, Cache.step, Cache.init, Cache.upd]
  intro k hk; simp [hk]

/-! ## (b') the lazily created registry clients of CombinedNativeClient -/

/-- **C16_oncecell.**  `clientForSystem` as a once-cell per ecosystem (its whole body is one critical section under `c.mu`): under every
order of calls by any number of callers, each ecosystem's client is constructed at most once — so there is one set of request caches per
ecosystem — and two callers of one ecosystem are handed the same client.  An ecosystem whose construction fails (`fails e`: unsupported
system, unparsable registry URL, unreadable .npmrc) never gets a client: every caller, every time, gets the error and nothing is built.
NOT covered (runtime behaviour this model cannot exhibit): data-race freedom of the initialisation itself.  A variant that reads the cell
outside the lock has the same transitions at this granularity; what is wrong with it is the unordered read of the pointer and of the freshly
built caches.  That is established by the Go race detector on the generated schedules (stream `cnc` of checks/c16.py: a fresh client per
case, 2..4 goroutines, simultaneous and staggered first calls, per ecosystem, against in-process registries) and is observation. -/
theorem C16_oncecell (fails : OnceCell.Eco → Bool) (calls : List (Nat × OnceCell.Eco)) :
    let s := OnceCell.run fails calls
    (∀ e, s.built e ≤ 1) ∧
    (∀ t t' e c c', s.got t = some (e, c) → s.got t' = some (e, c') → c = c') ∧
    (∀ e, fails e = true → s.built e = 0 ∧ ∀ t c, s.got t ≠ some (e, c)) := by
  intro s
  have h := OnceCell.inv_run fails calls
  refine ⟨fun e => by have := h.built_le e; show (OnceCell.run fails calls).built e ≤ 1; split at this <;> omega, ?_, ?_⟩
  · intro t t' e c c' h1 h2
    have a := h.got_cell t e c h1
    have b := h.got_cell t' e c' h2
    rw [a] at b; cases b; rfl
  · intro e hf
    have hn := h.fail_none e hf
    refine ⟨by have := h.built_le e; rw [hn] at this; exact this, ?_⟩
    intro t c hg
    have := h.got_cell t e c hg
    rw [hn] at this; cases this

example : (OnceCell.run (fun _ => false) [(0, 2), (1, 2), (2, 1), (3, 2)]).built 2 = 1 ∧
    (OnceCell.run (fun _ => false) [(0, 2), (1, 2), (2, 1), (3, 2)]).got 3 = some (2, 0) := by decide

/-- an ecosystem whose client cannot be constructed: every caller fails, nothing is built, the other ecosystems are unaffected -/
example : (OnceCell.run (fun e => e == 1) [(0, 1), (1, 2), (2, 1), (3, 2)]).built 1 = 0 ∧
    (OnceCell.run (fun e => e == 1) [(0, 1), (1, 2), (2, 1), (3, 2)]).got 2 = none ∧
    (OnceCell.run (fun e => e == 1) [(0, 1), (1, 2), (2, 1), (3, 2)]).got 3 = some (2, 0) := by decide

/-! ## (c) the status ticker: `C16_ticker_guarded` lives in Properties/C16Ticker.lean, the only module that depends on the
regenerated table, so that a change of extractor/filesystem that breaks it leaves the obligations above standing. -/

end Scalibr.C16
