/-
C16 — Concurrent parts are race-free and schedule-independent  (level `other`: partial).

What is proved here is about the three Lean models (Model/Worklist, Model/Cache, Gen/Ticker); the Go
memory model below the granularity of the callbacks / critical sections and the race detector's view of
the executed schedules are runtime (checks/c16.py runs them and says so in META).

(a) `common.ComputePatches` as a nondeterministic worklist — every schedule that runs to completion
    collects the same multiset of patches (`C16_confluent`), the sorted, de-duplicated result is the same list
    (`C16_final`, under the explicit hypothesis `CmpEqImpliesEq`), `Patch.Compare` satisfies `SortFunc`'s
    precondition among patches with ≥ 1 update (`C16_patchcmp_order`; NOT when parsable and unparsable target
    versions are mixed: `C16_patchcmp_mixed_cycle`), the loop terminates when the vulnerabilities that can be
    introduced form a finite set (`C16_terminates`).
(b) `RequestCache` at lock granularity — invariant over all interleavings (`C16_cache_inv`), the fetch function
    runs at most once per success between SetMaps (`C16_cache_once`), every returned result is the published
    result of a fetch for the same key or a value installed by SetMap (`C16_cache_linear`), all parties of one
    call see one result (`C16_cache_shared`).
(c) the status ticker — over the table regenerated from extractor/filesystem on every run, every conflicting
    pair of accesses (ticker goroutine vs. walking goroutine, same field, one a write) is inside
    `statusMu.Lock()`…`Unlock()` on both sides (`C16_ticker_guarded`).
-/
import Scalibr.Proofs.Worklist
import Scalibr.Proofs.WorklistSort
import Scalibr.Proofs.Cache
namespace Scalibr.C16
open Scalibr Scalibr.Worklist

/-! ## (a) ComputePatches -/

/-- **C16_confluent.** For every strategy function, both spawning modes and every list of initial
vulnerabilities: two schedules (lists of positions in the pending list — every delivery order the Go scheduler
can produce) that run to completion collect permutations of one multiset of patches. -/
theorem C16_confluent (patchFn : Task → Option Patch) (grouped : Bool) (vulns : List Str)
    (σ σ' : List Nat) (c c' : List Patch)
    (h : exec (outCP patchFn) (spawnCP patchFn grouped) σ (initCP vulns) = some ⟨[], c⟩)
    (h' : exec (outCP patchFn) (spawnCP patchFn grouped) σ' (initCP vulns) = some ⟨[], c'⟩) :
    c.Perm c' :=
  exec_confluent _ _ σ σ' _ c c' h h'

/-- the same at the level of tasks: the multiset of `patchFunc` calls ever made is the closure of the initial
tasks under the spawn function, independent of the delivery order (generic worklist) -/
theorem C16_tasks_confluent {τ : Type} [DecidableEq τ] (spawn : τ → List τ) (P : List τ) (ps ps' : List τ)
    (h : Runs spawn P ps) (h' : Runs spawn P ps') : ps.Perm ps' :=
  h.confluent P ps' h' (List.Perm.refl _)

/-- patches that `Compare` equal are identical — NOT a theorem of the code (`Compare` ignores the ids in
`Fixed`/`Introduced`, `VersionFrom`, `Transitive`, `Type`): an explicit hypothesis, evaluated by the harness on
every generated universe -/
def CmpEqImpliesEq (vc : Str → Str → Int) (c : List Patch) : Prop :=
  ∀ a ∈ c, ∀ b ∈ c, Patch.compare vc a b = 0 → a = b

instance (vc : Str → Str → Int) (c : List Patch) : Decidable (CmpEqImpliesEq vc c) := by
  unfold CmpEqImpliesEq; exact inferInstance

theorem collected_ok (patchFn : Task → Option Patch) (grouped : Bool) (vulns : List Str) (σ : List Nat) (c : List Patch)
    (h : exec (outCP patchFn) (spawnCP patchFn grouped) σ (initCP vulns) = some ⟨[], c⟩) :
    ∀ p ∈ c, p.updates ≠ [] := by
  obtain ⟨ps, _, hc⟩ := exec_runs _ _ σ _ _ h rfl
  simp only [initCP, List.nil_append] at hc
  intro p hp
  rw [hc] at hp
  obtain ⟨t, _, ht⟩ := List.mem_filterMap.mp hp
  exact (outCP_some ht).2

/-- **C16_final.** The value `ComputePatches` returns (sort by `Patch.Compare`, compact) is the same under any two
complete schedules, provided (i) the per-version comparison is a strict weak order on a set `V` containing the
target versions of the collected patches and (ii) `CmpEqImpliesEq` holds for the collected patches. -/
theorem C16_final (patchFn : Task → Option Patch) (grouped : Bool) (vulns : List Str)
    (V : Str → Prop) (vc : Str → Str → Int) (hvc : Cmp3 (fun x y => V x ∧ V y) vc)
    (σ σ' : List Nat) (c c' : List Patch)
    (h : exec (outCP patchFn) (spawnCP patchFn grouped) σ (initCP vulns) = some ⟨[], c⟩)
    (h' : exec (outCP patchFn) (spawnCP patchFn grouped) σ' (initCP vulns) = some ⟨[], c'⟩)
    (hV : ∀ p ∈ c, ∀ u ∈ p.updates, V u.vto)
    (hce : CmpEqImpliesEq vc c) :
    sortCompact vc c = sortCompact vc c' := by
  have hp := C16_confluent patchFn grouped vulns σ σ' c c' h h'
  have hok := collected_ok patchFn grouped vulns σ c h
  have h3 := compare_cmp3 V vc hvc
  unfold sortCompact
  congr 1
  apply isort_eq_of_perm_on (PatchOK V) (patchLt vc)
  · intro a b ha hb; exact cmp3_lt_asymm h3 a b ⟨ha, hb⟩
  · intro a b d ha hb hd; exact cmp3_lt_negTrans h3 a b d ⟨ha, hb⟩ ⟨hb, hd⟩ ⟨ha, hd⟩
  · exact hp
  · intro a ha; exact ⟨hok a ha, hV a ha⟩
  · intro a b ha hb h1 h2
    exact hce a ha b hb (cmp3_eq_zero h3 a b ⟨⟨hok a ha, hV a ha⟩, ⟨hok b hb, hV b hb⟩⟩ h1 h2)

/-- the same statement about the function value `computePatches` -/
theorem C16_schedule_independent (patchFn : Task → Option Patch) (grouped : Bool) (vulns : List Str)
    (V : Str → Prop) (vc : Str → Str → Int) (hvc : Cmp3 (fun x y => V x ∧ V y) vc)
    (σ σ' : List Nat) (r r' : List Patch)
    (h : computePatches patchFn grouped vc vulns σ = some r)
    (h' : computePatches patchFn grouped vc vulns σ' = some r')
    (hV : ∀ t p, patchFn t = some p → ∀ u ∈ p.updates, V u.vto)
    (hce : ∀ c, (∀ p ∈ c, ∃ t, outCP patchFn t = some p) → CmpEqImpliesEq vc c) : r = r' := by
  unfold computePatches at h h'
  cases he : exec (outCP patchFn) (spawnCP patchFn grouped) σ (initCP vulns) with
  | none => rw [he] at h; cases h
  | some s =>
    cases he' : exec (outCP patchFn) (spawnCP patchFn grouped) σ' (initCP vulns) with
    | none => rw [he'] at h'; cases h'
    | some s' =>
      rw [he] at h; rw [he'] at h'
      obtain ⟨p, c⟩ := s
      obtain ⟨p', c'⟩ := s'
      cases p with
      | cons _ _ => cases h
      | nil =>
        cases p' with
        | cons _ _ => cases h'
        | nil =>
          simp only [Option.some.injEq] at h h'
          subst h; subst h'
          obtain ⟨ps, _, hc⟩ := exec_runs _ _ σ _ _ he rfl
          simp only [initCP, List.nil_append] at hc
          have hmem : ∀ q ∈ c, ∃ t, outCP patchFn t = some q := by
            intro q hq; rw [hc] at hq
            obtain ⟨t, _, ht⟩ := List.mem_filterMap.mp hq
            exact ⟨t, ht⟩
          apply C16_final patchFn grouped vulns V vc hvc σ σ' c c' he he'
          · intro q hq u hu
            obtain ⟨t, ht⟩ := hmem q hq
            exact hV t q (outCP_some ht).1 u hu
          · exact hce c hmem

/-- every complete schedule returns what the breadth-first closure (the executable specification the driver
prints as `spec=`) returns -/
theorem C16_spec (patchFn : Task → Option Patch) (grouped : Bool) (vulns : List Str)
    (V : Str → Prop) (vc : Str → Str → Int) (hvc : Cmp3 (fun x y => V x ∧ V y) vc)
    (σ : List Nat) (c : List Patch) (n : Nat)
    (h : exec (outCP patchFn) (spawnCP patchFn grouped) σ (initCP vulns) = some ⟨[], c⟩)
    (hf : (fifo (outCP patchFn) (spawnCP patchFn grouped) n (initCP vulns)).pending = [])
    (hV : ∀ p ∈ c, ∀ u ∈ p.updates, V u.vto) (hce : CmpEqImpliesEq vc c) :
    sortCompact vc c = sortCompact vc (fifo (outCP patchFn) (spawnCP patchFn grouped) n (initCP vulns)).collected := by
  obtain ⟨σ', hσ'⟩ := fifo_exec (outCP patchFn) (spawnCP patchFn grouped) n (initCP vulns)
  have : fifo (outCP patchFn) (spawnCP patchFn grouped) n (initCP vulns)
      = ⟨[], (fifo (outCP patchFn) (spawnCP patchFn grouped) n (initCP vulns)).collected⟩ := by
    cases hh : fifo (outCP patchFn) (spawnCP patchFn grouped) n (initCP vulns) with
    | mk p c' => rw [hh] at hf; simp at hf; subst hf; rfl
  rw [this] at hσ'
  exact C16_final patchFn grouped vulns V vc hvc σ σ' c _ h hσ' hV hce

/-- **C16_patchcmp_order.** `Patch.Compare` is a strict weak order — in the three-way form `slices.SortFunc`
takes: `cmp(a,b) < 0 ↔ cmp(b,a) > 0`, and "not less" is transitive — among patches that have at least one
update and whose target versions lie in a set `V` on which the per-version comparison of step 5 is one. -/
theorem C16_patchcmp_order (V : Str → Prop) (vc : Str → Str → Int) (hvc : Cmp3 (fun x y => V x ∧ V y) vc) :
    Cmp3 (fun a b => PatchOK V a ∧ PatchOK V b) (Patch.compare vc) :=
  compare_cmp3 V vc hvc

/-- the hypothesis of `C16_patchcmp_order` holds when every target version parses (override strategy: concrete
versions) and the semantic comparison is a three-way comparator … -/
theorem C16_patchcmp_order_parsed {ν} (parse : Str → Option ν) (scmp : ν → ν → Int) (hs : Cmp3 (fun _ _ => True) scmp) :
    Cmp3 (fun a b => PatchOK (fun s => (parse s).isSome) a ∧ PatchOK (fun s => (parse s).isSome) b)
      (Patch.compare (verCmp parse scmp)) :=
  compare_cmp3 _ _ (verCmp_cmp3_parsed parse scmp hs)

/-- … and when no target version parses (relax strategy: ranges such as `^1.2.3`) -/
theorem C16_patchcmp_order_unparsed {ν} (parse : Str → Option ν) (scmp : ν → ν → Int) :
    Cmp3 (fun a b => PatchOK (fun s => parse s = none) a ∧ PatchOK (fun s => parse s = none) b)
      (Patch.compare (verCmp parse scmp)) :=
  compare_cmp3 _ _ (verCmp_cmp3_unparsed parse scmp)

/-! ### counterexamples: the hypotheses cannot be dropped -/

/-- ASCII names used in the examples, spelled as bytes so that `decide` can evaluate them -/
def bytes : String → Str
  | "a" => [97] | "b" => [98] | "x" => [120] | "y" => [121]
  | "A" => [65] | "B" => [66] | "C" => [67] | "V" => [86] | "W" => [87] | "X" => [88]
  | "1.0.0" => [49, 46, 48, 46, 48] | "2.0.0" => [50, 46, 48, 46, 48] | "3.0.0" => [51, 46, 48, 46, 48]
  | "9.0.0" => [57, 46, 48, 46, 48] | "10.0.0" => [49, 48, 46, 48, 46, 48] | "1x" => [49, 120]
  | _ => []
def demoVc : Str → Str → Int := verCmp parseMajor (fun a b => cmpInt a b)
def one (name vto : String) (fixed : List String) : Patch :=
  ⟨[⟨bytes name, bytes "1.0.0", bytes vto, false⟩], fixed.map bytes, []⟩

/-- FULL-STRENGTH statement that does NOT hold: "`Patch.Compare` is a strict weak order on all patches with ≥ 1
update".  Mixing a target version that does not parse ("1x": string comparison) with ones that do (semantic
comparison) gives a cycle 9.0.0 < 10.0.0 < 1x < 9.0.0. -/
theorem C16_patchcmp_mixed_cycle :
    Patch.compare demoVc (one "a" "9.0.0" ["V"]) (one "a" "10.0.0" ["V"]) < 0 ∧
    Patch.compare demoVc (one "a" "10.0.0" ["V"]) (one "a" "1x" ["V"]) < 0 ∧
    Patch.compare demoVc (one "a" "1x" ["V"]) (one "a" "9.0.0" ["V"]) < 0 := by decide

/-- with an empty patch the multiplied-out ratio of step 1 compares equal to everything and the order is cyclic:
`a < e < b < a` (so "≥ 1 update" cannot be dropped; `ComputePatches` never collects an empty patch) -/
theorem C16_patchcmp_needs_updates :
    let u : Upd := ⟨bytes "a", [], bytes "2.0.0", false⟩
    let a : Patch := ⟨[u], [bytes "V", bytes "W", bytes "X"], [bytes "A", bytes "B", bytes "C"]⟩   -- ratio 0/1, 3 fixed
    let b : Patch := ⟨[u], [bytes "V"], []⟩                                                         -- ratio 1/1, 1 fixed
    let e : Patch := ⟨[], [bytes "V", bytes "W"], [bytes "A", bytes "B"]⟩                           -- ratio 0/0, 2 fixed
    Patch.compare demoVc a e < 0 ∧ Patch.compare demoVc e b < 0 ∧ Patch.compare demoVc b a < 0 := by decide

/-- FULL-STRENGTH statement that does NOT hold: "the result is the same under every schedule" without
`CmpEqImpliesEq`.  Two patches with the same update but different `Fixed` ids compare equal; `CompactFunc` keeps
whichever was delivered first. -/
def demoFn : Task → Option Patch := fun t =>
  if t = [bytes "A"] then some (one "x" "2.0.0" ["A"])
  else if t = [bytes "B"] then some (one "x" "2.0.0" ["B"]) else none

theorem C16_final_needs_cmpeq :
    computePatches demoFn true demoVc [bytes "A", bytes "B"] [0, 0] = some [one "x" "2.0.0" ["A"]] ∧
    computePatches demoFn true demoVc [bytes "A", bytes "B"] [1, 0] = some [one "x" "2.0.0" ["B"]] := by decide

/-! ### non-vacuity -/

/-- a universe with follow-up tasks in which all hypotheses of `C16_final` hold: A is fixed by x→2.0.0 which
introduces C; A,C together are fixed by x→3.0.0; B is fixed by y→2.0.0 -/
def okFn : Task → Option Patch := fun t =>
  if t = [bytes "A"] then some ⟨[⟨bytes "x", bytes "1.0.0", bytes "2.0.0", false⟩], [bytes "A"], [bytes "C"]⟩
  else if t = [bytes "A", bytes "C"] then some ⟨[⟨bytes "x", bytes "1.0.0", bytes "3.0.0", false⟩], [bytes "A"], []⟩
  else if t = [bytes "B"] then some ⟨[⟨bytes "y", bytes "1.0.0", bytes "2.0.0", false⟩], [bytes "B"], []⟩
  else none

def okA : Patch := ⟨[⟨bytes "x", bytes "1.0.0", bytes "2.0.0", false⟩], [bytes "A"], [bytes "C"]⟩
def okAC : Patch := ⟨[⟨bytes "x", bytes "1.0.0", bytes "3.0.0", false⟩], [bytes "A"], []⟩
def okB : Patch := ⟨[⟨bytes "y", bytes "1.0.0", bytes "2.0.0", false⟩], [bytes "B"], []⟩
example :
    exec (outCP okFn) (spawnCP okFn true) [0, 0, 0] (initCP [bytes "A", bytes "B"]) = some ⟨[], [okA, okB, okAC]⟩ ∧
    exec (outCP okFn) (spawnCP okFn true) [1, 0, 0] (initCP [bytes "A", bytes "B"]) = some ⟨[], [okB, okA, okAC]⟩ ∧
    CmpEqImpliesEq demoVc [okA, okB, okAC] ∧ (∀ p ∈ [okA, okB, okAC], ∀ u ∈ p.updates, (parseMajor u.vto).isSome) ∧
    sortCompact demoVc [okA, okB, okAC] = [okAC, okB, okA] := by decide

/-- a per-version comparison satisfying the hypothesis of `C16_patchcmp_order`: all versions parse -/
example : Cmp3 (fun x y => (parseMajor x).isSome ∧ (parseMajor y).isSome) demoVc :=
  verCmp_cmp3_parsed parseMajor _ (cmp3_key (fun n : Nat => (n : Int)))

/-- **C16_terminates.** If the vulnerabilities patches can introduce lie in a finite universe `U` (at most `b` per
patch), then (i) no schedule is longer than the initial measure — the loop `for toProcess > 0` cannot run
forever — and (ii) breadth-first delivery with that much fuel empties the worklist, so complete schedules exist. -/
theorem C16_terminates (patchFn : Task → Option Patch) (grouped : Bool) (U : List Str) (b : Nat)
    (hf : FiniteCP U b patchFn) (vulns : List Str) :
    let μ := mu (rankCP U) (b + 1) (initCP vulns).pending
    (∀ σ s', exec (outCP patchFn) (spawnCP patchFn grouped) σ (initCP vulns) = some s' → σ.length ≤ μ) ∧
    (fifo (outCP patchFn) (spawnCP patchFn grouped) μ (initCP vulns)).pending = [] := by
  intro μ
  have hr := spawnCP_rank U b patchFn grouped hf
  have hb := spawnCP_length U b patchFn grouped hf
  constructor
  · intro σ s' h
    have := exec_length_le (outCP patchFn) (spawnCP patchFn grouped) (rankCP U) (b + 1) hr hb σ _ _ h
    omega
  · exact fifo_complete (outCP patchFn) (spawnCP patchFn grouped) (rankCP U) (b + 1) hr hb μ _ (Nat.le_refl _)

example : FiniteCP [bytes "A", bytes "B", bytes "C"] 1 okFn := by
  intro t p h
  unfold okFn at h
  split at h
  · cases h; simp [bytes]
  · split at h
    · cases h; simp
    · split at h
      · cases h; simp
      · cases h

/-- without the finiteness hypothesis the loop need not terminate: a strategy that always introduces a fresh
vulnerability keeps the worklist non-empty for ever (after n deliveries one task is still pending) -/
def freshFn : Task → Option Patch := fun t => some ⟨[⟨[120], [], [t.length], false⟩], [], [[t.length + 1000]]⟩
theorem C16_terminates_needs_finite :
    ∀ n ≤ 6, ((exec (outCP freshFn) (spawnCP freshFn true) (List.replicate n 0) (initCP [[0]])).map (·.pending.length)) = some 1 := by
  decide

/-! ## (b) RequestCache -/
open Scalibr.Cache in
/-- **C16_cache_inv.** In every state reachable by any interleaving (any number of callers, keys, SetMap/GetMap
calls): at most one fetch is in flight per key (two callers fetching the same key are the same caller), the
pending-call table points exactly at it, a caller only waits on a call created for its own key, and while a call for `k`
is in flight no fetch for `k` has succeeded since the last SetMap (so the in-flight fetch is never redundant). -/
theorem C16_cache_inv (keyOf : Nat → Option Cache.K) (as : List Cache.Act) :
    let s := Cache.run keyOf as
    (∀ t t' c c' k, s.pcs t = .fetching c k → s.pcs t' = .fetching c' k → t = t') ∧
    (∀ t c k, s.pcs t = .fetching c k → s.calls k = some c) ∧
    (∀ k c, s.calls k = some c → ∃ t, s.pcs t = .fetching c k) ∧
    (∀ t c k, s.pcs t = .waiting c k → s.ckey c = some k) ∧
    (∀ k c, s.calls k = some c → s.succeeded k = false) :=
  let h := Cache.inv_run keyOf as
  ⟨h.fetch_uniq, h.fetch_calls, h.calls_owner, fun t c k hw => (h.ckey_wait t c k hw).1,
   fun k c hc => by
     cases hs : (Cache.run keyOf as).succeeded k with
     | false => rfl
     | true => have := h.succ_nocall k hs; rw [hc] at this; cases this⟩

open Scalibr.Cache in
/-- **C16_cache_once.** (i) No fetch is ever *started* for a key that has had a successful fetch since the last
SetMap, and at most one fetch per key succeeds between two SetMaps; (ii) without SetMap, the number of times the
fetch function ran for `k` is at most the number of its failures plus one: once per success. -/
theorem C16_cache_once (keyOf : Nat → Option Cache.K) (as : List Cache.Act) :
    let s := Cache.run keyOf as
    s.lateFetch = false ∧ (∀ k, s.nok k ≤ 1) ∧
    ((∀ a ∈ as, a.isSetMap = false) → ∀ k, s.nfetch k ≤ s.nerr k + 1 ∧ s.nokT k ≤ 1) := by
  intro s
  have h := Cache.inv_run keyOf as
  refine ⟨h.no_late, ?_, ?_⟩
  · intro k; have := h.nok_succ k; show (Cache.run keyOf as).nok k ≤ 1; split at this <;> omega
  · intro hns k
    have e := Cache.nokT_eq_nok as (Cache.init keyOf) hns (fun _ => rfl) k
    have hc := h.count k
    have hn := h.nok_succ k
    have hs := h.succ_nocall k
    show (Cache.run keyOf as).nfetch k ≤ (Cache.run keyOf as).nerr k + 1 ∧ (Cache.run keyOf as).nokT k ≤ 1
    unfold Cache.run at *
    cases hsk : (Cache.runFrom (Cache.init keyOf) as).succeeded k with
    | true => simp [hsk] at hn; have := hs hsk; simp [this] at hc; omega
    | false => simp [hsk] at hn; split at hc <;> omega

open Scalibr.Cache in
/-- **C16_cache_linear.** Whatever a caller of `Get(k)` returns — `(v, nil)` or `(zero, err)` — is the result
that a fetch *for the same key* published earlier in the history (`as = as1 ++ publish t' r :: as2`, `t'` was
fetching `k`), or a value that an earlier `SetMap` installed for `k`.  In particular errors are only ever
reported to callers of the key whose fetch failed, and no value crosses keys. -/
theorem C16_cache_linear (keyOf : Nat → Option Cache.K) (as : List Cache.Act) (t : Nat) (k : Cache.K) (r : Cache.R)
    (hd : (Cache.run keyOf as).pcs t = .done k r) :
    (∃ as1 t' as2 c, as = as1 ++ Cache.Act.publish t' r :: as2 ∧ (Cache.run keyOf as1).pcs t' = .fetching c k) ∨
    (∃ v as1 m as2, r = .ok v ∧ as = as1 ++ Cache.Act.setMap m :: as2 ∧ m k = some v) := by
  have h := Cache.inv_run keyOf as
  rcases h.done_org t k r hd with hp | ⟨v, hv, hs⟩
  · rcases Cache.pub_history k r as (Cache.init keyOf) hp with h0 | h1
    · simp [Cache.init] at h0
    · exact Or.inl h1
  · rcases Cache.setv_history k v as (Cache.init keyOf) hs with h0 | ⟨as1, m, as2, he, hm⟩
    · simp [Cache.init] at h0
    · exact Or.inr ⟨v, as1, m, as2, hv, he, hm⟩

/-- the same for the cache content (what GetMap hands out) -/
theorem C16_cache_content (keyOf : Nat → Option Cache.K) (as : List Cache.Act) (k : Cache.K) (v : Cache.V)
    (hc : (Cache.run keyOf as).cache k = some v) :
    (∃ as1 t' as2 c, as = as1 ++ Cache.Act.publish t' (.ok v) :: as2 ∧ (Cache.run keyOf as1).pcs t' = .fetching c k) ∨
    (∃ as1 m as2, as = as1 ++ Cache.Act.setMap m :: as2 ∧ m k = some v) := by
  have h := Cache.inv_run keyOf as
  rcases h.cache_org k v hc with hp | hs
  · rcases Cache.pub_history k _ as (Cache.init keyOf) hp with h0 | h1
    · simp [Cache.init] at h0
    · exact Or.inl h1
  · rcases Cache.setv_history k v as (Cache.init keyOf) hs with h0 | h1
    · simp [Cache.init] at h0
    · exact Or.inr h1

/-- **C16_cache_shared.** Once a call's result is stored it never changes: the fetcher and every waiter of that
call return the same `(v, err)`, however late the waiter wakes up. -/
theorem C16_cache_shared (keyOf : Nat → Option Cache.K) (as bs : List Cache.Act) (c : Cache.Cid) (r : Cache.R)
    (hr : (Cache.run keyOf as).results c = some r) : (Cache.run keyOf (as ++ bs)).results c = some r := by
  unfold Cache.run Cache.runFrom at *
  rw [List.foldl_append]
  have hi := Cache.inv_run keyOf as
  unfold Cache.run Cache.runFrom at hi
  generalize List.foldl Cache.step (Cache.init keyOf) as = s at hr hi
  induction bs generalizing s with
  | nil => exact hr
  | cons b bs ih => exact ih _ (Cache.results_stable s b hi c r hr) (Cache.inv_step s b hi)

/-- non-vacuity: two callers of one key, the first fetch fails (both see the error), a third caller fetches again
and succeeds, a fourth hits the cache; one SetMap in between -/
example :
    let keyOf : Nat → Option Nat := fun t => if t < 4 then some 0 else none
    let s := Cache.run keyOf [.lookup 0, .lookup 1, .publish 0 .err, .wake 1, .lookup 2, .publish 2 (.ok 7), .lookup 3,
                              .setMap (fun _ => none), .getMap]
    s.pcs 0 = .done 0 .err ∧ s.pcs 1 = .done 0 .err ∧ s.pcs 2 = .done 0 (.ok 7) ∧ s.pcs 3 = .done 0 (.ok 7) ∧
    s.nfetch 0 = 2 ∧ s.nerr 0 = 1 ∧ s.cache 0 = none := by decide

/-! ## (c) the status ticker: `C16_ticker_guarded` lives in Properties/C16Ticker.lean, the only module that depends on the
regenerated table, so that a change of extractor/filesystem that breaks it leaves the obligations above standing. -/

end Scalibr.C16
