/-
C19 — Capability filtering and plugin name resolution are consistent.

Two kinds of theorems:
* about the MODEL of `ValidateRequirements` / `FilterByCapabilities` / `EnableRequiredExtractors` /
  `ValidatePluginRequirements`, for all plugin lists and all name tables (induction, no bound);
* about the REGENERATED registry `Scalibr.Gen.Registry` (rewritten from /repo on every run): these are
  finite-table facts, checked by the kernel over the whole table (`decide +kernel`), i.e. for every
  registered plugin × every one of the 60 capability tuples × every registered name.
Helper lemmas live in `Scalibr.Proofs.Registry`.
-/
import Scalibr.Proofs.Registry
import Scalibr.Gen.Registry
namespace Scalibr.Registry
open Scalibr.Gen.Registry

/-! ### the validator and the filter (all requirements, all capabilities, all plugin lists) -/

/-- `ValidateRequirements` returns nil exactly when the environment satisfies the stated requirements
(the finite product 60 × 60 is checked exhaustively by the kernel). -/
theorem C19_validate_spec (req caps : Caps) : validate req caps = true ↔ satisfied req caps = true := by
  rw [validate_eq_satisfied]

/-- UNKNOWN ENVIRONMENT. Against the zero value of `Capabilities` (what a nil `*Capabilities` stands for: nothing is known about
the scan environment) exactly the plugins WITHOUT requirements validate — for all 60 requirement tuples. (The Go code
dereferences the nil pointer instead: repaired as ab64d335; judged by the `nilcaps` cases.) -/
theorem C19_unknown_environment (req : Caps) :
    validate req ⟨.any, .any, false, false⟩ = true ↔ req = ⟨.any, .any, false, false⟩ := by
  obtain ⟨o, n, d, r⟩ := req
  cases o <;> cases n <;> cases d <;> cases r <;> decide

/-- The capability filter keeps exactly the satisfied plugins, in order — for every plugin list. The specification's
filter is a PURE FUNCTION of (list, capabilities): calling it again, with other capabilities, on the same list changes
neither the list nor any earlier result. For the Lean model that is how functions are; for the Go code (slices share
backing arrays) it is an obligation of its own, checked by the `seq` cases of the correspondence stream. -/
theorem C19_filter (ps : List Plugin) (caps : Caps) :
    filterByCapabilities ps caps = ps.filter (fun p => satisfied p.req caps) := by
  unfold filterByCapabilities
  rw [filterLoop_eq]
  simp [validate_eq_satisfied]

/-- … so membership in the filtered list is "was offered and is satisfied". -/
theorem C19_filter_mem (ps : List Plugin) (caps : Caps) (p : Plugin) :
    p ∈ filterByCapabilities ps caps ↔ p ∈ ps ∧ satisfied p.req caps = true := by
  rw [C19_filter, List.mem_filter]

/-- (`_partial`: the hypothesis `hr` — the detectors' required extractors can be enabled automatically, `requiredOK` —
is needed, `C19_required_needed`; `hk`: the tables are maps; both are DISCHARGED for the real registry by `C19_required` /
`C19_keys_nodup`, giving the
hypothesis-free `C19_any_selection_valid`.) Any scan configured from lists that validate passes `EnableRequiredExtractors` and `ValidatePluginRequirements` —
for all name tables, all plugin lists, all capabilities. -/
theorem C19_enable_valid_partial (fsT stT : Table) (fs st dets : List Plugin) (caps : Caps)
    (hfs : ∀ p ∈ fs, satisfied p.req caps = true) (hst : ∀ p ∈ st, satisfied p.req caps = true)
    (hd : ∀ d ∈ dets, satisfied d.req caps = true)
    (hk : KeysNodup fsT ∧ KeysNodup stT)
    (hr : ∀ d ∈ dets, ∀ e ∈ d.required, requiredOK fsT stT d.req e) :
    (precheck fsT stT fs st dets caps).isOk = true := by
  -- `requiredOK` is the SPECIFICATION's statement (`RegisteredAs`: membership in the table); the loop consults `fromName`
  have hr' : ∀ d ∈ dets, ∀ e ∈ d.required, requiredOKModel fsT stT d.req e :=
    fun d hd' e he => requiredOKModel_of_spec _ _ _ _ hk.1 hk.2 (hr d hd' e he)
  obtain ⟨c, hc, hg⟩ := enableDets_good fsT stT caps dets ⟨fs, st, _⟩ ⟨hfs, hst⟩ hd hr'
  unfold precheck enableRequired
  rw [hc]
  have : validateAll (c.fs ++ c.st ++ dets) caps = [] := by
    apply validateAll_nil
    intro p hp
    simp only [List.mem_append] at hp
    rcases hp with (hp | hp) | hp
    · exact hg.1 p hp
    · exact hg.2 p hp
    · exact hd p hp
  show (match validateAll (c.fs ++ c.st ++ dets) caps with | [] => Pre.ok c.fs c.st | bad => Pre.invalid bad).isOk = true
  rw [this]
  rfl

/-- A scan configured from capability-FILTERED lists never fails requirement validation — whatever was
selected before filtering (any names, any groups, any hand-made list), as long as the selected
detectors' required extractors can be enabled automatically. -/
theorem C19_filtered_selection_valid_partial (fsT stT : Table) (fs st dets : List Plugin) (caps : Caps)
    (hk : KeysNodup fsT ∧ KeysNodup stT)
    (hr : ∀ d ∈ dets, ∀ e ∈ d.required, requiredOK fsT stT d.req e) :
    (precheck fsT stT (filterByCapabilities fs caps) (filterByCapabilities st caps)
      (filterByCapabilities dets caps) caps).isOk = true := by
  apply C19_enable_valid_partial
  · intro p hp; exact ((C19_filter_mem _ _ _).1 hp).2
  · intro p hp; exact ((C19_filter_mem _ _ _).1 hp).2
  · intro p hp; exact ((C19_filter_mem _ _ _).1 hp).2
  · exact hk
  · intro d hd; exact hr d ((C19_filter_mem _ _ _).1 hd).1

/-! ### the regenerated registry -/

/-- the two extractor name tables have distinct keys (they are Go maps) -/
theorem C19_keys_nodup : KeysNodup fsNames ∧ KeysNodup stNames := by
  unfold KeysNodup; exact ⟨by decide +kernel, by decide +kernel⟩

/-- Every extractor a registered detector declares as required is registered under its exact name in the
filesystem or the standalone table (`RegisteredAs`, the specification's own notion: an entry `name ↦ [p]` with
`p.name = name`), and whatever is registered there runs wherever the detector runs. -/
theorem C19_required :
    ∀ d ∈ allPlugins detAll, ∀ e ∈ d.required, requiredOK fsNames stNames d.req e := by
  have h : ∀ d ∈ allPlugins detAll, ∀ e ∈ d.required, requiredOKB fsNames stNames d.req e = true := by
    decide +kernel
  intro d hd e he
  exact requiredOK_of_B _ _ _ _ C19_keys_nodup.1 C19_keys_nodup.2 (h d hd e he)

/-- For every capability tuple, the scan configured from `FromCapabilities` of the three registries
passes `EnableRequiredExtractors` + `ValidatePluginRequirements` (checked on the whole table). -/
theorem C19_filtered_valid (caps : Caps) :
    (precheck fsNames stNames (fromCapabilities fsAll caps) (fromCapabilities stAll caps)
      (fromCapabilities detAll caps) caps).isOk = true := by
  have h : ∀ c ∈ allCaps, (precheck fsNames stNames (fromCapabilities fsAll c) (fromCapabilities stAll c)
      (fromCapabilities detAll c) c).isOk = true := by decide +kernel
  exact h caps (mem_allCaps caps)

/-- The same for ANY selection of filesystem/standalone plugins and any selection of registered
detectors, filtered by any capabilities (what the CLI does with `--filter-by-capabilities`). -/
theorem C19_any_selection_valid (fs st dets : List Plugin) (caps : Caps)
    (hd : ∀ d ∈ dets, d ∈ allPlugins detAll) :
    (precheck fsNames stNames (filterByCapabilities fs caps) (filterByCapabilities st caps)
      (filterByCapabilities dets caps) caps).isOk = true :=
  C19_filtered_selection_valid_partial _ _ _ _ _ _ C19_keys_nodup (fun d h => C19_required d (hd d h))

/-- Plugin names are unique across the whole registry (filesystem + standalone + detectors). -/
theorem C19_names_unique :
    ((allPlugins fsAll ++ allPlugins stAll ++ allPlugins detAll).map (·.name)).Nodup := by
  decide +kernel

/-- Each table has distinct keys (it is a Go map), each key's members have distinct names (so the
unspecified order of `maps.Values` cannot matter), and every `All` entry is one plugin keyed by its
own name. -/
theorem C19_tables_wellformed :
    (fsNames.map (·.1)).Nodup ∧ (stNames.map (·.1)).Nodup ∧ (detNames.map (·.1)).Nodup ∧
    (∀ kv ∈ fsNames ++ stNames ++ detNames, (kv.2.map (·.name)).Nodup) ∧
    (∀ kv ∈ fsAll ++ stAll ++ detAll, ∃ p, kv.2 = [p] ∧ p.name = kv.1) := by
  refine ⟨by decide +kernel, by decide +kernel, by decide +kernel, by decide +kernel, ?_⟩
  have h : ∀ kv ∈ fsAll ++ stAll ++ detAll,
      (match kv.2 with | [p] => p.name == kv.1 | _ => false) = true := by decide +kernel
  intro kv hkv
  have := h kv hkv
  match hk : kv.2 with
  | [p] => rw [hk] at this; exact ⟨p, rfl, by simpa using this⟩
  | [] => rw [hk] at this; cases this
  | _ :: _ :: _ => rw [hk] at this; cases this

/-- Every key of the name tables (plugin name or group name) resolves, to exactly the plugins registered under
it, all of which are registered plugins of that kind. Audit note: the first half is close to a tautology of the
table lookup (keys distinct, member names distinct: `C19_tables_wellformed`) — "advertised" is read as "is a key
of the table the code consults"; the independent sources of names are the go/ast view of the source
(`C19_source_agrees`) and the two names the command line hard-codes (`C19_advertised_groups`); the content is
the second half (a group never yields a plugin that is not registered) and the tie (every key is resolved by
the real `…FromNames` in the correspondence stream). -/
theorem C19_resolves_keys :
    (∀ kv ∈ fsNames, fromNames fsNames [kv.1] = .ok kv.2 ∧ ∀ p ∈ kv.2, p ∈ allPlugins fsAll) ∧
    (∀ kv ∈ stNames, fromNames stNames [kv.1] = .ok kv.2 ∧ ∀ p ∈ kv.2, p ∈ allPlugins stAll) ∧
    (∀ kv ∈ detNames, fromNames detNames [kv.1] = .ok kv.2 ∧ ∀ p ∈ kv.2, p ∈ allPlugins detAll) := by
  refine ⟨by decide +kernel, by decide +kernel, by decide +kernel⟩

/-- Resolving a plugin's own name returns that plugin (exact-name lookup and list lookup). -/
theorem C19_resolves :
    (∀ p ∈ allPlugins fsAll, fromName fsNames p.name = .ok p ∧ fromNames fsNames [p.name] = .ok [p]) ∧
    (∀ p ∈ allPlugins stAll, fromName stNames p.name = .ok p ∧ fromNames stNames [p.name] = .ok [p]) ∧
    (∀ p ∈ allPlugins detAll, fromName detNames p.name = .ok p ∧ fromNames detNames [p.name] = .ok [p]) := by
  refine ⟨by decide +kernel, by decide +kernel, by decide +kernel⟩

/-- The names the command line uses by default and documents (`default`, `all`) resolve in all three
registries, and `all` is the whole registry. -/
theorem C19_advertised_groups :
    fsNames.lookup "all" = some (allPlugins fsAll) ∧ stNames.lookup "all" = some (allPlugins stAll) ∧
    detNames.lookup "all" = some (allPlugins detAll) ∧
    (fsNames.lookup "default").isSome ∧ (stNames.lookup "default").isSome ∧ (detNames.lookup "default").isSome := by
  refine ⟨by decide +kernel, by decide +kernel, by decide +kernel, by decide +kernel, by decide +kernel, by decide +kernel⟩

/-- The registry as dumped from the running code and the registry as written in the source (go/ast over
the three `list.go`, `pkg.Name` constants resolved in the plugin packages) have the same keys and the
same members under every key: nothing registered in the source is missing from the tables the other
theorems talk about, and every plugin is registered under its own `Name()`. -/
theorem C19_source_agrees :
    fsNames.map (fun kv => (kv.1, kv.2.map (·.name))) = fsNamesSrc ∧
    stNames.map (fun kv => (kv.1, kv.2.map (·.name))) = stNamesSrc ∧
    detNames.map (fun kv => (kv.1, kv.2.map (·.name))) = detNamesSrc ∧
    fsAll.map (·.1) = fsAllSrc ∧ stAll.map (·.1) = stAllSrc ∧ detAll.map (·.1) = detAllSrc := by
  refine ⟨by decide +kernel, by decide +kernel, by decide +kernel, by decide +kernel, by decide +kernel, by decide +kernel⟩

/-! ### non-vacuity and sharpness -/

/-- the registry is not empty and the hypotheses above are inhabited -/
example : (allPlugins fsAll).length ≥ 50 ∧ (allPlugins stAll).length ≥ 5 ∧ (allPlugins detAll).length ≥ 10 := by
  decide +kernel
/-- some detector really declares required extractors (so `C19_required` is not about nothing) -/
example : ∃ d ∈ allPlugins detAll, d.required ≠ [] := by decide +kernel
/-- the filter really removes something for some capabilities and keeps something -/
example : (fromCapabilities detAll ⟨.windows, .offline, false, false⟩).length <
    (fromCapabilities detAll ⟨.linux, .online, true, true⟩).length := by decide +kernel

/-- Sharpness of `C19_enable_valid_partial`: without `requiredOK` the conclusion fails — a detector that runs
anywhere but requires an extractor that needs Windows is auto-enabled into a failing configuration. -/
theorem C19_required_needed :
    let ext : Plugin := ⟨"x", ⟨.windows, .any, false, false⟩, []⟩
    let det : Plugin := ⟨"d", ⟨.any, .any, false, false⟩, ["x"]⟩
    (precheck [("x", [ext])] [] [] [] [det] ⟨.linux, .any, false, false⟩).isOk = false := by
  decide

end Scalibr.Registry
