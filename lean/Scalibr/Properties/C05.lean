/-
C05 — Packages are attributed to the layer that introduced them.
Property theorems only; helper lemmas live in `Scalibr.Proofs.Trace`.
Unbounded: any number of layers, any per-file sequence of keep / write / delete, any packages.
-/
import Scalibr.Proofs.Trace
namespace Scalibr.Trace

/-- The backwards loop (with the "file not in this layer's diff" skip) returns THE origin: the least
`L` such that the package is present in every view `L … last`. Hypothesis: the package is in the final
view (that is where the inventory comes from); extraction never fails (`noErr`). -/
theorem C05_origin (h : History) (p : Pkg) (hp : present h (h.length - 1) p = true) :
    IsOrigin h p (trace h p) := by
  have hn : 0 < h.length := by
    cases h with
    | nil => simp [present, viewAt, has] at hp
    | cons a t => simp
  have := loop_isOrigin (fun _ => h) 0 p (h.length - 1) (h.length - 1) Cache.empty (Nat.le_refl _) (by omega)
    (cacheOK_empty _) (fun j h1 h2 => by
      have : j = h.length - 1 := by omega
      subst this; exact hp) (fun k h1 h2 => by omega)
  exact this.1

/-- … which is what the brute-force oracle of the correspondence run computes. -/
theorem C05_origin_spec (h : History) (p : Pkg) (hp : present h (h.length - 1) p = true) :
    originSpec h p = some (trace h p) :=
  (originSpec_iff h p _).2 (C05_origin h p hp)

/-- The extraction cache is transparent: starting from ANY cache whose entries are what re-extraction
would give (in particular the one left behind by the packages traced before, of this or other files),
the answer is the cache-free one, and the cache stays valid. The cache key is (location, layer) only —
hence the standing assumption of one extractor per file. -/
theorem C05_cache_transparent (img : Nat → History) (f : Nat) (p : Pkg) (c : Cache) (hc : CacheOK img c)
    (hp : present (img f) ((img f).length - 1) p = true) :
    (traceC (img f) noErr f p c).1 = trace (img f) p ∧ CacheOK img (traceC (img f) noErr f p c).2 := by
  have hn : 0 < (img f).length := by
    cases hh : img f with
    | nil => rw [hh] at hp; simp [present, viewAt, has] at hp
    | cons a t => simp
  have := loop_isOrigin img f p ((img f).length - 1) ((img f).length - 1) c (Nat.le_refl _) (by omega) hc
    (fun j h1 h2 => by
      have : j = (img f).length - 1 := by omega
      subst this; exact hp) (fun k h1 h2 => by omega)
  exact ⟨isOrigin_unique _ p _ _ this.1 (C05_origin (img f) p hp), this.2⟩

/-- The whole `for _, pkg := range inventory.Packages` loop, sharing one cache across packages and
files, reports for every package its cache-free origin. -/
theorem C05_populate (img : Nat → History) :
    ∀ (pkgs : List (Nat × Pkg)) (c : Cache), CacheOK img c →
      (∀ fp ∈ pkgs, present (img fp.1) ((img fp.1).length - 1) fp.2 = true) →
      populate img noErr pkgs c = pkgs.map (fun fp => trace (img fp.1) fp.2)
  | [], _, _, _ => rfl
  | (f, p) :: rest, c, hc, hp => by
    have h1 := C05_cache_transparent img f p c hc (hp (f, p) (by simp))
    simp only [populate, List.map_cons, h1.1]
    rw [C05_populate img rest _ h1.2 (fun fp hfp => hp fp (by simp [hfp]))]

/-- The origin is a layer whose own diff writes the file with the package in it, and the package is
not in the view just below. So layers that do not touch the file — empty layers included — are never
an origin, and removing/re-adding is attributed to the re-adding layer. -/
theorem C05_origin_is_write (h : History) (p : Pkg) (L : Nat) (ho : IsOrigin h p L) :
    (∃ ps, h[L]? = some (.write ps) ∧ ps.contains p = true) ∧ (L = 0 ∨ present h (L-1) p = false) := by
  obtain ⟨hL, hpres, hleast⟩ := ho
  have hpL := hpres L (Nat.le_refl _) hL
  have hget : h[L]? = some h[L] := by simp [hL]
  cases L with
  | zero =>
    refine ⟨?_, Or.inl rfl⟩
    unfold present at hpL
    rw [viewAt_zero h hL] at hpL
    rw [hget]
    cases hop : h[0] with
    | keep => rw [hop] at hpL; simp [applyOp, has] at hpL
    | delete => rw [hop] at hpL; simp [applyOp, has] at hpL
    | write ps => rw [hop] at hpL; exact ⟨ps, rfl, by simpa [applyOp, has] using hpL⟩
  | succ L =>
    have hbelow : present h L p = false := by
      cases hb : present h L p with
      | false => rfl
      | true =>
        have := hleast L (by omega) (fun j h1 h2 => by
          by_cases hj : j = L
          · subst hj; exact hb
          · exact hpres j (by omega) h2)
        omega
    refine ⟨?_, Or.inr (by simpa using hbelow)⟩
    unfold present at hpL hbelow
    rw [viewAt_succ h L hL] at hpL
    rw [hget]
    cases hop : h[L+1] with
    | keep => rw [hop] at hpL; simp only [applyOp] at hpL; rw [hpL] at hbelow; cases hbelow
    | delete => rw [hop] at hpL; simp [applyOp, has] at hpL
    | write ps => rw [hop] at hpL; exact ⟨ps, rfl, by simpa [applyOp, has] using hpL⟩

/-- Layers that do not touch the file are inert: inserting one anywhere (an empty layer, or a layer
about other files) before position `k` moves the attribution by the index map only — the package stays
attributed to the same layer. -/
theorem C05_empty_layers_inert (h : History) (p : Pkg) (k : Nat) (hk : k ≤ h.length)
    (hp : present h (h.length - 1) p = true) :
    trace (insertKeep h k) p = shift k (trace h p) := by
  have ho := C05_origin h p hp
  have ho' := isOrigin_insertKeep h p k (trace h p) hk ho
  have hn : 0 < h.length := ho.1 |> fun h1 => by omega
  have hp' : present (insertKeep h k) ((insertKeep h k).length - 1) p = true := by
    rw [length_insertKeep h k hk]
    have : h.length + 1 - 1 = (h.length - 1) + 1 := by omega
    rw [this, present_insertKeep_ge h p k (h.length - 1) hk (by omega)]
    exact hp
  exact isOrigin_unique _ p _ _ (C05_origin _ p hp') ho'

/-- History ↔ layers: with a valid history (as many non-empty entries as v1 layers) chain layer `i`
is history entry `i`, carries its command, and the non-empty entries take the v1 layers in order;
otherwise the history is ignored: one chain layer per v1 layer, no commands. -/
theorem C05_alignment (nLayers : Nat) (hist : List HEntry) :
    (validHistory nLayers hist = true → initChain nLayers hist = some (alignSpec hist 0 0)) ∧
    (validHistory nLayers hist = false →
      initChain nLayers hist = some ((List.range nLayers).map fun i => ⟨i, some i, ""⟩)) := by
  constructor
  · intro hv
    unfold initChain
    simp only [hv, Bool.not_true, Bool.false_eq_true, if_false]
    unfold validHistory at hv
    simp only [decide_eq_true_eq] at hv
    rw [alignLoop_spec nLayers hist 0 0 [] (by omega)]
    simp only [List.nil_append, Nat.zero_add]
    rw [alignRest_done nLayers nLayers _ _ _ (by omega)]
  · intro hv
    unfold initChain
    simp [hv]

/-- The reported `LayerDetails` are those of the origin chain layer: Index = the origin, Command = that
history entry's CreatedBy, DiffID = that of the v1 layer that entry stands for — which is a layer whose
tar wrote the file with the package in it. -/
theorem C05_details (hist : List HEntry) (layerOps : List Op) (p : Pkg)
    (hp : present (chainHistory (alignSpec hist 0 0) layerOps) (hist.length - 1) p = true) :
    let h := chainHistory (alignSpec hist 0 0) layerOps
    let o := trace h p
    ∃ (ho : o < hist.length) (k : Nat) (ps : List Pkg),
      details (alignSpec hist 0 0) o = some (o, some k, hist[o].cmd) ∧
      hist[o].empty = false ∧
      k = ((hist.take o).filter (fun e => !e.empty)).length ∧
      layerOps[k]? = some (.write ps) ∧ ps.contains p = true := by
  intro h o
  have hlen : h.length = hist.length := by simp [h, chainHistory, alignSpec_length]
  have hp' : present h (h.length - 1) p = true := by rw [hlen]; exact hp
  have horig := C05_origin h p hp'
  have ho : o < hist.length := by rw [← hlen]; exact horig.1
  obtain ⟨⟨ps, hw, hps⟩, _⟩ := C05_origin_is_write h p o horig
  obtain ⟨cm, hcm, hidx, hcmd, hlayer⟩ := alignSpec_getElem hist 0 0 o ho
  have hho : h[o]? = some (match cm.layer with | none => Op.keep | some k => layerOps.getD k .keep) := by
    simp only [h, chainHistory, List.getElem?_map, hcm, Option.map_some]
    cases cm.layer <;> rfl
  rw [hho] at hw
  simp only [Option.some.injEq] at hw
  cases hl : cm.layer with
  | none => rw [hl] at hw; cases hw
  | some k =>
    rw [hl] at hw hlayer
    simp only [] at hw
    have hne : hist[o].empty = false := by
      cases he : hist[o].empty with
      | false => rfl
      | true => rw [he] at hlayer; simp at hlayer
    rw [hne] at hlayer
    simp only [Bool.false_eq_true, if_false, Option.some.injEq, Nat.zero_add] at hlayer
    refine ⟨ho, k, ps, ?_, hne, hlayer, ?_, hps⟩
    · simp only [details, hcm, Option.map_some, hl, hcmd]
    · have : layerOps.getD k .keep = .write ps := hw
      unfold List.getD at this
      cases hk : layerOps[k]? with
      | none => rw [hk] at this; simp at this
      | some op => rw [hk] at this; simp only [Option.getD_some] at this; rw [this]

/-- What the `break` on an extraction error does (outside the hypothesis `noErr`): the package is
attributed to layer 0 although it is absent from view 0. `filesystem.Run` only fails on a cancelled
context or with ErrorOnFSErrors, so this is recorded as an assumption, not a finding. -/
theorem C05_run_error_falls_to_layer0 :
    (traceC [.write [2], .write [1]] (fun _ => true) 0 1 Cache.empty).1 = 0 ∧
    originSpec [.write [2], .write [1]] 1 = some 1 := by decide

/-! ### non-vacuity -/

/-- add, rewrite keeping one package, delete, re-create, no-op -/
def exH : History := [.write [1, 2], .keep, .write [2, 3], .delete, .keep, .write [2], .keep]

example : present exH (exH.length - 1) 2 = true := by decide
example : trace exH 2 = 5 ∧ originSpec exH 2 = some 5 := by decide
example : trace [.write [1, 2], .keep, .write [2, 3], .keep] 2 = 0 ∧ trace [.write [1, 2], .keep, .write [2, 3], .keep] 3 = 2 := by decide
-- a valid, non-empty cache (what tracing package 2 leaves behind) gives the same answer for package 3
example : (traceC [.write [1, 2], .keep, .write [2, 3], .keep] noErr 0 3
            (traceC [.write [1, 2], .keep, .write [2, 3], .keep] noErr 0 2 Cache.empty).2).1 = 2 := by decide
-- inserting an empty layer below / above the origin
example : trace (insertKeep exH 2) 2 = 6 ∧ trace (insertKeep exH 6) 2 = 5 ∧ shift 2 5 = 6 ∧ shift 6 5 = 5 := by decide
-- alignment with empty layers interleaved
example : initChain 2 [⟨true, "a"⟩, ⟨false, "b"⟩, ⟨true, "c"⟩, ⟨false, "d"⟩] =
    some [⟨0, none, "a"⟩, ⟨1, some 0, "b"⟩, ⟨2, none, "c"⟩, ⟨3, some 1, "d"⟩] := by decide
example : initChain 2 [⟨false, "b"⟩] = some [⟨0, some 0, ""⟩, ⟨1, some 1, ""⟩] := by decide

end Scalibr.Trace
