/-
C05 — Packages are attributed to the layer that introduced them.
Property theorems only; helper lemmas live in `Scalibr.Proofs.Trace`.
Unbounded: any number of layers, any per-file sequence of keep / write / symlink / delete, any
packages, any cancellation point of the context.

On the hypotheses: `hp : the package is in the final view` is the property's own quantifier ("every REPORTED
package"), and the cache the theorems start from has to be valid (`St.empty` is). The third one is real and the
theorems that carry it are named `_partial`: `hd : diff i = inDiff h i` — `filesExistInLayer` (does the layer's own
diff have an entry at the location?) says "yes" exactly when the layer changed what the extractor reports there. The
model takes that observation as an input of its own (`diff`); `trace`, used by the hypothesis-free theorems, fixes it to
`inDiff`. Where `hd` fails the unchanged code attributes wrongly: `C05_symlink_target_rewritten` (known finding
C05/location-content-depends-on-other-paths). The context may be cancelled at any point (`cancelAt`).

On the view abstraction (audit item "private per-file abstraction"): the specification has its OWN
reading of "the package is in the image-up-to-layer view" (`Spec.present`/`lastTouch`: the latest layer
at or below `i` that touches the file wrote it with the package); `IsOrigin`/`originSpec` use only that.
`C05_spec_view` proves it equal to the model's upward fold `viewAt` (the file's own
keep/write/symlink/delete ops, i.e. the OCI rule restricted to one path whose ancestors are plain
directories). That the real views obey it is C04's property, not C05's; here it is tied to the code only
by the correspondence run on real images (the generator deletes with the file's own whiteout, never via
an ancestor, and says so in its rule). Package identity is (name, location) = (Nat, file index); one
extractor per file is a standing modelling assumption because the cache key omits the extractor.
-/
import Scalibr.Proofs.Trace
namespace Scalibr.Trace

/-- The specification's view (downward scan for the latest touch, `Spec.present`) and the model's view
(`viewAt`, the fold the trace loop's correctness argument runs on) are the same — so `IsOrigin` and
`originSpec`, which never mention the model, speak about the views the model computes. -/
theorem C05_spec_view (h : History) (i : Nat) (p : Pkg) :
    present h i p = (match viewAt h i with | some ps => ps.contains p | none => false) := by
  rw [present_eq]; cases viewAt h i <;> rfl

/-- THE statement, for every cancellation point and every valid shared state: a reported package
carries the layer that introduced it — the least `L` such that the package is present in every view
`L … last` — or, when the context was cancelled before its trace finished, no layer details at all.
It is never attributed to a wrong layer. -/
theorem C05_origin_or_unset_partial (img : Nat → History) (diff : Nat → Bool) (cancelAt : Option Nat) (f : Nat) (p : Pkg) (s : St)
    (hd : ∀ i, diff i = inDiff (img f) i)
    (hc : CacheOK img s.cache) (hp : present (img f) ((img f).length - 1) p = true) :
    (∃ L, (traceC (img f) diff cancelAt f p s).1 = some L ∧ IsOrigin (img f) p L) ∨
    ((traceC (img f) diff cancelAt f p s).1 = none ∧ ∃ k, cancelAt = some k ∧ k ≤ (traceC (img f) diff cancelAt f p s).2.runs) := by
  have h := (traceC_traced img diff cancelAt f p s hd hc hp).1
  rcases h with h | ⟨h1, h2⟩
  · exact Or.inl h
  · refine Or.inr ⟨h1, ?_⟩
    unfold cancelled at h2
    cases hca : cancelAt with
    | none => rw [hca] at h2; cases h2
    | some k => rw [hca] at h2; exact ⟨k, rfl, by simpa using h2⟩

/-- FULL STATEMENT (false for the unchanged code, known finding C05/location-content-depends-on-other-paths):
`C05_origin_or_unset_partial` for EVERY `diff`, i.e. whatever `filesExistInLayer` answers. The hypothesis `hd` says that
the layer's own diff has an entry at the location exactly when the layer changes what the extractor reports there; it
holds when layers touch the location only by writing / linking / deleting that very path. It fails — and the loop then
skips a layer that did change the packages — when the reported packages depend on another path: the location is a
symlink whose TARGET a layer rewrites (P2), or the extractor reads a second file (os/dpkg: etc/os-release in the PURL, P3).
Witness: link.txt -> data/list; L0 writes both (foo), L1 rewrites data/list (foo, bar), L2 touches neither: bar is
attributed to layer 2 instead of 1. -/
theorem C05_symlink_target_rewritten :
    let h : History := [.link [1], .link [1, 2], .keep]     -- what the views show at link.txt
    let diff : Nat → Bool := fun i => i == 0                  -- only layer 0 has an entry AT link.txt
    (traceC h diff none 0 2 St.empty).1 = some 2 ∧ originSpec h 2 = some 1 := by decide

/-- Without cancellation the backwards loop (with the "file not in this layer's diff" skip) returns THE
origin. -/
theorem C05_origin (h : History) (p : Pkg) (hp : present h (h.length - 1) p = true) :
    ∃ L, trace h p = some L ∧ IsOrigin h p L := by
  have := C05_origin_or_unset_partial (fun _ => h) (inDiff h) none 0 p St.empty (fun _ => rfl) (cacheOK_empty _) hp
  rcases this with h1 | ⟨_, k, hk, _⟩
  · exact h1
  · cases hk

/-- … which is what the brute-force oracle of the correspondence run computes. -/
theorem C05_origin_spec (h : History) (p : Pkg) (hp : present h (h.length - 1) p = true) :
    trace h p = originSpec h p := by
  obtain ⟨L, h1, h2⟩ := C05_origin h p hp
  rw [h1, (originSpec_iff h p L).2 h2]

/-- The extraction cache is transparent: starting from ANY cache whose entries are what re-extraction
would give (in particular the one left behind by the packages traced before, of this or other files),
the answer without cancellation is the cache-free one, and the cache stays valid. The cache key is
(location, layer) only — hence the standing modelling assumption of one extractor per file. -/
theorem C05_cache_transparent (img : Nat → History) (f : Nat) (p : Pkg) (s : St) (hc : CacheOK img s.cache)
    (hp : present (img f) ((img f).length - 1) p = true) :
    (traceC (img f) (inDiff (img f)) none f p s).1 = trace (img f) p ∧
    CacheOK img (traceC (img f) (inDiff (img f)) none f p s).2.cache := by
  have h := traceC_traced img (inDiff (img f)) none f p s (fun _ => rfl) hc hp
  refine ⟨?_, h.2⟩
  obtain ⟨L0, h0, ho0⟩ := C05_origin (img f) p hp
  rcases h.1 with ⟨L, h1, ho⟩ | ⟨_, h2⟩
  · rw [h1, h0, isOrigin_unique _ p _ _ ho ho0]
  · simp [cancelled] at h2

/-- The whole `for _, pkg := range inventory.Packages` loop, sharing one cache and one context across
packages and files: every package gets its cache-free origin, or nothing if the context was cancelled
before its trace finished. -/
theorem C05_populate_partial (img : Nat → History) (diff : Nat → Nat → Bool) (cancelAt : Option Nat)
    (hd : ∀ f i, diff f i = inDiff (img f) i) :
    ∀ (pkgs : List (Nat × Pkg)) (s : St), CacheOK img s.cache →
      (∀ fp ∈ pkgs, present (img fp.1) ((img fp.1).length - 1) fp.2 = true) →
      (populate img diff cancelAt pkgs s).length = pkgs.length ∧
      ∀ x ∈ (populate img diff cancelAt pkgs s).zip pkgs,
        x.1 = trace (img x.2.1) x.2.2 ∨ (x.1 = none ∧ cancelAt ≠ none)
  | [], _, _, _ => by simp [populate]
  | (f, p) :: rest, s, hc, hp => by
    have hpf := hp (f, p) (by simp)
    have h := traceC_traced img (diff f) cancelAt f p s (hd f) hc hpf
    have ih := C05_populate_partial img diff cancelAt hd rest (traceC (img f) (diff f) cancelAt f p s).2 h.2
      (fun fp hfp => hp fp (by simp [hfp]))
    simp only [populate, List.length_cons, List.zip_cons_cons, List.mem_cons]
    refine ⟨by rw [ih.1], ?_⟩
    rintro x (rfl | hx)
    · obtain ⟨L0, h0, ho0⟩ := C05_origin (img f) p hpf
      rcases h.1 with ⟨L, h1, ho⟩ | ⟨h1, h2⟩
      · left; simp only []; rw [h1, h0, isOrigin_unique _ p _ _ ho ho0]
      · right
        refine ⟨h1, ?_⟩
        intro hn; rw [hn] at h2; simp [cancelled] at h2
    · exact ih.2 x hx

/-- … and with a context that is never cancelled every package gets it. -/
theorem C05_populate_complete (img : Nat → History) :
    ∀ (pkgs : List (Nat × Pkg)) (s : St), CacheOK img s.cache →
      (∀ fp ∈ pkgs, present (img fp.1) ((img fp.1).length - 1) fp.2 = true) →
      populate img (fun f => inDiff (img f)) none pkgs s = pkgs.map (fun fp => trace (img fp.1) fp.2)
  | [], _, _, _ => rfl
  | (f, p) :: rest, s, hc, hp => by
    have h1 := C05_cache_transparent img f p s hc (hp (f, p) (by simp))
    simp only [populate, List.map_cons, h1.1]
    rw [C05_populate_complete img rest _ h1.2 (fun fp hfp => hp fp (by simp [hfp]))]

/-- The origin is a layer whose own diff has an entry for the file (a regular file or a symlink) that
holds the package, and the package is not in the view just below. So layers that do not touch the file
— empty layers included — are never an origin, and removing/re-adding is attributed to the re-adding
layer. -/
theorem C05_origin_is_write (h : History) (p : Pkg) (L : Nat) (ho : IsOrigin h p L) :
    (∃ ps, (h[L]? = some (.write ps) ∨ h[L]? = some (.link ps)) ∧ ps.contains p = true) ∧
    (L = 0 ∨ present h (L-1) p = false) := by
  obtain ⟨hL, hpres, hleast⟩ := ho
  have hpL := hpres L (Nat.le_refl _) hL
  have hget : h[L]? = some h[L] := by simp [hL]
  cases L with
  | zero =>
    refine ⟨?_, Or.inl rfl⟩
    rw [present_eq] at hpL
    rw [viewAt_zero h hL] at hpL
    rw [hget]
    cases hop : h[0] with
    | keep => rw [hop] at hpL; simp [applyOp, has] at hpL
    | delete => rw [hop] at hpL; simp [applyOp, has] at hpL
    | write ps => rw [hop] at hpL; exact ⟨ps, Or.inl rfl, by simpa [applyOp, has] using hpL⟩
    | link ps => rw [hop] at hpL; exact ⟨ps, Or.inr rfl, by simpa [applyOp, has] using hpL⟩
  | succ L =>
    have hbelow : present h L p = false := by
      cases hb : present h L p with
      | false => rfl
      | true =>
        have := hleast L (by omega) (fun j h1 h2 => by
          by_cases hj : j = L
          · subst hj; exact hb
          · exact hpres j (by omega) h2)
        omega
    refine ⟨?_, Or.inr (by simpa using hbelow)⟩
    rw [present_eq] at hpL hbelow
    rw [viewAt_succ h L hL] at hpL
    rw [hget]
    cases hop : h[L+1] with
    | keep => rw [hop] at hpL; simp only [applyOp] at hpL; rw [hpL] at hbelow; cases hbelow
    | delete => rw [hop] at hpL; simp [applyOp, has] at hpL
    | write ps => rw [hop] at hpL; exact ⟨ps, Or.inl rfl, by simpa [applyOp, has] using hpL⟩
    | link ps => rw [hop] at hpL; exact ⟨ps, Or.inr rfl, by simpa [applyOp, has] using hpL⟩

/-- Layers that do not touch the file are inert: inserting one anywhere (an empty layer, or a layer
about other files) before position `k` moves the attribution by the index map only — the package stays
attributed to the same layer. -/
theorem C05_empty_layers_inert (h : History) (p : Pkg) (k : Nat) (hk : k ≤ h.length)
    (hp : present h (h.length - 1) p = true) :
    trace (insertKeep h k) p = (trace h p).map (shift k) := by
  obtain ⟨L, h1, ho⟩ := C05_origin h p hp
  have ho' := isOrigin_insertKeep h p k L hk ho
  have hn : 0 < h.length := ho.1 |> fun h1 => by omega
  have hp' : present (insertKeep h k) ((insertKeep h k).length - 1) p = true := by
    rw [length_insertKeep h k hk]
    have : h.length + 1 - 1 = (h.length - 1) + 1 := by omega
    rw [this, present_insertKeep_ge h p k (h.length - 1) hk (by omega)]
    exact hp
  obtain ⟨L', h1', ho''⟩ := C05_origin _ p hp'
  rw [h1, h1', isOrigin_unique _ p _ _ ho'' ho']
  rfl

/-- History ↔ layers: `initializeChainLayers` produces exactly the chain the specification prescribes
(`Spec.specChain`): with a valid history (as many non-empty entries as v1 layers) chain layer `i` is
history entry `i`, carries its command, and the non-empty entries take the v1 layers in order; otherwise
the history is ignored: one chain layer per v1 layer, no commands. The driver prints `specChain` and the
check compares the implementation's DiffID/Command with it.
(Reviewer: "the ignored-history half is `simp [initChain, hv]`" — yes: that branch of the Go code is one
expression; the content of the theorem is the valid-history half, `alignLoop_spec`.) -/
theorem C05_alignment (nLayers : Nat) (hist : List HEntry) :
    initChain nLayers hist = some (specChain nLayers hist) := by
  unfold specChain
  by_cases hv : (hist.filter (fun e => !e.empty)).length = nLayers
  · have hv' : validHistory nLayers hist = true := by simp [validHistory, hv]
    unfold initChain
    simp only [hv', Bool.not_true, Bool.false_eq_true, if_false, hv, if_true]
    rw [alignLoop_spec nLayers hist 0 0 [] (by omega)]
    simp only [List.nil_append, Nat.zero_add]
    rw [alignRest_done nLayers nLayers _ _ _ (by omega)]
  · have hv' : validHistory nLayers hist = false := by simp [validHistory, hv]
    unfold initChain
    simp [hv', hv]

/-- The reported `LayerDetails` are those of the origin chain layer: Index = the origin, Command = that
history entry's CreatedBy, DiffID = that of the v1 layer that entry stands for — which is a layer whose
tar has an entry for the file holding the package. (Valid history.) -/
theorem C05_details (hist : List HEntry) (layerOps : List Op) (p : Pkg)
    (hp : present (chainHistory (alignSpec hist 0 0) layerOps) (hist.length - 1) p = true) :
    let h := chainHistory (alignSpec hist 0 0) layerOps
    ∃ (o : Nat) (ho : o < hist.length) (k : Nat) (ps : List Pkg),
      trace h p = some o ∧
      detailsOpt (alignSpec hist 0 0) (trace h p) = some (o, some k, hist[o].cmd) ∧
      hist[o].empty = false ∧
      k = ((hist.take o).filter (fun e => !e.empty)).length ∧
      (layerOps[k]? = some (.write ps) ∨ layerOps[k]? = some (.link ps)) ∧ ps.contains p = true := by
  intro h
  have hlen : h.length = hist.length := by simp [h, chainHistory, alignSpec_length]
  have hp' : present h (h.length - 1) p = true := by rw [hlen]; exact hp
  obtain ⟨o, htr, horig⟩ := C05_origin h p hp'
  have ho : o < hist.length := by rw [← hlen]; exact horig.1
  obtain ⟨⟨ps, hw, hps⟩, _⟩ := C05_origin_is_write h p o horig
  obtain ⟨cm, hcm, hidx, hcmd, hlayer⟩ := alignSpec_getElem hist 0 0 o ho
  have hho : h[o]? = some (match cm.layer with | none => Op.keep | some k => layerOps.getD k .keep) := by
    simp only [h, chainHistory, List.getElem?_map, hcm, Option.map_some]
    cases cm.layer <;> rfl
  rw [hho] at hw
  simp only [Option.some.injEq] at hw
  cases hl : cm.layer with
  | none => rw [hl] at hw; rcases hw with hw | hw <;> cases hw
  | some k =>
    rw [hl] at hw hlayer
    simp only [] at hw
    have hne : hist[o].empty = false := by
      cases he : hist[o].empty with
      | false => rfl
      | true => rw [he] at hlayer; simp at hlayer
    rw [hne] at hlayer
    simp only [Bool.false_eq_true, if_false, Option.some.injEq, Nat.zero_add] at hlayer
    refine ⟨o, ho, k, ps, htr, ?_, hne, hlayer, ?_, hps⟩
    · simp only [htr, detailsOpt, Option.bind_some, details, hcm, Option.map_some, hl, hcmd]
    · unfold List.getD at hw
      cases hk : layerOps[k]? with
      | none => rw [hk] at hw; simp at hw
      | some op =>
        rw [hk] at hw
        simp only [Option.getD_some] at hw
        rcases hw with hw | hw
        · exact Or.inl (by rw [hw])
        · exact Or.inr (by rw [hw])

/-- … and with an ignored history (no or inconsistent history entries; chain layer = v1 layer): the
reported Index is the origin, the DiffID that of the v1 layer with that ordinal — a layer whose tar has
an entry for the file holding the package —, and there is no command. -/
theorem C05_details_no_history (layerOps : List Op) (p : Pkg)
    (hp : present (chainHistory ((List.range layerOps.length).map fun i => (⟨i, some i, ""⟩ : ChainMeta)) layerOps)
            (layerOps.length - 1) p = true) :
    let cms := (List.range layerOps.length).map fun i => (⟨i, some i, ""⟩ : ChainMeta)
    let h := chainHistory cms layerOps
    ∃ (o : Nat) (ps : List Pkg),
      trace h p = some o ∧ detailsOpt cms (trace h p) = some (o, some o, "") ∧
      (layerOps[o]? = some (.write ps) ∨ layerOps[o]? = some (.link ps)) ∧ ps.contains p = true := by
  intro cms h
  have hlen : h.length = layerOps.length := by simp [h, cms, chainHistory]
  have hp' : present h (h.length - 1) p = true := by rw [hlen]; exact hp
  obtain ⟨o, htr, horig⟩ := C05_origin h p hp'
  have ho : o < layerOps.length := by rw [← hlen]; exact horig.1
  obtain ⟨⟨ps, hw, hps⟩, _⟩ := C05_origin_is_write h p o horig
  have hho : h[o]? = layerOps[o]? := by
    simp only [h, cms, chainHistory, List.map_map, List.getElem?_map, List.getElem?_range ho, Option.map_some,
      Function.comp]
    simp [List.getD, ho]
  rw [hho] at hw
  refine ⟨o, ps, htr, ?_, hw, hps⟩
  simp [htr, detailsOpt, details, cms, ho]

/-! ### non-vacuity and regression witnesses -/

/-- add, rewrite keeping one package, delete, re-create, no-op -/
def exH : History := [.write [1, 2], .keep, .write [2, 3], .delete, .keep, .write [2], .keep]

example : present exH (exH.length - 1) 2 = true := by decide
example : trace exH 2 = some 5 ∧ originSpec exH 2 = some 5 := by decide
example : trace [.write [1, 2], .keep, .write [2, 3], .keep] 2 = some 0 ∧ trace [.write [1, 2], .keep, .write [2, 3], .keep] 3 = some 2 := by decide
-- a valid, non-empty cache (what tracing package 2 leaves behind) gives the same answer for package 3
example : (traceC [.write [1, 2], .keep, .write [2, 3], .keep] (inDiff [.write [1, 2], .keep, .write [2, 3], .keep]) none 0 3
            (traceC [.write [1, 2], .keep, .write [2, 3], .keep] (inDiff [.write [1, 2], .keep, .write [2, 3], .keep]) none 0 2 St.empty).2).1 = some 2 := by decide
-- regression (fix 32646227, was: attributed to layer 0): L0 "p2", L1 "p1 p3", L2 "p1 p2", context
-- cancelled after the first re-extraction: package 1 gets no layer details, package 2 (cache hit) is right
example : populate (fun _ => [.write [2], .write [1, 3], .write [1, 2]]) (fun _ => inDiff [.write [2], .write [1, 3], .write [1, 2]])
    (some 1) [(0, 1), (0, 2)] St.empty = [none, some 2] := by decide
example : populate (fun _ => [.write [2], .write [1, 3], .write [1, 2]]) (fun _ => inDiff [.write [2], .write [1, 3], .write [1, 2]])
    none [(0, 1), (0, 2)] St.empty = [some 1, some 2] := by decide
-- regression (fix ca0187b0, was: layer 0): the location is replaced by a symlink to another list in
-- layer 1 and restored in layer 2: package 1 is absent from view 1, so it belongs to layer 2
example : trace [.write [1], .link [2], .write [1]] 1 = some 2 ∧ originSpec [.write [1], .link [2], .write [1]] 1 = some 2 := by decide
-- inserting an empty layer below / above the origin
example : trace (insertKeep exH 2) 2 = some 6 ∧ trace (insertKeep exH 6) 2 = some 5 ∧ shift 2 5 = 6 ∧ shift 6 5 = 5 := by decide
-- alignment with empty layers interleaved
example : initChain 2 [⟨true, "a"⟩, ⟨false, "b"⟩, ⟨true, "c"⟩, ⟨false, "d"⟩] =
    some [⟨0, none, "a"⟩, ⟨1, some 0, "b"⟩, ⟨2, none, "c"⟩, ⟨3, some 1, "d"⟩] := by decide
example : initChain 2 [⟨false, "b"⟩] = some [⟨0, some 0, ""⟩, ⟨1, some 1, ""⟩] := by decide

end Scalibr.Trace
