/-
C07 — Ecosystem version comparison is total, consistent and a valid ordering.
Property theorems only; helper lemmas live in `Scalibr.Proofs.Semantic.*`.

For every comparator family `f` of `semantic.Parse` and ALL strings (`List Char`):
  `C07_f_total`     Parse + CompareStr never crashes;
  `C07_f_refl`      an accepted version compares equal to itself;
  `C07_f_antisymm`  both accepted ⇒ no error and `a ? b` is the exact flip of `b ? a`;
  `C07_f_trans`     total preorder (≤ transitive, strictness inherited, equality transitive)
                    on all accepted strings — where that is true of the code;
  `…_trans_partial` / `…_trans_fails` where it is not (Packagist `#`, Alpine leading zeros, Maven).
-/
import Scalibr.Proofs.Semantic.PyPI
import Scalibr.Proofs.Semantic.MavenCanon
import Scalibr.Proofs.Semantic.SemverSpec
import Scalibr.Proofs.Semantic.SpecParse
import Scalibr.Proofs.Semantic.Fuel
import Scalibr.Proofs.Semantic.SpecDebian
import Scalibr.Proofs.Semantic.SpecCran
import Scalibr.Proofs.Semantic.SpecNuGet
import Scalibr.Proofs.Semantic.SpecRubyGems
import Scalibr.Proofs.Semantic.SpecPyPI
import Scalibr.Proofs.Semantic.SpecReaders
import Scalibr.Proofs.Semantic.SpecRedHat
import Scalibr.Proofs.Semantic.Order
import Scalibr.Proofs.Semantic.SpecAlpine
import Scalibr.Spec.Semantic.Ecosystems
namespace Scalibr.Semantic

/-! ## generic wrappers -/

theorem laws_total {f : Fam} {WF c} (L : FamLaws f.family WF c) : Total f := fun a b => L.total a b
theorem laws_refl {f : Fam} {WF c} (L : FamLaws f.family WF c) : Refl f := fun a h => L.reflS a h
theorem laws_antisymm {f : Fam} {WF c} (L : FamLaws f.family WF c) : Antisymm f := fun a b ha hb => L.antisymmS a b ha hb

/-- total preorder on every accepted string, when the comparator is one on the parser's invariant -/
theorem laws_trans {f : Fam} {WF c} (L : FamLaws f.family WF c) (hc : IsCmpOn WF c) :
    TransOn f (fun s => accepted f s = true) := by
  intro a b d ha hb hd h1 h2
  have lift : ∀ s, accepted f s = true → parsesTo f.family WF s := by
    intro s hs
    obtain ⟨v, hv⟩ := (accepted_iff f.family s).mp hs
    exact ⟨v, hv, L.parse_wf s v hv⟩
  exact L.transS WF hc a b d (lift a ha) (lift b hb) (lift d hd) h1 h2

/-! ## semver-like: npm, crates.io, Go, Hex, Pub, ConanCenter -/

theorem C07_semver_total : Total .semver := laws_total (f := .semver) semver_laws
theorem C07_semver_refl : Refl .semver := laws_refl (f := .semver) semver_laws
theorem C07_semver_antisymm : Antisymm .semver := laws_antisymm (f := .semver) semver_laws
theorem C07_semver_trans : TransOn .semver (fun s => accepted .semver s = true) :=
  laws_trans (f := .semver) semver_laws (cmpSemver_isCmp.on _)

/-! ## NuGet -/

theorem C07_nuget_total : Total .nuget := laws_total (f := .nuget) nuget_laws
theorem C07_nuget_refl : Refl .nuget := laws_refl (f := .nuget) nuget_laws
theorem C07_nuget_antisymm : Antisymm .nuget := laws_antisymm (f := .nuget) nuget_laws
theorem C07_nuget_trans : TransOn .nuget (fun s => accepted .nuget s = true) :=
  laws_trans (f := .nuget) nuget_laws (cmpNuGet_isCmp.on _)

/-! ## CRAN -/

theorem C07_cran_total : Total .cran := laws_total (f := .cran) cran_laws
theorem C07_cran_refl : Refl .cran := laws_refl (f := .cran) cran_laws
theorem C07_cran_antisymm : Antisymm .cran := laws_antisymm (f := .cran) cran_laws
theorem C07_cran_trans : TransOn .cran (fun s => accepted .cran s = true) :=
  laws_trans (f := .cran) cran_laws (cmpCran_isCmp.on _)

/-- the repaired behaviour (22de9fca): a non-numeric component is an error, not a crash; an empty
component counts as zero -/
theorem C07_cran_nonnumeric :
    compareStr .cran ['a'] ['1'] = .err ∧ compareStr .cran ['1'] ['a'] = .err ∧
    compareStr .cran [] ['0'] = .eq ∧ compareStr .cran ['1', '.', '.', '2'] ['1', '.', '0', '.', '2'] = .eq := by decide

/-! ## Debian / Ubuntu -/

theorem C07_debian_total : Total .debian := laws_total (f := .debian) debian_laws
theorem C07_debian_refl : Refl .debian := laws_refl (f := .debian) debian_laws
theorem C07_debian_antisymm : Antisymm .debian := laws_antisymm (f := .debian) debian_laws
theorem C07_debian_trans : TransOn .debian (fun s => accepted .debian s = true) :=
  laws_trans (f := .debian) debian_laws (cmpDebT_isCmp.on _)

/-! ## RubyGems -/

theorem C07_rubygems_total : Total .rubygems := laws_total (f := .rubygems) rubygems_laws
theorem C07_rubygems_refl : Refl .rubygems := laws_refl (f := .rubygems) rubygems_laws
theorem C07_rubygems_antisymm : Antisymm .rubygems := laws_antisymm (f := .rubygems) rubygems_laws
theorem C07_rubygems_trans : TransOn .rubygems (fun s => accepted .rubygems s = true) :=
  laws_trans (f := .rubygems) rubygems_laws (cmpRuby_isCmp.on _)

/-! ## Red Hat -/

theorem C07_redhat_total : Total .redhat := laws_total (f := .redhat) redhat_laws
theorem C07_redhat_refl : Refl .redhat := laws_refl (f := .redhat) redhat_laws
theorem C07_redhat_antisymm : Antisymm .redhat := laws_antisymm (f := .redhat) redhat_laws
theorem C07_redhat_trans : TransOn .redhat (fun s => accepted .redhat s = true) :=
  laws_trans (f := .redhat) redhat_laws (cmpRH_isCmp.on _)

/-! ## PyPI -/

theorem C07_pypi_total : Total .pypi := laws_total (f := .pypi) pypi_laws
theorem C07_pypi_refl : Refl .pypi := laws_refl (f := .pypi) pypi_laws
theorem C07_pypi_antisymm : Antisymm .pypi := laws_antisymm (f := .pypi) pypi_laws
theorem C07_pypi_trans : TransOn .pypi (fun s => accepted .pypi s = true) :=
  laws_trans (f := .pypi) pypi_laws (cmpPyT_isCmp.on _)

/-! ## Packagist -/

theorem C07_packagist_total : Total .packagist := laws_total (f := .packagist) packagist_laws
theorem C07_packagist_refl : Refl .packagist := laws_refl (f := .packagist) packagist_laws
theorem C07_packagist_antisymm : Antisymm .packagist := laws_antisymm (f := .packagist) packagist_laws

/-- Full statement `TransOn .packagist (accepted)` is FALSE (next theorem). Total preorder on the
versions without a `#…` component — `#` is `comparePackagistComponents`' own stand-in for "a
number" and is not part of the ecosystem's grammar. -/
theorem C07_packagist_trans_partial : TransOn .packagist (fun s => acceptedByCode .packagist s = true) := by
  intro a b d ha hb hd h1 h2
  have lift : ∀ s, acceptedByCode .packagist s = true → parsesTo packagistFam pkNoHashP s :=
    fun s hs => ⟨parsePk s, rfl, hs⟩
  exact packagist_laws.transS pkNoHashP cmpPkS_isCmpOn a b d (lift a ha) (lift b hb) (lift d hd) h1 h2

/-- `1.5 = 1.#`, `1.# = 1.7`, but `1.5 < 1.7` -/
theorem C07_packagist_trans_fails : ¬ TransOn .packagist (fun s => accepted .packagist s = true) := by
  intro h
  have := (h ['1', '.', '5'] ['1', '.', '#'] ['1', '.', '7'] (by decide) (by decide) (by decide) (by decide) (by decide)).2.2
    (by decide) (by decide)
  exact absurd this (by decide)

example : acceptedByCode .packagist ['1', '.', '1', '0', '-', 'R', 'C', '2'] = true := by decide

/-- the repaired behaviour (8171abe1): a 20-digit component is a number -/
theorem C07_packagist_long_number :
    compareStr .packagist ['1'] ['1','.','9','9','9','9','9','9','9','9','9','9','9','9','9','9','9','9','9','9','9','9'] = .lt := by decide

/-! ## Alpine -/

theorem C07_alpine_total : Total .alpine := laws_total (f := .alpine) alpine_laws
theorem C07_alpine_refl : Refl .alpine := laws_refl (f := .alpine) alpine_laws
theorem C07_alpine_antisymm : Antisymm .alpine := laws_antisymm (f := .alpine) alpine_laws

/-- Full statement `TransOn .alpine (acceptedByCode)` is FALSE (next theorem; known finding
C07/alpine-leading-zero-padding). Total preorder on the valid versions none of whose later
components is written with a leading zero. -/
theorem C07_alpine_trans_partial :
    TransOn .alpine (fun s => acceptedByCode .alpine s = true ∧ knownClass .alpine s = false) := by
  intro a b d ha hb hd h1 h2
  have lift : ∀ s, (acceptedByCode .alpine s = true ∧ knownClass .alpine s = false) → parsesTo alpineFam AlpV.canonValid s := by
    intro s ⟨hg, hk⟩
    simp only [acceptedByCode] at hg
    simp only [knownClass] at hk
    cases hp : parseAlp s with
    | ok v =>
      rw [hp] at hg hk
      exact ⟨v, hp, parseAlp_good s v hp, by simpa using hg, by simpa using hk⟩
    | err => rw [hp] at hg; exact absurd hg (by simp)
    | panic => rw [hp] at hg; exact absurd hg (by simp)
  exact alpine_laws.transS AlpV.canonValid cmpAlpT_isCmpOn a b d (lift a ha) (lift b hb) (lift d hd) h1 h2

/-- `1.0 = 1`, `1 = 1.00`, but `1.0 < 1.00` — all three grammar-valid -/
theorem C07_alpine_trans_fails : ¬ TransOn .alpine (fun s => acceptedByCode .alpine s = true) := by
  intro h
  have := (h ['1', '.', '0'] ['1'] ['1', '.', '0', '0'] (by decide) (by decide) (by decide) (by decide) (by decide)).2.2
    (by decide) (by decide)
  exact absurd this (by decide)

example : acceptedByCode .alpine ['1', '.', '2', '.', '1', '0', 'a', '_', 'r', 'c', '1', '-', 'r', '3'] = true ∧
    knownClass .alpine ['1', '.', '2', '.', '1', '0', 'a', '_', 'r', 'c', '1', '-', 'r', '3'] = false := by decide
example : knownClass .alpine ['1', '.', '0', '0'] = true := by decide

/-! ## Maven -/

theorem C07_maven_total : Total .maven := laws_total (f := .maven) maven_laws
theorem C07_maven_refl : Refl .maven := laws_refl (f := .maven) maven_laws
theorem C07_maven_antisymm : Antisymm .maven := laws_antisymm (f := .maven) maven_laws

/-- Full statement `TransOn .maven (accepted)` is FALSE (next theorem; known finding
C07/maven-qualifier-cycle). Total preorder on the versions whose token list has the canonical shape
`mvnCanonToks`: a first number, '.'-prefixed numbers, then only '-'-prefixed qualifiers / numbers
(`N(.N)*(-qualifier | -N)*`, e.g. `1.2`, `1.0-rc-1`, `2.1-SNAPSHOT`, `1-alpha1`). -/
theorem C07_maven_trans_partial : TransOn .maven (fun s => knownClass .maven s = false) := by
  intro a b d ha hb hd h1 h2
  have lift : ∀ s, knownClass .maven s = false → parsesTo mavenFam MvnCanonP s := by
    intro s hk
    obtain ⟨v, hv, _⟩ := parseMvn_ok s
    simp only [knownClass, hv] at hk
    exact ⟨v, hv, mvnCanonToks_sound v (by simpa using hk)⟩
  exact maven_laws.transS MvnCanonP cmpMvnT_isCmpOn a b d (lift a ha) (lift b hb) (lift d hd) h1 h2

/-- `1 < 1.foo`, `1.foo < 1rc`, but `1 > 1rc` (known finding C07/maven-qualifier-cycle): the
comparison is not transitive on accepted strings; `1.foo` has a '.'-prefixed qualifier. -/
theorem C07_maven_trans_fails : ¬ TransOn .maven (fun s => accepted .maven s = true) := by
  intro h
  have := (h ['1'] ['1', '.', 'f', 'o', 'o'] ['1', 'r', 'c'] (by decide) (by decide) (by decide) (by decide) (by decide)).1
  exact absurd this (by decide)

example : knownClass .maven ['1', '.', '2', '-', 'r', 'c', '-', '1'] = false ∧ knownClass .maven ['1', '.', 'f', 'o', 'o'] = true := by decide

/-! ## all families at once, and the dispatch -/

theorem C07_all_total : ∀ f, Total f
  | .semver => C07_semver_total
  | .nuget => C07_nuget_total
  | .cran => C07_cran_total
  | .debian => C07_debian_total
  | .rubygems => C07_rubygems_total
  | .redhat => C07_redhat_total
  | .packagist => C07_packagist_total
  | .pypi => C07_pypi_total
  | .alpine => C07_alpine_total
  | .maven => C07_maven_total

theorem C07_all_refl : ∀ f, Refl f
  | .semver => C07_semver_refl
  | .nuget => C07_nuget_refl
  | .cran => C07_cran_refl
  | .debian => C07_debian_refl
  | .rubygems => C07_rubygems_refl
  | .redhat => C07_redhat_refl
  | .packagist => C07_packagist_refl
  | .pypi => C07_pypi_refl
  | .alpine => C07_alpine_refl
  | .maven => C07_maven_refl

theorem C07_all_antisymm : ∀ f, Antisymm f
  | .semver => C07_semver_antisymm
  | .nuget => C07_nuget_antisymm
  | .cran => C07_cran_antisymm
  | .debian => C07_debian_antisymm
  | .rubygems => C07_rubygems_antisymm
  | .redhat => C07_redhat_antisymm
  | .packagist => C07_packagist_antisymm
  | .pypi => C07_pypi_antisymm
  | .alpine => C07_alpine_antisymm
  | .maven => C07_maven_antisymm

/-- through the ecosystem name: never a crash, whatever the name and the strings -/
theorem C07_eco_total (eco : String) (a b : List Char) : compareEco eco a b ≠ .panic := by
  unfold compareEco
  split
  · simp
  · exact C07_all_total _ a b

/-- an ecosystem name outside the switch is an error -/
theorem C07_unsupported (eco : String) (h : dispatch eco = none) (a b : List Char) : compareEco eco a b = .err := by
  simp [compareEco, h]

/-! ## agreement with the published rule: semver.org §11 -/

/-- On every canonically rendered version the comparison is exactly the precedence of semver.org §11
(`specCmp`, written from the text in `Spec/Semantic.lean`); no restriction on the identifiers. -/
theorem C07_semver_spec (x y : SemVer) (hx : x.wf = true) (hy : y.wf = true) :
    compareStr .semver x.render y.render = .ofOrd (specCmp x y) :=
  semver_spec x y hx hy

/-- the repaired behaviour (6209aa57): the identifier `-5` is alphanumeric, hence above the numeric `1` -/
theorem C07_semver_hyphen_identifier :
    compareStr .semver ['1', '.', '0', '.', '0', '-', '-', '5'] ['1', '.', '0', '.', '0', '-', '1'] = .gt ∧
    compareStr .nuget ['1', '.', '0', '.', '0', '-', 'a', '.', '-', '1'] ['1', '.', '0', '.', '0', '-', 'a', '.', '0'] = .gt := by decide

/-- The reader the oracle uses inverts `render`: every well-formed version is read back from its
canonical text, so the driver's `spec=` verdict on a canonical pair is `specCmp` of exactly the
versions `C07_semver_spec` speaks about. -/
theorem C07_semver_specParse_render (x : SemVer) (hw : x.wf = true) (hb : x.buildWf = true) :
    specParse x.render = some x :=
  specParse_render x hw hb

/-- Adequacy of the fuel of the remaining fuel-indexed recognisers: any fuel above the length of the
argument gives the same result (the models pass `length + 1`). Debian / Red Hat / Packagist fuel is
eliminated inside their `_trans` proofs; for Maven exhaustion is a `panic` outcome, excluded by
`C07_maven_total`. -/
theorem C07_fuel_adequate :
    (∀ n m s, s.length < n → s.length < m → alpNumPrefix n s = alpNumPrefix m s) ∧
    (∀ n m s, s.length < n → s.length < m → findSufs n s = findSufs m s) ∧
    (∀ n m s, s.length < n → s.length < m → legacySplits n s = legacySplits m s) ∧
    (∀ (a : PP) n m s c, s.length < n → s.length < m → pStar a n s c = pStar a m s c) :=
  ⟨alpNumPrefix_fuel, findSufs_fuel, legacySplits_fuel, pStar_fuel⟩

def exRc : SemVer := ⟨1, 2, 3, [.alnum ['r', 'c'], .num 1, .alnum ['-', '5']], ['b', '7']⟩
example : exRc.wf = true ∧ exRc.buildWf = true ∧ exRc.render = ['1', '.', '2', '.', '3', '-', 'r', 'c', '.', '1', '.', '-', '5', '+', 'b', '7'] := by decide
example : specParse exRc.render = some exRc := by decide

/-! ## agreement with the published rules of the other ecosystems

Each specification is written from the ecosystem's documentation in `Spec/Semantic/<Eco>.lean`
(structured version `V`, canonical text `render`, ordering `specCmp`) and imports none of the
models; the theorems say that the model of the Go code, run on the canonical texts, answers what
the documentation says — for every well-formed `V`, by induction over the segment lists. -/

/-- Debian / Ubuntu: deb-version(7) — epoch, upstream_version, debian_revision; alternating non-digit
(letters before non-letters, `~` before everything, even the end) and digit runs -/
theorem C07_debian_spec (a b : DebSpec.V) (ha : a.wf = true) (hb : b.wf = true) :
    compareStr .debian (DebSpec.render a) (DebSpec.render b) = .ofOrd (DebSpec.specCmp a b) :=
  debian_spec a b ha hb

def exDeb : DebSpec.V :=
  ⟨1, [⟨[], some 2⟩, ⟨['.'], some 10⟩, ⟨['~', 'r', 'c'], some 1⟩, ⟨['+', 'd', 'f', 's', 'g'], none⟩],
   some [⟨[], some 1⟩, ⟨['u', 'b', 'u', 'n', 't', 'u'], some 2⟩]⟩
example : exDeb.wf = true ∧ DebSpec.render exDeb =
    ['1', ':', '2', '.', '1', '0', '~', 'r', 'c', '1', '+', 'd', 'f', 's', 'g', '-', '1', 'u', 'b', 'u', 'n', 't', 'u', '2'] := by decide
example : DebSpec.specParse (DebSpec.render exDeb) = some exDeb := by decide
/-- `1.0~rc1 < 1.0 < 1.0+b1` and `1.0 = 1.0-0` by the manual page's rule -/
example : DebSpec.specCmp ⟨0, [⟨[], some 1⟩, ⟨['.'], some 0⟩, ⟨['~', 'r', 'c'], some 1⟩], none⟩ ⟨0, [⟨[], some 1⟩, ⟨['.'], some 0⟩], none⟩ = .lt ∧
    DebSpec.specCmp ⟨0, [⟨[], some 1⟩, ⟨['.'], some 0⟩], none⟩ ⟨0, [⟨[], some 1⟩, ⟨['.'], some 0⟩, ⟨['+', 'b'], some 1⟩], none⟩ = .lt ∧
    DebSpec.specCmp ⟨0, [⟨[], some 1⟩, ⟨['.'], some 0⟩], none⟩ ⟨0, [⟨[], some 1⟩, ⟨['.'], some 0⟩], some [⟨[], some 0⟩]⟩ = .eq := by decide

/-- PyPI: PEP 440 — epoch, zero-padded release, `.devN < aN < bN < rcN < (none) < .postN`, local labels -/
theorem C07_pypi_spec (a b : PepSpec.V) (ha : a.wf = true) (hb : b.wf = true) :
    compareStr .pypi (PepSpec.render a) (PepSpec.render b) = .ofOrd (PepSpec.specCmp a b) :=
  pypi_spec a b ha hb

def exPep : PepSpec.V := ⟨1, 2, [0, 3], some (.rc, 1), some 2, some 3, [.str ['u', 'b', 'u', 'n', 't', 'u'], .num 1]⟩
example : exPep.wf = true ∧ PepSpec.render exPep =
    ['1', '!', '2', '.', '0', '.', '3', 'r', 'c', '1', '.', 'p', 'o', 's', 't', '2', '.', 'd', 'e', 'v', '3', '+', 'u', 'b', 'u', 'n', 't', 'u', '.', '1'] := by decide
example : PepSpec.specParse (PepSpec.render exPep) = some exPep := by decide
/-- `1.0.dev1 < 1.0a1 < 1.0 < 1.0.post1.dev1 < 1.0.post1` and `1.0 < 1.0+x` by PEP 440 -/
example : PepSpec.specCmp ⟨0, 1, [0], none, none, some 1, []⟩ ⟨0, 1, [0], some (.a, 1), none, none, []⟩ = .lt ∧
    PepSpec.specCmp ⟨0, 1, [0], some (.a, 1), none, none, []⟩ ⟨0, 1, [0], none, none, none, []⟩ = .lt ∧
    PepSpec.specCmp ⟨0, 1, [0], none, none, none, []⟩ ⟨0, 1, [0], none, some 1, some 1, []⟩ = .lt ∧
    PepSpec.specCmp ⟨0, 1, [0], none, some 1, some 1, []⟩ ⟨0, 1, [0], none, some 1, none, []⟩ = .lt ∧
    PepSpec.specCmp ⟨0, 1, [0], none, none, none, []⟩ ⟨0, 1, [0], none, none, none, [.str ['x']]⟩ = .lt := by decide

/-- RubyGems: `Gem::Version#<=>` on canonical segments -/
theorem C07_rubygems_spec (a b : RubySpec.V) (ha : a.wf = true) (hb : b.wf = true) :
    compareStr .rubygems (RubySpec.render a) (RubySpec.render b) = .ofOrd (RubySpec.specCmp a b) :=
  rubygems_spec a b ha hb

def exRuby : RubySpec.V := ⟨[.num 1, .num 0, .str ['r', 'c'], .num 10]⟩
example : exRuby.wf = true ∧ RubySpec.render exRuby = ['1', '.', '0', '.', 'r', 'c', '.', '1', '0'] := by decide
example : RubySpec.specParse (RubySpec.render exRuby) = some exRuby := by decide
/-- `1.0.a9 < 1.0.a10 < 1.0 = 1` as the documentation says -/
example : RubySpec.specCmp ⟨[.num 1, .num 0, .str ['a'], .num 9]⟩ ⟨[.num 1, .num 0, .str ['a'], .num 10]⟩ = .lt ∧
    RubySpec.specCmp ⟨[.num 1, .num 0, .str ['a'], .num 10]⟩ ⟨[.num 1, .num 0]⟩ = .lt ∧
    RubySpec.specCmp ⟨[.num 1, .num 0]⟩ ⟨[.num 1]⟩ = .eq := by decide

/-- NuGet: SemVer 2.0.0 with the legacy fourth part, case-insensitive pre-release labels -/
theorem C07_nuget_spec (a b : NuGetSpec.V) (ha : a.wf = true) (hb : b.wf = true) :
    compareStr .nuget (NuGetSpec.render a) (NuGetSpec.render b) = .ofOrd (NuGetSpec.specCmp a b) :=
  nuget_spec a b ha hb

def exNuGet : NuGetSpec.V := ⟨1, 2, 3, some 4, [.alnum ['R', 'C'], .num 1], ['b', '7']⟩
example : exNuGet.wf = true ∧ NuGetSpec.render exNuGet = ['1', '.', '2', '.', '3', '.', '4', '-', 'R', 'C', '.', '1', '+', 'b', '7'] := by decide
example : NuGetSpec.specParse (NuGetSpec.render exNuGet) = some exNuGet := by decide
/-- `1.0.0-RC = 1.0.0-rc`, `1.0.0 = 1.0.0.0`, `1.0.0-rc < 1.0.0` -/
example : NuGetSpec.specCmp ⟨1, 0, 0, none, [.alnum ['R', 'C']], []⟩ ⟨1, 0, 0, none, [.alnum ['r', 'c']], []⟩ = .eq ∧
    NuGetSpec.specCmp ⟨1, 0, 0, none, [], []⟩ ⟨1, 0, 0, some 0, [], []⟩ = .eq ∧
    NuGetSpec.specCmp ⟨1, 0, 0, none, [.alnum ['r', 'c']], []⟩ ⟨1, 0, 0, none, [], []⟩ = .lt := by decide

/-- CRAN: R's `package_version` — integer sequences, a proper prefix is smaller (no hypothesis needed) -/
theorem C07_cran_spec (a b : CranSpec.V) :
    compareStr .cran (CranSpec.render a) (CranSpec.render b) = .ofOrd (CranSpec.specCmp a b) :=
  cran_spec a b

def exCran : CranSpec.V := ⟨1, [(false, 2), (true, 10)]⟩
example : exCran.wf = true ∧ CranSpec.render exCran = ['1', '.', '2', '-', '1', '0'] := by decide
example : CranSpec.specParse (CranSpec.render exCran) = some exCran := by decide
/-- `1.2 < 1.2.0 < 1.2-1` -/
example : CranSpec.specCmp ⟨1, [(false, 2)]⟩ ⟨1, [(false, 2), (false, 0)]⟩ = .lt ∧
    CranSpec.specCmp ⟨1, [(false, 2), (false, 0)]⟩ ⟨1, [(false, 2), (true, 1)]⟩ = .lt := by decide

/-- Red Hat: rpm's version comparison (rpm-version(7) / rpmvercmp) — digit and letter segments,
`~` before everything even the end, `^` after the end but before any other continuation, numbers
as integers and above letters, a present release above an absent one -/
theorem C07_redhat_spec (a b : RpmSpec.V) (ha : a.wf = true) (hb : b.wf = true) :
    compareStr .redhat (RpmSpec.render a) (RpmSpec.render b) = .ofOrd (RpmSpec.specCmp a b) :=
  redhat_spec a b ha hb

def exRpm : RpmSpec.V :=
  ⟨2, [.num 1, .num 10, .tilde, .alpha ['r', 'c'], .num 1, .caret, .alpha ['g', 'i', 't'], .num 5], some [.num 3, .alpha ['e', 'l'], .num 8]⟩
example : exRpm.wf = true ∧ RpmSpec.render exRpm =
    ['2', ':', '1', '.', '1', '0', '~', 'r', 'c', '1', '^', 'g', 'i', 't', '5', '-', '3', 'e', 'l', '8'] := by decide
example : RpmSpec.specParse (RpmSpec.render exRpm) = some exRpm := by decide
/-- `1.0~rc1 < 1.0 < 1.0^git1 < 1.0.1`, `1.0^git1 < 1.0a`, and a tilde never meets a caret as an equal -/
example : RpmSpec.specCmp ⟨0, [.num 1, .num 0, .tilde, .alpha ['r', 'c'], .num 1], none⟩ ⟨0, [.num 1, .num 0], none⟩ = .lt ∧
    RpmSpec.specCmp ⟨0, [.num 1, .num 0], none⟩ ⟨0, [.num 1, .num 0, .caret, .alpha ['g', 'i', 't'], .num 1], none⟩ = .lt ∧
    RpmSpec.specCmp ⟨0, [.num 1, .num 0, .caret, .alpha ['g', 'i', 't'], .num 1], none⟩ ⟨0, [.num 1, .num 0, .num 1], none⟩ = .lt ∧
    RpmSpec.specCmp ⟨0, [.num 1, .num 0, .caret, .alpha ['g', 'i', 't'], .num 1], none⟩ ⟨0, [.num 1, .num 0, .alpha ['a']], none⟩ = .lt ∧
    RpmSpec.specCmp ⟨0, [.num 1, .num 0, .tilde, .alpha ['r', 'c'], .num 1], none⟩ ⟨0, [.num 1, .num 0, .caret, .alpha ['r', 'c'], .num 1], none⟩ = .lt := by decide

/-- Alpine, the documented SUFFIX order only: `alpha < beta < pre < rc < (no suffix) < cvs < svn < git < hg < p`,
the number after a suffix breaks ties (`_rc` = `_rc0`), suffix sequences are compared position by
position with "no suffix" standing in for a missing position. Covered: every pair of versions
`digits(.digits)*[a-z]?(_suffix[number])*(~hex)?(-r number)?` (digit runs as written, leading zeros
allowed) that agree on digits, letter, hash and revision and differ in their suffix sequences only.
NOT covered: how the numeric components (or letters, revisions) of two different bases compare — the
numeric-component rule stays outside because of the recorded padding finding
C07/alpine-leading-zero-padding. (Before the repair of `fetchSuffix`'s padding weight, 5 = `cvs`
instead of 4 = "no suffix", this statement was false: `1.0_cvs` compared equal to `1.0`.) -/
theorem C07_alpine_suffix_spec (a b : ApkSpec.V) (ha : a.wf = true) (hb : b.wf = true)
    (hs : ApkSpec.sameBase a b = true) :
    compareStr .alpine (ApkSpec.render a) (ApkSpec.render b) = .ofOrd (ApkSpec.specCmp a b) :=
  alpine_suffix_spec a b ha hb hs

def exApk : ApkSpec.V := ⟨[['1'], ['0', '9'], ['1', '0']], some 'b', [⟨.rc, some 1⟩, ⟨.p, none⟩, ⟨.git, some 20⟩], ['a', '1', 'f'], some 3⟩
example : exApk.wf = true ∧ ApkSpec.render exApk =
    ['1', '.', '0', '9', '.', '1', '0', 'b', '_', 'r', 'c', '1', '_', 'p', '_', 'g', 'i', 't', '2', '0', '~', 'a', '1', 'f', '-', 'r', '3'] := by decide
example : ApkSpec.specParse (ApkSpec.render exApk) = some exApk := by decide
/-- `1.0_cvs > 1.0` (the repaired defect), `1.0_rc1 < 1.0 < 1.0_p`, `1.0_rc = 1.0_rc0`, `1.0_rc1 < 1.0_rc1_p1`,
`1.0_rc1_alpha < 1.0_rc1`, `1.0_alpha9 < 1.0_beta` -/
example : ApkSpec.sufCmp [⟨.cvs, none⟩] [] = .gt ∧ ApkSpec.sufCmp [⟨.rc, some 1⟩] [] = .lt ∧ ApkSpec.sufCmp [] [⟨.p, none⟩] = .lt ∧
    ApkSpec.sufCmp [⟨.rc, none⟩] [⟨.rc, some 0⟩] = .eq ∧ ApkSpec.sufCmp [⟨.rc, some 1⟩] [⟨.rc, some 1⟩, ⟨.p, some 1⟩] = .lt ∧
    ApkSpec.sufCmp [⟨.rc, some 1⟩, ⟨.alpha, none⟩] [⟨.rc, some 1⟩] = .lt ∧ ApkSpec.sufCmp [⟨.alpha, some 9⟩] [⟨.beta, none⟩] = .lt := by decide
example : compareStr .alpine ['1', '.', '0', '_', 'c', 'v', 's'] ['1', '.', '0'] = .gt := by decide

/-- The readers the driver uses for the published-rule oracle invert `render` (Debian/Ubuntu,
RubyGems, CRAN; semver: `C07_semver_specParse_render`): the `spec=` verdict printed for a canonical
pair is `specCmp` of exactly the versions the agreement theorems speak about. (The NuGet and PyPI
readers are checked on the examples above only.) -/
theorem C07_spec_readers :
    (∀ v : DebSpec.V, v.wf = true → DebSpec.specParse (DebSpec.render v) = some v) ∧
    (∀ v : RubySpec.V, v.wf = true → RubySpec.specParse (RubySpec.render v) = some v) ∧
    (∀ v : CranSpec.V, CranSpec.specParse (CranSpec.render v) = some v) :=
  ⟨debian_specParse_render, rubygems_specParse_render, cran_specParse_render⟩

/-! ## the ecosystem names

`ecosystemRule` (`Spec/Semantic/Ecosystems.lean`) is the specification's table of supported ecosystem
names and the rule each follows, taken from the property text and the documentation. -/

/-- the `switch` of `semantic.Parse` is exactly the specification's table: every documented name is routed
to its documented rule and every other string is unsupported -/
theorem C07_dispatch_table (eco : String) : dispatch eco = ecosystemRule eco := by
  by_cases h1 : eco = "Alpine"; · subst h1; decide
  by_cases h2 : eco = "ConanCenter"; · subst h2; decide
  by_cases h3 : eco = "CRAN"; · subst h3; decide
  by_cases h4 : eco = "crates.io"; · subst h4; decide
  by_cases h5 : eco = "Debian"; · subst h5; decide
  by_cases h6 : eco = "Go"; · subst h6; decide
  by_cases h7 : eco = "Hex"; · subst h7; decide
  by_cases h8 : eco = "Maven"; · subst h8; decide
  by_cases h9 : eco = "npm"; · subst h9; decide
  by_cases h10 : eco = "NuGet"; · subst h10; decide
  by_cases h11 : eco = "Packagist"; · subst h11; decide
  by_cases h12 : eco = "Pub"; · subst h12; decide
  by_cases h13 : eco = "PyPI"; · subst h13; decide
  by_cases h14 : eco = "Red Hat"; · subst h14; decide
  by_cases h15 : eco = "RubyGems"; · subst h15; decide
  by_cases h16 : eco = "Ubuntu"; · subst h16; decide
  have nb : ∀ s : String, ¬ eco = s → (eco == s) = false := fun s h => by simpa using h
  simp [dispatch, ecosystemRule, ecosystemTable, List.lookup, h1, h2, h3, h4, h5, h6, h7, h8, h9, h10, h11, h12, h13, h14, h15, h16,
    nb _ h1, nb _ h2, nb _ h3, nb _ h4, nb _ h5, nb _ h6, nb _ h7, nb _ h8, nb _ h9, nb _ h10, nb _ h11, nb _ h12, nb _ h13, nb _ h14,
    nb _ h15, nb _ h16]

set_option maxRecDepth 100000 in
/-- the documented example orderings of every rule hold -/
theorem C07_witnesses_hold : ∀ f ∈ allFams, ∀ w ∈ familyWitnesses f, compareStr f w.a.toList w.b.toList = w.ord := by decide

set_option maxRecDepth 100000 in
/-- … and they pin the routing: under any OTHER rule at least one example of a rule comes out differently,
so an ecosystem name routed to a different comparator cannot satisfy its documented examples -/
theorem C07_witnesses_discriminate : ∀ g ∈ allFams, ∀ f ∈ allFams, f ≠ g →
    (familyWitnesses g).any (fun w => compareStr f w.a.toList w.b.toList != w.ord) = true := by decide

/-! ## what "never crashes" is about for the seven index-free looking families

The families of semver, NuGet, CRAN, RubyGems, Red Hat, Packagist and Debian RUN the Go-shaped
functions (`…Go`), written with the failing primitives `goIndex` / `goSlice` / `goFetch` at the
sites where the Go code indexes or slices (utilities.go:39 `slice[i]`, version.go `Fetch`,
version-semver-like.go:43 `Components[:max]`, version-semver.go:29,75 `parts[0]`, `a[i]`,
version-rubygems.go:70 `segs[i]`, `segs[:max(i,0)]`, version-redhat.go:120 `a[ai]` and the guarded
`a[ai]` of the trimming / tilde / caret tests, version-packagist.go:79-113 `a[i]`, `a[len(b)]`,
`a[len(b):]`, version-debian.go:35-85 `s[:i]`, `s[i+1:]`, `str[:i]`, `str[i:]`, `char[0]`); a
`none` there is `.panic` in the family. `C07_<f>_total` for these families therefore rests on the
theorem below: every one of those indices and slices is in range on every input (the guards make
the failing branch unreachable), and the fuel of the two fuel-indexed Go-shaped loops is enough. -/
theorem C07_go_sites_in_range :
    (∀ m s, parseSemverGo m s = some (parseSemver m s)) ∧
    (∀ v w, cmpSemverGo v w = some (cmpSemver v w)) ∧
    (∀ v w, cmpNuGetGo v w = some (cmpNuGet v w)) ∧
    (∀ v w, cmpCranGo v w = some (cmpCran v w)) ∧
    (∀ s, rubySegsGo s = some (rubySegs s)) ∧
    (∀ v w, cmpRubyGo v w = some (cmpRuby v w)) ∧
    (∀ v w, cmpRHGo v w = some (cmpRH v w)) ∧
    (∀ v w, cmpPkGoTop v w = some (cmpPkS v w)) ∧
    (∀ s, parseDebGo s = some (parseDeb s)) ∧
    (∀ v w, cmpDebGo v w = some (cmpDeb v w)) :=
  ⟨parseSemverGo_eq, cmpSemverGo_eq, cmpNuGetGo_eq, cmpCranGo_eq, rubySegsGo_eq, cmpRubyGo_eq, cmpRHGo_eq,
   fun v w => cmpPkGo_eq v w _ (Nat.le_refl _), parseDebGo_eq, cmpDebGo_eq⟩

/-- non-vacuity: the primitives do fail, a failure is a crash of the family, and the loops WITHOUT
their guards reach it (one position too many; `a[len(b)]` without `len(a) > len(b)`) -/
example : goIndex ([] : List Char) 0 = none ∧ goSlice [1, 2] 0 3 = none ∧ goSlice [1, 2] 2 1 = none ∧
    CRes.ofGo none = .panic ∧ (PRes.ofGo (none : Option SemV)).isPanic = true ∧
    lexLoop pkElem [['1']] [] 1 0 = none ∧ goIndex [['1']] 1 = none ∧
    rzLoop [['0']] 2 1 = none ∧ debWeighGo [] = some 2 ∧ goIndex ([] : List Char) 0 = none := by decide

/-! ## the published grammar, and the total preorder in the vocabulary of `Spec/VersionOrder.lean`

`Grammar f` (`Spec/Semantic/Grammar.lean`) is the PUBLISHED grammar for the seven families with a
formalised rule — canonical texts `render v` of well-formed structured versions, no reference to the
implementation's parser — and the code-defined domain `codeDomain` (accepted by the code's parser,
outside the known finding's class) for Packagist, Alpine and Maven. -/

/-- every canonical text of the published grammar is accepted by `Parse` (corollaries of `_spec`) -/
theorem C07_semver_render_accepted (v : SemVer) (h : v.wf = true) : accepted .semver v.render = true :=
  accepted_of_ofOrd (C07_semver_spec v v h h)
theorem C07_nuget_render_accepted (v : NuGetSpec.V) (h : v.wf = true) : accepted .nuget (NuGetSpec.render v) = true :=
  accepted_of_ofOrd (C07_nuget_spec v v h h)
theorem C07_cran_render_accepted (v : CranSpec.V) : accepted .cran (CranSpec.render v) = true :=
  accepted_of_ofOrd (C07_cran_spec v v)
theorem C07_debian_render_accepted (v : DebSpec.V) (h : v.wf = true) : accepted .debian (DebSpec.render v) = true :=
  accepted_of_ofOrd (C07_debian_spec v v h h)
theorem C07_rubygems_render_accepted (v : RubySpec.V) (h : v.wf = true) : accepted .rubygems (RubySpec.render v) = true :=
  accepted_of_ofOrd (C07_rubygems_spec v v h h)
theorem C07_redhat_render_accepted (v : RpmSpec.V) (h : v.wf = true) : accepted .redhat (RpmSpec.render v) = true :=
  accepted_of_ofOrd (C07_redhat_spec v v h h)
theorem C07_pypi_render_accepted (v : PepSpec.V) (h : v.wf = true) : accepted .pypi (PepSpec.render v) = true :=
  accepted_of_ofOrd (C07_pypi_spec v v h h)

/-- every string of the grammar is accepted by `Parse` -/
theorem C07_grammar_accepted : ∀ f s, Grammar f s → accepted f s = true := by
  intro f s h
  cases f
  · obtain ⟨v, hv, e⟩ := h; exact e ▸ C07_semver_render_accepted v hv
  · obtain ⟨v, hv, e⟩ := h; exact e ▸ C07_nuget_render_accepted v hv
  · obtain ⟨v, e⟩ := h; exact e ▸ C07_cran_render_accepted v
  · obtain ⟨v, hv, e⟩ := h; exact e ▸ C07_debian_render_accepted v hv
  · obtain ⟨v, hv, e⟩ := h; exact e ▸ C07_rubygems_render_accepted v hv
  · obtain ⟨v, hv, e⟩ := h; exact e ▸ C07_redhat_render_accepted v hv
  · rfl
  · obtain ⟨v, hv, e⟩ := h; exact e ▸ C07_pypi_render_accepted v hv
  · obtain ⟨ha, _⟩ := h
    simp only [acceptedByCode] at ha
    apply (accepted_iff alpineFam s).mpr
    show ∃ v, parseAlp s = .ok v
    cases hp : parseAlp s with
    | ok v => exact ⟨v, rfl⟩
    | err => rw [hp] at ha; exact absurd ha (by simp)
    | panic => rw [hp] at ha; exact absurd ha (by simp)
  · exact h.1

/-- `Parse` + `CompareStr` is a total preorder on the grammar of every family: `≤` is transitive,
strictness is inherited from either side, equality is transitive. For the seven published grammars
this is implied by the stronger `C07_<f>_trans` (all accepted strings); for Packagist, Alpine and
Maven it is the `_trans_partial` theorem. -/
theorem C07_preorder : ∀ f, TransOn f (Grammar f)
  | .semver => C07_semver_trans.mono (C07_grammar_accepted .semver)
  | .nuget => C07_nuget_trans.mono (C07_grammar_accepted .nuget)
  | .cran => C07_cran_trans.mono (C07_grammar_accepted .cran)
  | .debian => C07_debian_trans.mono (C07_grammar_accepted .debian)
  | .rubygems => C07_rubygems_trans.mono (C07_grammar_accepted .rubygems)
  | .redhat => C07_redhat_trans.mono (C07_grammar_accepted .redhat)
  | .pypi => C07_pypi_trans.mono (C07_grammar_accepted .pypi)
  | .packagist => C07_packagist_trans_partial.mono (fun _ h => h.1)
  | .alpine => C07_alpine_trans_partial.mono (fun _ h => h)
  | .maven => C07_maven_trans_partial.mono (fun _ h => h.2)

/-- the same, packaged for C11 / C18: on every list of versions of the family's grammar the comparison
(as an `Ordering`) satisfies `Scalibr.Upgrade.TotalPreorderOn` -/
theorem C07_total_preorder_on (f : Fam) (vs : List (List Char)) (h : ∀ s ∈ vs, Grammar f s) :
    Upgrade.TotalPreorderOn (cmpOrd f) vs :=
  preorder_on (C07_all_total f) (C07_all_refl f) (C07_all_antisymm f) (C07_preorder f) (C07_grammar_accepted f) vs h

/-- hence a rank function exists on such a list (what the guided-remediation models assume) -/
theorem C07_rank_exists (f : Fam) (vs : List (List Char)) (h : ∀ s ∈ vs, Grammar f s) :
    ∃ rank, Upgrade.RankFor (cmpOrd f) vs rank :=
  (Upgrade.rank_exists_iff (cmpOrd f) vs).mpr (C07_total_preorder_on f vs h)

/-- for the seven families whose comparison is a total preorder on ALL accepted strings, the package
holds on every list of accepted versions, canonical or not -/
theorem C07_total_preorder_on_accepted (f : Fam) (hf : f ≠ .packagist ∧ f ≠ .alpine ∧ f ≠ .maven)
    (vs : List (List Char)) (h : ∀ s ∈ vs, accepted f s = true) : Upgrade.TotalPreorderOn (cmpOrd f) vs := by
  have t : TransOn f (fun s => accepted f s = true) := by
    cases f
    · exact C07_semver_trans
    · exact C07_nuget_trans
    · exact C07_cran_trans
    · exact C07_debian_trans
    · exact C07_rubygems_trans
    · exact C07_redhat_trans
    · exact absurd rfl hf.1
    · exact C07_pypi_trans
    · exact absurd rfl hf.2.1
    · exact absurd rfl hf.2.2
  exact preorder_on (C07_all_total f) (C07_all_refl f) (C07_all_antisymm f) t (fun _ h => h) vs h

/-- the Maven cycle `1 < 1.foo < 1rc`, `1 > 1rc` (known finding C07/maven-qualifier-cycle) in the same
vocabulary: on these three versions the comparator has NO rank function (`no_rank_of_cycle`,
C11's `C11_no_rank_of_cycle`), so no model that ranks versions can describe it -/
theorem C07_maven_no_rank :
    ¬ ∃ rank, Upgrade.RankFor (cmpOrd .maven) [['1'], ['1', '.', 'f', 'o', 'o'], ['1', 'r', 'c']] rank :=
  Upgrade.no_rank_of_cycle (cmpOrd .maven) _ _ _ (by decide) (by decide) (by decide)

/-- non-vacuity: `2.0.0.rc.0.a` (interior zero segments) and `2.0.0.rc` are in the RubyGems grammar and
the former is the OLDER one; `1.0-rc-1` is in Maven's code-defined domain, `1.foo` is not -/
example : Grammar .rubygems ['2', '.', '0', '.', '0', '.', 'r', 'c', '.', '0', '.', 'a'] :=
  ⟨⟨[.num 2, .num 0, .num 0, .str ['r', 'c'], .num 0, .str ['a']]⟩, by decide, by decide⟩
example : Grammar .rubygems ['2', '.', '0', '.', '0', '.', 'r', 'c'] :=
  ⟨⟨[.num 2, .num 0, .num 0, .str ['r', 'c']]⟩, by decide, by decide⟩
example : cmpOrd .rubygems ['2', '.', '0', '.', '0', '.', 'r', 'c', '.', '0', '.', 'a'] ['2', '.', '0', '.', '0', '.', 'r', 'c'] = .lt := by decide
example : Grammar .maven ['1', '.', '0', '-', 'r', 'c', '-', '1'] ∧ ¬ Grammar .maven ['1', '.', 'f', 'o', 'o'] := by
  constructor
  · exact ⟨by decide, by decide⟩
  · intro h; exact absurd h.2 (by decide)

end Scalibr.Semantic
