/-
C13 — Manifest writers change exactly the requested requirements.
Property theorems only; helper lemmas live in `Scalibr.Proofs.NpmWriter` / `Scalibr.Proofs.PomProps`.
-/
import Scalibr.Proofs.NpmWriter
import Scalibr.Proofs.PomProps
import Scalibr.Proofs.PomWrite
import Scalibr.Proofs.PomTokens

namespace Scalibr.Npm

/-- Fix 36cc05c9: whatever the package name contains (`.`, `*`, `?`, `|`, `#`, `@`, `\`, …), the path
component the writer hands to gjson/sjson is parsed back as exactly that key: literal, not a
wildcard, not split. -/
theorem C13_npm_escape (n : Str) : parsePart (escape n) = ⟨n, false, none⟩ := parsePart_escape n

/-- package.json round trip.  For a document with unique keys per section and well-formed updates
(plain version strings; an aliased update names its package and old version), a successful `Write`
yields a document whose requirements, as `Read` computes them (alias parsing and the
prod → optional → dev cascade included), are the original requirements with the updated versions
substituted; keys and their order are unchanged and every entry whose key no update addresses is
untouched.  No bound on sections, names or the number of updates. -/
theorem C13_npm_roundtrip (d d' : Doc) (us : List Up) (hwf : WFdoc d) (hu : ∀ u ∈ us, WFup u = true)
    (h : write d us = .ok d') :
    requirements d' = substitute (requirements d) us ∧ sameOutside us d d' := by
  have := write_eq_spec d d' us hwf h
  subst this
  exact ⟨requirements_applyAll us hu d, sameOutside_applyAll us d⟩

/-- With no updates the document is returned as it is. -/
theorem C13_npm_identity (d : Doc) : write d [] = .ok d := rfl

/-- No silent success, step by step: when `Write` succeeds, every update of the list was processed on
some intermediate document, and if that document held the update's key in any of the three sections
then a section that held `key ↦ old value` now holds `key ↦ new value`. -/
theorem C13_npm_no_silent_success (d d' : Doc) (pre post : List Up) (u : Up)
    (h : write d (pre ++ u :: post) = .ok d') :
    ∃ d1 d2, write d pre = .ok d1 ∧ apply1 d1 u = .ok d2 ∧ write d2 post = .ok d' ∧
      (keyPresent u d1 → applied u d1 d2) := by
  induction pre generalizing d with
  | nil =>
    simp only [List.nil_append, write] at h
    cases h1 : apply1 d u with
    | err => simp [h1] at h
    | ok d2 =>
      simp only [h1] at h
      exact ⟨d, d2, rfl, h1, h, apply1_applied d d2 u h1⟩
  | cons p ps ih =>
    simp only [List.cons_append, write] at h
    cases h1 : apply1 d p with
    | err => simp [h1] at h
    | ok dp =>
      simp only [h1] at h
      obtain ⟨d1, d2, a, b, c, e⟩ := ih dp h
      exact ⟨d1, d2, by simp [write, h1, a], b, c, e⟩

/-- No silent success, at requirement level: an update addressed to a requirement present in the file
either makes `Write` fail or shows up when the written file is read back. -/
theorem C13_npm_present_applied (d d' : Doc) (u : Up) (hwf : WFdoc d) (hu : WFup u = true)
    (hp : present u d) (h : write d [u] = .ok d') :
    ∃ r ∈ requirements d', r.name = u.name ∧ r.knownAs = u.knownAs ∧ r.ver = u.to := by
  obtain ⟨hr, _⟩ := C13_npm_roundtrip d d' [u] hwf (by simpa using hu) h
  obtain ⟨r, hr1, hr2⟩ := hp
  refine ⟨substReq u r, ?_, ?_⟩
  · rw [hr]; simp only [substitute, List.foldl]; exact List.mem_map_of_mem hr1
  · unfold substReq; simp only [hr2, if_true]
    unfold addresses at hr2
    simp only [Bool.and_eq_true, decide_eq_true_eq] at hr2
    exact ⟨hr2.1.1, hr2.1.2, trivial⟩

/-! Non-vacuity: a scoped, dotted, wildcard-looking and aliased name in three sections. -/
def exDoc : Doc :=
  { dev := [("socket.io".toList, "^1.0.0".toList), ("a*b".toList, "1".toList)],
    opt := [("socket.io".toList, "^1.0.0".toList)],
    prod := [("@s/p".toList, "~2".toList), ("al".toList, "npm:real@^3".toList), ("socket.io".toList, "^0.9".toList)] }
def exUps : List Up :=
  [⟨"socket.io".toList, none, "^1.0.0".toList, "^2.0.0".toList⟩, ⟨"real".toList, some "al".toList, "^3".toList, "^4".toList⟩,
   ⟨"a*b".toList, none, "1".toList, "2".toList⟩]
example : WFdoc exDoc := by decide
example : ∀ u ∈ exUps, WFup u = true := by decide
example : ∃ d', write exDoc exUps = .ok d' ∧ d' ≠ exDoc := by
  refine ⟨_, rfl, by decide⟩
example : present ⟨"real".toList, some "al".toList, "^3".toList, "^4".toList⟩ exDoc :=
  ⟨⟨"real".toList, some "al".toList, "^3".toList⟩, by decide, by decide⟩
/-- the hypothesis `WFup` is not decoration: a new version containing `@` does not survive the alias syntax -/
theorem C13_npm_alias_at_witness :
    let d : Doc := ⟨[], [], [("al".toList, "npm:real@1".toList)]⟩
    let u : Up := ⟨"real".toList, some "al".toList, "1".toList, "2@3".toList⟩
    ∃ d', write d [u] = .ok d' ∧ requirements d' ≠ substitute (requirements d) [u] := by
  refine ⟨_, rfl, by decide⟩

end Scalibr.Npm

namespace Scalibr.Pom

/-- Fix 3277e05b: `generatePropertyPatches` never slices out of range — for all strings, with or
without placeholders. -/
theorem C13_pom_props_total (s1 s2 : Str) : gen s1 s2 ≠ .panic := gen_total s1 s2

/-- Soundness of the returned patch map, full strength (fix d4dd80ce): whenever `generatePropertyPatches`
answers with a map, interpolating the old requirement string with that map gives exactly the requested
version — for all strings, repeated placeholder names included — and no name was assigned two values. -/
theorem C13_pom_props_sound (s1 s2 : Str) (ps : List (Str × Str)) (h : gen s1 s2 = .ok ps) :
    interpolate (lookupLast ps) s1 = s2 ∧ Consistent ps :=
  ⟨gen_sound s1 s2 ps h, gen_consistent s1 s2 ps h⟩

/-- the former counterexample: `${v}-${v}` → `1-2` is now refused, `${v}-${v}` → `2-2` is answered `{v ↦ 2}` -/
theorem C13_pom_props_repeated_name_fixed :
    gen "${v}-${v}".toList "1-2".toList = .no ∧
    gen "${v}-${v}".toList "2-2".toList = .ok [("v".toList, "2".toList), ("v".toList, "2".toList)] := by
  decide

/-- the three shapes that used to panic now return "no" -/
theorem C13_pom_props_fixed_witnesses :
    gen "1.0.${rev}".toList "2".toList = .no ∧ gen "1.${x}.5".toList "1.5".toList = .no ∧
    gen "${a}-jre".toList "9".toList = .no := by decide

/-- Abstract pom writer: with no updates nothing changes. -/
theorem C13_pom_identity (pom : Pom) : write pom [] = pom := by
  unfold write buildPatches
  simp only [List.foldl, newDeps, List.filter_nil, List.map_nil, List.append_nil]
  have h1 : pom.deps.map (applyDep ⟨[], []⟩) = pom.deps := by
    have : pom.deps.map (applyDep ⟨[], []⟩) = pom.deps.map id := by
      apply List.map_congr_left; intro d _; unfold applyDep; simp
    simpa using this
  have h2 : pom.props.map (applyProp ⟨[], []⟩) = pom.props := by
    have : pom.props.map (applyProp ⟨[], []⟩) = pom.props.map id := by
      apply List.map_congr_left; intro p _; simp [applyProp, propPatchLookup]
    simpa using this
  rw [h1, h2]

/-
Full-strength statement for the pom.xml writer at requirement level:
    requirements (write pom us) = substitute (requirements pom) us
for every pom and every set of updates addressed to requirements present in it.  It is FALSE for the
unchanged code in the situations of `C13_pom_class_witnesses` and `C13_pom_other_profile_witness` (known findings C13/pom-…); the
general theorem in force is `C13_pom_literal_roundtrip`, the remaining cases (property-based versions,
several updates) are covered by the correspondence stream with this very statement as its oracle.
-/

/-- pom.xml round trip, literal fragment: all versions in the file are literals, keys are unique over
the whole file, and one update addresses an existing entry (by
key, origin and old version) with a literal new version.  Then re-reading the written pom gives the
original requirements with that version substituted.  Any number of dependencies, sections, profiles. -/
theorem C13_pom_literal_roundtrip (pom : Pom) (u : Upd) (d : Dep) (c : LiteralCase pom u d) :
    requirements (write pom [u]) = substitute (requirements pom) [u] :=
  C13_pom_literal_roundtrip_aux pom u d c

/-- the two classes in which the unchanged pom.xml writer still leaves the property, on the model: an
update addressed to dependencyManagement while `<dependencies>` holds the same key, and a property shared
with another dependency. -/
theorem C13_pom_class_witnesses :
    (let pom : Pom := ⟨[⟨[], ['x'], ['y'], [], [], "1.0".toList, false⟩, ⟨sManagement, ['x'], ['y'], [], [], "2.0".toList, false⟩], [], "1.0".toList⟩
     let us : List Upd := [⟨['x'], ['y'], [], [], sManagement, "2.0".toList, "2.5".toList⟩]
     requirements (write pom us) ≠ substitute (requirements pom) us ∧ feature pom us = some "C13/pom-origin-ignored") ∧
    (let pom : Pom := ⟨[⟨[], ['x'], ['y'], [], [], "${v}".toList, false⟩, ⟨[], ['x'], ['z'], [], [], "${v}".toList, false⟩], [⟨[], ['v'], "1.0".toList⟩], "1.0".toList⟩
     let us : List Upd := [⟨['x'], ['y'], [], [], [], "1.0".toList, "1.5".toList⟩]
     requirements (write pom us) ≠ substitute (requirements pom) us ∧ feature pom us = some "C13/pom-shared-property") := by
  decide

/-- known finding C13/pom-property-other-profile, on the model: a dependency in profile p1 with version
`${w}`, `w` defined only in profile p2.  The by-name test of fix f5d17448 passes, the patch is recorded
under property origin "" where nothing holds `w`, and the written pom reads back unchanged. -/
theorem C13_pom_other_profile_witness :
    let pom : Pom := ⟨[⟨[], ['x'], ['m'], [], [], "1.0".toList, false⟩, ⟨"profile@p1".toList, ['x'], ['q'], [], [], "${w}".toList, false⟩],
                      [⟨"profile@p2".toList, ['w'], "1.0".toList⟩], "1.0".toList⟩
    let us : List Upd := [⟨['x'], ['q'], [], [], [], "${w}".toList, "2.0".toList⟩]
    write pom us = pom ∧ requirements (write pom us) ≠ substitute (requirements pom) us ∧
    feature pom us = some "C13/pom-property-other-profile" := by
  decide

/-- the three repaired classes, on the model: white space in a key element (5743d35a), `${project.version}`
(f5d17448), a repeated placeholder with different values (d4dd80ce) now read back as substituted. -/
theorem C13_pom_fixed_witnesses :
    (let pom : Pom := ⟨[⟨[], ['x'], ['y'], [], [], "1.0".toList, true⟩], [], "1.0".toList⟩
     let us : List Upd := [⟨['x'], ['y'], [], [], [], "1.0".toList, "1.5".toList⟩]
     requirements (write pom us) = substitute (requirements pom) us) ∧
    (let pom : Pom := ⟨[⟨[], ['x'], ['y'], [], [], "${project.version}".toList, false⟩], [], "1.0".toList⟩
     let us : List Upd := [⟨['x'], ['y'], [], [], [], "1.0".toList, "1.5".toList⟩]
     requirements (write pom us) = substitute (requirements pom) us) ∧
    (let pom : Pom := ⟨[⟨[], ['x'], ['z'], [], [], "${v}-${v}".toList, false⟩], [⟨[], ['v'], "1.0".toList⟩], "1.0".toList⟩
     let us : List Upd := [⟨['x'], ['z'], [], [], [], "1.0-1.0".toList, "1.0-2.0".toList⟩]
     requirements (write pom us) = substitute (requirements pom) us) := by
  decide

/-- `LiteralCase` is satisfiable on a pom with a profile and dependencyManagement. -/
example : LiteralCase
    ⟨[⟨[], ['x'], ['y'], [], [], "1.0".toList, false⟩, ⟨sManagement, ['x'], ['m'], [], [], "2.0".toList, false⟩,
      ⟨"profile@p1".toList, ['x'], ['q'], [], [], "3.0".toList, false⟩], [⟨[], ['v'], "9".toList⟩], "1.0".toList⟩
    ⟨['x'], ['m'], [], [], sManagement, "2.0".toList, "2.5".toList⟩
    ⟨sManagement, ['x'], ['m'], [], [], "2.0".toList, false⟩ := by
  constructor <;> decide

/-! Non-vacuity: prefix + placeholder + suffix, and two placeholders. -/
example : gen "1.${a}.${b}-jre".toList "1.22.333-jre".toList =
    .ok [("a".toList, "22".toList), ("b".toList, "333".toList)] := by decide
example : Consistent [("a".toList, "22".toList), ("b".toList, "333".toList)] := by decide
example : interpolate (lookupLast [("a".toList, "22".toList), ("b".toList, "333".toList)]) "1.${a}.${b}-jre".toList
    = "1.22.333-jre".toList := by decide

end Scalibr.Pom

namespace Scalibr.PomTok

/-
Full-strength statement at token level — "with no updates the output equals the input": the writer hands every
`<dependency>` / `<parent>` element to `writeString` with `version ↦ (the element's own version text)`, so it
would need `write values ts = ts` for every token list.  FALSE for the unchanged code when the
`<version>` element holds anything besides that text (a comment): `C13_pom_tokens_comment_witness`
(known finding C13/pom-version-comment).  In force: the `_partial` form.
-/

/-- `writeString` is the identity on every element in which each addressed child already holds exactly
its value (`<version>1.0</version>`, or an empty element for the empty value) — whatever else the element
contains: comments, nested elements, attributes, other children, in any number. -/
theorem C13_pom_tokens_identity_partial (values : Str → Option Str) (ts : List Tok)
    (hs : simple values ts = true) : write values ts = ts := write_simple values ts hs

/-- `<dependency><version><!--c-->1.0</version></dependency>` rewritten with its own version: the comment is lost. -/
theorem C13_pom_tokens_comment_witness :
    let vals : Str → Option Str := fun n => if n = "version".toList then some "1.0".toList else none
    let ts := [Tok.start "dependency".toList [], .start "version".toList [], .comment ['c'], .text "1.0".toList,
               .stop "version".toList, .stop "dependency".toList]
    write vals ts = [Tok.start "dependency".toList [], .start "version".toList [], .text "1.0".toList,
               .stop "version".toList, .stop "dependency".toList] ∧ write vals ts ≠ ts := by
  decide

/-! Non-vacuity: a dependency with a comment beside (not inside) the version, an attribute and an exclusion. -/
example : simple (fun n => if n = "version".toList then some "1.0".toList else none)
    [.start "dependency".toList [], .comment ['x'], .start "groupId".toList [], .text ['g'], .stop "groupId".toList,
     .start "version".toList "a=b".toList, .text "1.0".toList, .stop "version".toList,
     .start "exclusions".toList [], .stop "exclusions".toList, .stop "dependency".toList] = true := by decide

end Scalibr.PomTok
