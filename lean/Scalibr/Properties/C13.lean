/-
C13 — Manifest writers change exactly the requested requirements.
Property theorems only; helper lemmas live in `Scalibr.Proofs.NpmWriter` / `Scalibr.Proofs.PomProps`.
-/
import Scalibr.Proofs.NpmWriter
import Scalibr.Proofs.NpmFile
import Scalibr.Proofs.PomProps
import Scalibr.Proofs.PomWrite
import Scalibr.Proofs.PomTokens

namespace Scalibr.Npm

/-- Fix 36cc05c9: whatever the package name contains (`.`, `*`, `?`, `|`, `#`, `@`, `\`, …), the path
component the writer hands to gjson/sjson is parsed back as exactly that key: literal, not a
wildcard, not split. -/
theorem C13_npm_escape (n : Str) : parsePart (escape n) = ⟨n, false, none⟩ := parsePart_escape n

/-- package.json round trip.  For a document with unique keys per section and well-formed updates
(plain version strings; an aliased update names its package and old version), a successful `Write`
yields a document whose requirements, as `Read` computes them (alias parsing and the
prod → optional → dev cascade included), are the original requirements with the updated versions
substituted; keys and their order are unchanged and every entry whose key no update addresses is
untouched.  No bound on sections, names or the number of updates. -/
theorem C13_npm_roundtrip_partial (d d' : Doc) (us : List Up) (hwf : WFdoc d) (hu : ∀ u ∈ us, WFup u = true)
    (h : write d us = .ok d') :
    requirements d' = substitute (requirements d) us ∧ sameOutside us d d' := by
  have := write_eq_spec d d' us hwf h
  subst this
  exact ⟨requirements_applyAll us hu d, sameOutside_applyAll us d⟩

/-- With no updates the three sections are returned as they are (`rfl` on the section model; the statement about
the FILE — every byte — is `C13_npm_bytes_identity` below). -/
theorem C13_npm_identity (d : Doc) : write d [] = .ok d := rfl

/-- No silent success, step by step: when `Write` succeeds, every update of the list was processed on
some intermediate document, and if that document held the update's key in any of the three sections
then a section that held `key ↦ old value` now holds `key ↦ new value`. -/
theorem C13_npm_no_silent_success (d d' : Doc) (pre post : List Up) (u : Up)
    (h : write d (pre ++ u :: post) = .ok d') :
    ∃ d1 d2, write d pre = .ok d1 ∧ apply1 d1 u = .ok d2 ∧ write d2 post = .ok d' ∧
      (keyPresent u d1 → applied u d1 d2) := by
  induction pre generalizing d with
  | nil =>
    simp only [List.nil_append, write] at h
    cases h1 : apply1 d u with
    | err => simp [h1] at h
    | ok d2 =>
      simp only [h1] at h
      exact ⟨d, d2, rfl, h1, h, apply1_applied d d2 u h1⟩
  | cons p ps ih =>
    simp only [List.cons_append, write] at h
    cases h1 : apply1 d p with
    | err => simp [h1] at h
    | ok dp =>
      simp only [h1] at h
      obtain ⟨d1, d2, a, b, c, e⟩ := ih dp h
      exact ⟨d1, d2, by simp [write, h1, a], b, c, e⟩

/-- No silent success, at requirement level: an update addressed to a requirement present in the file
either makes `Write` fail or shows up when the written file is read back. -/
theorem C13_npm_present_applied (d d' : Doc) (u : Up) (hwf : WFdoc d) (hu : WFup u = true)
    (hp : present u d) (h : write d [u] = .ok d') :
    ∃ r ∈ requirements d', r.name = u.name ∧ r.knownAs = u.knownAs ∧ r.ver = u.to := by
  obtain ⟨hr, _⟩ := C13_npm_roundtrip_partial d d' [u] hwf (by simpa using hu) h
  obtain ⟨r, hr1, hr2⟩ := hp
  refine ⟨substReq u r, ?_, ?_⟩
  · rw [hr]; simp only [substitute, List.foldl]; exact List.mem_map_of_mem hr1
  · unfold substReq; simp only [hr2, if_true]
    unfold addresses at hr2
    simp only [Bool.and_eq_true, decide_eq_true_eq] at hr2
    exact ⟨hr2.1.1, hr2.1.2, trivial⟩

/-! Non-vacuity: a scoped, dotted, wildcard-looking and aliased name in three sections. -/
def exDoc : Doc :=
  { dev := [("socket.io".toList, "^1.0.0".toList), ("a*b".toList, "1".toList)],
    opt := [("socket.io".toList, "^1.0.0".toList)],
    prod := [("@s/p".toList, "~2".toList), ("al".toList, "npm:real@^3".toList), ("socket.io".toList, "^0.9".toList)] }
def exUps : List Up :=
  [⟨"socket.io".toList, none, "^1.0.0".toList, "^2.0.0".toList⟩, ⟨"real".toList, some "al".toList, "^3".toList, "^4".toList⟩,
   ⟨"a*b".toList, none, "1".toList, "2".toList⟩]
example : WFdoc exDoc := by decide
example : ∀ u ∈ exUps, WFup u = true := by decide
example : ∃ d', write exDoc exUps = .ok d' ∧ d' ≠ exDoc := by
  refine ⟨_, rfl, by decide⟩
example : present ⟨"real".toList, some "al".toList, "^3".toList, "^4".toList⟩ exDoc :=
  ⟨⟨"real".toList, some "al".toList, "^3".toList⟩, by decide, by decide⟩
/-- the hypothesis `WFup` is not decoration: a new version containing `@` does not survive the alias syntax -/
theorem C13_npm_alias_at_witness :
    let d : Doc := ⟨[], [], [("al".toList, "npm:real@1".toList)]⟩
    let u : Up := ⟨"real".toList, some "al".toList, "1".toList, "2@3".toList⟩
    ∃ d', write d [u] = .ok d' ∧ requirements d' ≠ substitute (requirements d) [u] := by
  refine ⟨_, rfl, by decide⟩

/-- `Read` loses no entry, for EVERY document: each entry of the three sections that `makeNPMReqVer` accepts is among the
requirements under its own identity (package and alias).  Holds since fix 8304c0d6; the former cascade (matching on the package
alone) fails it on `{"dependencies": {"foo": …}, "devDependencies": {"bar": "npm:foo@…"}}` — second statement, decided. -/
theorem C13_npm_read_complete (d : Doc) : readComplete d (requirements d) = true := readComplete_requirements d

theorem C13_npm_read_complete_old_witness :
    let d : Doc := ⟨[("bar".toList, "npm:foo@^2.0.0".toList)], [], [("foo".toList, "^1.0.0".toList)]⟩
    -- what the cascade keyed by the package alone reported
    readComplete d [⟨"foo".toList, some "bar".toList, "^2.0.0".toList⟩] = false := by decide

/-- fix 8304c0d6, on the model: `"foo": "^1.0.0"` in dependencies and `"bar": "npm:foo@^2.0.0"` in devDependencies (or
optionalDependencies) are two requirements — `foo` and `foo` known as `bar` — and an update of either re-reads as
substituted.  (Before the fix the section cascade matched on the package alone: `Read` reported the alias only, the plain
entry could neither be resolved nor updated.) -/
theorem C13_npm_alias_separate_fixed_witness :
    (let d : Doc := ⟨[("bar".toList, "npm:foo@^2.0.0".toList)], [], [("foo".toList, "^1.0.0".toList)]⟩
     requirements d = [⟨"foo".toList, none, "^1.0.0".toList⟩, ⟨"foo".toList, some "bar".toList, "^2.0.0".toList⟩] ∧
     (∀ u ∈ [(⟨"foo".toList, none, "^1.0.0".toList, "^1.5.0".toList⟩ : Up), ⟨"foo".toList, some "bar".toList, "^2.0.0".toList, "^3.0.0".toList⟩],
       ∃ d', write d [u] = .ok d' ∧ requirements d' = substitute (requirements d) [u] ∧ requirements d' ≠ requirements d)) ∧
    (let d : Doc := ⟨[], [("bar".toList, "npm:foo@^2.0.0".toList)], [("baz".toList, "npm:foo@^1.0.0".toList)]⟩
     requirements d = [⟨"foo".toList, some "baz".toList, "^1.0.0".toList⟩, ⟨"foo".toList, some "bar".toList, "^2.0.0".toList⟩]) ∧
    -- the same entry in two sections is still one requirement (the later section's version)
    (let d : Doc := ⟨[("bar".toList, "npm:foo@^2.0.0".toList)], [], [("bar".toList, "npm:foo@^1.0.0".toList)]⟩
     requirements d = [⟨"foo".toList, some "bar".toList, "^2.0.0".toList⟩]) := by
  refine ⟨⟨by decide, ?_⟩, by decide, by decide⟩
  intro u hu
  simp only [List.mem_cons, List.mem_nil_iff, or_false] at hu
  rcases hu with rfl | rfl
  · exact ⟨_, rfl, by decide, by decide⟩
  · exact ⟨_, rfl, by decide, by decide⟩

/-- An update for a key that NO section holds is an error since fix 400b3071 (it was passed over: `Write` answered ok and changed
nothing — e.g. for a section spelled "Dependencies", which Read accepts and the JSON path does not find). -/
theorem C13_npm_absent_key_witness :
    write exDoc [⟨"absent.pkg".toList, none, "1.0.0".toList, "2.0.0".toList⟩] = .err := by decide

/-- … so a successful `Write` has applied EVERY update of its list (no hypothesis on the updates): each was processed on some
intermediate document, where a section that held `key ↦ old value` now holds `key ↦ new value`. -/
theorem C13_npm_every_update_applied (d d' : Doc) (pre post : List Up) (u : Up)
    (h : write d (pre ++ u :: post) = .ok d') :
    ∃ d1 d2, write d pre = .ok d1 ∧ apply1 d1 u = .ok d2 ∧ write d2 post = .ok d' ∧ applied u d1 d2 := by
  obtain ⟨d1, d2, h1, h2, h3, _⟩ := C13_npm_no_silent_success d d' pre post u h
  exact ⟨d1, d2, h1, h2, h3, apply1_applied_always d1 d2 u h2⟩

/-! ### the file: bytes outside the edited values -/

/-- package.json, span level.  For a file whose sections have unique keys, a successful `Write` yields the SAME
sequence of spans: every span the writer does not address (all bytes between the values: punctuation, white
space, keys, other members) is in place and untouched; a value span of the three dependency sections whose entry
no update changes keeps ITS BYTES as found in the file (non-canonical escapes included); a span whose entry an
update changes holds the new value in the writer's rendering.  Hence the output bytes are the input bytes with
exactly the value spans of the changed entries replaced.
What this does and does not say (audit-2, finding 7): locating the value spans in the byte string is the scanner of
gjson/sjson, which is NOT modelled — there is no `tokenize : bytes → File` in Lean, so on the side of the bytes this
theorem composes the trusted contract "SetBytes on a literal key rewrites that member's value span only" with the
proved section logic (which entries change, to what); the harness compares the real output bytes with the re-rendered
file on every generated case. -/
theorem C13_npm_bytes_partial (quote : Str → Str) (f f' : File) (us : List Up) (hwf : WFdoc (docOf f))
    (h : writeFile quote f us = some f') :
    f' = f.map (mapSeg quote (substAll us)) ∧ bytes f' = bytes (f.map (mapSeg quote (substAll us))) := by
  have := writeFile_eq quote f f' us hwf h
  exact ⟨this, by rw [this]⟩

/-- … in particular, when no span is addressed (by key and old value) by any update the file is returned as it is -/
theorem C13_npm_bytes_untouched_partial (quote : Str → Str) (f f' : File) (us : List Up) (hwf : WFdoc (docOf f))
    (h : writeFile quote f us = some f')
    (hno : ∀ s k v b, Seg.val s k v b ∈ f → ∀ u ∈ us, ¬ (k = wkey u ∧ v = origVer u)) :
    f' = f ∧ bytes f' = bytes f := by
  have e := (C13_npm_bytes_partial quote f f' us hwf h).1
  have : f.map (mapSeg quote (substAll us)) = f := by
    apply map_unchanged
    intro s k v b hm
    have hn := hno s k v b hm
    clear h hwf hno hm e
    unfold substAll
    induction us with
    | nil => rfl
    | cons u us ih =>
      simp only [List.foldl]
      have : substEntry u (k, v) = (k, v) := by
        unfold substEntry
        have := hn u (by simp)
        simp [this]
      rw [this]
      exact ih (fun w hw => hn w (by simp [hw]))
  rw [e, this]
  exact ⟨rfl, rfl⟩

/-- With no updates the file written is the file read, span for span and byte for byte — for every file, no hypothesis. -/
theorem C13_npm_bytes_identity (quote : Str → Str) (f : File) : writeFile quote f [] = some f := by
  unfold writeFile
  simp only [write]
  have := putBack_map quote id f
  simp only [List.map_id] at this
  have hid : ∀ g : File, g.map (mapSeg quote id) = g := by
    intro g
    induction g with
    | nil => rfl
    | cons x g ih => cases x <;> simp [mapSeg, setSpan, ih]
  simp only [docOf]
  rw [this, hid]

/-- non-vacuity: two spans are rewritten, everything else (incl. the noise section and a non-canonically escaped value) stays -/
example : writeFile (fun v => '"' :: v ++ ['"'])
    [.raw "{\"devDependencies\": {\"socket.io\": ".toList, .val .dev "socket.io".toList "^1.0.0".toList "\"^1.0.0\"".toList,
     .raw "},\n \"peerDependencies\": {\"socket.io\": \"^1.0.0\"},\n \"dependencies\": {\"socket.io\": ".toList,
     .val .prod "socket.io".toList "^1.0.0".toList "\"\\u005e1.0.0\"".toList, .raw ", \"x\": ".toList, .val .prod "x".toList "~1".toList "\"\\u007e1\"".toList, .raw "}}".toList]
    [⟨"socket.io".toList, none, "^1.0.0".toList, "^2.0.0".toList⟩]
  = some [.raw "{\"devDependencies\": {\"socket.io\": ".toList, .val .dev "socket.io".toList "^2.0.0".toList "\"^2.0.0\"".toList,
     .raw "},\n \"peerDependencies\": {\"socket.io\": \"^1.0.0\"},\n \"dependencies\": {\"socket.io\": ".toList,
     .val .prod "socket.io".toList "^2.0.0".toList "\"^2.0.0\"".toList, .raw ", \"x\": ".toList, .val .prod "x".toList "~1".toList "\"\\u007e1\"".toList, .raw "}}".toList] := by decide

end Scalibr.Npm

namespace Scalibr.Pom

/-- Fix 3277e05b: `generatePropertyPatches` never slices out of range — for all strings, with or
without placeholders. -/
theorem C13_pom_props_total (s1 s2 : Str) : gen s1 s2 ≠ .panic := gen_total s1 s2

/-- … and the model's recursion bound (`s1.length + 1`) is adequate: `gen` never answers "out of fuel", so "no" is
always the Go function's `false`, not an artefact of the bound.  (Every Go slice expression of the function is the
checked `slice` of the model, so `.panic` is a reachable outcome of `aux` in principle — the three pre-3277e05b
shapes produced it — and the totality theorem is not true by construction.) -/
theorem C13_pom_props_fuel_adequate (s1 s2 : Str) : gen s1 s2 ≠ .fuel := gen_fuel s1 s2

/-- Soundness of the returned patch map, full strength (fix d4dd80ce): whenever `generatePropertyPatches`
answers with a map, interpolating the old requirement string with that map gives exactly the requested
version — for all strings, repeated placeholder names included — and no name was assigned two values. -/
theorem C13_pom_props_sound (s1 s2 : Str) (ps : List (Str × Str)) (h : gen s1 s2 = .ok ps) :
    interpolate (lookupLast ps) s1 = s2 ∧ Consistent ps :=
  ⟨gen_sound s1 s2 ps h, gen_consistent s1 s2 ps h⟩

/-- the former counterexample: `${v}-${v}` → `1-2` is now refused, `${v}-${v}` → `2-2` is answered `{v ↦ 2}` -/
theorem C13_pom_props_repeated_name_fixed :
    gen "${v}-${v}".toList "1-2".toList = .no ∧
    gen "${v}-${v}".toList "2-2".toList = .ok [("v".toList, "2".toList), ("v".toList, "2".toList)] := by
  decide

/-- the three shapes that used to panic now return "no" -/
theorem C13_pom_props_fixed_witnesses :
    gen "1.0.${rev}".toList "2".toList = .no ∧ gen "1.${x}.5".toList "1.5".toList = .no ∧
    gen "${a}-jre".toList "9".toList = .no := by decide

/-- the requirements of what `Write` produced (nothing is produced when it returns an error) -/
def reqsAfter (pom : Pom) (us : List Upd) : Option (List Req) := (write pom us).map requirements

/-- Abstract pom writer: with no updates it succeeds and nothing changes. -/
theorem C13_pom_identity (pom : Pom) : write pom [] = some pom := by
  unfold write buildPatches buildFrom applyPatches
  simp only [Option.map, newDeps, List.filter_nil, List.map_nil, List.append_nil]
  have h1 : pom.deps.map (applyDep ⟨[], []⟩) = pom.deps := by
    have : pom.deps.map (applyDep ⟨[], []⟩) = pom.deps.map id := by
      apply List.map_congr_left; intro d _; unfold applyDep; simp
    simpa using this
  have h2 : pom.props.map (applyProp ⟨[], []⟩) = pom.props := by
    have : pom.props.map (applyProp ⟨[], []⟩) = pom.props.map id := by
      apply List.map_congr_left; intro p _; simp [applyProp, propPatchLookup]
    simpa using this
  rw [h1, h2]

/-- the writer's error return: an update whose Name is not `groupId:artifactId` makes `Write` fail (no file is
written) — whatever else the update list holds before it -/
theorem C13_pom_invalid_name_error (pom : Pom) (u : Upd) (us : List Upd) (h : u.ga = none) :
    write pom (u :: us) = none := by
  simp [write, buildPatches, buildFrom, buildPatch1, h]

/-
Full-strength statement for the pom.xml writer at requirement level:
    write pom us = some pom' → requirements pom' = substitute (requirements pom) us
for every pom and every set of updates addressed to requirements present in it ("re-read = substitute", which
contains "never reports success without having applied an update").  It is FALSE for the unchanged code in the
situations of `C13_pom_class_witnesses` and `C13_pom_other_profile_witness` (known findings C13/pom-…).  In force:
`C13_pom_literal_roundtrip_partial` / `C13_pom_no_silent_success_partial` (any number of updates on the literal
fragment); property-based versions, parents and plugins are covered by the correspondence stream with this very
statement as its oracle (`Spec.WFcase` = no known class).
-/

/-- pom.xml round trip, literal fragment, ANY NUMBER of updates: all versions in the file are literals, dependency
keys are unique over the whole file, the updates address pairwise different keys, and each addresses an existing
entry (by key, origin and old version) under a well-formed name with a literal new version.  Then `Write`
succeeds, re-reading the written pom gives the original requirements with the versions substituted, exactly the
addressed entries changed, and no property was touched.  Any number of dependencies, sections, profiles. -/
theorem C13_pom_literal_roundtrip_partial (pom : Pom) (us : List Upd) (c : LiteralCases pom us) :
    ∃ pom', write pom us = some pom' ∧ requirements pom' = substitute (requirements pom) us ∧
      pom'.deps = pom.deps.map (updated us) ∧ pom'.props = pom.props := by
  refine ⟨_, write_literal pom us c, ?_⟩
  exact roundtrip_literal pom _ us c (write_literal pom us c)

/-- No silent success on the literal fragment: when `Write` succeeds, the entry every update addresses holds the
update's new version. -/
theorem C13_pom_no_silent_success_partial (pom pom' : Pom) (us : List Upd) (c : LiteralCases pom us)
    (h : write pom us = some pom') (u : Upd) (hu : u ∈ us) :
    ∃ d ∈ pom.deps, d.key = u.key ∧ { d with ver := u.to } ∈ pom'.deps := by
  obtain ⟨_, _, d, hm, hk, _, _, _⟩ := c.each u hu
  refine ⟨d, hm, hk, ?_⟩
  rw [(roundtrip_literal pom pom' us c h).2.1]
  have : updated us d = { d with ver := u.to } := by
    unfold updated
    cases hf : us.find? (fun w => w.key = d.key) with
    | none =>
      rw [List.find?_eq_none] at hf
      exact absurd (by simp [hk]) (hf u hu)
    | some w =>
      have hw := List.mem_of_find?_eq_some hf
      have hwk := List.find?_some hf
      simp only [decide_eq_true_eq] at hwk
      have : w = u := upd_key_unique us c.ukeys u w hu hw (by rw [hwk, hk])
      rw [this]
  rw [← this]
  exact List.mem_map_of_mem hm

/-- the two classes in which the unchanged pom.xml writer still leaves the property, on the model: two declarations of one key that
the update cannot tell apart (two profiles declaring x:y at the same version: the writer takes the first, the re-read requirements
are not the substituted ones), and a property shared with another dependency.  In both `Write` succeeds. -/
theorem C13_pom_class_witnesses :
    (let pom : Pom := ⟨[⟨"profile@p1".toList, ['x'], ['y'], [], [], "1.0".toList, false⟩, ⟨"profile@p2@management".toList, ['x'], ['y'], [], [], "1.0".toList, false⟩,
                        ⟨"profile@p3@management".toList, ['x'], ['y'], [], [], "1.0".toList, false⟩], [], "1.0".toList, []⟩
     let us : List Upd := [⟨"x:y".toList, [], [], sManagement, "1.0".toList, "2.5".toList⟩]
     (write pom us).isSome = true ∧ reqsAfter pom us ≠ some (substitute (requirements pom) us) ∧ feature pom us = some "C13/pom-origin-ignored") ∧
    (let pom : Pom := ⟨[⟨[], ['x'], ['y'], [], [], "${v}".toList, false⟩, ⟨[], ['x'], ['z'], [], [], "${v}".toList, false⟩], [⟨[], ['v'], "1.0".toList⟩], "1.0".toList, []⟩
     let us : List Upd := [⟨"x:y".toList, [], [], [], "1.0".toList, "1.5".toList⟩]
     (write pom us).isSome = true ∧ reqsAfter pom us ≠ some (substitute (requirements pom) us) ∧ feature pom us = some "C13/pom-shared-property") := by
  decide

/-- fix b0b162fc, on the model: the same key in `<dependencies>` (1.0) and in `<dependencyManagement>` (2.0).  An update of the
dependencyManagement requirement 2.0 → 2.5 rewrites THAT entry, an update of the dependency 1.0 → 1.5 the other one, and both re-read as
substituted; a new dependencyManagement requirement (no old version) for a key that only a profile's `<dependencies>` holds is added to
dependencyManagement instead of rewriting the profile's entry.  (Before: the first declaration with the key was rewritten in all three.) -/
theorem C13_pom_origin_fixed_witnesses :
    (let pom : Pom := ⟨[⟨[], ['x'], ['y'], [], [], "1.0".toList, false⟩, ⟨sManagement, ['x'], ['y'], [], [], "2.0".toList, false⟩], [], "1.0".toList, []⟩
     (let us : List Upd := [⟨"x:y".toList, [], [], sManagement, "2.0".toList, "2.5".toList⟩]
      reqsAfter pom us = some (substitute (requirements pom) us) ∧ feature pom us = none) ∧
     (let us : List Upd := [⟨"x:y".toList, [], [], [], "1.0".toList, "1.5".toList⟩]
      reqsAfter pom us = some (substitute (requirements pom) us) ∧ feature pom us = none)) ∧
    (let pom : Pom := ⟨[⟨[], ['g'], ['p'], [], [], "1.0".toList, false⟩, ⟨"profile@extra".toList, ['g'], ['t'], [], [], "1.0".toList, false⟩], [], "1.0".toList, []⟩
     let us : List Upd := [⟨"g:t".toList, [], [], sManagement, [], "2.0".toList⟩]
     write pom us = some { pom with deps := pom.deps ++ [⟨sManagement, ['g'], ['t'], sJar, [], "2.0".toList, false⟩] }) := by
  decide

/-- former finding C13/pom-property-other-profile, repaired by 95fbdd2e, on the model: a dependency in profile p1 with version
`${w}`, `w` defined only in profile p2.  No definition of `w` applies to the dependency, so the dependency itself is
rewritten (`${w}` → the new version) and the pom re-reads as substituted.  (Before: the by-name test passed, the patch was
recorded under property origin "" where nothing holds `w`, `Write` reported success and wrote the input back.) -/
theorem C13_pom_other_profile_witness :
    let pom : Pom := ⟨[⟨[], ['x'], ['m'], [], [], "1.0".toList, false⟩, ⟨"profile@p1".toList, ['x'], ['q'], [], [], "${w}".toList, false⟩],
                      [⟨"profile@p2".toList, ['w'], "1.0".toList⟩], "1.0".toList, []⟩
    let us : List Upd := [⟨"x:q".toList, [], [], [], "${w}".toList, "2.0".toList⟩]
    write pom us = some { pom with deps := [⟨[], ['x'], ['m'], [], [], "1.0".toList, false⟩, ⟨"profile@p1".toList, ['x'], ['q'], [], [], "2.0".toList, false⟩] } ∧
    reqsAfter pom us = some (substitute (requirements pom) us) ∧ otherProfileProp pom us = true ∧ feature pom us = none := by
  decide

/-- `VersionFrom` plays no part in the pom.xml writer — neither in the model nor in the Go code it mirrors (`buildPatches`,
`writeDependency` never look at it; package.json's writer refuses a mismatch).  An update whose old version is not the one
in the file is written all the same.  Such an update is not "addressed to a requirement present in the file", so it is
outside the property's quantifier; recorded as a witness and exercised by the stream (wrong-from updates). -/
theorem C13_pom_ignores_version_from_witness :
    let pom : Pom := ⟨[⟨[], ['x'], ['y'], [], [], "1.0".toList, false⟩], [], "1.0".toList, []⟩
    write pom [⟨"x:y".toList, [], [], [], "0.0.0-wrong".toList, "1.5".toList⟩] =
      some ⟨[⟨[], ['x'], ['y'], [], [], "1.5".toList, false⟩], [], "1.0".toList, []⟩ := by decide

/-- the three repaired classes, on the model: white space in a key element (5743d35a), `${project.version}`
(f5d17448), a repeated placeholder with different values (d4dd80ce) now read back as substituted. -/
theorem C13_pom_fixed_witnesses :
    (let pom : Pom := ⟨[⟨[], ['x'], ['y'], [], [], "1.0".toList, true⟩], [], "1.0".toList, []⟩
     let us : List Upd := [⟨"x:y".toList, [], [], [], "1.0".toList, "1.5".toList⟩]
     reqsAfter pom us = some (substitute (requirements pom) us)) ∧
    (let pom : Pom := ⟨[⟨[], ['x'], ['y'], [], [], "${project.version}".toList, false⟩], [], "1.0".toList, []⟩
     let us : List Upd := [⟨"x:y".toList, [], [], [], "1.0".toList, "1.5".toList⟩]
     reqsAfter pom us = some (substitute (requirements pom) us)) ∧
    (let pom : Pom := ⟨[⟨[], ['x'], ['z'], [], [], "${v}-${v}".toList, false⟩], [⟨[], ['v'], "1.0".toList⟩], "1.0".toList, []⟩
     let us : List Upd := [⟨"x:z".toList, [], [], [], "1.0-1.0".toList, "1.0-2.0".toList⟩]
     reqsAfter pom us = some (substitute (requirements pom) us)) := by
  decide

/-- fix e5fd6d2f, on the model: a dependency written `${project.groupId}:y` (or `${pom.groupId}:y`) in project `g:…` is the
requirement `g:y`; the update `g:y 1.0 → 1.5` finds it (`ResolvedKey`), rewrites that entry — the file keeps the
placeholder — and the pom re-reads as substituted.  (Before the fix the update was taken for a key the pom does not hold.) -/
theorem C13_pom_project_key_fixed_witness :
    (let pom : Pom := ⟨[⟨[], "${project.groupId}".toList, ['y'], [], [], "1.0".toList, false⟩], [], "1.0".toList, ['g']⟩
     let us : List Upd := [⟨"g:y".toList, [], [], [], "1.0".toList, "1.5".toList⟩]
     write pom us = some ⟨[⟨[], "${project.groupId}".toList, ['y'], [], [], "1.5".toList, false⟩], [], "1.0".toList, ['g']⟩ ∧
     reqsAfter pom us = some (substitute (requirements pom) us) ∧ feature pom us = none) ∧
    (let pom : Pom := ⟨[⟨sManagement, "${pom.groupId}".toList, ['y'], [], [], "${project.version}".toList, false⟩], [], "1.0".toList, ['g']⟩
     let us : List Upd := [⟨"g:y".toList, [], [], sManagement, "1.0".toList, "1.5".toList⟩]
     reqsAfter pom us = some (substitute (requirements pom) us) ∧ feature pom us = none) := by
  decide

/-- known finding C13/pom-key-property, on the model: the group id of a dependency is a property of the pom
(`<groupId>${grp}</groupId>`, `grp` = `g`).  `Read` reports the requirement `g:y 1.0`; the writer resolves only the project's
own coordinates in a key, takes the update `g:y 1.0 → 1.5` for a key the pom does not hold and adds a dependencyManagement
entry `g:y 1.5`, while the `<dependencies>` entry stays at 1.0: `Write` succeeds and the re-read requirements are not the
substituted ones. -/
theorem C13_pom_key_property_witness :
    let pom : Pom := ⟨[⟨[], "${grp}".toList, ['y'], [], [], "1.0".toList, false⟩], [⟨[], "grp".toList, ['g']⟩], "1.0".toList, "root".toList⟩
    let us : List Upd := [⟨"g:y".toList, [], [], [], "1.0".toList, "1.5".toList⟩]
    (write pom us).isSome = true ∧ reqsAfter pom us ≠ some (substitute (requirements pom) us) ∧
    reqsAfter pom us = some [⟨[], (['g'], ['y'], sJar, []), "1.0".toList⟩, ⟨sManagement, (['g'], ['y'], sJar, []), "1.5".toList⟩] ∧
    feature pom us = some "C13/pom-key-property" := by
  decide

/-- `LiteralCases` is satisfiable on a pom with a profile and dependencyManagement, with two updates. -/
example : LiteralCases
    ⟨[⟨[], ['x'], ['y'], [], [], "1.0".toList, false⟩, ⟨sManagement, ['x'], ['m'], [], [], "2.0".toList, false⟩,
      ⟨"profile@p1".toList, ['x'], ['q'], [], [], "3.0".toList, false⟩], [⟨[], ['v'], "9".toList⟩], "1.0".toList, []⟩
    [⟨"x:m".toList, [], [], sManagement, "2.0".toList, "2.5".toList⟩, ⟨"x:y".toList, [], [], [], "1.0".toList, "1.1".toList⟩] := by
  constructor
  · decide
  · decide
  · decide
  · decide
  · intro u hu
    simp only [List.mem_cons, List.mem_nil_iff, or_false] at hu
    rcases hu with rfl | rfl
    · exact ⟨by decide, by decide, ⟨sManagement, ['x'], ['m'], [], [], "2.0".toList, false⟩, by decide, by decide, by decide, by decide, by decide⟩
    · exact ⟨by decide, by decide, ⟨[], ['x'], ['y'], [], [], "1.0".toList, false⟩, by decide, by decide, by decide, by decide, by decide⟩

/-! Non-vacuity: prefix + placeholder + suffix, and two placeholders. -/
example : gen "1.${a}.${b}-jre".toList "1.22.333-jre".toList =
    .ok [("a".toList, "22".toList), ("b".toList, "333".toList)] := by decide
example : Consistent [("a".toList, "22".toList), ("b".toList, "333".toList)] := by decide
example : interpolate (lookupLast [("a".toList, "22".toList), ("b".toList, "333".toList)]) "1.${a}.${b}-jre".toList
    = "1.22.333-jre".toList := by decide

end Scalibr.Pom

namespace Scalibr.PomTok

/-
Full-strength statement at token level — "with no updates the output equals the input": the writer hands every
`<dependency>` / `<parent>` element to `writeString` with `version ↦ (the element's own version text)`, so it
would need `write values ts = ts` for every token list.  FALSE for the unchanged code when the
`<version>` element holds anything besides that text (a comment): `C13_pom_tokens_comment_witness`
(known finding C13/pom-version-comment).  In force: the `_partial` form.
-/

/-- `writeString` is the identity on every element in which each addressed child already holds exactly
its value (`<version>1.0</version>`, or an empty element for the empty value) — whatever else the element
contains: comments, nested elements, attributes, other children, in any number.
Scope (audit): this is ONE `writeString` call with an arbitrary `values` map — what the writer does to one
`<dependency>` / `<parent>` / `<properties>` element; the dispatch that finds those elements in a file
(`write` / `writeProject` / `writeDependency`) is not modelled, so there is no file-level token theorem. -/
theorem C13_pom_tokens_identity_partial (values : Str → Option Str) (ts : List Tok)
    (hs : simple values ts = true) : write values ts = ts := write_simple values ts hs

/-- adequacy of `write`'s loop bound: more fuel changes nothing -/
theorem C13_pom_tokens_fuel_adequate (values : Str → Option Str) (ts : List Tok) (f : Nat) (hf : ts.length < f) :
    writeString values f ts = write values ts := writeString_fuel values f _ ts hf (by omega)

/-- `<dependency><version><!--c-->1.0</version></dependency>` rewritten with its own version: the comment is lost. -/
theorem C13_pom_tokens_comment_witness :
    let vals : Str → Option Str := fun n => if n = "version".toList then some "1.0".toList else none
    let ts := [Tok.start "dependency".toList [], .start "version".toList [], .comment ['c'], .text "1.0".toList,
               .stop "version".toList, .stop "dependency".toList]
    write vals ts = [Tok.start "dependency".toList [], .start "version".toList [], .text "1.0".toList,
               .stop "version".toList, .stop "dependency".toList] ∧ write vals ts ≠ ts := by
  decide

/-! Non-vacuity: a dependency with a comment beside (not inside) the version, an attribute and an exclusion. -/
example : simple (fun n => if n = "version".toList then some "1.0".toList else none)
    [.start "dependency".toList [], .comment ['x'], .start "groupId".toList [], .text ['g'], .stop "groupId".toList,
     .start "version".toList "a=b".toList, .text "1.0".toList, .stop "version".toList,
     .start "exclusions".toList [], .stop "exclusions".toList, .stop "dependency".toList] = true := by decide

end Scalibr.PomTok
