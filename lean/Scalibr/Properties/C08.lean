/-
C08 — Scan results depend only on content, not on enumeration order or root count.
-/
import Scalibr.Proofs.WalkTop
import Scalibr.Proofs.WalkMore
import Scalibr.Proofs.WalkPerm
namespace Scalibr.Walk

/-- `slices.SortFunc`'s precondition for `CmpPackages`: the four-key lexicographic comparison on byte
strings is a strict total order (so also: keys that compare equal are equal). -/
theorem C08_cmp_order : StrictTotal keyLt := keyLt_strictTotal

/-- Packages, and plugin statuses, are emitted in the documented sorted order — always. -/
theorem C08_sorted (nm : Naming) (c : Cfg) (roots : List (Node × Faults)) :
    ((scan nm c roots).pkgs.map nm.key).Pairwise (fun a b => keyLt b a = false) ∧
    ((scan nm c roots).statuses.map fun x => nm.extName x.1).Pairwise (fun a b => ltBytes b a = false) := by
  simp only [scan]
  split
  · simp
  · constructor
    · have := isort_map keyLt nm.key (run c roots).pkgs
      show ((isort (pkgLt nm) (run c roots).pkgs).map nm.key).Pairwise _
      unfold pkgLt
      rw [this]
      exact keyLt_strictTotal.isort_sorted _
    · have := isort_map ltBytes (fun x : Nat × Status => nm.extName x.1) (run c roots).statuses
      show ((isort (statusLt nm) (run c roots).statuses).map _).Pairwise _
      unfold statusLt
      rw [this]
      exact ltBytes_strictTotal.isort_sorted _

/-- The listing order of EVERY directory is irrelevant to what must be extracted (as a multiset), for
arbitrary rearrangements `ρ` of every directory of the tree. -/
theorem C08_perm_spec (c : Cfg) (f : Faults) (hf : NoReadFaults f) (above : List GiEntry)
    (ρ : Rearr) (hρ : ∀ p l, (ρ p l).Perm l) (p : Path) (n : Node) :
    (mustFrom c f above p (permuteTree ρ p n)).Perm (mustFrom c f above p n) :=
  mustFrom_permute c f hf above ρ hρ p n

/-- Whole scans of a tree and of any rearrangement of it (whole-tree scan, benign configuration):
the packages are a permutation of each other, and the emitted, sorted key sequence is IDENTICAL. -/
theorem C08_perm_scan (nm : Naming) (c : Cfg) (hb : Benign c) (hp : c.paths = []) (f : Faults) (hf : NoReadFaults f)
    (root : Node) (ρ : Rearr) (hρ : ∀ p l, (ρ p l).Perm l)
    (ho : GiOK c) :
    (run c [(permuteTree ρ [] root, f)]).pkgs.Perm (run c [(root, f)]).pkgs ∧
    (scan nm c [(permuteTree ρ [] root, f)]).pkgs.map nm.key = (scan nm c [(root, f)]).pkgs.map nm.key := by
  have h1 := run_results c hb [(root, f)] ho
  have h2 := run_results c hb [(permuteTree ρ [] root, f)] ho
  have e1 := run_spec c hb [(root, f)] ho
  have e2 := run_spec c hb [(permuteTree ρ [] root, f)] ho
  have hperm : (mustExtract c [(permuteTree ρ [] root, f)]).Perm (mustExtract c [(root, f)]) := by
    simp only [mustExtract, List.flatMap_cons, List.flatMap_nil, List.append_nil, mustRoot, hp, List.isEmpty_nil, if_true]
    split
    · exact List.Perm.refl _
    · exact mustFrom_permute c f hf [] ρ hρ [] root
  have hpk : (run c [(permuteTree ρ [] root, f)]).pkgs.Perm (run c [(root, f)]).pkgs := by
    rw [h1.1, h2.1]
    exact List.Perm.flatMap_right _ hperm
  refine ⟨hpk, ?_⟩
  simp only [scan, e1.1, e2.1, ne_eq, not_true_eq_false, if_false]
  unfold pkgLt
  rw [isort_map keyLt nm.key, isort_map keyLt nm.key]
  exact keyLt_strictTotal.isort_perm_eq _ _ (hpk.map nm.key)

/-- Scanning several roots yields exactly the concatenation of scanning each root alone (inventory and
statuses), so no package is reported twice. (Before fix 88fdbb3a every earlier root's packages were
reported again for each later root.) -/
theorem C08_roots (c : Cfg) (hb : Benign c) (roots : List (Node × Faults)) (ho : GiOK c) :
    (run c roots).pkgs = roots.flatMap (fun rf => (run c [rf]).pkgs) ∧
    (run c roots).statuses = roots.flatMap (fun rf => (run c [rf]).statuses) := by
  have h := run_results c hb roots ho
  have h1 : ∀ rf ∈ roots, (run c [rf]).pkgs = pkgsOfCalls c (mustRoot c rf.2 rf.1) ∧
      (run c [rf]).statuses = (List.range c.nExt).map fun e => (e, statusSpec c rf.2 rf.1 e) := by
    intro rf hrf
    have := run_results c hb [rf] ho
    obtain ⟨r, f⟩ := rf
    simpa [mustExtract] using this
  constructor
  · rw [h.1]
    rw [flatMap_congr' (fun rf hrf => (h1 rf hrf).1)]
    simp only [mustExtract, pkgsOfCalls, List.flatMap_assoc]
  · rw [h.2]
    exact (flatMap_congr' (fun rf hrf => (h1 rf hrf).2)).symm

/-! Non-vacuity: reversing every listing is a rearrangement. -/
example : ∀ (p : Path) (l : List (String × Node)), ((fun _ l => l.reverse : Rearr) p l).Perm l :=
  fun _ l => List.reverse_perm l
example : NoReadFaults {} := fun _ _ => rfl

end Scalibr.Walk
