/-
C08 — Scan results depend only on content, not on enumeration order or root count.

NAMING: `_benign` = holds inside the configuration class Benign (named in the theorem); `_partial` = a further hypothesis narrows the
quantifier over inputs.  CONFIGURATION CLASS of the exact theorems here: `Benign c` (no inode limit, no cancellation, `ErrorOnFSErrors`
off, extractors do not panic) with `GiOK c` (go-git's domain rule).  In the other classes a scan may stop early,
and WHERE it stops depends on the listing order (the inode limit and a cancellation point are reached after a
different prefix), so order independence is not claimed there; only `C08_cmp_order` / `C08_sorted` (every
configuration) apply.  Narrowing hypotheses are listed in each docstring and carry the `_partial` suffix:
`NoReadFaults` (a failing k-th directory read is itself position dependent — decided counterexample
`C08_perm_needs_noReadFaults`), and for requested paths `DistinctNames` (a path is resolved to the FIRST entry of
that name — decided counterexample `C08_perm_paths_needs_distinct`).
-/
import Scalibr.Proofs.WalkTop
import Scalibr.Proofs.WalkMore
import Scalibr.Proofs.WalkPerm
import Scalibr.Proofs.WalkPermScan
import Scalibr.Proofs.WalkOnce
import Scalibr.Proofs.WalkPermFinds
namespace Scalibr.Walk

/-- `slices.SortFunc`'s precondition for `CmpPackages`: the four-key lexicographic comparison on byte
strings is a strict total order (so also: keys that compare equal are equal). -/
theorem C08_cmp_order : StrictTotal keyLt := keyLt_strictTotal

/-- Packages, and plugin statuses, are emitted in the documented sorted order — always.  (The model's `scan`
is DEFINED as the stable insertion sort of the results, so this restates that `isort` sorts; the property-relevant
content is `C08_cmp_order` — the comparator is a strict total order on keys, which is what makes the sorted key
sequence unique — together with the driver tie of `scan` to the implementation's output order.) -/
theorem C08_sorted (nm : Naming) (c : Cfg) (roots : List (Node × Faults)) :
    ((scan nm c roots).pkgs.map nm.key).Pairwise (fun a b => keyLt b a = false) ∧
    ((scan nm c roots).statuses.map fun x => nm.extName x.1).Pairwise (fun a b => ltBytes b a = false) := by
  simp only [scan]
  split
  · simp
  · constructor
    · have := isort_map keyLt nm.key (run c roots).pkgs
      show ((isort (pkgLt nm) (run c roots).pkgs).map nm.key).Pairwise _
      unfold pkgLt
      rw [this]
      exact keyLt_strictTotal.isort_sorted _
    · have := isort_map ltBytes (fun x : Nat × Status => nm.extName x.1) (run c roots).statuses
      show ((isort (statusLt nm) (run c roots).statuses).map _).Pairwise _
      unfold statusLt
      rw [this]
      exact ltBytes_strictTotal.isort_sorted _

/-- The listing order of EVERY directory is irrelevant to what must be extracted (as a multiset), for
arbitrary rearrangements `ρ` of every directory of the tree. -/
theorem C08_perm_spec_partial (c : Cfg) (f : Faults) (hf : NoReadFaults f) (above : List GiEntry)
    (ρ : Rearr) (hρ : ∀ p l, (ρ p l).Perm l) (p : Path) (n : Node) :
    (mustFrom c f above p (permuteTree ρ p n)).Perm (mustFrom c f above p n) :=
  mustFrom_permute c f hf above ρ hρ p n

/-- Whole scans of a tree and of any rearrangement of it — the ONE-ROOT, whole-tree, packages-only special case
kept for reference; the general statements are `C08_perm_scan_roots_partial` (several roots, each rearranged
independently; also `err` and statuses) and `C08_perm_scan_paths_partial` (requested paths) below.
The packages are a permutation of each other, and the emitted, sorted key sequence is IDENTICAL. -/
theorem C08_perm_scan_partial (nm : Naming) (c : Cfg) (hb : Benign c) (hp : c.paths = []) (f : Faults) (hf : NoReadFaults f)
    (root : Node) (ρ : Rearr) (hρ : ∀ p l, (ρ p l).Perm l)
    (ho : GiOK c) :
    (run c [(permuteTree ρ [] root, f)]).pkgs.Perm (run c [(root, f)]).pkgs ∧
    (scan nm c [(permuteTree ρ [] root, f)]).pkgs.map nm.key = (scan nm c [(root, f)]).pkgs.map nm.key := by
  have h1 := run_results c hb [(root, f)] ho
  have h2 := run_results c hb [(permuteTree ρ [] root, f)] ho
  have e1 := run_spec c hb [(root, f)] ho
  have e2 := run_spec c hb [(permuteTree ρ [] root, f)] ho
  have hperm : (mustExtract c [(permuteTree ρ [] root, f)]).Perm (mustExtract c [(root, f)]) := by
    simp only [mustExtract, List.flatMap_cons, List.flatMap_nil, List.append_nil, mustRoot, hp, List.isEmpty_nil, if_true]
    split
    · exact List.Perm.refl _
    · exact mustFrom_permute c f hf [] ρ hρ [] root
  have hpk : (run c [(permuteTree ρ [] root, f)]).pkgs.Perm (run c [(root, f)]).pkgs := by
    rw [h1.1, h2.1]
    exact List.Perm.flatMap_right _ hperm
  refine ⟨hpk, ?_⟩
  simp only [scan, e1.1, e2.1, ne_eq, not_true_eq_false, if_false]
  unfold pkgLt
  rw [isort_map keyLt nm.key, isort_map keyLt nm.key]
  exact keyLt_strictTotal.isort_perm_eq _ _ (hpk.map nm.key)

/-- **Order independence, several roots** (class `Benign`; narrowing: whole-tree scan `paths = []`, `NoReadFaults`).
`Rearranged roots' roots`: same number of roots, root by root the same fault plan and a tree that is SOME
rearrangement (an arbitrary permutation of EVERY directory listing, chosen independently per root) of the
other.  Then: both scans succeed; the inventories are permutations of each other; the per-root status lists are
EQUAL; the emitted, sorted package-key sequence and the emitted status list of `scan` are EQUAL; and the FINDINGS
collected from the filesystem extractors (`run … .finds`: finding id, extractor, file) are permutations of each
other — which is the hypothesis `C08_findings_order_independent` (Properties/C08Findings.lean) needs to conclude that
the emitted, sorted findings agree. -/
theorem C08_perm_scan_roots_partial (nm : Naming) (c : Cfg) (hb : Benign c) (ho : GiOK c) (hp : c.paths = [])
    (roots' roots : List (Node × Faults)) (h : Rearranged roots' roots) :
    ((run c roots').err = .none ∧ (run c roots).err = .none) ∧
    (run c roots').pkgs.Perm (run c roots).pkgs ∧
    (run c roots').statuses = (run c roots).statuses ∧
    (scan nm c roots').pkgs.map nm.key = (scan nm c roots).pkgs.map nm.key ∧
    (scan nm c roots').statuses = (scan nm c roots).statuses ∧
    (run c roots').finds.Perm (run c roots).finds :=
  ⟨(perm_scan_roots_rel nm c hb ho hp roots' roots h).1, (perm_scan_roots_rel nm c hb ho hp roots' roots h).2.1,
   (perm_scan_roots_rel nm c hb ho hp roots' roots h).2.2.1, (perm_scan_roots_rel nm c hb ho hp roots' roots h).2.2.2.1,
   (perm_scan_roots_rel nm c hb ho hp roots' roots h).2.2.2.2, perm_scan_roots_finds c hb ho hp roots' roots h⟩

/-- **Order independence with requested paths** (`c.paths` arbitrary, the same set on both sides; class `Benign`;
narrowing: `NoReadFaults` and `DistinctNames` for every tree — a requested path is resolved to the first entry
of that name, so rearranging a listing with duplicate names changes which node is requested).  Same conclusions. -/
theorem C08_perm_scan_paths_partial (nm : Naming) (c : Cfg) (hb : Benign c) (ho : GiOK c)
    (roots' roots : List (Node × Faults)) (h : RearrangedDistinct roots' roots) :
    ((run c roots').err = .none ∧ (run c roots).err = .none) ∧
    (run c roots').pkgs.Perm (run c roots).pkgs ∧
    (run c roots').statuses = (run c roots).statuses ∧
    (scan nm c roots').pkgs.map nm.key = (scan nm c roots).pkgs.map nm.key ∧
    (scan nm c roots').statuses = (scan nm c roots).statuses ∧
    (run c roots').finds.Perm (run c roots).finds :=
  ⟨(perm_scan_paths_rel nm c hb ho roots' roots h).1, (perm_scan_paths_rel nm c hb ho roots' roots h).2.1,
   (perm_scan_paths_rel nm c hb ho roots' roots h).2.2.1, (perm_scan_paths_rel nm c hb ho roots' roots h).2.2.2.1,
   (perm_scan_paths_rel nm c hb ho roots' roots h).2.2.2.2, perm_scan_paths_finds c hb ho roots' roots h⟩

/-- The findings of a scan are a function of its attempts (EVERY configuration without a panicking extractor): when the
scan does not fail they are exactly what the `Extract` invocations returned, attributed to extractor and file, in
attempt order; a failing scan reports none.  (Counterpart of `C01_inv` for findings.) -/
theorem C08_finds_of_calls (c : Cfg) (hx : ∀ e p, (c.extract e p).panics = false) (roots : List (Node × Faults)) :
    (run c roots).finds = if (run c roots).err = .none then findsOfCalls c (run c roots).calls else [] :=
  run_finds c hx roots

/-- both narrowing hypotheses are needed (decided on concrete scans) -/
theorem C08_perm_needs_noReadFaults :
    ¬ (run pxCfg [(permuteTree pxRev [] pxT2, pxFault)]).pkgs.Perm (run pxCfg [(pxT2, pxFault)]).pkgs :=
  perm_scan_needs_noReadFaults
theorem C08_perm_paths_needs_distinct :
    ¬ (run pxCfgA [(permuteTree pxRev [] pxDup, {})]).pkgs.Perm (run pxCfgA [(pxDup, {})]).pkgs :=
  perm_scan_paths_needs_distinct

/-- Scanning several roots yields exactly the concatenation of scanning each root alone (inventory and
statuses) — of the engine result `run`; the emitted `scan` is its stable sort — so a later root never repeats an
earlier root's packages. (Before fix 88fdbb3a every earlier root's packages were reported again for each later
root.)  "No package is reported twice" as such is `C08_no_dup_partial` below. -/
theorem C08_roots_benign (c : Cfg) (hb : Benign c) (roots : List (Node × Faults)) (ho : GiOK c) :
    (run c roots).pkgs = roots.flatMap (fun rf => (run c [rf]).pkgs) ∧
    (run c roots).statuses = roots.flatMap (fun rf => (run c [rf]).statuses) := by
  have h := run_results c hb roots ho
  have h1 : ∀ rf ∈ roots, (run c [rf]).pkgs = pkgsOfCalls c (mustRoot c rf.2 rf.1) ∧
      (run c [rf]).statuses = (List.range c.nExt).map fun e => (e, statusSpec c rf.2 rf.1 e) := by
    intro rf hrf
    have := run_results c hb [rf] ho
    obtain ⟨r, f⟩ := rf
    simpa [mustExtract] using this
  constructor
  · rw [h.1]
    rw [flatMap_congr' (fun rf hrf => (h1 rf hrf).1)]
    simp only [mustExtract, pkgsOfCalls, List.flatMap_assoc]
  · rw [h.2]
    exact (flatMap_congr' (fun rf hrf => (h1 rf hrf).2)).symm

/-! Non-vacuity: reversing every listing is a rearrangement. -/
example : ∀ (p : Path) (l : List (String × Node)), ((fun _ l => l.reverse : Rearr) p l).Perm l :=
  fun _ l => List.reverse_perm l
example : NoReadFaults {} := fun _ _ => rfl

/-- **No package is reported twice unless two `Extract` results contain it** (class `Benign`; narrowing: one
root, whole-tree scan, `DistinctNames`): if no single `Extract` result lists a package twice, the inventory —
whose entries are (package, extractor, file) — lists none twice.  With several roots (or a path requested twice)
the same relative path is extracted once per root and its packages appear once per root: that is "two `Extract`
results contain it", and `C08_roots_benign` says exactly which. -/
theorem C08_no_dup_partial (c : Cfg) (hb : Benign c) (ho : GiOK c) (hp : c.paths = []) (root : Node) (f : Faults)
    (h : DistinctNames root) (hx : ∀ e p, (c.extract e p).pkgs.Nodup) : (run c [(root, f)]).pkgs.Nodup :=
  run_pkgs_nodup c hb ho hp root f h hx

/-- … and in general (any log of attempts): no (extractor, file) pair invoked twice + no `Extract` result listing
a package twice ⇒ no package listed twice. -/
theorem C08_no_dup_calls (c : Cfg) (hx : ∀ e p, (c.extract e p).pkgs.Nodup) (cs : List Call)
    (h : ((cs.filter (·.opened)).map callKey).Nodup) : (pkgsOfCalls c cs).Nodup :=
  pkgsOfCalls_nodup c hx cs h

/-! Non-vacuity of the several-roots theorems: the two-root forest `pxForest` of Proofs/WalkPermScan.lean (first root:
every listing reversed; second root: only the top listing reversed; gitignore handling on, two extractors). -/
example : Rearranged pxForest.rearranged pxForest.orig :=
  .cons pxRev pxRev_perm (fun _ _ => rfl) (.cons pxTop pxTop_perm (fun _ _ => rfl) .nil)
example : RearrangedDistinct pxForest.rearranged pxForest.orig :=
  .cons pxRev pxRev_perm (fun _ _ => rfl) (by simp [pxT1, DistinctNames, DistinctNamesL])
    (.cons pxTop pxTop_perm (fun _ _ => rfl) (by simp [pxT2, DistinctNames, DistinctNamesL]) .nil)
/-- `C08_roots_benign` on two roots: the inventory of the two-root scan is the first root's followed by the second root's -/
example : (run pxCfg pxForest.orig).pkgs = (run pxCfg [(pxT1, {})]).pkgs ++ (run pxCfg [(pxT2, {})]).pkgs := by
  have := (C08_roots_benign pxCfg pxCfg_benign pxForest.orig pxCfg_giOK).1
  simpa [RForest.orig, pxForest] using this

/-! findings: every `Extract` of the example configuration additionally returns finding 7; the collected findings of the
rearranged forest are a DIFFERENT list but the same multiset (specification side, by evaluation), and the theorem applies -/
def pxCfgF : Cfg := { pxCfg with extract := fun e p => { pxCfg.extract e p with finds := [7] } }
example : findsOfCalls pxCfgF (mustExtract pxCfgF pxForest.rearranged) ≠ findsOfCalls pxCfgF (mustExtract pxCfgF pxForest.orig) ∧
    (findsOfCalls pxCfgF (mustExtract pxCfgF pxForest.rearranged)).Perm (findsOfCalls pxCfgF (mustExtract pxCfgF pxForest.orig)) ∧
    (findsOfCalls pxCfgF (mustExtract pxCfgF pxForest.orig)).length = 7 := by decide
example (nm : Naming) : (run pxCfgF pxForest.rearranged).finds.Perm (run pxCfgF pxForest.orig).finds :=
  (C08_perm_scan_roots_partial nm pxCfgF ⟨rfl, rfl, rfl, rfl, fun _ _ => rfl⟩ (fun _ _ _ _ _ => rfl) rfl _ _
    (.cons pxRev pxRev_perm (fun _ _ => rfl) (.cons pxTop pxTop_perm (fun _ _ => rfl) .nil))).2.2.2.2.2

end Scalibr.Walk
