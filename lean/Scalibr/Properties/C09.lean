/-
C09 — Filesystem faults are contained, surfaced, and fatal only on request.
Fault plans are arbitrary predicates on operation sites (stat of a walk root / requested path, open of a
directory, the k-th directory read, open of a file or `.gitignore`, stat of an opened file, the lazy
size stat): every theorem quantifies over ALL plans, i.e. any number of simultaneous faults.
-/
import Scalibr.Proofs.WalkTop
import Scalibr.Proofs.WalkMore
import Scalibr.Proofs.WalkFatal
namespace Scalibr.Walk

/-- The engine never panics: whatever the trees, fault plans, limits, options and cancellation point,
a scan panics only if an extractor's `Extract` does. (False before fix 7a773e8c with `UseGitignore`.) -/
theorem C09_no_panic (c : Cfg) (hx : NoExtractorPanic c) (roots : List (Node × Faults)) :
    (run c roots).err ≠ .panic :=
  run_nopanic c hx roots

/-- With errors not fatal (and no limit / cancellation), NO set of filesystem faults fails the scan.
(False before fixes b4e342f8 and 481727ce: a failing lazy size stat, resp. an unreadable parent
`.gitignore`, failed the whole scan.) -/
theorem C09_nonfatal (c : Cfg) (hb : Benign c) (roots : List (Node × Faults)) (ho : GiOK c) :
    (run c roots).err = .none :=
  (run_spec c hb roots ho).1

/-- Containment: under any fault plan (without unreadable `.gitignore` files) the attempts made are those
of the fault-free scan, minus the files below a directory that cannot be opened, at or after a failing
directory read, or whose size cannot be determined; for every other file the attempt is made exactly as
without faults — only its `opened` flag records whether the file itself could be opened and stat'ed. -/
theorem C09_contained (c : Cfg) (f : Faults) (hg : NoGiFaults f) (above : List GiEntry) (p : Path) (n : Node) :
    mustFrom c f above p n =
      (allFiles p [] n).flatMap fun r =>
        if faultHits c f r then []
        else (mustOne c noFaults above r).map fun cl => { cl with opened := readable f r } := by
  unfold mustFrom
  exact flatMap_congr' (fun r _ => mustOne_contained c f hg above r)

/-- Surfacing: in a benign scan the status of extractor `e` for a root is `failed` or `partial` exactly
when one of its attempts there could not open / stat its file or its `Extract` returned an error, and it
is `partial` exactly when, in addition, one of its invocations returned inventory. -/
theorem C09_surfaced (c : Cfg) (hb : Benign c) (roots : List (Node × Faults)) (ho : GiOK c) :
    (run c roots).statuses = roots.flatMap fun (r, f) => (List.range c.nExt).map fun e => (e, statusSpec c f r e) :=
  (run_results c hb roots ho).2

theorem C09_status_meaning (c : Cfg) (f : Faults) (root : Node) (e : Nat) :
    (statusSpec c f root e ≠ .ok ↔
      ∃ cl ∈ mustRoot c f root, cl.ext = e ∧ (cl.opened = false ∨ (c.extract cl.ext cl.path).err = true)) ∧
    (statusSpec c f root e = .part ↔
      (∃ cl ∈ mustRoot c f root, cl.ext = e ∧ (cl.opened = false ∨ (c.extract cl.ext cl.path).err = true)) ∧
      ∃ cl ∈ mustRoot c f root, cl.ext = e ∧ cl.opened = true ∧
        ((c.extract cl.ext cl.path).pkgs ≠ [] ∨ (c.extract cl.ext cl.path).other = true)) := by
  have herr : (errsOfCalls c (mustRoot c f root)).contains e = true ↔
      ∃ cl ∈ mustRoot c f root, cl.ext = e ∧ (cl.opened = false ∨ (c.extract cl.ext cl.path).err = true) := by
    simp only [List.contains_iff_mem, errsOfCalls, List.mem_flatMap]
    constructor
    · rintro ⟨cl, hcl, h⟩
      split at h
      · rename_i hc
        simp at h; subst h
        refine ⟨cl, hcl, rfl, ?_⟩
        simpa using hc
      · simp at h
    · rintro ⟨cl, hcl, rfl, h⟩
      refine ⟨cl, hcl, ?_⟩
      have : (!cl.opened || (c.extract cl.ext cl.path).err) = true := by simpa using h
      simp [this]
  have hfound : (foundOfCalls c (mustRoot c f root)).contains e = true ↔
      ∃ cl ∈ mustRoot c f root, cl.ext = e ∧ cl.opened = true ∧
        ((c.extract cl.ext cl.path).pkgs ≠ [] ∨ (c.extract cl.ext cl.path).other = true) := by
    simp only [List.contains_iff_mem, foundOfCalls, List.mem_flatMap]
    constructor
    · rintro ⟨cl, hcl, h⟩
      split at h
      · rename_i hc
        simp at h; subst h
        refine ⟨cl, hcl, rfl, ?_⟩
        simpa using hc
      · simp at h
    · rintro ⟨cl, hcl, rfl, h1, h2⟩
      refine ⟨cl, hcl, ?_⟩
      rcases h2 with h2 | h2 <;> simp [h1, h2]
  unfold statusSpec
  simp only []
  constructor
  · rw [← herr]
    cases (errsOfCalls c (mustRoot c f root)).contains e <;> cases (foundOfCalls c (mustRoot c f root)).contains e <;> simp
  · rw [← herr, ← hfound]
    cases (errsOfCalls c (mustRoot c f root)).contains e <;> cases (foundOfCalls c (mustRoot c f root)).contains e <;> simp

/-- Fatal on request: with `ErrorOnFSErrors` (no inode limit, cancellation or extractor panic) the scan
fails with a filesystem error EXACTLY when the walk is told about a filesystem failure — a directory that
cannot be opened or whose listing fails, an unreadable `.gitignore` of a directory it enters, the failing
size stat of a required file, a start path that cannot be stat'ed or does not exist (`traversalFaultScan`,
defined on the trees and fault plans alone). For all forests, fault plans and option combinations. -/
theorem C09_fatal (c : Cfg) (hb : FatalCfg c) (ho : GiOK c) (roots : List (Node × Faults)) :
    (run c roots).err = (if traversalFaultScan c roots then .fs else .none) :=
  run_fatal c hb ho roots

/-- … and step-wise: every failure `handleFile` is told about is returned when errors are fatal (unless the
inode limit or a cancelled context pre-empts it with their own error). -/
theorem C09_fatal_step (c : Cfg) (he : c.errorOnFSErrors = true) (s : St) :
    (fserrCall c s).2 ≠ .none := by
  have hp : (prologue c s).2 = none ∨ (prologue c s).2 = some .maxInodes ∨ (prologue c s).2 = some .ctx := by
    unfold prologue; simp only []; split <;> (try split) <;> simp
  unfold fserrCall
  generalize prologue c s = r at hp ⊢
  obtain ⟨s1, e1⟩ := r
  simp only [] at hp
  rcases hp with h | h | h <;> subst h <;> simp [he]

/-! Non-vacuity -/
example : FatalCfg { nExt := 1, required := fun _ _ => true, extract := fun _ _ => {}, errorOnFSErrors := true, giMatch := fun _ _ _ _ => false } :=
  ⟨rfl, rfl, rfl, rfl, fun _ _ => rfl⟩
example : traversalFaultScan { nExt := 1, required := fun _ _ => true, extract := fun _ _ => {}, errorOnFSErrors := true, giMatch := fun _ _ _ _ => false }
    [(.dir none [("a", .dir none [("x", .file .reg 1)])], { readEntryFail := fun p k => p = ["a"] && k = 1 })] = true := by decide
example : NoGiFaults { openFail := fun p => p = ["a"] } := by
  intro p
  have : p ++ [".gitignore"] ≠ ["a"] := by
    intro h
    have := congrArg List.getLast? h
    simp at this
  simp [this]
example : faultHits { nExt := 1, required := fun _ _ => true, extract := fun _ _ => {}, giMatch := fun _ _ _ _ => false }
    { openFail := fun p => p = ["a"] } ⟨["a", "x"], .reg, 1, [⟨[], none, 0⟩, ⟨["a"], none, 0⟩]⟩ = true := by decide

end Scalibr.Walk
