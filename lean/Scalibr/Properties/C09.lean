/-
C09 — Filesystem faults are contained, surfaced, and fatal only on request.
Fault plans are arbitrary predicates on operation sites (stat of a walk root / requested path, open of a
directory, the k-th directory read, open of a file or `.gitignore`, stat of an opened file, the lazy
size stat): every theorem quantifies over ALL plans, i.e. any number of simultaneous faults.

NAMING AND CONFIGURATION CLASSES.  A theorem that holds only inside a class of configurations carries the class in its NAME
(`_benign`, `_fatalcfg`, `_limitcfg`, `_cancelcfg`): that is a restriction of the property's quantifier over configurations,
not a relabelling; `_partial` marks a hypothesis that narrows the quantifier over inputs (DistinctNames, one root, `paths = []`,
NoGiFaults, NoReadFaults).  Names without suffix hold for EVERY configuration (at most `NoExtractorPanic` / the matcher's domain law).
  * `Benign c` (no inode limit, no cancellation, `ErrorOnFSErrors` off, no panicking extractor): EXACT theorems
    `C09_nonfatal_benign`, `C09_contained_run_partial`, `C09_gitignore_unreadable_run_partial`, `C09_surfaced_benign`.
  * `FatalCfg c` (`ErrorOnFSErrors` on; no inode limit, no cancellation, no panicking extractor): EXACT theorems
    `C09_fatal_fatalcfg` / `C09_fatal_declarative_fatalcfg` (fails iff a traversal fault is met) and `C09_fatal_clean_fatalcfg` (no traversal
    fault ⇒ the benign scan: success, attempts, inventory, statuses).
  * EVERY configuration (limits, cancellation, panicking extractors, all combinations): `C09_no_panic`,
    `C09_fatal_step`, and `C09_eofs_only_by_failing` (the flag acts only by making the scan fail) — the latter
    reduces limit+fatal and cancellation+fatal configurations that do not fail to their non-fatal twins, which
    C10's `run_trace` describes exactly when no extractor panics.  Configurations with a panicking extractor have
    only `C09_no_panic`-style statements (and C02's).
Narrowing hypotheses (`NoGiFaults`, `paths = []`) are named in the docstrings and carry `_partial`.

FAULT SITES of the model: stat of a walk root / requested path, open of a directory, the k-th `ReadDir(1)` of a directory
(k = #entries is the end-of-listing call), open of a file or `.gitignore`, `Stat()` on an opened file, the lazy size stat.
There is NO site "the n-th `Read` of an opened file fails": the engine never reads file contents — it opens the file,
stats it and hands the reader to `Extract`; a read error is therefore the EXTRACTOR's business and appears in the model
as that `Extract` returning an error (`ExtractOut.err`), whose consequence (status failed / partial, nothing else
changes) is `C09_statuses_of_calls` / `C02_confined_two_benign`.  One error kind in the model: the engine treats all
kinds alike apart from log levels (the stream injects permission, not-exist and other errors).
"Terminates" is Lean totality of a structural recursion over the finite tree.
-/
import Scalibr.Proofs.WalkTop
import Scalibr.Proofs.WalkMore
import Scalibr.Proofs.WalkFatal
import Scalibr.Proofs.WalkEofs
import Scalibr.Proofs.WalkContain
import Scalibr.Proofs.WalkAnchor
import Scalibr.Proofs.WalkContainAny
import Scalibr.Proofs.WalkStatuses
namespace Scalibr.Walk

/-- No ENGINE panic: whatever the trees, fault plans, limits, options and cancellation point, a scan ends
with the panic outcome only if an extractor's `Extract` does.
Scope (what "panic" can mean in the model): model A has exactly ONE engine-side panic site — the deferred
`postHandleFile` slicing an empty `wc.gitignores` (`popOnExit`, Model/Walk.lean), which is the crash that
existed before fix 7a773e8c with `UseGitignore` and an early return (inode limit, cancelled context, unreadable
`.gitignore`) — plus the extractor's own panic, which the engine does not recover.  The theorem says the stack
discipline makes that one site unreachable (`walkNode_stack`: every directory pops exactly what it pushed).
Everything else in the engine (nil maps, index arithmetic, the status ticker) has no panic outcome in the model:
for those the statement is vacuous and only the differential stream (every case runs the real engine under
`recover`) speaks. -/
theorem C09_no_panic (c : Cfg) (hx : NoExtractorPanic c) (roots : List (Node × Faults)) :
    (run c roots).err ≠ .panic :=
  run_nopanic c hx roots

/-- With errors not fatal (and no limit / cancellation), NO set of filesystem faults fails the scan.
(False before fixes b4e342f8 and 481727ce: a failing lazy size stat, resp. an unreadable parent
`.gitignore`, failed the whole scan.) -/
theorem C09_nonfatal_benign (c : Cfg) (hb : Benign c) (roots : List (Node × Faults)) (ho : GiOK c) :
    (run c roots).err = .none :=
  (run_spec c hb roots ho).1

/-- Containment: under any fault plan (without unreadable `.gitignore` files) the attempts made are those
of the fault-free scan, minus the files below a directory that cannot be opened, at or after a failing
directory read, or whose size cannot be determined; for every other file the attempt is made exactly as
without faults — only its `opened` flag records whether the file itself could be opened and stat'ed. -/
theorem C09_contained_partial (c : Cfg) (f : Faults) (hg : NoGiFaults f) (above : List GiEntry) (p : Path) (n : Node) :
    mustFrom c f above p n =
      (allFiles p [] n).flatMap fun r =>
        if faultHits c f r then []
        else (mustOne c noFaults above r).map fun cl => { cl with opened := readable f r } := by
  unfold mustFrom
  exact flatMap_congr' (fun r _ => mustOne_contained c f hg above r)

/-- **Containment at engine level** (class `Benign`; narrowing: whole-tree scans `paths = []`, no unreadable
`.gitignore`): composition of `C09_contained_partial` with `C01_calls_benign`, for any number of roots.  The attempts of the scan
are, root by root, the attempts of the FAULT-FREE rule for every file no fault lies on the way to (`faultHits`:
a directory above it cannot be opened, the listing of a directory above it fails at or before the entry leading to
it, its size cannot be determined while a limit is set) — in order, with multiplicity; `opened` records whether the
file itself could be opened and stat'ed.  Nothing for a root that cannot be stat'ed. -/
theorem C09_contained_run_partial (c : Cfg) (hb : Benign c) (ho : GiOK c) (hp : c.paths = []) (roots : List (Node × Faults))
    (hg : ∀ rf ∈ roots, NoGiFaults rf.2) :
    (run c roots).err = .none ∧ (run c roots).calls = roots.flatMap fun rf => containedRoot c rf.2 rf.1 :=
  run_contained c hb ho hp roots hg

/-- … where the fault-free instance of the right-hand side is the fault-free specification itself. -/
theorem C09_contained_noFaults (c : Cfg) (hp : c.paths = []) (root : Node) :
    containedRoot c noFaults root = mustRoot c noFaults root :=
  containedRoot_noFaults c hp root

/-- **Unreadable `.gitignore`** (the counterpart of `C09_contained_partial`, ANY fault plan): a `.gitignore` that cannot be
opened has exactly the effect of an absent one — the owed attempts are those for the tree from which the unreadable
`.gitignore` contents have been removed (`stripGi`); nothing else is lost and nothing below that directory is
skipped.  (When the unreadable file is itself required by an extractor, its own attempt is owed with
`opened = false`, like any unreadable file.) -/
theorem C09_gitignore_unreadable (c : Cfg) (f : Faults) (above : List GiEntry) (p : Path) (n : Node) :
    mustFrom c f above p (stripGi f p n) = mustFrom c f above p n :=
  mustFrom_stripGi c f above p n

/-- … at engine level (class `Benign`; narrowing: `paths = []`; any number of roots): scanning the trees as they are
makes exactly the attempts of scanning the trees with the unreadable `.gitignore` contents removed. -/
theorem C09_gitignore_unreadable_run_partial (c : Cfg) (hb : Benign c) (ho : GiOK c) (hp : c.paths = []) (roots : List (Node × Faults)) :
    (run c roots).calls = (run c (roots.map fun rf => (stripGi rf.2 [] rf.1, rf.2))).calls :=
  run_stripGi c hb ho hp roots

/-- **Containment for ANY fault plan** (no hypothesis: plans mixing unreadable `.gitignore` files with any other
faults included; specification level): what a walk owes under plan `f` is, file by file over the tree with the unreadable
`.gitignore` contents removed (`stripGi`: an unreadable `.gitignore` is an absent one), the FAULT-FREE rule
`mustOne c noFaults` for every file no fault lies on the way to (`faultHits`), with `opened` recording whether the file
itself could be opened and stat'ed. -/
theorem C09_contained_any (c : Cfg) (f : Faults) (above : List GiEntry) (p : Path) (n : Node) :
    mustFrom c f above p n =
      (allFiles p [] (stripGi f p n)).flatMap fun r =>
        if faultHits c f r then []
        else (mustOne c noFaults above r).map fun cl => { cl with opened := readable f r } :=
  mustFrom_contained_any c f above p n

/-- … and at ENGINE level (class `Benign`; ANY fault plans, ANY requested paths, any number of roots): the attempts of
the scan are `containedRootAny` root by root — for a whole-tree scan the right-hand side above; for a requested
directory the same below the `.gitignore` context of the directories above it; for a requested file its fault-free
attempts unless its size stat fails; nothing for a start path that cannot be stat'ed or does not exist. -/
theorem C09_contained_run_any_benign (c : Cfg) (hb : Benign c) (ho : GiOK c) (roots : List (Node × Faults)) :
    (run c roots).err = .none ∧ (run c roots).calls = roots.flatMap fun rf => containedRootAny c rf.2 rf.1 :=
  run_contained_any c hb ho roots

/-- **Statuses and inventory are functions of each root's attempts — EVERY configuration without a panicking
extractor** (inode limit, size limit, cancellation, `ErrorOnFSErrors` on or off): whenever the scan does not fail,
its attempt log splits root by root (`segs`) and the status of extractor `e` for a root is `statusOfCalls` of THAT
root's attempts — failed/partial exactly when one of them could not open / stat its file or its `Extract` returned an
error, partial when in addition one returned inventory (`C09_status_meaning` reads the same definition) — and the
inventory is `pkgsOfCalls` of the same attempts.  `C09_surfaced_benign` is the special case where the attempts are the
specification's. -/
theorem C09_statuses_of_calls (c : Cfg) (hx : ∀ e p, (c.extract e p).panics = false) (roots : List (Node × Faults))
    (hok : (run c roots).err = .none) :
    ∃ segs : List (List Call), segs.length = roots.length ∧ (run c roots).calls = segs.flatten ∧
      (run c roots).statuses = segs.flatMap (fun cur => (List.range c.nExt).map fun e => (e, statusOfCalls c cur e)) ∧
      (run c roots).pkgs = segs.flatMap (pkgsOfCalls c) :=
  run_statuses_of_calls c hx roots hok

theorem C09_statusSpec_is_statusOfCalls (c : Cfg) (f : Faults) (r : Node) (e : Nat) :
    statusSpec c f r e = statusOfCalls c (mustRoot c f r) e := rfl

/-- Surfacing: in a benign scan the status of extractor `e` for a root is `failed` or `partial` exactly
when one of its attempts there could not open / stat its file or its `Extract` returned an error, and it
is `partial` exactly when, in addition, one of its invocations returned inventory. -/
theorem C09_surfaced_benign (c : Cfg) (hb : Benign c) (roots : List (Node × Faults)) (ho : GiOK c) :
    (run c roots).statuses = roots.flatMap fun (r, f) => (List.range c.nExt).map fun e => (e, statusSpec c f r e) :=
  (run_results c hb roots ho).2

theorem C09_status_meaning (c : Cfg) (f : Faults) (root : Node) (e : Nat) :
    (statusSpec c f root e ≠ .ok ↔
      ∃ cl ∈ mustRoot c f root, cl.ext = e ∧ (cl.opened = false ∨ (c.extract cl.ext cl.path).err = true)) ∧
    (statusSpec c f root e = .part ↔
      (∃ cl ∈ mustRoot c f root, cl.ext = e ∧ (cl.opened = false ∨ (c.extract cl.ext cl.path).err = true)) ∧
      ∃ cl ∈ mustRoot c f root, cl.ext = e ∧ cl.opened = true ∧ (c.extract cl.ext cl.path).isEmpty = false) := by
  have herr : (errsOfCalls c (mustRoot c f root)).contains e = true ↔
      ∃ cl ∈ mustRoot c f root, cl.ext = e ∧ (cl.opened = false ∨ (c.extract cl.ext cl.path).err = true) := by
    simp only [List.contains_iff_mem, errsOfCalls, List.mem_flatMap]
    constructor
    · rintro ⟨cl, hcl, h⟩
      split at h
      · rename_i hc
        simp at h; subst h
        refine ⟨cl, hcl, rfl, ?_⟩
        simpa using hc
      · simp at h
    · rintro ⟨cl, hcl, rfl, h⟩
      refine ⟨cl, hcl, ?_⟩
      have : (!cl.opened || (c.extract cl.ext cl.path).err) = true := by simpa using h
      simp [this]
  have hfound : (foundOfCalls c (mustRoot c f root)).contains e = true ↔
      ∃ cl ∈ mustRoot c f root, cl.ext = e ∧ cl.opened = true ∧ (c.extract cl.ext cl.path).isEmpty = false := by
    simp only [List.contains_iff_mem, foundOfCalls, List.mem_flatMap]
    constructor
    · rintro ⟨cl, hcl, h⟩
      split at h
      · rename_i hc
        simp at h; subst h
        refine ⟨cl, hcl, rfl, ?_⟩
        simpa using hc
      · simp at h
    · rintro ⟨cl, hcl, rfl, h1, h2⟩
      refine ⟨cl, hcl, ?_⟩
      simp [h1, h2]
  unfold statusSpec
  simp only []
  constructor
  · rw [← herr]
    cases (errsOfCalls c (mustRoot c f root)).contains e <;> cases (foundOfCalls c (mustRoot c f root)).contains e <;> simp
  · rw [← herr, ← hfound]
    cases (errsOfCalls c (mustRoot c f root)).contains e <;> cases (foundOfCalls c (mustRoot c f root)).contains e <;> simp

/-- Fatal on request: with `ErrorOnFSErrors` (no inode limit, cancellation or extractor panic) the scan
fails with a filesystem error EXACTLY when the walk is told about a filesystem failure — a directory that
cannot be opened or whose listing fails, an unreadable `.gitignore` of a directory it enters, the failing
size stat of a required file, a start path that cannot be stat'ed or does not exist (`traversalFaultScan`,
defined on the trees and fault plans alone). For all forests, fault plans and option combinations. -/
theorem C09_fatal_fatalcfg (c : Cfg) (hb : FatalCfg c) (ho : GiOK c) (roots : List (Node × Faults)) :
    (run c roots).err = (if traversalFaultScan c roots then .fs else .none) :=
  run_fatal c hb ho roots

/-- **`traversalFaultScan` anchored declaratively** (no hypothesis): the structural definition used in `C09_fatal_fatalcfg`
equals `toldFaultScan` (Spec/WalkNodes.lean), which is written over ONE enumeration of every node of the tree with
the chain of directories above it (`allNodes`, the analogue of `allFiles`): some root has
  * a start path (the root, or a requested path) that cannot be stat'ed or does not exist, or
  * (gitignore handling on) an unreadable `.gitignore` in a directory above a requested directory, or
  * a node the walk GETS TO (`visitedRec`: every directory above it is not excluded, can be opened, and its
    listing did not fail at or before the entry leading on) at which `handleFile` is told about a failure
    (`toldFault`): a directory that is entered and whose `.gitignore` is unreadable (gitignore on), which cannot be
    opened, or one of whose reads `0 … #entries` fails; or an eligible, not ignored file that some extractor
    requires and whose size stat fails while a size limit is set. -/
theorem C09_fatal_anchor (c : Cfg) (roots : List (Node × Faults)) :
    traversalFaultScan c roots = toldFaultScan c roots :=
  traversalFaultScan_anchor c roots

/-- `C09_fatal_fatalcfg` with the declarative right-hand side. -/
theorem C09_fatal_declarative_fatalcfg (c : Cfg) (hb : FatalCfg c) (ho : GiOK c) (roots : List (Node × Faults)) :
    (run c roots).err = (if toldFaultScan c roots then .fs else .none) := by
  rw [← C09_fatal_anchor]; exact run_fatal c hb ho roots

/-- **Fatal errors, no traversal fault** (class `FatalCfg`): the scan is the benign scan — it succeeds, and its
attempts, inventory and statuses are the benign specification's (so `C09_contained_partial`, `C09_surfaced_benign`,
`C09_status_meaning` describe it: faults that are not traversal faults — a file that cannot be opened or stat'ed
for extraction — are charged to the extractor's status, never fatal). -/
theorem C09_fatal_clean_fatalcfg (c : Cfg) (hb : FatalCfg c) (ho : GiOK c) (roots : List (Node × Faults))
    (hnf : traversalFaultScan c roots = false) :
    (run c roots).err = .none ∧ (run c roots).calls = mustExtract c roots ∧
    (run c roots).pkgs = pkgsOfCalls c (mustExtract c roots) ∧
    (run c roots).statuses = roots.flatMap fun (r, f) => (List.range c.nExt).map fun e => (e, statusSpec c f r e) :=
  run_fatal_clean c hb ho roots hnf

/-- **`ErrorOnFSErrors` acts only by failing** (EVERY configuration — limits, cancellation, panicking extractors —
every forest and fault plan): a scan with the flag set either ends with the filesystem error (or an extractor's
panic), or it is IDENTICAL in every observable — error, inventory, statuses, attempts, visited inodes — to the
scan with the flag cleared.  "Fatal only on request", read from the other side. -/
theorem C09_eofs_only_by_failing (c : Cfg) (he : c.errorOnFSErrors = true) (roots : List (Node × Faults)) :
    (run c roots).err = .fs ∨ (run c roots).err = .panic ∨ run (nonFatal c) roots = run c roots :=
  run_eofs c he roots

/-- … and step-wise: every failure `handleFile` is told about is returned when errors are fatal (unless the
inode limit or a cancelled context pre-empts it with their own error). -/
theorem C09_fatal_step (c : Cfg) (he : c.errorOnFSErrors = true) (s : St) :
    (fserrCall c s).2 ≠ .none := by
  have hp : (prologue c s).2 = none ∨ (prologue c s).2 = some .maxInodes ∨ (prologue c s).2 = some .ctx := by
    unfold prologue; simp only []; split <;> (try split) <;> simp
  unfold fserrCall
  generalize prologue c s = r at hp ⊢
  obtain ⟨s1, e1⟩ := r
  simp only [] at hp
  rcases hp with h | h | h <;> subst h <;> simp [he]

/-! Non-vacuity -/
example : FatalCfg { nExt := 1, required := fun _ _ => true, extract := fun _ _ => {}, errorOnFSErrors := true, giMatch := fun _ _ _ _ => false } :=
  ⟨rfl, rfl, rfl, rfl, fun _ _ => rfl⟩
example : traversalFaultScan { nExt := 1, required := fun _ _ => true, extract := fun _ _ => {}, errorOnFSErrors := true, giMatch := fun _ _ _ _ => false }
    [(.dir none [("a", .dir none [("x", .file .reg 1)])], { readEntryFail := fun p k => p = ["a"] && k = 1 })] = true := by decide
example : NoGiFaults { openFail := fun p => p = ["a"] } := by
  intro p
  have : p ++ [".gitignore"] ≠ ["a"] := by
    intro h
    have := congrArg List.getLast? h
    simp at this
  simp [this]
example : faultHits { nExt := 1, required := fun _ _ => true, extract := fun _ _ => {}, giMatch := fun _ _ _ _ => false }
    { openFail := fun p => p = ["a"] } ⟨["a", "x"], .reg, 1, [⟨[], none, 0⟩, ⟨["a"], none, 0⟩]⟩ = true := by decide

/-! more non-vacuity: the `false` side of `C09_fatal_fatalcfg` (a file that cannot be opened for extraction is NOT a traversal
fault: `C09_fatal_clean_fatalcfg` applies), the declarative predicate on the same inputs, and `stripGi` on a tree whose
`.gitignore` is unreadable -/
def exF : Cfg := { nExt := 1, required := fun _ _ => true, extract := fun _ _ => {}, errorOnFSErrors := true, useGitignore := true,
                   giMatch := matcherMatch }
def exFTree : Node := .dir none [("a", .dir (some [⟨"x", false, false⟩]) [("x", .file .reg 1), ("y", .file .reg 1)])]
example : FatalCfg exF ∧ GiOK exF := ⟨⟨rfl, rfl, rfl, rfl, fun _ _ => rfl⟩, matcherMatch_domain⟩
example : traversalFaultScan exF [(exFTree, { openFail := fun p => p = ["a", "y"] })] = false ∧
    toldFaultScan exF [(exFTree, { openFail := fun p => p = ["a", "y"] })] = false := by decide
example : toldFaultScan exF [(exFTree, { openFail := fun p => p = ["a", ".gitignore"] })] = true ∧
    toldFaultScan exF [(exFTree, { readEntryFail := fun p k => p = ["a"] ∧ k = 2 })] = true := by decide
/-- with the `.gitignore` of `a` unreadable (errors not fatal), `a/x` — ignored otherwise — is owed, as in the tree without it -/
example : (mustFrom { exF with errorOnFSErrors := false } {} [] [] exFTree).map (·.path) = [["a", "y"]] ∧
    (mustFrom { exF with errorOnFSErrors := false } { openFail := fun p => p = ["a", ".gitignore"] } [] [] exFTree).map (·.path)
      = [["a", "x"], ["a", "y"]] := by decide

/-! ### Disclosed: a failing SIZE stat of a required file is not charged to any extractor

With a size limit set, the engine stats a file lazily when the first extractor requires it.  If that stat fails and errors are
not fatal (fix b4e342f8 made it non-fatal), the file is skipped with a log line: no attempt is made for ANY extractor, so nothing
reaches an extractor's status (`mustOne = []` because `sizeOk` is false; `statusSpec = .ok`) — although with `ErrorOnFSErrors` the
same failure is a traversal fault and fails the scan (`toldFault`, file case).  The property's surfacing clause speaks of "each
failure to open or parse a required file"; a file that cannot be STAT'ed for the size check is, by the letter, neither — it is
CONTAINED (clause 2: every other file is extracted as without the fault) but not SURFACED.  `C09_surfaced_benign` /
`C09_statuses_of_calls` say exactly this: statuses are a function of the ATTEMPTS, and this file has none.  Recorded here so that
the reading is explicit; reported to the coordinator as a candidate (charging the failure to the extractors that require the file
would change which statuses a scan reports). -/
def exSz : Cfg := { nExt := 1, required := fun _ _ => true, extract := fun _ _ => {}, maxFileSize := 100, giMatch := fun _ _ _ _ => false }
def exSzTree : Node := .dir none [("f", .file .reg 1), ("g", .file .reg 1)]
theorem C09_size_stat_failure_not_surfaced :
    (mustRoot exSz { statFail := fun p => p = ["f"] } exSzTree).map (·.path) = [["g"]] ∧
    statusSpec exSz { statFail := fun p => p = ["f"] } exSzTree 0 = .ok ∧
    toldFaultScan exSz [(exSzTree, { statFail := fun p => p = ["f"] })] = true := by decide

end Scalibr.Walk
