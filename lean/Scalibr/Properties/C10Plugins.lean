/-
C10, clause "once its context is cancelled [a scan] starts no extraction on any further file and runs
no further plugin, reporting failure whenever work remained" — for the PLUGIN LOOPS of a scan: the
phase sequence filesystem.Run → standalone.Run → detector.Run of `scalibr.go: Scan`
(`Scalibr.Phases.scan`), for every schedule (any number of roots, directory entries, filesystem /
standalone extractors and detectors), every plugin returning nil, an error or ctx.Err(), and the context
cancelled before the scan or from inside any plugin of any phase. (What the filesystem walk does inside
one root — limits, faults, which files are required — is `Properties/C10.lean`.)
Helper lemmas: `Scalibr.Proofs.Phases`.
-/
import Scalibr.Proofs.Phases
import Scalibr.Proofs.Detector
namespace Scalibr.Phases

def pOk' (n : String) : Plugin := ⟨n, .ok, false⟩

/-- The three phase loops with the early returns in between are ONE loop over the whole schedule. -/
theorem C10_plugins_one_loop (before : Bool) (nfx : Nat) (roots : List (List (List Plugin))) (sts dets : List Plugin) :
    (scan before nfx roots sts dets).started = (loop (schedule nfx roots sts dets) ⟨before, [], []⟩).1.started ∧
    (scan before nfx roots sts dets).failed = (loop (schedule nfx roots sts dets) ⟨before, [], []⟩).2 := by
  unfold scan schedule
  rw [List.append_assoc, loop_append, loop_append]
  cases h1 : (loop (fsUnits nfx roots) ⟨before, [], []⟩).2 with
  | true => simp [h1]
  | false =>
    cases h2 : (loop (plUnits sts) (loop (fsUnits nfx roots) ⟨before, [], []⟩).1).2 with
    | true => simp [h1, h2]
    | false =>
      cases h3 : (loop (plUnits dets) (loop (plUnits sts) (loop (fsUnits nfx roots) ⟨before, [], []⟩).1).1).2 <;> simp [h1, h2, h3]

/-- STOP. The plugin calls a scan starts are exactly those of the loop iterations up to and including
the one in which the context is cancelled (none when it is cancelled before the scan): after the
cancelling iteration NO further plugin of any later position or phase is started. In the filesystem
phase an iteration is one directory entry (no extraction on any further FILE); in the standalone and
detector phases it is one plugin. What the plugins return is irrelevant. -/
theorem C10_plugins_stop (before : Bool) (nfx : Nat) (roots : List (List (List Plugin))) (sts dets : List Plugin) :
    (scan before nfx roots sts dets).started = specStarted before (schedule nfx roots sts dets) := by
  rw [(C10_plugins_one_loop before nfx roots sts dets).1, (loop_started _ _).1]
  unfold specStarted
  cases before with
  | true => simp [ran, names]
  | false => simp [ran_false_eq_through]

/-- FAIL. The scan reports failure exactly when an ITERATION of the schedule was left out. Granularity (audit
note): an iteration of the filesystem phase is a directory entry, also one no extractor wants, so the scan
fails as well when only such entries remained although every plugin CALL ran (`C10_plugins_failed_without_work_left`).
The property asks for ⇐ only — failure whenever work remained — which is `C10_plugins_fail_if_work_remained`. -/
theorem C10_plugins_failed_iff (before : Bool) (nfx : Nat) (roots : List (List (List Plugin))) (sts dets : List Plugin) :
    (scan before nfx roots sts dets).failed = !(specRemaining before (schedule nfx roots sts dets)).isEmpty := by
  rw [(C10_plugins_one_loop before nfx roots sts dets).2, (loop_started _ _).2]
  unfold specRemaining
  cases before with
  | true => simp [left]
  | false => simp [left_false_eq_after]

/-- the converse of `C10_plugins_fail_if_work_remained` does not hold: cancelled inside the only Extract call, an
empty directory entry still to come — every plugin call ran, the scan fails nevertheless (the code cannot know) -/
theorem C10_plugins_failed_without_work_left :
    (scan false 1 [[[⟨"fx0@a", .ok, true⟩], []]] [] []).failed = true ∧
    (scan false 1 [[[⟨"fx0@a", .ok, true⟩], []]] [] []).started = names (schedule 1 [[[⟨"fx0@a", .ok, true⟩], []]] [] []) := by
  refine ⟨by decide, by decide⟩

/-- … in particular WHENEVER WORK REMAINED: if some scheduled plugin call was not started, the scan failed. -/
theorem C10_plugins_fail_if_work_remained (before : Bool) (nfx : Nat) (roots : List (List (List Plugin))) (sts dets : List Plugin)
    (h : (scan before nfx roots sts dets).started ≠ names (schedule nfx roots sts dets)) :
    (scan before nfx roots sts dets).failed = true := by
  cases hf : (scan before nfx roots sts dets).failed with
  | true => rfl
  | false =>
    exfalso
    apply h
    have h1 := (C10_plugins_one_loop before nfx roots sts dets)
    have h2 := loop_started (schedule nfx roots sts dets) ⟨before, [], []⟩
    rw [h1.2, h2.2] at hf
    have hl : left before (schedule nfx roots sts dets) = [] := by
      cases hh : left before (schedule nfx roots sts dets) with
      | nil => rfl
      | cons a b => simp [hh] at hf
    have := ran_append_left before (schedule nfx roots sts dets)
    rw [hl, List.append_nil] at this
    rw [h1.1, h2.1, this]; simp

/-- No plugin of an iteration after the cancelling one is started (names distinct, so that "started" can
be read off the log). -/
theorem C10_plugins_none_after_cancel (nfx : Nat) (roots : List (List (List Plugin))) (sts dets : List Plugin)
    (hn : (names (schedule nfx roots sts dets)).Nodup) (n : String)
    (h : n ∈ names (after (schedule nfx roots sts dets))) :
    n ∉ (scan false nfx roots sts dets).started := by
  rw [C10_plugins_stop]
  simp only [specStarted, Bool.false_eq_true, if_false]
  have hsplit : names (schedule nfx roots sts dets) =
      names (through (schedule nfx roots sts dets)) ++ names (after (schedule nfx roots sts dets)) := by
    unfold names through after
    rw [← List.flatMap_append, List.take_append_drop]
  rw [hsplit] at hn
  intro hin
  exact (List.nodup_append.1 hn).2.2 n hin n h rfl

/-- Failure of this kind only ever comes from a cancellation. -/
theorem C10_plugins_failure_means_cancelled (before : Bool) (nfx : Nat) (roots : List (List (List Plugin))) (sts dets : List Plugin)
    (h : (scan before nfx roots sts dets).failed = true) :
    before = true ∨ ∃ u ∈ schedule nfx roots sts dets, u.cancels = true := by
  cases before with
  | true => exact Or.inl rfl
  | false =>
    right
    rw [C10_plugins_failed_iff] at h
    simp only [specRemaining, Bool.false_eq_true, if_false] at h
    -- if nothing cancels, `after` is empty
    apply Classical.byContradiction
    intro hno
    have hall : ∀ u ∈ schedule nfx roots sts dets, (!u.cancels) = true := by
      intro u hu
      cases hc : u.cancels with
      | false => rfl
      | true => exact absurd ⟨u, hu, hc⟩ hno
    have : (schedule nfx roots sts dets).takeWhile (fun u => !u.cancels) = schedule nfx roots sts dets :=
      takeWhile_all _ _ hall
    unfold after at h
    rw [this] at h
    simp at h

/-- NO CANCELLATION ⇒ every scheduled plugin call is started exactly once, in schedule order (the log IS
the schedule), and the scan does not fail for this reason — whatever the plugins return. -/
theorem C10_plugins_nocancel (nfx : Nat) (roots : List (List (List Plugin))) (sts dets : List Plugin)
    (hc : ∀ u ∈ schedule nfx roots sts dets, u.cancels = false) :
    (scan false nfx roots sts dets).started = names (schedule nfx roots sts dets) ∧
    (scan false nfx roots sts dets).failed = false := by
  have hall : ∀ u ∈ schedule nfx roots sts dets, (!u.cancels) = true := by
    intro u hu; rw [hc u hu]; rfl
  have htw : (schedule nfx roots sts dets).takeWhile (fun u => !u.cancels) = schedule nfx roots sts dets :=
    takeWhile_all _ _ hall
  refine ⟨?_, ?_⟩
  · rw [C10_plugins_stop]
    simp only [specStarted, Bool.false_eq_true, if_false, through, htw]
    rw [List.take_of_length_le (Nat.le_succ _)]
  · rw [C10_plugins_failed_iff]
    simp only [specRemaining, Bool.false_eq_true, if_false, after, htw]
    simp

/-! ### the detector loop is modelled twice: here (`loop` over `plUnits`) and, with findings and the index, in
`Scalibr.Detector.runLoop` (C20). They start the same detectors and return `ctx.Err()` in the same cases. -/

def phOf (d : Detector.Detector) : Plugin := ⟨d.name, .ok, d.cancels⟩

theorem detector_loops_agree (px : Index.PkgMap) (ds : List Detector.Detector) (s : Detector.St) (t : St)
    (hc : s.cancelled = t.cancelled) (hl : s.calls.map (·.1) = t.started) (hr : s.ctxReturn = false) :
    (Detector.runLoop px ds s).calls.map (·.1) = (loop (plUnits (ds.map phOf)) t).1.started ∧
    (Detector.runLoop px ds s).ctxReturn = (loop (plUnits (ds.map phOf)) t).2 := by
  induction ds generalizing s t with
  | nil => simp [Detector.runLoop, loop, plUnits, hl, hr]
  | cons d ds ih =>
    cases hcs : s.cancelled with
    | true =>
      have hct : t.cancelled = true := by rw [← hc, hcs]
      simp [Detector.runLoop, loop, plUnits, hcs, hct, hl]
    | false =>
      have hct : t.cancelled = false := by rw [← hc, hcs]
      rw [Detector.runLoop]
      simp only [hcs, Bool.false_eq_true, if_false, List.map_cons, plUnits, loop, hct]
      exact ih _ _ (by simp [runUnit, hct, phOf]) (by simp [runUnit, hl, phOf]) rfl

theorem validate_ne_ctx (fs : List (Option Detector.Finding)) (ids : List (Detector.AdvID × Detector.Adv)) :
    Detector.validate fs ids ≠ some .ctx := by
  induction fs generalizing ids with
  | nil => simp [Detector.validate]
  | cons x fs ih =>
    cases x with
    | none => simp [Detector.validate]
    | some f =>
      unfold Detector.validate
      split
      · simp
      · split
        · simp
        · split
          · split
            · simp
            · exact ih _
          · exact ih _

/-- `detector.Run` of C20's model and the detector phase of this model agree — FROM EVERY ENTRY STATE (context live or
already cancelled when the loop is entered) — on which detectors start and on whether the run ends with `ctx.Err()`. -/
theorem C10_plugins_detector_models_agree (c : Bool) (px : Index.PkgMap) (ds : List Detector.Detector) :
    (Detector.runFrom c ds px).calls.map (·.1) = (loop (plUnits (ds.map phOf)) ⟨c, [], []⟩).1.started ∧
    ((Detector.runFrom c ds px).err = some .ctx ↔ (loop (plUnits (ds.map phOf)) ⟨c, [], []⟩).2 = true) := by
  obtain ⟨h1, h2⟩ := detector_loops_agree px ds { cancelled := c } ⟨c, [], []⟩ rfl rfl rfl
  unfold Detector.runFrom
  simp only []
  cases hcr : (Detector.runLoop px ds { cancelled := c }).ctxReturn with
  | true =>
    rw [hcr] at h2
    simp [h1, ← h2]
  | false =>
    rw [hcr] at h2
    simp only [Bool.false_eq_true, if_false]
    cases hv : Detector.validate (Detector.runLoop px ds { cancelled := c }).findings [] with
    | none => simp [h1, ← h2]
    | some e =>
      have : e ≠ .ctx := fun he => validate_ne_ctx _ _ (he ▸ hv)
      simp [h1, ← h2, this]

/-- THE ENTRY STATE `Scan` hands to the detector loop (the link C20's theorems rest on): the detectors are reached iff
the filesystem and standalone phases returned no error; the loop is then entered with the log so far and with the
context cancelled iff it was cancelled before the scan or inside some earlier plugin (necessarily the LAST iteration
of the earlier phases, otherwise they would have returned `ctx.Err()`). -/
theorem C10_plugins_detector_entry (before : Bool) (nfx : Nat) (roots : List (List (List Plugin))) (sts dets : List Plugin) :
    let e := loop (fsUnits nfx roots ++ plUnits sts) ⟨before, [], []⟩
    (e.2 = true → (scan before nfx roots sts dets).started = e.1.started ∧ (scan before nfx roots sts dets).failed = true) ∧
    (e.2 = false →
      (scan before nfx roots sts dets).started = (loop (plUnits dets) e.1).1.started ∧
      (scan before nfx roots sts dets).failed = (loop (plUnits dets) e.1).2 ∧
      e.1.cancelled = (before || (fsUnits nfx roots ++ plUnits sts).any (·.cancels))) := by
  intro e
  have h := C10_plugins_one_loop before nfx roots sts dets
  have ha : loop (schedule nfx roots sts dets) ⟨before, [], []⟩ =
      if e.2 then (e.1, true) else loop (plUnits dets) e.1 := by
    unfold schedule; exact loop_append _ _ _
  refine ⟨fun he => ?_, fun he => ?_⟩
  · rw [h.1, h.2, ha]; simp [he]
  · rw [h.1, h.2, ha]
    refine ⟨by simp [he], by simp [he], ?_⟩
    have := loop_cancelled (fsUnits nfx roots ++ plUnits sts) ⟨before, [], []⟩ he
    simpa using this

/-- … in particular: the LAST standalone extractor (or the last Extract call) cancels the context ⇒ the earlier
phases complete, the detector loop is entered with a cancelled context, NO detector starts, and the scan fails iff
there is a detector. (This is the case outside C20's `NoCancel`, which speaks of detectors only.) -/
theorem C10_plugins_detectors_skipped (before : Bool) (nfx : Nat) (roots : List (List (List Plugin))) (sts dets : List Plugin)
    (he : (loop (fsUnits nfx roots ++ plUnits sts) ⟨before, [], []⟩).2 = false)
    (hc : (loop (fsUnits nfx roots ++ plUnits sts) ⟨before, [], []⟩).1.cancelled = true) :
    (scan before nfx roots sts dets).started = (loop (fsUnits nfx roots ++ plUnits sts) ⟨before, [], []⟩).1.started ∧
    (scan before nfx roots sts dets).failed = !dets.isEmpty := by
  obtain ⟨h1, h2, _⟩ := (C10_plugins_detector_entry before nfx roots sts dets).2 he
  have hs := loop_started (plUnits dets) (loop (fsUnits nfx roots ++ plUnits sts) ⟨before, [], []⟩).1
  rw [h1, h2, hs.1, hs.2, hc]
  cases dets <;> simp [ran, left, names, plUnits]

example : (scan false 0 [[]] [pOk' "sx0", ⟨"sx1", .ok, true⟩] [pOk' "det0", pOk' "det1"]) =
    ⟨["sx0", "sx1"], true, [("sx0", false), ("sx1", false)]⟩ := by decide

/-- STATUSES. Nobody cancels ⇒ the result carries one status entry per standalone extractor and per detector, in
order, failed iff that plugin returned an error. -/
theorem C10_plugins_nocancel_status (nfx : Nat) (roots : List (List (List Plugin))) (sts dets : List Plugin)
    (hc : ∀ u ∈ schedule nfx roots sts dets, u.cancels = false) :
    (scan false nfx roots sts dets).status = specStatusNoCancel sts dets := by
  -- a phase loop that nobody cancels: the status log grows by one entry per recorded plugin
  have key : ∀ (us : List Iter) (s : St), s.cancelled = false → (∀ u ∈ us, u.cancels = false) →
      (loop us s).2 = false ∧ (loop us s).1.cancelled = false ∧
      (loop us s).1.status = s.status ++ us.flatMap (fun u => if u.records then u.plugins.map (fun p => (p.name, decide (p.ret = .err))) else []) := by
    intro us
    induction us with
    | nil => intro s hs _; simp [loop, hs]
    | cons u us ih =>
      intro s hs hu
      have hcu : u.cancels = false := hu u (by simp)
      have hru : ∀ (ps : List Plugin) (t : St), t.cancelled = false → (∀ p ∈ ps, p.cancels = false) →
          (runUnit u.records ps t).cancelled = false ∧
          (runUnit u.records ps t).status = t.status ++ (if u.records then ps.map (fun p => (p.name, decide (p.ret = .err))) else []) := by
        intro ps
        induction ps with
        | nil => intro t ht _; simp [runUnit, ht]
        | cons p ps ihp =>
          intro t ht hp
          have hpc : p.cancels = false := hp p (by simp)
          have := ihp ⟨t.cancelled || p.cancels, t.started ++ [p.name],
            if u.records then t.status ++ [(p.name, p.fails (t.cancelled || p.cancels))] else t.status⟩ (by simp [ht, hpc])
            (fun q hq => hp q (by simp [hq]))
          rw [runUnit]
          refine ⟨this.1, ?_⟩
          rw [this.2]
          cases hrec : u.records
          · simp
          · cases hret : p.ret <;> simp [Plugin.fails, hret, ht, hpc]
      have hps : ∀ p ∈ u.plugins, p.cancels = false := by
        intro p hp
        have : u.plugins.any (·.cancels) = false := hcu
        rw [List.any_eq_false] at this
        simpa using this p hp
      obtain ⟨h1, h2⟩ := hru u.plugins s hs hps
      rw [loop]
      simp only [hs, Bool.false_eq_true, if_false]
      obtain ⟨i1, i2, i3⟩ := ih (runUnit u.records u.plugins s) h1 (fun v hv => hu v (by simp [hv]))
      refine ⟨i1, i2, ?_⟩
      rw [i3, h2]; simp [List.append_assoc]
  unfold specStatusNoCancel
  have hsched : ∀ u, u ∈ fsUnits nfx roots ∨ u ∈ plUnits sts ∨ u ∈ plUnits dets → u.cancels = false := by
    intro u hu; apply hc; unfold schedule; simp only [List.mem_append]
    rcases hu with h | h | h
    · exact Or.inl (Or.inl h)
    · exact Or.inl (Or.inr h)
    · exact Or.inr h
  obtain ⟨a1, a2, a3⟩ := key (fsUnits nfx roots) ⟨false, [], []⟩ rfl (fun u hu => hsched u (Or.inl hu))
  obtain ⟨b1, b2, b3⟩ := key (plUnits sts) _ a2 (fun u hu => hsched u (Or.inr (Or.inl hu)))
  obtain ⟨c1, c2, c3⟩ := key (plUnits dets) _ b2 (fun u hu => hsched u (Or.inr (Or.inr hu)))
  have hscan : (scan false nfx roots sts dets).status =
      (loop (plUnits dets) (loop (plUnits sts) (loop (fsUnits nfx roots) ⟨false, [], []⟩).1).1).1.status := by
    unfold scan
    simp [a1, b1, c1]
  rw [hscan, c3, b3, a3]
  have hfs : (fsUnits nfx roots).flatMap (fun u => if u.records then u.plugins.map (fun p => (p.name, decide (p.ret = .err))) else []) = [] := by
    unfold fsUnits
    split
    · rfl
    · simp only [List.flatMap_eq_nil_iff, List.mem_flatMap, List.mem_cons, List.mem_map]
      rintro x ⟨r, _, hx⟩
      rcases hx with rfl | ⟨a, _, rfl⟩ <;> simp
  have hfm : ∀ l : List Plugin, l.flatMap (fun a => [(a.name, decide (a.ret = Ret.err))]) = l.map (fun p => (p.name, decide (p.ret = Ret.err))) := by
    intro l; induction l with
    | nil => rfl
    | cons a l ih => simp [List.flatMap_cons, ih]
  simp [hfs, plUnits, List.flatMap_map, List.map_append, hfm]

/-! ### non-vacuity and the shape of the seeded defect -/

/-- the `Nodup` hypothesis of `C10_plugins_none_after_cancel` is satisfiable (the harness names every call uniquely) -/
example : (names (schedule 2 [[[pOk' "fx0@a", pOk' "fx1@a"]], [[pOk' "fx0@b"]]] [pOk' "sx0"] [pOk' "det0"])).Nodup := by decide

def pOk (n : String) : Plugin := ⟨n, .ok, false⟩
/-- standalone extractor `sx0` cancels the context AND returns an error; `sx1` and the detectors must not start -/
example : scan false 1 [[[pOk "fx0@a"]]] [⟨"sx0", .err, true⟩, pOk "sx1"] [pOk "det0", pOk "det1"] =
    ⟨["fx0@a", "sx0"], true, []⟩ := by decide
/-- cancelled inside the LAST plugin: nothing remained, the scan succeeds -/
example : (scan false 0 [[]] [] [pOk "det0", ⟨"det1", .ctxErr, true⟩]) = ⟨["det0", "det1"], false, [("det0", false), ("det1", true)]⟩ := by decide
/-- cancelled inside an Extract call: the other extractor still gets the same file, no further file is touched -/
example : (scan false 2 [[[⟨"fx0@a", .ok, true⟩, pOk "fx1@a"], [pOk "fx0@b"]]] [pOk "sx0"] []).started = ["fx0@a", "fx1@a"] := by decide
/-- cancelled before the scan: nothing starts; failure iff there is anything to do -/
example : scan true 0 [[]] [] [] = ⟨[], false, []⟩ ∧ (scan true 1 [[]] [] []).failed = true ∧ (scan true 0 [[]] [pOk "sx0"] []).failed = true := by decide

end Scalibr.Phases
