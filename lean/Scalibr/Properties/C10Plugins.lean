/-
C10, clause "once its context is cancelled [a scan] starts no extraction on any further file and runs
no further plugin, reporting failure whenever work remained" — for the PLUGIN LOOPS of a scan: the
phase sequence filesystem.Run → standalone.Run → detector.Run of `scalibr.go: Scan`
(`Scalibr.Phases.scan`), for every schedule (any number of roots, directory entries, filesystem /
standalone extractors and detectors), every plugin returning nil, an error or ctx.Err(), and the context
cancelled before the scan or from inside any plugin of any phase. (What the filesystem walk does inside
one root — limits, faults, which files are required — is `Properties/C10.lean`.)
Helper lemmas: `Scalibr.Proofs.Phases`.
-/
import Scalibr.Proofs.Phases
namespace Scalibr.Phases

/-- The three phase loops with the early returns in between are ONE loop over the whole schedule. -/
theorem C10_plugins_one_loop (before : Bool) (nfx : Nat) (roots : List (List (List Plugin))) (sts dets : List Plugin) :
    (scan before nfx roots sts dets).started = (loop (schedule nfx roots sts dets) ⟨before, [], []⟩).1.started ∧
    (scan before nfx roots sts dets).failed = (loop (schedule nfx roots sts dets) ⟨before, [], []⟩).2 := by
  unfold scan schedule
  rw [List.append_assoc, loop_append, loop_append]
  cases h1 : (loop (fsUnits nfx roots) ⟨before, [], []⟩).2 with
  | true => simp [h1]
  | false =>
    cases h2 : (loop (plUnits sts) (loop (fsUnits nfx roots) ⟨before, [], []⟩).1).2 with
    | true => simp [h1, h2]
    | false =>
      cases h3 : (loop (plUnits dets) (loop (plUnits sts) (loop (fsUnits nfx roots) ⟨before, [], []⟩).1).1).2 <;> simp [h1, h2, h3]

/-- STOP. The plugin calls a scan starts are exactly those of the loop iterations up to and including
the one in which the context is cancelled (none when it is cancelled before the scan): after the
cancelling iteration NO further plugin of any later position or phase is started. In the filesystem
phase an iteration is one directory entry (no extraction on any further FILE); in the standalone and
detector phases it is one plugin. What the plugins return is irrelevant. -/
theorem C10_plugins_stop (before : Bool) (nfx : Nat) (roots : List (List (List Plugin))) (sts dets : List Plugin) :
    (scan before nfx roots sts dets).started = specStarted before (schedule nfx roots sts dets) := by
  rw [(C10_plugins_one_loop before nfx roots sts dets).1, (loop_started _ _).1]
  unfold specStarted
  cases before with
  | true => simp [ran, names]
  | false => simp [ran_false_eq_through]

/-- FAIL. The scan reports failure exactly when an iteration of the schedule was left out … -/
theorem C10_plugins_failed_iff (before : Bool) (nfx : Nat) (roots : List (List (List Plugin))) (sts dets : List Plugin) :
    (scan before nfx roots sts dets).failed = !(specRemaining before (schedule nfx roots sts dets)).isEmpty := by
  rw [(C10_plugins_one_loop before nfx roots sts dets).2, (loop_started _ _).2]
  unfold specRemaining
  cases before with
  | true => simp [left]
  | false => simp [left_false_eq_after]

/-- … in particular WHENEVER WORK REMAINED: if some scheduled plugin call was not started, the scan failed. -/
theorem C10_plugins_fail_if_work_remained (before : Bool) (nfx : Nat) (roots : List (List (List Plugin))) (sts dets : List Plugin)
    (h : (scan before nfx roots sts dets).started ≠ names (schedule nfx roots sts dets)) :
    (scan before nfx roots sts dets).failed = true := by
  cases hf : (scan before nfx roots sts dets).failed with
  | true => rfl
  | false =>
    exfalso
    apply h
    have h1 := (C10_plugins_one_loop before nfx roots sts dets)
    have h2 := loop_started (schedule nfx roots sts dets) ⟨before, [], []⟩
    rw [h1.2, h2.2] at hf
    have hl : left before (schedule nfx roots sts dets) = [] := by
      cases hh : left before (schedule nfx roots sts dets) with
      | nil => rfl
      | cons a b => simp [hh] at hf
    have := ran_append_left before (schedule nfx roots sts dets)
    rw [hl, List.append_nil] at this
    rw [h1.1, h2.1, this]; simp

/-- No plugin of an iteration after the cancelling one is started (names distinct, so that "started" can
be read off the log). -/
theorem C10_plugins_none_after_cancel (nfx : Nat) (roots : List (List (List Plugin))) (sts dets : List Plugin)
    (hn : (names (schedule nfx roots sts dets)).Nodup) (n : String)
    (h : n ∈ names (after (schedule nfx roots sts dets))) :
    n ∉ (scan false nfx roots sts dets).started := by
  rw [C10_plugins_stop]
  simp only [specStarted, Bool.false_eq_true, if_false]
  have hsplit : names (schedule nfx roots sts dets) =
      names (through (schedule nfx roots sts dets)) ++ names (after (schedule nfx roots sts dets)) := by
    unfold names through after
    rw [← List.flatMap_append, List.take_append_drop]
  rw [hsplit] at hn
  intro hin
  exact (List.nodup_append.1 hn).2.2 n hin n h rfl

/-- Failure of this kind only ever comes from a cancellation. -/
theorem C10_plugins_failure_means_cancelled (before : Bool) (nfx : Nat) (roots : List (List (List Plugin))) (sts dets : List Plugin)
    (h : (scan before nfx roots sts dets).failed = true) :
    before = true ∨ ∃ u ∈ schedule nfx roots sts dets, u.cancels = true := by
  cases before with
  | true => exact Or.inl rfl
  | false =>
    right
    rw [C10_plugins_failed_iff] at h
    simp only [specRemaining, Bool.false_eq_true, if_false] at h
    -- if nothing cancels, `after` is empty
    apply Classical.byContradiction
    intro hno
    have hall : ∀ u ∈ schedule nfx roots sts dets, (!u.cancels) = true := by
      intro u hu
      cases hc : u.cancels with
      | false => rfl
      | true => exact absurd ⟨u, hu, hc⟩ hno
    have : (schedule nfx roots sts dets).takeWhile (fun u => !u.cancels) = schedule nfx roots sts dets :=
      takeWhile_all _ _ hall
    unfold after at h
    rw [this] at h
    simp at h

/-- NO CANCELLATION ⇒ every scheduled plugin call is started exactly once, in schedule order (the log IS
the schedule), and the scan does not fail for this reason — whatever the plugins return. -/
theorem C10_plugins_nocancel (nfx : Nat) (roots : List (List (List Plugin))) (sts dets : List Plugin)
    (hc : ∀ u ∈ schedule nfx roots sts dets, u.cancels = false) :
    (scan false nfx roots sts dets).started = names (schedule nfx roots sts dets) ∧
    (scan false nfx roots sts dets).failed = false := by
  have hall : ∀ u ∈ schedule nfx roots sts dets, (!u.cancels) = true := by
    intro u hu; rw [hc u hu]; rfl
  have htw : (schedule nfx roots sts dets).takeWhile (fun u => !u.cancels) = schedule nfx roots sts dets :=
    takeWhile_all _ _ hall
  refine ⟨?_, ?_⟩
  · rw [C10_plugins_stop]
    simp only [specStarted, Bool.false_eq_true, if_false, through, htw]
    rw [List.take_of_length_le (Nat.le_succ _)]
  · rw [C10_plugins_failed_iff]
    simp only [specRemaining, Bool.false_eq_true, if_false, after, htw]
    simp

/-! ### non-vacuity and the shape of the seeded defect -/

def pOk (n : String) : Plugin := ⟨n, .ok, false⟩
/-- standalone extractor `sx0` cancels the context AND returns an error; `sx1` and the detectors must not start -/
example : scan false 1 [[[pOk "fx0@a"]]] [⟨"sx0", .err, true⟩, pOk "sx1"] [pOk "det0", pOk "det1"] =
    ⟨["fx0@a", "sx0"], true, []⟩ := by decide
/-- cancelled inside the LAST plugin: nothing remained, the scan succeeds -/
example : (scan false 0 [[]] [] [pOk "det0", ⟨"det1", .ctxErr, true⟩]) = ⟨["det0", "det1"], false, [("det0", false), ("det1", true)]⟩ := by decide
/-- cancelled inside an Extract call: the other extractor still gets the same file, no further file is touched -/
example : (scan false 2 [[[⟨"fx0@a", .ok, true⟩, pOk "fx1@a"], [pOk "fx0@b"]]] [pOk "sx0"] []).started = ["fx0@a", "fx1@a"] := by decide
/-- cancelled before the scan: nothing starts; failure iff there is anything to do -/
example : scan true 0 [[]] [] [] = ⟨[], false, []⟩ ∧ (scan true 1 [[]] [] []).failed = true ∧ (scan true 0 [[]] [pOk "sx0"] []).failed = true := by decide

end Scalibr.Phases
