import Scalibr.Spec.SbomFields
namespace Scalibr.Sbom

theorem spdxLoop_fields {Purl : Type} (ops : PurlOps Purl) (env : Env) (mainId : String) (inv : List (Pkg Purl)) (k : Nat) :
    (spdxLoop ops env mainId k inv).1.map (fun p => (p.name, p.version, p.extRefs.map (·.locator), p.sourceInfo)) =
      inv.filterMap (spdxRecord ops) := by
  induction inv generalizing k with
  | nil => rfl
  | cons pkg rest ih =>
    unfold spdxLoop
    cases hp : pkg.purl with
    | none => simp [spdxRecord, hp, ih]
    | some u =>
      by_cases he : ops.name u = "" ∨ ops.version u = ""
      · simp [spdxRecord, hp, he, ih]
      · simp [spdxRecord, hp, he, ih]

theorem cdxLoop_fields {Purl : Type} (ops : PurlOps Purl) (env : Env) (inv : List (Pkg Purl)) (k : Nat) :
    (cdxLoop ops env k inv).map compFields =
      inv.map fun pkg => (pkg.name, pkg.version, (match pkg.purl with | some u => ops.str u | none => ""), pkg.locations) := by
  induction inv generalizing k with
  | nil => rfl
  | cons pkg rest ih =>
    simp only [cdxLoop, cdxComponent, compFields, List.map_cons, ih]
    cases pkg.purl <;> rfl

end Scalibr.Sbom
