/-
Helper lemmas for C03 (b): Go-map semantics of `set` on association lists (lookup, unique keys, last write
wins), and the per-format facts built on them.
-/
import Scalibr.Spec.Lockfiles
namespace Scalibr.Lockfiles

section maps
variable {κ ν : Type} [DecidableEq κ]

def keys (m : List (κ × ν)) : List κ := m.map (·.1)

theorem lookup_nil (k : κ) : lookup ([] : List (κ × ν)) k = none := rfl

theorem lookup_cons (e : κ × ν) (m : List (κ × ν)) (k : κ) :
    lookup (e :: m) k = if e.1 = k then some e.2 else lookup m k := by
  unfold lookup
  by_cases h : e.1 = k <;> simp [h]

theorem lookup_eq_none_iff (m : List (κ × ν)) (k : κ) : lookup m k = none ↔ k ∉ keys m := by
  induction m with
  | nil => simp [lookup, keys]
  | cons e m ih =>
    rw [lookup_cons]
    by_cases h : e.1 = k
    · simp [h, keys]
    · simp only [h, if_false, ih, keys, List.map_cons, List.mem_cons, not_or]
      exact ⟨fun hm => ⟨fun e' => h e'.symm, hm⟩, fun hm => hm.2⟩

theorem any_key_iff (m : List (κ × ν)) (k : κ) : m.any (fun kv => kv.1 = k) = true ↔ k ∈ keys m := by
  simp [keys, List.any_eq_true]

theorem keys_map_replace (m : List (κ × ν)) (k : κ) (v : ν) :
    keys (m.map (fun kv => if kv.1 = k then (k, v) else kv)) = keys m := by
  induction m with
  | nil => rfl
  | cons e m ih =>
    simp only [keys, List.map_cons] at ih ⊢
    rw [ih]
    by_cases h : e.1 = k <;> simp [h]

theorem keys_set (m : List (κ × ν)) (k : κ) (v : ν) :
    keys (set m k v) = if k ∈ keys m then keys m else keys m ++ [k] := by
  unfold set
  by_cases h : k ∈ keys m
  · rw [if_pos ((any_key_iff m k).mpr h), if_pos h, keys_map_replace]
  · have : ¬ (m.any (fun kv => kv.1 = k) = true) := fun e => h ((any_key_iff m k).mp e)
    rw [if_neg this, if_neg h]; simp [keys]

theorem nodup_set (m : List (κ × ν)) (k : κ) (v : ν) (h : (keys m).Nodup) : (keys (set m k v)).Nodup := by
  rw [keys_set]
  split
  · exact h
  · rename_i hk
    exact List.nodup_append.mpr ⟨h, by simp, by intro a ha b hb; simp at hb; subst hb; intro e; subst e; exact hk ha⟩

theorem lookup_map_replace (m : List (κ × ν)) (k k' : κ) (v : ν) :
    lookup (m.map (fun kv => if kv.1 = k then (k, v) else kv)) k'
      = if k' = k then (if k ∈ keys m then some v else none) else lookup m k' := by
  induction m with
  | nil => simp [lookup, keys]
  | cons e m ih =>
    simp only [List.map_cons, lookup_cons, ih, keys, List.mem_cons]
    by_cases h1 : e.1 = k
    · by_cases h2 : k' = k
      · subst h2; simp [h1]
      · have : ¬ k = k' := fun e => h2 e.symm
        simp [h1, h2, this]
    · by_cases h2 : k' = k
      · subst h2
        have h1' : (k' = e.1) = False := eq_false (fun e' => h1 e'.symm)
        simp only [h1, if_false, if_true, h1', false_or]
        by_cases hm : k' ∈ List.map (fun x => x.fst) m <;> simp [hm]
      · simp [h1, h2]

theorem lookup_append_single (m : List (κ × ν)) (k k' : κ) (v : ν) :
    lookup (m ++ [(k, v)]) k' = match lookup m k' with | some x => some x | none => if k = k' then some v else none := by
  induction m with
  | nil => simp [lookup_cons, lookup_nil]
  | cons e m ih =>
    simp only [List.cons_append, lookup_cons]
    by_cases h : e.1 = k' <;> simp [h, ih]

/-- `m[k] = v; m[k']` -/
theorem lookup_set (m : List (κ × ν)) (k k' : κ) (v : ν) :
    lookup (set m k v) k' = if k' = k then some v else lookup m k' := by
  unfold set
  by_cases h : k ∈ keys m
  · rw [if_pos ((any_key_iff m k).mpr h), lookup_map_replace]; simp [h]
  · have : ¬ (m.any (fun kv => kv.1 = k) = true) := fun e => h ((any_key_iff m k).mp e)
    rw [if_neg this, lookup_append_single]
    by_cases h2 : k' = k
    · subst h2
      have := (lookup_eq_none_iff m k').mpr h
      simp [this]
    · have h3 : ¬ k = k' := fun e => h2 e.symm
      simp only [h2, h3, if_false]
      cases lookup m k' <;> rfl

theorem mem_of_lookup (m : List (κ × ν)) (k : κ) (v : ν) (h : lookup m k = some v) : (k, v) ∈ m := by
  induction m with
  | nil => simp [lookup] at h
  | cons e m ih =>
    rw [lookup_cons] at h
    by_cases he : e.1 = k
    · simp only [he, if_true, Option.some.injEq] at h
      have : e = (k, v) := by cases e; simp_all
      simp [this]
    · simp only [he, if_false] at h
      exact List.mem_cons_of_mem _ (ih h)

theorem lookup_of_mem (m : List (κ × ν)) (k : κ) (v : ν) (hn : (keys m).Nodup) (h : (k, v) ∈ m) : lookup m k = some v := by
  induction m with
  | nil => simp at h
  | cons e m ih =>
    rw [lookup_cons]
    simp only [keys, List.map_cons, List.nodup_cons] at hn
    rcases List.mem_cons.mp h with h | h
    · subst h; simp
    · have hk : k ∈ keys m := by simp only [keys, List.mem_map]; exact ⟨(k, v), h, rfl⟩
      have : ¬ e.1 = k := by intro e'; rw [e'] at hn; exact hn.1 hk
      simp only [this, if_false]
      exact ih hn.2 h

/-- unique keys: membership is lookup -/
theorem mem_iff_lookup (m : List (κ × ν)) (hn : (keys m).Nodup) (k : κ) (v : ν) : (k, v) ∈ m ↔ lookup m k = some v :=
  ⟨lookup_of_mem m k v hn, mem_of_lookup m k v⟩

/-- a sequence of map writes -/
def insertAll (es : List (κ × ν)) (m : List (κ × ν)) : List (κ × ν) := es.foldl (fun m e => set m e.1 e.2) m

theorem nodup_insertAll (es : List (κ × ν)) : ∀ m : List (κ × ν), (keys m).Nodup → (keys (insertAll es m)).Nodup := by
  induction es with
  | nil => intro m h; exact h
  | cons e es ih => intro m h; exact ih _ (nodup_set m e.1 e.2 h)

/-- after a sequence of writes a key holds the value written last, or what it held before -/
theorem lookup_insertAll (es : List (κ × ν)) : ∀ (m : List (κ × ν)) (k : κ),
    lookup (insertAll es m) k = match lastOf es k with | some v => some v | none => lookup m k := by
  induction es with
  | nil => intro m k; simp [insertAll, lastOf]
  | cons e es ih =>
    intro m k
    show lookup (insertAll es (set m e.1 e.2)) k = _
    rw [ih, lookup_set]
    simp only [lastOf]
    cases lastOf es k with
    | some v => rfl
    | none =>
      by_cases h : k = e.1
      · subst h; simp
      · have : ¬ e.1 = k := fun e' => h e'.symm
        simp [h, this]

theorem lastOf_mem (es : List (κ × ν)) (k : κ) (v : ν) (h : lastOf es k = some v) : (k, v) ∈ es := by
  induction es with
  | nil => simp [lastOf] at h
  | cons e es ih =>
    simp only [lastOf] at h
    cases hl : lastOf es k with
    | some x => rw [hl] at h; simp at h; subst h; exact List.mem_cons_of_mem _ (ih hl)
    | none =>
      rw [hl] at h
      by_cases he : e.1 = k
      · simp [he] at h; have : e = (k, v) := by cases e; simp_all
        simp [this]
      · simp [he] at h

/-- if all writes to a key carry the same value, every write is visible at the end -/
theorem lastOf_of_mem (es : List (κ × ν)) (k : κ) (v : ν) (h : (k, v) ∈ es)
    (hc : ∀ e ∈ es, e.1 = k → e.2 = v) : lastOf es k = some v := by
  induction es with
  | nil => simp at h
  | cons e es ih =>
    simp only [lastOf]
    cases hl : lastOf es k with
    | some x =>
      have := lastOf_mem es k x hl
      have := hc (k, x) (List.mem_cons_of_mem _ this) rfl
      simp at this; simp [this]
    | none =>
      rcases List.mem_cons.mp h with h | h
      · subst h; simp
      · have := ih h (fun e he => hc e (List.mem_cons_of_mem _ he))
        rw [hl] at this; cases this

theorem lastOf_append (a b : List (κ × ν)) (k : κ) :
    lastOf (a ++ b) k = match lastOf b k with | some v => some v | none => lastOf a k := by
  induction a with
  | nil => simp [lastOf]; cases lastOf b k <;> rfl
  | cons e a ih =>
    simp only [List.cons_append, lastOf, ih]
    cases lastOf b k <;> simp

/-- a map's own entries, written in order, give back its lookups -/
theorem lastOf_self (m : List (κ × ν)) (hn : (keys m).Nodup) (k : κ) : lastOf m k = lookup m k := by
  induction m with
  | nil => rfl
  | cons e m ih =>
    simp only [keys, List.map_cons, List.nodup_cons] at hn
    simp only [lastOf, lookup_cons, ih hn.2]
    by_cases h : e.1 = k
    · have : lookup m k = none := (lookup_eq_none_iff m k).mpr (by rw [← h]; exact hn.1)
      simp [h, this]
    · simp only [h, if_false]; cases lookup m k <;> rfl

end maps
end Scalibr.Lockfiles

namespace Scalibr.Lockfiles
open Scalibr.Parsers

theorem goSlice_some (s : Str) (lo hi : Nat) (h1 : lo ≤ hi) (h2 : hi ≤ s.length) : (goSlice s lo hi).isSome := by
  simp [goSlice, h1, h2]

theorem lastIndexOf_lt (c : Char) : ∀ (s : Str) (i : Nat), lastIndexOf c s = some i → i < s.length := by
  intro s
  induction s with
  | nil => intro i h; simp [lastIndexOf] at h
  | cons x t ih =>
    intro i h
    simp only [lastIndexOf] at h
    cases hl : lastIndexOf c t with
    | some j => rw [hl] at h; simp at h; subst h; have := ih j hl; simp; omega
    | none => rw [hl] at h; by_cases hx : x = c <;> simp [hx] at h; subst h; simp

theorem hasPrefix_length (p s : Str) (h : hasPrefix p s = true) : p.length ≤ s.length := by
  unfold hasPrefix at h
  have h' : s.take p.length = p := by simpa using h
  have := congrArg List.length h'
  simp at this; omega

namespace PackageLock

/-- the alias branch never slices out of range (this is where the code panicked before fix 7578723d) -/
theorem aliasSplit_total (v : Str) (h : hasPrefix "npm:".toList v = true) : (aliasSplit v).isSome := by
  have hlen : 4 ≤ v.length := hasPrefix_length _ _ h
  have h4 := goSlice_some v 4 v.length hlen (Nat.le_refl _)
  unfold aliasSplit
  cases hl : lastIndexOf '@' v with
  | none => simpa using h4
  | some i =>
    have hi := lastIndexOf_lt '@' v i hl
    by_cases hgt : i > 4
    · have a := goSlice_some v 4 i (by omega) (by omega)
      have b := goSlice_some v (i + 1) v.length (by omega) (Nat.le_refl _)
      simp only [hgt, if_true]
      cases ha : goSlice v 4 i with
      | none => simp [ha] at a
      | some n => cases hb : goSlice v (i + 1) v.length with
        | none => simp [hb] at b
        | some fv => simp
    · simp only [hgt, if_false]; simpa using h4

theorem depEntry_total (name version commit : Str) : ∃ e, depEntry name version commit = some e := by
  have hal : ∃ nf, (if hasPrefix "npm:".toList version = true then aliasSplit version else some (name, version)) = some nf := by
    by_cases hp : hasPrefix "npm:".toList version = true
    · have := aliasSplit_total version hp
      cases ha : aliasSplit version with
      | none => simp [ha] at this
      | some nf => exact ⟨nf, by rw [if_pos hp]⟩
    · exact ⟨(name, version), by rw [if_neg hp]⟩
  obtain ⟨⟨n, fv⟩, hnf⟩ := hal
  unfold depEntry
  simp only [hnf]
  by_cases h1 : hasPrefix "file:".toList version = true
  · exact ⟨_, by rw [if_pos h1]⟩
  · by_cases h2 : (!commit.isEmpty) = true
    · exact ⟨_, by rw [if_neg h1, if_pos h2]⟩
    · exact ⟨_, by rw [if_neg h1, if_neg h2]⟩

theorem depEntry_entryOf (name version commit : Str) : depEntry name version commit = some (entryOf name version commit) := by
  obtain ⟨e, he⟩ := depEntry_total name version commit
  simp [entryOf, he]

/-- What a map looks like after `parseNpmLockDependencies` ran over a forest: unique keys, and every key holds
the value written last in the flattened tree (children before parent), or what it held before. -/
def DepsSpec (ds : List (Str × Details)) (m m' : PMap) : Prop :=
  (keys m').Nodup ∧ ∀ k, lookup m' k = match lastOf ds k with | some v => some v | none => lookup m k

mutual
theorem parseDeps_spec : ∀ (ds : List Dep) (m : PMap), (keys m).Nodup →
    ∃ m', parseDeps ds m = some m' ∧ DepsSpec (flatDeps ds) m m'
  | [], m, h => ⟨m, rfl, h, fun k => by simp [flatDeps, lastOf]⟩
  | d :: ds, m, h => by
    obtain ⟨m1, h1, hn1, hl1⟩ := parseDep_spec d m h
    obtain ⟨m2, h2, hn2, hl2⟩ := parseDeps_spec ds m1 hn1
    refine ⟨m2, by simp [parseDeps, h1, h2], hn2, fun k => ?_⟩
    rw [hl2 k, hl1 k, flatDeps, lastOf_append]
    cases lastOf (flatDeps ds) k <;> rfl
theorem parseDep_spec : ∀ (d : Dep) (m : PMap), (keys m).Nodup →
    ∃ m', parseDep d m = some m' ∧ DepsSpec (flatDep d) m m'
  | .mk name version commit deps, m, h => by
    obtain ⟨nested, hn, hnn, hnl⟩ := parseDeps_spec deps [] (by simp [keys])
    have he := depEntry_entryOf name version commit
    by_cases hnm : (entryOf name version commit).2.name.isEmpty = true
    · -- fix 4dbc0083: no write for an entry without a name
      refine ⟨insertAll nested m, ?_, nodup_insertAll nested m h, fun k => ?_⟩
      · simp [parseDep, hn, he, insertAll, hnm]
      · rw [lookup_insertAll, lastOf_self nested hnn, hnl k, flatDep, lastOf_append]
        simp only [hnm, if_true, lastOf, lookup_nil]
        cases lastOf (flatDeps deps) k <;> rfl
    · refine ⟨set (insertAll nested m) (entryOf name version commit).1 (entryOf name version commit).2, ?_, ?_, fun k => ?_⟩
      · simp [parseDep, hn, he, insertAll, hnm]
      · exact nodup_set _ _ _ (nodup_insertAll nested m h)
      · rw [lookup_set, lookup_insertAll, lastOf_self nested hnn, hnl k, flatDep, lastOf_append]
        simp only [hnm, Bool.false_eq_true, if_false, lastOf, lookup_nil]
        by_cases hk : k = (entryOf name version commit).1
        · subst hk; simp
        · have : ¬ (entryOf name version commit).1 = k := fun e => hk e.symm
          simp only [hk, this, if_false]
          cases lastOf (flatDeps deps) k <;> rfl
end

theorem parsePackages_eq (ps : List LPkg) : parsePackages ps = insertAll (pkgWrites ps) [] := by
  unfold parsePackages pkgWrites
  generalize ([] : PMap) = m
  induction ps generalizing m with
  | nil => rfl
  | cons p ps ih =>
    simp only [List.foldl_cons]
    by_cases hp : p.path.isEmpty = true
    · simp only [hp, if_true, List.filter_cons, Bool.not_true]
      simpa using ih m
    · simp only [hp, List.filter_cons, Bool.not_eq_true] at *
      simp only [hp, Bool.not_false, if_true, List.map_cons, insertAll, List.foldl_cons]
      simpa [insertAll] using ih (set m (pkgEntry p).1 (pkgEntry p).2)

end PackageLock

/-! first-occurrence de-duplication (`seen` maps) -/

theorem addOnce_nodup (acc : List NV) (p : NV) (h : acc.Nodup) : (PackagesLock.addOnce acc p).Nodup := by
  unfold PackagesLock.addOnce
  split
  · exact h
  · rename_i hc
    exact List.nodup_append.mpr ⟨h, by simp, by
      intro a ha b hb; simp at hb; subst hb; intro e; subst e; exact hc (by simpa using ha)⟩

theorem mem_addOnce (acc : List NV) (p q : NV) : q ∈ PackagesLock.addOnce acc p ↔ q ∈ acc ∨ q = p := by
  unfold PackagesLock.addOnce
  split
  · rename_i hc
    constructor
    · exact Or.inl
    · rintro (h | h)
      · exact h
      · subst h; simpa using hc
  · simp

theorem foldl_addOnce (es : List NV) : ∀ acc : List NV, acc.Nodup →
    (es.foldl PackagesLock.addOnce acc).Nodup ∧ ∀ q, q ∈ es.foldl PackagesLock.addOnce acc ↔ q ∈ acc ∨ q ∈ es := by
  induction es with
  | nil => intro acc h; exact ⟨h, by simp⟩
  | cons e es ih =>
    intro acc h
    obtain ⟨h1, h2⟩ := ih (PackagesLock.addOnce acc e) (addOnce_nodup acc e h)
    refine ⟨h1, fun q => ?_⟩
    simp only [List.foldl_cons, h2, mem_addOnce, List.mem_cons]
    constructor
    · rintro ((h | h) | h)
      · exact Or.inl h
      · exact Or.inr (Or.inl h)
      · exact Or.inr (Or.inr h)
    · rintro (h | h | h)
      · exact Or.inl (Or.inl h)
      · exact Or.inl (Or.inr h)
      · exact Or.inr h

end Scalibr.Lockfiles

namespace Scalibr.Lockfiles
open Scalibr.Parsers

section more
variable {κ ν : Type} [DecidableEq κ]

theorem mem_set (m : List (κ × ν)) (k : κ) (v : ν) (e : κ × ν) :
    e ∈ set m k v ↔ e = (k, v) ∨ (e ∈ m ∧ e.1 ≠ k) := by
  unfold set
  by_cases h : k ∈ keys m
  · rw [if_pos ((any_key_iff m k).mpr h)]
    simp only [List.mem_map]
    constructor
    · rintro ⟨a, ha, rfl⟩
      by_cases hk : a.1 = k
      · simp [hk]
      · simp [hk, ha]
    · rintro (rfl | ⟨he, hk⟩)
      · simp only [keys, List.mem_map] at h
        obtain ⟨a, ha, hak⟩ := h
        exact ⟨a, ha, by simp [hak]⟩
      · exact ⟨e, he, by simp [hk]⟩
  · have : ¬ (m.any (fun kv => kv.1 = k) = true) := fun e' => h ((any_key_iff m k).mp e')
    rw [if_neg this]
    simp only [List.mem_append, List.mem_singleton]
    constructor
    · rintro (he | rfl)
      · refine Or.inr ⟨he, ?_⟩
        intro hk; apply h; simp only [keys, List.mem_map]; exact ⟨e, he, hk⟩
      · exact Or.inl rfl
    · rintro (rfl | ⟨he, _⟩)
      · exact Or.inr rfl
      · exact Or.inl he

/-- the map built by a sequence of writes: unique keys; a pair is in it iff it is the last write to its key -/
theorem insertAll_spec (es : List (κ × ν)) :
    (keys (insertAll es [])).Nodup ∧ ∀ k v, (k, v) ∈ insertAll es [] ↔ lastOf es k = some v := by
  have hn := nodup_insertAll es [] (by simp [keys])
  refine ⟨hn, fun k v => ?_⟩
  rw [mem_iff_lookup _ hn, lookup_insertAll, lookup_nil]
  cases lastOf es k <;> simp

/-- … and when equal keys always carry equal values: iff it is one of the writes -/
theorem insertAll_complete (es : List (κ × ν)) (hc : ∀ e ∈ es, ∀ e' ∈ es, e.1 = e'.1 → e.2 = e'.2) (e : κ × ν) :
    e ∈ insertAll es [] ↔ e ∈ es := by
  obtain ⟨k, v⟩ := e
  rw [(insertAll_spec es).2]
  constructor
  · exact lastOf_mem es k v
  · intro h; exact lastOf_of_mem es k v h (fun e' he' hk => hc e' he' (k, v) h hk)

/-- first write wins (`if _, ok := m[k]; !ok { m[k] = v }`) -/
def addFirst (m : List (κ × ν)) (e : κ × ν) : List (κ × ν) := if (lookup m e.1).isSome then m else m ++ [e]
def insertFirst (es : List (κ × ν)) (m : List (κ × ν)) : List (κ × ν) := es.foldl addFirst m

theorem keys_addFirst_nodup (m : List (κ × ν)) (e : κ × ν) (h : (keys m).Nodup) : (keys (addFirst m e)).Nodup := by
  unfold addFirst
  split
  · exact h
  · rename_i hs
    have hk : e.1 ∉ keys m := by
      rw [← lookup_eq_none_iff]; cases hl : lookup m e.1 <;> simp_all
    simp only [keys, List.map_append, List.map_cons, List.map_nil]
    exact List.nodup_append.mpr ⟨h, by simp, by intro a ha b hb; simp at hb; subst hb; intro e'; subst e'; exact hk ha⟩

theorem lookup_addFirst (m : List (κ × ν)) (e : κ × ν) (k : κ) :
    lookup (addFirst m e) k = match lookup m k with | some x => some x | none => if e.1 = k then some e.2 else none := by
  unfold addFirst
  split
  · rename_i hs
    cases hl : lookup m k with
    | some x => rfl
    | none =>
      by_cases hk : e.1 = k
      · rw [hk] at hs; simp [hl] at hs
      · simp [hk]
  · obtain ⟨a, b⟩ := e
    exact lookup_append_single m a k b

theorem insertFirst_spec (es : List (κ × ν)) : ∀ m : List (κ × ν), (keys m).Nodup →
    (keys (insertFirst es m)).Nodup ∧
    ∀ k, lookup (insertFirst es m) k = match lookup m k with | some x => some x | none => lookup es k := by
  induction es with
  | nil => intro m h; exact ⟨h, fun k => by simp [insertFirst, lookup_nil]; cases lookup m k <;> rfl⟩
  | cons e es ih =>
    intro m h
    obtain ⟨h1, h2⟩ := ih (addFirst m e) (keys_addFirst_nodup m e h)
    refine ⟨h1, fun k => ?_⟩
    show lookup (insertFirst es (addFirst m e)) k = _
    rw [h2, lookup_addFirst, lookup_cons]
    cases lookup m k with
    | some x => rfl
    | none => by_cases hk : e.1 = k <;> simp [hk]

/-- values of a map whose key is a function of the value are pairwise distinct -/
theorem values_nodup (m : List (κ × ν)) (f : ν → κ) (hk : ∀ e ∈ m, e.1 = f e.2) (hn : (keys m).Nodup) :
    (m.map (·.2)).Nodup := by
  induction m with
  | nil => simp
  | cons e m ih =>
    simp only [keys, List.map_cons, List.nodup_cons] at hn ⊢
    refine ⟨?_, ih (fun x hx => hk x (List.mem_cons_of_mem _ hx)) hn.2⟩
    intro hm
    apply hn.1
    simp only [List.mem_map] at hm ⊢
    obtain ⟨x, hx, hxe⟩ := hm
    exact ⟨x, hx, by rw [hk x (List.mem_cons_of_mem _ hx), hk e (by simp), hxe]⟩

end more

/-! ### Pipfile.lock -/
namespace Pipfile


theorem pinned_form (name v : Str) :
    (pinnedV (name, v) = none ∧ (v.isEmpty || (!hasPrefix "==".toList v || decide (v.length < 3))) = true) ∨
    (∃ c rest, v = '=' :: '=' :: c :: rest) := by
  rcases v with _ | ⟨a, _ | ⟨b, _ | ⟨c, rest⟩⟩⟩
  · left; exact ⟨rfl, rfl⟩
  · left; refine ⟨?_, by simp⟩
    unfold pinnedV; split
    · rename_i h; simp at h
    · rfl
  · left; refine ⟨?_, by simp⟩
    unfold pinnedV; split
    · rename_i h; simp at h
    · rfl
  · by_cases hp : a = '=' ∧ b = '='
    · right; obtain ⟨rfl, rfl⟩ := hp; exact ⟨c, rest, rfl⟩
    · left; constructor
      · unfold pinnedV; split
        · rename_i h; simp at h; exact absurd ⟨h.1, h.2.1⟩ hp
        · rfl
      · have : hasPrefix "==".toList (a :: b :: c :: rest) = false := by
          simp only [hasPrefix]
          have : "==".toList = ['=', '='] := rfl
          rw [this]; simp; intro ha hb; exact hp ⟨ha, hb⟩
        rw [this]; simp

theorem addPkgs_eq : ∀ (es : List (Str × Str)) (details : List (Str × NV)),
    addPkgs details es = some (insertFirst (es.filterMap pinnedKV) details) := by
  intro es
  induction es with
  | nil => intro d; rfl
  | cons e es ih =>
    intro d
    obtain ⟨name, v⟩ := e
    by_cases hname : name.isEmpty = true
    · -- fix ed6d851c: an entry under an empty key is skipped
      have h3 : pinnedKV (name, v) = none := by simp [pinnedKV, pinned, hname]
      have hstep : addPkgs d ((name, v) :: es) = addPkgs d es := by simp [addPkgs, hname]
      rw [hstep, ih, List.filterMap_cons, h3]
    rcases pinned_form name v with ⟨hn, hg⟩ | ⟨c, rest, rfl⟩
    · have h3 : pinnedKV (name, v) = none := by simp [pinnedKV, pinned, hn]
      have hstep : addPkgs d ((name, v) :: es) = addPkgs d es := by
        by_cases he : v.isEmpty = true
        · simp [addPkgs, he]
        · have hg' : (!hasPrefix "==".toList v || decide (v.length < 3)) = true := by
            cases hv : v.isEmpty <;> simp_all
          have hname' : name.isEmpty = false := by simpa using hname
          simp only [addPkgs, he, hname', Bool.or_self, Bool.false_eq_true, if_false, hg', if_true]
      rw [hstep, ih, List.filterMap_cons, h3]
    · have h1 : (!hasPrefix "==".toList ('=' :: '=' :: c :: rest) || decide (('=' :: '=' :: c :: rest).length < 3)) = false := by
        have : "==".toList = ['=', '='] := rfl
        simp [hasPrefix, this]
      have h2 : goSlice ('=' :: '=' :: c :: rest) 2 ('=' :: '=' :: c :: rest).length = some (c :: rest) := by
        simp [goSlice]
      have h3 : pinnedKV (name, '=' :: '=' :: c :: rest) = some (name ++ '@' :: (c :: rest), ⟨name, c :: rest⟩) := by
        simp [pinnedKV, pinned, pinnedV, keyNV, hname]
      have hname' : name.isEmpty = false := by simpa using hname
      simp only [addPkgs, hname', Bool.or_self, List.isEmpty_cons, Bool.false_eq_true, if_false, h1, h2,
        List.filterMap_cons, h3, insertFirst, List.foldl_cons, addFirst]
      split
      · exact ih d
      · exact ih _

end Pipfile

/-! ### go.mod -/
namespace GoMod

theorem applyReplace_eq (m : KMap) (rp : Replace) : applyReplace m rp = m.map (fun kv => step kv rp) := by
  unfold applyReplace step
  by_cases h : rp.oldVersion.isEmpty = true <;> simp [h]

theorem foldl_applyReplace (rps : List Replace) : ∀ m : KMap,
    rps.foldl applyReplace m = m.map (fun kv => rps.foldl step kv) := by
  induction rps with
  | nil => intro m; simp
  | cons rp rps ih => intro m; simp [List.foldl_cons, ih, applyReplace_eq, List.map_map, Function.comp_def]

theorem step_key (kv : (Str × Str) × NV) (rp : Replace) : (step kv rp).1 = kv.1 := by
  unfold step; split <;> split <;> rfl

theorem foldl_step_key (rps : List Replace) : ∀ kv, (rps.foldl step kv).1 = kv.1 := by
  induction rps with
  | nil => intro kv; rfl
  | cons rp rps ih => intro kv; simp [List.foldl_cons, ih, step_key]

theorem requires_eq (rs : List (Str × Str)) : ∀ m : KMap,
    rs.foldl addRequire m = insertAll (rs.map fun r => (keyOf r, (⟨r.1, trimPrefixV r.2⟩ : NV))) m := by
  induction rs with
  | nil => intro m; rfl
  | cons r rs ih => intro m; simp only [List.foldl_cons, List.map_cons, insertAll]; exact ih _

end GoMod

/-! ### `dedup`, `tabulate`: the executable right-hand sides of the C03 (b) theorems -/

section Dedup
variable {α : Type} [DecidableEq α]

theorem mem_dedup (l : List α) (x : α) : x ∈ dedup l ↔ x ∈ l := by
  induction l with
  | nil => simp [dedup]
  | cons a l ih =>
    simp only [dedup]
    by_cases h : a ∈ l
    · simp only [h, if_true, ih, List.mem_cons]
      constructor
      · exact Or.inr
      · rintro (rfl | h') <;> assumption
    · simp only [h, if_false, List.mem_cons, ih]

theorem nodup_dedup (l : List α) : (dedup l).Nodup := by
  induction l with
  | nil => simp [dedup]
  | cons a l ih =>
    simp only [dedup]
    by_cases h : a ∈ l
    · simpa [h] using ih
    · simp only [h, if_false, List.nodup_cons]
      exact ⟨fun hm => h ((mem_dedup l a).mp hm), ih⟩

theorem perm_dedup_of_nodup (l m : List α) (hn : l.Nodup) (h : ∀ x, x ∈ l ↔ x ∈ m) : l.Perm (dedup m) :=
  (List.perm_ext_iff_of_nodup hn (nodup_dedup m)).mpr fun x => by rw [h x, mem_dedup]
end Dedup

section Tabulate
variable {κ ν : Type} [DecidableEq κ]

theorem mem_tabulate (ks : List κ) (f : κ → Option ν) (k : κ) (x : ν) : (k, x) ∈ tabulate ks f ↔ k ∈ ks ∧ f k = some x := by
  simp only [tabulate, List.mem_filterMap, mem_dedup]
  constructor
  · rintro ⟨k', hk, h⟩
    cases hf : f k' with
    | none => rw [hf] at h; simp at h
    | some y =>
      rw [hf] at h
      simp only [Option.map_some, Option.some.injEq, Prod.mk.injEq] at h
      obtain ⟨rfl, rfl⟩ := h
      exact ⟨hk, hf⟩
  · rintro ⟨hk, hf⟩
    exact ⟨k, hk, by simp [hf]⟩

theorem keys_filterMap_tab (f : κ → Option ν) : ∀ l : List κ, l.Nodup →
    (keys (l.filterMap fun k => (f k).map fun x => (k, x))).Nodup ∧
    ∀ k, k ∈ keys (l.filterMap fun k => (f k).map fun x => (k, x)) → k ∈ l := by
  intro l
  induction l with
  | nil => intro _; simp [keys]
  | cons a l ih =>
    intro hn
    obtain ⟨h1, h2⟩ := ih (List.nodup_cons.mp hn).2
    cases hf : f a with
    | none => simp only [List.filterMap_cons, hf, Option.map_none]; exact ⟨h1, fun k hk => by simp [h2 k hk]⟩
    | some y =>
      simp only [List.filterMap_cons, hf, Option.map_some, keys, List.map_cons, List.nodup_cons, List.mem_cons]
      refine ⟨⟨fun hm => (List.nodup_cons.mp hn).1 (h2 a hm), h1⟩, ?_⟩
      rintro k (rfl | hk)
      · exact Or.inl rfl
      · exact Or.inr (h2 k hk)

theorem keys_tabulate_nodup (ks : List κ) (f : κ → Option ν) : (keys (tabulate ks f)).Nodup :=
  (keys_filterMap_tab f (dedup ks) (nodup_dedup ks)).1

theorem nodup_of_keys (m : List (κ × ν)) (h : (keys m).Nodup) : m.Nodup := by
  induction m with
  | nil => simp
  | cons e m ih =>
    simp only [keys, List.map_cons, List.nodup_cons] at h
    exact List.nodup_cons.mpr ⟨fun hm => h.1 (List.mem_map.mpr ⟨e, hm, rfl⟩), ih h.2⟩

/-- two key-unique maps with the same entries are permutations of each other -/
theorem perm_of_keys_nodup [DecidableEq ν] (m m' : List (κ × ν)) (h1 : (keys m).Nodup) (h2 : (keys m').Nodup) (h : ∀ e, e ∈ m ↔ e ∈ m') :
    m.Perm m' :=
  (List.perm_ext_iff_of_nodup (nodup_of_keys m h1) (nodup_of_keys m' h2)).mpr h
end Tabulate

end Scalibr.Lockfiles
