/-
Helper lemmas for C05: consecutive views, the "skipped layers keep the view constant" invariant the
`filesExistInLayer` optimisation relies on, validity of the extraction cache, the main invariant of
the backwards loop, uniqueness of the origin, and the history alignment.
-/
import Scalibr.Spec.Trace
namespace Scalibr.Trace

/-- model-side helper: membership in an optional package list -/
def has (v : Option (List Pkg)) (p : Pkg) : Bool :=
  match v with
  | some ps => ps.contains p
  | none => false

theorem viewAt_succ (h : History) (i : Nat) (hi : i + 1 < h.length) :
    viewAt h (i+1) = applyOp (viewAt h i) h[i+1] := by
  unfold viewAt
  rw [List.take_succ_eq_append_getElem hi, List.foldl_append]
  simp

theorem viewAt_zero (h : History) (h0 : 0 < h.length) : viewAt h 0 = applyOp none h[0] := by
  unfold viewAt
  match h, h0 with
  | x :: xs, _ => simp

theorem viewAt_beyond (h : History) (i : Nat) (hi : h.length ≤ i + 1) : viewAt h (i+1) = viewAt h i := by
  unfold viewAt
  rw [List.take_of_length_le (by omega), List.take_of_length_le (by omega)]

/-- The specification's downward scan and the model's upward fold describe the same views. -/
theorem lastTouch_view (h : History) : ∀ i,
    viewAt h i = (match lastTouch h i with
      | some (.write ps) => some ps
      | some (.link ps) => some ps
      | _ => none)
  | 0 => by
    unfold lastTouch
    by_cases h0 : 0 < h.length
    · rw [viewAt_zero h h0]
      have hget : h[0]? = some h[0] := by simp [h0]
      rw [hget]
      cases h[0] <;> simp [applyOp]
    · have : h = [] := by cases h with | nil => rfl | cons a t => simp at h0
      subst this
      simp [viewAt]
  | i+1 => by
    unfold lastTouch
    by_cases hi : i + 1 < h.length
    · rw [viewAt_succ h i hi]
      have hget : h[i+1]? = some h[i+1] := by simp [hi]
      rw [hget]
      cases hop : h[i+1] with
      | keep => simp only [applyOp]; exact lastTouch_view h i
      | write ps => simp [applyOp]
      | link ps => simp [applyOp]
      | delete => simp [applyOp]
    · have hnone : h[i+1]? = none := by simp; omega
      rw [hnone, viewAt_beyond h i (by omega)]
      exact lastTouch_view h i

theorem present_eq (h : History) (i : Nat) (p : Pkg) : present h i p = has (viewAt h i) p := by
  unfold present
  rw [lastTouch_view h i]
  cases lastTouch h i with
  | none => rfl
  | some op => cases op <;> rfl

/-- a layer whose own diff lacks the file, in whose view the file exists, is a `keep` -/
theorem skipped_is_keep (h : History) (i : Nat) (hi : i < h.length) (hnd : inDiff h i = false)
    (hs : (viewAt h i).isSome = true) : h[i] = .keep := by
  unfold inDiff at hnd
  have hget : h[i]? = some h[i] := by simp [hi]
  rw [hget] at hnd
  cases hop : h[i] with
  | keep => rfl
  | write q => simp [hop] at hnd
  | link q => simp [hop] at hnd
  | delete =>
    cases i with
    | zero => rw [viewAt_zero h hi, hop] at hs; simp [applyOp] at hs
    | succ i => rw [viewAt_succ h i hi, hop] at hs; simp [applyOp] at hs

/-- across layers that keep the file the view does not change -/
theorem keep_const (h : History) (i : Nat) :
    ∀ d, i + d < h.length → (∀ k, i < k → k ≤ i + d → ∃ hk : k < h.length, h[k] = .keep) →
      viewAt h (i + d) = viewAt h i := by
  intro d
  induction d with
  | zero => intro _ _; rfl
  | succ d ih =>
    intro hd hk
    obtain ⟨hlt, hkeep⟩ := hk (i + d + 1) (by omega) (by omega)
    rw [show i + (d + 1) = (i + d) + 1 by omega, viewAt_succ h (i + d) hlt, hkeep]
    simp only [applyOp]
    exact ih (by omega) (fun k h1 h2 => hk k h1 (by omega))

/-- the first layer cannot be skipped: a file present in view 0 was written by layer 0 -/
theorem view0_not_keep (h : History) (h0 : 0 < h.length) (hk : h[0] = .keep) : viewAt h 0 = none := by
  rw [viewAt_zero h h0, hk]; rfl

theorem isOrigin_unique (h : History) (p : Pkg) (L1 L2 : Nat) (h1 : IsOrigin h p L1) (h2 : IsOrigin h p L2) :
    L1 = L2 := by
  have a := h1.2.2 L2 h2.1 h2.2.1
  have b := h2.2.2 L1 h1.1 h1.2.1
  omega

theorem originSpec_iff (h : History) (p : Pkg) (L : Nat) : originSpec h p = some L ↔ IsOrigin h p L := by
  unfold originSpec IsOrigin
  simp only [List.find?_range_eq_some, List.all_eq_true, List.mem_range, Bool.or_eq_true, decide_eq_true_eq,
    Bool.not_eq_eq_eq_not, Bool.not_true, List.all_eq_false]
  constructor
  · rintro ⟨hall, hL, hleast⟩
    refine ⟨hL, ?_, ?_⟩
    · intro j h1 h2
      rcases hall j h2 with h3 | h3
      · omega
      · exact h3
    · intro L' hL' hpres
      by_cases hlt : L' < L
      · obtain ⟨j, hj, hno⟩ := hleast L' hlt
        have hge : L' ≤ j := by
          apply Classical.byContradiction; intro hc; exact hno (Or.inl (by omega))
        exact (hno (Or.inr (hpres j hge hj))).elim
      · omega
  · rintro ⟨hL, hpres, hleast⟩
    refine ⟨?_, hL, ?_⟩
    · intro j hj
      by_cases hlt : j < L
      · exact Or.inl hlt
      · exact Or.inr (hpres j (by omega) hj)
    · intro L' hlt
      -- if every view from L' on had the package, L would not be least
      apply Classical.byContradiction
      intro hcon
      have hall : ∀ j, L' ≤ j → j < h.length → present h j p = true := by
        intro j h1 h2
        apply Classical.byContradiction
        intro hnp
        apply hcon
        refine ⟨j, h2, ?_⟩
        rintro (hlt' | hpr)
        · omega
        · exact hnp hpr
      have := hleast L' (by omega) hall
      omega

/-! ### the extraction cache -/

/-- every cached entry is what re-extraction would give: the packages of that file in that view
([] when the file is absent) -/
def CacheOK (img : Nat → History) (c : Cache) : Prop :=
  ∀ f i ps, c (f, i) = some ps → ps = (viewAt (img f) i).getD []

theorem cacheOK_empty (img : Nat → History) : CacheOK img Cache.empty := by
  intro f i ps h; simp [Cache.empty] at h

theorem cacheOK_insert (img : Nat → History) (c : Cache) (f i : Nat) (hc : CacheOK img c) :
    CacheOK img (c.insert (f, i) ((viewAt (img f) i).getD [])) := by
  intro f' i' ps h
  unfold Cache.insert at h
  split at h
  · rename_i heq
    simp only [Prod.mk.injEq] at heq
    obtain ⟨rfl, rfl⟩ := heq
    simp only [Option.some.injEq] at h
    exact h.symm
  · exact hc f' i' ps h

theorem has_getD (v : Option (List Pkg)) (p : Pkg) : has v p = (v.getD []).contains p := by
  cases v <;> simp [has]

/-- the outcomes of `fetch` on a valid cache: the packages of view `i` (cached or re-extracted), a skip
(file present in the view, absent from the layer's diff), or a failed run (only when cancelled) -/
theorem fetch_cases (img : Nat → History) (diff : Nat → Bool) (cancelAt : Option Nat) (f i : Nat) (s : St)
    (hd : ∀ i, diff i = inDiff (img f) i) (hc : CacheOK img s.cache) :
    (∃ s', fetch (img f) diff cancelAt f i s = .pkgs ((viewAt (img f) i).getD []) s' ∧ CacheOK img s'.cache) ∨
    (fetch (img f) diff cancelAt f i s = .skip ∧ inDiff (img f) i = false ∧ (viewAt (img f) i).isSome = true) ∨
    (fetch (img f) diff cancelAt f i s = .err ∧ cancelled cancelAt s.runs = true) := by
  unfold fetch
  rw [hd i]
  cases hcf : s.cache (f, i) with
  | some ps =>
    left
    refine ⟨s, ?_, hc⟩
    simp only []
    rw [hc f i ps hcf]
  | none =>
    simp only []
    cases hv : viewAt (img f) i with
    | none =>
      left
      refine ⟨⟨s.cache.insert (f, i) [], s.runs⟩, by simp, ?_⟩
      have := cacheOK_insert img s.cache f i hc
      rw [hv] at this
      simpa using this
    | some ps =>
      simp only []
      by_cases hd : inDiff (img f) i = true
      · by_cases hcan : cancelled cancelAt s.runs = true
        · right; right
          simp [hd, hcan]
        · left
          refine ⟨⟨s.cache.insert (f, i) ps, s.runs + 1⟩, by simp [hd, hcan], ?_⟩
          have := cacheOK_insert img s.cache f i hc
          rw [hv] at this
          simpa using this
      · right; left
        simp only [Bool.not_eq_true] at hd
        simp [hd]

/-- what the trace of one package may return: THE origin, or nothing at all when a re-extraction failed
(which only a cancelled context causes) -/
def Traced (img : Nat → History) (cancelAt : Option Nat) (f : Nat) (p : Pkg) (r : Option Nat × St) : Prop :=
  ((∃ L, r.1 = some L ∧ IsOrigin (img f) p L) ∨ (r.1 = none ∧ cancelled cancelAt r.2.runs = true)) ∧
  CacheOK img r.2.cache

/-- Main invariant of the backwards loop. `cnt` layers remain (indices `cnt-1 … 0`); `last` is
`lastScannedLayerIndex`; the package is in every view from `last` on; the layers strictly between were
skipped, i.e. they keep the file and the file exists there. -/
theorem loop_isOrigin (img : Nat → History) (diff : Nat → Bool) (cancelAt : Option Nat) (f : Nat) (p : Pkg)
    (hd : ∀ i, diff i = inDiff (img f) i) :
    ∀ cnt last s, cnt ≤ last → last < (img f).length → CacheOK img s.cache →
      (∀ j, last ≤ j → j < (img f).length → present (img f) j p = true) →
      (∀ k, cnt ≤ k → k < last → ∃ hk : k < (img f).length, (img f)[k] = .keep ∧ (viewAt (img f) k).isSome = true) →
      Traced img cancelAt f p (loop (img f) diff cancelAt f p cnt last s) := by
  intro cnt
  induction cnt with
  | zero =>
    intro last s _ hlast hc hP hZ
    simp only [loop]
    refine ⟨Or.inl ⟨0, rfl, by omega, ?_, fun L' _ _ => Nat.zero_le _⟩, hc⟩
    intro j _ hj
    by_cases hl : last = 0
    · exact hP j (by omega) hj
    · obtain ⟨hk, hkeep, hsome⟩ := hZ 0 (Nat.le_refl _) (by omega)
      rw [view0_not_keep (img f) hk hkeep] at hsome
      cases hsome
  | succ i ih =>
    intro last s hle hlast hc hP hZ
    -- the views on [i, last) coincide with view i
    have hconst : ∀ j, i ≤ j → j < last → viewAt (img f) j = viewAt (img f) i := by
      intro j h1 h2
      obtain ⟨d, rfl⟩ := Nat.exists_eq_add_of_le h1
      apply keep_const (img f) i d (by omega)
      intro k hk1 hk2
      obtain ⟨hk, hkeep, _⟩ := hZ k (by omega) (by omega)
      exact ⟨hk, hkeep⟩
    simp only [loop]
    rcases fetch_cases img diff cancelAt f i s hd hc with ⟨s', hf, hc'⟩ | ⟨hf, hnd, hsome⟩ | ⟨hf, hcan⟩
    · rw [hf]
      simp only []
      by_cases hin : ((viewAt (img f) i).getD []).contains p = true
      · simp only [hin, if_true]
        apply ih i s' (Nat.le_refl _) (by omega) hc'
        · intro j h1 h2
          by_cases hjl : j < last
          · rw [present_eq, hconst j h1 hjl, has_getD]; exact hin
          · exact hP j (by omega) h2
        · intro k h1 h2; omega
      · simp only [hin, Bool.false_eq_true, if_false]
        refine ⟨Or.inl ⟨last, rfl, hlast, hP, ?_⟩, hc'⟩
        intro L' hL' hpres
        apply Classical.byContradiction
        intro hlt
        -- some index in [i, last) would have the package
        have hlt' : L' < last := by omega
        have hmax : max L' i < last := by
          rcases Nat.le_total L' i with h1 | h1
          · rw [Nat.max_eq_right h1]; omega
          · rw [Nat.max_eq_left h1]; exact hlt'
        have hj : present (img f) (max L' i) p = true := hpres (max L' i) (Nat.le_max_left _ _) (by omega)
        rw [present_eq] at hj
        rw [hconst (max L' i) (Nat.le_max_right _ _) hmax, has_getD] at hj
        exact hin hj
    · rw [hf]
      simp only []
      apply ih last s (by omega) hlast hc hP
      intro k h1 h2
      by_cases hk : k = i
      · subst hk
        exact ⟨by omega, skipped_is_keep (img f) k (by omega) hnd hsome, hsome⟩
      · exact hZ k (by omega) h2
    · rw [hf]
      exact ⟨Or.inr ⟨rfl, hcan⟩, hc⟩

/-- the trace of one package from any valid shared state -/
theorem traceC_traced (img : Nat → History) (diff : Nat → Bool) (cancelAt : Option Nat) (f : Nat) (p : Pkg) (s : St)
    (hd : ∀ i, diff i = inDiff (img f) i)
    (hc : CacheOK img s.cache) (hp : present (img f) ((img f).length - 1) p = true) :
    Traced img cancelAt f p (traceC (img f) diff cancelAt f p s) := by
  have hn : 0 < (img f).length := by
    cases hh : img f with
    | nil => rw [hh] at hp; simp [present_eq, viewAt, has] at hp
    | cons a t => simp
  exact loop_isOrigin img diff cancelAt f p hd ((img f).length - 1) ((img f).length - 1) s (Nat.le_refl _) (by omega) hc
    (fun j h1 h2 => by
      have : j = (img f).length - 1 := by omega
      subst this; exact hp) (fun k h1 h2 => by omega)

/-! ### inserting a layer that does not touch the file -/

theorem viewAt_insertKeep (h : History) (k : Nat) (hk : k ≤ h.length) (j : Nat) :
    viewAt (insertKeep h k) j = if j < k then viewAt h j else (match j with | 0 => none | j'+1 => viewAt h j') := by
  unfold viewAt insertKeep
  have hlen : (h.take k).length = k := by simp [List.length_take]; omega
  split
  · rename_i hj
    rw [List.take_append_of_le_length (by omega), List.take_take]
    congr 2
    omega
  · rename_i hj
    rw [List.take_append, hlen, List.foldl_append]
    have : j + 1 - k = (j - k) + 1 := by omega
    rw [this, List.take_succ_cons, List.foldl_cons]
    simp only [applyOp]
    rw [← List.foldl_append, List.take_take, show min (j+1) k = k by omega, ← List.take_add]
    cases j with
    | zero =>
      have : k = 0 := by omega
      subst this; simp
    | succ j' =>
      simp only []
      congr 2
      omega

theorem length_insertKeep (h : History) (k : Nat) (hk : k ≤ h.length) : (insertKeep h k).length = h.length + 1 := by
  simp [insertKeep, List.length_take, List.length_drop]; omega

theorem present_insertKeep_lt (h : History) (p : Pkg) (k j : Nat) (hk : k ≤ h.length) (hj : j < k) :
    present (insertKeep h k) j p = present h j p := by
  rw [present_eq, present_eq, viewAt_insertKeep h k hk j]; simp [hj]

theorem present_insertKeep_ge (h : History) (p : Pkg) (k j : Nat) (hk : k ≤ h.length) (hj : k ≤ j + 1) :
    present (insertKeep h k) (j+1) p = present h j p := by
  rw [present_eq, present_eq, viewAt_insertKeep h k hk (j+1)]
  have : ¬ (j + 1 < k) := by omega
  simp [this]

theorem present_insertKeep_zero (h : History) (p : Pkg) : present (insertKeep h 0) 0 p = false := by
  rw [present_eq, viewAt_insertKeep h 0 (Nat.zero_le _) 0]; simp [has]

theorem isOrigin_insertKeep (h : History) (p : Pkg) (k L : Nat) (hk : k ≤ h.length) (ho : IsOrigin h p L) :
    IsOrigin (insertKeep h k) p (shift k L) := by
  obtain ⟨hL, hpres, hleast⟩ := ho
  have hlen := length_insertKeep h k hk
  unfold shift
  refine ⟨by rw [hlen]; split <;> omega, ?_, ?_⟩
  · intro j h1 h2
    rw [hlen] at h2
    by_cases hjk : j < k
    · rw [present_insertKeep_lt h p k j hk hjk]
      apply hpres j _ (by omega)
      split at h1 <;> omega
    · cases j with
      | zero =>
        have : k = 0 := by omega
        subst this
        simp at h1
      | succ j' =>
        rw [present_insertKeep_ge h p k j' hk (by omega)]
        apply hpres j' _ (by omega)
        split at h1 <;> omega
  · intro L'' hL'' hp''
    rw [hlen] at hL'' hp''
    apply Classical.byContradiction
    intro hcon
    by_cases hLk : L < k
    · simp only [hLk, if_true] at hcon
      -- L'' < L < k: the package would be present in h from L'' on
      have := hleast L'' (by omega) (fun j h1 h2 => by
        by_cases hjk : j < k
        · rw [← present_insertKeep_lt h p k j hk hjk]; exact hp'' j h1 (by omega)
        · rw [← present_insertKeep_ge h p k j hk (by omega)]; exact hp'' (j+1) (by omega) (by omega))
      omega
    · simp only [hLk, if_false] at hcon
      have hL''le : L'' ≤ L := by omega
      by_cases hgt : k < L''
      · -- shift down by one
        have := hleast (L'' - 1) (by omega) (fun j h1 h2 => by
          rw [← present_insertKeep_ge h p k j hk (by omega)]; exact hp'' (j+1) (by omega) (by omega))
        omega
      · have hall : ∀ j, L'' ≤ j → j < h.length → present h j p = true := by
          intro j h1 h2
          by_cases hjk : j < k
          · rw [← present_insertKeep_lt h p k j hk hjk]; exact hp'' j h1 (by omega)
          · rw [← present_insertKeep_ge h p k j hk (by omega)]; exact hp'' (j+1) (by omega) (by omega)
        have h3 := hleast L'' (by omega) hall
        have hkL : k = L := by omega
        have hL''L : L'' = L := by omega
        -- the inserted layer's own view is the view below it
        have hk' := hp'' k (by omega) (by omega)
        cases k with
        | zero => rw [present_insertKeep_zero] at hk'; cases hk'
        | succ k' =>
          rw [present_insertKeep_ge h p (k'+1) k' hk (by omega)] at hk'
          have := hleast k' (by omega) (fun j h1 h2 => by
            by_cases hj : j = k'
            · subst hj; exact hk'
            · exact hpres j (by omega) h2)
          omega
/-! ### history alignment -/

theorem alignLoop_spec (nLayers : Nat) :
    ∀ (hist : List HEntry) (v hi : Nat) (acc : List ChainMeta),
      v + (hist.filter (fun e => !e.empty)).length ≤ nLayers →
      alignLoop nLayers hist v hi acc =
        some (acc ++ alignSpec hist v hi, v + (hist.filter (fun e => !e.empty)).length, hi + hist.length)
  | [], v, hi, acc, _ => by simp [alignLoop, alignSpec]
  | e :: rest, v, hi, acc, hle => by
    cases he : e.empty with
    | true =>
      simp only [alignLoop, alignSpec, he, if_true, List.filter_cons, Bool.not_true, Bool.false_eq_true, if_false] at hle ⊢
      rw [alignLoop_spec nLayers rest v (hi+1) _ hle]
      simp only [List.append_assoc, List.singleton_append, List.length_cons, Option.some.injEq, Prod.mk.injEq, true_and]
      omega
    | false =>
      simp only [List.filter_cons, he, Bool.not_false, if_true, List.length_cons] at hle
      have hv : ¬ v ≥ nLayers := by omega
      simp only [alignLoop, alignSpec, he, Bool.false_eq_true, if_false, hv, List.filter_cons, Bool.not_false,
        if_true, List.length_cons]
      rw [alignLoop_spec nLayers rest (v+1) (hi+1) _ (by omega)]
      simp only [List.append_assoc, List.singleton_append, Option.some.injEq, Prod.mk.injEq, true_and]
      omega

theorem alignRest_done (nLayers : Nat) : ∀ fuel v hi acc, nLayers ≤ v → alignRest nLayers fuel v hi acc = acc
  | 0, _, _, _, _ => rfl
  | fuel+1, v, hi, acc, h => by
    have : ¬ v < nLayers := by omega
    simp [alignRest, this]

theorem alignSpec_length : ∀ (hist : List HEntry) (v hi : Nat), (alignSpec hist v hi).length = hist.length
  | [], _, _ => rfl
  | e :: rest, v, hi => by
    unfold alignSpec
    split <;> simp [alignSpec_length rest]

theorem alignSpec_getElem : ∀ (hist : List HEntry) (v hi i : Nat) (hi' : i < hist.length),
    ∃ cm, (alignSpec hist v hi)[i]? = some cm ∧ cm.index = hi + i ∧ cm.cmd = hist[i].cmd ∧
      cm.layer = if hist[i].empty then none else some (v + ((hist.take i).filter (fun e => !e.empty)).length)
  | [], _, _, i, h => by simp at h
  | e :: rest, v, hi, 0, _ => by
    unfold alignSpec
    split <;> rename_i he <;> simp [he]
  | e :: rest, v, hi, i+1, h => by
    have hlt : i < rest.length := by simpa using h
    unfold alignSpec
    split
    · rename_i he
      obtain ⟨cm, h1, h2, h3, h4⟩ := alignSpec_getElem rest v (hi+1) i hlt
      refine ⟨cm, by simpa using h1, by omega, by simpa using h3, ?_⟩
      simp only [List.getElem_cons_succ, List.take_succ_cons, List.filter_cons, he, Bool.not_true, Bool.false_eq_true,
        if_false]
      exact h4
    · rename_i he
      obtain ⟨cm, h1, h2, h3, h4⟩ := alignSpec_getElem rest (v+1) (hi+1) i hlt
      refine ⟨cm, by simpa using h1, by omega, by simpa using h3, ?_⟩
      simp only [Bool.not_eq_true] at he
      simp only [List.getElem_cons_succ, List.take_succ_cons, List.filter_cons, he, Bool.not_false, if_true,
        List.length_cons]
      rw [h4]
      split
      · rfl
      · congr 1; omega

end Scalibr.Trace
