import Scalibr.Spec.NpmWriter
namespace Scalibr.Npm

/-! ### escapeJSONPathComponent vs gjson's component parser -/

theorem escMode_cons_plain (c : Char) (t acc : Str) (w : Bool)
    (h1 : c ≠ '\\') (h2 : c ≠ '.') (h3 : c ≠ '|') (h4 : c ≠ '*') (h5 : c ≠ '?') :
    escMode (c :: t) acc w = escMode t (c :: acc) w := by
  cases t with
  | nil => simp [escMode, h1, h2, h3, h4, h5]
  | cons d cs => simp [escMode, h1, h2, h3, h4, h5]

theorem plainMode_cons_plain (c : Char) (t acc : Str) (w : Bool)
    (h1 : c ≠ '\\') (h2 : c ≠ '.') (h3 : c ≠ '|') (h4 : c ≠ '*') (h5 : c ≠ '?') :
    plainMode (c :: t) acc w = plainMode t (c :: acc) w := by
  cases t with
  | nil => simp [plainMode, h1, h2, h3, h4, h5]
  | cons d cs => simp [plainMode, h1, h2, h3, h4, h5]

theorem not_special (c : Char) (h : special c = false) :
    c ≠ '\\' ∧ c ≠ '.' ∧ c ≠ '|' ∧ c ≠ '*' ∧ c ≠ '?' := by
  unfold special at h
  simp only [Bool.or_eq_false_iff, decide_eq_false_iff_not] at h
  obtain ⟨⟨⟨⟨⟨⟨⟨⟨⟨⟨⟨⟨⟨⟨⟨⟨a1, a2⟩, a3⟩, a4⟩, a5⟩, a6⟩, a7⟩, a8⟩, a9⟩, a10⟩, a11⟩, a12⟩, a13⟩, a14⟩, a15⟩, a16⟩, a17⟩ := h
  exact ⟨a7, a1, a4, a2, a3⟩

theorem escMode_escape (n acc : Str) (w : Bool) :
    escMode (escape n) acc w = ⟨acc.reverse ++ n, w, none⟩ := by
  induction n generalizing acc with
  | nil => simp [escape, escMode]
  | cons c cs ih =>
    unfold escape
    cases hs : special c
    · obtain ⟨h1, h2, h3, h4, h5⟩ := not_special c hs
      simp only [Bool.false_eq_true, if_false]
      rw [escMode_cons_plain c _ acc w h1 h2 h3 h4 h5, ih]
      simp
    · simp only [if_true]
      simp only [escMode, if_true]
      rw [ih]; simp

theorem plainMode_escape (n acc : Str) (w : Bool) :
    plainMode (escape n) acc w = ⟨acc.reverse ++ n, w, none⟩ := by
  induction n generalizing acc with
  | nil => simp [escape, plainMode]
  | cons c cs ih =>
    unfold escape
    cases hs : special c
    · obtain ⟨h1, h2, h3, h4, h5⟩ := not_special c hs
      simp only [Bool.false_eq_true, if_false]
      rw [plainMode_cons_plain c _ acc w h1 h2 h3 h4 h5, ih]
      simp
    · simp only [if_true]
      have : plainMode ('\\' :: c :: escape cs) acc w = escMode (escape cs) (c :: acc) w := by
        simp [plainMode]
      rw [this, escMode_escape]; simp

/-- fix 36cc05c9: the escaped name is parsed back by gjson as exactly that key, literally -/
theorem parsePart_escape (n : Str) : parsePart (escape n) = ⟨n, false, none⟩ := by
  unfold parsePart; rw [plainMode_escape]; simp

theorem gjsonGet_escape (s : Sec) (k : Str) : gjsonGet s (escape k) = lookup s k := by
  simp [gjsonGet, parsePart_escape]

theorem sjsonSet_escape (s : Sec) (k v : Str) : sjsonSet s (escape k) v = setKey s k v := by
  simp [sjsonSet, parsePart_escape]

/-! ### sections with unique keys -/

theorem lookup_none (s : Sec) (k : Str) (h : lookup s k = none) : ∀ e ∈ s, e.1 ≠ k := by
  induction s with
  | nil => intro e he; cases he
  | cons x xs ih =>
    unfold lookup at h
    by_cases hx : x.1 = k
    · simp [List.find?, hx] at h
    · have h' : lookup xs k = none := by simpa [lookup, List.find?, hx] using h
      intro e he
      simp at he
      rcases he with rfl | he
      · exact hx
      · exact ih h' e he

theorem lookup_mem (s : Sec) (k v : Str) (h : lookup s k = some v) : (k, v) ∈ s := by
  induction s with
  | nil => simp [lookup] at h
  | cons x xs ih =>
    by_cases hx : x.1 = k
    · have : x.2 = v := by simpa [lookup, List.find?, hx] using h
      have : x = (k, v) := by cases x; simp_all
      simp [this]
    · have h' : lookup xs k = some v := by simpa [lookup, List.find?, hx] using h
      exact List.mem_cons_of_mem _ (ih h')

theorem lookup_unique (s : Sec) (k v : Str) (hn : keysNodup s) (h : lookup s k = some v) :
    ∀ e ∈ s, e.1 = k → e.2 = v := by
  induction s with
  | nil => intro e he; cases he
  | cons x xs ih =>
    unfold keysNodup at hn
    simp only [List.map, List.nodup_cons] at hn
    obtain ⟨hx, hxs⟩ := hn
    intro e he hk
    by_cases hxk : x.1 = k
    · have hv : x.2 = v := by simpa [lookup, List.find?, hxk] using h
      simp at he
      rcases he with rfl | he
      · exact hv
      · exfalso; apply hx
        rw [hxk, ← hk]; exact List.mem_map_of_mem he
    · have h' : lookup xs k = some v := by simpa [lookup, List.find?, hxk] using h
      simp at he
      rcases he with rfl | he
      · exact absurd hk hxk
      · exact ih hxs h' e he hk

theorem setKey_eq_map (s : Sec) (k ov nv : Str) (hn : keysNodup s) (h : lookup s k = some ov) :
    setKey s k nv = s.map (fun e => if e.1 = k ∧ e.2 = ov then (e.1, nv) else e) := by
  induction s with
  | nil => simp [setKey]
  | cons x xs ih =>
    obtain ⟨xk, xv⟩ := x
    unfold keysNodup at hn
    simp only [List.map, List.nodup_cons] at hn
    obtain ⟨hx, hxs⟩ := hn
    by_cases hxk : xk = k
    · have hv : xv = ov := by simpa [lookup, List.find?, hxk] using h
      subst hxk; subst hv
      simp only [setKey, if_true, List.map, and_self]
      congr 1
      symm
      have : xs.map (fun e => if e.1 = xk ∧ e.2 = xv then (e.1, nv) else e) = xs.map id := by
        apply List.map_congr_left
        intro e he
        have : e.1 ≠ xk := by
          intro hk; apply hx; rw [← hk]; exact List.mem_map_of_mem he
        simp [this]
      simpa using this
    · have h' : lookup xs k = some ov := by simpa [lookup, List.find?, hxk] using h
      simp only [setKey, hxk, if_false, List.map, false_and]
      rw [ih hxs h']

theorem map_id_of_lookup_ne (s : Sec) (k v ov nv : Str) (hn : keysNodup s) (h : lookup s k = some v)
    (hne : v ≠ ov) : s.map (fun e => if e.1 = k ∧ e.2 = ov then (e.1, nv) else e) = s := by
  have : s.map (fun e => if e.1 = k ∧ e.2 = ov then (e.1, nv) else e) = s.map id := by
    apply List.map_congr_left
    intro e he
    by_cases hk : e.1 = k
    · have := lookup_unique s k v hn h e he hk
      simp [hk, this, hne]
    · simp [hk]
  simpa using this

theorem map_id_of_lookup_none (s : Sec) (k ov nv : Str) (h : lookup s k = none) :
    s.map (fun e => if e.1 = k ∧ e.2 = ov then (e.1, nv) else e) = s := by
  have : s.map (fun e => if e.1 = k ∧ e.2 = ov then (e.1, nv) else e) = s.map id := by
    apply List.map_congr_left
    intro e he
    simp [lookup_none s k h e he]
  simpa using this

theorem substEntry_keys (u : Up) (s : Sec) : (s.map (substEntry u)).map (·.1) = s.map (·.1) := by
  rw [List.map_map]
  apply List.map_congr_left
  intro e _
  simp only [Function.comp, substEntry]
  split <;> rfl

theorem WFdoc_applySpec (u : Up) (d : Doc) (h : WFdoc d) : WFdoc (applySpec u d) := by
  unfold WFdoc keysNodup applySpec at *
  simp only [substEntry_keys]
  exact h

/-- the three outcomes of one section step, as a map over the section -/
theorem sec_step (s : Sec) (u : Up) (hn : keysNodup s) :
    (∀ v, lookup s (wkey u) = some v → v = origVer u →
        setKey s (wkey u) (newVer u) = s.map (substEntry u)) ∧
    (∀ v, lookup s (wkey u) = some v → v ≠ origVer u → s.map (substEntry u) = s) ∧
    (lookup s (wkey u) = none → s.map (substEntry u) = s) := by
  have hf : substEntry u = fun e => if e.1 = wkey u ∧ e.2 = origVer u then (e.1, newVer u) else e := by
    funext e; rfl
  refine ⟨?_, ?_, ?_⟩
  · intro v h hv; subst hv
    rw [hf]; exact setKey_eq_map s _ _ _ hn h
  · intro v h hv
    rw [hf]; exact map_id_of_lookup_ne s _ v _ _ hn h hv
  · intro h
    rw [hf]; exact map_id_of_lookup_none s _ _ _ h

theorem secStep_eq_map (s s' : Sec) (u : Up) (m m' : Bool) (hn : keysNodup s)
    (h : secStep s (escape (wkey u)) (origVer u) (newVer u) m = some (s', m')) :
    s' = s.map (substEntry u) := by
  obtain ⟨h1, h2, h3⟩ := sec_step s u hn
  unfold secStep at h
  rw [gjsonGet_escape, sjsonSet_escape] at h
  cases hl : lookup s (wkey u) with
  | none =>
    rw [hl] at h
    simp only [Option.some.injEq, Prod.mk.injEq] at h
    rw [← h.1, h3 hl]
  | some v =>
    rw [hl] at h
    by_cases hv : v = origVer u
    · simp only [hv, ne_eq, not_true_eq_false, if_false, Option.some.injEq, Prod.mk.injEq] at h
      rw [← h.1, h1 v hl hv]
    · simp only [ne_eq, hv, not_false_eq_true, if_true] at h
      cases m with
      | false => simp at h
      | true =>
        simp only [if_true, Option.some.injEq, Prod.mk.injEq] at h
        rw [← h.1, h2 v hl hv]

/-- a successful inner-loop iteration is the document-level substitution -/
theorem apply1_eq_spec (d d' : Doc) (u : Up) (hwf : WFdoc d) (h : apply1 d u = .ok d') :
    d' = applySpec u d := by
  obtain ⟨hdev, hopt, hprod⟩ := hwf
  unfold apply1 at h
  simp only at h
  cases h1 : secStep d.dev (escape (wkey u)) (origVer u) (newVer u) false with
  | none => simp [h1] at h
  | some r1 =>
    obtain ⟨dev', m1⟩ := r1
    simp only [h1] at h
    cases h2 : secStep d.opt (escape (wkey u)) (origVer u) (newVer u) m1 with
    | none => simp [h2] at h
    | some r2 =>
      obtain ⟨opt', m2⟩ := r2
      simp only [h2] at h
      cases h3 : secStep d.prod (escape (wkey u)) (origVer u) (newVer u) m2 with
      | none => simp [h3] at h
      | some r3 =>
        obtain ⟨prod', m3⟩ := r3
        simp only [h3] at h
        cases m3 with
        | false => simp at h
        | true =>
        simp only [if_true] at h
        injection h with h
        rw [← h, secStep_eq_map _ _ u _ _ hdev h1, secStep_eq_map _ _ u _ _ hopt h2,
          secStep_eq_map _ _ u _ _ hprod h3]
        rfl


theorem write_eq_spec (d d' : Doc) (us : List Up) (hwf : WFdoc d) (h : write d us = .ok d') :
    d' = applyAll d us := by
  induction us generalizing d with
  | nil => simp only [write] at h; injection h with h; simp [applyAll, h]
  | cons u us ih =>
    simp only [write] at h
    cases h1 : apply1 d u with
    | err => simp [h1] at h
    | ok d1 =>
      simp only [h1] at h
      have e1 := apply1_eq_spec d d1 u hwf h1
      have := ih d1 (e1 ▸ WFdoc_applySpec u d hwf) h
      rw [this, e1]; rfl

/-! ### alias syntax: render then parse -/

theorem lastIndexOf_append (c : Char) (a b : Str) (hb : c ∉ b) :
    lastIndexOf c (a ++ c :: b) = some a.length := by
  have hb' : lastIndexOf c b = none := by
    induction b with
    | nil => rfl
    | cons x xs ih =>
      simp only [List.mem_cons, not_or] at hb
      simp only [lastIndexOf, ih hb.2]
      simp [Ne.symm hb.1]
  induction a with
  | nil => simp [lastIndexOf, hb']
  | cons x xs ih => simp [lastIndexOf, ih]

theorem lastIndexOf_some (c : Char) (r : Str) (i : Nat) (h : lastIndexOf c r = some i) :
    r = r.take i ++ c :: r.drop (i + 1) := by
  induction r generalizing i with
  | nil => simp [lastIndexOf] at h
  | cons x xs ih =>
    simp only [lastIndexOf] at h
    cases hl : lastIndexOf c xs with
    | some j =>
      simp only [hl, Option.some.injEq] at h
      subst h
      simp only [List.take_succ_cons, List.drop_succ_cons, List.cons_append]
      rw [← ih j hl]
    | none =>
      simp only [hl] at h
      by_cases hx : x = c
      · simp only [hx, if_true, Option.some.injEq] at h
        subst h; simp [hx]
      · simp [hx] at h

theorem plain_no_at (v : Str) (h : plainVer v = true) : '@' ∉ v := by
  unfold plainVer at h
  intro hm
  have : v.any (fun c => c = ':' || c = '/' || c = '@') = true := by
    rw [List.any_eq_true]; exact ⟨'@', hm, by simp⟩
  simp [this] at h

theorem plain_registry (v : Str) (h : plainVer v = true) :
    v.any (fun c => c = ':' || c = '/') = false := by
  unfold plainVer at h
  rw [List.any_eq_false]
  intro c hc
  have h' : v.any (fun c => c = ':' || c = '/' || c = '@') = false := by simpa using h
  rw [List.any_eq_false] at h'
  have := h' c hc
  simp only [Bool.or_eq_true, decide_eq_true_eq, not_or] at this ⊢
  exact ⟨this.1.1, this.1.2⟩

theorem plain_not_alias (v : Str) (h : plainVer v = true) : stripNpm v = none := by
  unfold stripNpm
  split
  · rename_i r
    exfalso
    unfold plainVer at h
    simp at h
  · rfl

theorem splitAlias_alias (name ver : Str) (hn : name ≠ []) (hv : '@' ∉ ver) :
    splitAlias (aliasStr name ver) = (name, ver) := by
  unfold splitAlias aliasStr npmPrefix
  simp only [List.cons_append, List.nil_append, stripNpm]
  rw [lastIndexOf_append '@' name ver hv]
  have : name.length > 0 := List.length_pos_iff.mpr hn
  simp [this]

theorem makeReq_alias (k name ver : Str) (hn : name ≠ []) (hp : plainVer ver = true) :
    makeReq (k, aliasStr name ver) = some ⟨name, some k, ver⟩ := by
  unfold makeReq
  simp only [splitAlias_alias name ver hn (plain_no_at ver hp)]
  simp [hn, plain_registry ver hp]

theorem makeReq_plain (k ver : Str) (hp : plainVer ver = true) :
    makeReq (k, ver) = some ⟨k, none, ver⟩ := by
  unfold makeReq splitAlias
  simp [plain_not_alias ver hp, plain_registry ver hp]

/-- what `makeReq` returns determines the entry, except for a version-less alias -/
theorem makeReq_inv (e : Str × Str) (r : Req) (h : makeReq e = some r) :
    (r.knownAs = none ∧ r.name = e.1 ∧ r.ver = e.2) ∨
    (r.knownAs = some e.1 ∧ (r.ver ≠ [] → e.2 = aliasStr r.name r.ver)) := by
  unfold makeReq at h
  cases hs : splitAlias e.2 with
  | mk rp rv =>
    simp only [hs] at h
    by_cases hrp : rp = []
    · simp only [hrp, ne_eq, not_true_eq_false, if_false] at h
      split at h
      · cases h
      · injection h with h; subst h; left; simp
    · simp only [ne_eq, hrp, not_false_eq_true, if_true] at h
      split at h
      · cases h
      · injection h with h; subst h
        right
        refine ⟨rfl, ?_⟩
        intro hne
        simp only at hne ⊢
        unfold splitAlias at hs
        cases hst : stripNpm e.2 with
        | none => simp [hst] at hs; exact absurd hs.1 hrp
        | some r =>
          have he2 : e.2 = npmPrefix ++ r := by
            unfold stripNpm at hst
            split at hst
            · injection hst with hst; subst hst; rename_i heq; rw [heq]; rfl
            · cases hst
          simp only [hst] at hs
          cases hl : lastIndexOf '@' r with
          | none => simp [hl] at hs; exact absurd hs.2 hne
          | some i =>
            simp only [hl] at hs
            by_cases hi : i > 0
            · simp only [hi, if_true, Prod.mk.injEq] at hs
              rw [he2, ← hs.1, ← hs.2]
              unfold aliasStr
              rw [List.append_assoc, ← lastIndexOf_some '@' r i hl]
            · simp [hi] at hs; exact absurd hs.2 hne

/-! ### Read commutes with the substitution -/

theorem addresses_wkey (u : Up) (r : Req) (e : Str × Str) (hm : makeReq e = some r)
    (ha : addresses u r = true) : e.1 = wkey u := by
  unfold addresses at ha
  simp only [Bool.and_eq_true, decide_eq_true_eq] at ha
  obtain ⟨⟨hn, hk⟩, _⟩ := ha
  unfold wkey
  rcases makeReq_inv e r hm with ⟨h1, h2, _⟩ | ⟨h1, _⟩
  · rw [← hk, h1]; simp [← h2, hn]
  · rw [← hk, h1]

theorem makeReq_substEntry (u : Up) (hu : WFup u = true) (e : Str × Str) :
    makeReq (substEntry u e) = (makeReq e).map (substReq u) := by
  unfold WFup at hu
  simp only [Bool.and_eq_true, Bool.or_eq_true, decide_eq_true_eq] at hu
  obtain ⟨⟨hpf, hpt⟩, hal⟩ := hu
  unfold substEntry
  by_cases hc : e.1 = wkey u ∧ e.2 = origVer u
  · simp only [hc, and_self, if_true]
    obtain ⟨h1, h2⟩ := hc
    have he : e = (wkey u, origVer u) := by cases e; simp_all
    rw [he]
    cases hk : u.knownAs with
    | none =>
      simp only [wkey, origVer, newVer, hk]
      rw [makeReq_plain _ _ hpf, makeReq_plain _ _ hpt]
      simp [substReq, addresses, hk]
    | some k =>
      have hn : u.name ≠ [] := by
        rcases hal with h | h
        · simp [hk] at h
        · simpa using h.1
      simp only [wkey, origVer, newVer, hk]
      rw [makeReq_alias _ _ _ hn hpf, makeReq_alias _ _ _ hn hpt]
      simp [substReq, addresses, hk]
  · simp only [hc, if_false]
    cases hm : makeReq e with
    | none => rfl
    | some r =>
      simp only [Option.map]
      congr 1
      unfold substReq
      by_cases ha : addresses u r = true
      · exfalso
        apply hc
        have hw := addresses_wkey u r e hm ha
        refine ⟨hw, ?_⟩
        unfold addresses at ha
        simp only [Bool.and_eq_true, decide_eq_true_eq] at ha
        obtain ⟨⟨hn, hk⟩, hv⟩ := ha
        rcases makeReq_inv e r hm with ⟨h1, _, h3⟩ | ⟨h1, h3⟩
        · unfold origVer; rw [← hk, h1]; simp [← h3, hv]
        · have hka : u.knownAs = some e.1 := by rw [← hk, h1]
          have hf : u.frm ≠ [] := by
            rcases hal with h | h
            · simp [hka] at h
            · simpa using h.2
          unfold origVer; rw [hka]
          simp only
          rw [← hn, ← hv]
          exact h3 (by rw [hv]; exact hf)
      · simp [ha]

theorem substReq_name (u : Up) (r : Req) : (substReq u r).name = r.name := by
  unfold substReq; split <;> rfl

theorem substReq_knownAs (u : Up) (r : Req) : (substReq u r).knownAs = r.knownAs := by
  unfold substReq; split <;> rfl

theorem upsert_map (g : Req → Req) (hg : ∀ r, (g r).name = r.name ∧ (g r).knownAs = r.knownAs) (rs : List Req) (r : Req) :
    upsert (rs.map g) (g r) = (upsert rs r).map g := by
  induction rs with
  | nil => simp [upsert]
  | cons x xs ih =>
    simp only [List.map, upsert, (hg _).1, (hg _).2]
    split
    · simp
    · simp [ih]

theorem addSec_map (g : Req → Req) (hg : ∀ r, (g r).name = r.name ∧ (g r).knownAs = r.knownAs) (f : Str × Str → Str × Str)
    (hf : ∀ e, makeReq (f e) = (makeReq e).map g) (s : Sec) (rs : List Req) :
    addSec (rs.map g) (s.map f) = (addSec rs s).map g := by
  induction s generalizing rs with
  | nil => simp [addSec]
  | cons e es ih =>
    simp only [addSec, List.map, List.foldl] at ih ⊢
    rw [hf e]
    cases hm : makeReq e with
    | none => simp only [Option.map]; exact ih rs
    | some r =>
      simp only [Option.map]
      rw [upsert_map g hg]
      exact ih _

theorem filterMap_map (g : Req → Req) (f : Str × Str → Str × Str)
    (hf : ∀ e, makeReq (f e) = (makeReq e).map g) (s : Sec) :
    (s.map f).filterMap makeReq = (s.filterMap makeReq).map g := by
  induction s with
  | nil => rfl
  | cons e es ih =>
    simp only [List.map, List.filterMap_cons, hf e]
    cases hm : makeReq e with
    | none => simpa using ih
    | some r => simp [ih]

theorem requirements_applySpec (u : Up) (hu : WFup u = true) (d : Doc) :
    requirements (applySpec u d) = (requirements d).map (substReq u) := by
  unfold requirements applySpec
  simp only
  rw [filterMap_map (substReq u) (substEntry u) (makeReq_substEntry u hu),
    addSec_map (substReq u) (fun r => ⟨substReq_name u r, substReq_knownAs u r⟩) (substEntry u) (makeReq_substEntry u hu),
    addSec_map (substReq u) (fun r => ⟨substReq_name u r, substReq_knownAs u r⟩) (substEntry u) (makeReq_substEntry u hu)]

theorem requirements_applyAll (us : List Up) (hu : ∀ u ∈ us, WFup u = true) (d : Doc) :
    requirements (applyAll d us) = substitute (requirements d) us := by
  induction us generalizing d with
  | nil => rfl
  | cons u us ih =>
    simp only [applyAll, substitute, List.foldl] at ih ⊢
    rw [ih (fun x hx => hu x (by simp [hx])) (applySpec u d),
      requirements_applySpec u (hu u (by simp)) d]

/-! ### nothing else moves -/

theorem secSameOutside_applySpec (u : Up) (s : Sec) : secSameOutside [u] s (s.map (substEntry u)) := by
  refine ⟨substEntry_keys u s, ?_⟩
  intro e he hne
  have : substEntry u e = e := by
    unfold substEntry
    have := hne u (by simp)
    simp [this]
  rw [← this]; exact List.mem_map_of_mem he

theorem secSameOutside_trans (us : List Up) (u : Up) (s s1 s2 : Sec)
    (h1 : secSameOutside [u] s s1) (h2 : secSameOutside us s1 s2) : secSameOutside (u :: us) s s2 := by
  refine ⟨h2.1.trans h1.1, ?_⟩
  intro e he hne
  apply h2.2 e
  · exact h1.2 e he (fun x hx => by simp at hx; subst hx; exact hne x (by simp))
  · intro x hx; exact hne x (by simp [hx])

theorem secSameOutside_applyAll (us : List Up) (s : Sec) :
    secSameOutside us s (us.foldl (fun s u => s.map (substEntry u)) s) := by
  induction us generalizing s with
  | nil => exact ⟨rfl, fun e he _ => he⟩
  | cons u us ih =>
    simp only [List.foldl]
    exact secSameOutside_trans us u s _ _ (secSameOutside_applySpec u s) (ih _)

theorem applyAll_sections (us : List Up) (d : Doc) :
    (applyAll d us).dev = us.foldl (fun s u => s.map (substEntry u)) d.dev ∧
    (applyAll d us).opt = us.foldl (fun s u => s.map (substEntry u)) d.opt ∧
    (applyAll d us).prod = us.foldl (fun s u => s.map (substEntry u)) d.prod := by
  induction us generalizing d with
  | nil => exact ⟨rfl, rfl, rfl⟩
  | cons u us ih =>
    simp only [applyAll, List.foldl] at ih ⊢
    exact ih (applySpec u d)

theorem sameOutside_applyAll (us : List Up) (d : Doc) : sameOutside us d (applyAll d us) := by
  obtain ⟨h1, h2, h3⟩ := applyAll_sections us d
  unfold sameOutside
  rw [h1, h2, h3]
  exact ⟨secSameOutside_applyAll us _, secSameOutside_applyAll us _, secSameOutside_applyAll us _⟩

/-! ### no silent success -/

theorem lookup_setKey (s : Sec) (k v nv : Str) (h : lookup s k = some v) :
    lookup (setKey s k nv) k = some nv := by
  induction s with
  | nil => simp [lookup] at h
  | cons x xs ih =>
    obtain ⟨xk, xv⟩ := x
    by_cases hx : xk = k
    · simp [setKey, hx, lookup, List.find?]
    · have h' : lookup xs k = some v := by simpa [lookup, List.find?, hx] using h
      have := ih h'
      simp only [setKey, hx, if_false]
      simpa [lookup, List.find?, hx] using this

/-- a section step that succeeds on a section holding the key either rewrote it (and reports
`matched`) or was entered with `matched` already set -/
theorem secStep_applied (s s' : Sec) (u : Up) (m m' : Bool)
    (h : secStep s (escape (wkey u)) (origVer u) (newVer u) m = some (s', m'))
    (hk : (lookup s (wkey u)).isSome) :
    (lookup s (wkey u) = some (origVer u) ∧ lookup s' (wkey u) = some (newVer u) ∧ m' = true) ∨
    (m = true ∧ m' = true) := by
  unfold secStep at h
  rw [gjsonGet_escape, sjsonSet_escape] at h
  cases hl : lookup s (wkey u) with
  | none => simp [hl] at hk
  | some v =>
    rw [hl] at h
    by_cases hv : v = origVer u
    · simp only [hv, ne_eq, not_true_eq_false, if_false, Option.some.injEq, Prod.mk.injEq] at h
      left
      refine ⟨by rw [hv], ?_, h.2.symm⟩
      rw [← h.1]; exact lookup_setKey s _ v _ hl
    · simp only [ne_eq, hv, not_false_eq_true, if_true] at h
      cases m with
      | false => simp at h
      | true => simp only [if_true, Option.some.injEq, Prod.mk.injEq] at h; right; exact ⟨rfl, h.2.symm⟩

theorem secStep_matched_mono (s s' : Sec) (path ov nv : Str) (m' : Bool)
    (h : secStep s path ov nv true = some (s', m')) : m' = true := by
  unfold secStep at h
  split at h
  · split at h
    · simp at h; exact h.2
    · simp at h; exact h.2
  · simp at h; exact h.2

theorem secStep_false_matched (s s' : Sec) (u : Up)
    (h : secStep s (escape (wkey u)) (origVer u) (newVer u) false = some (s', true)) :
    lookup s (wkey u) = some (origVer u) ∧ lookup s' (wkey u) = some (newVer u) := by
  have hk : (lookup s (wkey u)).isSome := by
    unfold secStep at h
    rw [gjsonGet_escape] at h
    cases hl : lookup s (wkey u) with
    | none => simp [hl] at h
    | some v => rfl
  rcases secStep_applied s s' u false true h hk with ⟨a, b, _⟩ | ⟨a, _⟩
  · exact ⟨a, b⟩
  · cases a

theorem apply1_applied (d d' : Doc) (u : Up) (h : apply1 d u = .ok d') (hk : keyPresent u d) :
    applied u d d' := by
  unfold apply1 at h
  simp only at h
  cases h1 : secStep d.dev (escape (wkey u)) (origVer u) (newVer u) false with
  | none => simp [h1] at h
  | some r1 =>
    obtain ⟨dev', m1⟩ := r1
    simp only [h1] at h
    cases h2 : secStep d.opt (escape (wkey u)) (origVer u) (newVer u) m1 with
    | none => simp [h2] at h
    | some r2 =>
      obtain ⟨opt', m2⟩ := r2
      simp only [h2] at h
      cases h3 : secStep d.prod (escape (wkey u)) (origVer u) (newVer u) m2 with
      | none => simp [h3] at h
      | some r3 =>
        obtain ⟨prod', m3⟩ := r3
        simp only [h3] at h
        cases m3 with
        | false => simp at h
        | true =>
        simp only [if_true] at h
        injection h with h
        subst h
        unfold applied
        simp only
        -- which block matched first
        cases m1 with
        | true => exact Or.inl (secStep_false_matched _ _ u h1)
        | false =>
          cases m2 with
          | true => exact Or.inr (Or.inl (secStep_false_matched _ _ u h2))
          | false =>
            -- neither dev nor opt matched: they do not hold the key, so prod does
            have hdev : lookup d.dev (wkey u) = none := by
              cases hl : lookup d.dev (wkey u) with
              | none => rfl
              | some v =>
                rcases secStep_applied _ _ u _ _ h1 (by simp [hl]) with ⟨_, _, c⟩ | ⟨c, _⟩ <;> cases c
            have hopt : lookup d.opt (wkey u) = none := by
              cases hl : lookup d.opt (wkey u) with
              | none => rfl
              | some v =>
                rcases secStep_applied _ _ u _ _ h2 (by simp [hl]) with ⟨_, _, c⟩ | ⟨c, _⟩ <;> cases c
            have hprod : (lookup d.prod (wkey u)).isSome := by
              rcases hk with hk | hk | hk
              · simp [hdev] at hk
              · simp [hopt] at hk
              · exact hk
            rcases secStep_applied _ _ u _ _ h3 hprod with ⟨a, b, _⟩ | ⟨c, _⟩
            · exact Or.inr (Or.inr ⟨a, b⟩)
            · cases c

/-- since fix 400b3071 a successful iteration HAS applied its update: an update no section holds the key of is an error -/
theorem apply1_applied_always (d d' : Doc) (u : Up) (h : apply1 d u = .ok d') : applied u d d' := by
  refine apply1_applied d d' u h ?_
  unfold apply1 at h
  simp only at h
  cases h1 : secStep d.dev (escape (wkey u)) (origVer u) (newVer u) false with
  | none => simp [h1] at h
  | some r1 =>
    obtain ⟨dev', m1⟩ := r1
    simp only [h1] at h
    cases h2 : secStep d.opt (escape (wkey u)) (origVer u) (newVer u) m1 with
    | none => simp [h2] at h
    | some r2 =>
      obtain ⟨opt', m2⟩ := r2
      simp only [h2] at h
      cases h3 : secStep d.prod (escape (wkey u)) (origVer u) (newVer u) m2 with
      | none => simp [h3] at h
      | some r3 =>
        obtain ⟨prod', m3⟩ := r3
        simp only [h3] at h
        cases m3 with
        | false => simp at h
        | true =>
          unfold keyPresent
          cases m1 with
          | true => exact Or.inl (by rw [(secStep_false_matched _ _ u h1).1]; rfl)
          | false =>
            cases m2 with
            | true => exact Or.inr (Or.inl (by rw [(secStep_false_matched _ _ u h2).1]; rfl))
            | false => exact Or.inr (Or.inr (by rw [(secStep_false_matched _ _ u h3).1]; rfl))

/-! ### Read loses no entry (fix 8304c0d6: the cascade keys a requirement by package and alias) -/

def hasKey (rs : List Req) (n : Str) (ka : Option Str) : Bool := rs.any fun r => r.name = n && r.knownAs = ka

theorem hasKey_upsert_self (rs : List Req) (q : Req) : hasKey (upsert rs q) q.name q.knownAs = true := by
  induction rs with
  | nil => simp [upsert, hasKey]
  | cons x xs ih =>
    unfold upsert
    split
    · simp [hasKey]
    · simp only [hasKey, List.any_cons, Bool.or_eq_true] at ih ⊢
      exact Or.inr ih

theorem hasKey_upsert_keep (rs : List Req) (q : Req) (n : Str) (ka : Option Str) (h : hasKey rs n ka = true) :
    hasKey (upsert rs q) n ka = true := by
  induction rs with
  | nil => simp [hasKey] at h
  | cons x xs ih =>
    simp only [hasKey, List.any_cons, Bool.or_eq_true, Bool.and_eq_true, decide_eq_true_eq] at h
    unfold upsert
    split
    · rename_i hm
      simp only [hasKey, List.any_cons, Bool.or_eq_true, Bool.and_eq_true, decide_eq_true_eq]
      rcases h with ⟨h1, h2⟩ | h
      · exact Or.inl ⟨by rw [← hm.1, h1], by rw [← hm.2, h2]⟩
      · exact Or.inr (by simpa [hasKey] using h)
    · simp only [hasKey, List.any_cons, Bool.or_eq_true, Bool.and_eq_true, decide_eq_true_eq]
      rcases h with h | h
      · exact Or.inl h
      · exact Or.inr (by simpa [hasKey] using ih (by simpa [hasKey] using h))

theorem hasKey_addSec_keep (s : Sec) (rs : List Req) (n : Str) (ka : Option Str) (h : hasKey rs n ka = true) :
    hasKey (addSec rs s) n ka = true := by
  induction s generalizing rs with
  | nil => simpa [addSec] using h
  | cons e es ih =>
    simp only [addSec, List.foldl] at ih ⊢
    cases hm : makeReq e with
    | none => exact ih rs h
    | some q => exact ih _ (hasKey_upsert_keep rs q n ka h)

theorem hasKey_addSec_mem (s : Sec) (rs : List Req) (e : Str × Str) (q : Req) (he : e ∈ s) (hq : makeReq e = some q) :
    hasKey (addSec rs s) q.name q.knownAs = true := by
  induction s generalizing rs with
  | nil => cases he
  | cons x xs ih =>
    simp only [addSec, List.foldl] at ih ⊢
    simp only [List.mem_cons] at he
    rcases he with rfl | he
    · rw [hq]
      exact hasKey_addSec_keep xs _ _ _ (hasKey_upsert_self rs q)
    · cases hm : makeReq x with
      | none => exact ih rs he
      | some y => exact ih _ he

theorem readComplete_requirements (d : Doc) : readComplete d (requirements d) = true := by
  unfold readComplete
  rw [List.all_eq_true]
  intro e he
  cases hq : makeReq e with
  | none => rfl
  | some q =>
    show hasKey (requirements d) q.name q.knownAs = true
    unfold requirements
    simp only [List.mem_append] at he
    rcases he with (he | he) | he
    · exact hasKey_addSec_mem d.dev _ e q he hq
    · exact hasKey_addSec_keep d.dev _ _ _ (hasKey_addSec_mem d.opt _ e q he hq)
    · apply hasKey_addSec_keep d.dev
      apply hasKey_addSec_keep d.opt
      simp only [hasKey, List.any_eq_true, Bool.and_eq_true, decide_eq_true_eq]
      exact ⟨q, List.mem_filterMap.mpr ⟨e, he, hq⟩, rfl, rfl⟩

end Scalibr.Npm
