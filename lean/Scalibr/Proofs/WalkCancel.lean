/-
C10, cancellation: what a scan does when its context is cancelled from inside the k-th `Extract` call
(errors not fatal, no inode limit, extractors do not panic) — for every forest, fault plan and option
combination.  Stated against the specification only: `mustExtract` (the attempts owed without
cancellation, Spec/Walk.lean) grouped by `handleFile` call (`traceScan`, Spec/WalkCount.lean).
Corollary of `run_trace` (Proofs/WalkTrace.lean).
-/
import Scalibr.Proofs.WalkTrace
namespace Scalibr.Walk

/-- cancellation from inside the k-th `Extract`; no inode limit, errors not fatal, no extractor panics -/
def CancelCfg (c : Cfg) (k : Nat) : Prop :=
  c.maxInodes = 0 ∧ c.errorOnFSErrors = false ∧ c.cancelBefore = false ∧ c.cancelAt = some k ∧ k ≥ 1 ∧
  ∀ e p, (c.extract e p).panics = false

/-! ### the trace groups `mustExtract` by `handleFile` call -/

/-- the configuration with limit, fatal errors, cancellation and extractor behaviour switched off:
the specification does not look at any of them -/
def benignOf (c : Cfg) : Cfg :=
  { c with maxInodes := 0, errorOnFSErrors := false, cancelBefore := false, cancelAt := none, extract := fun _ _ => {} }

theorem benignOf_benign (c : Cfg) : Benign (benignOf c) := ⟨rfl, rfl, rfl, rfl, fun _ _ => rfl⟩

mutual
theorem trace_benignOf (c : Cfg) (f : Faults) (G : List GiEntry) (p : Path) :
    ∀ n : Node, trace (benignOf c) f G p n = trace c f G p n
  | .file k sz => by simp only [trace]; rfl
  | .dir gi es => by
    simp only [trace]
    rw [traceL_benignOf c f _ p es 0]; rfl
theorem traceL_benignOf (c : Cfg) (f : Faults) (G : List GiEntry) (p : Path) :
    ∀ (es : List (String × Node)) (k : Nat), traceL (benignOf c) f G p es k = traceL c f G p es k
  | [], k => by simp only [traceL]
  | (s, n) :: rest, k => by
    simp only [traceL]
    rw [trace_benignOf c f G (p ++ [s]) n, traceL_benignOf c f G p rest (k+1)]
end

theorem traceScan_benignOf (c : Cfg) (roots : List (Node × Faults)) :
    traceScan (benignOf c) roots = traceScan c roots := by
  have hreq : ∀ f root p, traceRequested (benignOf c) f root p = traceRequested c f root p := by
    intro f root p
    unfold traceRequested
    split
    · rfl
    · split
      · rfl
      · rw [trace_benignOf]; rfl
      · rfl
  have hroot : ∀ f root, traceRoot (benignOf c) f root = traceRoot c f root := by
    intro f root
    unfold traceRoot
    rw [trace_benignOf]
    have : (benignOf c).paths.flatMap (traceRequested (benignOf c) f root) = c.paths.flatMap (traceRequested c f root) := by
      show c.paths.flatMap (traceRequested (benignOf c) f root) = _
      exact flatMap_congr' (fun p _ => hreq f root p)
    rw [this]; rfl
  unfold traceScan
  exact flatMap_congr' (fun rf _ => hroot rf.2 rf.1)

theorem mustExtract_benignOf (c : Cfg) (roots : List (Node × Faults)) :
    mustExtract (benignOf c) roots = mustExtract c roots := rfl

/-- the machine when nothing limits or cancels it: every call of the trace, no failure -/
theorem runT_free (c : Cfg) (hm : c.maxInodes = 0) (hca : c.cancelAt = none) :
    ∀ (T : List (List Call)) (a : AS), a.cancelled = false →
      (runT c a T).2 = .none ∧ (runT c a T).1.calls = a.calls ++ T.flatten
  | [], a, _ => by simp [runT_nil]
  | b :: T, a, hc => by
    have hp : aPro c a = ({ a with inodes := a.inodes + 1, visited := a.visited + 1 }, none) := by
      unfold aPro; simp [hm, hc]
    rw [runT_cons_ok c a _ b T hp]
    have ih := runT_free c hm hca T (aBlock c { a with inodes := a.inodes + 1, visited := a.visited + 1 } b)
      (by simp [aBlock, hc, hca, hits])
    refine ⟨ih.1, ?_⟩
    rw [ih.2]; simp [aBlock]

/-- **The trace is `mustExtract` grouped by `handleFile` call.** -/
theorem traceScan_flatten (c : Cfg) (hd : DomainLaw c.giMatch) (roots : List (Node × Faults)) :
    (traceScan c roots).flatten = mustExtract c roots := by
  have hb := benignOf_benign c
  have h1 := run_spec (benignOf c) hb roots hd
  have h2 := run_trace (benignOf c) ⟨rfl, fun _ _ => rfl⟩ hd roots
  have h3 := runT_free (benignOf c) rfl rfl (traceScan (benignOf c) roots) ⟨0, 0, 0, (benignOf c).cancelBefore, []⟩ rfl
  rw [traceScan_benignOf] at h2 h3
  rw [← mustExtract_benignOf, ← h1.2, h2.2.2, h3.2]
  rfl

/-! ### every attempt of one `handleFile` call concerns the same file -/

def OnePath (b : List Call) : Prop := ∀ x ∈ b, ∀ y ∈ b, x.path = y.path

theorem onePath_nil : OnePath [] := by intro x hx; cases hx

theorem mustOne_onePath (c : Cfg) (f : Faults) (G : List GiEntry) (r : FileRec) : OnePath (mustOne c f G r) := by
  have : ∀ cl ∈ mustOne c f G r, cl.path = r.path := by
    unfold mustOne
    split
    · intro cl h; simp at h; obtain ⟨e, _, rfl⟩ := h; rfl
    · intro cl h; cases h
  intro x hx y hy
  rw [this x hx, this y hy]

mutual
theorem trace_onePath (c : Cfg) (f : Faults) (G : List GiEntry) (p : Path) :
    ∀ (n : Node), ∀ b ∈ trace c f G p n, OnePath b
  | .file k sz, b, hb => by
    simp only [trace, List.mem_singleton] at hb
    subst hb; exact mustOne_onePath c f G _
  | .dir gi es, b, hb => by
    rw [trace_dir_cons] at hb
    rcases List.mem_cons.mp hb with rfl | hb
    · exact onePath_nil
    · split at hb
      · cases hb
      · split at hb
        · simp only [List.mem_singleton] at hb; subst hb; exact onePath_nil
        · exact traceL_onePath c f _ p es 0 b hb
theorem traceL_onePath (c : Cfg) (f : Faults) (G : List GiEntry) (p : Path) :
    ∀ (es : List (String × Node)) (k : Nat), ∀ b ∈ traceL c f G p es k, OnePath b
  | [], k, b, hb => by
    simp only [traceL] at hb
    split at hb
    · simp only [List.mem_singleton] at hb; subst hb; exact onePath_nil
    · cases hb
  | (s, n) :: rest, k, b, hb => by
    simp only [traceL] at hb
    split at hb
    · simp only [List.mem_singleton] at hb; subst hb; exact onePath_nil
    · rcases List.mem_append.mp hb with hb | hb
      · exact trace_onePath c f G (p ++ [s]) n b hb
      · exact traceL_onePath c f G p rest (k+1) b hb
end

theorem traceScan_onePath (c : Cfg) (roots : List (Node × Faults)) : ∀ b ∈ traceScan c roots, OnePath b := by
  intro b hb
  unfold traceScan at hb
  obtain ⟨⟨r, f⟩, _, hb⟩ := List.mem_flatMap.mp hb
  simp only [] at hb
  unfold traceRoot at hb
  split at hb
  · split at hb
    · simp only [List.mem_singleton] at hb; subst hb; exact onePath_nil
    · exact trace_onePath c f [] [] r b hb
  · obtain ⟨q, _, hb⟩ := List.mem_flatMap.mp hb
    unfold traceRequested at hb
    split at hb
    · simp only [List.mem_singleton] at hb; subst hb; exact onePath_nil
    · split at hb
      · simp only [List.mem_singleton] at hb; subst hb; exact onePath_nil
      · exact trace_onePath c f _ q _ b hb
      · simp only [List.mem_singleton] at hb; subst hb; exact mustOne_onePath _ f [] _

end Scalibr.Walk

namespace Scalibr.Walk

/-! ### the machine under cancellation -/

/-- once cancelled, the next `handleFile` call (if there is one) fails and nothing is attempted -/
theorem runT_cancelled (c : Cfg) (hm : c.maxInodes = 0) (T : List (List Call)) (a : AS) (hc : a.cancelled = true) :
    (runT c a T).1.calls = a.calls ∧ (runT c a T).2 = (if T = [] then .none else .ctx) ∧
    (runT c a T).1.visited = a.visited + (if T = [] then 0 else 1) := by
  cases T with
  | nil => simp [runT_nil]
  | cons b T =>
    have hp : aPro c a = ({ a with inodes := a.inodes + 1, visited := a.visited + 1 }, some .ctx) := by
      unfold aPro; simp [hm, hc]
    rw [runT_cons_err c a _ _ b T hp]
    simp

theorem runT_cancel (c : Cfg) (k : Nat) (hm : c.maxInodes = 0) (hca : c.cancelAt = some k) :
    ∀ (T : List (List Call)) (a : AS), a.cancelled = false → a.extracts < k →
      (a.extracts + openedCount T.flatten < k →
        (runT c a T).2 = .none ∧ (runT c a T).1.calls = a.calls ++ T.flatten ∧
        (runT c a T).1.visited = a.visited + T.length) ∧
      (k ≤ a.extracts + openedCount T.flatten → ∃ pre blk post, T = pre ++ blk :: post ∧
        a.extracts + openedCount pre.flatten < k ∧ k ≤ a.extracts + openedCount pre.flatten + openedCount blk ∧
        (runT c a T).1.calls = a.calls ++ (pre.flatten ++ blk) ∧
        (runT c a T).2 = (if post = [] then .none else .ctx) ∧
        (runT c a T).1.visited = a.visited + pre.length + 1 + (if post = [] then 0 else 1))
  | [], a, _, hx => by
    refine ⟨fun _ => by simp [runT_nil], fun h => ?_⟩
    simp [openedCount_nil] at h
    omega
  | b :: T, a, hc, hx => by
    have hp : aPro c a = ({ a with inodes := a.inodes + 1, visited := a.visited + 1 }, none) := by
      unfold aPro; simp [hm, hc]
    rw [runT_cons_ok c a _ b T hp]
    simp only [List.flatten_cons, openedCount_append, List.length_cons]
    by_cases hlt : a.extracts + openedCount b < k
    · -- this call does not reach the k-th Extract
      have ih := runT_cancel c k hm hca T (aBlock c { a with inodes := a.inodes + 1, visited := a.visited + 1 } b)
        (by simp only [aBlock, hc, hca, hits, Bool.false_or, decide_eq_false_iff_not]; omega)
        (by simp only [aBlock]; exact hlt)
      have e1 : (aBlock c { a with inodes := a.inodes + 1, visited := a.visited + 1 } b).extracts = a.extracts + openedCount b := rfl
      have e2 : (aBlock c { a with inodes := a.inodes + 1, visited := a.visited + 1 } b).calls = a.calls ++ b := rfl
      have e3 : (aBlock c { a with inodes := a.inodes + 1, visited := a.visited + 1 } b).visited = a.visited + 1 := rfl
      rw [e1, e2, e3] at ih
      refine ⟨fun h => ?_, fun h => ?_⟩
      · have := ih.1 (by omega)
        refine ⟨this.1, ?_, ?_⟩
        · rw [this.2.1]; simp
        · rw [this.2.2]; omega
      · obtain ⟨pre, blk, post, hT, h1, h2, h3, h4, h5⟩ := ih.2 (by omega)
        refine ⟨b :: pre, blk, post, by rw [hT]; rfl, ?_, ?_, ?_, h4, ?_⟩
        · simp only [List.flatten_cons, openedCount_append]; omega
        · simp only [List.flatten_cons, openedCount_append]; omega
        · rw [h3]; simp
        · rw [h5]; simp only [List.length_cons]; omega
    · -- the k-th Extract happens in this call: its remaining attempts are made, then the scan stops
      have hcan := runT_cancelled c hm T (aBlock c { a with inodes := a.inodes + 1, visited := a.visited + 1 } b)
        (by simp only [aBlock, hc, hca, hits, Bool.false_or, decide_eq_true_eq]; omega)
      have e2 : (aBlock c { a with inodes := a.inodes + 1, visited := a.visited + 1 } b).calls = a.calls ++ b := rfl
      have e3 : (aBlock c { a with inodes := a.inodes + 1, visited := a.visited + 1 } b).visited = a.visited + 1 := rfl
      rw [e2, e3] at hcan
      refine ⟨fun h => by omega, fun _ => ⟨[], b, T, rfl, ?_, ?_, ?_, hcan.2.1, ?_⟩⟩
      · simpa [openedCount_nil] using hx
      · simp only [List.flatten_nil, openedCount_nil]; omega
      · rw [hcan.1]; simp
      · rw [hcan.2.2]; simp only [List.length_nil]

/-- **Cancellation trace** (whole scan).  Let `ops = mustExtract c roots` be the attempts owed without
cancellation and `T = traceScan c roots` the `handleFile` calls of the uncancelled scan, each with its
attempts (so `T.flatten = ops`, and all attempts of one call concern one file).

* Fewer than `k` `Extract` calls are owed: the context is never cancelled, the scan succeeds and makes
  exactly `ops`.
* Otherwise let `blk` be the call during which the k-th `Extract` happens, `pre` the calls before it and
  `post` the calls after it (this decomposition of `T` is unique).  The scan makes exactly the attempts of
  `pre` and ALL attempts of `blk` (the remaining extractors of the file being handled still run) and
  nothing else; it fails with the context error exactly when a `handleFile` call remained (`post ≠ []` —
  a further file, directory, or error report), and that one call is still reported as visited. -/
theorem run_cancel (c : Cfg) (k : Nat) (hc : CancelCfg c k) (hd : DomainLaw c.giMatch) (roots : List (Node × Faults)) :
    (traceScan c roots).flatten = mustExtract c roots ∧ (∀ b ∈ traceScan c roots, OnePath b) ∧
    (openedCount (mustExtract c roots) < k →
      (run c roots).err = .none ∧ (run c roots).calls = mustExtract c roots ∧
      (run c roots).visited = visitsScan c roots) ∧
    (k ≤ openedCount (mustExtract c roots) → ∃ pre blk post, traceScan c roots = pre ++ blk :: post ∧
      openedCount pre.flatten < k ∧ k ≤ openedCount (pre.flatten ++ blk) ∧
      (run c roots).calls = pre.flatten ++ blk ∧
      (run c roots).err = (if post = [] then .none else .ctx) ∧
      (run c roots).visited = pre.length + 1 + (if post = [] then 0 else 1)) := by
  obtain ⟨hm, he, hcb, hca, hk, hx⟩ := hc
  have hfl := traceScan_flatten c hd roots
  have ht := run_trace c ⟨he, hx⟩ hd roots
  have hr := runT_cancel c k hm hca (traceScan c roots) ⟨0, 0, 0, c.cancelBefore, []⟩ hcb (by exact hk)
  simp only [Nat.zero_add, List.nil_append, hfl, traceScan_length] at hr
  refine ⟨hfl, traceScan_onePath c roots, fun h => ?_, fun h => ?_⟩
  · have := hr.1 h
    exact ⟨ht.1.trans this.1, ht.2.2.trans this.2.1, ht.2.1.trans this.2.2⟩
  · obtain ⟨pre, blk, post, hT, h1, h2, h3, h4, h5⟩ := hr.2 h
    exact ⟨pre, blk, post, hT, h1, by rw [openedCount_append]; exact h2, ht.2.2.trans h3, ht.1.trans h4, ht.2.1.trans h5⟩

/-- The same in terms of `mustExtract` alone: the attempts made are a PREFIX of the attempts owed; the scan
fails (with the context error, never another one) whenever an owed attempt was not made; when the k-th
`Extract` is owed, the attempts made split into `done ++ blk` where the k-th `Extract` lies in `blk` and all
of `blk` concerns one file — so every attempt after the cancellation is for the file being handled. -/
theorem run_cancel_prefix (c : Cfg) (k : Nat) (hc : CancelCfg c k) (hd : DomainLaw c.giMatch) (roots : List (Node × Faults)) :
    ∃ rest, mustExtract c roots = (run c roots).calls ++ rest ∧
      (rest ≠ [] → (run c roots).err = .ctx) ∧
      ((run c roots).err = .none ∨ (run c roots).err = .ctx) ∧
      (openedCount (mustExtract c roots) < k → rest = [] ∧ (run c roots).err = .none) ∧
      (k ≤ openedCount (mustExtract c roots) → ∃ done blk, (run c roots).calls = done ++ blk ∧
        openedCount done < k ∧ k ≤ openedCount (done ++ blk) ∧ OnePath blk) := by
  obtain ⟨hfl, hone, h1, h2⟩ := run_cancel c k hc hd roots
  by_cases h : openedCount (mustExtract c roots) < k
  · have := h1 h
    exact ⟨[], by simp [this.2.1], fun h' => absurd rfl h', Or.inl this.1, fun _ => ⟨rfl, this.1⟩, fun h' => by omega⟩
  · obtain ⟨pre, blk, post, hT, hlt, hge, hcalls, herr, _⟩ := h2 (by omega)
    have hops : mustExtract c roots = (run c roots).calls ++ post.flatten := by
      rw [← hfl, hT, hcalls]; simp
    refine ⟨post.flatten, hops, fun hne => ?_, ?_, fun h' => absurd h' h, fun _ => ?_⟩
    · rw [herr, if_neg]
      intro hp; subst hp; exact hne rfl
    · rw [herr]; split
      · exact Or.inl rfl
      · exact Or.inr rfl
    · exact ⟨pre.flatten, blk, hcalls, hlt, hge, hone blk (by rw [hT]; simp)⟩

/-! ### the same as a function of the trace (`cancelOutcome`, Spec/WalkCount.lean) -/

theorem cancelOutcome_never (k : Nat) : ∀ (T : List (List Call)) (x : Nat), x + openedCount T.flatten < k →
    cancelOutcome k x T = (T.flatten, .none, T.length)
  | [], x, _ => rfl
  | b :: T, x, h => by
    simp only [List.flatten_cons, openedCount_append] at h
    simp only [cancelOutcome]
    rw [if_neg (by omega), cancelOutcome_never k T (x + openedCount b) (by omega)]
    simp

theorem cancelOutcome_split (k : Nat) (blk : List Call) (post : List (List Call)) :
    ∀ (pre : List (List Call)) (x : Nat), x + openedCount pre.flatten < k →
      k ≤ x + openedCount pre.flatten + openedCount blk →
      cancelOutcome k x (pre ++ blk :: post) =
        (pre.flatten ++ blk, (if post = [] then .none else .ctx), pre.length + 1 + (if post = [] then 0 else 1))
  | [], x, _, h2 => by
    simp only [List.flatten_nil, openedCount_nil, Nat.add_zero] at h2
    simp only [List.nil_append, cancelOutcome]
    rw [if_pos h2]
    simp
  | b :: pre, x, h1, h2 => by
    simp only [List.flatten_cons, openedCount_append] at h1 h2
    simp only [List.cons_append, cancelOutcome]
    rw [if_neg (by omega), cancelOutcome_split k blk post pre (x + openedCount b) (by omega) (by omega)]
    simp only [List.flatten_cons, List.append_assoc, List.length_cons, Prod.mk.injEq, true_and]
    omega

/-- **Cancellation, exact outcome**: the attempts, the error and the visited-inode count of the scan are
those `cancelOutcome` reads off the specification's trace. -/
theorem run_cancel_outcome (c : Cfg) (k : Nat) (hc : CancelCfg c k) (hd : DomainLaw c.giMatch) (roots : List (Node × Faults)) :
    ((run c roots).calls, (run c roots).err, (run c roots).visited) = cancelOutcome k 0 (traceScan c roots) := by
  obtain ⟨hfl, _, h1, h2⟩ := run_cancel c k hc hd roots
  by_cases h : openedCount (mustExtract c roots) < k
  · have := h1 h
    rw [cancelOutcome_never k _ 0 (by rw [hfl]; omega), hfl, this.1, this.2.1, this.2.2, traceScan_length]
  · obtain ⟨pre, blk, post, hT, hlt, hge, hcalls, herr, hvis⟩ := h2 (by omega)
    rw [openedCount_append] at hge
    rw [hT, cancelOutcome_split k blk post pre 0 (by omega) (by omega), hcalls, herr, hvis]

/-! ### cancelled before the scan: the first `handleFile` call fails, whatever the configuration -/

/-- a state in which the context is cancelled and nothing has been visited yet -/
structure Fresh (s : St) : Prop where
  cancelled : s.cancelled = true
  inodes : s.inodes = 0
  visited : s.visited = 0
  calls : s.calls = []
  giDirs : s.giDirs = []

/-- the outcome of the first call: context error, nothing attempted, one inode reported -/
def CtxOne (r : St × Err) : Prop := r.2 = .ctx ∧ r.1.calls = [] ∧ r.1.visited = 1

theorem prologue_fresh (c : Cfg) (s : St) (h : Fresh s) :
    (prologue c s).2 = some .ctx ∧ (prologue c s).1.calls = [] ∧ (prologue c s).1.visited = 1 ∧
    (prologue c s).1.giDirs = [] := by
  unfold prologue
  have : ¬ (0 < c.maxInodes ∧ c.maxInodes = 0) := by omega
  simp [h.cancelled, h.inodes, h.visited, h.calls, h.giDirs, this]

theorem fserrCall_fresh (c : Cfg) (s : St) (h : Fresh s) : CtxOne (fserrCall c s) := by
  unfold fserrCall
  have hp := prologue_fresh c s h
  generalize prologue c s = r at hp ⊢
  obtain ⟨s1, e1⟩ := r
  simp only [] at hp
  obtain ⟨h1, h2, h3, _⟩ := hp
  subst h1
  exact ⟨rfl, h2, h3⟩

theorem walkNode_fresh (c : Cfg) (f : Faults) (s : St) (p : Path) (n : Node) (h : Fresh s) : CtxOne (walkNode c f s p n) := by
  have hp := prologue_fresh c s h
  cases n with
  | file k sz =>
    simp only [walkNode]
    generalize prologue c s = r at hp ⊢
    obtain ⟨s1, e1⟩ := r
    simp only [] at hp
    obtain ⟨h1, h2, h3, _⟩ := hp
    subst h1
    exact ⟨rfl, h2, h3⟩
  | dir gi es =>
    simp only [walkNode]
    generalize prologue c s = r at hp ⊢
    obtain ⟨s1, e1⟩ := r
    simp only [] at hp
    obtain ⟨h1, h2, h3, h4⟩ := hp
    subst h1
    simp only []
    rw [popOnExit_nopush c s1 p .ctx (by rw [h4]; intro d hd; cases hd)]
    exact ⟨rfl, h2, h3⟩

theorem walkFrom_fresh (c : Cfg) (f : Faults) (s : St) (root : Node) (p : Path) (h : Fresh s) : CtxOne (walkFrom c f s root p) := by
  unfold walkFrom
  split
  · exact fserrCall_fresh c s h
  · split
    · exact fserrCall_fresh c s h
    · exact walkNode_fresh c f s p _ h

/-- one requested path, cancelled context: the context error after one visit — except that with
`ErrorOnFSErrors` and gitignore handling an unreadable parent `.gitignore` of a requested directory is
reported (as the filesystem error) before any `handleFile` call -/
theorem walkRequested_fresh (c : Cfg) (f : Faults) (s : St) (root : Node) (p : Path) (h : Fresh s) :
    (walkRequested c f s root p).1.calls = [] ∧
    (CtxOne (walkRequested c f s root p) ∨
     ((walkRequested c f s root p).2 = .fs ∧ (walkRequested c f s root p).1.visited = 0 ∧
       c.errorOnFSErrors = true ∧ c.useGitignore = true)) := by
  have hsg : ∀ g, Fresh { s with gis := g } := fun g => ⟨h.cancelled, h.inodes, h.visited, h.calls, h.giDirs⟩
  have lift : ∀ r : St × Err, CtxOne r → CtxOne ({ r.1 with gis := [] }, r.2) := fun r hr => hr
  unfold walkRequested
  split
  · have := fserrCall_fresh c s h; exact ⟨this.2.1, Or.inl this⟩
  · split
    · have := fserrCall_fresh c s h; exact ⟨this.2.1, Or.inl this⟩
    · by_cases hu : c.useGitignore = true
      · simp only [hu, if_true]
        by_cases hfe : ((parentGis f root p).2 && c.errorOnFSErrors) = true
        · simp only [hfe, if_true]
          simp only [Bool.and_eq_true] at hfe
          exact ⟨h.calls, Or.inr ⟨by trivial, h.visited, hfe.2, by trivial⟩⟩
        · simp only [hfe, Bool.false_eq_true, if_false]
          have := lift _ (walkFrom_fresh c f _ root p (hsg (parentGis f root p).1))
          exact ⟨this.2.1, Or.inl this⟩
      · simp only [hu, Bool.false_eq_true, if_false]
        have := lift _ (walkFrom_fresh c f s root p h)
        exact ⟨this.2.1, Or.inl this⟩
    · have hp := prologue_fresh c s h
      generalize prologue c s = r at hp ⊢
      obtain ⟨s1, e1⟩ := r
      simp only [] at hp
      obtain ⟨h1, h2, h3, _⟩ := hp
      subst h1
      exact ⟨h2, Or.inl ⟨rfl, h2, h3⟩⟩

/-- **Cancelled before the scan** (EVERY configuration — limits, fatal errors, requested paths, panicking
extractors — every forest with at least one root and every fault plan): no extraction is attempted and the
scan fails; it fails with the context error after reporting exactly one inode, except in the one corner where
a requested directory's unreadable parent `.gitignore` is fatal and is met before any `handleFile` call. -/
theorem run_cancelBefore (c : Cfg) (hc : c.cancelBefore = true) (r : Node) (f : Faults) (rest : List (Node × Faults)) :
    (run c ((r, f) :: rest)).calls = [] ∧
    (((run c ((r, f) :: rest)).err = .ctx ∧ (run c ((r, f) :: rest)).visited = 1) ∨
     ((run c ((r, f) :: rest)).err = .fs ∧ (run c ((r, f) :: rest)).visited = 0 ∧
       c.errorOnFSErrors = true ∧ c.useGitignore = true ∧ c.paths ≠ [])) := by
  have hfresh : Fresh { cancelled := true, pkgs := [], errs := [], found := [] } := ⟨rfl, rfl, rfl, rfl, rfl⟩
  unfold run
  simp only [runRoots, runRoot, hc]
  cases hps : c.paths with
  | nil =>
    simp only [List.isEmpty_nil, if_true]
    have key := walkFrom_fresh c f _ r [] hfresh
    generalize walkFrom c f _ r [] = x at key ⊢
    obtain ⟨s1, e1⟩ := x
    obtain ⟨k1, k2, k3⟩ := key
    simp only [] at k1 k2 k3
    subst k1
    simp [k2, k3]
  | cons p ps =>
    simp only [List.isEmpty_cons, Bool.false_eq_true, if_false, walkPaths]
    have key := walkRequested_fresh c f _ r p hfresh
    generalize walkRequested c f _ r p = x at key ⊢
    obtain ⟨s1, e1⟩ := x
    obtain ⟨k0, key⟩ := key
    simp only [] at k0 key
    rcases key with ⟨k1, _, k3⟩ | ⟨k1, k3, k4, k5⟩
    · simp only [] at k1 k3; subst k1; simp [k0, k3]
    · subst k1; simp [k0, k3, k4, k5]

/-- … in particular for whole-tree scans, and whenever errors are not fatal or gitignore handling is off:
the context error, no attempt, exactly one inode reported. -/
theorem run_cancelBefore_ctx (c : Cfg) (hc : c.cancelBefore = true)
    (hq : c.paths = [] ∨ c.errorOnFSErrors = false ∨ c.useGitignore = false)
    (r : Node) (f : Faults) (rest : List (Node × Faults)) :
    (run c ((r, f) :: rest)).err = .ctx ∧ (run c ((r, f) :: rest)).calls = [] ∧ (run c ((r, f) :: rest)).visited = 1 := by
  obtain ⟨h0, h | h⟩ := run_cancelBefore c hc r f rest
  · exact ⟨h.1, h0, h.2⟩
  · rcases hq with hq | hq | hq
    · exact absurd hq h.2.2.2.2
    · rw [hq] at h; cases h.2.2.1
    · rw [hq] at h; cases h.2.2.2.1

/-! ### cancellation "between files" -/

/-- A cancellation from inside ANY `Extract` of the j-th `handleFile` call is observably the same as a
cancellation between that call and the next one: the scan cannot tell at which moment of a call the context
was cancelled, only between calls is it looked at. -/
theorem cancelOutcome_between (k : Nat) (pre : List (List Call)) (blk : List Call) (post : List (List Call))
    (h1 : openedCount pre.flatten < k) (h2 : k ≤ openedCount (pre.flatten ++ blk)) :
    cancelOutcome k 0 (pre ++ blk :: post) = cancelBetween (pre.length + 1) (pre ++ blk :: post) := by
  rw [openedCount_append] at h2
  rw [cancelOutcome_split k blk post pre 0 (by omega) (by omega)]
  have e : pre ++ blk :: post = (pre ++ [blk]) ++ post := by simp
  have ht : (pre ++ blk :: post).take (pre.length + 1) = pre ++ [blk] := by
    rw [e, List.take_left' (by simp)]
  have hd : (pre ++ blk :: post).drop (pre.length + 1) = post := by
    rw [e, List.drop_left' (by simp)]
  simp [cancelBetween, ht, hd]

/-- **Cancellation inside an `Extract` = cancellation between two `handleFile` calls, for the engine** (class
`CancelCfg`): when the k-th `Extract` is owed, the scan's attempts, error and visited-inode count are exactly what a
cancellation arriving right after the j-th `handleFile` call must produce (`cancelBetween j` on the specification's
trace), where call `j` is the one during which the k-th `Extract` runs. -/
theorem run_cancel_between (c : Cfg) (k : Nat) (hc : CancelCfg c k) (hd : DomainLaw c.giMatch) (roots : List (Node × Faults))
    (hk : k ≤ openedCount (mustExtract c roots)) :
    ∃ j, 1 ≤ j ∧ j ≤ (traceScan c roots).length ∧
      openedCount ((traceScan c roots).take (j - 1)).flatten < k ∧ k ≤ openedCount ((traceScan c roots).take j).flatten ∧
      ((run c roots).calls, (run c roots).err, (run c roots).visited) = cancelBetween j (traceScan c roots) := by
  obtain ⟨_, _, _, h2⟩ := run_cancel c k hc hd roots
  obtain ⟨pre, blk, post, hT, hlt, hge, _, _, _⟩ := h2 hk
  have ho := run_cancel_outcome c k hc hd roots
  rw [hT] at ho ⊢
  have e : pre ++ blk :: post = (pre ++ [blk]) ++ post := by simp
  refine ⟨pre.length + 1, by omega, by simp, ?_, ?_, ?_⟩
  · simpa using hlt
  · rw [e, List.take_left' (by simp)]; simpa using hge
  · rw [ho]; exact cancelOutcome_between k pre blk post hlt hge

end Scalibr.Walk
