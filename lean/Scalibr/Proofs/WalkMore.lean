/-
Further facts about model A and its specification used by the property files:
no duplicate calls on trees with distinct sibling names (C01), fault containment of the specification
(C09), the behaviour of a cancelled walk (C10), sorting of the results (C08).
-/
import Scalibr.Proofs.WalkTop
import Scalibr.Proofs.WalkPerm
import Scalibr.Model.Scan
namespace Scalibr.Walk

/-! ### sorting commutes with taking keys -/

theorem insertBy_map {α κ} (lt : κ → κ → Bool) (k : α → κ) (x : α) (l : List α) :
    (insertBy (fun a b => lt (k a) (k b)) x l).map k = insertBy lt (k x) (l.map k) := by
  induction l with
  | nil => rfl
  | cons y ys ih =>
    simp only [insertBy, List.map_cons]
    split <;> simp [ih]

theorem isort_map {α κ} (lt : κ → κ → Bool) (k : α → κ) (l : List α) :
    (isort (fun a b => lt (k a) (k b)) l).map k = isort lt (l.map k) := by
  unfold isort
  suffices ∀ acc : List α, (l.foldl (fun acc x => insertBy (fun a b => lt (k a) (k b)) x acc) acc).map k
      = (l.map k).foldl (fun acc x => insertBy lt x acc) (acc.map k) from this []
  induction l with
  | nil => intro acc; rfl
  | cons x xs ih => intro acc; simp only [List.foldl, List.map_cons]; rw [ih, insertBy_map]

theorem keyLt_strictTotal : StrictTotal keyLt :=
  prodLt_strictTotal ltBytes_strictTotal (prodLt_strictTotal ltBytes_strictTotal
    (prodLt_strictTotal ltBytes_strictTotal ltBytes_strictTotal))

/-! ### distinct sibling names ⇒ no call is owed twice -/

mutual
def DistinctNames : Node → Prop
  | .file _ _ => True
  | .dir _ es => (es.map (·.1)).Nodup ∧ DistinctNamesL es
def DistinctNamesL : List (String × Node) → Prop
  | [] => True
  | (_, n) :: rest => DistinctNames n ∧ DistinctNamesL rest
end

mutual
theorem allFiles_path (p : Path) (anc : List DirInfo) :
    ∀ (n : Node) (r : FileRec), r ∈ allFiles p anc n → p.length ≤ r.path.length ∧ r.path.take p.length = p
  | .file k sz, r, hr => by simp [allFiles] at hr; subst hr; simp
  | .dir gi es, r, hr => by
    simp only [allFiles] at hr
    have ⟨s, _, h1, h2⟩ := allFilesList_path p gi anc es 0 r hr
    simp only [List.length_append, List.length_singleton] at h1
    refine ⟨by omega, ?_⟩
    have : (r.path.take (p.length + 1)).take p.length = (p ++ [s]).take p.length := by rw [h2]
    simpa [List.take_take, Nat.min_eq_left (Nat.le_succ _)] using this
theorem allFilesList_path (p : Path) (gi : Option PatSet) (anc : List DirInfo) :
    ∀ (es : List (String × Node)) (i : Nat) (r : FileRec), r ∈ allFilesList p gi anc es i →
      ∃ s, s ∈ es.map (·.1) ∧ (p ++ [s]).length ≤ r.path.length ∧ r.path.take (p.length + 1) = p ++ [s]
  | [], _, r, hr => by simp [allFilesList] at hr
  | (s, n) :: rest, i, r, hr => by
    simp only [allFilesList, List.mem_append] at hr
    rcases hr with hr | hr
    · have ⟨h1, h2⟩ := allFiles_path (p ++ [s]) (anc ++ [⟨p, gi, i⟩]) n r hr
      exact ⟨s, by simp, h1, by simpa using h2⟩
    · have ⟨t, ht, h⟩ := allFilesList_path p gi anc rest (i+1) r hr
      exact ⟨t, by simp [ht], h⟩
end

/-- the calls owed to one file are pairwise distinct, and all carry that file's path -/
theorem mustOne_nodup (c : Cfg) (f : Faults) (above : List GiEntry) (r : FileRec) :
    (mustOne c f above r).Nodup ∧ ∀ cl ∈ mustOne c f above r, cl.path = r.path := by
  unfold mustOne
  split
  · constructor
    · have hf : ((List.range c.nExt).filter fun e => c.required e r.path).Nodup :=
        List.Nodup.sublist List.filter_sublist List.nodup_range
      exact List.Pairwise.map _ (fun a b hne h => hne (by injection h)) hf
    · intro cl hcl; simp at hcl; obtain ⟨e, _, rfl⟩ := hcl; rfl
  · exact ⟨List.nodup_nil, by simp⟩

mutual
theorem mustFlat_nodup (c : Cfg) (f : Faults) (above : List GiEntry) (p : Path) (anc : List DirInfo) :
    ∀ (n : Node), DistinctNames n → ((allFiles p anc n).flatMap (mustOne c f above)).Nodup
  | .file k sz, _ => by simpa [allFiles] using (mustOne_nodup c f above _).1
  | .dir gi es, h => by
    simp only [allFiles]
    unfold DistinctNames at h
    exact mustFlatL_nodup c f above p gi anc es 0 h.1 h.2
theorem mustFlatL_nodup (c : Cfg) (f : Faults) (above : List GiEntry) (p : Path) (gi : Option PatSet) (anc : List DirInfo) :
    ∀ (es : List (String × Node)) (i : Nat), (es.map (·.1)).Nodup → DistinctNamesL es →
      ((allFilesList p gi anc es i).flatMap (mustOne c f above)).Nodup
  | [], _, _, _ => by simp [allFilesList]
  | (s, n) :: rest, i, hnd, hd => by
    simp only [allFilesList, List.flatMap_append]
    unfold DistinctNamesL at hd
    simp only [List.map_cons, List.nodup_cons] at hnd
    rw [List.nodup_append]
    refine ⟨mustFlat_nodup c f above (p ++ [s]) _ n hd.1, mustFlatL_nodup c f above p gi anc rest (i+1) hnd.2 hd.2, ?_⟩
    intro a ha b hb hab
    subst hab
    simp only [List.mem_flatMap] at ha hb
    obtain ⟨r1, hr1, ha⟩ := ha
    obtain ⟨r2, hr2, hb⟩ := hb
    have e1 := (mustOne_nodup c f above r1).2 a ha
    have e2 := (mustOne_nodup c f above r2).2 a hb
    have ⟨_, p1⟩ := allFiles_path (p ++ [s]) _ n r1 hr1
    have ⟨t, ht, _, p2⟩ := allFilesList_path p gi anc rest (i+1) r2 hr2
    simp only [List.length_append, List.length_singleton] at p1
    rw [← e1] at p1; rw [← e2] at p2
    rw [p1] at p2
    have : s = t := by simpa using p2
    subst this
    exact hnd.1 ht
end

/-! ### fault containment of the specification (C09) -/

def noFaults : Faults := {}

/-- no `.gitignore` is unreadable -/
def NoGiFaults (f : Faults) : Prop := ∀ p : Path, f.openFail (p ++ [".gitignore"]) = false

/-- some fault lies on the way to, or at, this file -/
def faultHits (c : Cfg) (f : Faults) (r : FileRec) : Bool :=
  r.dirs.any (fun d => f.openFail d.path || (List.range (d.childIdx + 1)).any fun k => f.readEntryFail d.path k) ||
  (decide (c.maxFileSize > 0) && f.statFail r.path)

theorem giEntryOf_noFaults (f : Faults) (hg : NoGiFaults f) (d : DirInfo) : giEntryOf f d = giEntryOf noFaults d := by
  unfold giEntryOf; simp [hg d.path, noFaults]

theorem dirPasses_contained (c : Cfg) (f : Faults) (hg : NoGiFaults f) (above : List GiEntry) (dirs : List DirInfo) (i : Nat) :
    dirPasses c f above dirs i =
      (dirPasses c noFaults above dirs i &&
        (dirs[i]?).all fun d => !(f.openFail d.path || (List.range (d.childIdx + 1)).any fun k => f.readEntryFail d.path k)) := by
  unfold dirPasses
  have hmap : ∀ l : List DirInfo, l.map (giEntryOf f) = l.map (giEntryOf noFaults) := by
    intro l; exact List.map_congr_left (fun d _ => giEntryOf_noFaults f hg d)
  cases dirs[i]? with
  | none => simp
  | some d =>
    simp only [hmap, noFaults, Option.all_some]
    by_cases ho : f.openFail d.path = true
    · simp [ho]
    · have ho' : f.openFail d.path = false := by simpa using ho
      have hall : ((List.range (d.childIdx + 1)).all fun k => !f.readEntryFail d.path k)
          = !((List.range (d.childIdx + 1)).any fun k => f.readEntryFail d.path k) := by
        rw [List.all_eq_not_any_not]; simp
      have htrue : ((List.range (d.childIdx + 1)).all fun _ => true) = true := by simp
      simp [ho', hall, htrue]

end Scalibr.Walk

namespace Scalibr.Walk

theorem all_range_split (n : Nat) (a b : Nat → Bool) :
    (List.range n).all (fun i => a i && b i) = ((List.range n).all a && (List.range n).all b) := by
  rw [Bool.eq_iff_iff]
  simp only [List.all_eq_true, Bool.and_eq_true]
  constructor
  · intro h; exact ⟨fun i hi => (h i hi).1, fun i hi => (h i hi).2⟩
  · intro h i hi; exact ⟨h.1 i hi, h.2 i hi⟩

theorem all_range_getElem {α} (l : List α) (q : α → Bool) :
    (List.range l.length).all (fun i => (l[i]?).all q) = l.all q := by
  rw [Bool.eq_iff_iff]
  simp only [List.all_eq_true, List.mem_range]
  constructor
  · intro h d hd
    obtain ⟨i, hi, rfl⟩ := List.getElem_of_mem hd
    have := h i hi
    simpa [List.getElem?_eq_getElem hi] using this
  · intro h i hi
    simp [List.getElem?_eq_getElem hi, h _ (List.getElem_mem hi)]

/-- **Fault containment of the specification**: with no unreadable `.gitignore`, what is owed under a
fault plan is what is owed without faults, minus the files that lie below a failing directory open,
at or after a failing directory read, or whose size check fails; for the remaining files the only
difference is whether the file itself can be opened and stat'ed. -/
theorem mustOne_contained (c : Cfg) (f : Faults) (hg : NoGiFaults f) (above : List GiEntry) (r : FileRec) :
    mustOne c f above r =
      if faultHits c f r then []
      else (mustOne c noFaults above r).map fun cl => { cl with opened := readable f r } := by
  have hmap : r.dirs.map (giEntryOf f) = r.dirs.map (giEntryOf noFaults) :=
    List.map_congr_left (fun d _ => giEntryOf_noFaults f hg d)
  have hreach : reached c f above r =
      (reached c noFaults above r &&
        r.dirs.all fun d => !(f.openFail d.path || (List.range (d.childIdx + 1)).any fun k => f.readEntryFail d.path k)) := by
    unfold reached fileEligible
    rw [hmap]
    have : (List.range r.dirs.length).all (dirPasses c f above r.dirs) =
        (List.range r.dirs.length).all (fun i => dirPasses c noFaults above r.dirs i &&
          (r.dirs[i]?).all fun d => !(f.openFail d.path || (List.range (d.childIdx + 1)).any fun k => f.readEntryFail d.path k)) := by
      congr 1; funext i; exact dirPasses_contained c f hg above r.dirs i
    rw [this, all_range_split, all_range_getElem]
    simp only [Bool.and_assoc, Bool.and_comm, Bool.and_left_comm]
  have hsize : sizeOk c f r = (sizeOk c noFaults r && !(decide (c.maxFileSize > 0) && f.statFail r.path)) := by
    unfold sizeOk noFaults
    cases decide (c.maxFileSize > 0) <;> cases f.statFail r.path <;> simp
  unfold mustOne faultHits
  rw [hreach, hsize]
  have hany : (r.dirs.any fun d => f.openFail d.path || (List.range (d.childIdx + 1)).any fun k => f.readEntryFail d.path k)
      = !(r.dirs.all fun d => !(f.openFail d.path || (List.range (d.childIdx + 1)).any fun k => f.readEntryFail d.path k)) := by
    rw [List.all_eq_not_any_not]; simp
  rw [hany]
  cases reached c noFaults above r <;> cases sizeOk c noFaults r <;>
    cases (r.dirs.all fun d => !(f.openFail d.path || (List.range (d.childIdx + 1)).any fun k => f.readEntryFail d.path k)) <;>
    cases (decide (c.maxFileSize > 0) && f.statFail r.path) <;> simp [List.map_map, Function.comp_def]

/-! ### a cancelled walk (C10) -/

theorem prologue_cancelled (c : Cfg) (s : St) (hc : s.cancelled = true) :
    ((prologue c s).2 = some .maxInodes ∨ (prologue c s).2 = some .ctx) ∧
    (prologue c s).1.calls = s.calls ∧ (prologue c s).1.cancelled = true := by
  unfold prologue
  simp only []
  split
  · simp [hc]
  · simp [hc]

theorem fserrCall_cancelled (c : Cfg) (s : St) (hc : s.cancelled = true) :
    (fserrCall c s).2 ≠ .none ∧ (fserrCall c s).1.calls = s.calls := by
  unfold fserrCall
  have hp := prologue_cancelled c s hc
  generalize prologue c s = r at hp ⊢
  obtain ⟨s1, e1⟩ := r
  simp only [] at hp
  rcases hp with ⟨h | h, h2, _⟩ <;> subst h <;> exact ⟨by simp, h2⟩

/-- once the context is cancelled, a walk step starts no extraction and reports an error -/
theorem walkNode_cancelled (c : Cfg) (f : Faults) (s : St) (p : Path) (n : Node) (hc : s.cancelled = true) :
    (walkNode c f s p n).2 ≠ .none ∧ (walkNode c f s p n).1.calls = s.calls := by
  have hp := prologue_cancelled c s hc
  cases n with
  | file k sz =>
    simp only [walkNode]
    generalize prologue c s = r at hp ⊢
    obtain ⟨s1, e1⟩ := r
    simp only [] at hp
    rcases hp with ⟨h | h, h2, _⟩ <;> subst h <;> exact ⟨by simp, h2⟩
  | dir gi es =>
    simp only [walkNode]
    generalize prologue c s = r at hp ⊢
    obtain ⟨s1, e1⟩ := r
    simp only [] at hp
    have hfr := fun e => popOnExit_frame c s1 p e
    rcases hp with ⟨h | h, h2, _⟩ <;> subst h <;> simp only []
    · refine ⟨?_, by rw [(hfr _).1]; exact h2⟩
      unfold popOnExit; (repeat' split) <;> simp
    · refine ⟨?_, by rw [(hfr _).1]; exact h2⟩
      unfold popOnExit; (repeat' split) <;> simp

/-- every attempt made while handling one file concerns that file -/
theorem extractLoop_paths (c : Cfg) (f : Faults) (p : Path) (size : Nat) :
    ∀ (rs : List Nat) (s : St) (chk : Bool),
      ∃ cs, (extractLoop c f p size s rs chk).1.calls = s.calls ++ cs ∧ ∀ cl ∈ cs, cl.path = p := by
  intro rs
  induction rs with
  | nil => intro s chk; exact ⟨[], by simp [extractLoop], by simp⟩
  | cons e rest ih =>
    intro s chk
    simp only [extractLoop]
    obtain ⟨o, h1⟩ := runExtractor_calls c f s e p size
    generalize runExtractor c f s e p size = r at h1 ⊢
    obtain ⟨s1, pan⟩ := r
    simp only [] at h1
    have step : ∀ chk', ∃ cs, (if pan = true then (s1, some Err.panic) else extractLoop c f p size s1 rest chk').1.calls = s.calls ++ cs ∧ ∀ cl ∈ cs, cl.path = p := by
      intro chk'
      split
      · exact ⟨[⟨e, p, size, o⟩], h1, by simp⟩
      · obtain ⟨cs, g1, g2⟩ := ih s1 chk'
        refine ⟨⟨e, p, size, o⟩ :: cs, by rw [g1, h1]; simp, ?_⟩
        intro cl hcl
        rcases List.mem_cons.mp hcl with rfl | hcl
        · rfl
        · exact g2 cl hcl
    split
    · split
      · split
        · split <;> exact ⟨[], by simp, by simp⟩
        · split
          · exact ⟨[], by simp, by simp⟩
          · exact step true
      · exact step chk
    · exact ih s chk

end Scalibr.Walk
