import Scalibr.Model.OnceCell
namespace Scalibr.OnceCell

structure Inv (fails : Eco → Bool) (s : St) : Prop where
  built_le : ∀ e, s.built e = if (s.cell e).isSome then 1 else 0
  got_cell : ∀ t e c, s.got t = some (e, c) → s.cell e = some c
  cell_lt : ∀ e c, s.cell e = some c → c < s.next
  fail_none : ∀ e, fails e = true → s.cell e = none

theorem inv_init (fails : Eco → Bool) : Inv fails init := by
  refine ⟨fun _ => rfl, ?_, ?_, fun _ _ => rfl⟩ <;> intros <;> simp_all [init]

theorem inv_step (fails : Eco → Bool) (s : St) (t : Nat) (e : Eco) (h : Inv fails s) : Inv fails (step fails s t e) := by
  obtain ⟨h1, h2, h3, h4⟩ := h
  unfold step
  cases hc : s.cell e with
  | some c =>
    refine ⟨h1, ?_, h3, h4⟩
    intro t' e' c' hg
    simp only [upd] at hg; split at hg
    · cases hg; exact hc
    · exact h2 t' e' c' hg
  | none =>
    cases hf : fails e with
    | true =>
      simp only [↓reduceIte]
      refine ⟨h1, ?_, h3, h4⟩
      intro t' e' c' hg
      simp only [upd] at hg; split at hg
      · cases hg
      · exact h2 t' e' c' hg
    | false =>
      simp only [Bool.false_eq_true, ↓reduceIte]
      refine ⟨?_, ?_, ?_, ?_⟩
      · intro e'
        simp only [upd]; split
        · rename_i he; subst he; have := h1 e'; simp [hc] at this; simp [this]
        · exact h1 e'
      · intro t' e' c' hg
        simp only [upd] at hg ⊢
        split at hg
        · cases hg; simp
        · have := h2 t' e' c' hg
          split
          · rename_i he; subst he; rw [hc] at this; cases this
          · exact this
      · intro e' c' hce
        simp only [upd] at hce; split at hce
        · cases hce; exact Nat.lt_succ_self _
        · exact Nat.lt_succ_of_lt (h3 e' c' hce)
      · intro e' hf'
        simp only [upd]; split
        · rename_i he; subst he; rw [hf] at hf'; cases hf'
        · exact h4 e' hf'

theorem inv_run (fails : Eco → Bool) (calls : List (Nat × Eco)) : Inv fails (run fails calls) := by
  unfold run
  suffices ∀ s, Inv fails s → Inv fails (calls.foldl (fun s c => step fails s c.1 c.2) s) from this _ (inv_init fails)
  induction calls with
  | nil => intro s h; exact h
  | cons c cs ih => intro s h; exact ih _ (inv_step fails s c.1 c.2 h)

end Scalibr.OnceCell
