import Scalibr.Model.OnceCell
namespace Scalibr.OnceCell

structure Inv (s : St) : Prop where
  built_le : ∀ e, s.built e = if (s.cell e).isSome then 1 else 0
  got_cell : ∀ t e c, s.got t = some (e, c) → s.cell e = some c
  cell_lt : ∀ e c, s.cell e = some c → c < s.next

theorem inv_init : Inv init := by
  refine ⟨fun _ => rfl, ?_, ?_⟩ <;> intros <;> simp_all [init]

theorem inv_step (s : St) (t : Nat) (e : Eco) (h : Inv s) : Inv (step s t e) := by
  obtain ⟨h1, h2, h3⟩ := h
  unfold step
  cases hc : s.cell e with
  | some c =>
    refine ⟨h1, ?_, h3⟩
    intro t' e' c' hg
    simp only [upd] at hg; split at hg
    · cases hg; exact hc
    · exact h2 t' e' c' hg
  | none =>
    refine ⟨?_, ?_, ?_⟩
    · intro e'
      simp only [upd]; split
      · rename_i he; subst he; have := h1 e'; simp [hc] at this; simp [this]
      · exact h1 e'
    · intro t' e' c' hg
      simp only [upd] at hg ⊢
      split at hg
      · cases hg; simp
      · have := h2 t' e' c' hg
        split
        · rename_i he; subst he; rw [hc] at this; cases this
        · exact this
    · intro e' c' hce
      simp only [upd] at hce; split at hce
      · cases hce; exact Nat.lt_succ_self _
      · exact Nat.lt_succ_of_lt (h3 e' c' hce)

theorem inv_run (calls : List (Nat × Eco)) : Inv (run calls) := by
  unfold run
  suffices ∀ s, Inv s → Inv (calls.foldl (fun s c => step s c.1 c.2) s) from this _ inv_init
  induction calls with
  | nil => intro s h; exact h
  | cons c cs ih => intro s h; exact ih _ (inv_step s c.1 c.2 h)

end Scalibr.OnceCell
