/-
C16(a) helper lemmas: confluence of the worklist (the multiset of tasks ever processed is the closure of
the initial tasks under `spawn`, whatever the delivery order) and termination under a rank.
-/
import Scalibr.Model.Worklist
namespace Scalibr.Worklist
open List

section generic
variable {τ π : Type} (out : τ → Option π) (spawn : τ → List τ)

/-- complete runs at multiset level: from the pending multiset `P` the tasks `ps` are processed in this
    order and nothing is pending afterwards -/
inductive Runs : List τ → List τ → Prop
  | nil : Runs [] []
  | cons {P Q ps} (t : τ) : P.Perm (t :: Q) → Runs (Q ++ spawn t) ps → Runs P (t :: ps)

variable {spawn}

theorem Runs.of_perm {P P' ps} (h : Runs spawn P ps) (hp : P'.Perm P) : Runs spawn P' ps := by
  cases h with
  | nil => rw [List.perm_nil.mp hp]; exact Runs.nil
  | cons t hP hr => exact Runs.cons t (hp.trans hP) hr

theorem Runs.nil_inv {ps} (h : Runs spawn ([] : List τ) ps) : ps = [] := by
  cases h with
  | nil => rfl
  | cons t hP hr => exact absurd hP.symm (by intro h; have := h.length_eq; simp at this)

/-- any pending task can be moved to the front of a complete run -/
theorem Runs.pull [DecidableEq τ] {P ps} (h : Runs spawn P ps) :
    ∀ t Q, P.Perm (t :: Q) → ∃ ps', Runs spawn (Q ++ spawn t) ps' ∧ ps.Perm (t :: ps') := by
  induction h with
  | nil => intro t Q hp; have := hp.length_eq; simp at this
  | @cons P R ps0 u hP hr ih =>
    intro t Q hpq
    have huq : (u :: R).Perm (t :: Q) := hP.symm.trans hpq
    by_cases htu : t = u
    · subst htu
      have hRQ : R.Perm Q := List.Perm.cons_inv huq
      exact ⟨ps0, hr.of_perm (List.Perm.append_right _ hRQ.symm), List.Perm.refl _⟩
    · have htR : t ∈ R := by
        have : t ∈ u :: R := huq.symm.subset (by simp)
        rcases List.mem_cons.mp this with h | h
        · exact absurd h htu
        · exact h
      have hR : R.Perm (t :: R.erase t) := List.perm_cons_erase htR
      have hQ : Q.Perm (u :: R.erase t) := by
        have h1 : (t :: Q).Perm (t :: u :: R.erase t) :=
          huq.symm.trans ((List.Perm.cons u hR).trans (List.Perm.swap t u _))
        exact List.Perm.cons_inv h1
      have h2 : (R ++ spawn u).Perm (t :: (R.erase t ++ spawn u)) := by
        simpa using List.Perm.append_right (spawn u) hR
      obtain ⟨ps3, hr3, hp3⟩ := ih t (R.erase t ++ spawn u) h2
      refine ⟨u :: ps3, ?_, ?_⟩
      · refine Runs.cons u (Q := R.erase t ++ spawn t) ?_ (hr3.of_perm ?_)
        · simpa using List.Perm.append_right (spawn t) hQ
        · simp only [List.append_assoc]
          exact List.Perm.append_left _ List.perm_append_comm
      · exact (List.Perm.cons u hp3).trans (List.Perm.swap t u ps3)

/-- **confluence**: two complete runs from the same pending multiset process the same multiset of tasks -/
theorem Runs.confluent [DecidableEq τ] {P ps} (h : Runs spawn P ps) :
    ∀ P' ps', Runs spawn P' ps' → P.Perm P' → ps.Perm ps' := by
  induction h with
  | nil =>
    intro P' ps' h' hp
    have : P' = [] := List.perm_nil.mp hp.symm
    subst this; rw [h'.nil_inv]
  | @cons P Q ps0 t hP hr ih =>
    intro P' ps' h' hp
    obtain ⟨ps'', hr'', hp''⟩ := h'.pull t Q (hp.symm.trans hP)
    exact (List.Perm.cons t (ih _ _ hr'' (List.Perm.refl _))).trans hp''.symm

theorem perm_cons_eraseIdx {α} : ∀ (l : List α) (i : Nat) (t : α), l[i]? = some t → l.Perm (t :: l.eraseIdx i)
  | [], i, t, h => by simp at h
  | a :: l, 0, t, h => by simp at h; subst h; simp
  | a :: l, i+1, t, h => by
    simp at h
    have := perm_cons_eraseIdx l i t h
    simpa using (List.Perm.cons a this).trans (List.Perm.swap t a _)

variable (spawn)

/-- a complete position-schedule is a complete multiset-level run -/
theorem exec_runs : ∀ (σ : List Nat) (s s' : St τ π), exec out spawn σ s = some s' → s'.pending = [] →
    ∃ ps, Runs spawn s.pending ps ∧ s'.collected = s.collected ++ ps.filterMap out := by
  intro σ
  induction σ with
  | nil =>
    intro s s' h he
    simp only [exec, Option.some.injEq] at h
    subst h
    exact ⟨[], by rw [he]; exact Runs.nil, by simp⟩
  | cons i σ ih =>
    intro s s' h he
    simp only [exec] at h
    cases hs : stepAt out spawn i s with
    | none => rw [hs] at h; cases h
    | some s1 =>
      rw [hs] at h
      unfold stepAt at hs
      cases hg : s.pending[i]? with
      | none => rw [hg] at hs; cases hs
      | some t =>
        rw [hg] at hs
        simp only [Option.some.injEq] at hs
        subst hs
        obtain ⟨ps1, hr1, hc1⟩ := ih _ _ h he
        refine ⟨t :: ps1, Runs.cons t (perm_cons_eraseIdx _ _ _ hg) hr1, ?_⟩
        rw [hc1]
        cases ho : out t <;> simp [ho]

/-- the processed tasks of two complete schedules are permutations of each other; so are the collected patches -/
theorem exec_confluent [DecidableEq τ] (σ σ' : List Nat) (s0 : St τ π) (c c' : List π)
    (h : exec out spawn σ s0 = some ⟨[], c⟩) (h' : exec out spawn σ' s0 = some ⟨[], c'⟩) : c.Perm c' := by
  obtain ⟨ps, hr, hc⟩ := exec_runs out spawn σ s0 _ h rfl
  obtain ⟨ps', hr', hc'⟩ := exec_runs out spawn σ' s0 _ h' rfl
  simp only at hc hc'
  rw [hc, hc']
  exact List.Perm.append_left _ ((hr.confluent _ _ hr' (List.Perm.refl _)).filterMap out)

/-- the breadth-first specification is one particular schedule -/
theorem fifo_exec : ∀ (n : Nat) (s : St τ π), ∃ σ, exec out spawn σ s = some (fifo out spawn n s)
  | 0, s => ⟨[], rfl⟩
  | n+1, s => by
    cases hp : s.pending with
    | nil => exact ⟨[], by simp [exec, fifo, hp]⟩
    | cons t rest =>
      obtain ⟨σ, hσ⟩ := fifo_exec n ⟨rest ++ spawn t, s.collected ++ (out t).toList⟩
      refine ⟨0 :: σ, ?_⟩
      simp [exec, stepAt, fifo, hp, hσ]

/-- every complete schedule collects a permutation of what the breadth-first closure collects -/
theorem exec_perm_fifo [DecidableEq τ] (σ : List Nat) (s0 : St τ π) (c : List π) (n : Nat)
    (h : exec out spawn σ s0 = some ⟨[], c⟩) (hf : (fifo out spawn n s0).pending = []) :
    c.Perm (fifo out spawn n s0).collected := by
  obtain ⟨σ', hσ'⟩ := fifo_exec out spawn n s0
  have : fifo out spawn n s0 = ⟨[], (fifo out spawn n s0).collected⟩ := by
    cases hh : fifo out spawn n s0 with
    | mk p c' => rw [hh] at hf; simp at hf; subst hf; rfl
  rw [this] at hσ'
  exact exec_confluent out spawn σ σ' s0 _ _ h hσ'

/-- task-valued schedules are position schedules -/
theorem execTasks_eq_exec [DecidableEq τ] : ∀ (ts : List τ) (s : St τ π),
    execTasks out spawn ts s = exec out spawn (positions out spawn ts s) s
  | [], s => rfl
  | t :: ts, s => by
    simp only [execTasks, positions]
    cases hd : deliver out spawn t s with
    | none =>
      simp only [exec, stepAt]
      simp
    | some s' =>
      simp only [exec]
      have : stepAt out spawn (s.pending.idxOf t) s = some s' := by
        unfold deliver at hd; split at hd
        · exact hd
        · cases hd
      rw [this]
      exact execTasks_eq_exec ts s'

/-! ### termination under a rank -/

variable (rank : τ → Nat) (b : Nat)

def weight (t : τ) : Nat := (b + 1) ^ rank t
def mu (P : List τ) : Nat := (P.map (weight rank b)).sum

theorem mu_append (P Q : List τ) : mu rank b (P ++ Q) = mu rank b P + mu rank b Q := by
  simp [mu, List.sum_append]

theorem mu_eraseIdx : ∀ (l : List τ) (i : Nat) (t : τ), l[i]? = some t →
    mu rank b l = weight rank b t + mu rank b (l.eraseIdx i)
  | [], i, t, h => by simp at h
  | a :: l, 0, t, h => by simp at h; subst h; simp [mu]
  | a :: l, i+1, t, h => by
    simp at h
    have := mu_eraseIdx l i t h
    simp only [mu, List.map_cons, List.sum_cons, List.eraseIdx_cons_succ] at this ⊢
    omega

theorem weight_pos (t : τ) : 0 < weight rank b t := Nat.pow_pos (Nat.succ_pos b)

theorem mu_le_of_rank_lt (r : Nat) : ∀ (l : List τ), (∀ s ∈ l, rank s < r + 1) → mu rank b l ≤ l.length * (b + 1) ^ r
  | [], _ => by simp [mu]
  | a :: l, h => by
    have h1 := mu_le_of_rank_lt r l (fun s hs => h s (by simp [hs]))
    have h2 : weight rank b a ≤ (b + 1) ^ r :=
      Nat.pow_le_pow_right (Nat.succ_pos b) (Nat.lt_succ_iff.mp (h a (by simp)))
    simp only [mu, List.map_cons, List.sum_cons, List.length_cons] at h1 ⊢
    rw [Nat.succ_mul]; omega

variable (hrank : ∀ t, ∀ s ∈ spawn t, rank s < rank t) (hb : ∀ t, (spawn t).length ≤ b)
include hrank hb

theorem mu_spawn_lt (t : τ) : mu rank b (spawn t) < weight rank b t := by
  cases hr : rank t with
  | zero =>
    have : spawn t = [] := by
      cases hs : spawn t with
      | nil => rfl
      | cons s _ => have := hrank t s (by simp [hs]); omega
    simp [this, mu, weight, hr]
  | succ r =>
    have h1 := mu_le_of_rank_lt rank b r (spawn t) (fun s hs => by have := hrank t s hs; omega)
    have h2 : (spawn t).length * (b + 1) ^ r ≤ b * (b + 1) ^ r := Nat.mul_le_mul_right _ (hb t)
    have h3 : 0 < (b + 1) ^ r := Nat.pow_pos (Nat.succ_pos b)
    simp only [weight, hr, Nat.pow_succ]
    have : (b + 1) ^ r * (b + 1) = b * (b + 1) ^ r + (b + 1) ^ r := by
      rw [Nat.mul_comm, Nat.succ_mul]
    omega

theorem stepAt_mu (i : Nat) (s s' : St τ π) (h : stepAt out spawn i s = some s') :
    mu rank b s'.pending < mu rank b s.pending := by
  unfold stepAt at h
  cases hg : s.pending[i]? with
  | none => rw [hg] at h; cases h
  | some t =>
    rw [hg] at h; simp only [Option.some.injEq] at h; subst h
    have h1 := mu_eraseIdx rank b _ _ _ hg
    have h2 := mu_spawn_lt spawn rank b hrank hb t
    simp only [mu_append]; omega

/-- no schedule is longer than the initial measure: the main loop cannot run forever -/
theorem exec_length_le : ∀ (σ : List Nat) (s s' : St τ π), exec out spawn σ s = some s' →
    σ.length + mu rank b s'.pending ≤ mu rank b s.pending := by
  intro σ
  induction σ with
  | nil => intro s s' h; simp only [exec, Option.some.injEq] at h; subst h; simp
  | cons i σ ih =>
    intro s s' h
    simp only [exec] at h
    cases hs : stepAt out spawn i s with
    | none => rw [hs] at h; cases h
    | some s1 =>
      rw [hs] at h
      have h1 := ih _ _ h
      have h2 := stepAt_mu out spawn rank b hrank hb i s s1 hs
      simp only [List.length_cons]; omega

/-- breadth-first delivery with the measure as fuel empties the worklist -/
theorem fifo_complete : ∀ (n : Nat) (s : St τ π), mu rank b s.pending ≤ n → (fifo out spawn n s).pending = []
  | 0, s, h => by
    cases hp : s.pending with
    | nil => simp [fifo, hp]
    | cons t rest =>
      have := weight_pos rank b t
      simp [hp, mu] at h
      omega
  | n+1, s, h => by
    cases hp : s.pending with
    | nil => simp [fifo, hp]
    | cons t rest =>
      simp only [fifo, hp]
      apply fifo_complete n
      have h1 : stepAt out spawn 0 s = some ⟨rest ++ spawn t, s.collected ++ (out t).toList⟩ := by
        simp [stepAt, hp]
      have := stepAt_mu out spawn rank b hrank hb 0 s _ h1
      show mu rank b (rest ++ spawn t) ≤ n
      simp only at this
      omega

end generic

/-! ### the rank of the ComputePatches instance -/

theorem filter_length_lt {α} (p q : α → Bool) : ∀ (l : List α), (∀ x, p x = true → q x = true) →
    (∃ x ∈ l, q x = true ∧ p x = false) → (l.filter p).length < (l.filter q).length
  | [], _, h => by obtain ⟨x, hx, _⟩ := h; simp at hx
  | a :: l, hpq, h => by
    have hle : (l.filter p).length ≤ (l.filter q).length := by
      clear h
      induction l with
      | nil => simp
      | cons c l ih =>
        simp only [List.filter_cons]
        cases hp : p c <;> cases hq : q c <;> simp <;> first | omega | (have := hpq c hp; simp [hq] at this)
    obtain ⟨x, hx, hqx, hpx⟩ := h
    simp only [List.filter_cons]
    rcases List.mem_cons.mp hx with rfl | hx'
    · simp [hqx, hpx]; omega
    · have := filter_length_lt p q l hpq ⟨x, hx', hqx, hpx⟩
      cases hp : p a <;> cases hq : q a <;> simp <;> first | omega | (have := hpq a hp; simp [hq] at this)

/-- vulnerabilities of the universe `U` not yet named by the task -/
def rankCP (U : List Str) (t : Task) : Nat := (U.filter (fun v => !t.contains v)).length

/-- finiteness hypothesis: every vulnerability a patch can introduce is in `U`, at most `b` at a time -/
def FiniteCP (U : List Str) (b : Nat) (patchFn : Task → Option Patch) : Prop :=
  ∀ t p, patchFn t = some p → (∀ v ∈ p.introduced, v ∈ U) ∧ p.introduced.length ≤ b

theorem outCP_some {patchFn : Task → Option Patch} {t p} (h : outCP patchFn t = some p) : patchFn t = some p ∧ p.updates ≠ [] := by
  unfold outCP at h
  cases hp : patchFn t with
  | none => rw [hp] at h; cases h
  | some q =>
    rw [hp] at h; simp only at h
    split at h
    · cases h
    · rename_i hne; cases h; exact ⟨rfl, by intro he; simp [he] at hne⟩

theorem rankCP_append_lt (U : List Str) (t na : Task) (v : Str) (hv : v ∈ na) (hU : v ∈ U) (hnt : t.contains v = false) :
    rankCP U (t ++ na) < rankCP U t := by
  unfold rankCP
  apply filter_length_lt
  · intro x hx
    simp only [Bool.not_eq_eq_eq_not, Bool.not_true, List.contains_eq_mem, List.mem_append, decide_eq_false_iff_not, not_or] at hx ⊢
    exact hx.1
  · refine ⟨v, hU, by simpa using hnt, ?_⟩
    simp [hv]

theorem spawnCP_rank (U : List Str) (b : Nat) (patchFn : Task → Option Patch) (grouped : Bool)
    (hf : FiniteCP U b patchFn) (t : Task) : ∀ s ∈ spawnCP patchFn grouped t, rankCP U s < rankCP U t := by
  intro s hs
  unfold spawnCP at hs
  cases ho : outCP patchFn t with
  | none => rw [ho] at hs; simp at hs
  | some p =>
    rw [ho] at hs; simp only at hs
    obtain ⟨hp, _⟩ := outCP_some ho
    have hU := (hf t p hp).1
    have hna : ∀ v ∈ newlyAdded t p, v ∈ U ∧ t.contains v = false := by
      intro v hv
      simp only [newlyAdded, List.mem_filter, Bool.not_eq_eq_eq_not, Bool.not_true] at hv
      exact ⟨hU v hv.1, hv.2⟩
    split at hs
    · simp at hs
    · rename_i hne
      split at hs
      · simp only [List.mem_singleton] at hs; subst hs
        cases hn : newlyAdded t p with
        | nil => simp [hn] at hne
        | cons v rest =>
          have := hna v (by simp [hn])
          exact rankCP_append_lt U t _ v (by simp) this.1 this.2
      · simp only [List.mem_map] at hs
        obtain ⟨v, hv, rfl⟩ := hs
        have := hna v hv
        exact rankCP_append_lt U t [v] v (by simp) this.1 this.2

theorem spawnCP_length (U : List Str) (b : Nat) (patchFn : Task → Option Patch) (grouped : Bool)
    (hf : FiniteCP U b patchFn) (t : Task) : (spawnCP patchFn grouped t).length ≤ b + 1 := by
  unfold spawnCP
  cases ho : outCP patchFn t with
  | none => simp
  | some p =>
    simp only
    obtain ⟨hp, _⟩ := outCP_some ho
    have hl := (hf t p hp).2
    split
    · simp
    · split
      · simp
      · simp only [List.length_map, newlyAdded]
        have := List.length_filter_le (fun v => !t.contains v) p.introduced
        omega

end Scalibr.Worklist
