import Scalibr.Spec.Upgrade
import Scalibr.Proofs.VersionOrder
namespace Scalibr.Upgrade

theorem allows_major_all (lvl d : Nat) (h : allows lvl dMajor = true) : allows lvl d = true := by
  unfold allows dMajor at h
  unfold allows
  match lvl with
  | 0 => simp
  | 1 => simp at h
  | 2 => simp at h
  | 3 => simp at h
  | n + 4 => simp at h

theorem allows_trans (diff : Nat → Nat → Nat) (L : DiffClassLaws diff) (lvl a b c : Nat)
    (h1 : allows lvl (diff a b) = true) (h2 : allows lvl (diff b c) = true) : allows lvl (diff a c) = true := by
  unfold allows at *
  by_cases hac : diff a c = 0
  · simp [hac]
  · simp only [hac, if_false]
    match lvl with
    | 0 => rfl
    | 1 =>
      by_cases hab : diff a b = 0 <;> by_cases hbc : diff b c = 0 <;> simp_all <;>
        exact L.major a b c (by unfold dMajor; omega) (by unfold dMajor; omega)
    | 2 =>
      have := L.minor a b c
      unfold dMajor dMinor at this
      by_cases hab : diff a b = 0 <;> by_cases hbc : diff b c = 0 <;> simp_all <;> (apply this <;> omega)
    | 3 =>
      by_cases hab : diff a b = 0 <;> by_cases hbc : diff b c = 0 <;> simp_all
      exact hac (L.same a b c hab hbc)
    | n + 4 =>
      by_cases hab : diff a b = 0 <;> by_cases hbc : diff b c = 0 <;> simp_all
      exact hac (L.same a b c hab hbc)

end Scalibr.Upgrade

namespace Scalibr.Relax
open Scalibr.Upgrade

theorem scanTop_spec (t : T) (k : Nat) (next : Option Nat) (pre : Bool) (l nx : Nat) (p : Bool)
    (h : scanTop t k next pre = (some l, some nx, p)) (hn : ∀ x, next = some x → k ≤ x) :
    l < k ∧ l < nx := by
  induction k generalizing next pre with
  | zero => simp [scanTop] at h
  | succ i ih =>
    simp only [scanTop] at h
    by_cases hm : t.mat i = true
    · simp only [hm, if_true, Prod.mk.injEq, Option.some.injEq] at h
      obtain ⟨rfl, hnx, _⟩ := h
      exact ⟨by omega, by have := hn nx hnx; omega⟩
    · simp only [hm, Bool.false_eq_true, if_false] at h
      split at h
      · obtain ⟨h1, h2⟩ := ih (some i) (t.isPre i) h (fun x hx => by injection hx with hx; omega)
        exact ⟨by omega, h2⟩
      · obtain ⟨h1, h2⟩ := ih next pre h (fun x hx => by have := hn x hx; omega)
        exact ⟨by omega, h2⟩

/-- the upward search returns the start value or a later index whose difference was allowed -/
theorem best_spec (t : T) (level cmp diff : Nat) (nip : Bool) (fuel i cur : Nat) (hci : cur < i) :
    let r := best t level cmp diff nip fuel i cur
    (r = cur ∨ (cur < r ∧ ∃ d, t.diff cmp r = some d ∧ allows level d = true)) := by
  induction fuel generalizing i cur with
  | zero => simp [best]
  | succ f ih =>
    simp only [best]
    by_cases hi : i ≥ t.n
    · simp [hi]
    · simp only [hi, if_false]
      cases hd : t.diff cmp i with
      | none =>
        simp only
        exact ih (i + 1) cur (by omega)
      | some d =>
        simp only
        by_cases ha : allows level d = true
        · simp only [ha, Bool.not_true, Bool.false_eq_true, if_false]
          by_cases hdd : d < diff
          · simp [hdd]
          · simp only [hdd, if_false]
            by_cases hp : (!t.isPre i || nip) = true
            · simp only [hp, if_true]
              rcases ih (i + 1) i (by omega) with h | ⟨h1, h2⟩
              · right; rw [h]; exact ⟨hci, d, hd, ha⟩
              · right; exact ⟨by omega, h2⟩
            · simp only [hp, Bool.false_eq_true, if_false]
              exact ih (i + 1) cur (by omega)
        · simp [ha]

end Scalibr.Relax

namespace Scalibr.Override
open Scalibr.Upgrade

theorem dropWhile_eq_gt (rank : Nat → Nat) (vk : Nat) (l : List Nat) (hs : Sorted rank l) (hge : ∀ y ∈ l, rank vk ≤ rank y) :
    ∀ r ∈ l.dropWhile (fun x => rank x = rank vk), rank vk < rank r := by
  induction l with
  | nil => intro r hr; simp at hr
  | cons x xs ih =>
    unfold Sorted at hs
    rw [List.pairwise_cons] at hs
    intro r hr
    by_cases hx : rank x = rank vk
    · simp only [List.dropWhile, hx, decide_true] at hr
      exact ih hs.2 (fun y hy => hge y (by simp [hy])) r hr
    · simp only [List.dropWhile, hx, decide_false] at hr
      have hxge := hge x (by simp)
      simp only [List.mem_cons] at hr
      rcases hr with rfl | hr
      · omega
      · have := hs.1 r hr; omega

theorem versionsGreater_gt (rank : Nat → Nat) (vs : List Nat) (vk : Nat) (hs : Sorted rank vs) :
    ∀ r ∈ versionsGreater rank vs vk, rank vk < rank r := by
  induction vs with
  | nil => intro r hr; simp [versionsGreater] at hr
  | cons x xs ih =>
    have hs' := hs
    unfold Sorted at hs'
    rw [List.pairwise_cons] at hs'
    intro r hr
    unfold versionsGreater at hr
    by_cases hx : rank x < rank vk
    · have htw : (x :: xs).takeWhile (fun y => rank y < rank vk) = x :: xs.takeWhile (fun y => rank y < rank vk) := by
        simp [List.takeWhile, hx]
      simp only [htw, List.length_cons, List.drop_succ_cons] at hr
      exact ih hs'.2 r hr
    · have htw : (x :: xs).takeWhile (fun y => rank y < rank vk) = [] := by simp [List.takeWhile, hx]
      simp only [htw, List.length_nil, List.drop_zero] at hr
      apply dropWhile_eq_gt rank vk (x :: xs) hs _ r hr
      intro y hy
      simp only [List.mem_cons] at hy
      rcases hy with rfl | hy
      · omega
      · have := hs'.1 y hy; omega

theorem versionsGreater_sub (rank : Nat → Nat) (vs : List Nat) (vk : Nat) : ∀ r ∈ versionsGreater rank vs vk, r ∈ vs := by
  intro r hr
  unfold versionsGreater at hr
  simp only at hr
  exact List.mem_of_mem_drop ((List.dropWhile_sublist _).subset hr)

/-- what the scan hands back: the incoming best, or a candidate that was reached through allowed
differences only and lowered the count -/
theorem scan_spec (level : Nat) (cs : List Cand) (best : Option Cand) (bc : Nat) :
    let r := scan level cs best bc
    (r = (best, bc)) ∨ (∃ b, r.1 = some b ∧ b ∈ cs ∧ allows level b.diff = true ∧ b.count = r.2 ∧ r.2 < bc) := by
  induction cs generalizing best bc with
  | nil => simp [scan]
  | cons c cs ih =>
    simp only [scan]
    by_cases ha : allows level c.diff = true
    · simp only [ha, Bool.not_true, Bool.false_eq_true, if_false]
      by_cases hc : c.count < bc
      · simp only [hc, if_true]
        by_cases h0 : c.count = 0
        · simp only [h0, if_true]
          right; exact ⟨c, rfl, by simp, ha, h0, by omega⟩
        · simp only [h0, if_false]
          rcases ih (some c) c.count with h | ⟨b, h1, h2, h3, h4, h5⟩
          · right; rw [h]; exact ⟨c, rfl, by simp, ha, rfl, hc⟩
          · right; exact ⟨b, h1, by simp [h2], h3, h4, by omega⟩
      · simp only [hc, if_false]
        rcases ih best bc with h | ⟨b, h1, h2, h3, h4, h5⟩
        · left; exact h
        · right; exact ⟨b, h1, by simp [h2], h3, h4, h5⟩
    · simp [ha]

theorem pick_spec (level : Nat) (cs : List Cand) (n0 : Nat) (b : Cand) (h : pick level cs n0 = some b) :
    level ≠ lNone ∧ b ∈ cs ∧ allows level b.diff = true ∧ b.count < n0 := by
  unfold pick at h
  by_cases hl : level = lNone
  · simp [hl] at h
  · simp only [hl, if_false] at h
    rcases scan_spec level cs none n0 with hs | ⟨b', h1, h2, h3, h4, h5⟩
    · rw [hs] at h; simp at h
    · cases hr : scan level cs none n0 with
      | mk r1 r2 =>
        rw [hr] at h h1 h4 h5
        simp only at h1 h4 h5
        subst h1
        simp only [h5, if_true, Option.some.injEq] at h
        subst h
        exact ⟨hl, h2, h3, by omega⟩

theorem round_spec (u : U) (level vk b : Nat) (h : round u level vk = some b) :
    level ≠ lNone ∧ b ∈ versionsGreater u.rank u.vs vk ∧ allows level (u.diff vk b) = true ∧
    ((vulnsAt u vk).filter (u.aff · b)).length < (vulnsAt u vk).length := by
  unfold round at h
  split at h
  · cases h
  · cases hp : pick level (cands u vk) (vulnsAt u vk).length with
    | none => simp [hp] at h
    | some c =>
      simp only [hp, Option.map, Option.some.injEq] at h
      obtain ⟨h1, h2, h3, h4⟩ := pick_spec _ _ _ _ hp
      unfold cands at h2
      simp only [List.mem_map] at h2
      obtain ⟨r, hr, rfl⟩ := h2
      simp only at h h3 h4
      subst h
      exact ⟨h1, hr, h3, h4⟩

/-- versions of `vs` ranked strictly above `x`: the termination measure -/
def above (rank : Nat → Nat) (vs : List Nat) (x : Nat) : Nat := (vs.filter (fun y => rank x < rank y)).length

theorem above_le (rank : Nat → Nat) (vs : List Nat) (x : Nat) : above rank vs x ≤ vs.length := by
  unfold above; exact List.length_filter_le _ _

theorem above_lt (rank : Nat → Nat) (vs : List Nat) (vk b : Nat) (hb : b ∈ vs) (hlt : rank vk < rank b) :
    above rank vs b < above rank vs vk := by
  unfold above
  apply filter_length_lt _ _ vs _ b hb
  · simp
  · simp [hlt]
  · intro y _ hy
    simp only [decide_eq_true_eq] at hy ⊢
    omega

end Scalibr.Override

namespace Scalibr.OverrideMulti
open Scalibr.Upgrade Scalibr.Override

theorem pickP_spec (u : MU) (p vk b : Nat) (h : pickP u p vk = some b) :
    u.level p ≠ lNone ∧ b ∈ versionsGreater (u.rank p) (u.vs p) vk ∧ allows (u.level p) (u.diff p vk b) = true ∧
    ((vulnsAt u p vk).filter (u.aff · p b)).length < (vulnsAt u p vk).length := by
  unfold pickP at h
  split at h
  · cases h
  · cases hp : pick (u.level p) (cands u p vk) (vulnsAt u p vk).length with
    | none => simp [hp] at h
    | some c =>
      simp only [hp, Option.map, Option.some.injEq] at h
      obtain ⟨h1, h2, h3, h4⟩ := pick_spec _ _ _ _ hp
      unfold cands at h2
      simp only [List.mem_map] at h2
      obtain ⟨r, hr, rfl⟩ := h2
      simp only at h h3 h4
      subst h
      exact ⟨h1, hr, h3, h4⟩

/-- termination measure of one package: versions still above its requirement (all of them, and one more, while it has none) -/
def slack (u : MU) (p : Nat) : Option Nat → Nat
  | none => (u.vs p).length + 1
  | some b => above (u.rank p) (u.vs p) b

def measure (u : MU) (pins : Pins) : Nat := ((List.range u.np).map fun p => slack u p (pins.getD p none)).sum

theorem sum_range_lt (n : Nat) (f g : Nat → Nat) (hle : ∀ p < n, g p ≤ f p) (q : Nat) (hq : q < n) (hlt : g q < f q) :
    ((List.range n).map g).sum < ((List.range n).map f).sum := by
  induction n with
  | zero => omega
  | succ n ih =>
    simp only [List.range_succ, List.map_append, List.sum_append, List.map_cons, List.map_nil, List.sum_cons, List.sum_nil]
    have hle' : ((List.range n).map g).sum ≤ ((List.range n).map f).sum := by
      clear ih hq hlt
      induction n with
      | zero => simp
      | succ m ihm =>
        simp only [List.range_succ, List.map_append, List.sum_append, List.map_cons, List.map_nil, List.sum_cons, List.sum_nil]
        have := ihm (fun p hp => hle p (by omega))
        have := hle m (by omega)
        omega
    by_cases hqn : q = n
    · subst hqn; omega
    · have := ih (fun p hp => hle p (by omega)) (by omega)
      have := hle n (by omega)
      omega

theorem round_getD (u : MU) (res : Res) (pins : Pins) (p : Nat) (hp : p < u.np) :
    (round u res pins).getD p none = stepP u res pins p := by
  unfold round
  simp [List.getD, List.getElem?_map, List.getElem?_range hp]

/-- one package's slack never grows in a round and shrinks when the package is patched -/
theorem slack_step (u : MU) (res : Res) (pins : Pins) (p : Nat)
    (hpin : ∀ b, pins.getD p none = some b → res.getD p none = some b ∨ res.getD p none = none)
    (hs : Sorted (u.rank p) (u.vs p)) :
    slack u p (stepP u res pins p) ≤ slack u p (pins.getD p none) ∧
    (patchedP u res p = true → slack u p (stepP u res pins p) < slack u p (pins.getD p none)) := by
  unfold stepP patchedP
  cases hr : res.getD p none with
  | none => simp
  | some r =>
    simp only
    cases hp : pickP u p r with
    | none => simp
    | some b =>
      simp only [Option.isSome_some, forall_const]
      obtain ⟨_, hb, _, _⟩ := pickP_spec u p r b hp
      have hbv := versionsGreater_sub _ _ _ b hb
      have hlt := versionsGreater_gt _ _ _ hs b hb
      have key : slack u p (some b) < slack u p (pins.getD p none) := by
        cases hpp : pins.getD p none with
        | none => simp only [slack]; have := above_le (u.rank p) (u.vs p) b; omega
        | some b0 =>
          rcases hpin b0 hpp with h | h
          · rw [hr] at h; injection h with h; subst h
            simp only [slack]; exact above_lt _ _ _ _ hbv hlt
          · rw [hr] at h; cases h
      exact ⟨Nat.le_of_lt key, key⟩

theorem round_measure_lt (u : MU) (res : Res) (pins : Pins)
    (hpin : ∀ p b, pins.getD p none = some b → res.getD p none = some b ∨ res.getD p none = none)
    (hs : ∀ p, Sorted (u.rank p) (u.vs p)) (hd : didPatch u res = true) :
    measure u (round u res pins) < measure u pins := by
  unfold didPatch at hd
  rw [List.any_eq_true] at hd
  obtain ⟨q, hq, hpq⟩ := hd
  rw [List.mem_range] at hq
  unfold measure
  have e : (List.range u.np).map (fun p => slack u p ((round u res pins).getD p none)) =
      (List.range u.np).map (fun p => slack u p (stepP u res pins p)) := by
    apply List.map_congr_left
    intro p hp
    rw [round_getD u res pins p (List.mem_range.mp hp)]
  rw [e]
  apply sum_range_lt u.np _ _ (fun p _ => (slack_step u res pins p (hpin p) (hs p)).1) q hq
  exact (slack_step u res pins q (hpin q) (hs q)).2 hpq

theorem loop_done (u : MU) (resolve : Pins → Res) (hh : HonoursPinsM resolve)
    (hs : ∀ p, Sorted (u.rank p) (u.vs p)) (fuel : Nat) (pins : Pins) (k : Nat) (hf : measure u pins < fuel) :
    (loop u resolve fuel pins k).done = true := by
  induction fuel generalizing pins k with
  | zero => omega
  | succ f ih =>
    simp only [loop]
    by_cases hd : didPatch u (resolve pins) = true
    · simp only [hd, if_true]
      apply ih
      have := round_measure_lt u (resolve pins) pins (fun p b h => hh pins p b h) hs hd
      omega
    · simp [hd]

theorem measure_le (u : MU) (pins : Pins) : measure u pins ≤ ((List.range u.np).map fun p => (u.vs p).length + 1).sum := by
  unfold measure
  have : ∀ n, ((List.range n).map fun p => slack u p (pins.getD p none)).sum ≤ ((List.range n).map fun p => (u.vs p).length + 1).sum := by
    intro n
    induction n with
    | zero => simp
    | succ m ih =>
      simp only [List.range_succ, List.map_append, List.sum_append, List.map_cons, List.map_nil, List.sum_cons, List.sum_nil]
      have : slack u m (pins.getD m none) ≤ (u.vs m).length + 1 := by
        cases pins.getD m none with
        | none => simp [slack]
        | some b => simp only [slack]; have := above_le (u.rank m) (u.vs m) b; omega
      omega
  exact this u.np

/-- invariant of the loop for the packages the manifest pinned from the start (direct dependencies) -/
def Within (u : MU) (pins0 pins : Pins) : Prop :=
  ∀ p, p < u.np → ∀ a, pins0.getD p none = some a →
    ∃ b, pins.getD p none = some b ∧ u.rank p a ≤ u.rank p b ∧ allows (u.level p) (u.diff p a b) = true

theorem within_round (u : MU) (res : Res) (pins0 pins : Pins)
    (L : ∀ p, DiffClassLaws (u.diff p)) (hs : ∀ p, Sorted (u.rank p) (u.vs p))
    (hpin : ∀ p b, pins.getD p none = some b → res.getD p none = some b ∨ res.getD p none = none)
    (hw : Within u pins0 pins) : Within u pins0 (round u res pins) := by
  intro p hp a ha
  obtain ⟨b, hb, hle, hal⟩ := hw p hp a ha
  rw [round_getD u res pins p hp]
  unfold stepP
  cases hr : res.getD p none with
  | none => exact ⟨b, hb, hle, hal⟩
  | some r =>
    simp only
    cases hpk : pickP u p r with
    | none => exact ⟨b, hb, hle, hal⟩
    | some b' =>
      simp only
      have hrb : r = b := by
        rcases hpin p b hb with h | h
        · rw [hr] at h; injection h
        · rw [hr] at h; cases h
      subst hrb
      obtain ⟨_, hvg, hal', _⟩ := pickP_spec u p r b' hpk
      have hge := versionsGreater_gt _ _ _ (hs p) b' hvg
      exact ⟨b', rfl, Nat.le_trans hle (Nat.le_of_lt hge), allows_trans (u.diff p) (L p) (u.level p) a r b' hal hal'⟩

theorem within_loop (u : MU) (resolve : Pins → Res) (hh : HonoursPinsM resolve)
    (L : ∀ p, DiffClassLaws (u.diff p)) (hs : ∀ p, Sorted (u.rank p) (u.vs p))
    (pins0 : Pins) (fuel : Nat) (pins : Pins) (k : Nat) (hw : Within u pins0 pins) :
    Within u pins0 (loop u resolve fuel pins k).pins := by
  induction fuel generalizing pins k with
  | zero => exact hw
  | succ f ih =>
    simp only [loop]
    split
    · exact ih _ _ (within_round u (resolve pins) pins0 pins L hs (fun p b h => hh pins p b h) hw)
    · exact hw

end Scalibr.OverrideMulti

namespace Scalibr.Suggest
open Scalibr.Upgrade

/-- invariant of the fold over the known versions -/
def Good (level : Nat) (cur : V) (vs : List V) (w : V) : Prop :=
  w ∈ vs ∧ allows level w.diff = true ∧ cur.rank < w.rank

theorem fold_spec (level : Nat) (cur : V) (all vs : List V) (acc : Option V) (hsub : ∀ v ∈ vs, v ∈ all)
    (hacc : ∀ w, acc = some w → Good level cur all w) :
    ∀ w, vs.foldl (step level cur) acc = some w → Good level cur all w := by
  induction vs generalizing acc with
  | nil => simpa using hacc
  | cons v vs ih =>
    simp only [List.foldl]
    apply ih
    · intro x hx; exact hsub x (by simp [hx])
    · intro w hw
      unfold step at hw
      split at hw
      · exact hacc w hw
      · split at hw
        · exact hacc w hw
        · split at hw
          · exact hacc w hw
          · injection hw with hw; subst hw
            rename_i h1 h2 h3
            exact ⟨hsub v (by simp), by simpa using h2, by omega⟩

end Scalibr.Suggest
