import Scalibr.Spec.Upgrade
import Scalibr.Model.OverrideMulti
namespace Scalibr.Upgrade

theorem allows_major_all (lvl d : Nat) (h : allows lvl dMajor = true) : allows lvl d = true := by
  unfold allows dMajor at h
  unfold allows
  match lvl with
  | 0 => simp
  | 1 => simp at h
  | 2 => simp at h
  | 3 => simp at h
  | n + 4 => simp at h

theorem allows_trans (diff : Nat → Nat → Nat) (L : DiffClassLaws diff) (lvl a b c : Nat)
    (h1 : allows lvl (diff a b) = true) (h2 : allows lvl (diff b c) = true) : allows lvl (diff a c) = true := by
  unfold allows at *
  by_cases hac : diff a c = 0
  · simp [hac]
  · simp only [hac, if_false]
    match lvl with
    | 0 => rfl
    | 1 =>
      by_cases hab : diff a b = 0 <;> by_cases hbc : diff b c = 0 <;> simp_all <;>
        exact L.major a b c (by unfold dMajor; omega) (by unfold dMajor; omega)
    | 2 =>
      have := L.minor a b c
      unfold dMajor dMinor at this
      by_cases hab : diff a b = 0 <;> by_cases hbc : diff b c = 0 <;> simp_all <;> (apply this <;> omega)
    | 3 =>
      by_cases hab : diff a b = 0 <;> by_cases hbc : diff b c = 0 <;> simp_all
      exact hac (L.same a b c hab hbc)
    | n + 4 =>
      by_cases hab : diff a b = 0 <;> by_cases hbc : diff b c = 0 <;> simp_all
      exact hac (L.same a b c hab hbc)

end Scalibr.Upgrade

namespace Scalibr.Relax
open Scalibr.Upgrade

theorem scanTop_spec (t : T) (k : Nat) (next : Option Nat) (pre : Bool) (l nx : Nat) (p : Bool)
    (h : scanTop t k next pre = (some l, some nx, p)) (hn : ∀ x, next = some x → k ≤ x) :
    l < k ∧ l < nx := by
  induction k generalizing next pre with
  | zero => simp [scanTop] at h
  | succ i ih =>
    simp only [scanTop] at h
    by_cases hm : t.mat i = true
    · simp only [hm, if_true, Prod.mk.injEq, Option.some.injEq] at h
      obtain ⟨rfl, hnx, _⟩ := h
      exact ⟨by omega, by have := hn nx hnx; omega⟩
    · simp only [hm, Bool.false_eq_true, if_false] at h
      split at h
      · obtain ⟨h1, h2⟩ := ih (some i) (t.isPre i) h (fun x hx => by injection hx with hx; omega)
        exact ⟨by omega, h2⟩
      · obtain ⟨h1, h2⟩ := ih next pre h (fun x hx => by have := hn x hx; omega)
        exact ⟨by omega, h2⟩

/-- the upward search returns the start value or a later index whose difference was allowed -/
theorem best_spec (t : T) (level cmp diff : Nat) (nip : Bool) (fuel i cur : Nat) (hci : cur < i) :
    let r := best t level cmp diff nip fuel i cur
    (r = cur ∨ (cur < r ∧ ∃ d, t.diff cmp r = some d ∧ allows level d = true)) := by
  induction fuel generalizing i cur with
  | zero => simp [best]
  | succ f ih =>
    simp only [best]
    by_cases hi : i ≥ t.n
    · simp [hi]
    · simp only [hi, if_false]
      cases hd : t.diff cmp i with
      | none =>
        simp only
        exact ih (i + 1) cur (by omega)
      | some d =>
        simp only
        by_cases ha : allows level d = true
        · simp only [ha, Bool.not_true, Bool.false_eq_true, if_false]
          by_cases hdd : d < diff
          · simp [hdd]
          · simp only [hdd, if_false]
            by_cases hp : (!t.isPre i || nip) = true
            · simp only [hp, if_true]
              rcases ih (i + 1) i (by omega) with h | ⟨h1, h2⟩
              · right; rw [h]; exact ⟨hci, d, hd, ha⟩
              · right; exact ⟨by omega, h2⟩
            · simp only [hp, Bool.false_eq_true, if_false]
              exact ih (i + 1) cur (by omega)
        · simp [ha]

end Scalibr.Relax

namespace Scalibr.Override
open Scalibr.Upgrade

theorem versionsGreater_ge (vs : List Nat) (vk : Nat) (hs : Sorted vs) :
    ∀ r ∈ versionsGreater vs vk, vk ≤ r := by
  induction vs with
  | nil => intro r hr; simp [versionsGreater] at hr
  | cons x xs ih =>
    unfold Sorted at hs
    rw [List.pairwise_cons] at hs
    intro r hr
    unfold versionsGreater at hr
    by_cases hx : x < vk
    · have htw : (x :: xs).takeWhile (· < vk) = x :: xs.takeWhile (· < vk) := by simp [List.takeWhile, hx]
      simp only [htw, List.length_cons, List.getElem?_cons_succ, List.drop_succ_cons] at hr
      exact ih hs.2 r hr
    · have htw : (x :: xs).takeWhile (· < vk) = [] := by simp [List.takeWhile, hx]
      simp only [htw, List.length_nil, List.getElem?_cons_zero, Option.some.injEq, Nat.zero_add] at hr
      split at hr
      · rename_i hxe
        simp only [List.drop_succ_cons, List.drop_zero] at hr
        have := hs.1 r hr; omega
      · simp only [List.drop_zero, List.mem_cons] at hr
        rcases hr with rfl | hr
        · omega
        · have := hs.1 r hr; omega

theorem versionsGreater_gt (vs : List Nat) (vk : Nat) (hs : StrictSorted vs) :
    ∀ r ∈ versionsGreater vs vk, vk < r := by
  induction vs with
  | nil => intro r hr; simp [versionsGreater] at hr
  | cons x xs ih =>
    unfold StrictSorted at hs
    rw [List.pairwise_cons] at hs
    intro r hr
    unfold versionsGreater at hr
    by_cases hx : x < vk
    · have htw : (x :: xs).takeWhile (· < vk) = x :: xs.takeWhile (· < vk) := by simp [List.takeWhile, hx]
      simp only [htw, List.length_cons, List.getElem?_cons_succ, List.drop_succ_cons] at hr
      exact ih hs.2 r hr
    · have htw : (x :: xs).takeWhile (· < vk) = [] := by simp [List.takeWhile, hx]
      simp only [htw, List.length_nil, List.getElem?_cons_zero, Option.some.injEq, Nat.zero_add] at hr
      split at hr
      · rename_i hxe
        simp only [List.drop_succ_cons, List.drop_zero] at hr
        have := hs.1 r hr; omega
      · rename_i hxe
        simp only [List.drop_zero, List.mem_cons] at hr
        rcases hr with rfl | hr
        · omega
        · have := hs.1 r hr; omega

theorem versionsGreater_sub (vs : List Nat) (vk : Nat) : ∀ r ∈ versionsGreater vs vk, r ∈ vs := by
  intro r hr
  unfold versionsGreater at hr
  simp only at hr
  split at hr <;> exact List.mem_of_mem_drop hr

/-- what the scan hands back: the incoming best, or a candidate that was reached through allowed
differences only and lowered the count -/
theorem scan_spec (level : Nat) (cs : List Cand) (best : Option Cand) (bc : Nat) :
    let r := scan level cs best bc
    (r = (best, bc)) ∨ (∃ b, r.1 = some b ∧ b ∈ cs ∧ allows level b.diff = true ∧ b.count = r.2 ∧ r.2 < bc) := by
  induction cs generalizing best bc with
  | nil => simp [scan]
  | cons c cs ih =>
    simp only [scan]
    by_cases ha : allows level c.diff = true
    · simp only [ha, Bool.not_true, Bool.false_eq_true, if_false]
      by_cases hc : c.count < bc
      · simp only [hc, if_true]
        by_cases h0 : c.count = 0
        · simp only [h0, if_true]
          right; exact ⟨c, rfl, by simp, ha, h0, by omega⟩
        · simp only [h0, if_false]
          rcases ih (some c) c.count with h | ⟨b, h1, h2, h3, h4, h5⟩
          · right; rw [h]; exact ⟨c, rfl, by simp, ha, rfl, hc⟩
          · right; exact ⟨b, h1, by simp [h2], h3, h4, by omega⟩
      · simp only [hc, if_false]
        rcases ih best bc with h | ⟨b, h1, h2, h3, h4, h5⟩
        · left; exact h
        · right; exact ⟨b, h1, by simp [h2], h3, h4, h5⟩
    · simp [ha]

theorem pick_spec (level : Nat) (cs : List Cand) (n0 : Nat) (b : Cand) (h : pick level cs n0 = some b) :
    level ≠ lNone ∧ b ∈ cs ∧ allows level b.diff = true ∧ b.count < n0 := by
  unfold pick at h
  by_cases hl : level = lNone
  · simp [hl] at h
  · simp only [hl, if_false] at h
    rcases scan_spec level cs none n0 with hs | ⟨b', h1, h2, h3, h4, h5⟩
    · rw [hs] at h; simp at h
    · cases hr : scan level cs none n0 with
      | mk r1 r2 =>
        rw [hr] at h h1 h4 h5
        simp only at h1 h4 h5
        subst h1
        simp only [h5, if_true, Option.some.injEq] at h
        subst h
        exact ⟨hl, h2, h3, by omega⟩

theorem round_spec (u : U) (level vk b : Nat) (h : round u level vk = some b) :
    level ≠ lNone ∧ b ∈ versionsGreater u.vs vk ∧ allows level (u.diff vk b) = true ∧
    ((vulnsAt u vk).filter (u.aff · b)).length < (vulnsAt u vk).length := by
  unfold round at h
  split at h
  · cases h
  · cases hp : pick level (cands u vk) (vulnsAt u vk).length with
    | none => simp [hp] at h
    | some c =>
      simp only [hp, Option.map, Option.some.injEq] at h
      obtain ⟨h1, h2, h3, h4⟩ := pick_spec _ _ _ _ hp
      unfold cands at h2
      simp only [List.mem_map] at h2
      obtain ⟨r, hr, rfl⟩ := h2
      simp only at h h3 h4
      subst h
      exact ⟨h1, hr, h3, h4⟩

/-- versions of `vs` strictly above `vk`: the termination measure -/
def above (vs : List Nat) (vk : Nat) : Nat := (vs.filter (vk < ·)).length

theorem above_lt (vs : List Nat) (vk b : Nat) (hb : b ∈ vs) (hlt : vk < b) : above vs b < above vs vk := by
  unfold above
  induction vs with
  | nil => cases hb
  | cons x xs ih =>
    simp only [List.filter_cons]
    simp only [List.mem_cons] at hb
    have hmono : (xs.filter (b < ·)).length ≤ (xs.filter (vk < ·)).length := by
      clear ih hb
      induction xs with
      | nil => simp
      | cons y ys ihy =>
        simp only [List.filter_cons]
        by_cases h1 : b < y
        · have : vk < y := by omega
          simp [h1, this]; exact ihy
        · by_cases h2 : vk < y
          · simp [h1, h2]; omega
          · simp [h1, h2]; exact ihy
    rcases hb with rfl | hb
    · simp [hlt]; omega
    · have := ih hb
      by_cases h1 : b < x
      · have : vk < x := by omega
        simp [h1, this]; exact ih hb
      · by_cases h2 : vk < x
        · simp [h1, h2]; omega
        · simp [h1, h2]; exact ih hb

end Scalibr.Override

namespace Scalibr.OverrideMulti
open Scalibr.Upgrade Scalibr.Override

theorem pickP_spec (u : MU) (p vk b : Nat) (h : pickP u p vk = some b) :
    u.level p ≠ lNone ∧ b ∈ versionsGreater (u.vs p) vk ∧ allows (u.level p) (u.diff p vk b) = true ∧
    ((vulnsAt u p vk).filter (u.aff · p b)).length < (vulnsAt u p vk).length := by
  unfold pickP at h
  split at h
  · cases h
  · cases hp : pick (u.level p) (cands u p vk) (vulnsAt u p vk).length with
    | none => simp [hp] at h
    | some c =>
      simp only [hp, Option.map, Option.some.injEq] at h
      obtain ⟨h1, h2, h3, h4⟩ := pick_spec _ _ _ _ hp
      unfold cands at h2
      simp only [List.mem_map] at h2
      obtain ⟨r, hr, rfl⟩ := h2
      simp only at h h3 h4
      subst h
      exact ⟨h1, hr, h3, h4⟩

end Scalibr.OverrideMulti

namespace Scalibr.Suggest
open Scalibr.Upgrade

/-- invariant of the fold over the known versions -/
def Good (level : Nat) (cur : V) (vs : List V) (w : V) : Prop :=
  w ∈ vs ∧ allows level w.diff = true ∧ cur.rank < w.rank

theorem fold_spec (level : Nat) (cur : V) (all vs : List V) (acc : Option V) (hsub : ∀ v ∈ vs, v ∈ all)
    (hacc : ∀ w, acc = some w → Good level cur all w) :
    ∀ w, vs.foldl (step level cur) acc = some w → Good level cur all w := by
  induction vs generalizing acc with
  | nil => simpa using hacc
  | cons v vs ih =>
    simp only [List.foldl]
    apply ih
    · intro x hx; exact hsub x (by simp [hx])
    · intro w hw
      unfold step at hw
      split at hw
      · exact hacc w hw
      · split at hw
        · exact hacc w hw
        · split at hw
          · exact hacc w hw
          · injection hw with hw; subst hw
            rename_i h1 h2 h3
            exact ⟨hsub v (by simp), by simpa using h2, by omega⟩

end Scalibr.Suggest
