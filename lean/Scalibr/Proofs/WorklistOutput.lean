/-
C16(a) helper lemmas about the OUTPUT of `ComputePatches` (`sortCompact` = `slices.SortFunc` then `slices.CompactFunc`):
compaction never changes the SET of patches (it only drops an element that is identical to its predecessor), and when
the comparator is a strict weak order on the elements the output is strictly increasing — sorted and without duplicates.
-/
import Scalibr.Proofs.WorklistSort
namespace Scalibr.Worklist
open Scalibr

theorem mem_compactAux {α} (eq : α → α → Bool) (heq : ∀ x y, eq x y = true → x = y) :
    ∀ (xs : List α) (prev p : α), p ∈ prev :: compactAux eq prev xs ↔ p ∈ prev :: xs
  | [], _, _ => by simp [compactAux]
  | x :: xs, prev, p => by
    simp only [compactAux]
    split
    · rename_i h
      have e := heq x prev h
      subst e
      have := mem_compactAux eq heq xs x p
      simp only [List.mem_cons] at this ⊢
      constructor
      · intro h; rcases this.mp h with h | h
        · exact Or.inl h
        · exact Or.inr (Or.inr h)
      · intro h; apply this.mpr
        rcases h with h | h | h
        · exact Or.inl h
        · exact Or.inl h
        · exact Or.inr h
    · have := mem_compactAux eq heq xs x p
      simp only [List.mem_cons] at this ⊢
      constructor
      · intro h; rcases h with h | h
        · exact Or.inl h
        · exact Or.inr (this.mp h)
      · intro h; rcases h with h | h
        · exact Or.inl h
        · exact Or.inr (this.mpr h)

theorem mem_compactBy {α} (eq : α → α → Bool) (heq : ∀ x y, eq x y = true → x = y) (l : List α) (p : α) :
    p ∈ compactBy eq l ↔ p ∈ l := by
  cases l with
  | nil => simp [compactBy]
  | cons a xs => exact mem_compactAux eq heq xs a p

theorem compactAux_subset {α} (eq : α → α → Bool) : ∀ (xs : List α) (prev y : α), y ∈ compactAux eq prev xs → y ∈ xs
  | [], _, _, h => by simp [compactAux] at h
  | x :: xs, prev, y, h => by
    simp only [compactAux] at h
    split at h
    · exact List.mem_cons_of_mem _ (compactAux_subset eq xs x y h)
    · rcases List.mem_cons.mp h with rfl | h
      · simp
      · exact List.mem_cons_of_mem _ (compactAux_subset eq xs x y h)

/-- compaction of a list that is sorted w.r.t. a strict weak order (on the elements satisfying `P`) whose `eq` is its
    incomparability: what remains is strictly increasing, and lies strictly above the last element kept before -/
theorem compactAux_strict {α} (P : α → Prop) (lt eq : α → α → Bool)
    (irrefl : ∀ a, P a → lt a a = false)
    (asymm : ∀ a b, P a → P b → lt a b = true → lt b a = false)
    (negTrans : ∀ a b c, P a → P b → P c → lt b a = false → lt c b = false → lt c a = false)
    (heq : ∀ a b, P a → P b → (eq a b = true ↔ (lt a b = false ∧ lt b a = false))) :
    ∀ (xs : List α) (prev kept : α), P prev → P kept → (∀ x ∈ xs, P x) → (prev :: xs).Pairwise (leOf lt) →
      lt prev kept = false → lt kept prev = false →
      (compactAux eq prev xs).Pairwise (fun a b => lt a b = true) ∧ ∀ y ∈ compactAux eq prev xs, lt kept y = true
  | [], _, _, _, _, _, _, _, _ => by simp [compactAux]
  | x :: xs, prev, kept, hp, hk, hxs, hs, h1, h2 => by
    have hx : P x := hxs x (by simp)
    have hxs' : ∀ y ∈ xs, P y := fun y hy => hxs y (by simp [hy])
    have hs' : (x :: xs).Pairwise (leOf lt) := (List.pairwise_cons.mp hs).2
    have hpx : lt x prev = false := (List.pairwise_cons.mp hs).1 x (by simp)
    simp only [compactAux]
    split
    · rename_i he
      have := (heq x prev hx hp).mp he
      -- x ~ prev ~ kept
      have a1 : lt x kept = false := negTrans kept prev x hk hp hx h1 this.1
      have a2 : lt kept x = false := negTrans x prev kept hx hp hk this.2 h2
      exact compactAux_strict P lt eq irrefl asymm negTrans heq xs x kept hx hk hxs' hs' a1 a2
    · rename_i hne
      have hlt : lt prev x = true := by
        cases h : lt prev x with
        | true => rfl
        | false => exact absurd ((heq x prev hx hp).mpr ⟨hpx, h⟩) hne
      -- kept ~ prev < x
      have hkx : lt kept x = true := by
        cases h : lt kept x with
        | true => rfl
        | false => have := negTrans x kept prev hx hk hp h h1; rw [hlt] at this; cases this
      obtain ⟨ih1, ih2⟩ := compactAux_strict P lt eq irrefl asymm negTrans heq xs x x hx hx hxs' hs' (irrefl x hx) (irrefl x hx)
      refine ⟨List.pairwise_cons.mpr ⟨ih2, ih1⟩, ?_⟩
      intro y hy
      rcases List.mem_cons.mp hy with rfl | hy
      · exact hkx
      · -- kept < x < y
        have hxy := ih2 y hy
        have hyP : P y := hxs' y (compactAux_subset eq xs x y hy)
        cases h : lt kept y with
        | true => rfl
        | false =>
          have := negTrans x y kept hx hyP hk (asymm x y hx hyP hxy) h
          rw [hkx] at this; cases this

theorem compactBy_strict {α} (P : α → Prop) (lt eq : α → α → Bool)
    (irrefl : ∀ a, P a → lt a a = false)
    (asymm : ∀ a b, P a → P b → lt a b = true → lt b a = false)
    (negTrans : ∀ a b c, P a → P b → P c → lt b a = false → lt c b = false → lt c a = false)
    (heq : ∀ a b, P a → P b → (eq a b = true ↔ (lt a b = false ∧ lt b a = false)))
    (l : List α) (hP : ∀ x ∈ l, P x) (hs : l.Pairwise (leOf lt)) : (compactBy eq l).Pairwise (fun a b => lt a b = true) := by
  cases l with
  | nil => simp [compactBy]
  | cons a xs =>
    have ha := hP a (by simp)
    obtain ⟨h1, h2⟩ := compactAux_strict P lt eq irrefl asymm negTrans heq xs a a ha ha (fun x hx => hP x (by simp [hx])) hs (irrefl a ha) (irrefl a ha)
    exact List.pairwise_cons.mpr ⟨h2, h1⟩

/-- `isort` sorts when the comparator laws hold among the elements of the list -/
theorem isort_pairwise_on {α} (P : α → Prop) (lt : α → α → Bool)
    (asymm : ∀ a b, P a → P b → lt a b = true → lt b a = false)
    (negTrans : ∀ a b c, P a → P b → P c → lt b a = false → lt c b = false → lt c a = false)
    (l : List α) (hP : ∀ a ∈ l, P a) : (isort lt l).Pairwise (leOf lt) := by
  have e : l = (l.pmap Subtype.mk hP).map Subtype.val := by
    rw [List.map_pmap]; simp [List.pmap_eq_map]
  rw [e, isort_map, List.pairwise_map]
  exact isort_pairwise (fun a b : {x // P x} => lt a.1 b.1) (fun a b => asymm a.1 b.1 a.2 b.2)
    (fun a b c => negTrans a.1 b.1 c.1 a.2 b.2 c.2) _

/-- **the output of sort + compact is strictly increasing** w.r.t. `Patch.Compare` whenever the version comparison is a strict
    weak order on the target versions of the (non-empty) patches -/
theorem sortCompact_strict (V : Str → Prop) (vc : Str → Str → Int) (hvc : Cmp3 (fun x y => V x ∧ V y) vc)
    (c : List Patch) (hc : ∀ p ∈ c, PatchOK V p) :
    (sortCompact vc c).Pairwise (fun a b => Patch.compare vc a b < 0) := by
  have h3 := compare_cmp3 V vc hvc
  have asymm : ∀ a b, PatchOK V a → PatchOK V b → patchLt vc a b = true → patchLt vc b a = false :=
    fun a b ha hb => cmp3_lt_asymm h3 a b ⟨ha, hb⟩
  have negTrans : ∀ a b d, PatchOK V a → PatchOK V b → PatchOK V d → patchLt vc b a = false → patchLt vc d b = false → patchLt vc d a = false :=
    fun a b d ha hb hd => cmp3_lt_negTrans h3 a b d ⟨ha, hb⟩ ⟨hb, hd⟩ ⟨ha, hd⟩
  have irrefl : ∀ a, PatchOK V a → patchLt vc a a = false := by
    intro a ha
    have := h3.flip a a ⟨ha, ha⟩
    simp only [patchLt, decide_eq_false_iff_not]; omega
  have heq : ∀ a b, PatchOK V a → PatchOK V b → (patchEq vc a b = true ↔ (patchLt vc a b = false ∧ patchLt vc b a = false)) := by
    intro a b ha hb
    have := h3.flip a b ⟨ha, hb⟩
    simp only [patchEq, patchLt, decide_eq_true_eq, decide_eq_false_iff_not]; omega
  have hP : ∀ x ∈ isort (patchLt vc) c, PatchOK V x := fun x hx => hc x ((isort_perm _ c).subset hx)
  have hs := isort_pairwise_on (PatchOK V) (patchLt vc) asymm negTrans c hc
  have := compactBy_strict (PatchOK V) (patchLt vc) (patchEq vc) irrefl asymm negTrans heq _ hP hs
  unfold sortCompact
  exact this.imp (fun h => by simpa [patchLt] using h)

/-- whatever the comparator: the output contains exactly the patches that were collected (since fix 09778cd0 compaction
    only ever drops a patch identical to its predecessor) -/
theorem mem_sortCompact (vc : Str → Str → Int) (c : List Patch) (p : Patch) : p ∈ sortCompact vc c ↔ p ∈ c := by
  unfold sortCompact
  rw [mem_compactBy (patchEq vc) (fun x y h => compare_eq_zero_imp_eq vc x y (by simpa [patchEq] using h))]
  exact (isort_perm _ c).mem_iff

end Scalibr.Worklist
