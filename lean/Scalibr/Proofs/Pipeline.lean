import Scalibr.Spec.Pipeline
namespace Scalibr.Pipeline

theorem chooseAux_sublist (ps : List Patch) (pc : List (Nat × Nat)) (fv : List Nat) (k : Int) (ni : Bool) :
    (chooseAux ps pc fv k ni).Sublist ps := by
  induction ps generalizing pc fv k with
  | nil => simp [chooseAux]
  | cons p ps ih =>
    simp only [chooseAux]
    split
    · exact (ih pc fv k).cons p
    · split
      · exact (ih pc fv k).cons p
      · split
        · exact (ih pc fv k).cons p
        · split
          · exact List.Sublist.cons₂ p (List.nil_sublist ps)
          · exact List.Sublist.cons₂ p (ih _ _ _)

theorem chooseAux_length (ps : List Patch) (pc : List (Nat × Nat)) (fv : List Nat) (k : Int) (ni : Bool)
    (hk : 0 < k) : ((chooseAux ps pc fv k ni).length : Int) ≤ k := by
  induction ps generalizing pc fv k with
  | nil => simp [chooseAux]; omega
  | cons p ps ih =>
    simp only [chooseAux]
    split
    · exact ih pc fv k hk
    · split
      · exact ih pc fv k hk
      · split
        · exact ih pc fv k hk
        · split
          · simp; omega
          · rename_i hne
            have := ih (pc ++ p.updates.map fun u => (u.name, u.frm)) (fv ++ p.fixed) (k - 1) (by omega)
            simp only [List.length_cons]
            omega

/-- every patch the loop still takes avoids what has been recorded so far -/
theorem chooseAux_avoids (ps : List Patch) (pc : List (Nat × Nat)) (fv : List Nat) (k : Int) (ni : Bool) :
    ∀ q ∈ chooseAux ps pc fv k ni,
      (∀ u ∈ q.updates, (u.name, u.frm) ∉ pc) ∧ (∀ v ∈ q.fixed, v ∉ fv) ∧ (ni = true → q.introduced = []) := by
  induction ps generalizing pc fv k with
  | nil => intro q hq; simp [chooseAux] at hq
  | cons p ps ih =>
    intro q hq
    simp only [chooseAux] at hq
    split at hq
    · exact ih pc fv k q hq
    · rename_i h1
      split at hq
      · exact ih pc fv k q hq
      · rename_i h2
        split at hq
        · exact ih pc fv k q hq
        · rename_i h3
          have hp : (∀ u ∈ p.updates, (u.name, u.frm) ∉ pc) ∧ (∀ v ∈ p.fixed, v ∉ fv) ∧ (ni = true → p.introduced = []) := by
            refine ⟨?_, ?_, ?_⟩
            · intro u hu hc
              apply h1
              rw [List.any_eq_true]
              exact ⟨u, hu, by simpa using hc⟩
            · intro v hv hc
              apply h2
              rw [List.any_eq_true]
              exact ⟨v, hv, by simpa using hc⟩
            · intro hni
              cases hi : p.introduced with
              | nil => rfl
              | cons a as => exfalso; apply h3; simp [hni, hi]
          simp only [List.mem_cons] at hq
          rcases hq with rfl | hq
          · exact hp
          · split at hq
            · cases hq
            · obtain ⟨a, b, c⟩ := ih _ _ _ q hq
              refine ⟨?_, ?_, c⟩
              · intro u hu hc; exact a u hu (List.mem_append_left _ hc)
              · intro v hv hc; exact b v hv (List.mem_append_left _ hc)

theorem chooseAux_pairwise (ps : List Patch) (pc : List (Nat × Nat)) (fv : List Nat) (k : Int) (ni : Bool) :
    (chooseAux ps pc fv k ni).Pairwise compatible := by
  induction ps generalizing pc fv k with
  | nil => simp [chooseAux]
  | cons p ps ih =>
    simp only [chooseAux]
    split
    · exact ih pc fv k
    · split
      · exact ih pc fv k
      · split
        · exact ih pc fv k
        · split
          · simp
          · rw [List.pairwise_cons]
            refine ⟨?_, ih _ _ _⟩
            intro q hq
            obtain ⟨a, b, _⟩ := chooseAux_avoids ps _ _ _ ni q hq
            constructor
            · intro u hu w hw hc
              apply a u hu
              apply List.mem_append_right
              rw [List.mem_map]
              exact ⟨w, hw, by simp [hc.1, hc.2]⟩
            · intro v hv hc
              exact b v hv (List.mem_append_right _ hc)

/-! ### ConstructPatches: vulnerability sets -/

theorem vulnDiffAux_spec (vs fixed intro : List Nat) (hn : vs.Nodup) :
    ∀ v, (v ∈ (vulnDiffAux vs fixed intro).1 ↔ v ∈ fixed ∧ v ∉ vs) ∧
         (v ∈ (vulnDiffAux vs fixed intro).2 ↔ v ∈ intro ∨ (v ∈ vs ∧ v ∉ fixed)) := by
  induction vs generalizing fixed intro with
  | nil => intro v; simp [vulnDiffAux]
  | cons x xs ih =>
    rw [List.nodup_cons] at hn
    intro v
    simp only [vulnDiffAux]
    by_cases hx : fixed.contains x = true
    · simp only [hx, if_true]
      obtain ⟨h1, h2⟩ := ih (fixed.filter (· ≠ x)) intro hn.2 v
      have hxf : x ∈ fixed := by simpa using hx
      constructor
      · rw [h1]; simp only [List.mem_filter, List.mem_cons, decide_eq_true_eq, ne_eq, not_or]
        constructor
        · rintro ⟨⟨a, b⟩, c⟩; exact ⟨a, b, c⟩
        · rintro ⟨a, b, c⟩; exact ⟨⟨a, b⟩, c⟩
      · rw [h2]; simp only [List.mem_filter, List.mem_cons, decide_eq_true_eq, ne_eq, not_and, Decidable.not_not]
        constructor
        · rintro (h | ⟨a, b⟩)
          · exact Or.inl h
          · by_cases hv : v = x
            · subst hv; exact absurd a hn.1
            · right; exact ⟨Or.inr a, fun hf => hv (b hf)⟩
        · rintro (h | ⟨a, b⟩)
          · exact Or.inl h
          · rcases a with rfl | a
            · exact absurd hxf b
            · right; exact ⟨a, fun hf => absurd hf b⟩
    · simp only [hx, Bool.false_eq_true, if_false]
      have hxf : x ∉ fixed := by simpa using hx
      obtain ⟨h1, h2⟩ := ih fixed (if intro.contains x then intro else intro ++ [x]) hn.2 v
      have hmem : v ∈ (if intro.contains x then intro else intro ++ [x]) ↔ v ∈ intro ∨ v = x := by
        split
        · rename_i hc
          have : x ∈ intro := by simpa using hc
          constructor
          · exact Or.inl
          · rintro (h | rfl) <;> assumption
        · simp
      constructor
      · rw [h1]; simp only [List.mem_cons, not_or]
        constructor
        · rintro ⟨a, b⟩; exact ⟨a, fun hv => hxf (hv ▸ a), b⟩
        · rintro ⟨a, _, c⟩; exact ⟨a, c⟩
      · rw [h2, hmem]; simp only [List.mem_cons]
        constructor
        · rintro ((h | rfl) | ⟨a, b⟩)
          · exact Or.inl h
          · exact Or.inr ⟨Or.inl rfl, hxf⟩
          · exact Or.inr ⟨Or.inr a, b⟩
        · rintro (h | ⟨rfl | a, b⟩)
          · exact Or.inl (Or.inl h)
          · exact Or.inl (Or.inr rfl)
          · exact Or.inr ⟨a, b⟩

theorem mem_eraseDups (l : List Nat) (v : Nat) : v ∈ l.eraseDups ↔ v ∈ l := List.mem_eraseDups


/-! ### ConstructPatches: requirement updates, and substituting them back -/

theorem val_unique (l : List (Key × Nat)) (hn : (l.map (·.1)).Nodup) (k : Key) (v w : Nat)
    (h1 : (k, v) ∈ l) (h2 : (k, w) ∈ l) : v = w := by
  induction l with
  | nil => cases h1
  | cons x xs ih =>
    simp only [List.map, List.nodup_cons] at hn
    simp only [List.mem_cons] at h1 h2
    rcases h1 with rfl | h1 <;> rcases h2 with h2 | h2
    · injection h2 with _ h; exact h.symm
    · exfalso; apply hn.1; exact List.mem_map_of_mem (f := (·.1)) h2
    · exfalso; apply hn.1; rw [← h2]; exact List.mem_map_of_mem (f := (·.1)) h1
    · exact ih hn.2 h1 h2

theorem lookupReq_mem (l : List (Key × Nat)) (hn : (l.map (·.1)).Nodup) (k : Key) (v : Nat) (h : (k, v) ∈ l) :
    lookupReq l k = some v := by
  unfold lookupReq
  cases hf : l.reverse.find? (·.1 = k) with
  | none =>
    rw [List.find?_eq_none] at hf
    have := hf (k, v) (List.mem_reverse.mpr h)
    simp at this
  | some e =>
    have hm := List.mem_of_find?_eq_some hf
    have hk := List.find?_some hf
    simp only [decide_eq_true_eq] at hk
    obtain ⟨ek, ev⟩ := e
    simp only at hk; subst hk
    simp only [Option.map]
    congr 1
    exact val_unique l hn ek ev v (List.mem_reverse.mp hm) h

theorem reqDiff_pointwise (O N : List (Key × Nat)) (hO : (O.map (·.1)).Nodup) (hN : (N.map (·.1)).Nodup)
    (k : Key) (v v' : Nat) (h1 : (k, v) ∈ O) (h2 : (k, v') ∈ N) :
    (match (reqDiff O N).find? (fun u => u.key = k ∧ u.frm = some v) with
     | some u => (k, u.to)
     | none => (k, v)) = (k, v') := by
  have hl := lookupReq_mem O hO k v h1
  -- every element of the diff with key k is the one made from (k, v')
  have hkey : ∀ u ∈ reqDiff O N, u.key = k → v' ≠ v ∧ u = ⟨k, some v, v'⟩ := by
    intro u hu hk
    unfold reqDiff at hu
    rw [List.mem_filterMap] at hu
    obtain ⟨⟨k2, v2⟩, hm, hf⟩ := hu
    simp only at hf
    cases hl2 : lookupReq O k2 with
    | none =>
      simp only [hl2, Option.some.injEq] at hf
      subst hf; simp only at hk; subst hk
      rw [hl] at hl2; cases hl2
    | some ov =>
      simp only [hl2] at hf
      split at hf
      · cases hf
      · injection hf with hf; subst hf
        simp only at hk; subst hk
        rw [hl] at hl2; injection hl2 with hl2; subst hl2
        have := val_unique N hN k2 v2 v' hm h2
        subst this
        rename_i hne
        exact ⟨hne, rfl⟩
  cases hf : (reqDiff O N).find? (fun u => u.key = k ∧ u.frm = some v) with
  | some u =>
    have hm := List.mem_of_find?_eq_some hf
    have hp := List.find?_some hf
    simp only [decide_eq_true_eq] at hp
    obtain ⟨_, rfl⟩ := hkey u hm hp.1
    rfl
  | none =>
    simp only
    by_cases hv : v' = v
    · rw [hv]
    · exfalso
      rw [List.find?_eq_none] at hf
      have hin : (⟨k, some v, v'⟩ : ReqUpdate) ∈ reqDiff O N := by
        unfold reqDiff
        rw [List.mem_filterMap]
        exact ⟨(k, v'), h2, by simp [hl, hv]⟩
      have := hf _ hin
      simp at this

/-- every manifest entry whose version changed has its own update in the report -/
theorem reqDiff_has_update (O N : List (Key × Nat)) (hO : (O.map (·.1)).Nodup) (k : Key) (v v' : Nat)
    (h1 : (k, v) ∈ O) (h2 : (k, v') ∈ N) (hne : v' ≠ v) : (⟨k, some v, v'⟩ : ReqUpdate) ∈ reqDiff O N := by
  have hl := lookupReq_mem O hO k v h1
  unfold reqDiff
  rw [List.mem_filterMap]
  exact ⟨(k, v'), h2, by simp [hl, hne]⟩

/-- and an update in the report comes from an entry of the new manifest with that very key -/
theorem reqDiff_sound (O N : List (Key × Nat)) (u : ReqUpdate) (h : u ∈ reqDiff O N) :
    (u.key, u.to) ∈ N ∧ u.frm = lookupReq O u.key ∧ u.frm ≠ some u.to := by
  unfold reqDiff at h
  rw [List.mem_filterMap] at h
  obtain ⟨⟨k, v⟩, hm, hf⟩ := h
  simp only at hf
  cases hl : lookupReq O k with
  | none =>
    simp only [hl, Option.some.injEq] at hf
    subst hf
    exact ⟨hm, by simp [hl], by simp⟩
  | some ov =>
    simp only [hl] at hf
    split at hf
    · cases hf
    · injection hf with hf; subst hf
      rename_i hne
      refine ⟨hm, by simp [hl], ?_⟩
      simp only [ne_eq, Option.some.injEq]
      exact fun h => hne h.symm

/-- substituting the reported requirement updates into the old requirements gives the new ones,
when both manifests list the same keys in the same order (no additions) without duplicates -/
theorem applyUpdates_reqDiff (O N : List (Key × Nat)) (hk : O.map (·.1) = N.map (·.1)) (hO : (O.map (·.1)).Nodup) :
    applyUpdates O (reqDiff O N) = N := by
  have hN : (N.map (·.1)).Nodup := hk ▸ hO
  unfold applyUpdates
  have key : ∀ (os ns : List (Key × Nat)), os.map (·.1) = ns.map (·.1) → (∀ e ∈ os, e ∈ O) → (∀ e ∈ ns, e ∈ N) →
      os.map (fun x => match (reqDiff O N).find? (fun u => u.key = x.1 ∧ u.frm = some x.2) with
        | some u => (x.1, u.to) | none => (x.1, x.2)) = ns := by
    intro os
    induction os with
    | nil => intro ns h _ _; cases ns <;> simp_all
    | cons o os ih =>
      intro ns h ho hn
      cases ns with
      | nil => simp at h
      | cons n ns =>
        simp only [List.map, List.cons.injEq] at h ⊢
        obtain ⟨ok, ov⟩ := o
        obtain ⟨nk, nv⟩ := n
        simp only at h
        obtain ⟨hkk, hrest⟩ := h
        subst hkk
        refine ⟨?_, ih ns hrest (fun e he => ho e (by simp [he])) (fun e he => hn e (by simp [he]))⟩
        exact reqDiff_pointwise O N hO hN ok ov nv (ho _ (by simp)) (hn _ (by simp))
  have := key O N hk (fun _ h => h) (fun _ h => h)
  refine Eq.trans ?_ this
  apply List.map_congr_left
  intro x _
  obtain ⟨k, v⟩ := x
  rfl

end Scalibr.Pipeline
