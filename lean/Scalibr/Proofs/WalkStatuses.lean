/-
Statuses and inventory as functions of the attempt log, for EVERY configuration in which no extractor
panics (C09 clause 3 outside the benign / fatal-clean configurations): any inode limit, size limit,
cancellation point, `ErrorOnFSErrors` on or off, every forest and fault plan.  Whenever the scan does not
fail, root by root the reported statuses and the inventory are determined by THAT root's extraction
attempts alone (`BookInv`, lifted over the roots).
-/
import Scalibr.Proofs.WalkInventory
import Scalibr.Proofs.WalkTop
namespace Scalibr.Walk

/-- the status of extractor `e` for a root whose extraction attempts were `cur`: failed/partial exactly when
one of its attempts could not open/stat its file or its `Extract` returned an error; partial when, besides,
one of its `Extract` invocations returned a non-empty inventory -/
def statusOfCalls (c : Cfg) (cur : List Call) (e : Nat) : Status :=
  if (errsOfCalls c cur).contains e then (if (foundOfCalls c cur).contains e then .part else .failed) else .ok

/-- the benign-case `statusSpec` is `statusOfCalls` of the owed attempts -/
theorem statusSpec_eq_statusOfCalls (c : Cfg) (f : Faults) (r : Node) (e : Nat) :
    statusSpec c f r e = statusOfCalls c (mustRoot c f r) e := rfl

/-- after a root, `statusOf` of the engine state is `statusOfCalls` of the root's own attempts -/
theorem statusOf_of_book (c : Cfg) (s : St) (cur : List Call)
    (he : s.errs = errsOfCalls c cur) (hf : s.found = foundOfCalls c cur) (e : Nat) :
    statusOf s e = statusOfCalls c cur e := by
  simp only [statusOf, statusOfCalls, he, hf]

theorem runRoots_statuses_of_calls (c : Cfg) (hx : NoExtractorPanic c) :
    ∀ (roots : List (Node × Faults)) (s : St) (acc : List Pkg) (sts : List (Nat × Status)),
      (runRoots c s acc sts roots).err = .none →
      ∃ segs : List (List Call), segs.length = roots.length ∧
        (runRoots c s acc sts roots).calls = s.calls ++ segs.flatten ∧
        (runRoots c s acc sts roots).statuses =
          sts ++ segs.flatMap (fun cur => (List.range c.nExt).map fun e => (e, statusOfCalls c cur e)) ∧
        (runRoots c s acc sts roots).pkgs = acc ++ segs.flatMap (pkgsOfCalls c)
  | [], s, acc, sts, _ => ⟨[], rfl, by simp [runRoots], by simp [runRoots], by simp [runRoots]⟩
  | (r, f) :: rest, s, acc, sts, herr => by
    simp only [runRoots] at herr ⊢
    have h1 := runRoot_book c hx f r s
    generalize runRoot c f s r = x at h1 herr ⊢
    obtain ⟨s1, e1⟩ := x
    simp only [] at herr ⊢ h1
    split
    · rename_i hne; simp [hne] at herr
    · rename_i hne
      simp only [hne, if_false] at herr
      obtain ⟨cur, g1, g2, g3, g4⟩ := h1
      obtain ⟨segs, k1, k2, k3, k4⟩ := runRoots_statuses_of_calls c hx rest s1 _ _ herr
      refine ⟨cur :: segs, by simp [k1], ?_, ?_, ?_⟩
      · rw [k2, g1]; simp [List.append_assoc]
      · rw [k3]
        have : List.map (fun x => (x, statusOf s1 x)) (List.range c.nExt)
             = List.map (fun e => (e, statusOfCalls c cur e)) (List.range c.nExt) :=
          List.map_congr_left (fun e _ => by rw [statusOf_of_book c s1 cur g3 g4 e])
        rw [this]; simp [List.append_assoc]
      · rw [k4, g2]; simp [List.append_assoc]

/-- **Statuses are a function of the attempts, every configuration**: whenever the scan does not fail, the
attempt log splits into one segment per root, and root by root the statuses and the inventory are
`statusOfCalls` / `pkgsOfCalls` of that root's segment. -/
theorem run_statuses_of_calls (c : Cfg) (hx : NoExtractorPanic c) (roots : List (Node × Faults))
    (hok : (run c roots).err = .none) :
    ∃ segs : List (List Call), segs.length = roots.length ∧
      (run c roots).calls = segs.flatten ∧
      (run c roots).statuses =
        segs.flatMap (fun cur => (List.range c.nExt).map fun e => (e, statusOfCalls c cur e)) ∧
      (run c roots).pkgs = segs.flatMap (pkgsOfCalls c) := by
  unfold run at hok ⊢
  obtain ⟨segs, k1, k2, k3, k4⟩ := runRoots_statuses_of_calls c hx roots _ [] [] hok
  exact ⟨segs, k1, by simpa using k2, by simpa using k3, by simpa using k4⟩

/-! ### non-vacuity -/

/-- an inode limit AND `ErrorOnFSErrors` AND a size limit AND a cancellation point: outside `Benign`, inside `NoExtractorPanic` -/
example : NoExtractorPanic { nExt := 2, required := fun _ _ => true, extract := fun _ _ => { pkgs := [7], err := true },
                             maxInodes := 5, maxFileSize := 10, errorOnFSErrors := true, cancelAt := some 9,
                             giMatch := fun _ _ _ _ => false } :=
  fun _ _ => rfl

namespace StatusesEx
/-- extractor 0 succeeds; 1 returns packages and an error; 2 and 3 return only an error (3 is not attempted in `exCalls`) -/
def exC : Cfg := { nExt := 4, required := fun _ _ => true,
                   extract := fun e _ => if e = 0 then { pkgs := [1] } else if e = 1 then { pkgs := [2], err := true } else { err := true },
                   maxInodes := 5, errorOnFSErrors := true, giMatch := fun _ _ _ _ => false }
def exCalls : List Call := [⟨0, ["x"], 1, true⟩, ⟨1, ["x"], 1, true⟩, ⟨2, ["x"], 1, true⟩, ⟨0, ["y"], 1, true⟩]

example : NoExtractorPanic exC := by
  intro e p; unfold exC; simp only []; (repeat' split) <;> rfl
example : (List.range 4).map (statusOfCalls exC exCalls) = [.ok, .part, .failed, .ok] := by decide
/-- an attempt whose file could not be opened counts against the extractor -/
example : statusOfCalls exC [⟨0, ["x"], 1, false⟩] 0 = .failed ∧
          statusOfCalls exC [⟨0, ["x"], 1, false⟩, ⟨0, ["y"], 1, true⟩] 0 = .part := by decide
/-- satisfiability witness for the hypothesis `hok` outside `Benign` (inode limit and fatal filesystem errors set,
the scan does not fail) — a concrete evaluation, not a proof step -/
example : (run exC [(.dir none [("x", .file .reg 1)], {})]).err = .none ∧
    (run exC [(.dir none [("x", .file .reg 1)], {})]).statuses = [(0, .ok), (1, .part), (2, .failed), (3, .failed)] := by decide
end StatusesEx

end Scalibr.Walk
