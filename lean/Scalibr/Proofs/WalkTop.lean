/-
Lifting the node-level results to a whole scan (`walkFrom`, `walkIndividualPaths`, `Run` over
several roots): the calls of a benign scan are exactly `mustExtract`, the scan succeeds, and the engine
never panics unless an extractor does.
-/
import Scalibr.Proofs.WalkSpec
import Scalibr.Proofs.WalkInventory
namespace Scalibr.Walk

/-- between walks the gitignore stacks are empty and the context is live -/
structure Idle (s : St) : Prop where
  gis : s.gis = []
  giDirs : s.giDirs = []
  cancelled : s.cancelled = false

theorem Idle.of_adv {s s' : St} {cs : List Call} (h : Idle s) (a : Adv s s' cs) : Idle s' :=
  ⟨a.gis.trans h.gis, a.giDirs.trans h.giDirs, a.cancelled⟩

/-- the only hypothesis on the gitignore matcher: go-git's domain rule -/
abbrev GiOK (c : Cfg) : Prop := DomainLaw c.giMatch

theorem walkFrom_spec (c : Cfg) (hb : Benign c) (f : Faults) (above : List GiEntry)
    (root : Node) (ho : GiOK c) (p : Path) (s : St) (hc : s.cancelled = false) (hg : c.useGitignore = true → s.gis = above)
    (hd : s.giDirs = []) :
    (walkFrom c f s root p).2 = .none ∧
    Adv s (walkFrom c f s root p).1
      (if f.statFail p then [] else match lookup root p with
        | none => []
        | some n => mustFrom c f above p n) := by
  unfold walkFrom
  by_cases hs : f.statFail p = true
  · simp only [hs, if_true]; exact fserrCall_benign c hb s hc
  · simp only [hs, Bool.false_eq_true, if_false]
    cases hl : lookup root p with
    | none => exact fserrCall_benign c hb s hc
    | some n =>
      simp only []
      have := walkNode_spec c hb ho f above p [] n s hc (by simpa using hg) (by rw [hd]; simp)
      simpa [mustFrom, mustOneFrom_zero] using this

theorem mustOne_nogi (c : Cfg) (f : Faults) (p : Path) (k : Kind) (sz : Nat) :
    mustOne c f [] ⟨p, k, sz, []⟩ = mustOne { c with useGitignore := false } f [] ⟨p, k, sz, []⟩ := by
  unfold mustOne reached fileEligible sizeOk stackMatch
  simp

theorem walkRequested_spec (c : Cfg) (hb : Benign c) (f : Faults) (root : Node) (ho : GiOK c) (p : Path)
    (s : St) (hi : Idle s) :
    (walkRequested c f s root p).2 = .none ∧ Adv s (walkRequested c f s root p).1 (mustRequested c f root p) := by
  have heo := hb.2.1
  unfold walkRequested mustRequested
  by_cases hs : f.statFail p = true
  · simp only [hs, if_true]; exact fserrCall_benign c hb s hi.cancelled
  · simp only [hs, Bool.false_eq_true, if_false]
    cases hl : lookup root p with
    | none => exact fserrCall_benign c hb s hi.cancelled
    | some n =>
      cases n with
      | file k sz =>
        simp only []
        have hp := prologue_benign c hb s hi.cancelled
        generalize prologue c s = x at hp ⊢
        obtain ⟨s1, e1⟩ := x
        obtain ⟨he1, hadv1⟩ := hp
        simp only [] at he1 hadv1
        subst he1
        simp only []
        have hl2 := handleLeaf_benign c hb f [] s1 ⟨p, statKind k, sz, []⟩ hadv1.cancelled
          (fun _ => by rw [hadv1.gis, hi.gis]; rfl)
        simp only [] at hl2
        generalize handleLeaf c f s1 p (statKind k) sz = y at hl2 ⊢
        obtain ⟨s2, e2⟩ := y
        obtain ⟨he2, hadv2⟩ := hl2
        simp only [] at he2 hadv2
        subst he2
        refine ⟨rfl, ?_⟩
        have := Adv.trans hadv1 hadv2
        simp only [List.nil_append, List.length_nil, mustOneFrom_zero] at this
        rw [mustOne_nogi] at this
        exact this
      | dir gi es =>
        simp only []
        cases hu : c.useGitignore with
        | true =>
          simp only [if_true, heo, Bool.and_false, Bool.false_eq_true, if_false]
          have hw := walkFrom_spec c hb f (parentGis f root p).1 root ho p { s with gis := (parentGis f root p).1 }
            hi.cancelled (fun _ => rfl) hi.giDirs
          simp only [hs, Bool.false_eq_true, if_false, hl] at hw
          generalize walkFrom c f { s with gis := (parentGis f root p).1 } root p = z at hw ⊢
          obtain ⟨s3, e3⟩ := z
          obtain ⟨he3, hadv3⟩ := hw
          simp only [] at he3 hadv3
          subst he3
          refine ⟨rfl, ?_⟩
          exact ⟨hadv3.calls, hi.gis.symm, by rw [hadv3.giDirs], hadv3.cancelled⟩
        | false =>
          simp only [Bool.false_eq_true, if_false]
          have hw := walkFrom_spec c hb f [] root ho p s hi.cancelled (fun h => by rw [hu] at h; cases h) hi.giDirs
          simp only [hs, Bool.false_eq_true, if_false, hl] at hw
          generalize walkFrom c f s root p = z at hw ⊢
          obtain ⟨s3, e3⟩ := z
          obtain ⟨he3, hadv3⟩ := hw
          simp only [] at he3 hadv3
          subst he3
          refine ⟨rfl, ?_⟩
          exact ⟨hadv3.calls, hi.gis.symm, by rw [hadv3.giDirs], hadv3.cancelled⟩

theorem walkPaths_spec (c : Cfg) (hb : Benign c) (f : Faults) (root : Node) (ho : GiOK c) :
    ∀ (ps : List Path) (s : St), Idle s →
      (walkPaths c f root s ps).2 = .none ∧ Adv s (walkPaths c f root s ps).1 (ps.flatMap (mustRequested c f root))
  | [], s, hi => by simp [walkPaths, adv_iff, hi.cancelled]
  | p :: rest, s, hi => by
    simp only [walkPaths, List.flatMap_cons]
    have h1 := walkRequested_spec c hb f root ho p s hi
    generalize walkRequested c f s root p = x at h1 ⊢
    obtain ⟨s1, e1⟩ := x
    obtain ⟨he1, hadv1⟩ := h1
    simp only [] at he1 hadv1
    subst he1
    simp only [ne_eq, not_true_eq_false, if_false]
    have h2 := walkPaths_spec c hb f root ho rest s1 (hi.of_adv hadv1)
    exact ⟨h2.1, Adv.trans hadv1 h2.2⟩

theorem runRoot_spec (c : Cfg) (hb : Benign c) (f : Faults) (root : Node) (ho : GiOK c) (s : St) (hi : Idle s) :
    (runRoot c f s root).2 = .none ∧ Adv s (runRoot c f s root).1 (mustRoot c f root) := by
  unfold runRoot mustRoot
  simp only []
  have hi' : Idle { s with pkgs := [], errs := [], found := [] } := ⟨hi.gis, hi.giDirs, hi.cancelled⟩
  by_cases hp : c.paths.isEmpty = true
  · simp only [hp, if_true]
    have := walkFrom_spec c hb f [] root ho [] _ hi'.cancelled (fun _ => hi'.gis) hi'.giDirs
    simp only [lookup] at this
    refine ⟨this.1, ?_⟩
    have h2 := this.2
    exact ⟨h2.calls, h2.gis, h2.giDirs, h2.cancelled⟩
  · simp only [hp, Bool.false_eq_true, if_false]
    have := walkPaths_spec c hb f root ho c.paths _ hi'
    exact ⟨this.1, ⟨this.2.calls, this.2.gis, this.2.giDirs, this.2.cancelled⟩⟩

theorem runRoots_spec (c : Cfg) (hb : Benign c) :
    ∀ (roots : List (Node × Faults)) (s : St) (acc : List Pkg) (sts : List (Nat × Status)),
      GiOK c → Idle s →
      (runRoots c s acc sts roots).err = .none ∧
      (runRoots c s acc sts roots).calls = s.calls ++ mustExtract c roots
  | [], s, acc, sts, _, _ => by simp [runRoots, mustExtract]
  | (r, f) :: rest, s, acc, sts, ho, hi => by
    simp only [runRoots]
    have h1 := runRoot_spec c hb f r ho s hi
    generalize runRoot c f s r = x at h1 ⊢
    obtain ⟨s1, e1⟩ := x
    obtain ⟨he1, hadv1⟩ := h1
    simp only [] at he1 hadv1
    subst he1
    simp only [ne_eq, not_true_eq_false, if_false]
    have h2 := runRoots_spec c hb rest s1 (acc ++ s1.pkgs) (sts ++ List.map (fun x => (x, statusOf s1 x)) (List.range c.nExt)) ho (hi.of_adv hadv1)
    refine ⟨h2.1, ?_⟩
    rw [h2.2, hadv1.calls]
    simp [mustExtract, List.append_assoc]

/-- **Model A refines its specification** (whole scan): in a benign configuration the scan succeeds and
the `Extract` calls are exactly `mustExtract`, in enumeration order, for every forest, fault plan and
option combination. -/
theorem run_spec (c : Cfg) (hb : Benign c) (roots : List (Node × Faults)) (ho : GiOK c) :
    (run c roots).err = .none ∧ (run c roots).calls = mustExtract c roots := by
  unfold run
  have := runRoots_spec c hb roots { cancelled := c.cancelBefore } [] [] ho ⟨rfl, rfl, hb.2.2.1⟩
  simpa using this

end Scalibr.Walk

namespace Scalibr.Walk

/-! ### the engine never panics (every configuration, fault plan, limit, cancellation point) -/

theorem walkFrom_stack (c : Cfg) (hx : NoExtractorPanic c) (f : Faults) (root : Node) (p : Path) (s : St)
    (hd : s.giDirs = []) : SameStack s (walkFrom c f s root p).1 ∧ (walkFrom c f s root p).2 ≠ .panic := by
  unfold walkFrom
  split
  · exact fserrCall_same c s
  · split
    · exact fserrCall_same c s
    · exact walkNode_stack c hx f p _ s (by rw [hd]; simp)

theorem walkRequested_stack (c : Cfg) (hx : NoExtractorPanic c) (f : Faults) (root : Node) (p : Path) (s : St)
    (hd : s.giDirs = []) : (walkRequested c f s root p).1.giDirs = [] ∧ (walkRequested c f s root p).2 ≠ .panic := by
  unfold walkRequested
  split
  · have := fserrCall_same c s; exact ⟨this.1.2.trans hd, this.2⟩
  · split
    · have := fserrCall_same c s; exact ⟨this.1.2.trans hd, this.2⟩
    · split
      · simp only []
        split
        · exact ⟨hd, by simp⟩
        · have := walkFrom_stack c hx f root p { s with gis := (parentGis f root p).1 } hd
          exact ⟨this.1.2.trans hd, this.2⟩
      · have := walkFrom_stack c hx f root p s hd
        exact ⟨this.1.2.trans hd, this.2⟩
    · rename_i k sz _
      have h1 := prologue_same c s
      have h2 := prologue_nopanic c s
      generalize prologue c s = r at h1 h2 ⊢
      obtain ⟨s1, e1⟩ := r
      cases e1 with
      | some e => exact ⟨h1.2.trans hd, by intro h; simp at h2; exact h2 h⟩
      | none =>
        simp only []
        have := handleLeaf_same c hx f s1 p (statKind k) sz
        refine ⟨(this.1.2.trans h1.2).trans hd, ?_⟩
        generalize handleLeaf c f s1 p (statKind k) sz = r2 at this ⊢
        obtain ⟨s2, e2⟩ := r2
        cases e2 with
        | none => simp
        | some e => simp at this ⊢; exact this.2

theorem walkPaths_stack (c : Cfg) (hx : NoExtractorPanic c) (f : Faults) (root : Node) :
    ∀ (ps : List Path) (s : St), s.giDirs = [] →
      (walkPaths c f root s ps).1.giDirs = [] ∧ (walkPaths c f root s ps).2 ≠ .panic
  | [], s, hd => by simp [walkPaths, hd]
  | p :: rest, s, hd => by
    simp only [walkPaths]
    have h1 := walkRequested_stack c hx f root p s hd
    generalize walkRequested c f s root p = x at h1 ⊢
    obtain ⟨s1, e1⟩ := x
    simp only []
    split
    · exact h1
    · exact walkPaths_stack c hx f root rest s1 h1.1

theorem runRoot_stack (c : Cfg) (hx : NoExtractorPanic c) (f : Faults) (root : Node) (s : St) (hd : s.giDirs = []) :
    (runRoot c f s root).1.giDirs = [] ∧ (runRoot c f s root).2 ≠ .panic := by
  unfold runRoot
  simp only []
  split
  · have := walkFrom_stack c hx f root [] { s with pkgs := [], errs := [], found := [] } hd
    exact ⟨this.1.2.trans hd, this.2⟩
  · exact walkPaths_stack c hx f root _ _ hd

theorem runRoots_nopanic (c : Cfg) (hx : NoExtractorPanic c) :
    ∀ (roots : List (Node × Faults)) (s : St) (acc : List Pkg) (sts : List (Nat × Status)), s.giDirs = [] →
      (runRoots c s acc sts roots).err ≠ .panic
  | [], s, acc, sts, _ => by simp [runRoots]
  | (r, f) :: rest, s, acc, sts, hd => by
    simp only [runRoots]
    have h1 := runRoot_stack c hx f r s hd
    generalize runRoot c f s r = x at h1 ⊢
    obtain ⟨s1, e1⟩ := x
    simp only []
    split
    · exact h1.2
    · exact runRoots_nopanic c hx rest s1 _ _ h1.1

theorem run_nopanic (c : Cfg) (hx : NoExtractorPanic c) (roots : List (Node × Faults)) :
    (run c roots).err ≠ .panic := runRoots_nopanic c hx roots _ [] [] rfl

end Scalibr.Walk

namespace Scalibr.Walk

/-! ### statuses and inventory of a benign scan, as functions of the specification -/

/-- the status an extractor must report for one root -/
def statusSpec (c : Cfg) (f : Faults) (root : Node) (e : Nat) : Status :=
  let cs := mustRoot c f root
  if (errsOfCalls c cs).contains e then (if (foundOfCalls c cs).contains e then .part else .failed) else .ok

theorem benign_noPanic {c : Cfg} (hb : Benign c) : NoExtractorPanic c := hb.2.2.2.2

theorem runRoots_results (c : Cfg) (hb : Benign c) :
    ∀ (roots : List (Node × Faults)) (s : St) (acc : List Pkg) (sts : List (Nat × Status)),
      GiOK c → Idle s →
      (runRoots c s acc sts roots).pkgs = acc ++ pkgsOfCalls c (mustExtract c roots) ∧
      (runRoots c s acc sts roots).statuses =
        sts ++ roots.flatMap fun (r, f) => (List.range c.nExt).map fun e => (e, statusSpec c f r e)
  | [], s, acc, sts, _, _ => by simp [runRoots, mustExtract, pkgsOfCalls]
  | (r, f) :: rest, s, acc, sts, ho, hi => by
    simp only [runRoots]
    have h1 := runRoot_spec c hb f r ho s hi
    have hbk := runRoot_book c (benign_noPanic hb) f r s
    generalize runRoot c f s r = x at h1 hbk ⊢
    obtain ⟨s1, e1⟩ := x
    obtain ⟨he1, hadv1⟩ := h1
    simp only [] at he1 hadv1 hbk
    subst he1
    simp only [ne_eq, not_true_eq_false, if_false]
    obtain ⟨cur, g1, g2, g3, g4⟩ := hbk
    have hcur : cur = mustRoot c f r := by
      have := hadv1.calls
      rw [g1] at this
      exact List.append_cancel_left this
    subst hcur
    have h2 := runRoots_results c hb rest s1 (acc ++ s1.pkgs)
      (sts ++ List.map (fun x => (x, statusOf s1 x)) (List.range c.nExt)) ho (hi.of_adv hadv1)
    refine ⟨?_, ?_⟩
    · rw [h2.1, g2]
      simp [mustExtract, pkgsOfCalls_append, List.append_assoc]
    · rw [h2.2]
      have : List.map (fun x => (x, statusOf s1 x)) (List.range c.nExt)
           = List.map (fun e => (e, statusSpec c f r e)) (List.range c.nExt) := by
        apply List.map_congr_left
        intro e _
        simp only [statusOf, statusSpec, g3, g4]
      rw [this]
      simp [List.append_assoc]

theorem run_results (c : Cfg) (hb : Benign c) (roots : List (Node × Faults)) (ho : GiOK c) :
    (run c roots).pkgs = pkgsOfCalls c (mustExtract c roots) ∧
    (run c roots).statuses = roots.flatMap fun (r, f) => (List.range c.nExt).map fun e => (e, statusSpec c f r e) := by
  unfold run
  have := runRoots_results c hb roots { cancelled := c.cancelBefore } [] [] ho ⟨rfl, rfl, hb.2.2.1⟩
  simpa using this

end Scalibr.Walk
