/-
Helper lemmas for C20: the detector loop without cancellation computes the obvious lists (the tagged
copies ARE the specified findings), and `validateAdvisories` decides `Consistent`.
-/
import Scalibr.Spec.Detector
namespace Scalibr.Detector
open Scalibr.Index

theorem tagResults_eq (n : String) (rs : List (Option Finding)) :
    tagResults n rs = rs.map (Option.map (tag n)) := by
  unfold tagResults
  apply List.map_congr_left
  intro r _
  cases r <;> rfl

theorem runLoop_nocancel (px : PkgMap) (ds : List Detector) (s : St)
    (hc : s.cancelled = false) (hr : s.ctxReturn = false) (hn : NoCancel ds) :
    (runLoop px ds s).findings = s.findings ++ specFindings ds px ∧
    (runLoop px ds s).status = s.status ++ specStatus ds px ∧
    (runLoop px ds s).calls = s.calls ++ ds.map (fun d => (d.name, px)) ∧
    (runLoop px ds s).ctxReturn = false := by
  induction ds generalizing s with
  | nil => simp [runLoop, specStatus, specFindings, hr]
  | cons d ds ih =>
    cases ds with
    | nil =>
      -- the last detector: whatever it does to the context, nothing is left to skip
      simp [runLoop, hc, specFindings, specStatus, statusFromErr, tagResults_eq]
    | cons e es =>
      have hd : d.cancels = false := hn d (by simp [List.dropLast])
      have hn' : NoCancel (e :: es) := fun x hx => hn x (by simp only [List.dropLast_cons₂, List.mem_cons]; exact Or.inr hx)
      rw [runLoop]
      simp only [hc, Bool.false_eq_true, if_false]
      have := ih ⟨s.findings ++ tagResults d.name (d.scan px).1, s.status ++ [statusFromErr d.name (d.scan px).2],
        s.calls ++ [(d.name, px)], false || d.cancels, false⟩ (by simp [hd]) rfl hn'
      obtain ⟨h1, h2, h3, h5⟩ := this
      refine ⟨?_, ?_, ?_, h5⟩
      · rw [h1]; simp [specFindings, List.flatMap_cons, List.append_assoc, tagResults_eq]
      · rw [h2]; simp [specStatus, statusFromErr, List.append_assoc]
      · rw [h3]; simp [List.append_assoc]

theorem runLoop_calls_prefix (px : PkgMap) (ds : List Detector) (s : St) :
    ∃ k, (runLoop px ds s).calls = s.calls ++ (ds.take k).map (fun d => (d.name, px)) := by
  induction ds generalizing s with
  | nil => exact ⟨0, by simp [runLoop]⟩
  | cons d ds ih =>
    unfold runLoop
    by_cases hc : s.cancelled = true
    · exact ⟨0, by simp [hc]⟩
    · simp only [hc, Bool.false_eq_true, if_false]
      obtain ⟨k, hk⟩ := ih ⟨s.findings ++ tagResults d.name (d.scan px).1, s.status ++ [statusFromErr d.name (d.scan px).2],
        s.calls ++ [(d.name, px)], false || d.cancels, false⟩
      exact ⟨k + 1, by rw [hk]; simp [List.append_assoc]⟩

/-! ### validateAdvisories -/

/-- the advisories recorded so far agree with every finding still to come -/
def Agree (ids : List (AdvID × Adv)) (fs : List (Option Finding)) : Prop :=
  ∀ f, some f ∈ fs → ∀ a i, f.adv = some a → a.id = some i → ∀ a', lookAdv ids i = some a' → a' = a

theorem validate_none_iff (fs : List (Option Finding)) (ids : List (AdvID × Adv)) :
    validate fs ids = none ↔ Consistent fs ∧ Agree ids fs := by
  induction fs generalizing ids with
  | nil => simp [validate, Consistent, Agree]
  | cons x fs ih =>
    cases x with
    | none =>
      unfold validate
      simp only [reduceCtorEq, false_iff]
      rintro ⟨⟨h, _⟩, _⟩
      obtain ⟨f, a, i, hx, _, _⟩ := h none (by simp)
      cases hx
    | some f =>
    unfold validate
    cases hadv : f.adv with
    | none =>
      simp only [reduceCtorEq, false_iff]
      rintro ⟨⟨h, _⟩, _⟩
      obtain ⟨g, a, i, hx, ha, _⟩ := h (some f) (by simp)
      cases hx
      rw [hadv] at ha; cases ha
    | some a =>
      cases hid : a.id with
      | none =>
        simp only [hid, reduceCtorEq, false_iff]
        rintro ⟨⟨h, _⟩, _⟩
        obtain ⟨g, a', i, hx, ha, hi⟩ := h (some f) (by simp)
        cases hx
        rw [hadv] at ha; cases ha
        rw [hid] at hi; cases hi
      | some i =>
        simp only [hid]
        have key : validate fs ((i, a) :: ids) = none ↔ Consistent fs ∧ Agree ((i, a) :: ids) fs := ih _
        have M : ((∀ a', lookAdv ids i = some a' → a' = a) ∧ validate fs ((i, a) :: ids) = none) ↔
            Consistent (some f :: fs) ∧ Agree ids (some f :: fs) := by
          rw [key]
          constructor
          · rintro ⟨hf, ⟨hA, hC⟩, hB⟩
            refine ⟨⟨?_, ?_⟩, ?_⟩
            · intro y hy
              simp only [List.mem_cons] at hy
              rcases hy with rfl | hy
              · exact ⟨f, a, i, rfl, hadv, hid⟩
              · exact hA y hy
            · have hfg : ∀ g, some g ∈ fs → ∀ b, g.adv = some b → a.id = b.id → a = b := by
                intro g hg b hb hab
                have hbi : b.id = some i := by rw [← hab, hid]
                exact hB g hg b i hb hbi a (by simp [lookAdv])
              intro g hg h hh x y hx hy hxy
              simp only [List.mem_cons, Option.some.injEq] at hg hh
              rcases hg with rfl | hg <;> rcases hh with rfl | hh
              · rw [hadv] at hx hy; cases hx; cases hy; rfl
              · rw [hadv] at hx; cases hx; exact hfg h hh y hy hxy
              · rw [hadv] at hy; cases hy; exact (hfg g hg x hx hxy.symm).symm
              · exact hC g hg h hh x y hx hy hxy
            · intro g hg b j hb hj a' hl
              simp only [List.mem_cons, Option.some.injEq] at hg
              rcases hg with rfl | hg
              · rw [hadv] at hb; cases hb
                rw [hid] at hj; cases hj
                exact hf a' hl
              · by_cases hji : i = j
                · subst hji
                  have h1 : a' = a := hf a' hl
                  have h2 : a = b := hB g hg b i hb hj a (by simp [lookAdv])
                  rw [h1, h2]
                · exact hB g hg b j hb hj a' (by simp [lookAdv, hji, hl])
          · rintro ⟨⟨hA, hC⟩, hB⟩
            refine ⟨?_, ⟨?_, ?_⟩, ?_⟩
            · intro a' hl
              exact hB f (by simp) a i hadv hid a' hl
            · intro y hy; exact hA y (by simp [hy])
            · intro g hg h hh; exact hC g (by simp [hg]) h (by simp [hh])
            · intro g hg b j hb hj a' hl
              by_cases hji : i = j
              · subst hji
                simp only [lookAdv, if_true, Option.some.injEq] at hl
                rw [← hl]
                exact hC f (by simp) g (by simp [hg]) a b hadv hb (by rw [hid, hj])
              · simp only [lookAdv, hji, if_false] at hl
                exact hB g (by simp [hg]) b j hb hj a' hl
        rw [← M]
        cases hl : lookAdv ids i with
        | none => simp
        | some a' =>
          by_cases he : a' = a
          · subst he; simp
          · simp [he]

theorem validate_spec (fs : List (Option Finding)) : validate fs [] = none ↔ Consistent fs := by
  rw [validate_none_iff]
  constructor
  · exact fun h => h.1
  · intro h; exact ⟨h, by intro f _ a i _ _ a' hl; simp [lookAdv] at hl⟩

/-- a consistent list holds no nil entry: it is the image of its non-nil part -/
theorem consistent_no_nil (fs : List (Option Finding)) (h : Consistent fs) : (fs.filterMap id).map some = fs := by
  induction fs with
  | nil => rfl
  | cons x fs ih =>
    have hx := h.1 x (by simp)
    obtain ⟨f, _, _, rfl, _, _⟩ := hx
    have h' : Consistent fs := ⟨fun y hy => h.1 y (by simp [hy]), fun g hg k hk => h.2 g (by simp [hg]) k (by simp [hk])⟩
    simp [List.filterMap_cons, ih h']

theorem consistentB_iff (fs : List (Option Finding)) : consistentB fs = true ↔ Consistent fs := by
  unfold consistentB Consistent
  simp only [Bool.and_eq_true, List.all_eq_true]
  constructor
  · rintro ⟨h1, h2⟩
    refine ⟨?_, ?_⟩
    · intro x hx
      have := h1 x hx
      cases x with
      | none => simp at this
      | some f =>
        cases ha : f.adv with
        | none => simp [ha] at this
        | some a =>
          cases hi : a.id with
          | none => simp [ha, hi] at this
          | some i => exact ⟨f, a, i, rfl, ha, hi⟩
    · intro f hf g hg a b ha hb hab
      have := h2 (some f) hf (some g) hg
      simp only [ha, hb] at this
      simpa [hab] using this
  · rintro ⟨h1, h2⟩
    refine ⟨?_, ?_⟩
    · intro x hx
      obtain ⟨f, a, i, rfl, ha, hi⟩ := h1 x hx
      simp [ha, hi]
    · intro x hx y hy
      cases x with
      | none => simp
      | some f =>
        cases y with
        | none => simp
        | some g =>
          cases ha : f.adv with
          | none => simp [ha]
          | some a =>
            cases hb : g.adv with
            | none => simp [ha, hb]
            | some b =>
              by_cases hab : a.id = b.id
              · simp [ha, hb, h2 f hx g hy a b ha hb hab]
              · simp [ha, hb, hab]

/-! ### consistency is inherited by parts, and consistent findings have sort keys -/

theorem consistent_append_left (a b : List (Option Finding)) (h : Consistent (a ++ b)) : Consistent a :=
  ⟨fun x hx => h.1 x (by simp [hx]), fun f hf g hg => h.2 f (by simp [hf]) g (by simp [hg])⟩

theorem consistent_append_right (a b : List (Option Finding)) (h : Consistent (a ++ b)) : Consistent b :=
  ⟨fun x hx => h.1 x (by simp [hx]), fun f hf g hg => h.2 f (by simp [hf]) g (by simp [hg])⟩

theorem consistent_keyed (fs : List Finding) (h : Consistent (fs.map some)) : ∀ f ∈ fs, (sortKey f).isSome = true := by
  intro f hf
  obtain ⟨g, a, k, hg, ha, hk⟩ := h.1 (some f) (List.mem_map.2 ⟨f, hf, rfl⟩)
  cases hg
  simp [sortKey, ha, hk]

/-- whatever `Scan` hands to `sortResults` passed `ValidateAdvisories` (or is empty) -/
theorem scanFindings_consistent (i : ScanIn) : Consistent ((scanFindings i).1.map some) := by
  unfold scanFindings
  simp only []
  split
  · simp [Consistent]
  · next hv => exact (validate_spec _).1 hv

theorem consistent_perm (a b : List (Option Finding)) (hp : a.Perm b) (h : Consistent a) : Consistent b :=
  ⟨fun x hx => h.1 x (hp.mem_iff.2 hx), fun f hf g hg => h.2 f (hp.mem_iff.2 hf) g (hp.mem_iff.2 hg)⟩

/-- `Run` returns no findings together with an error -/
theorem run_err_findings (ds : List Detector) (px : PkgMap) (e : RunErr) (h : (run ds px).err = some e) :
    (run ds px).findings = [] := by
  unfold run at h ⊢
  simp only [] at h ⊢
  split
  · rfl
  · split
    · rfl
    · next hv => simp [hv] at h; split at h <;> simp_all

end Scalibr.Detector
