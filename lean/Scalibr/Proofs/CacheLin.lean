/-
C16(b): the ghost linearization of Model/CacheLin.lean is a legal sequential history of the map-with-fetch-on-miss
specification, contains every completed call with the result it really returned, at a time inside the call's interval.
-/
import Scalibr.Model.CacheLin
import Scalibr.Proofs.Cache
namespace Scalibr.Cache

theorem SpecRun.append {m m' m'' : K → Option V} {xs ys : List LinOp} (h1 : SpecRun m xs m') (h2 : SpecRun m' ys m'') :
    SpecRun m (xs ++ ys) m'' := by
  induction h1 with
  | nil => exact h2
  | cons hs _ ih => exact SpecRun.cons hs (ih h2)

theorem SpecRun.single {m m' : K → Option V} {op : LinOp} (h : SpecStep m op m') : SpecRun m [op] m' :=
  SpecRun.cons h SpecRun.nil

/-- after a successful publish every waiter of the call is a cache hit -/
theorem specRun_hits (m : K → Option V) (k : K) (v : V) (hm : m k = some v) (τ : Nat) :
    ∀ ws : List Nat, SpecRun m ((ws.map (fun w => (τ, LinOp.get w k (.ok v)))).map (·.2)) m
  | [] => SpecRun.nil
  | w :: ws => SpecRun.cons (SpecStep.hit hm) (specRun_hits m k v hm τ ws)

/-- after a failed publish every waiter of the call shares the error (the key is still absent) -/
theorem specRun_errs (m : K → Option V) (k : K) (hm : m k = none) (τ : Nat) :
    ∀ ws : List Nat, SpecRun m ((ws.map (fun w => (τ, LinOp.get w k .err))).map (·.2)) m
  | [] => SpecRun.nil
  | w :: ws => SpecRun.cons (SpecStep.missErr hm) (specRun_errs m k hm τ ws)

theorem lstep_base (l : LSt) (a : Act) : (lstep l a).base = step l.base a := by
  unfold lstep
  cases a with
  | lookup t =>
    simp only []
    cases hp : l.base.pcs t <;> simp only [] <;> try rfl
    rename_i k
    cases hc : l.base.cache k <;> simp only [] <;> try rfl
    cases hcl : l.base.calls k <;> rfl
  | publish t r =>
    simp only []
    cases hp : l.base.pcs t <;> rfl
  | wake t =>
    simp only []
    cases hp : l.base.pcs t <;> simp only [] <;> try rfl
    rename_i c k
    cases hr : l.base.results c <;> rfl
  | setMap m => rfl
  | getMap => rfl

theorem lrunFrom_base (l : LSt) (as : List Act) : (lrunFrom l as).base = runFrom l.base as := by
  unfold lrunFrom runFrom
  induction as generalizing l with
  | nil => rfl
  | cons a as ih => simp only [List.foldl_cons]; rw [ih, lstep_base]

/-- the instrumented run is the run of Model/Cache.lean -/
theorem lrun_base (keyOf) (as : List Act) : (lrun keyOf as).base = run keyOf as := lrunFrom_base _ as

/-! ### the invariant -/

@[simp] theorem upd_same {α} (f : Nat → α) (i : Nat) (x : α) : upd f i x i = x := by simp [upd]
theorem upd_ne {α} (f : Nat → α) (i j : Nat) (x : α) (h : j ≠ i) : upd f i x j = f j := by simp [upd, h]

structure LInv (l : LSt) : Prop where
  inv : Inv l.base
  spec : SpecRun (fun _ => none) (l.lin.map (·.2)) l.base.cache
  fetch_miss : ∀ t c k, l.base.pcs t = .fetching c k → l.base.cache k = none
  done_lin : ∀ t k r, l.base.pcs t = .done k r →
    ∃ τ a b, (τ, LinOp.get t k r) ∈ l.lin ∧ l.tLook t = some a ∧ l.tRet t = some b ∧ a ≤ τ ∧ τ ≤ b
  wait_pending : ∀ t c k, l.base.pcs t = .waiting c k → l.base.results c = none →
    t ∈ l.waiters c ∧ ∃ a, l.tLook t = some a ∧ a ≤ l.now
  wait_lin : ∀ t c k r, l.base.pcs t = .waiting c k → l.base.results c = some r →
    ∃ τ a, (τ, LinOp.get t k r) ∈ l.lin ∧ l.tLook t = some a ∧ a ≤ τ ∧ τ ≤ l.now
  fetch_look : ∀ t c k, l.base.pcs t = .fetching c k → ∃ a, l.tLook t = some a ∧ a ≤ l.now
  lin_real : ∀ τ t k r, (τ, LinOp.get t k r) ∈ l.lin →
    l.base.pcs t = .done k r ∨ ∃ c, l.base.pcs t = .waiting c k ∧ l.base.results c = some r
  waiters_real : ∀ c t, t ∈ l.waiters c → l.base.results c = none → ∃ k, l.base.pcs t = .waiting c k
  lin_le : ∀ e ∈ l.lin, e.1 ≤ l.now

/-- nothing but the clock moves -/
theorem linv_tick (l : LSt) (h : LInv l) : LInv { l with now := l.now + 1 } := by
  obtain ⟨h0, h1, h2, h3, h4, h5, h6, h7, h8, h9⟩ := h
  refine ⟨h0, h1, h2, h3, ?_, ?_, ?_, h7, h8, ?_⟩
  · intro t c k hw hr
    obtain ⟨hm, a, ha, hle⟩ := h4 t c k hw hr
    exact ⟨hm, a, ha, Nat.le_succ_of_le hle⟩
  · intro t c k r hw hr
    obtain ⟨τ, a, hm, ha, h1', h2'⟩ := h5 t c k r hw hr
    exact ⟨τ, a, hm, ha, h1', Nat.le_succ_of_le h2'⟩
  · intro t c k hf
    obtain ⟨a, ha, hle⟩ := h6 t c k hf
    exact ⟨a, ha, Nat.le_succ_of_le hle⟩
  · intro e he; exact Nat.le_succ_of_le (h9 e he)

theorem linv_hit (l : LSt) (t : Nat) (k : K) (v : V) (h : LInv l) (hp : l.base.pcs t = .start k) (hc : l.base.cache k = some v) :
    LInv (lstep l (.lookup t)) := by
  have hi := inv_step l.base (.lookup t) h.inv
  simp only [step, hp, hc] at hi
  have e : lstep l (.lookup t) = { l with base := { l.base with pcs := upd l.base.pcs t (.done k (.ok v)) }, now := l.now + 1, lin := l.lin ++ [(l.now + 1, .get t k (.ok v))], tLook := upd l.tLook t (some (l.now + 1)), tRet := upd l.tRet t (some (l.now + 1)) } := by
    simp only [lstep, step, hp, hc]
  rw [e]
  obtain ⟨h0, h1, h2, h3, h4, h5, h6, h7, h8, h9⟩ := h
  refine ⟨hi, ?_, ?_, ?_, ?_, ?_, ?_, ?_, ?_, ?_⟩
  · simp only [List.map_append, List.map_cons, List.map_nil]
    exact h1.append (SpecRun.single (SpecStep.hit hc))
  · intro t' c k' hf
    simp only [upd] at hf; split at hf
    · cases hf
    · exact h2 t' c k' hf
  · intro t' k' r' hd
    by_cases ht : t' = t
    · subst ht
      simp only [upd_same] at hd ⊢
      cases hd
      exact ⟨l.now + 1, l.now + 1, l.now + 1, by simp, rfl, rfl, Nat.le_refl _, Nat.le_refl _⟩
    · simp only [upd_ne _ _ _ _ ht] at hd ⊢
      obtain ⟨τ, a, b, hm, ha, hb, h1', h2'⟩ := h3 t' k' r' hd
      exact ⟨τ, a, b, List.mem_append_left _ hm, ha, hb, h1', h2'⟩
  · intro t' c k' hw hr
    have ht : t' ≠ t := by intro e; subst e; simp at hw
    simp only [upd_ne _ _ _ _ ht] at hw ⊢
    obtain ⟨hm, a, ha, hle⟩ := h4 t' c k' hw hr
    exact ⟨hm, a, ha, Nat.le_succ_of_le hle⟩
  · intro t' c k' r' hw hr
    have ht : t' ≠ t := by intro e; subst e; simp at hw
    simp only [upd_ne _ _ _ _ ht] at hw ⊢
    obtain ⟨τ, a, hm, ha, h1', h2'⟩ := h5 t' c k' r' hw hr
    exact ⟨τ, a, List.mem_append_left _ hm, ha, h1', Nat.le_succ_of_le h2'⟩
  · intro t' c k' hf
    have ht : t' ≠ t := by intro e; subst e; simp at hf
    simp only [upd_ne _ _ _ _ ht] at hf ⊢
    obtain ⟨a, ha, hle⟩ := h6 t' c k' hf
    exact ⟨a, ha, Nat.le_succ_of_le hle⟩
  · intro τ t' k' r' hm
    rcases List.mem_append.mp hm with hm | hm
    · have := h7 τ t' k' r' hm
      have ht : t' ≠ t := by
        intro e; subst e; rw [hp] at this
        rcases this with h | ⟨c, h, _⟩ <;> cases h
      simpa only [upd_ne _ _ _ _ ht] using this
    · simp only [List.mem_singleton, Prod.mk.injEq, LinOp.get.injEq] at hm
      obtain ⟨_, rfl, rfl, rfl⟩ := hm
      left; simp
  · intro c t' hm hr
    obtain ⟨k', hw⟩ := h8 c t' hm hr
    have ht : t' ≠ t := by intro e; subst e; rw [hp] at hw; cases hw
    exact ⟨k', by simpa only [upd_ne _ _ _ _ ht] using hw⟩
  · intro e he
    rcases List.mem_append.mp he with he | he
    · exact Nat.le_succ_of_le (h9 e he)
    · simp only [List.mem_singleton] at he; subst he; exact Nat.le_refl _

theorem linv_wait (l : LSt) (t : Nat) (k : K) (c : Cid) (h : LInv l) (hp : l.base.pcs t = .start k) (hc : l.base.cache k = none)
    (hcl : l.base.calls k = some c) : LInv (lstep l (.lookup t)) := by
  have hi := inv_step l.base (.lookup t) h.inv
  simp only [step, hp, hc, hcl] at hi
  have e : lstep l (.lookup t) = { l with base := { l.base with pcs := upd l.base.pcs t (.waiting c k) }, now := l.now + 1, waiters := upd l.waiters c (l.waiters c ++ [t]), tLook := upd l.tLook t (some (l.now + 1)) } := by
    simp only [lstep, step, hp, hc, hcl]
  rw [e]
  obtain ⟨h0, h1, h2, h3, h4, h5, h6, h7, h8, h9⟩ := h
  have hres : l.base.results c = none := by
    obtain ⟨t0, ht0⟩ := h0.calls_owner k c hcl
    exact h0.fetch_nores t0 c k ht0
  refine ⟨hi, h1, ?_, ?_, ?_, ?_, ?_, ?_, ?_, ?_⟩
  · intro t' c' k' hf
    simp only [upd] at hf; split at hf
    · cases hf
    · exact h2 t' c' k' hf
  · intro t' k' r' hd
    have ht : t' ≠ t := by intro e; subst e; simp at hd
    simp only [upd_ne _ _ _ _ ht] at hd ⊢
    exact h3 t' k' r' hd
  · intro t' c' k' hw hr
    by_cases ht : t' = t
    · subst ht
      simp only [upd_same] at hw ⊢
      cases hw
      exact ⟨by simp, l.now + 1, rfl, Nat.le_refl _⟩
    · simp only [upd_ne _ _ _ _ ht] at hw ⊢
      obtain ⟨hm, a, ha, hle⟩ := h4 t' c' k' hw hr
      refine ⟨?_, a, ha, Nat.le_succ_of_le hle⟩
      simp only [upd]; split
      · rename_i hc'; subst hc'; exact List.mem_append_left _ hm
      · exact hm
  · intro t' c' k' r' hw hr
    by_cases ht : t' = t
    · subst ht
      simp only [upd_same] at hw
      cases hw
      simp only at hr; rw [hres] at hr; cases hr
    · simp only [upd_ne _ _ _ _ ht] at hw ⊢
      obtain ⟨τ, a, hm, ha, h1', h2'⟩ := h5 t' c' k' r' hw hr
      exact ⟨τ, a, hm, ha, h1', Nat.le_succ_of_le h2'⟩
  · intro t' c' k' hf
    have ht : t' ≠ t := by intro e; subst e; simp at hf
    simp only [upd_ne _ _ _ _ ht] at hf ⊢
    obtain ⟨a, ha, hle⟩ := h6 t' c' k' hf
    exact ⟨a, ha, Nat.le_succ_of_le hle⟩
  · intro τ t' k' r' hm
    have := h7 τ t' k' r' hm
    have ht : t' ≠ t := by
      intro e; subst e; rw [hp] at this
      rcases this with h | ⟨c, h, _⟩ <;> cases h
    simpa only [upd_ne _ _ _ _ ht] using this
  · intro c' t' hm hr
    by_cases ht : t' = t
    · subst ht
      simp only [upd] at hm; split at hm
      · rename_i hc'; subst hc'; exact ⟨k, by simp⟩
      · obtain ⟨k', hw⟩ := h8 c' t' hm hr; rw [hp] at hw; cases hw
    · have hm' : t' ∈ l.waiters c' := by
        simp only [upd] at hm; split at hm
        · rename_i hc'; subst hc'
          rcases List.mem_append.mp hm with h | h
          · exact h
          · simp at h; exact absurd h ht
        · exact hm
      obtain ⟨k', hw⟩ := h8 c' t' hm' hr
      exact ⟨k', by simpa only [upd_ne _ _ _ _ ht] using hw⟩
  · intro e he; exact Nat.le_succ_of_le (h9 e he)

theorem linv_miss (l : LSt) (t : Nat) (k : K) (h : LInv l) (hp : l.base.pcs t = .start k) (hc : l.base.cache k = none)
    (hcl : l.base.calls k = none) : LInv (lstep l (.lookup t)) := by
  have hi := inv_step l.base (.lookup t) h.inv
  simp only [step, hp, hc, hcl] at hi
  have e : lstep l (.lookup t) = { l with base := { l.base with calls := upd l.base.calls k (some l.base.next), pcs := upd l.base.pcs t (.fetching l.base.next k), next := l.base.next + 1, nfetch := upd l.base.nfetch k (l.base.nfetch k + 1), lateFetch := l.base.lateFetch || l.base.succeeded k, ckey := upd l.base.ckey l.base.next (some k) }, now := l.now + 1, tLook := upd l.tLook t (some (l.now + 1)) } := by
    simp only [lstep, step, hp, hc, hcl]
  rw [e]
  obtain ⟨h0, h1, h2, h3, h4, h5, h6, h7, h8, h9⟩ := h
  refine ⟨hi, h1, ?_, ?_, ?_, ?_, ?_, ?_, ?_, ?_⟩
  · intro t' c' k' hf
    by_cases ht : t' = t
    · subst ht; simp only [upd_same] at hf; cases hf; exact hc
    · simp only [upd_ne _ _ _ _ ht] at hf; exact h2 t' c' k' hf
  · intro t' k' r' hd
    have ht : t' ≠ t := by intro e; subst e; simp at hd
    simp only [upd_ne _ _ _ _ ht] at hd ⊢
    exact h3 t' k' r' hd
  · intro t' c' k' hw hr
    have ht : t' ≠ t := by intro e; subst e; simp at hw
    simp only [upd_ne _ _ _ _ ht] at hw ⊢
    obtain ⟨hm, a, ha, hle⟩ := h4 t' c' k' hw hr
    exact ⟨hm, a, ha, Nat.le_succ_of_le hle⟩
  · intro t' c' k' r' hw hr
    have ht : t' ≠ t := by intro e; subst e; simp at hw
    simp only [upd_ne _ _ _ _ ht] at hw ⊢
    obtain ⟨τ, a, hm, ha, h1', h2'⟩ := h5 t' c' k' r' hw hr
    exact ⟨τ, a, hm, ha, h1', Nat.le_succ_of_le h2'⟩
  · intro t' c' k' hf
    by_cases ht : t' = t
    · subst ht; simp only [upd_same]; exact ⟨l.now + 1, rfl, Nat.le_refl _⟩
    · simp only [upd_ne _ _ _ _ ht] at hf ⊢
      obtain ⟨a, ha, hle⟩ := h6 t' c' k' hf
      exact ⟨a, ha, Nat.le_succ_of_le hle⟩
  · intro τ t' k' r' hm
    have := h7 τ t' k' r' hm
    have ht : t' ≠ t := by
      intro e; subst e; rw [hp] at this
      rcases this with h | ⟨c, h, _⟩ <;> cases h
    simpa only [upd_ne _ _ _ _ ht] using this
  · intro c' t' hm hr
    obtain ⟨k', hw⟩ := h8 c' t' hm hr
    have ht : t' ≠ t := by intro e; subst e; rw [hp] at hw; cases hw
    exact ⟨k', by simpa only [upd_ne _ _ _ _ ht] using hw⟩
  · intro e he; exact Nat.le_succ_of_le (h9 e he)

theorem mem_get_of_mem_nonget {l : List (Nat × LinOp)} {x : Nat × LinOp} {τ t k r} (hx : ∀ t k r, x.2 ≠ LinOp.get t k r)
    (hm : (τ, LinOp.get t k r) ∈ l ++ [x]) : (τ, LinOp.get t k r) ∈ l := by
  rcases List.mem_append.mp hm with h | h
  · exact h
  · simp only [List.mem_singleton] at h; subst h; exact absurd rfl (hx t k r)

theorem linv_publish (l : LSt) (t : Nat) (r : R) (c : Cid) (k : K) (h : LInv l) (hp : l.base.pcs t = .fetching c k) :
    LInv (lstep l (.publish t r)) := by
  have hi := inv_step l.base (.publish t r) h.inv
  obtain ⟨h0, h1, h2, h3, h4, h5, h6, h7, h8, h9⟩ := h
  have hck : l.base.calls k = some c := h0.fetch_calls t c k hp
  have hres : l.base.results c = none := h0.fetch_nores t c k hp
  have hmiss : l.base.cache k = none := h2 t c k hp
  simp only [step, hp, hck, if_true] at hi
  simp only [lstep, step, hp, hck, if_true]
  -- a waiter of c waits for key k
  have hwk : ∀ w k', l.base.pcs w = .waiting c k' → k' = k := by
    intro w k' hw
    have a := (h0.ckey_wait w c k' hw).1
    have b := h0.ckey_fetch t c k hp
    rw [a] at b; cases b; rfl
  refine ⟨hi, ?_, ?_, ?_, ?_, ?_, ?_, ?_, ?_, ?_⟩
  · simp only [List.map_append, List.map_cons]
    refine h1.append ?_
    cases r with
    | ok v =>
      refine SpecRun.cons (SpecStep.missOk hmiss) ?_
      exact specRun_hits _ k v (by simp) (l.now + 1) (l.waiters c)
    | err =>
      refine SpecRun.cons (SpecStep.missErr hmiss) ?_
      exact specRun_errs _ k hmiss (l.now + 1) (l.waiters c)
  · intro t' c' k' hf
    have ht : t' ≠ t := by intro e; subst e; simp at hf
    simp only [upd_ne _ _ _ _ ht] at hf
    have hold := h2 t' c' k' hf
    have hk : k' ≠ k := by
      intro e; subst e
      exact ht (h0.fetch_uniq t' t c' c k' hf hp)
    cases r with
    | ok v => simp only [upd_ne _ _ _ _ hk]; exact hold
    | err => exact hold
  · intro t' k' r' hd
    by_cases ht : t' = t
    · subst ht
      simp only [upd_same] at hd ⊢
      cases hd
      obtain ⟨a, ha, hle⟩ := h6 t' c k hp
      exact ⟨l.now + 1, a, l.now + 1, by simp, ha, rfl, Nat.le_succ_of_le hle, Nat.le_refl _⟩
    · simp only [upd_ne _ _ _ _ ht] at hd ⊢
      obtain ⟨τ, a, b, hm, ha, hb, h1', h2'⟩ := h3 t' k' r' hd
      exact ⟨τ, a, b, List.mem_append_left _ hm, ha, hb, h1', h2'⟩
  · intro t' c' k' hw hr
    have ht : t' ≠ t := by intro e; subst e; simp at hw
    simp only [upd_ne _ _ _ _ ht] at hw ⊢
    have hc' : c' ≠ c := by intro e; subst e; simp at hr
    simp only [upd_ne _ _ _ _ hc'] at hr
    obtain ⟨hm, a, ha, hle⟩ := h4 t' c' k' hw hr
    exact ⟨hm, a, ha, Nat.le_succ_of_le hle⟩
  · intro t' c' k' r' hw hr
    have ht : t' ≠ t := by intro e; subst e; simp at hw
    simp only [upd_ne _ _ _ _ ht] at hw ⊢
    by_cases hc' : c' = c
    · subst hc'
      simp only [upd_same, Option.some.injEq] at hr; subst hr
      have hk := hwk t' k' hw; subst hk
      obtain ⟨hm, a, ha, hle⟩ := h4 t' c' k' hw hres
      refine ⟨l.now + 1, a, ?_, ha, Nat.le_succ_of_le hle, Nat.le_refl _⟩
      apply List.mem_append_right
      apply List.mem_cons_of_mem
      exact List.mem_map.mpr ⟨t', hm, rfl⟩
    · simp only [upd_ne _ _ _ _ hc'] at hr
      obtain ⟨τ, a, hm, ha, h1', h2'⟩ := h5 t' c' k' r' hw hr
      exact ⟨τ, a, List.mem_append_left _ hm, ha, h1', Nat.le_succ_of_le h2'⟩
  · intro t' c' k' hf
    have ht : t' ≠ t := by intro e; subst e; simp at hf
    simp only [upd_ne _ _ _ _ ht] at hf ⊢
    obtain ⟨a, ha, hle⟩ := h6 t' c' k' hf
    exact ⟨a, ha, Nat.le_succ_of_le hle⟩
  · intro τ t' k' r' hm
    rcases List.mem_append.mp hm with hm | hm
    · have hold := h7 τ t' k' r' hm
      have ht : t' ≠ t := by
        intro e; subst e; rw [hp] at hold
        rcases hold with h | ⟨c, h, _⟩ <;> cases h
      simp only [upd_ne _ _ _ _ ht]
      rcases hold with h | ⟨c', hw, hr⟩
      · exact Or.inl h
      · have hc' : c' ≠ c := by intro e; subst e; rw [hres] at hr; cases hr
        exact Or.inr ⟨c', hw, by simp only [upd_ne _ _ _ _ hc']; exact hr⟩
    · rcases List.mem_cons.mp hm with hm | hm
      · simp only [Prod.mk.injEq, LinOp.get.injEq] at hm
        obtain ⟨_, rfl, rfl, rfl⟩ := hm
        left; simp
      · obtain ⟨w, hw, he⟩ := List.mem_map.mp hm
        simp only [Prod.mk.injEq, LinOp.get.injEq] at he
        obtain ⟨_, rfl, rfl, rfl⟩ := he
        obtain ⟨k', hwait⟩ := h8 c w hw hres
        have hk := hwk w k' hwait; subst hk
        have ht : w ≠ t := by intro e; subst e; rw [hp] at hwait; cases hwait
        right
        exact ⟨c, by simp only [upd_ne _ _ _ _ ht]; exact hwait, by simp⟩
  · intro c' t' hm hr
    have hc' : c' ≠ c := by intro e; subst e; simp at hr
    simp only [upd_ne _ _ _ _ hc'] at hr
    obtain ⟨k', hw⟩ := h8 c' t' hm hr
    have ht : t' ≠ t := by intro e; subst e; rw [hp] at hw; cases hw
    exact ⟨k', by simpa only [upd_ne _ _ _ _ ht] using hw⟩
  · intro e he
    rcases List.mem_append.mp he with he | he
    · exact Nat.le_succ_of_le (h9 e he)
    · rcases List.mem_cons.mp he with he | he
      · subst he; exact Nat.le_refl _
      · obtain ⟨w, _, rfl⟩ := List.mem_map.mp he; exact Nat.le_refl _

theorem linv_wake (l : LSt) (t : Nat) (c : Cid) (k : K) (r : R) (h : LInv l) (hp : l.base.pcs t = .waiting c k)
    (hr : l.base.results c = some r) : LInv (lstep l (.wake t)) := by
  have hi := inv_step l.base (.wake t) h.inv
  simp only [step, hp, hr] at hi
  have e : lstep l (.wake t) = { l with base := { l.base with pcs := upd l.base.pcs t (.done k r) }, now := l.now + 1, tRet := upd l.tRet t (some (l.now + 1)) } := by
    simp only [lstep, step, hp, hr]
  rw [e]
  obtain ⟨h0, h1, h2, h3, h4, h5, h6, h7, h8, h9⟩ := h
  refine ⟨hi, h1, ?_, ?_, ?_, ?_, ?_, ?_, ?_, ?_⟩
  · intro t' c' k' hf
    have ht : t' ≠ t := by intro e; subst e; simp at hf
    simp only [upd_ne _ _ _ _ ht] at hf; exact h2 t' c' k' hf
  · intro t' k' r' hd
    by_cases ht : t' = t
    · subst ht
      simp only [upd_same] at hd ⊢
      cases hd
      obtain ⟨τ, a, hm, ha, h1', h2'⟩ := h5 t' c k r hp hr
      exact ⟨τ, a, l.now + 1, hm, ha, rfl, h1', Nat.le_succ_of_le h2'⟩
    · simp only [upd_ne _ _ _ _ ht] at hd ⊢
      exact h3 t' k' r' hd
  · intro t' c' k' hw hr'
    have ht : t' ≠ t := by intro e; subst e; simp at hw
    simp only [upd_ne _ _ _ _ ht] at hw ⊢
    obtain ⟨hm, a, ha, hle⟩ := h4 t' c' k' hw hr'
    exact ⟨hm, a, ha, Nat.le_succ_of_le hle⟩
  · intro t' c' k' r' hw hr'
    have ht : t' ≠ t := by intro e; subst e; simp at hw
    simp only [upd_ne _ _ _ _ ht] at hw ⊢
    obtain ⟨τ, a, hm, ha, h1', h2'⟩ := h5 t' c' k' r' hw hr'
    exact ⟨τ, a, hm, ha, h1', Nat.le_succ_of_le h2'⟩
  · intro t' c' k' hf
    have ht : t' ≠ t := by intro e; subst e; simp at hf
    simp only [upd_ne _ _ _ _ ht] at hf ⊢
    obtain ⟨a, ha, hle⟩ := h6 t' c' k' hf
    exact ⟨a, ha, Nat.le_succ_of_le hle⟩
  · intro τ t' k' r' hm
    have hold := h7 τ t' k' r' hm
    by_cases ht : t' = t
    · subst ht
      simp only [upd_same]
      rw [hp] at hold
      rcases hold with h | ⟨c', hw, hr'⟩
      · cases h
      · cases hw; rw [hr] at hr'; cases hr'; exact Or.inl rfl
    · simpa only [upd_ne _ _ _ _ ht] using hold
  · intro c' t' hm hr'
    obtain ⟨k', hw⟩ := h8 c' t' hm hr'
    have ht : t' ≠ t := by
      intro e; subst e; rw [hp] at hw; cases hw; rw [hr] at hr'; cases hr'
    exact ⟨k', by simpa only [upd_ne _ _ _ _ ht] using hw⟩
  · intro e he; exact Nat.le_succ_of_le (h9 e he)

/-- SetMap / GetMap: the base changes only in `cache`/`maps`/ghost counters, one non-Get entry is appended -/
theorem linv_setMap (l : LSt) (m : K → Option V) (h : LInv l) (hq : ∀ k, l.base.calls k = none) : LInv (lstep l (.setMap m)) := by
  have hi := inv_step l.base (.setMap m) h.inv
  obtain ⟨h0, h1, h2, h3, h4, h5, h6, h7, h8, h9⟩ := h
  have nofetch : ∀ t c k, l.base.pcs t = .fetching c k → False := by
    intro t c k hf; have := h0.fetch_calls t c k hf; rw [hq k] at this; cases this
  simp only [step] at hi
  simp only [lstep, step]
  refine ⟨hi, ?_, ?_, ?_, ?_, ?_, ?_, ?_, h8, ?_⟩
  · simp only [List.map_append, List.map_cons, List.map_nil]
    exact h1.append (SpecRun.single SpecStep.set)
  · intro t c k hf; exact (nofetch t c k hf).elim
  · intro t k r hd
    obtain ⟨τ, a, b, hm, ha, hb, h1', h2'⟩ := h3 t k r hd
    exact ⟨τ, a, b, List.mem_append_left _ hm, ha, hb, h1', h2'⟩
  · intro t c k hw hr
    obtain ⟨hm, a, ha, hle⟩ := h4 t c k hw hr
    exact ⟨hm, a, ha, Nat.le_succ_of_le hle⟩
  · intro t c k r hw hr
    obtain ⟨τ, a, hm, ha, h1', h2'⟩ := h5 t c k r hw hr
    exact ⟨τ, a, List.mem_append_left _ hm, ha, h1', Nat.le_succ_of_le h2'⟩
  · intro t c k hf; exact (nofetch t c k hf).elim
  · intro τ t k r hm
    exact h7 τ t k r (mem_get_of_mem_nonget (by intro _ _ _ h; cases h) hm)
  · intro e he
    rcases List.mem_append.mp he with he | he
    · exact Nat.le_succ_of_le (h9 e he)
    · simp only [List.mem_singleton] at he; subst he; exact Nat.le_refl _

theorem linv_getMap (l : LSt) (h : LInv l) : LInv (lstep l .getMap) := by
  have hi := inv_step l.base .getMap h.inv
  obtain ⟨h0, h1, h2, h3, h4, h5, h6, h7, h8, h9⟩ := h
  simp only [step] at hi
  simp only [lstep, step]
  refine ⟨hi, ?_, h2, ?_, ?_, ?_, ?_, ?_, h8, ?_⟩
  · simp only [List.map_append, List.map_cons, List.map_nil]
    exact h1.append (SpecRun.single SpecStep.snap)
  · intro t k r hd
    obtain ⟨τ, a, b, hm, ha, hb, h1', h2'⟩ := h3 t k r hd
    exact ⟨τ, a, b, List.mem_append_left _ hm, ha, hb, h1', h2'⟩
  · intro t c k hw hr
    obtain ⟨hm, a, ha, hle⟩ := h4 t c k hw hr
    exact ⟨hm, a, ha, Nat.le_succ_of_le hle⟩
  · intro t c k r hw hr
    obtain ⟨τ, a, hm, ha, h1', h2'⟩ := h5 t c k r hw hr
    exact ⟨τ, a, List.mem_append_left _ hm, ha, h1', Nat.le_succ_of_le h2'⟩
  · intro t c k hf
    obtain ⟨a, ha, hle⟩ := h6 t c k hf
    exact ⟨a, ha, Nat.le_succ_of_le hle⟩
  · intro τ t k r hm
    exact h7 τ t k r (mem_get_of_mem_nonget (by intro _ _ _ h; cases h) hm)
  · intro e he
    rcases List.mem_append.mp he with he | he
    · exact Nat.le_succ_of_le (h9 e he)
    · simp only [List.mem_singleton] at he; subst he; exact Nat.le_refl _

theorem linv_step (l : LSt) (a : Act) (h : LInv l) (hok : stepOK l.base a) : LInv (lstep l a) := by
  cases a with
  | lookup t =>
    cases hp : l.base.pcs t with
    | start k =>
      cases hc : l.base.cache k with
      | some v => exact linv_hit l t k v h hp hc
      | none =>
        cases hcl : l.base.calls k with
        | some c => exact linv_wait l t k c h hp hc hcl
        | none => exact linv_miss l t k h hp hc hcl
    | _ =>
      have e : lstep l (.lookup t) = { l with now := l.now + 1 } := by simp [lstep, step, hp]
      rw [e]; exact linv_tick l h
  | publish t r =>
    cases hp : l.base.pcs t with
    | fetching c k => exact linv_publish l t r c k h hp
    | _ =>
      have e : lstep l (.publish t r) = { l with now := l.now + 1 } := by simp [lstep, step, hp]
      rw [e]; exact linv_tick l h
  | wake t =>
    cases hp : l.base.pcs t with
    | waiting c k =>
      cases hr : l.base.results c with
      | some r => exact linv_wake l t c k r h hp hr
      | none =>
        have e : lstep l (.wake t) = { l with now := l.now + 1 } := by simp [lstep, step, hp, hr]
        rw [e]; exact linv_tick l h
    | _ =>
      have e : lstep l (.wake t) = { l with now := l.now + 1 } := by simp [lstep, step, hp]
      rw [e]; exact linv_tick l h
  | setMap m => exact linv_setMap l m h hok
  | getMap => exact linv_getMap l h

theorem linv_init (keyOf) : LInv (linit keyOf) := by
  refine ⟨inv_init keyOf, SpecRun.nil, ?_, ?_, ?_, ?_, ?_, ?_, ?_, ?_⟩ <;> simp [linit, init]
  all_goals (intros; split at * <;> simp_all)

theorem linv_runFrom : ∀ (as : List Act) (l : LSt), LInv l → RunOK l.base as → LInv (lrunFrom l as)
  | [], l, h, _ => h
  | a :: as, l, h, hok => by
    have h' := linv_step l a h hok.1
    have := linv_runFrom as (lstep l a) h' (by rw [lstep_base]; exact hok.2)
    simpa [lrunFrom] using this

/-! ### order and uniqueness of the linearization -/

theorem mem_callers {lin : List (Nat × LinOp)} {t : Nat} : t ∈ callers lin ↔ ∃ τ k r, (τ, LinOp.get t k r) ∈ lin := by
  unfold callers
  rw [List.mem_filterMap]
  constructor
  · rintro ⟨⟨τ, op⟩, hm, hc⟩
    cases op with
    | get t' k r => simp only [LinOp.caller, Option.some.injEq] at hc; subst hc; exact ⟨τ, k, r, hm⟩
    | set m => cases hc
    | snap m => cases hc
  · rintro ⟨τ, k, r, hm⟩
    exact ⟨_, hm, rfl⟩

structure LInv2 (l : LSt) : Prop where
  sorted : l.lin.Pairwise (fun a b => a.1 ≤ b.1)
  nodup : (callers l.lin).Nodup
  wnodup : ∀ c, (l.waiters c).Nodup

theorem sorted_append (l : LSt) (h : LInv l) (h2 : LInv2 l) (new : List (Nat × LinOp)) (hn : ∀ e ∈ new, e.1 = l.now + 1) :
    (l.lin ++ new).Pairwise (fun a b => a.1 ≤ b.1) := by
  rw [List.pairwise_append]
  refine ⟨h2.sorted, ?_, ?_⟩
  · apply List.Pairwise.imp_of_mem (R := fun _ _ => True)
    · intro a b ha hb _; rw [hn a ha, hn b hb]; exact Nat.le_refl _
    · exact List.pairwise_of_forall (fun _ _ => trivial)
  · intro a ha b hb
    rw [hn b hb]; exact Nat.le_succ_of_le (h.lin_le a ha)

theorem not_linearized_of_start (l : LSt) (h : LInv l) (t : Nat) (k : K) (hp : l.base.pcs t = .start k) : t ∉ callers l.lin := by
  intro hm
  obtain ⟨τ, k', r, hm⟩ := mem_callers.mp hm
  rcases h.lin_real τ t k' r hm with h' | ⟨c, h', _⟩ <;> rw [hp] at h' <;> cases h'

theorem linv2_step (l : LSt) (a : Act) (h : LInv l) (h2 : LInv2 l) : LInv2 (lstep l a) := by
  cases a with
  | lookup t =>
    cases hp : l.base.pcs t with
    | start k =>
      cases hc : l.base.cache k with
      | some v =>
        simp only [lstep, hp, hc]
        refine ⟨sorted_append l h h2 _ (by simp), ?_, h2.wnodup⟩
        simp only [callers, List.filterMap_append, List.filterMap_cons, List.filterMap_nil, LinOp.caller]
        rw [List.nodup_append]
        refine ⟨h2.nodup, by simp, ?_⟩
        intro a ha b hb
        simp only [List.mem_singleton] at hb; subst hb
        intro e; subst e
        exact not_linearized_of_start l h a k hp ha
      | none =>
        cases hcl : l.base.calls k with
        | some c =>
          simp only [lstep, hp, hc, hcl]
          refine ⟨h2.sorted, h2.nodup, ?_⟩
          intro c'
          simp only [upd]; split
          · rename_i hc'; subst hc'
            rw [List.nodup_append]
            refine ⟨h2.wnodup c', by simp, ?_⟩
            intro a ha b hb
            simp only [List.mem_singleton] at hb; subst hb
            intro e; subst e
            have hres : l.base.results c' = none := by
              obtain ⟨t0, ht0⟩ := h.inv.calls_owner k c' hcl
              exact h.inv.fetch_nores t0 c' k ht0
            obtain ⟨k', hw⟩ := h.waiters_real c' a ha hres
            rw [hp] at hw; cases hw
          · exact h2.wnodup c'
        | none =>
          simp only [lstep, hp, hc, hcl]
          exact ⟨h2.sorted, h2.nodup, h2.wnodup⟩
    | _ => simp only [lstep, hp]; exact ⟨h2.sorted, h2.nodup, h2.wnodup⟩
  | publish t r =>
    cases hp : l.base.pcs t with
    | fetching c k =>
      simp only [lstep, hp]
      have hres : l.base.results c = none := h.inv.fetch_nores t c k hp
      have notlin : ∀ w, (w = t ∨ w ∈ l.waiters c) → w ∉ callers l.lin := by
        intro w hw hm
        obtain ⟨τ, k', r', hm⟩ := mem_callers.mp hm
        have hreal := h.lin_real τ w k' r' hm
        rcases hw with rfl | hw
        · rcases hreal with h' | ⟨c', h', _⟩ <;> rw [hp] at h' <;> cases h'
        · obtain ⟨k'', hwait⟩ := h.waiters_real c w hw hres
          rcases hreal with h' | ⟨c', h', hr'⟩
          · rw [hwait] at h'; cases h'
          · rw [hwait] at h'; cases h'; rw [hres] at hr'; cases hr'
      refine ⟨sorted_append l h h2 _ ?_, ?_, h2.wnodup⟩
      · intro e he
        rcases List.mem_cons.mp he with rfl | he
        · rfl
        · obtain ⟨w, _, rfl⟩ := List.mem_map.mp he; rfl
      · have hc : callers ((l.now + 1, LinOp.get t k r) :: (l.waiters c).map (fun w => (l.now + 1, LinOp.get w k r))) = t :: l.waiters c := by
          simp only [callers, List.filterMap_cons, LinOp.caller]
          congr 1
          induction l.waiters c with
          | nil => rfl
          | cons w ws ih => simp only [List.map_cons, List.filterMap_cons, LinOp.caller, ih]
        have : callers (l.lin ++ (l.now + 1, LinOp.get t k r) :: (l.waiters c).map (fun w => (l.now + 1, LinOp.get w k r))) = callers l.lin ++ (t :: l.waiters c) := by
          rw [← hc]; simp only [callers, List.filterMap_append]
        rw [this, List.nodup_append]
        refine ⟨h2.nodup, ?_, ?_⟩
        · rw [List.nodup_cons]
          refine ⟨?_, h2.wnodup c⟩
          intro hm
          obtain ⟨k', hw⟩ := h.waiters_real c t hm hres
          rw [hp] at hw; cases hw
        · intro a ha b hb e; subst e
          exact notlin a (List.mem_cons.mp hb) ha
    | _ => simp only [lstep, hp]; exact ⟨h2.sorted, h2.nodup, h2.wnodup⟩
  | wake t =>
    cases hp : l.base.pcs t with
    | waiting c k =>
      cases hr : l.base.results c <;> simp only [lstep, hp, hr] <;> exact ⟨h2.sorted, h2.nodup, h2.wnodup⟩
    | _ => simp only [lstep, hp]; exact ⟨h2.sorted, h2.nodup, h2.wnodup⟩
  | setMap m =>
    simp only [lstep]
    refine ⟨sorted_append l h h2 _ (by simp), ?_, h2.wnodup⟩
    simp only [callers, List.filterMap_append, List.filterMap_cons, List.filterMap_nil, LinOp.caller, List.append_nil]
    exact h2.nodup
  | getMap =>
    simp only [lstep]
    refine ⟨sorted_append l h h2 _ (by simp), ?_, h2.wnodup⟩
    simp only [callers, List.filterMap_append, List.filterMap_cons, List.filterMap_nil, LinOp.caller, List.append_nil]
    exact h2.nodup

theorem linv2_runFrom : ∀ (as : List Act) (l : LSt), LInv l → LInv2 l → RunOK l.base as → LInv2 (lrunFrom l as)
  | [], l, _, h2, _ => h2
  | a :: as, l, h, h2, hok => by
    have h' := linv_step l a h hok.1
    have h2' := linv2_step l a h h2
    have := linv2_runFrom as (lstep l a) h' h2' (by rw [lstep_base]; exact hok.2)
    simpa [lrunFrom] using this

theorem linv2_init (keyOf) : LInv2 (linit keyOf) := ⟨List.Pairwise.nil, by simp [linit, callers], by simp [linit]⟩


/-! ### the SetMap / GetMap entries of the linearization are the executed calls -/

theorem filterMap_gets_nil (f : LinOp → Option (K → Option V)) (hf : ∀ t k r, f (.get t k r) = none) (τ : Nat) (k : K) (r : R) :
    ∀ ws : List Nat, (ws.map (fun w => (τ, LinOp.get w k r))).filterMap (fun e => f e.2) = []
  | [] => rfl
  | w :: ws => by simp [List.filterMap_cons, hf, filterMap_gets_nil f hf τ k r ws]

/-- one step: what is appended to `lin`, projected to its SetMap resp. GetMap entries -/
theorem lstep_lin_proj (f : LinOp → Option (K → Option V)) (hf : ∀ t k r, f (.get t k r) = none) (l : LSt) (a : Act) :
    (lstep l a).lin.filterMap (fun e => f e.2) = l.lin.filterMap (fun e => f e.2) ++
      (match a with
       | .setMap m => (f (.set m)).toList
       | .getMap => (f (.snap l.base.cache)).toList
       | _ => []) := by
  cases a with
  | lookup t =>
    simp only [lstep]
    cases hp : l.base.pcs t <;> simp only [List.append_nil]
    rename_i k
    cases hc : l.base.cache k <;> simp only []
    · cases hcl : l.base.calls k <;> simp
    · simp [List.filterMap_append, hf]
  | publish t r =>
    simp only [lstep]
    cases hp : l.base.pcs t <;> simp only [List.append_nil]
    rename_i c k
    simp [List.filterMap_append, List.filterMap_cons, hf, filterMap_gets_nil f hf]
  | wake t =>
    simp only [lstep]
    cases hp : l.base.pcs t <;> simp only [List.append_nil]
    rename_i c k
    cases hr : l.base.results c <;> simp
  | setMap m => simp [lstep, List.filterMap_append]; cases h : f (.set m) <;> simp [List.filterMap_cons, h]
  | getMap => simp [lstep, List.filterMap_append]; cases h : f (.snap l.base.cache) <;> simp [List.filterMap_cons, h]

theorem step_maps (s : St) (a : Act) : (step s a).maps = (match a with | .getMap => s.cache :: s.maps | _ => s.maps) := by
  cases a with
  | lookup t =>
    simp only [step]
    cases hp : s.pcs t <;> simp only []
    rename_i k
    cases hc : s.cache k <;> simp only []
    cases hcl : s.calls k <;> rfl
  | publish t r => simp only [step]; cases hp : s.pcs t <;> rfl
  | wake t =>
    simp only [step]
    cases hp : s.pcs t <;> simp only []
    rename_i c k
    cases hr : s.results c <;> rfl
  | setMap m => rfl
  | getMap => rfl

/-- the `snap` entries of the linearization are, in order, exactly what the executed GetMap calls returned (`base.maps`, newest
    first), and the `set` entries are exactly the maps of the executed SetMap actions, in order -/
theorem lin_snaps_sets : ∀ (as : List Act) (l : LSt),
    l.lin.filterMap (fun e => e.2.snapOf) = l.base.maps.reverse →
    (lrunFrom l as).lin.filterMap (fun e => e.2.snapOf) = (lrunFrom l as).base.maps.reverse ∧
    (lrunFrom l as).lin.filterMap (fun e => e.2.setOf) = l.lin.filterMap (fun e => e.2.setOf) ++ as.filterMap Act.setOf
  | [], l, h => ⟨h, by simp [lrunFrom]⟩
  | a :: as, l, h => by
    have h1 : (lstep l a).lin.filterMap (fun e => e.2.snapOf) = (lstep l a).base.maps.reverse := by
      rw [lstep_lin_proj LinOp.snapOf (fun _ _ _ => rfl), lstep_base, step_maps, h]
      cases a <;> simp [LinOp.snapOf]
    obtain ⟨i1, i2⟩ := lin_snaps_sets as (lstep l a) h1
    refine ⟨by simpa [lrunFrom] using i1, ?_⟩
    have : (lrunFrom l (a :: as)) = lrunFrom (lstep l a) as := by simp [lrunFrom]
    rw [this, i2, lstep_lin_proj LinOp.setOf (fun _ _ _ => rfl)]
    cases a <;> simp [LinOp.setOf, Act.setOf, List.filterMap_cons]

end Scalibr.Cache
