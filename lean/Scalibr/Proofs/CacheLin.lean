/-
C16(b): the ghost linearization of Model/CacheLin.lean is a legal sequential history of the map-with-fetch-on-miss
specification, contains every completed call with the result it really returned, at a time inside the call's interval.
-/
import Scalibr.Model.CacheLin
import Scalibr.Proofs.Cache
namespace Scalibr.Cache

theorem SpecRun.append {m m' m'' : K → Option V} {xs ys : List LinOp} (h1 : SpecRun m xs m') (h2 : SpecRun m' ys m'') :
    SpecRun m (xs ++ ys) m'' := by
  induction h1 with
  | nil => exact h2
  | cons hs _ ih => exact SpecRun.cons hs (ih h2)

theorem SpecRun.single {m m' : K → Option V} {op : LinOp} (h : SpecStep m op m') : SpecRun m [op] m' :=
  SpecRun.cons h SpecRun.nil

/-- after a successful publish every waiter of the call is a cache hit -/
theorem specRun_hits (m : K → Option V) (k : K) (v : V) (hm : m k = some v) (τ : Nat) :
    ∀ ws : List Nat, SpecRun m ((ws.map (fun w => (τ, LinOp.get w k (.ok v)))).map (·.2)) m
  | [] => SpecRun.nil
  | w :: ws => SpecRun.cons (SpecStep.hit hm) (specRun_hits m k v hm τ ws)

/-- after a failed publish every waiter of the call shares the error (the key is still absent) -/
theorem specRun_errs (m : K → Option V) (k : K) (hm : m k = none) (τ : Nat) :
    ∀ ws : List Nat, SpecRun m ((ws.map (fun w => (τ, LinOp.get w k .err))).map (·.2)) m
  | [] => SpecRun.nil
  | w :: ws => SpecRun.cons (SpecStep.missErr hm) (specRun_errs m k hm τ ws)

theorem lstep_base (l : LSt) (a : Act) : (lstep l a).base = step l.base a := by
  unfold lstep
  cases a with
  | lookup t =>
    simp only []
    cases hp : l.base.pcs t <;> simp only [] <;> try rfl
    rename_i k
    cases hc : l.base.cache k <;> simp only [] <;> try rfl
    cases hcl : l.base.calls k <;> rfl
  | publish t r =>
    simp only []
    cases hp : l.base.pcs t <;> rfl
  | wake t =>
    simp only []
    cases hp : l.base.pcs t <;> simp only [] <;> try rfl
    rename_i c k
    cases hr : l.base.results c <;> rfl
  | setMap m => rfl
  | getMap => rfl

theorem lrunFrom_base (l : LSt) (as : List Act) : (lrunFrom l as).base = runFrom l.base as := by
  unfold lrunFrom runFrom
  induction as generalizing l with
  | nil => rfl
  | cons a as ih => simp only [List.foldl_cons]; rw [ih, lstep_base]

/-- the instrumented run is the run of Model/Cache.lean -/
theorem lrun_base (keyOf) (as : List Act) : (lrun keyOf as).base = run keyOf as := lrunFrom_base _ as

end Scalibr.Cache
