/-
Helper lemmas for C15: what the importers make of the entries the exporters produce.
-/
import Scalibr.Spec.Sbom
namespace Scalibr.Sbom

variable {Purl : Type}

theorem purlsOf_nil : purlsOf ([] : List (ImpPkg Purl)) = [] := rfl

theorem purlsOf_filterMap {α : Type} (f : α → Option (ImpPkg Purl)) (l : List α) :
    purlsOf (l.filterMap f) = l.filterMap fun x => (f x).bind (·.purl) := by
  unfold purlsOf
  rw [List.filterMap_filterMap]

/-! ### SPDX -/

/-- the "main" package ToSPDX23 prepends has no external reference and is skipped by the importer -/
theorem convert_main (ops : PurlOps Purl) (path : String) (m : SpdxPackage) (h : m.extRefs = []) :
    convertSpdxPackage ops path m = none := by
  simp [convertSpdxPackage, h]

/-- an entry carrying exactly one `purl` reference is kept iff the locator parses, with the parsed purl -/
theorem convert_entry (ops : PurlOps Purl) (path : String) (e : SpdxPackage) (cat loc : String)
    (h : e.extRefs = [{ category := cat, refType := "purl", locator := loc }]) :
    (convertSpdxPackage ops path e).bind (·.purl) = ops.parse loc := by
  have h1 : ¬ ("purl" = "cpe23Type" ∨ "purl" = "http://spdx.org/rdf/references/cpe23Type") := by decide
  simp only [convertSpdxPackage, h, List.foldl, refStep, if_neg h1, true_or, if_true]
  cases hp : ops.parse loc <;> simp

theorem exportedSpdx_none (ops : PurlOps Purl) (p : Pkg Purl) (h : p.purl = none) : exportedSpdx ops p = false := by
  simp [exportedSpdx, h]

theorem exportedSpdx_some (ops : PurlOps Purl) (p : Pkg Purl) (u : Purl) (h : p.purl = some u) :
    exportedSpdx ops p = (ops.name u ≠ "" && ops.version u ≠ "") := by
  simp [exportedSpdx, h]

/-- the loop of ToSPDX23 followed by the importer's loop: exactly the specification, in order -/
theorem spdx_loop_import (ops : PurlOps Purl) (env : Env) (mainId path : String) (inv : List (Pkg Purl)) (k : Nat) :
    purlsOf ((spdxLoop ops env mainId k inv).1.filterMap (convertSpdxPackage ops path)) = specSpdx ops inv := by
  rw [purlsOf_filterMap]
  induction inv generalizing k with
  | nil => simp [spdxLoop, specSpdx, specPurls]
  | cons pkg rest ih =>
    unfold spdxLoop
    cases hp : pkg.purl with
    | none =>
      simp only []
      rw [ih k]
      simp [specSpdx, specPurls, exportedSpdx_none ops pkg hp]
    | some u =>
      simp only []
      by_cases hne : ops.name u = "" ∨ ops.version u = ""
      · rw [if_pos hne, ih k]
        have : exportedSpdx ops pkg = false := by
          rw [exportedSpdx_some ops pkg u hp]
          rcases hne with h | h <;> simp [h]
        simp [specSpdx, specPurls, this]
      · rw [if_neg hne]
        have hex : exportedSpdx ops pkg = true := by
          rw [exportedSpdx_some ops pkg u hp]
          have h1 : ops.name u ≠ "" := fun h => hne (Or.inl h)
          have h2 : ops.version u ≠ "" := fun h => hne (Or.inr h)
          simp [h1, h2]
        simp only [List.filterMap_cons]
        rw [convert_entry ops path _ "PACKAGE-MANAGER" (ops.str u) rfl, ih (k + 1)]
        simp only [specSpdx, specPurls, List.filter_cons, hex, if_true, List.filterMap_cons, hp, Option.bind_some, normP]

/-- document level -/
theorem spdx_doc_import (ops : PurlOps Purl) (env : Env) (cfg : SPDXConfig) (path : String) (inv : List (Pkg Purl)) :
    purlsOf (convertSpdxDocToPackage ops (toSpdx ops env cfg inv) path) = specSpdx ops inv := by
  unfold convertSpdxDocToPackage toSpdx
  simp only [List.filterMap_cons]
  rw [convert_main ops path _ rfl]
  exact spdx_loop_import ops env _ path inv 1

/-! ### CycloneDX -/

theorem enumerate_cons (ops : PurlOps Purl) (c : Component) (cs : List Component) :
    enumerateComponents ops (c :: cs) = enumerateComponent ops c ++ enumerateComponents ops cs := by
  rw [enumerateComponents]

theorem enumerate_leaf (ops : PurlOps Purl) (r t n v p c : String) (o : List String) :
    enumerateComponent ops (.mk r t n v p c o []) = (convertComponentToInventory ops (.mk r t n v p c o [])).toList := by
  rw [enumerateComponent, enumerateComponents]; simp

/-- the purl of what the importer makes of one component -/
theorem convert_component_purl (ops : PurlOps Purl) (c : Component) (hempty : ops.parse "" = none) :
    (convertComponentToInventory ops c).bind (·.purl) = ops.parse c.purl := by
  unfold convertComponentToInventory
  by_cases hp : c.purl = ""
  · simp [hp, hempty]
  · simp only [ne_eq, hp, not_false_eq_true, if_true]
    cases hq : ops.parse c.purl with
    | none => simp
    | some u => simp

theorem purlsOf_append (a b : List (ImpPkg Purl)) : purlsOf (a ++ b) = purlsOf a ++ purlsOf b := by
  simp [purlsOf, List.filterMap_append]

theorem purlsOf_toList (o : Option (ImpPkg Purl)) : purlsOf o.toList = (o.bind (·.purl)).toList := by
  cases o with
  | none => rfl
  | some x => cases h : x.purl <;> simp [purlsOf, h]

theorem purlsOf_relocate (path : String) (l : List (ImpPkg Purl)) :
    purlsOf (l.map fun p => { p with locations := [path] }) = purlsOf l := by
  simp [purlsOf, List.filterMap_map, Function.comp_def]

theorem cdx_loop_import (ops : PurlOps Purl) (env : Env) (hempty : ops.parse "" = none) (inv : List (Pkg Purl)) (k : Nat) :
    purlsOf (enumerateComponents ops (cdxLoop ops env k inv)) = specCdx ops inv := by
  induction inv generalizing k with
  | nil => simp [cdxLoop, enumerateComponents, specCdx, specPurls, purlsOf]
  | cons pkg rest ih =>
    unfold cdxLoop
    rw [enumerate_cons, purlsOf_append, ih (k + 1)]
    unfold cdxComponent
    rw [enumerate_leaf, purlsOf_toList, convert_component_purl ops _ hempty]
    simp only [Component.purl]
    cases hp : pkg.purl with
    | none => simp [hempty, specCdx, specPurls, exportedCdx, hasPurl, hp]
    | some u =>
      have he : exportedCdx pkg = true := by simp [exportedCdx, hasPurl, hp]
      simp only [specCdx, specPurls, List.filter_cons, he, if_true, List.filterMap_cons, hp, Option.bind_some, normP]
      cases ops.parse (ops.str u) <;> simp

theorem cdx_doc_import (ops : PurlOps Purl) (env : Env) (cfg : CDXConfig) (path : String)
    (hempty : ops.parse "" = none) (inv : List (Pkg Purl)) :
    purlsOf (convertCdxBomToPackage ops (toCdx ops env cfg inv) path) = specCdx ops inv := by
  unfold convertCdxBomToPackage toCdx
  simp only []
  rw [purlsOf_relocate]
  exact cdx_loop_import ops env hempty inv 1

/-! ### from the general specification to the `norm` form -/

theorem specPurls_eq_specNorm (ops : PurlOps Purl) (norm : Purl → Purl) (exported : Pkg Purl → Bool)
    (inv : List (Pkg Purl)) (h : ParsesBack ops norm inv) :
    specPurls ops exported inv = specNorm norm exported inv := by
  unfold specPurls specNorm
  induction inv with
  | nil => rfl
  | cons p rest ih =>
    have hrest : ParsesBack ops norm rest := fun q hq u hu => h q (List.mem_cons_of_mem _ hq) u hu
    have ih := ih hrest
    simp only [List.filter_cons]
    split
    · simp only [List.filterMap_cons]
      cases hp : p.purl with
      | none => simpa using ih
      | some u =>
        have := h p (List.mem_cons_self ..) u hp
        simp only [Option.bind_some, normP, this, List.map_cons, ih]
    · exact ih

/-- with a total normalisation nothing is lost -/
theorem lostOf_zero (ops : PurlOps Purl) (norm : Purl → Purl) (exported : Pkg Purl → Bool)
    (inv : List (Pkg Purl)) (h : ParsesBack ops norm inv) : lostOf ops exported inv = 0 := by
  unfold lostOf
  rw [List.length_eq_zero_iff, List.filter_eq_nil_iff]
  intro p hp
  have hm : p ∈ inv := (List.mem_filter.mp hp).1
  cases hu : p.purl with
  | none => simp
  | some u => simp [normP, h p hm u hu]

/-! ### file-name dispatch -/

theorem spdx_dispatch (f : SpdxFormat) (hf : f ≠ .rdf) : findSpdxExtractor (spdxFileName f) = some f := by
  cases f <;> first | exact absurd rfl hf | decide

theorem cdx_dispatch (f : CdxFormat) : findCdxExtractor (cdxFileName f) = some f := by
  cases f <;> decide

end Scalibr.Sbom
