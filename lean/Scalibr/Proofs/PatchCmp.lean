/-
C16(a) helper lemmas: three-way comparators (`cmp(a,b) int`, the shape `slices.SortFunc` takes), their
lexicographic composition `if c := c1(a,b); c != 0 { return c }; return c2(a,b)`, and `Patch.Compare`
as such a composition.  `Cmp3 E c` states the two laws that make `c(a,b) < 0` a strict weak order
(asymmetry in the strong sign-flipping form, and transitivity of "not less") for the elements related
by `E` — the relation is needed because steps 4 and 5 of `Patch.Compare` only make sense between
patches with the same number of updates, and step 1 only between patches with at least one update.
-/
import Scalibr.Model.Worklist
namespace Scalibr.Worklist

structure Cmp3 {α} (E : α → α → Prop) (c : α → α → Int) : Prop where
  symm : ∀ a b, E a b → E b a
  flip : ∀ a b, E a b → (c a b < 0 ↔ 0 < c b a) ∧ (c b a < 0 ↔ 0 < c a b)
  negTrans : ∀ a b d, E a b → E b d → E a d → ¬ c b a < 0 → ¬ c d b < 0 → ¬ c d a < 0

/-- `if c := c1(a,b); c != 0 { return c }; return c2(a,b)` -/
def thenCmp {α} (c1 c2 : α → α → Int) (a b : α) : Int := if c1 a b ≠ 0 then c1 a b else c2 a b

theorem Cmp3.mono {α} {E E' : α → α → Prop} {c : α → α → Int} (h : Cmp3 E c) (hs : ∀ a b, E' a b → E' b a)
    (hE : ∀ a b, E' a b → E a b) : Cmp3 E' c :=
  ⟨hs, fun a b e => h.flip a b (hE _ _ e), fun a b d e1 e2 e3 => h.negTrans a b d (hE _ _ e1) (hE _ _ e2) (hE _ _ e3)⟩

theorem Cmp3.pullback {α β} {E : β → β → Prop} {c : β → β → Int} (h : Cmp3 E c) (f : α → β) :
    Cmp3 (fun a b => E (f a) (f b)) (fun a b => c (f a) (f b)) :=
  ⟨fun a b e => h.symm _ _ e, fun a b e => h.flip _ _ e, fun a b d e1 e2 e3 => h.negTrans _ _ _ e1 e2 e3⟩

/-- two comparators that agree (in both argument orders) on `E`-related elements -/
theorem Cmp3.congr {α} {E : α → α → Prop} {c c' : α → α → Int} (h : Cmp3 E c)
    (hc : ∀ a b, E a b → c' a b = c a b ∧ c' b a = c b a) : Cmp3 E c' := by
  refine ⟨h.symm, ?_, ?_⟩
  · intro a b e
    rw [(hc a b e).1, (hc a b e).2]; exact h.flip a b e
  · intro a b d e1 e2 e3
    rw [(hc a b e1).2, (hc b d e2).2, (hc a d e3).2]; exact h.negTrans a b d e1 e2 e3

/-- lexicographic composition: `c2` only has to behave among elements that `c1` cannot separate -/
theorem Cmp3.then {α} {E : α → α → Prop} {c1 c2 : α → α → Int} (h1 : Cmp3 E c1)
    (h2 : Cmp3 (fun a b => E a b ∧ c1 a b = 0) c2) : Cmp3 E (thenCmp c1 c2) := by
  refine ⟨h1.symm, ?_, ?_⟩
  · intro a b e
    have f1 := h1.flip a b e
    unfold thenCmp
    by_cases hz : c1 a b = 0
    · have hz' : c1 b a = 0 := by omega
      have f2 := h2.flip a b ⟨e, hz⟩
      simp only [hz, hz', ne_eq, not_true_eq_false, if_false]
      exact f2
    · have hz' : c1 b a ≠ 0 := by omega
      simp only [ne_eq, hz, hz', not_false_eq_true, if_true]
      exact f1
  · intro a b d e1 e2 e3 hba hdb hda
    have fab := h1.flip a b e1
    have fbd := h1.flip b d e2
    have fad := h1.flip a d e3
    have n1 := h1.negTrans a b d e1 e2 e3
    unfold thenCmp at hba hdb hda
    -- c1 cannot order d before a
    have hda1 : ¬ c1 d a < 0 := by
      apply n1
      · split at hba <;> omega
      · split at hdb <;> omega
    have hda0 : c1 d a = 0 := by split at hda <;> omega
    have had0 : c1 a d = 0 := by omega
    -- hence all three are c1-equal
    have hba0 : c1 b a = 0 := by
      by_cases h : c1 b a = 0
      · exact h
      · exfalso
        have hpos : 0 < c1 b a := by split at hba <;> omega
        have hab : c1 a b < 0 := by omega
        have hdb1 : ¬ c1 d b < 0 := by split at hdb <;> omega
        exact absurd hab (h1.negTrans b d a e2 (h1.symm _ _ e3) (h1.symm _ _ e1) hdb1 (by omega))
    have hab0 : c1 a b = 0 := by omega
    have hdb0 : c1 d b = 0 := by
      by_cases h : c1 d b = 0
      · exact h
      · exfalso
        have hpos : 0 < c1 d b := by split at hdb <;> omega
        have hbd : c1 b d < 0 := by omega
        exact absurd hbd (h1.negTrans d a b (h1.symm _ _ e3) e1 (h1.symm _ _ e2) (by omega) (by omega))
    have hbd0 : c1 b d = 0 := by omega
    have n2 := h2.negTrans a b d ⟨e1, hab0⟩ ⟨e2, hbd0⟩ ⟨e3, had0⟩
    simp only [hba0, hdb0, hda0, ne_eq, not_true_eq_false, if_false] at hba hdb hda
    exact n2 hba hdb hda

/-! ### base comparators -/

theorem cmp3_key {α} (key : α → Int) : Cmp3 (fun _ _ => True) (fun a b => cmpInt (key a) (key b)) := by
  refine ⟨fun _ _ _ => trivial, ?_, ?_⟩
  · intro a b _; unfold cmpInt; constructor <;> (split <;> split <;> omega)
  · intro a b d _ _ _; unfold cmpInt; intro h1 h2; split at h1 <;> split at h2 <;> split <;> omega

theorem cmp3_key_desc {α} (key : α → Int) : Cmp3 (fun _ _ => True) (fun a b => -(cmpInt (key a) (key b))) := by
  refine ⟨fun _ _ _ => trivial, ?_, ?_⟩
  · intro a b _; unfold cmpInt; constructor <;> (split <;> split <;> omega)
  · intro a b d _ _ _; unfold cmpInt; intro h1 h2
    split at h1 <;> split at h2 <;> split <;> (try split at h1) <;> (try split at h2) <;> (try split) <;> omega

/-- a strict total Boolean order read as a three-way comparator (`cmp.Compare` on strings) -/
theorem cmp3_of_lt {α} {lt : α → α → Bool} (h : StrictTotal lt) :
    Cmp3 (fun _ _ => True) (fun a b => if lt a b then (-1 : Int) else if lt b a then 1 else 0) := by
  refine ⟨fun _ _ _ => trivial, ?_, ?_⟩
  · intro a b _
    cases hab : lt a b <;> cases hba : lt b a <;> simp
    have := h.asymm a b hab; rw [hba] at this; cases this
  · intro a b d _ _ _ h1 h2
    have hba : lt b a = false := by
      cases hh : lt b a with
      | false => rfl
      | true => simp [hh] at h1
    have hdb : lt d b = false := by
      cases hh : lt d b with
      | false => rfl
      | true => simp [hh] at h2
    have := h.negTrans a b d hba hdb
    simp [this]
    split <;> omega

theorem cmp3_cmpStr : Cmp3 (fun _ _ => True) cmpStr := cmp3_of_lt ltBytes_strictTotal

/-! ### `zipCmp` on lists of the same length -/

def headCmp {β} (c : β → β → Int) : List β → List β → Int
  | x :: _, y :: _ => c x y
  | _, _ => 0

theorem zipCmp_nil_right {β} (c : β → β → Int) (a : List β) : zipCmp c a [] = 0 := by
  cases a <;> rfl

theorem zipCmp_eq_then {β} (c : β → β → Int) (a b : List β) :
    zipCmp c a b = thenCmp (headCmp c) (fun a b => zipCmp c a.tail b.tail) a b := by
  cases a with
  | nil => simp [zipCmp, thenCmp, headCmp]
  | cons x xs =>
    cases b with
    | nil => simp [zipCmp, thenCmp, headCmp, zipCmp_nil_right]
    | cons y ys =>
      simp only [zipCmp, thenCmp, headCmp, List.tail_cons]
      by_cases h : c x y = 0 <;> simp [h]

/-- lists of length `n` whose elements satisfy `P` -/
def LenP {β} (P : β → Prop) (n : Nat) (a : List β) : Prop := a.length = n ∧ ∀ x ∈ a, P x

theorem zipCmp_cmp3_n {β} (P : β → Prop) (c : β → β → Int) (hc : Cmp3 (fun x y => P x ∧ P y) c) :
    ∀ n, Cmp3 (fun a b => LenP P n a ∧ LenP P n b) (zipCmp c)
  | 0 => by
    refine ⟨fun _ _ h => ⟨h.2, h.1⟩, ?_, ?_⟩
    · intro a b h
      have ha : a = [] := List.length_eq_zero_iff.mp h.1.1
      subst ha; simp [zipCmp, zipCmp_nil_right]
    · intro a b d h1 h2 h3
      have ha : a = [] := List.length_eq_zero_iff.mp h1.1.1
      subst ha; simp [zipCmp_nil_right]
  | n+1 => by
    have ih := zipCmp_cmp3_n P c hc n
    have hhead : Cmp3 (fun a b => LenP P (n+1) a ∧ LenP P (n+1) b) (headCmp c) := by
      refine ⟨fun _ _ h => ⟨h.2, h.1⟩, ?_, ?_⟩
      · intro a b h
        cases a with
        | nil => simp [LenP] at h
        | cons x xs =>
          cases b with
          | nil => simp [LenP] at h
          | cons y ys =>
            exact hc.flip x y ⟨h.1.2 x (by simp), h.2.2 y (by simp)⟩
      · intro a b d h1 h2 h3
        cases a with
        | nil => simp [LenP] at h1
        | cons x xs =>
          cases b with
          | nil => simp [LenP] at h2
          | cons y ys =>
            cases d with
            | nil => simp [LenP] at h3
            | cons z zs =>
              exact hc.negTrans x y z ⟨h1.1.2 x (by simp), h1.2.2 y (by simp)⟩ ⟨h2.1.2 y (by simp), h2.2.2 z (by simp)⟩
                ⟨h3.1.2 x (by simp), h3.2.2 z (by simp)⟩
    have htail : Cmp3 (fun a b => (LenP P (n+1) a ∧ LenP P (n+1) b) ∧ headCmp c a b = 0)
        (fun a b => zipCmp c a.tail b.tail) := by
      have := ih.pullback (List.tail)
      refine this.mono (fun a b h => ⟨⟨h.1.2, h.1.1⟩, ?_⟩) ?_
      · -- symmetry of `headCmp = 0` among related lists
        have f := hhead.flip a b h.1
        omega
      · intro a b h
        have tl : ∀ l : List β, LenP P (n+1) l → LenP P n l.tail := by
          intro l hl
          cases l with
          | nil => simp [LenP] at hl
          | cons x xs =>
            refine ⟨by simpa [LenP] using hl.1, fun y hy => hl.2 y (by simp [List.tail] at hy; simp [hy])⟩
        exact ⟨tl a h.1.1, tl b h.1.2⟩
    exact (hhead.then htail).congr (fun a b _ => ⟨zipCmp_eq_then c a b, zipCmp_eq_then c b a⟩)

/-- `zipCmp c` is a three-way comparator among lists of one length -/
theorem zipCmp_cmp3 {β} (P : β → Prop) (c : β → β → Int) (hc : Cmp3 (fun x y => P x ∧ P y) c) :
    Cmp3 (fun a b : List β => a.length = b.length ∧ (∀ x ∈ a, P x) ∧ (∀ x ∈ b, P x)) (zipCmp c) := by
  refine ⟨fun a b h => ⟨h.1.symm, h.2.2, h.2.1⟩, ?_, ?_⟩
  · intro a b h
    exact (zipCmp_cmp3_n P c hc a.length).flip a b ⟨⟨rfl, h.2.1⟩, ⟨h.1.symm, h.2.2⟩⟩
  · intro a b d h1 h2 h3
    exact (zipCmp_cmp3_n P c hc a.length).negTrans a b d ⟨⟨rfl, h1.2.1⟩, ⟨h1.1.symm, h1.2.2⟩⟩
      ⟨⟨h1.1.symm, h2.2.1⟩, ⟨h3.1.symm, h2.2.2⟩⟩ ⟨⟨rfl, h3.2.1⟩, ⟨h3.1.symm, h3.2.2⟩⟩

/-! ### `Patch.Compare` -/

def ratioC (a b : Patch) : Int := -(cmpInt (ratio a * nupd b) (ratio b * nupd a))
def fixedC (a b : Patch) : Int := -(cmpInt a.fixed.length b.fixed.length)
def lenC (a b : Patch) : Int := cmpInt (nupd a) (nupd b)
def namesC (a b : Patch) : Int := zipCmp (fun x y => cmpStr x.name y.name) a.updates b.updates
def versC (vc : Str → Str → Int) (a b : Patch) : Int := zipCmp (fun x y => vc x.vto y.vto) a.updates b.updates
def tieC (a b : Patch) : Int := zipCmp tieUpd a.updates b.updates
def fixIdC (a b : Patch) : Int := cmpList cmpStr a.fixed b.fixed
def introIdC (a b : Patch) : Int := cmpList cmpStr a.introduced b.introduced

theorem cmpList_eq_zipCmp {β} (c : β → β → Int) : ∀ (as bs : List β), as.length = bs.length → cmpList c as bs = zipCmp c as bs
  | [], [], _ => rfl
  | [], _ :: _, h => by simp at h
  | _ :: _, [], h => by simp at h
  | a :: as, b :: bs, h => by
    simp only [cmpList, zipCmp]
    rw [cmpList_eq_zipCmp c as bs (by simpa using h)]

theorem cmpList_eq_zero {β} (c : β → β → Int) (hc : ∀ x y, c x y = 0 → x = y) : ∀ (as bs : List β), cmpList c as bs = 0 → as = bs
  | [], [], _ => rfl
  | [], _ :: _, h => by simp [cmpList] at h
  | _ :: _, [], h => by simp [cmpList] at h
  | a :: as, b :: bs, h => by
    simp only [cmpList] at h
    split at h
    · rename_i hne; exact absurd h hne
    · rename_i he
      have e1 : a = b := hc a b (by simpa using he)
      rw [e1, cmpList_eq_zero c hc as bs h]

theorem cmpStr_eq_zero (x y : Str) (h : cmpStr x y = 0) : x = y := by
  unfold cmpStr at h
  cases h1 : ltBytes x y <;> cases h2 : ltBytes y x <;> simp [h1, h2] at h
  exact ltBytes_strictTotal.total x y h1 h2

/-- the Boolean key of step 6: `false` (direct) before `true` (transitive) -/
def transC (x y : Upd) : Int := cmpInt (if x.transitive then 1 else 0) (if y.transitive then 1 else 0)

theorem tieUpd_eq_then (x y : Upd) :
    tieUpd x y = thenCmp (fun x y => cmpStr x.vto y.vto) (thenCmp (fun x y => cmpStr x.vfrom y.vfrom) (thenCmp transC (fun x y => cmpStr x.ty y.ty))) x y := by
  unfold tieUpd thenCmp transC cmpInt
  cases hx : x.transitive <;> cases hy : y.transitive <;> simp

theorem tieUpd_cmp3 : Cmp3 (fun _ _ : Upd => True) tieUpd := by
  have hs : ∀ (f : Upd → Str), Cmp3 (fun _ _ : Upd => True) (fun x y => cmpStr (f x) (f y)) := fun f => cmp3_cmpStr.pullback f
  have ht : Cmp3 (fun _ _ : Upd => True) transC := cmp3_key (fun u : Upd => if u.transitive then 1 else 0)
  have w : ∀ {c1 c2 : Upd → Upd → Int}, Cmp3 (fun _ _ => True) c1 → Cmp3 (fun _ _ => True) c2 → Cmp3 (fun _ _ => True) (thenCmp c1 c2) :=
    fun h1 h2 => h1.then (h2.mono (fun a b h => ⟨trivial, by have := h1.flip a b trivial; omega⟩) (fun _ _ _ => trivial))
  exact (w (hs (·.vto)) (w (hs (·.vfrom)) (w ht (hs (·.ty))))).congr (fun x y _ => ⟨tieUpd_eq_then x y, tieUpd_eq_then y x⟩)

theorem tieUpd_eq_zero (x y : Upd) (hn : x.name = y.name) (h : tieUpd x y = 0) : x = y := by
  unfold tieUpd at h
  split at h
  · rename_i hne; exact absurd h hne
  · rename_i h1
    split at h
    · rename_i hne; exact absurd h hne
    · rename_i h2
      split at h
      · split at h <;> cases h
      · rename_i h3
        have e1 := cmpStr_eq_zero _ _ (by simpa using h1)
        have e2 := cmpStr_eq_zero _ _ (by simpa using h2)
        have e3 : x.transitive = y.transitive := by simpa using h3
        have e4 := cmpStr_eq_zero _ _ h
        cases x; cases y; simp_all

theorem compare_eq_then (vc : Str → Str → Int) (a b : Patch) :
    Patch.compare vc a b = thenCmp ratioC (thenCmp fixedC (thenCmp lenC (thenCmp namesC (thenCmp (versC vc)
      (thenCmp tieC (thenCmp fixIdC introIdC)))))) a b := by
  unfold Patch.compare thenCmp ratioC fixedC lenC namesC versC tieC fixIdC introIdC
  simp only [ne_eq, Int.neg_eq_zero]

/-- patches that `Patch.Compare` is meant for: at least one update, versions inside `V` -/
def PatchOK (V : Str → Prop) (a : Patch) : Prop := a.updates ≠ [] ∧ ∀ u ∈ a.updates, V u.vto

theorem cross_mul (ra rb rd na nb nd : Int) (ha : 0 < na) (hb : 0 < nb) (hd : 0 < nd)
    (h1 : rb * na ≤ ra * nb) (h2 : rd * nb ≤ rb * nd) : rd * na ≤ ra * nd := by
  have e1 : rb * na * nd ≤ ra * nb * nd := Int.mul_le_mul_of_nonneg_right h1 (Int.le_of_lt hd)
  have e2 : rd * nb * na ≤ rb * nd * na := Int.mul_le_mul_of_nonneg_right h2 (Int.le_of_lt ha)
  have e3 : rd * na * nb ≤ ra * nd * nb := by
    have a1 : rd * na * nb = rd * nb * na := by ac_rfl
    have a2 : rb * nd * na = rb * na * nd := by ac_rfl
    have a3 : ra * nb * nd = ra * nd * nb := by ac_rfl
    rw [a1, ← a3]; rw [a2] at e2; exact Int.le_trans e2 e1
  exact Int.le_of_mul_le_mul_right e3 hb

theorem ratioC_cmp3 : Cmp3 (fun a b : Patch => 0 < nupd a ∧ 0 < nupd b) ratioC := by
  refine ⟨fun _ _ h => ⟨h.2, h.1⟩, ?_, ?_⟩
  · intro a b _; unfold ratioC cmpInt; constructor <;> (split <;> split <;> omega)
  · intro a b d h1 h2 h3 hba hdb
    have e1 : ratio b * nupd a ≤ ratio a * nupd b := by
      unfold ratioC cmpInt at hba; split at hba <;> (try split at hba) <;> omega
    have e2 : ratio d * nupd b ≤ ratio b * nupd d := by
      unfold ratioC cmpInt at hdb; split at hdb <;> (try split at hdb) <;> omega
    have := cross_mul _ _ _ _ _ _ h1.1 h1.2 h2.2 e1 e2
    unfold ratioC cmpInt; split <;> (try split) <;> omega

theorem nupd_pos_of_ne_nil {a : Patch} (h : a.updates ≠ []) : 0 < nupd a := by
  unfold nupd
  cases hu : a.updates with
  | nil => exact absurd hu h
  | cons x xs => simp <;> omega

/-- **`Patch.Compare` is a strict weak order** (in three-way form) among patches with at least one update
    whose target versions lie in a set on which the per-version comparison is one -/
theorem compare_cmp3 (V : Str → Prop) (vc : Str → Str → Int) (hvc : Cmp3 (fun x y => V x ∧ V y) vc) :
    Cmp3 (fun a b => PatchOK V a ∧ PatchOK V b) (Patch.compare vc) := by
  have hsym : ∀ a b : Patch, PatchOK V a ∧ PatchOK V b → PatchOK V b ∧ PatchOK V a := fun _ _ h => ⟨h.2, h.1⟩
  have h1 : Cmp3 (fun a b => PatchOK V a ∧ PatchOK V b) ratioC :=
    ratioC_cmp3.mono hsym (fun a b h => ⟨nupd_pos_of_ne_nil h.1.1, nupd_pos_of_ne_nil h.2.1⟩)
  -- symmetry of "c = 0" for the nested relations comes from `flip`
  have zsym : ∀ {E : Patch → Patch → Prop} {c : Patch → Patch → Int}, Cmp3 E c → ∀ a b, E a b ∧ c a b = 0 → E b a ∧ c b a = 0 := by
    intro E c h a b hab
    have := h.flip a b hab.1
    exact ⟨h.symm _ _ hab.1, by omega⟩
  have h2 : Cmp3 (fun a b => (PatchOK V a ∧ PatchOK V b) ∧ ratioC a b = 0) fixedC :=
    (cmp3_key_desc (fun a : Patch => (a.fixed.length : Int))).mono (zsym h1) (fun _ _ _ => trivial)
  have h3 : Cmp3 (fun a b => ((PatchOK V a ∧ PatchOK V b) ∧ ratioC a b = 0) ∧ fixedC a b = 0) lenC :=
    (cmp3_key nupd).mono (zsym h2) (fun _ _ _ => trivial)
  have hlen : ∀ a b : Patch, lenC a b = 0 → a.updates.length = b.updates.length := by
    intro a b h; unfold lenC cmpInt nupd at h; split at h <;> (try split at h) <;> omega
  have h4 : Cmp3 (fun a b => (((PatchOK V a ∧ PatchOK V b) ∧ ratioC a b = 0) ∧ fixedC a b = 0) ∧ lenC a b = 0) namesC := by
    have hn : Cmp3 (fun x y : Upd => True ∧ True) (fun x y => cmpStr x.name y.name) :=
      (cmp3_cmpStr.pullback (fun u : Upd => u.name)).mono (fun _ _ h => h) (fun _ _ _ => trivial)
    have := (zipCmp_cmp3 (fun _ => True) _ hn).pullback (fun a : Patch => a.updates)
    exact this.mono (zsym h3) (fun a b h => ⟨hlen a b h.2, fun _ _ => trivial, fun _ _ => trivial⟩)
  have h5 : Cmp3 (fun a b => ((((PatchOK V a ∧ PatchOK V b) ∧ ratioC a b = 0) ∧ fixedC a b = 0) ∧ lenC a b = 0) ∧ namesC a b = 0) (versC vc) := by
    have hv : Cmp3 (fun x y : Upd => V x.vto ∧ V y.vto) (fun x y => vc x.vto y.vto) := hvc.pullback (fun u : Upd => u.vto)
    have := (zipCmp_cmp3 (fun u : Upd => V u.vto) _ hv).pullback (fun a : Patch => a.updates)
    exact this.mono (zsym h4) (fun a b h => ⟨hlen a b h.1.2, h.1.1.1.1.1.2, h.1.1.1.1.2.2⟩)
  -- step 6: the tie-breakers
  have h6 : Cmp3 (fun a b => (((((PatchOK V a ∧ PatchOK V b) ∧ ratioC a b = 0) ∧ fixedC a b = 0) ∧ lenC a b = 0) ∧ namesC a b = 0) ∧ versC vc a b = 0) tieC := by
    have ht : Cmp3 (fun x y : Upd => True ∧ True) tieUpd := tieUpd_cmp3.mono (fun _ _ h => h) (fun _ _ _ => trivial)
    have := (zipCmp_cmp3 (fun _ => True) _ ht).pullback (fun a : Patch => a.updates)
    exact this.mono (zsym h5) (fun a b h => ⟨hlen a b h.1.1.2, fun _ _ => trivial, fun _ _ => trivial⟩)
  have hfix : ∀ a b : Patch, fixedC a b = 0 → a.fixed.length = b.fixed.length := by
    intro a b h; unfold fixedC cmpInt at h; split at h <;> (try split at h) <;> omega
  have hs : Cmp3 (fun x y : Str => True ∧ True) cmpStr := cmp3_cmpStr.mono (fun _ _ h => h) (fun _ _ _ => trivial)
  have h7 : Cmp3 (fun a b => ((((((PatchOK V a ∧ PatchOK V b) ∧ ratioC a b = 0) ∧ fixedC a b = 0) ∧ lenC a b = 0) ∧ namesC a b = 0) ∧ versC vc a b = 0) ∧ tieC a b = 0) fixIdC := by
    have := ((zipCmp_cmp3 (fun _ => True) _ hs).pullback (fun a : Patch => a.fixed)).mono (zsym h6)
      (fun a b h => ⟨hfix a b h.1.1.1.1.2, fun _ _ => trivial, fun _ _ => trivial⟩)
    exact this.congr (fun a b h => ⟨cmpList_eq_zipCmp _ _ _ (hfix a b h.1.1.1.1.2), cmpList_eq_zipCmp _ _ _ (hfix a b h.1.1.1.1.2).symm⟩)
  have hintro : ∀ a b : Patch, 0 < nupd a → ratioC a b = 0 → fixedC a b = 0 → lenC a b = 0 → a.introduced.length = b.introduced.length := by
    intro a b hpos hr hf hl
    have e1 := hfix a b hf
    have e2 : nupd a = nupd b := by unfold lenC cmpInt at hl; split at hl <;> (try split at hl) <;> omega
    have e3 : ratio a * nupd b = ratio b * nupd a := by
      unfold ratioC cmpInt at hr; split at hr <;> (try split at hr) <;> omega
    rw [← e2] at e3
    have e4 : ratio a = ratio b := Int.eq_of_mul_eq_mul_right (by omega) e3
    unfold ratio at e4; omega
  have h8 : Cmp3 (fun a b => (((((((PatchOK V a ∧ PatchOK V b) ∧ ratioC a b = 0) ∧ fixedC a b = 0) ∧ lenC a b = 0) ∧ namesC a b = 0) ∧ versC vc a b = 0) ∧ tieC a b = 0) ∧ fixIdC a b = 0) introIdC := by
    have hl : ∀ a b : Patch, (((((((PatchOK V a ∧ PatchOK V b) ∧ ratioC a b = 0) ∧ fixedC a b = 0) ∧ lenC a b = 0) ∧ namesC a b = 0) ∧ versC vc a b = 0) ∧ tieC a b = 0) ∧ fixIdC a b = 0 →
        a.introduced.length = b.introduced.length := fun a b h =>
      hintro a b (nupd_pos_of_ne_nil h.1.1.1.1.1.1.1.1.1) h.1.1.1.1.1.1.2 h.1.1.1.1.1.2 h.1.1.1.1.2
    have := ((zipCmp_cmp3 (fun _ => True) _ hs).pullback (fun a : Patch => a.introduced)).mono (zsym h7)
      (fun a b h => ⟨hl a b h, fun _ _ => trivial, fun _ _ => trivial⟩)
    exact this.congr (fun a b h => ⟨cmpList_eq_zipCmp _ _ _ (hl a b h), cmpList_eq_zipCmp _ _ _ (hl a b h).symm⟩)
  have := h1.then (h2.then (h3.then (h4.then (h5.then (h6.then (h7.then h8))))))
  exact this.congr (fun a b _ => ⟨compare_eq_then vc a b, compare_eq_then vc b a⟩)

theorem thenCmp_eq_zero {α} (c1 c2 : α → α → Int) (a b : α) (h : thenCmp c1 c2 a b = 0) : c1 a b = 0 ∧ c2 a b = 0 := by
  unfold thenCmp at h; split at h
  · rename_i hne; exact absurd h hne
  · rename_i he; exact ⟨by simpa using he, h⟩

theorem updates_eq_of_zero : ∀ (as bs : List Upd), as.length = bs.length →
    zipCmp (fun x y => cmpStr x.name y.name) as bs = 0 → zipCmp tieUpd as bs = 0 → as = bs
  | [], [], _, _, _ => rfl
  | [], _ :: _, h, _, _ => by simp at h
  | _ :: _, [], h, _, _ => by simp at h
  | a :: as, b :: bs, h, hn, ht => by
    simp only [zipCmp] at hn ht
    split at hn
    · rename_i hne; exact absurd hn hne
    · rename_i hen
      split at ht
      · rename_i hne; exact absurd ht hne
      · rename_i het
        have e := tieUpd_eq_zero a b (cmpStr_eq_zero _ _ (by simpa using hen)) (by simpa using het)
        rw [e, updates_eq_of_zero as bs (by simpa using h) hn ht]

/-- **after the repair `Patch.Compare` is total**: it returns 0 only for identical patches (all patches, any version comparison) -/
theorem compare_eq_zero_imp_eq (vc : Str → Str → Int) (a b : Patch) (h : Patch.compare vc a b = 0) : a = b := by
  rw [compare_eq_then] at h
  obtain ⟨_, h⟩ := thenCmp_eq_zero _ _ a b h
  obtain ⟨_, h⟩ := thenCmp_eq_zero _ _ a b h
  obtain ⟨hl, h⟩ := thenCmp_eq_zero _ _ a b h
  obtain ⟨hn, h⟩ := thenCmp_eq_zero _ _ a b h
  obtain ⟨_, h⟩ := thenCmp_eq_zero _ _ a b h
  obtain ⟨ht, h⟩ := thenCmp_eq_zero _ _ a b h
  obtain ⟨hf, hi⟩ := thenCmp_eq_zero _ _ a b h
  have hlen : a.updates.length = b.updates.length := by
    unfold lenC cmpInt nupd at hl; split at hl <;> (try split at hl) <;> omega
  have hu : a.updates = b.updates := updates_eq_of_zero _ _ hlen hn ht
  have hfx := cmpList_eq_zero cmpStr cmpStr_eq_zero _ _ hf
  have hin := cmpList_eq_zero cmpStr cmpStr_eq_zero _ _ hi
  cases a; cases b; simp_all

/-! ### the per-version comparison of step 5 -/

/-- all versions parse: the semantic order decides -/
theorem verCmp_cmp3_parsed {ν} (parse : Str → Option ν) (scmp : ν → ν → Int) (hs : Cmp3 (fun _ _ => True) scmp) :
    Cmp3 (fun x y => (parse x).isSome ∧ (parse y).isSome) (verCmp parse scmp) := by
  refine ⟨fun _ _ h => ⟨h.2, h.1⟩, ?_, ?_⟩
  · intro a b h
    cases ha : parse a with
    | none => simp [ha] at h
    | some x =>
      cases hb : parse b with
      | none => simp [hb] at h
      | some y => simp only [verCmp, ha, hb]; exact hs.flip x y trivial
  · intro a b d h1 h2 h3
    cases ha : parse a with
    | none => simp [ha] at h1
    | some x =>
      cases hb : parse b with
      | none => simp [hb] at h2
      | some y =>
        cases hd : parse d with
        | none => simp [hd] at h3
        | some z => simp only [verCmp, ha, hb, hd]; exact hs.negTrans x y z trivial trivial trivial

/-- no version parses (ranges written by the relax strategy): the string order decides -/
theorem verCmp_cmp3_unparsed {ν} (parse : Str → Option ν) (scmp : ν → ν → Int) :
    Cmp3 (fun x y => parse x = none ∧ parse y = none) (verCmp parse scmp) := by
  have : Cmp3 (fun x y => parse x = none ∧ parse y = none) cmpStr :=
    cmp3_cmpStr.mono (fun _ _ h => ⟨h.2, h.1⟩) (fun _ _ _ => trivial)
  exact this.congr (fun a b h => by simp [verCmp, h.1, h.2])

end Scalibr.Worklist
