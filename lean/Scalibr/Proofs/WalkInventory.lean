/-
Bookkeeping invariants of model A, valid for EVERY configuration, fault plan, limit and cancellation
point in which no extractor panics: within a scan root, the inventory, the per-extractor error list
and the found-inventory list are functions of that root's log of extraction attempts.
Consequences: the reported inventory is exactly the union of what the `Extract` invocations returned,
each package attributed to the extractor and file that produced it; an extractor's status is
failed/partial exactly when one of its attempts could not open/stat its file or its `Extract` returned
an error.
-/
import Scalibr.Proofs.WalkInv
import Scalibr.Proofs.WalkStack
namespace Scalibr.Walk

/-- the packages returned by the `Extract` invocations of a log, tagged with extractor and file -/
def pkgsOfCalls (c : Cfg) (cs : List Call) : List Pkg :=
  cs.flatMap fun cl => if cl.opened then (c.extract cl.ext cl.path).pkgs.map fun i => ⟨i, cl.ext, cl.path⟩ else []

/-- one entry per attempt that failed: file could not be opened/stat'ed, or `Extract` returned an error -/
def errsOfCalls (c : Cfg) (cs : List Call) : List Nat :=
  cs.flatMap fun cl => if !cl.opened || (c.extract cl.ext cl.path).err then [cl.ext] else []

/-- one entry per `Extract` invocation that returned a non-empty inventory (packages, or findings only) -/
def foundOfCalls (c : Cfg) (cs : List Call) : List Nat :=
  cs.flatMap fun cl => if cl.opened && !(c.extract cl.ext cl.path).isEmpty then [cl.ext] else []

theorem pkgsOfCalls_append (c : Cfg) (a b : List Call) : pkgsOfCalls c (a ++ b) = pkgsOfCalls c a ++ pkgsOfCalls c b := by
  simp [pkgsOfCalls, List.flatMap_append]
theorem errsOfCalls_append (c : Cfg) (a b : List Call) : errsOfCalls c (a ++ b) = errsOfCalls c a ++ errsOfCalls c b := by
  simp [errsOfCalls, List.flatMap_append]
theorem foundOfCalls_append (c : Cfg) (a b : List Call) : foundOfCalls c (a ++ b) = foundOfCalls c a ++ foundOfCalls c b := by
  simp [foundOfCalls, List.flatMap_append]

/-- `base` = the attempt log at the moment the current root started -/
def BookInv (c : Cfg) (base : List Call) (s : St) : Prop :=
  ∃ cur, s.calls = base ++ cur ∧ s.pkgs = pkgsOfCalls c cur ∧ s.errs = errsOfCalls c cur ∧ s.found = foundOfCalls c cur

theorem bookInv_of_eq (c : Cfg) (base : List Call) (s s' : St) (h : BookInv c base s) (hc : s'.calls = s.calls)
    (hp : s'.pkgs = s.pkgs) (he : s'.errs = s.errs) (hf : s'.found = s.found) : BookInv c base s' := by
  unfold BookInv at *; rw [hc, hp, he, hf]; exact h

/-- the findings returned by the `Extract` invocations of a log, tagged with extractor and file -/
def findsOfCalls (c : Cfg) (cs : List Call) : List Fnd :=
  cs.flatMap fun cl => if cl.opened then (c.extract cl.ext cl.path).finds.map fun i => ⟨i, cl.ext, cl.path⟩ else []

theorem findsOfCalls_append (c : Cfg) (a b : List Call) : findsOfCalls c (a ++ b) = findsOfCalls c a ++ findsOfCalls c b := by
  simp [findsOfCalls, List.flatMap_append]

theorem isEmpty_parts (o : ExtractOut) (h : o.isEmpty = true) : o.pkgs = [] ∧ o.finds = [] := by
  unfold ExtractOut.isEmpty at h
  simp only [Bool.and_eq_true, List.isEmpty_iff] at h
  exact ⟨h.1.1, h.2⟩

theorem runExtractor_book (c : Cfg) (hx : NoExtractorPanic c) (f : Faults) (s : St) (e : Nat) (p : Path) (sz : Nat) :
    ∃ cl, (runExtractor c f s e p sz).1.calls = s.calls ++ [cl] ∧
          (runExtractor c f s e p sz).1.pkgs = s.pkgs ++ pkgsOfCalls c [cl] ∧
          (runExtractor c f s e p sz).1.errs = s.errs ++ errsOfCalls c [cl] ∧
          (runExtractor c f s e p sz).1.found = s.found ++ foundOfCalls c [cl] ∧
          (runExtractor c f s e p sz).1.finds = s.finds ++ findsOfCalls c [cl] := by
  unfold runExtractor
  split
  · exact ⟨⟨e, p, sz, false⟩, by simp, by simp [pkgsOfCalls], by simp [errsOfCalls], by simp [foundOfCalls], by simp [findsOfCalls]⟩
  · split
    · exact ⟨⟨e, p, sz, false⟩, by simp, by simp [pkgsOfCalls], by simp [errsOfCalls], by simp [foundOfCalls], by simp [findsOfCalls]⟩
    · refine ⟨⟨e, p, sz, true⟩, ?_, ?_, ?_, ?_, ?_⟩ <;> simp only [hx e p, Bool.false_eq_true, if_false]
      · split <;> split <;> split <;> simp
      · by_cases hk : (c.extract e p).isEmpty = true
        · have hnil := (isEmpty_parts _ hk).1
          simp only [hk, if_true]
          split <;> split <;> simp [pkgsOfCalls, hnil]
        · simp only [hk, Bool.false_eq_true, if_false]
          split <;> split <;> simp [pkgsOfCalls]
      · by_cases he : (c.extract e p).err = true
        · simp only [he, if_true]
          split <;> split <;> simp [errsOfCalls, he]
        · simp only [he, Bool.false_eq_true, if_false]
          split <;> split <;> simp [errsOfCalls, he]
      · by_cases hk : (c.extract e p).isEmpty = true
        · simp only [hk, if_true]
          split <;> split <;> simp [foundOfCalls, hk]
        · simp only [hk, Bool.false_eq_true, if_false]
          split <;> split <;> simp [foundOfCalls, hk]
      · by_cases hk : (c.extract e p).isEmpty = true
        · have hnil := (isEmpty_parts _ hk).2
          simp only [hk, if_true]
          split <;> split <;> simp [findsOfCalls, hnil]
        · simp only [hk, Bool.false_eq_true, if_false]
          split <;> split <;> simp [findsOfCalls]

theorem runExtractor_bookInv (c : Cfg) (hx : NoExtractorPanic c) (f : Faults) (base : List Call) (s : St) (e : Nat)
    (p : Path) (sz : Nat) (h : BookInv c base s) : BookInv c base (runExtractor c f s e p sz).1 := by
  obtain ⟨cl, h1, h2, h3, h4, _⟩ := runExtractor_book c hx f s e p sz
  obtain ⟨cur, g1, g2, g3, g4⟩ := h
  refine ⟨cur ++ [cl], ?_, ?_, ?_, ?_⟩
  · rw [h1, g1, List.append_assoc]
  · rw [h2, g2, pkgsOfCalls_append]
  · rw [h3, g3, errsOfCalls_append]
  · rw [h4, g4, foundOfCalls_append]

theorem extractLoop_bookInv (c : Cfg) (hx : NoExtractorPanic c) (f : Faults) (base : List Call) (p : Path) (size : Nat) :
    ∀ (rs : List Nat) (s : St) (chk : Bool), BookInv c base s → BookInv c base (extractLoop c f p size s rs chk).1 := by
  intro rs
  induction rs with
  | nil => intro s chk h; simpa [extractLoop] using h
  | cons e rest ih =>
    intro s chk h
    simp only [extractLoop]
    have h1 := runExtractor_bookInv c hx f base s e p size h
    generalize runExtractor c f s e p size = r at h1 ⊢
    obtain ⟨s1, pan⟩ := r
    split
    · split
      · split
        · split <;> exact h
        · split
          · exact h
          · simp only []
            split
            · exact h1
            · exact ih s1 true h1
      · simp only []
        split
        · exact h1
        · exact ih s1 chk h1
    · exact ih s chk h

theorem bookInv_stepInv (c : Cfg) (hx : NoExtractorPanic c) (f : Faults) (base : List Call) : StepInv c f (BookInv c base) where
  prologue s h := by
    apply bookInv_of_eq c base _ _ h <;> (unfold prologue; simp only []; split <;> (try split) <;> rfl)
  leaf s p k sz h := by
    unfold handleLeaf
    split
    · exact h
    · split
      · exact h
      · exact extractLoop_bookInv c hx f base p sz _ s false h
  push s p gi h := by
    apply bookInv_of_eq c base _ _ h <;> (unfold pushGi; (repeat' split) <;> rfl)
  pop s p e h := by
    apply bookInv_of_eq c base _ _ h <;> (unfold popOnExit; (repeat' split) <;> rfl)

theorem bookInv_topInv (c : Cfg) (base : List Call) : TopInv c (BookInv c base) where
  setGis _ _ h := bookInv_of_eq c base _ _ h rfl rfl rfl rfl

/-- after a root: inventory, errors and found flags are functions of the root's own attempts -/
theorem runRoot_book (c : Cfg) (hx : NoExtractorPanic c) (f : Faults) (root : Node) (s : St) :
    BookInv c s.calls (runRoot c f s root).1 := by
  have h0 : BookInv c s.calls { s with pkgs := [], errs := [], found := [] } :=
    ⟨[], by simp, by simp [pkgsOfCalls], by simp [errsOfCalls], by simp [foundOfCalls]⟩
  unfold runRoot
  simp only []
  split
  · exact walkFrom_inv (bookInv_stepInv c hx f _) root [] _ h0
  · exact walkPaths_inv (bookInv_stepInv c hx f _) (bookInv_topInv c _) root _ _ h0

/-- whole scan: the inventory is the union of the results of all `Extract` invocations, in order -/
theorem runRoots_pkgs (c : Cfg) (hx : NoExtractorPanic c) :
    ∀ (roots : List (Node × Faults)) (s : St) (acc : List Pkg) (sts : List (Nat × Status)),
      acc = pkgsOfCalls c s.calls → (runRoots c s acc sts roots).err = .none →
      (runRoots c s acc sts roots).pkgs = pkgsOfCalls c (runRoots c s acc sts roots).calls
  | [], s, acc, sts, h, _ => by simpa [runRoots] using h
  | (r, f) :: rest, s, acc, sts, h, herr => by
    simp only [runRoots] at herr ⊢
    have h1 := runRoot_book c hx f r s
    generalize runRoot c f s r = x at h1 herr ⊢
    obtain ⟨s1, e1⟩ := x
    simp only [] at herr ⊢ h1
    split
    · rename_i hne; simp [hne] at herr
    · rename_i hne
      simp only [hne, if_false] at herr
      obtain ⟨cur, g1, g2, _, _⟩ := h1
      exact runRoots_pkgs c hx rest s1 _ _ (by rw [g1, g2, pkgsOfCalls_append, h]) herr

end Scalibr.Walk
