/-
Statements about model A for EVERY configuration without a panicking extractor (inode limit, size limit,
cancellation before / inside any `Extract`, `ErrorOnFSErrors` on or off, all combinations):
  * `run_machine_any` — the scan either ends with the filesystem error, or it is the sequential machine of
    Spec/WalkMachine.lean run over the trace of the configuration with `ErrorOnFSErrors` cleared;
  * `run_fails_when_more` — with an inode limit, a forest that holds more reachable inodes than the limit makes the
    scan FAIL (with whichever error comes first);
  * `run_finds` — the findings of the filesystem extractors are a function of the attempts.
-/
import Scalibr.Proofs.WalkTrace
import Scalibr.Proofs.WalkEofs
import Scalibr.Proofs.WalkAnchor
import Scalibr.Proofs.WalkInventory
namespace Scalibr.Walk

/-! ### the machine never produces the filesystem error, and succeeds only after every call -/

theorem aPro_err (c : Cfg) (a : AS) : (aPro c a).2 = none ∨ (aPro c a).2 = some .maxInodes ∨ (aPro c a).2 = some .ctx := by
  unfold aPro; simp only []; split <;> (try split) <;> simp

theorem aPro_visited (c : Cfg) (a : AS) (h : (aPro c a).2 = none) : (aPro c a).1.visited = a.visited + 1 := by
  unfold aPro at h ⊢; simp only [] at h ⊢; split <;> (try split) <;> simp_all

theorem runT_err (c : Cfg) : ∀ (T : List (List Call)) (a : AS),
    (runT c a T).2 = .none ∨ (runT c a T).2 = .maxInodes ∨ (runT c a T).2 = .ctx
  | [], a => Or.inl rfl
  | b :: T, a => by
    rcases h : aPro c a with ⟨a1, o⟩
    cases o with
    | none => rw [runT_cons_ok c a a1 b T h]; exact runT_err c T _
    | some e =>
      rw [runT_cons_err c a a1 e b T h]
      have := aPro_err c a
      rw [h] at this
      rcases this with h1 | h1 | h1
      · cases h1
      · right; left; simpa using h1
      · right; right; simpa using h1

theorem runT_ok_visited (c : Cfg) : ∀ (T : List (List Call)) (a : AS), (runT c a T).2 = .none →
    (runT c a T).1.visited = a.visited + T.length
  | [], a, _ => by simp [runT_nil]
  | b :: T, a, hok => by
    rcases h : aPro c a with ⟨a1, o⟩
    cases o with
    | none =>
      rw [runT_cons_ok c a a1 b T h] at hok ⊢
      have := runT_ok_visited c T _ hok
      rw [this]
      have hv := aPro_visited c a (by rw [h])
      rw [h] at hv
      simp only [aBlock, List.length_cons] at hv ⊢
      omega
    | some e =>
      rw [runT_cons_err c a a1 e b T h] at hok
      have := aPro_ne c a
      rw [h] at this
      simp only [] at hok
      subst hok
      exact absurd rfl this

/-! ### every configuration without a panicking extractor -/

theorem nonFatal_eq (c : Cfg) (h : c.errorOnFSErrors = false) : nonFatal c = c := by
  cases c; simp only [nonFatal] at h ⊢; subst h; rfl

theorem nonFatal_nf (c : Cfg) (hx : NoExtractorPanic c) : NFCfg (nonFatal c) := ⟨rfl, hx⟩

/-- **Every configuration without a panicking extractor**: the scan ends with the filesystem error (possible only
with `ErrorOnFSErrors`), or its error, visited-inode count and attempts are those the sequential machine prescribes
for the configuration with the flag cleared. -/
theorem run_machine_any (c : Cfg) (hx : NoExtractorPanic c) (hd : DomainLaw c.giMatch) (roots : List (Node × Faults)) :
    ((run c roots).err = .fs ∧ c.errorOnFSErrors = true) ∨
    ((run c roots).calls, (run c roots).err, (run c roots).visited) = machineOutcome (nonFatal c) roots := by
  have hm := run_trace (nonFatal c) (nonFatal_nf c hx) hd roots
  have key : run (nonFatal c) roots = run c roots →
      ((run c roots).calls, (run c roots).err, (run c roots).visited) = machineOutcome (nonFatal c) roots := by
    intro h
    rw [← h]
    simp only [machineOutcome, Prod.mk.injEq]
    exact ⟨hm.2.2, hm.1, hm.2.1⟩
  by_cases he : c.errorOnFSErrors = true
  · rcases run_eofs c he roots with h | h | h
    · exact Or.inl ⟨h, he⟩
    · exact absurd h (run_nopanic c hx roots)
    · exact Or.inr (key h)
  · have he' : c.errorOnFSErrors = false := by simpa using he
    exact Or.inr (key (by rw [nonFatal_eq c he']))

theorem reachableInodesScan_nonFatal (c : Cfg) (roots : List (Node × Faults)) :
    reachableInodesScan (nonFatal c) roots = reachableInodesScan c roots := rfl

/-- **Fails when the forest holds more** (EVERY configuration without a panicking extractor — fatal errors,
cancellation before or inside any `Extract`, a size limit, all combinations): with an inode limit, if the forest
holds more reachable inodes than the limit the scan does not succeed. -/
theorem run_fails_when_more (c : Cfg) (hx : NoExtractorPanic c) (hd : DomainLaw c.giMatch) (roots : List (Node × Faults))
    (hm : c.maxInodes > 0) (h : reachableInodesScan c roots > c.maxInodes) : (run c roots).err ≠ .none := by
  intro hok
  rcases run_machine_any c hx hd roots with ⟨hfs, _⟩ | hmach
  · rw [hok] at hfs; cases hfs
  · simp only [machineOutcome, Prod.mk.injEq] at hmach
    obtain ⟨_, herr, hvis⟩ := hmach
    have hnone : (runT (nonFatal c) ⟨0, 0, 0, (nonFatal c).cancelBefore, []⟩ (traceScan (nonFatal c) roots)).2 = .none := by
      rw [← herr]; exact hok
    have hv := runT_ok_visited (nonFatal c) _ _ hnone
    rw [← hvis, traceScan_length] at hv
    simp only [Nat.zero_add] at hv
    have hle := reachableInodesScan_le_visitsScan (nonFatal c) roots
    rw [reachableInodesScan_nonFatal] at hle
    have hb : (run c roots).visited ≤ c.maxInodes := by
      unfold run
      exact runRoots_visited c roots _ [] [] (by intro _; simp) hm
    omega

/-! ### findings are a function of the attempts -/

/-- the scan-wide findings log is the findings of the scan-wide attempt log -/
def FindsInv (c : Cfg) (s : St) : Prop := s.finds = findsOfCalls c s.calls

theorem findsInv_of_eq (c : Cfg) (s s' : St) (h : FindsInv c s) (hc : s'.calls = s.calls) (hf : s'.finds = s.finds) :
    FindsInv c s' := by
  unfold FindsInv at *; rw [hc, hf]; exact h

theorem runExtractor_findsInv (c : Cfg) (hx : NoExtractorPanic c) (f : Faults) (s : St) (e : Nat) (p : Path) (sz : Nat)
    (h : FindsInv c s) : FindsInv c (runExtractor c f s e p sz).1 := by
  obtain ⟨cl, h1, _, _, _, h5⟩ := runExtractor_book c hx f s e p sz
  unfold FindsInv at *
  rw [h1, h5, h, findsOfCalls_append]

theorem extractLoop_findsInv (c : Cfg) (hx : NoExtractorPanic c) (f : Faults) (p : Path) (size : Nat) :
    ∀ (rs : List Nat) (s : St) (chk : Bool), FindsInv c s → FindsInv c (extractLoop c f p size s rs chk).1 := by
  intro rs
  induction rs with
  | nil => intro s chk h; simpa [extractLoop] using h
  | cons e rest ih =>
    intro s chk h
    simp only [extractLoop]
    have h1 := runExtractor_findsInv c hx f s e p size h
    generalize runExtractor c f s e p size = r at h1 ⊢
    obtain ⟨s1, pan⟩ := r
    simp only [] at h1
    split
    · split
      · split
        · split <;> exact h
        · split
          · exact h
          · simp only []; split
            · exact h1
            · exact ih s1 true h1
      · simp only []; split
        · exact h1
        · exact ih s1 chk h1
    · exact ih s chk h

theorem findsInv_stepInv (c : Cfg) (hx : NoExtractorPanic c) (f : Faults) : StepInv c f (FindsInv c) where
  prologue s h := by
    apply findsInv_of_eq c _ _ h <;> (unfold prologue; simp only []; split <;> (try split) <;> rfl)
  leaf s p k sz h := by
    unfold handleLeaf
    split
    · exact h
    · split
      · exact h
      · exact extractLoop_findsInv c hx f p sz _ s false h
  push s p gi h := by
    apply findsInv_of_eq c _ _ h <;> (unfold pushGi; (repeat' split) <;> rfl)
  pop s p e h := by
    apply findsInv_of_eq c _ _ h <;> (unfold popOnExit; (repeat' split) <;> rfl)

theorem findsInv_topInv (c : Cfg) : TopInv c (FindsInv c) where
  setGis _ _ h := findsInv_of_eq c _ _ h rfl rfl
theorem findsInv_rootInv (c : Cfg) : RootInv c (FindsInv c) where
  resetRoot _ h := findsInv_of_eq c _ _ h rfl rfl

theorem runRoots_finds (c : Cfg) (hx : NoExtractorPanic c) : ∀ (roots : List (Node × Faults)) (s : St) (acc : List Pkg)
    (sts : List (Nat × Status)), FindsInv c s →
      (runRoots c s acc sts roots).finds =
        if (runRoots c s acc sts roots).err = .none then findsOfCalls c (runRoots c s acc sts roots).calls else []
  | [], s, acc, sts, h => by
    unfold FindsInv at h
    simp [runRoots, h]
  | (r, f) :: rest, s, acc, sts, h => by
    simp only [runRoots]
    have h1 := runRoot_inv (findsInv_stepInv c hx f) (findsInv_topInv c) (findsInv_rootInv c) r s h
    by_cases hne : (runRoot c f s r).2 = .none
    · simp only [hne, ne_eq, not_true_eq_false, if_false]
      exact runRoots_finds c hx rest _ _ _ h1
    · simp [hne]

/-- **The findings of a scan** (every configuration without a panicking extractor): when the scan does not fail
they are exactly the findings the `Extract` invocations returned, each attributed to its extractor and file, in
attempt order; a failing scan reports none. -/
theorem run_finds (c : Cfg) (hx : NoExtractorPanic c) (roots : List (Node × Faults)) :
    (run c roots).finds = if (run c roots).err = .none then findsOfCalls c (run c roots).calls else [] := by
  unfold run
  exact runRoots_finds c hx roots _ [] [] rfl

end Scalibr.Walk
