/-
Model A, for EVERY configuration in which filesystem errors are not fatal and extractors do not panic
(any inode limit, any cancellation point, cancelled before the scan or not), is a plain sequential
machine (`runT`, Spec/WalkMachine.lean) over the specification's trace of `handleFile` calls (`Spec/WalkCount.lean`):

  for each call of the trace, in order:   count the inode — fail with MaxInodes beyond the limit;
                                          report the visit — fail when the context is cancelled;
                                          make the call's attempts (the k-th `Extract` cancels the context).

`run_trace` states this for whole scans, all forests and fault plans.  The exact inode-limit theorem
(`Proofs/WalkLimit.lean`) and the cancellation theorem (`Proofs/WalkCancel.lean`) are list-level
corollaries about this machine.
-/
import Scalibr.Spec.WalkCount
import Scalibr.Spec.WalkMachine
import Scalibr.Proofs.WalkSpec
import Scalibr.Proofs.WalkTop
namespace Scalibr.Walk

/-- errors are not fatal, extractors do not panic; limit and cancellation are arbitrary -/
def NFCfg (c : Cfg) : Prop := c.errorOnFSErrors = false ∧ ∀ e p, (c.extract e p).panics = false

/-- the part of the engine state the machine (Spec/WalkMachine.lean) talks about -/
def abs (s : St) : AS := ⟨s.inodes, s.visited, s.extracts, s.cancelled, s.calls⟩

end Scalibr.Walk

namespace Scalibr.Walk

/-! ### the machine -/

theorem openedCount_append (a b : List Call) : openedCount (a ++ b) = openedCount a + openedCount b := by
  simp [openedCount, List.filter_append]

theorem openedCount_nil : openedCount [] = 0 := rfl

theorem hits_add (ca : Option Nat) (x m1 m2 : Nat) :
    hits ca x (m1 + m2) = (hits ca x m1 || hits ca (x + m1) m2) := by
  cases ca with
  | none => simp [hits]
  | some k =>
    simp only [hits]
    rw [Bool.eq_iff_iff]
    simp only [decide_eq_true_eq, Bool.or_eq_true]
    omega

theorem hits_zero (ca : Option Nat) (x : Nat) : hits ca x 0 = false := by
  cases ca with
  | none => rfl
  | some k => simp only [hits, decide_eq_false_iff_not]; omega

theorem hits_one (ca : Option Nat) (x : Nat) : hits ca x 1 = decide (ca = some (x + 1)) := by
  cases ca with
  | none => simp [hits]
  | some k =>
    simp only [hits]
    rw [Bool.eq_iff_iff]
    simp only [decide_eq_true_eq, Option.some.injEq]
    omega

theorem aBlock_nil (c : Cfg) (a : AS) : aBlock c a [] = a := by
  unfold aBlock
  simp [openedCount_nil, hits_zero]

theorem aBlock_append (c : Cfg) (a : AS) (b1 b2 : List Call) :
    aBlock c (aBlock c a b1) b2 = aBlock c a (b1 ++ b2) := by
  unfold aBlock
  simp [openedCount_append, hits_add, Nat.add_assoc, Bool.or_assoc]

theorem aPro_ne (c : Cfg) (a : AS) : (aPro c a).2 ≠ some .none := by
  unfold aPro; simp only []; split <;> (try split) <;> simp

theorem runT_nil (c : Cfg) (a : AS) : runT c a [] = (a, .none) := rfl

theorem runT_cons_err (c : Cfg) (a a1 : AS) (e : Err) (b : List Call) (T : List (List Call))
    (h : aPro c a = (a1, some e)) : runT c a (b :: T) = (a1, e) := by
  have hne := aPro_ne c a
  rw [h] at hne
  have : e ≠ .none := by intro h'; subst h'; exact hne rfl
  simp [runT, visit, h, this]

theorem runT_cons_ok (c : Cfg) (a a1 : AS) (b : List Call) (T : List (List Call))
    (h : aPro c a = (a1, none)) : runT c a (b :: T) = runT c (aBlock c a1 b) T := by
  simp [runT, visit, h]

theorem runT_single (c : Cfg) (a : AS) (b : List Call) :
    runT c a [b] = visit c a b := by
  simp only [runT]
  split
  · rename_i h
    rw [← h]
  · rfl

theorem runT_append (c : Cfg) : ∀ (T1 T2 : List (List Call)) (a : AS),
    runT c a (T1 ++ T2) = (if (runT c a T1).2 = .none then runT c (runT c a T1).1 T2 else runT c a T1)
  | [], T2, a => by simp [runT]
  | b :: T1, T2, a => by
    simp only [List.cons_append, runT]
    by_cases h : (visit c a b).2 = .none
    · simp only [h, if_true]
      exact runT_append c T1 T2 _
    · simp [h]

end Scalibr.Walk

namespace Scalibr.Walk

/-! ### the atomic steps of the engine, seen through `abs` -/

theorem prologue_abs (c : Cfg) (s : St) : aPro c (abs s) = (abs (prologue c s).1, (prologue c s).2) := by
  unfold prologue aPro abs
  simp only []
  split <;> (try split) <;> rfl

theorem popOnExit_abs (c : Cfg) (s : St) (p : Path) (e : Err) : abs (popOnExit c s p e).1 = abs s := by
  unfold popOnExit; (repeat' split) <;> rfl

theorem fserrCall_abs (c : Cfg) (he : c.errorOnFSErrors = false) (s : St) :
    (abs (fserrCall c s).1, (fserrCall c s).2) = visit c (abs s) [] := by
  unfold fserrCall visit
  rw [prologue_abs]
  generalize prologue c s = x
  obtain ⟨s1, e1⟩ := x
  cases e1 with
  | some e => rfl
  | none => simp [he, aBlock_nil]

theorem runExtractor_abs (c : Cfg) (hx : NoExtractorPanic c) (f : Faults) (s : St) (e : Nat) (p : Path) (sz : Nat) :
    abs (runExtractor c f s e p sz).1 = aBlock c (abs s) [⟨e, p, sz, !f.openFail p && !f.fileStatFail p⟩] := by
  unfold runExtractor
  by_cases h1 : f.openFail p = true
  · simp [h1, abs, aBlock, openedCount, hits_zero]
  · by_cases h2 : f.fileStatFail p = true
    · simp [h1, h2, abs, aBlock, openedCount, hits_zero]
    · simp only [h1, h2, hx e p]
      simp only [Bool.false_eq_true, if_false]
      split <;> simp [abs, aBlock, openedCount, hits_one] <;> split <;> split <;> simp_all

/-- the loop over extractors makes exactly the attempts the specification lists for the file, never fails -/
theorem extractLoop_nf (c : Cfg) (hn : NFCfg c) (f : Faults) (r : FileRec) :
    ∀ (es : List Nat) (s : St) (chk : Bool), (chk = true → sizeOk c f r = true) →
      (extractLoop c f r.path r.size s es chk).2 = none ∧
      abs (extractLoop c f r.path r.size s es chk).1 = aBlock c (abs s)
        (if sizeOk c f r then (es.filter fun e => c.required e r.path).map fun e => ⟨e, r.path, r.size, readable f r⟩ else []) := by
  intro es
  induction es with
  | nil => intro s chk _; simp [extractLoop, aBlock_nil]
  | cons e rest ih =>
    intro s chk hchk
    have heo := hn.1
    simp only [extractLoop]
    by_cases hreq : c.required e r.path = true
    · simp only [hreq, if_true, List.filter_cons_of_pos]
      have hr := runExtractor_abs c hn.2 f s e r.path r.size
      have hpan := runExtractor_nopanic c hn.2 f s e r.path r.size
      generalize runExtractor c f s e r.path r.size = x at hr hpan ⊢
      obtain ⟨s1, pan⟩ := x
      simp only [] at hpan hr
      subst hpan
      by_cases hcond : (decide (c.maxFileSize > 0) && !chk) = true
      · simp only [hcond, if_true]
        simp only [Bool.and_eq_true, decide_eq_true_eq, Bool.not_eq_true'] at hcond
        by_cases hst : f.statFail r.path = true
        · have : sizeOk c f r = false := by unfold sizeOk; simp [hcond.1, hst]
          simp [hst, heo, this, aBlock_nil]
        · by_cases hgt : r.size > c.maxFileSize
          · have : sizeOk c f r = false := by unfold sizeOk; simp [hcond.1, hgt]
            simp [hst, hgt, this, aBlock_nil]
          · have hok : sizeOk c f r = true := by unfold sizeOk; simp [hst, hgt]
            simp only [hst, hgt, Bool.false_eq_true, if_false]
            have := ih s1 true (fun _ => hok)
            refine ⟨this.1, ?_⟩
            rw [this.2, hr, aBlock_append]
            simp [hok, readable]
      · simp only [hcond, Bool.false_eq_true, if_false]
        have hok : sizeOk c f r = true := by
          cases hck : chk with
          | true => exact hchk hck
          | false =>
            simp only [hck, Bool.not_false, Bool.and_true, decide_eq_true_eq] at hcond
            unfold sizeOk; simp [hcond]
        have := ih s1 chk hchk
        refine ⟨this.1, ?_⟩
        rw [this.2, hr, aBlock_append]
        simp [hok, readable]
    · simp only [hreq, Bool.false_eq_true, if_false]
      have := ih s chk hchk
      simpa [List.filter_cons, hreq] using this

/-- `handleFile` for a file, after the prologue: the attempts `mustOne` lists for a file that has been reached -/
theorem handleLeaf_nf (c : Cfg) (hn : NFCfg c) (f : Faults) (G : List GiEntry) (s : St) (p : Path) (k : Kind) (sz : Nat)
    (hg : c.useGitignore = true → s.gis = G) :
    (handleLeaf c f s p k sz).2 = none ∧
    abs (handleLeaf c f s p k sz).1 = aBlock c (abs s) (mustOne c f G ⟨p, k, sz, []⟩) := by
  unfold handleLeaf mustOne reached fileEligible
  simp only [List.length_nil, List.range_zero, List.all_nil, Bool.true_and, List.map_nil, List.append_nil]
  rw [← gi_guard_congr c s.gis G (tokens p) false hg]
  by_cases hk : (k = .special || (k = .symlink && !c.readSymlinks)) = true
  · simp only [hk, if_true]
    simp [aBlock_nil]
  · simp only [hk, Bool.false_eq_true, if_false]
    by_cases hgi : (c.useGitignore && stackMatch c s.gis (tokens p) false) = true
    · simp only [hgi, if_true]
      simp [aBlock_nil]
    · simp only [hgi, Bool.false_eq_true, if_false]
      have := extractLoop_nf c hn f ⟨p, k, sz, []⟩ (List.range c.nExt) s false (by simp)
      simpa [hk, hgi] using this

/-- the gitignore part of `handleFile` for a directory when errors are not fatal -/
theorem pushGi_nf (c : Cfg) (he : c.errorOnFSErrors = false) (ho : DomainLaw c.giMatch) (f : Faults) (s : St) (p : Path)
    (gi : Option PatSet) :
    (pushGi c f s p gi).2 = none ∧ abs (pushGi c f s p gi).1 = abs s ∧
    shouldSkipDir c (pushGi c f s p gi).1.gis p = excludedDir c s.gis p ∧
    ((c.useGitignore = false ∧ (pushGi c f s p gi).1 = s) ∨
     (c.useGitignore = true ∧ (pushGi c f s p gi).1.giDirs = s.giDirs ++ [p] ∧
       ∃ x, (pushGi c f s p gi).1.gis = s.gis ++ [x] ∧
         (excludedDir c s.gis p = false → x = giEntryOf f ⟨p, gi, 0⟩))) := by
  unfold pushGi
  cases hu : c.useGitignore with
  | false =>
    simp only [Bool.false_eq_true, if_false]
    exact ⟨by trivial, by trivial, shouldSkipDir_eq_excluded c s.gis p, Or.inl ⟨by trivial, by trivial⟩⟩
  | true =>
    simp only [if_true]
    by_cases h1 : shouldSkipDir c s.gis p = true
    · simp only [h1, if_true]
      refine ⟨by trivial, by trivial, ?_, Or.inr ⟨by trivial, by trivial, none, by trivial, ?_⟩⟩
      · rw [shouldSkipDir_eq_excluded, excluded_push_none]
      · intro hex; rw [shouldSkipDir_eq_excluded] at h1; rw [hex] at h1; cases h1
    · simp only [h1, Bool.false_eq_true, if_false]
      by_cases h2 : f.openFail (p ++ [".gitignore"]) = true
      · simp only [h2, if_true, he, Bool.false_eq_true, if_false]
        refine ⟨by trivial, by trivial, ?_, Or.inr ⟨by trivial, by trivial, none, by trivial, ?_⟩⟩
        · rw [shouldSkipDir_eq_excluded, excluded_push_none]
        · intro _; unfold giEntryOf; simp [h2]
      · simp only [h2, Bool.false_eq_true, if_false]
        refine ⟨by trivial, by trivial, ?_, Or.inr ⟨by trivial, by trivial, _, rfl, ?_⟩⟩
        · rw [shouldSkipDir_eq_excluded, excluded_push_own c ho]
        · intro _; unfold giEntryOf; simp [h2]

/-- the deferred pop after a stack-neutral body: error passed on, abstract state untouched, stacks restored -/
theorem pop_nf (c : Cfg) (s1 s2 s3 : St) (p : Path) (e : Err)
    (hor : (c.useGitignore = false ∧ s2 = s1) ∨
           (c.useGitignore = true ∧ s2.giDirs = s1.giDirs ++ [p] ∧ ∃ x, s2.gis = s1.gis ++ [x]))
    (hst : SameStack s2 s3) :
    (popOnExit c s3 p e).2 = e ∧ abs (popOnExit c s3 p e).1 = abs s3 := by
  refine ⟨?_, popOnExit_abs c s3 p e⟩
  rcases hor with ⟨hu, _⟩ | ⟨hu, hd, x, hg⟩
  · rw [popOnExit_nogi c hu]
  · exact (popOnExit_pushed c hu s1 s3 p e x (by rw [hst.1, hg]) (by rw [hst.2, hd])).2

theorem trace_dir_cons (c : Cfg) (f : Faults) (G : List GiEntry) (p : Path) (gi : Option PatSet) (es : List (String × Node)) :
    trace c f G p (.dir gi es) = [] ::
      (if excludedDir c G p then []
       else if f.openFail p then [[]]
       else traceL c f (if c.useGitignore then G ++ [giEntryOf f ⟨p, gi, 0⟩] else G) p es 0) := by
  simp only [trace]
  split
  · rfl
  · split <;> rfl

mutual
theorem walkNode_trace (c : Cfg) (hn : NFCfg c) (hd : DomainLaw c.giMatch) (f : Faults) (G : List GiEntry) (p : Path) :
    ∀ (n : Node) (s : St), (c.useGitignore = true → s.gis = G) → (∀ d ∈ s.giDirs, d.length < p.length) →
      (abs (walkNode c f s p n).1, (walkNode c f s p n).2) = runT c (abs s) (trace c f G p n)
  | .file k size, s, hg, _ => by
    simp only [walkNode, trace]
    have hp := prologue_abs c s
    have hs := prologue_same c s
    generalize prologue c s = x at hp hs ⊢
    obtain ⟨s1, e1⟩ := x
    simp only [] at hp hs
    cases e1 with
    | some e => rw [runT_cons_err c _ _ e _ _ hp]
    | none =>
      rw [runT_cons_ok c _ _ _ _ hp, runT_nil]
      simp only []
      have hl := handleLeaf_nf c hn f G s1 p k size (fun hu => by rw [hs.1]; exact hg hu)
      generalize handleLeaf c f s1 p k size = y at hl ⊢
      obtain ⟨s2, e2⟩ := y
      simp only [] at hl
      rw [hl.1, hl.2]
      rfl
  | .dir gi es, s, hg, hshort => by
    have hx : NoExtractorPanic c := hn.2
    rw [trace_dir_cons]
    simp only [walkNode]
    have hp := prologue_abs c s
    have hs := prologue_same c s
    generalize prologue c s = x at hp hs ⊢
    obtain ⟨s1, e1⟩ := x
    simp only [] at hp hs
    have hshort1 : ∀ d ∈ s1.giDirs, d.length < p.length := by rw [hs.2]; exact hshort
    cases e1 with
    | some e =>
      rw [runT_cons_err c _ _ e _ _ hp]
      simp only []
      rw [popOnExit_nopush c s1 p e hshort1]
    | none =>
      rw [runT_cons_ok c _ _ _ _ hp, aBlock_nil]
      simp only []
      have hexc : excludedDir c s1.gis p = excludedDir c G p :=
        excluded_congr c _ _ p (fun hu => by rw [hs.1]; exact hg hu)
      have hpg := pushGi_nf c hn.1 hd f s1 p gi
      generalize pushGi c f s1 p gi = y at hpg ⊢
      obtain ⟨s2, e2⟩ := y
      obtain ⟨he2, habs2, hskip, hor⟩ := hpg
      simp only [] at he2 habs2 hskip hor
      subst he2
      simp only []
      rw [hskip, hexc, ← habs2]
      have hor' : (c.useGitignore = false ∧ s2 = s1) ∨
          (c.useGitignore = true ∧ s2.giDirs = s1.giDirs ++ [p] ∧ ∃ x, s2.gis = s1.gis ++ [x]) := by
        rcases hor with h | ⟨hu, hd2, x, hx2, _⟩
        · exact Or.inl h
        · exact Or.inr ⟨hu, hd2, x, hx2⟩
      by_cases hsk : excludedDir c G p = true
      · simp only [hsk, if_true]
        have hpop := pop_nf c s1 s2 s2 p .none hor' (SameStack.refl s2)
        rw [hpop.1, hpop.2, runT_nil]
      · simp only [hsk, Bool.false_eq_true, if_false]
        have hexf : excludedDir c G p = false := by simpa using hsk
        by_cases hop : f.openFail p = true
        · simp only [hop, if_true]
          have hf := fserrCall_abs c hn.1 s2
          have hfs := (fserrCall_same c s2).1
          generalize fserrCall c s2 = z at hf hfs ⊢
          obtain ⟨s3, e3⟩ := z
          simp only [] at hf
          have hpop := pop_nf c s1 s2 s3 p e3 hor' hfs
          rw [hpop.1, hpop.2, runT_single, ← hf]
        · simp only [hop, Bool.false_eq_true, if_false]
          have hshort2 : ∀ d ∈ s2.giDirs, d.length < p.length + 1 := by
            intro d hdm
            rcases hor with ⟨_, h2⟩ | ⟨_, hd2, _⟩
            · subst h2; have := hshort1 d hdm; omega
            · rw [hd2] at hdm
              rcases List.mem_append.mp hdm with hdm | hdm
              · have := hshort1 d hdm; omega
              · simp at hdm; subst hdm; omega
          have hw := walkEntries_trace c hn hd f (if c.useGitignore then G ++ [giEntryOf f ⟨p, gi, 0⟩] else G) p es 0 s2
            (by
              intro hu
              rcases hor with ⟨hu', _⟩ | ⟨_, _, x, hx2, hxe⟩
              · rw [hu] at hu'; cases hu'
              · rw [hx2, hs.1, hg hu, hxe (by rw [hexc]; exact hexf)]; simp [hu])
            hshort2
          have hst := (walkEntries_stack c hx f p es 0 s2 hshort2).1
          generalize walkEntries c f s2 p es 0 = z at hw hst ⊢
          obtain ⟨s3, e3⟩ := z
          simp only [] at hw
          have hpop := pop_nf c s1 s2 s3 p e3 hor' hst
          rw [hpop.1, hpop.2, ← hw]
theorem walkEntries_trace (c : Cfg) (hn : NFCfg c) (hd : DomainLaw c.giMatch) (f : Faults) (G : List GiEntry) (p : Path) :
    ∀ (es : List (String × Node)) (k : Nat) (s : St), (c.useGitignore = true → s.gis = G) →
      (∀ d ∈ s.giDirs, d.length < p.length + 1) →
      (abs (walkEntries c f s p es k).1, (walkEntries c f s p es k).2) = runT c (abs s) (traceL c f G p es k)
  | [], k, s, _, _ => by
    simp only [walkEntries, traceL]
    by_cases hr : f.readEntryFail p k = true
    · simp only [hr, if_true]
      rw [runT_single]; exact fserrCall_abs c hn.1 s
    · simp only [hr, Bool.false_eq_true, if_false]
      rfl
  | (name, n) :: rest, k, s, hg, hshort => by
    simp only [walkEntries, traceL]
    by_cases hr : f.readEntryFail p k = true
    · simp only [hr, if_true]
      rw [runT_single]; exact fserrCall_abs c hn.1 s
    · simp only [hr, Bool.false_eq_true, if_false]
      have hsh : ∀ d ∈ s.giDirs, d.length < (p ++ [name]).length := by
        intro d hd; have := hshort d hd; simp; omega
      have hw := walkNode_trace c hn hd f G (p ++ [name]) n s hg hsh
      have hst := (walkNode_stack c hn.2 f (p ++ [name]) n s hsh).1
      generalize walkNode c f s (p ++ [name]) n = z at hw hst ⊢
      obtain ⟨s1, e1⟩ := z
      simp only [] at hw
      rw [runT_append, ← hw]
      simp only []
      by_cases he : e1 = .none
      · subst he
        simp only [ne_eq, not_true_eq_false, if_false, if_true]
        exact walkEntries_trace c hn hd f G p rest (k+1) s1 (fun hu => by rw [hst.1]; exact hg hu)
          (by rw [hst.2]; exact hshort)
      · simp [he]
end

end Scalibr.Walk

namespace Scalibr.Walk

/-! ### whole scans -/

theorem walkFrom_trace (c : Cfg) (hn : NFCfg c) (hd : DomainLaw c.giMatch) (f : Faults) (G : List GiEntry)
    (root : Node) (p : Path) (s : St) (hg : c.useGitignore = true → s.gis = G) (hgd : s.giDirs = []) :
    (abs (walkFrom c f s root p).1, (walkFrom c f s root p).2) = runT c (abs s)
      (if f.statFail p then [[]] else match lookup root p with
        | none => [[]]
        | some n => trace c f G p n) := by
  unfold walkFrom
  by_cases hs : f.statFail p = true
  · simp only [hs, if_true]
    rw [runT_single]; exact fserrCall_abs c hn.1 s
  · simp only [hs, Bool.false_eq_true, if_false]
    cases hl : lookup root p with
    | none => simp only []; rw [runT_single]; exact fserrCall_abs c hn.1 s
    | some n => exact walkNode_trace c hn hd f G p n s hg (by rw [hgd]; simp)

/-- between walks both gitignore stacks are empty -/
def Clean (s : St) : Prop := s.gis = [] ∧ s.giDirs = []

theorem walkRequested_trace (c : Cfg) (hn : NFCfg c) (hd : DomainLaw c.giMatch) (f : Faults) (root : Node) (p : Path)
    (s : St) (hi : Clean s) :
    (abs (walkRequested c f s root p).1, (walkRequested c f s root p).2) = runT c (abs s) (traceRequested c f root p) ∧
    Clean (walkRequested c f s root p).1 := by
  have heo := hn.1
  unfold walkRequested traceRequested
  by_cases hs : f.statFail p = true
  · simp only [hs, if_true]
    have := (fserrCall_same c s).1
    exact ⟨by rw [runT_single]; exact fserrCall_abs c hn.1 s, this.1.trans hi.1, this.2.trans hi.2⟩
  · simp only [hs, Bool.false_eq_true, if_false]
    cases hl : lookup root p with
    | none =>
      simp only []
      have := (fserrCall_same c s).1
      exact ⟨by rw [runT_single]; exact fserrCall_abs c hn.1 s, this.1.trans hi.1, this.2.trans hi.2⟩
    | some n =>
      cases n with
      | file k sz =>
        simp only []
        have hp := prologue_abs c s
        have hps := prologue_same c s
        generalize prologue c s = x at hp hps ⊢
        obtain ⟨s1, e1⟩ := x
        simp only [] at hp hps
        cases e1 with
        | some e =>
          rw [runT_cons_err c _ _ e _ _ hp]
          exact ⟨rfl, hps.1.trans hi.1, hps.2.trans hi.2⟩
        | none =>
          rw [runT_cons_ok c _ _ _ _ hp, runT_nil]
          simp only []
          have hl2 := handleLeaf_nf c hn f [] s1 p (statKind k) sz (fun _ => by rw [hps.1, hi.1])
          have hls := (handleLeaf_same c hn.2 f s1 p (statKind k) sz).1
          rw [mustOne_nogi] at hl2
          generalize handleLeaf c f s1 p (statKind k) sz = y at hl2 hls ⊢
          obtain ⟨s2, e2⟩ := y
          simp only [] at hl2
          rw [hl2.1, hl2.2]
          exact ⟨rfl, (hls.1.trans hps.1).trans hi.1, (hls.2.trans hps.2).trans hi.2⟩
      | dir gi es =>
        simp only []
        cases hu : c.useGitignore with
        | true =>
          simp only [if_true, heo, Bool.and_false, Bool.false_eq_true, if_false]
          have hw := walkFrom_trace c hn hd f (parentGis f root p).1 root p { s with gis := (parentGis f root p).1 }
            (fun _ => rfl) hi.2
          have hst := (walkFrom_stack c hn.2 f root p { s with gis := (parentGis f root p).1 } hi.2).1
          simp only [hs, Bool.false_eq_true, if_false, hl] at hw
          generalize walkFrom c f { s with gis := (parentGis f root p).1 } root p = z at hw hst ⊢
          obtain ⟨s3, e3⟩ := z
          simp only [] at hw
          exact ⟨hw, rfl, hst.2.trans hi.2⟩
        | false =>
          simp only [Bool.false_eq_true, if_false]
          have hw := walkFrom_trace c hn hd f [] root p s (fun h => by rw [hu] at h; cases h) hi.2
          have hst := (walkFrom_stack c hn.2 f root p s hi.2).1
          simp only [hs, Bool.false_eq_true, if_false, hl] at hw
          generalize walkFrom c f s root p = z at hw hst ⊢
          obtain ⟨s3, e3⟩ := z
          simp only [] at hw
          exact ⟨hw, rfl, hst.2.trans hi.2⟩

theorem walkPaths_trace (c : Cfg) (hn : NFCfg c) (hd : DomainLaw c.giMatch) (f : Faults) (root : Node) :
    ∀ (ps : List Path) (s : St), Clean s →
      (abs (walkPaths c f root s ps).1, (walkPaths c f root s ps).2) = runT c (abs s) (ps.flatMap (traceRequested c f root)) ∧
      Clean (walkPaths c f root s ps).1
  | [], s, hi => by simp only [walkPaths, List.flatMap_nil, runT_nil]; exact ⟨trivial, hi⟩
  | p :: rest, s, hi => by
    simp only [walkPaths, List.flatMap_cons]
    have h1 := walkRequested_trace c hn hd f root p s hi
    generalize walkRequested c f s root p = x at h1 ⊢
    obtain ⟨s1, e1⟩ := x
    simp only [] at h1
    rw [runT_append, ← h1.1]
    simp only []
    by_cases he : e1 = .none
    · subst he
      simp only [ne_eq, not_true_eq_false, if_false, if_true]
      exact walkPaths_trace c hn hd f root rest s1 h1.2
    · simp only [ne_eq, he, not_false_eq_true, if_true, if_false]
      exact ⟨trivial, h1.2⟩

theorem runRoot_trace (c : Cfg) (hn : NFCfg c) (hd : DomainLaw c.giMatch) (f : Faults) (root : Node) (s : St) (hi : Clean s) :
    (abs (runRoot c f s root).1, (runRoot c f s root).2) = runT c (abs s) (traceRoot c f root) ∧
    Clean (runRoot c f s root).1 := by
  unfold runRoot traceRoot
  simp only []
  have hi' : Clean { s with pkgs := [], errs := [], found := [] } := hi
  by_cases hp : c.paths.isEmpty = true
  · simp only [hp, if_true]
    have := walkFrom_trace c hn hd f [] root [] { s with pkgs := [], errs := [], found := [] } (fun _ => hi'.1) hi'.2
    have hst := (walkFrom_stack c hn.2 f root [] { s with pkgs := [], errs := [], found := [] } hi'.2).1
    simp only [lookup] at this
    exact ⟨this, hst.1.trans hi'.1, hst.2.trans hi'.2⟩
  · simp only [hp, Bool.false_eq_true, if_false]
    exact walkPaths_trace c hn hd f root c.paths _ hi'

theorem runRoots_trace (c : Cfg) (hn : NFCfg c) (hd : DomainLaw c.giMatch) :
    ∀ (roots : List (Node × Faults)) (s : St) (acc : List Pkg) (sts : List (Nat × Status)), Clean s →
      (runRoots c s acc sts roots).err = (runT c (abs s) (traceScan c roots)).2 ∧
      (runRoots c s acc sts roots).visited = (runT c (abs s) (traceScan c roots)).1.visited ∧
      (runRoots c s acc sts roots).calls = (runT c (abs s) (traceScan c roots)).1.calls
  | [], s, acc, sts, _ => by simp [runRoots, traceScan, runT_nil, abs]
  | (r, f) :: rest, s, acc, sts, hi => by
    simp only [runRoots, traceScan, List.flatMap_cons]
    have h1 := runRoot_trace c hn hd f r s hi
    generalize runRoot c f s r = x at h1 ⊢
    obtain ⟨s1, e1⟩ := x
    simp only [] at h1
    rw [runT_append, ← h1.1]
    simp only []
    by_cases he : e1 = .none
    · subst he
      simp only [ne_eq, not_true_eq_false, if_false, if_true]
      exact runRoots_trace c hn hd rest s1 _ _ h1.2
    · simp [he, abs]

/-- **Model A is the sequential machine over the specification's trace** (whole scan): when filesystem
errors are not fatal and extractors do not panic, then for every forest, fault plan, option combination,
inode limit and cancellation point the scan's error, its `AfterInodeVisited` count and its extraction
attempts are those of `runT` on `traceScan`. -/
theorem run_trace (c : Cfg) (hn : NFCfg c) (hd : DomainLaw c.giMatch) (roots : List (Node × Faults)) :
    (run c roots).err = (runT c ⟨0, 0, 0, c.cancelBefore, []⟩ (traceScan c roots)).2 ∧
    (run c roots).visited = (runT c ⟨0, 0, 0, c.cancelBefore, []⟩ (traceScan c roots)).1.visited ∧
    (run c roots).calls = (runT c ⟨0, 0, 0, c.cancelBefore, []⟩ (traceScan c roots)).1.calls := by
  unfold run
  exact runRoots_trace c hn hd roots { cancelled := c.cancelBefore } [] [] ⟨rfl, rfl⟩

end Scalibr.Walk

namespace Scalibr.Walk

/-! ### `visits` is the length of the trace -/

mutual
theorem trace_length (c : Cfg) (f : Faults) (G : List GiEntry) (p : Path) :
    ∀ n : Node, (trace c f G p n).length = visits c f G p n
  | .file k sz => by simp [trace, visits]
  | .dir gi es => by
    simp only [trace, visits]
    split
    · rfl
    · split
      · rfl
      · simp only [List.length_cons]
        rw [traceL_length c f _ p es 0]; omega
theorem traceL_length (c : Cfg) (f : Faults) (G : List GiEntry) (p : Path) :
    ∀ (es : List (String × Node)) (k : Nat), (traceL c f G p es k).length = visitsL c f G p es k
  | [], k => by simp only [traceL, visitsL]; split <;> rfl
  | (s, n) :: rest, k => by
    simp only [traceL, visitsL]
    split
    · rfl
    · rw [List.length_append, trace_length c f G (p ++ [s]) n, traceL_length c f G p rest (k+1)]
end

theorem length_flatMap_sum {α β} (l : List α) (g : α → List β) :
    (l.flatMap g).length = (l.map fun a => (g a).length).sum := by
  induction l with
  | nil => rfl
  | cons a as ih => simp [List.flatMap_cons, ih]

theorem traceRequested_length (c : Cfg) (f : Faults) (root : Node) (p : Path) :
    (traceRequested c f root p).length = visitsRequested c f root p := by
  unfold traceRequested visitsRequested
  split
  · rfl
  · split
    · rfl
    · exact trace_length c f _ p _
    · rfl

theorem traceRoot_length (c : Cfg) (f : Faults) (root : Node) :
    (traceRoot c f root).length = visitsRoot c f root := by
  unfold traceRoot visitsRoot
  split
  · split
    · rfl
    · exact trace_length c f [] [] root
  · rw [length_flatMap_sum]
    congr 1
    exact List.map_congr_left (fun p _ => traceRequested_length c f root p)

theorem traceScan_length (c : Cfg) (roots : List (Node × Faults)) :
    (traceScan c roots).length = visitsScan c roots := by
  unfold traceScan visitsScan
  rw [length_flatMap_sum]
  congr 1
  exact List.map_congr_left (fun rf _ => traceRoot_length c rf.2 rf.1)

end Scalibr.Walk
