/-
Model A, for EVERY configuration in which filesystem errors are not fatal and extractors do not panic
(any inode limit, any cancellation point, cancelled before the scan or not), is a plain sequential
machine over the specification's trace of `handleFile` calls (`Spec/WalkCount.lean`):

  for each call of the trace, in order:   count the inode — fail with MaxInodes beyond the limit;
                                          report the visit — fail when the context is cancelled;
                                          make the call's attempts (the k-th `Extract` cancels the context).

`run_trace` states this for whole scans, all forests and fault plans.  The exact inode-limit theorem
(`Proofs/WalkLimit.lean`) and the cancellation theorem (`Proofs/WalkCancel.lean`) are list-level
corollaries about this machine.
-/
import Scalibr.Spec.WalkCount
import Scalibr.Proofs.WalkSpec
import Scalibr.Proofs.WalkTop
namespace Scalibr.Walk

/-- errors are not fatal, extractors do not panic; limit and cancellation are arbitrary -/
def NFCfg (c : Cfg) : Prop := c.errorOnFSErrors = false ∧ ∀ e p, (c.extract e p).panics = false

/-- the part of the engine state the machine talks about -/
structure AS where
  inodes : Nat
  visited : Nat
  extracts : Nat
  cancelled : Bool
  calls : List Call
deriving DecidableEq, Repr

def abs (s : St) : AS := ⟨s.inodes, s.visited, s.extracts, s.cancelled, s.calls⟩

/-- does one of the `Extract` calls number `x+1 … x+m` cancel the context? -/
def hits (ca : Option Nat) (x m : Nat) : Bool :=
  match ca with
  | none => false
  | some k => decide (x < k ∧ k ≤ x + m)

/-- making the attempts of one `handleFile` call -/
def aBlock (c : Cfg) (a : AS) (blk : List Call) : AS :=
  { a with calls := a.calls ++ blk, extracts := a.extracts + openedCount blk,
           cancelled := a.cancelled || hits c.cancelAt a.extracts (openedCount blk) }

/-- the prologue of `handleFile` on the abstract state -/
def aPro (c : Cfg) (a : AS) : AS × Option Err :=
  let a := { a with inodes := a.inodes + 1 }
  if c.maxInodes > 0 && a.inodes > c.maxInodes then (a, some .maxInodes) else
  let a := { a with visited := a.visited + 1 }
  if a.cancelled then (a, some .ctx) else (a, none)

/-- one `handleFile` call -/
def visit (c : Cfg) (a : AS) (blk : List Call) : AS × Err :=
  match aPro c a with
  | (a, some e) => (a, e)
  | (a, none) => (aBlock c a blk, .none)

/-- the machine: the calls of the trace in order, stopping at the first failure -/
def runT (c : Cfg) : AS → List (List Call) → AS × Err
  | a, [] => (a, .none)
  | a, b :: rest =>
    match visit c a b with
    | (a', .none) => runT c a' rest
    | (a', e) => (a', e)

end Scalibr.Walk
