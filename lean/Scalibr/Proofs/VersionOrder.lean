import Scalibr.Spec.VersionOrder
namespace Scalibr.Upgrade

theorem filter_length_le {α : Type} (p q : α → Bool) (l : List α) (h : ∀ x ∈ l, p x = true → q x = true) :
    (l.filter p).length ≤ (l.filter q).length := by
  induction l with
  | nil => simp
  | cons x xs ih =>
    have ih' := ih (fun y hy => h y (by simp [hy]))
    simp only [List.filter_cons]
    cases hp : p x
    · cases hq : q x <;> simp <;> omega
    · have := h x (by simp) hp
      simp [this]; omega

theorem filter_length_lt {α : Type} (p q : α → Bool) (l : List α) (h : ∀ x ∈ l, p x = true → q x = true)
    (a : α) (ha : a ∈ l) (hpa : p a = false) (hqa : q a = true) :
    (l.filter p).length < (l.filter q).length := by
  induction l with
  | nil => cases ha
  | cons x xs ih =>
    have hle := filter_length_le p q xs (fun y hy => h y (by simp [hy]))
    simp only [List.filter_cons]
    simp only [List.mem_cons] at ha
    rcases ha with rfl | ha
    · simp [hpa, hqa]; omega
    · have := ih (fun y hy => h y (by simp [hy])) ha
      cases hp : p x
      · cases hq : q x <;> simp <;> omega
      · have := h x (by simp) hp
        simp [this]; omega

theorem lt_trans_on {α : Type} (cmp : α → α → Ordering) (vs : List α) (T : TotalPreorderOn cmp vs)
    (c a b : α) (hc : c ∈ vs) (ha : a ∈ vs) (hb : b ∈ vs) (h1 : cmp c a = .lt) (h2 : cmp a b ≠ .gt) : cmp c b = .lt := by
  cases hcb : cmp c b with
  | lt => rfl
  | eq =>
    exfalso
    have hbc : cmp b c ≠ .gt := by rw [T.swap c hc b hb, hcb]; simp [Ordering.swap]
    have := T.le_trans a ha b hb c hc h2 hbc
    rw [T.swap c hc a ha, h1] at this; simp [Ordering.swap] at this
  | gt =>
    exfalso
    have hbc : cmp b c ≠ .gt := by rw [T.swap c hc b hb, hcb]; simp [Ordering.swap]
    have := T.le_trans a ha b hb c hc h2 hbc
    rw [T.swap c hc a ha, h1] at this; simp [Ordering.swap] at this

/-- a comparator that is a total preorder on `vs` has a rank function there -/
theorem rank_of_total_preorder {α : Type} (cmp : α → α → Ordering) (vs : List α) (T : TotalPreorderOn cmp vs) :
    RankFor cmp vs (countBelow cmp vs) := by
  intro a ha b hb
  unfold countBelow
  cases hab : cmp a b with
  | lt =>
    symm; rw [Nat.compare_eq_lt]
    apply filter_length_lt _ _ vs _ a ha
    · simp [T.refl a ha]
    · simp [hab]
    · intro c hc h
      have hca : cmp c a = .lt := by simpa using h
      simp [lt_trans_on cmp vs T c a b hc ha hb hca (by simp [hab])]
  | eq =>
    symm; rw [Nat.compare_eq_eq]
    have hba : cmp b a = .eq := by rw [T.swap a ha b hb, hab]; rfl
    apply Nat.le_antisymm
    · apply filter_length_le; intro c hc h
      have hca : cmp c a = .lt := by simpa using h
      simp [lt_trans_on cmp vs T c a b hc ha hb hca (by simp [hab])]
    · apply filter_length_le; intro c hc h
      have hcb : cmp c b = .lt := by simpa using h
      simp [lt_trans_on cmp vs T c b a hc hb ha hcb (by simp [hba])]
  | gt =>
    symm; rw [Nat.compare_eq_gt]
    have hba : cmp b a = .lt := by rw [T.swap a ha b hb, hab]; rfl
    apply filter_length_lt _ _ vs _ b hb
    · simp [T.refl b hb]
    · simp [hba]
    · intro c hc h
      have hcb : cmp c b = .lt := by simpa using h
      simp [lt_trans_on cmp vs T c b a hc hb ha hcb (by simp [hba])]

/-- and conversely: whatever has a rank function is a total preorder on those versions -/
theorem total_preorder_of_rank {α : Type} (cmp : α → α → Ordering) (vs : List α) (rank : α → Nat)
    (R : RankFor cmp vs rank) : TotalPreorderOn cmp vs := by
  constructor
  · intro a ha; rw [R a ha a ha]; simp
  · intro a ha b hb
    rw [R a ha b hb, R b hb a ha]
    exact (Nat.compare_swap (rank a) (rank b)).symm
  · intro a ha b hb c hc h1 h2
    rw [R a ha b hb] at h1; rw [R b hb c hc] at h2; rw [R a ha c hc]
    rw [ne_eq, Nat.compare_eq_gt] at *
    omega

theorem rank_exists_iff {α : Type} (cmp : α → α → Ordering) (vs : List α) :
    (∃ rank, RankFor cmp vs rank) ↔ TotalPreorderOn cmp vs :=
  ⟨fun ⟨r, R⟩ => total_preorder_of_rank cmp vs r R, fun T => ⟨_, rank_of_total_preorder cmp vs T⟩⟩

/-- three versions ordered in a cycle (the shape of Maven's `1 < 1.foo < 1rc`, `1 > 1rc`) have no rank function -/
theorem no_rank_of_cycle {α : Type} (cmp : α → α → Ordering) (a b c : α)
    (h1 : cmp a b = .lt) (h2 : cmp b c = .lt) (h3 : cmp a c = .gt) : ¬ ∃ rank, RankFor cmp [a, b, c] rank := by
  rintro ⟨r, R⟩
  have e1 := R a (by simp) b (by simp)
  have e2 := R b (by simp) c (by simp)
  have e3 := R a (by simp) c (by simp)
  rw [h1] at e1; rw [h2] at e2; rw [h3] at e3
  have := Nat.compare_eq_lt.mp e1.symm
  have := Nat.compare_eq_lt.mp e2.symm
  have := Nat.compare_eq_gt.mp e3.symm
  omega

end Scalibr.Upgrade
