/-
Fault containment WITHOUT any hypothesis on the fault plan (C09, clause 2): what is owed under an arbitrary
fault plan — including plans that mix an unreadable `.gitignore` with any other fault, and scans of requested
paths — expressed through the FAULT-FREE rule `mustOne c noFaults`, on the tree from which the contents of the
unreadable `.gitignore` files have been removed (`stripGi`: an unreadable `.gitignore` is an absent one).
`run_contained_any` is the engine-level statement (benign scan, any `c.paths`, any number of roots).
-/
import Scalibr.Proofs.WalkContain
namespace Scalibr.Walk

theorem giEntryOf_noFaults_stripGiD (f : Faults) (d : DirInfo) :
    giEntryOf noFaults (stripGiD f d) = giEntryOf f d := by
  unfold giEntryOf stripGiD noFaults
  by_cases h : f.openFail (d.path ++ [".gitignore"]) = true <;> simp [h]

theorem dirPasses_contained_of (c : Cfg) (f : Faults) (above : List GiEntry) (dirs : List DirInfo)
    (hg : ∀ d ∈ dirs, giEntryOf f d = giEntryOf noFaults d) (i : Nat) :
    dirPasses c f above dirs i =
      (dirPasses c noFaults above dirs i &&
        (dirs[i]?).all fun d => !(f.openFail d.path || (List.range (d.childIdx + 1)).any fun k => f.readEntryFail d.path k)) := by
  unfold dirPasses
  have hmap : (dirs.take i).map (giEntryOf f) = (dirs.take i).map (giEntryOf noFaults) :=
    List.map_congr_left (fun d hd => hg d (List.mem_of_mem_take hd))
  cases dirs[i]? with
  | none => simp
  | some d =>
    simp only [hmap, noFaults, Option.all_some]
    by_cases ho : f.openFail d.path = true
    · simp [ho]
    · have ho' : f.openFail d.path = false := by simpa using ho
      have hall : ((List.range (d.childIdx + 1)).all fun k => !f.readEntryFail d.path k)
          = !((List.range (d.childIdx + 1)).any fun k => f.readEntryFail d.path k) := by
        rw [List.all_eq_not_any_not]; simp
      have htrue : ((List.range (d.childIdx + 1)).all fun _ => true) = true := by simp
      simp [ho', hall, htrue]

theorem mustOne_contained_of (c : Cfg) (f : Faults) (above : List GiEntry) (r : FileRec)
    (hg : ∀ d ∈ r.dirs, giEntryOf f d = giEntryOf noFaults d) :
    mustOne c f above r =
      if faultHits c f r then []
      else (mustOne c noFaults above r).map fun cl => { cl with opened := readable f r } := by
  have hmap : r.dirs.map (giEntryOf f) = r.dirs.map (giEntryOf noFaults) :=
    List.map_congr_left (fun d hd => hg d hd)
  have hreach : reached c f above r =
      (reached c noFaults above r &&
        r.dirs.all fun d => !(f.openFail d.path || (List.range (d.childIdx + 1)).any fun k => f.readEntryFail d.path k)) := by
    unfold reached fileEligible
    rw [hmap]
    have : (List.range r.dirs.length).all (dirPasses c f above r.dirs) =
        (List.range r.dirs.length).all (fun i => dirPasses c noFaults above r.dirs i &&
          (r.dirs[i]?).all fun d => !(f.openFail d.path || (List.range (d.childIdx + 1)).any fun k => f.readEntryFail d.path k)) := by
      congr 1; funext i; exact dirPasses_contained_of c f above r.dirs hg i
    rw [this, all_range_split, all_range_getElem]
    simp only [Bool.and_assoc, Bool.and_comm, Bool.and_left_comm]
  have hsize : sizeOk c f r = (sizeOk c noFaults r && !(decide (c.maxFileSize > 0) && f.statFail r.path)) := by
    unfold sizeOk noFaults
    cases decide (c.maxFileSize > 0) <;> cases f.statFail r.path <;> simp
  unfold mustOne faultHits
  rw [hreach, hsize]
  have hany : (r.dirs.any fun d => f.openFail d.path || (List.range (d.childIdx + 1)).any fun k => f.readEntryFail d.path k)
      = !(r.dirs.all fun d => !(f.openFail d.path || (List.range (d.childIdx + 1)).any fun k => f.readEntryFail d.path k)) := by
    rw [List.all_eq_not_any_not]; simp
  rw [hany]
  cases reached c noFaults above r <;> cases sizeOk c noFaults r <;>
    cases (r.dirs.all fun d => !(f.openFail d.path || (List.range (d.childIdx + 1)).any fun k => f.readEntryFail d.path k)) <;>
    cases (decide (c.maxFileSize > 0) && f.statFail r.path) <;> simp [List.map_map, Function.comp_def]

theorem faultHits_stripGiR (c : Cfg) (f : Faults) (r : FileRec) : faultHits c f (stripGiR f r) = faultHits c f r := by
  unfold faultHits stripGiR
  simp only [List.any_map]
  rfl

theorem readable_stripGiR (f : Faults) (r : FileRec) : readable f (stripGiR f r) = readable f r := rfl

theorem mustOne_contained_any (c : Cfg) (f : Faults) (above : List GiEntry) (r : FileRec) :
    mustOne c f above r =
      if faultHits c f r then []
      else (mustOne c noFaults above (stripGiR f r)).map fun cl => { cl with opened := readable f r } := by
  rw [← mustOne_stripGi c f above r, mustOne_contained_of c f above (stripGiR f r), faultHits_stripGiR, readable_stripGiR]
  intro d hd
  simp only [stripGiR, List.mem_map] at hd
  obtain ⟨d0, _, rfl⟩ := hd
  rw [giEntryOf_stripGiD, giEntryOf_noFaults_stripGiD]

theorem mustFrom_contained_any (c : Cfg) (f : Faults) (above : List GiEntry) (p : Path) (n : Node) :
    mustFrom c f above p n =
      (allFiles p [] (stripGi f p n)).flatMap fun r =>
        if faultHits c f r then []
        else (mustOne c noFaults above r).map fun cl => { cl with opened := readable f r } := by
  unfold mustFrom
  have := allFiles_stripGi f p n []
  simp only [List.map_nil] at this
  rw [this, List.flatMap_map]
  apply flatMap_congr'
  intro r _
  rw [faultHits_stripGiR, readable_stripGiR]
  exact mustOne_contained_any c f above r

/-! ### requested paths and roots -/

/-- fault-free attempts of the files of a (sub)tree that no fault lies on the way to, on the tree from which
the unreadable `.gitignore` contents have been removed -/
def containedFromAny (c : Cfg) (f : Faults) (above : List GiEntry) (p : Path) (n : Node) : List Call :=
  (allFiles p [] (stripGi f p n)).flatMap fun r =>
    if faultHits c f r then []
    else (mustOne c noFaults above r).map fun cl => { cl with opened := readable f r }

def containedRequestedAny (c : Cfg) (f : Faults) (root : Node) (p : Path) : List Call :=
  if f.statFail p then [] else
  match lookup root p with
  | none => []
  | some (.dir gi es) =>
    containedFromAny c f (if c.useGitignore then (parentGis f root p).1 else []) p (.dir gi es)
  | some (.file k sz) =>
    if faultHits { c with useGitignore := false } f ⟨p, statKind k, sz, []⟩ then []
    else (mustOne { c with useGitignore := false } noFaults [] ⟨p, statKind k, sz, []⟩).map
      fun cl => { cl with opened := readable f ⟨p, statKind k, sz, []⟩ }

def containedRootAny (c : Cfg) (f : Faults) (root : Node) : List Call :=
  if c.paths.isEmpty then (if f.statFail [] then [] else containedFromAny c f [] [] root)
  else c.paths.flatMap (containedRequestedAny c f root)

theorem mustRequested_contained_any (c : Cfg) (f : Faults) (root : Node) (p : Path) :
    mustRequested c f root p = containedRequestedAny c f root p := by
  unfold mustRequested containedRequestedAny
  split
  · rfl
  · cases lookup root p with
    | none => rfl
    | some n =>
      cases n with
      | file k sz =>
        simp only []
        rw [mustOne_contained_any]
        rfl
      | dir gi es =>
        simp only []
        exact mustFrom_contained_any c f _ p _

theorem mustRoot_contained_any (c : Cfg) (f : Faults) (root : Node) :
    mustRoot c f root = containedRootAny c f root := by
  unfold mustRoot containedRootAny
  split
  · split
    · rfl
    · exact mustFrom_contained_any c f [] [] root
  · exact flatMap_congr' (fun p _ => mustRequested_contained_any c f root p)

theorem run_contained_any (c : Cfg) (hb : Benign c) (ho : GiOK c) (roots : List (Node × Faults)) :
    (run c roots).err = .none ∧
    (run c roots).calls = roots.flatMap fun rf => containedRootAny c rf.2 rf.1 := by
  have h := run_spec c hb roots ho
  refine ⟨h.1, ?_⟩
  rw [h.2]
  unfold mustExtract
  apply flatMap_congr'
  intro rf _
  obtain ⟨r, f⟩ := rf
  exact mustRoot_contained_any c f r


/-! ### the gitignore context of a requested directory, fault-free form

The patterns `ParseParentGitignores` collects under plan `f` are those collected WITHOUT faults on the
stripped tree: so `above` in `containedRequestedAny` is itself a fault-free quantity. -/

theorem find?_stripGiL (f : Faults) (p : Path) (s : String) : ∀ (es : List (String × Node)),
    (stripGiL f p es).find? (·.1 = s) = (es.find? (·.1 = s)).map fun x => (x.1, stripGi f (p ++ [s]) x.2)
  | [] => by simp [stripGiL]
  | (t, n) :: rest => by
    simp only [stripGiL, List.find?_cons]
    by_cases h : t = s
    · subst h; simp
    · simp [h, find?_stripGiL f p s rest]

theorem lookup_stripGi (f : Faults) : ∀ (q p : Path) (n : Node),
    lookup (stripGi f p n) q = (lookup n q).map (stripGi f (p ++ q))
  | [], p, n => by simp [lookup]
  | s :: rest, p, .file k sz => by simp [stripGi, lookup]
  | s :: rest, p, .dir gi es => by
    simp only [stripGi, lookup, find?_stripGiL]
    cases es.find? (·.1 = s) with
    | none => simp
    | some x =>
      obtain ⟨t, ch⟩ := x
      simp only [Option.map_some]
      rw [lookup_stripGi f rest (p ++ [s]) ch]
      simp [List.append_assoc]

theorem giOfDir_stripGi (f : Faults) (root : Node) (d : Path) :
    giOfDir noFaults (stripGi f [] root) d = giOfDir f root d := by
  unfold giOfDir
  rw [lookup_stripGi]
  simp only [noFaults, Bool.false_eq_true, if_false, List.nil_append]
  cases lookup root d with
  | none => simp
  | some n =>
    cases n with
    | file k sz => simp [stripGi]
    | dir gi es =>
      simp only [Option.map_some, stripGi]
      by_cases h : f.openFail (d ++ [".gitignore"]) = true
      · simp [h]
      · have h' : f.openFail (d ++ [".gitignore"]) = false := by simpa using h
        simp only [h', Bool.false_eq_true, if_false]
        cases gi <;> rfl

theorem parentGis_stripGi (f : Faults) (root : Node) (p : Path) :
    (parentGis noFaults (stripGi f [] root) p).1 = (parentGis f root p).1 := by
  unfold parentGis
  simp only []
  exact List.map_congr_left (fun d _ => giOfDir_stripGi f root d)


/-! ### examples (specification side, by evaluation) -/

namespace ContainAnyEx

def exC : Cfg := { nExt := 1, required := fun _ _ => true, extract := fun _ _ => {}, useGitignore := true,
                   giMatch := matcherMatch }
/-- `a/.gitignore` ignores `a/x`; `b` holds two files -/
def exTree : Node :=
  .dir none [("a", .dir (some [⟨"x", false, false⟩]) [("x", .file .reg 1), ("y", .file .reg 1)]),
             ("b", .dir none [("v", .file .reg 1), ("w", .file .reg 1)])]
/-- BOTH an unreadable `a/.gitignore` AND a failing second read of directory `b` -/
def exPlan : Faults :=
  { openFail := fun p => p = ["a", ".gitignore"], readEntryFail := fun p k => p = ["b"] && k = 1 }

example : Benign exC ∧ GiOK exC := ⟨⟨rfl, rfl, rfl, rfl, fun _ _ => rfl⟩, matcherMatch_domain⟩
example : ¬ NoGiFaults exPlan := by intro h; have := h ["a"]; revert this; decide

/-- the mixed plan: the otherwise ignored `a/x` is owed, `b/w` (after the failing read) is lost, `b/v` is kept -/
example : containedRootAny exC exPlan exTree = mustRoot exC exPlan exTree ∧
    mustRoot exC exPlan exTree = [⟨0, ["a", "x"], 1, true⟩, ⟨0, ["a", "y"], 1, true⟩, ⟨0, ["b", "v"], 1, true⟩] := by decide
/-- with a readable `a/.gitignore` the file `a/x` is ignored -/
example : mustRoot exC { readEntryFail := fun p k => p = ["b"] && k = 1 } exTree
    = [⟨0, ["a", "y"], 1, true⟩, ⟨0, ["b", "v"], 1, true⟩] := by decide
/-- requested paths (a directory below the unreadable `.gitignore`'s directory, and a file), same mixed plan
plus a file that cannot be opened -/
example :
    let c := { exC with paths := [["a"], ["b", "w"]] }
    let f : Faults := { exPlan with openFail := fun p => p = ["a", ".gitignore"] || p = ["a", "y"] }
    containedRootAny c f exTree = mustRoot c f exTree ∧
    mustRoot c f exTree = [⟨0, ["a", "x"], 1, true⟩, ⟨0, ["a", "y"], 1, false⟩, ⟨0, ["b", "w"], 1, true⟩] := by decide
/-- an unreadable ROOT `.gitignore` seen from a requested sub-directory, mixed with a failing directory open -/
example :
    let c := { exC with paths := [["a"], ["b"]] }
    let t : Node := .dir (some [⟨"y", false, false⟩]) [("a", .dir none [("x", .file .reg 1), ("y", .file .reg 1)]),
                                                        ("b", .dir none [("y", .file .reg 1)])]
    let f : Faults := { openFail := fun p => p = [".gitignore"] || p = ["b"] }
    containedRootAny c f t = mustRoot c f t ∧
    mustRoot c f t = [⟨0, ["a", "x"], 1, true⟩, ⟨0, ["a", "y"], 1, true⟩] ∧
    mustRoot c {} t = [⟨0, ["a", "x"], 1, true⟩] := by decide

end ContainAnyEx

end Scalibr.Walk
