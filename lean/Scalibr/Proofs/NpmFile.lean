import Scalibr.Model.NpmFile
import Scalibr.Proofs.NpmWriter
namespace Scalibr.Npm

/-- what happens to one span under an entry-wise rewriting `g` of the sections -/
def mapSeg (quote : Str → Str) (g : Str × Str → Str × Str) : Seg → Seg
  | .raw b => .raw b
  | .val s k v b => setSpan quote s k v b (g (k, v)).2

theorem putBack_map (quote : Str → Str) (g : Str × Str → Str × Str) (f : File) :
    putBack quote f ((secOf .dev f).map g) ((secOf .opt f).map g) ((secOf .prod f).map g) = f.map (mapSeg quote g) := by
  induction f with
  | nil => rfl
  | cons x f ih =>
    cases x with
    | raw b => simp only [secOf, putBack, List.map, mapSeg, ih]
    | val s k v b =>
      cases s <;> simp [secOf, putBack, mapSeg, ih]

/-- the entry-wise rewriting all updates together perform -/
def substAll (us : List Up) (e : Str × Str) : Str × Str := us.foldl (fun e u => substEntry u e) e

theorem foldl_map_fusion {α β : Type} (f : β → α → α) (us : List β) (rs : List α) :
    us.foldl (fun rs u => rs.map (f u)) rs = rs.map (fun r => us.foldl (fun r u => f u r) r) := by
  induction us generalizing rs with
  | nil => simp
  | cons u us ih =>
    simp only [List.foldl]
    rw [ih, List.map_map]
    rfl

theorem writeFile_eq (quote : Str → Str) (f f' : File) (us : List Up) (hwf : WFdoc (docOf f)) (h : writeFile quote f us = some f') :
    f' = f.map (mapSeg quote (substAll us)) := by
  unfold writeFile at h
  cases hw : write (docOf f) us with
  | err => simp [hw] at h
  | ok d' =>
    simp only [hw, Option.some.injEq] at h
    have hd := write_eq_spec (docOf f) d' us hwf hw
    obtain ⟨h1, h2, h3⟩ := applyAll_sections us (docOf f)
    rw [← h, hd, h1, h2, h3]
    simp only [docOf]
    rw [foldl_map_fusion (fun u e => substEntry u e), foldl_map_fusion (fun u e => substEntry u e),
      foldl_map_fusion (fun u e => substEntry u e)]
    exact putBack_map quote (substAll us) f

theorem map_unchanged (quote : Str → Str) (g : Str × Str → Str × Str) (f : File)
    (h : ∀ s k v b, Seg.val s k v b ∈ f → (g (k, v)).2 = v) : f.map (mapSeg quote g) = f := by
  induction f with
  | nil => rfl
  | cons x f ih =>
    cases x with
    | raw b => simp only [List.map, mapSeg]; rw [ih (fun s k v b hm => h s k v b (by simp [hm]))]
    | val s k v b =>
      simp only [List.map, mapSeg, setSpan]
      rw [if_pos (h s k v b (by simp)), ih (fun s k v b hm => h s k v b (by simp [hm]))]

end Scalibr.Npm
