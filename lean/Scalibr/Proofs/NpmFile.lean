import Scalibr.Model.NpmFile
import Scalibr.Proofs.NpmWriter
namespace Scalibr.Npm

/-- what happens to one span under an entry-wise rewriting `g` of the sections -/
def mapSeg (g : Str × Str → Str × Str) : Seg → Seg
  | .raw b => .raw b
  | .val s k v => .val s k (g (k, v)).2

theorem putBack_map (g : Str × Str → Str × Str) (f : File) :
    putBack f ((secOf .dev f).map g) ((secOf .opt f).map g) ((secOf .prod f).map g) = f.map (mapSeg g) := by
  induction f with
  | nil => rfl
  | cons x f ih =>
    cases x with
    | raw b => simp only [secOf, putBack, List.map, mapSeg, ih]
    | val s k v =>
      cases s <;> simp [secOf, putBack, mapSeg, ih]

/-- the entry-wise rewriting all updates together perform -/
def substAll (us : List Up) (e : Str × Str) : Str × Str := us.foldl (fun e u => substEntry u e) e

theorem foldl_map_fusion {α β : Type} (f : β → α → α) (us : List β) (rs : List α) :
    us.foldl (fun rs u => rs.map (f u)) rs = rs.map (fun r => us.foldl (fun r u => f u r) r) := by
  induction us generalizing rs with
  | nil => simp
  | cons u us ih =>
    simp only [List.foldl]
    rw [ih, List.map_map]
    rfl

theorem writeFile_eq (f f' : File) (us : List Up) (hwf : WFdoc (docOf f)) (h : writeFile f us = some f') :
    f' = f.map (mapSeg (substAll us)) := by
  unfold writeFile at h
  cases hw : write (docOf f) us with
  | err => simp [hw] at h
  | ok d' =>
    simp only [hw, Option.some.injEq] at h
    have hd := write_eq_spec (docOf f) d' us hwf hw
    obtain ⟨h1, h2, h3⟩ := applyAll_sections us (docOf f)
    rw [← h, hd, h1, h2, h3]
    simp only [docOf]
    rw [foldl_map_fusion (fun u e => substEntry u e), foldl_map_fusion (fun u e => substEntry u e),
      foldl_map_fusion (fun u e => substEntry u e)]
    exact putBack_map (substAll us) f

theorem bytes_map_raw (q : Str → Str) (g : Str × Str → Str × Str) (f : File)
    (h : ∀ s k v, Seg.val s k v ∈ f → (g (k, v)).2 = v) : bytes q (f.map (mapSeg g)) = bytes q f := by
  induction f with
  | nil => rfl
  | cons x f ih =>
    cases x with
    | raw b => simp only [List.map, mapSeg, bytes]; rw [ih (fun s k v hm => h s k v (by simp [hm]))]
    | val s k v =>
      simp only [List.map, mapSeg, bytes]
      rw [h s k v (by simp), ih (fun s k v hm => h s k v (by simp [hm]))]

end Scalibr.Npm
