/-
C16(a) helper lemmas: `slices.SortFunc` (modelled by `isort`) on a list whose elements all satisfy a
predicate `P` only needs the comparator laws among `P`-elements; two permutations of such a list sort to
the same list when comparator-equal elements are equal.
-/
import Scalibr.Proofs.PatchCmp
import Scalibr.Proofs.Worklist
namespace Scalibr.Worklist
open Scalibr

theorem insertBy_map {α β} (f : α → β) (lt : β → β → Bool) (x : α) (l : List α) :
    insertBy lt (f x) (l.map f) = (insertBy (fun a b => lt (f a) (f b)) x l).map f := by
  induction l with
  | nil => rfl
  | cons y ys ih =>
    simp only [List.map_cons, insertBy]
    split
    · simp
    · simp [ih]

theorem isort_map {α β} (f : α → β) (lt : β → β → Bool) (l : List α) :
    isort lt (l.map f) = (isort (fun a b => lt (f a) (f b)) l).map f := by
  unfold isort
  suffices ∀ acc : List α, (l.map f).foldl (fun acc x => insertBy lt x acc) (acc.map f)
      = (l.foldl (fun acc x => insertBy (fun a b => lt (f a) (f b)) x acc) acc).map f from this []
  induction l with
  | nil => intro acc; rfl
  | cons x xs ih =>
    intro acc
    simp only [List.map_cons, List.foldl_cons]
    rw [insertBy_map, ih]

/-- `isort_eq_of_perm` with the comparator laws required only among elements satisfying `P` -/
theorem isort_eq_of_perm_on {α} (P : α → Prop) (lt : α → α → Bool)
    (asymm : ∀ a b, P a → P b → lt a b = true → lt b a = false)
    (negTrans : ∀ a b c, P a → P b → P c → lt b a = false → lt c b = false → lt c a = false)
    (l₁ l₂ : List α) (hp : l₁.Perm l₂) (hP : ∀ a ∈ l₁, P a)
    (sep : ∀ a b, a ∈ l₁ → b ∈ l₁ → lt a b = false → lt b a = false → a = b) :
    isort lt l₁ = isort lt l₂ := by
  have hP2 : ∀ a ∈ l₂, P a := fun a h => hP a (hp.symm.subset h)
  have e1 : l₁ = (l₁.pmap Subtype.mk hP).map Subtype.val := by
    rw [List.map_pmap]; simp [List.pmap_eq_map]
  have e2 : l₂ = (l₂.pmap Subtype.mk hP2).map Subtype.val := by
    rw [List.map_pmap]; simp [List.pmap_eq_map]
  rw [e1, e2, isort_map, isort_map]
  congr 1
  apply isort_eq_of_perm
  · intro a b; exact asymm a.1 b.1 a.2 b.2
  · intro a b c; exact negTrans a.1 b.1 c.1 a.2 b.2 c.2
  · exact hp.pmap _
  · intro a b ha hb h1 h2
    obtain ⟨a', ha', rfl⟩ := List.mem_pmap.mp ha
    obtain ⟨b', hb', rfl⟩ := List.mem_pmap.mp hb
    exact Subtype.ext (sep a' b' ha' hb' h1 h2)

/-- the Boolean `less` of a three-way comparator satisfies what `isort` needs -/
theorem cmp3_lt_asymm {α} {E : α → α → Prop} {c : α → α → Int} (h : Cmp3 E c) (a b : α) (e : E a b) :
    decide (c a b < 0) = true → decide (c b a < 0) = false := by
  have := h.flip a b e
  simp only [decide_eq_true_eq, decide_eq_false_iff_not]; omega

theorem cmp3_lt_negTrans {α} {E : α → α → Prop} {c : α → α → Int} (h : Cmp3 E c) (a b d : α)
    (e1 : E a b) (e2 : E b d) (e3 : E a d) :
    decide (c b a < 0) = false → decide (c d b < 0) = false → decide (c d a < 0) = false := by
  simp only [decide_eq_false_iff_not]
  exact h.negTrans a b d e1 e2 e3

theorem cmp3_eq_zero {α} {E : α → α → Prop} {c : α → α → Int} (h : Cmp3 E c) (a b : α) (e : E a b) :
    decide (c a b < 0) = false → decide (c b a < 0) = false → c a b = 0 := by
  have := h.flip a b e
  simp only [decide_eq_false_iff_not]; omega

/-- only non-empty patches are ever collected (`if len(patch.PackageUpdates) == 0 { continue }`) -/
theorem collected_ok (patchFn : Task → Option Patch) (grouped : Bool) (vulns : List Str) (σ : List Nat) (c : List Patch)
    (h : exec (outCP patchFn) (spawnCP patchFn grouped) σ (initCP vulns) = some ⟨[], c⟩) :
    ∀ p ∈ c, p.updates ≠ [] := by
  obtain ⟨ps, _, hc⟩ := exec_runs _ _ σ _ _ h rfl
  simp only [initCP, List.nil_append] at hc
  intro p hp
  rw [hc] at hp
  obtain ⟨t, _, ht⟩ := List.mem_filterMap.mp hp
  exact (outCP_some ht).2


end Scalibr.Worklist
