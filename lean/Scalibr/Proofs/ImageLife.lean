/-
Helper lemmas for the temp-dir life cycle of the image loader (Model/ImageLife.lean): the reverse loop over the chain
layers only ever touches the image's own directory, a failing loop has removed it, a successful one returns it.
-/
import Scalibr.Model.ImageLife
namespace Scalibr.ImageLife

theorem removeAll_addLayerDir (tmp : Tmp) (d i : Nat) : removeAll (addLayerDir tmp d i) d = removeAll tmp d := by
  unfold removeAll addLayerDir
  induction tmp with
  | nil => rfl
  | cons x tmp ih =>
    simp only [List.map_cons]
    by_cases hx : (x.name == d) = true
    · have h1 : (x.name != d) = false := by simp [bne, hx]
      simp only [hx, if_true, List.filter_cons, h1, Bool.false_eq_true, if_false]
      exact ih
    · have hx' : (x.name == d) = false := by cases h : (x.name == d) <;> simp_all
      have h1 : (x.name != d) = true := by simp [bne, hx']
      simp only [hx', Bool.false_eq_true, if_false, List.filter_cons, h1, if_true]
      rw [ih]

theorem removeAll_idem (tmp : Tmp) (d : Nat) : removeAll (removeAll tmp d) d = removeAll tmp d := by
  unfold removeAll; simp [List.filter_filter]

/-- whatever the loop does, it only ever touches the image's own directory -/
theorem loop_others (d : Nat) : ∀ (rs : List LayerRun) (tmp : Tmp), removeAll (loop d tmp rs).2 d = removeAll tmp d := by
  intro rs
  induction rs with
  | nil => intro tmp; rfl
  | cons r rest ih =>
    intro tmp
    unfold loop
    split
    · exact ih tmp
    · split
      · simp [handleImageError, removeAll_idem]
      · simp only
        split
        · simp [handleImageError, removeAll_idem, removeAll_addLayerDir]
        · split
          · simp [handleImageError, removeAll_idem, removeAll_addLayerDir]
          · split
            · simp [handleImageError, removeAll_idem, removeAll_addLayerDir]
            · rw [ih, removeAll_addLayerDir]

/-- a failing loop has removed the image's directory -/
theorem loop_failed (d : Nat) : ∀ (rs : List LayerRun) (tmp : Tmp), (loop d tmp rs).1 = none →
    (loop d tmp rs).2 = removeAll tmp d := by
  intro rs
  induction rs with
  | nil => intro tmp h; simp [loop] at h
  | cons r rest ih =>
    intro tmp h
    unfold loop at h ⊢
    split
    · rename_i he; rw [if_pos he] at h; exact ih tmp h
    · rename_i he; rw [if_neg he] at h
      split
      · rfl
      · rename_i hm; rw [if_neg hm] at h
        simp only at h ⊢
        split
        · simp [handleImageError, removeAll_addLayerDir]
        · rename_i hl; rw [if_neg hl] at h
          split
          · simp [handleImageError, removeAll_addLayerDir]
          · rename_i ho; rw [if_neg ho] at h
            split
            · simp [handleImageError, removeAll_addLayerDir]
            · rename_i hf; rw [if_neg hf] at h
              rw [ih _ h, removeAll_addLayerDir]

theorem loop_ok (d : Nat) : ∀ (rs : List LayerRun) (tmp : Tmp) (x : Nat), (loop d tmp rs).1 = some x → x = d := by
  intro rs
  induction rs with
  | nil => intro tmp x h; simp [loop] at h; exact h.symm
  | cons r rest ih =>
    intro tmp x h
    unfold loop at h
    split at h
    · exact ih tmp x h
    · split at h
      · simp [handleImageError] at h
      · simp only at h
        split at h
        · simp [handleImageError] at h
        · split at h
          · simp [handleImageError] at h
          · split at h
            · simp [handleImageError] at h
            · exact ih _ x h

theorem removeAll_fresh (tmp : Tmp) (fresh : Nat) (ls : List Nat) (hf : ∀ x ∈ tmp, x.name ≠ fresh) :
    removeAll (⟨fresh, ls⟩ :: tmp) fresh = tmp := by
  unfold removeAll
  simp only [List.filter_cons, bne_self_eq_false, Bool.false_eq_true, if_false]
  rw [List.filter_eq_self]
  intro x hx; simp [hf x hx]

end Scalibr.ImageLife
