/-
Helper lemmas for the findings / plugin-status clause of C08 (`sortResults`): the comparators are strict
weak orders obtained by pulling a strict total order on byte-string keys back along the key function,
and insertion sort commutes with the key function.
-/
import Scalibr.Model.Detector
namespace Scalibr.Detector

theorem keyLt_strictTotal : StrictTotal keyLt := prodLt_strictTotal ltBytes_strictTotal ltBytes_strictTotal

theorem optKeyLt_strictTotal : StrictTotal optKeyLt where
  irrefl := by
    intro a; cases a with
    | none => rfl
    | some x => simpa [optKeyLt] using keyLt_strictTotal.irrefl x
  trans := by
    intro a b c hab hbc
    cases a <;> cases b <;> cases c <;> simp_all [optKeyLt]
    exact keyLt_strictTotal.trans _ _ _ hab hbc
  total := by
    intro a b hab hba
    cases a <;> cases b <;> simp_all [optKeyLt]
    exact keyLt_strictTotal.total _ _ hab hba

/-- insertion commutes with a key function when the comparator is the pull-back of `lt` along it -/
theorem insertBy_map {α κ} (lt : κ → κ → Bool) (k : α → κ) (x : α) (l : List α) :
    (insertBy (fun a b => lt (k a) (k b)) x l).map k = insertBy lt (k x) (l.map k) := by
  induction l with
  | nil => rfl
  | cons y ys ih =>
    unfold insertBy
    by_cases h : lt (k x) (k y) = true
    · simp [h]
    · simp only [h, Bool.false_eq_true, if_false, List.map_cons, ih]

theorem foldl_insertBy_map {α κ} (lt : κ → κ → Bool) (k : α → κ) (l acc : List α) :
    (l.foldl (fun acc x => insertBy (fun a b => lt (k a) (k b)) x acc) acc).map k =
      (l.map k).foldl (fun acc x => insertBy lt x acc) (acc.map k) := by
  induction l generalizing acc with
  | nil => rfl
  | cons x xs ih => simp only [List.foldl, List.map_cons]; rw [ih, insertBy_map]

/-- the key sequence of the sorted list is the sorted key sequence -/
theorem isort_map {α κ} (lt : κ → κ → Bool) (k : α → κ) (l : List α) :
    (isort (fun a b => lt (k a) (k b)) l).map k = isort lt (l.map k) := by
  unfold isort
  simpa using foldl_insertBy_map lt k l []

/-- sortedness for a pulled-back comparator -/
theorem isort_sorted_of_key {α κ} {lt : κ → κ → Bool} (h : StrictTotal lt) (k : α → κ) (l : List α) :
    (isort (fun a b => lt (k a) (k b)) l).Pairwise (fun a b => lt (k b) (k a) = false) :=
  isort_pairwise _ (fun a b => h.asymm (k a) (k b)) (fun a b c => h.negTrans (k a) (k b) (k c)) l

end Scalibr.Detector
