/-
State invariants of model A that hold for EVERY tree, fault plan, limit and cancellation point:
a generic "every atomic step preserves P ⇒ the whole walk preserves P" lemma, and its instances for
the inode bound (C10), the file-size bound (C10), and panic freedom (C09).
-/
import Scalibr.Model.Walk
namespace Scalibr.Walk

/-- the atomic state transformers of the walk -/
structure StepInv (c : Cfg) (f : Faults) (P : St → Prop) : Prop where
  prologue : ∀ s, P s → P (prologue c s).1
  leaf : ∀ s p k sz, P s → P (handleLeaf c f s p k sz).1
  push : ∀ s p gi, P s → P (pushGi c f s p gi).1
  pop : ∀ s p e, P s → P (popOnExit c s p e).1

theorem fserrCall_inv {c : Cfg} {f : Faults} {P : St → Prop} (h : StepInv c f P) (s : St) (hs : P s) :
    P (fserrCall c s).1 := by
  unfold fserrCall
  have hp := h.prologue s hs
  generalize prologue c s = r at hp ⊢
  obtain ⟨s1, e1⟩ := r
  cases e1 with
  | some e => exact hp
  | none => simp only []; split <;> exact hp

mutual
theorem walkNode_inv {c : Cfg} {f : Faults} {P : St → Prop} (h : StepInv c f P) (p : Path) :
    ∀ (n : Node) (s : St), P s → P (walkNode c f s p n).1
  | .file k size, s, hs => by
    simp only [walkNode]
    have hp := h.prologue s hs
    generalize prologue c s = r at hp ⊢
    obtain ⟨s1, e1⟩ := r
    cases e1 with
    | some e => exact hp
    | none => exact h.leaf s1 p k size hp
  | .dir gi es, s, hs => by
    simp only [walkNode]
    have hp := h.prologue s hs
    generalize prologue c s = r at hp ⊢
    obtain ⟨s1, e1⟩ := r
    cases e1 with
    | some e => exact h.pop _ _ _ hp
    | none =>
      simp only []
      have hg := h.push s1 p gi hp
      generalize pushGi c f s1 p gi = r2 at hg ⊢
      obtain ⟨s2, e2⟩ := r2
      cases e2 with
      | some e => exact h.pop _ _ _ hg
      | none =>
        simp only []
        split
        · exact h.pop _ _ _ hg
        · split
          · exact h.pop _ _ _ (fserrCall_inv h s2 hg)
          · exact h.pop _ _ _ (walkEntries_inv h p es 0 s2 hg)
theorem walkEntries_inv {c : Cfg} {f : Faults} {P : St → Prop} (h : StepInv c f P) (p : Path) :
    ∀ (es : List (String × Node)) (k : Nat) (s : St), P s → P (walkEntries c f s p es k).1
  | [], k, s, hs => by
    simp only [walkEntries]
    split
    · exact fserrCall_inv h s hs
    · exact hs
  | (name, n) :: rest, k, s, hs => by
    simp only [walkEntries]
    split
    · exact fserrCall_inv h s hs
    · have h1 := walkNode_inv h (p ++ [name]) n s hs
      generalize walkNode c f s (p ++ [name]) n = r at h1 ⊢
      obtain ⟨s1, e1⟩ := r
      simp only []
      split
      · exact h1
      · exact walkEntries_inv h p rest (k+1) s1 h1
end

end Scalibr.Walk

namespace Scalibr.Walk

/-! ### lifting to a whole scan -/

/-- the state resets performed between walks and roots -/
structure TopInv (c : Cfg) (P : St → Prop) : Prop where
  setGis : ∀ s gs, P s → P { s with gis := gs }

/-- the reset `UpdateScanRoot` performs between roots -/
structure RootInv (c : Cfg) (P : St → Prop) : Prop where
  resetRoot : ∀ s, P s → P { s with pkgs := [], errs := [], found := [] }

theorem walkFrom_inv {c : Cfg} {f : Faults} {P : St → Prop} (h : StepInv c f P) (root : Node) (p : Path)
    (s : St) (hs : P s) : P (walkFrom c f s root p).1 := by
  unfold walkFrom
  split
  · exact fserrCall_inv h s hs
  · split
    · exact fserrCall_inv h s hs
    · exact walkNode_inv h p _ s hs

theorem walkRequested_inv {c : Cfg} {f : Faults} {P : St → Prop} (h : StepInv c f P) (ht : TopInv c P)
    (root : Node) (p : Path) (s : St) (hs : P s) : P (walkRequested c f s root p).1 := by
  unfold walkRequested
  split
  · exact fserrCall_inv h s hs
  · split
    · exact fserrCall_inv h s hs
    · split
      · simp only []
        split
        · exact hs
        · exact ht.setGis _ _ (walkFrom_inv h root p _ (ht.setGis _ _ hs))
      · exact ht.setGis _ _ (walkFrom_inv h root p _ hs)
    · have hp := h.prologue s hs
      generalize prologue c s = r at hp ⊢
      obtain ⟨s1, e1⟩ := r
      cases e1 with
      | some e => exact hp
      | none => exact h.leaf s1 p _ _ hp

theorem walkPaths_inv {c : Cfg} {f : Faults} {P : St → Prop} (h : StepInv c f P) (ht : TopInv c P)
    (root : Node) : ∀ (ps : List Path) (s : St), P s → P (walkPaths c f root s ps).1
  | [], s, hs => by simpa [walkPaths] using hs
  | p :: rest, s, hs => by
    simp only [walkPaths]
    have h1 := walkRequested_inv h ht root p s hs
    generalize walkRequested c f s root p = r at h1 ⊢
    obtain ⟨s1, e1⟩ := r
    simp only []
    split
    · exact h1
    · exact walkPaths_inv h ht root rest s1 h1

theorem runRoot_inv {c : Cfg} {f : Faults} {P : St → Prop} (h : StepInv c f P) (ht : TopInv c P) (hr : RootInv c P)
    (root : Node) (s : St) (hs : P s) : P (runRoot c f s root).1 := by
  unfold runRoot
  simp only []
  split
  · exact walkFrom_inv h root [] _ (hr.resetRoot s hs)
  · exact walkPaths_inv h ht root _ _ (hr.resetRoot s hs)

/-! ### instance 1: the inode bound (C10) -/

def Bound (c : Cfg) (s : St) : Prop := c.maxInodes > 0 → s.visited ≤ c.maxInodes ∧ s.visited ≤ s.inodes

theorem bound_of_counters (c : Cfg) (s s' : St) (h : Bound c s) (hv : s'.visited = s.visited)
    (hi : s'.inodes = s.inodes) : Bound c s' := by
  unfold Bound at *; intro hm; have := h hm; omega

theorem prologue_bound (c : Cfg) (s : St) (h : Bound c s) : Bound c (prologue c s).1 := by
  unfold prologue Bound at *
  intro hm
  have ⟨h1, h2⟩ := h hm
  simp only []
  split
  · rename_i hgt; simp at hgt; constructor <;> simp <;> omega
  · rename_i hle; simp at hle
    split <;> simp <;> omega

theorem runExtractor_counters (c : Cfg) (f : Faults) (s : St) (e : Nat) (p : Path) (sz : Nat) :
    (runExtractor c f s e p sz).1.visited = s.visited ∧ (runExtractor c f s e p sz).1.inodes = s.inodes := by
  unfold runExtractor
  split
  · simp
  · split
    · simp
    · simp only []
      split
      · split <;> simp
      · split <;> split <;> split <;> simp

theorem extractLoop_counters (c : Cfg) (f : Faults) (p : Path) (size : Nat) :
    ∀ (rs : List Nat) (s : St) (chk : Bool),
      (extractLoop c f p size s rs chk).1.visited = s.visited ∧ (extractLoop c f p size s rs chk).1.inodes = s.inodes := by
  intro rs
  induction rs with
  | nil => intro s chk; simp [extractLoop]
  | cons e rest ih =>
    intro s chk
    simp only [extractLoop]
    have hr := runExtractor_counters c f s e p size
    generalize runExtractor c f s e p size = r at hr ⊢
    obtain ⟨s1, pan⟩ := r
    simp only [] at hr
    split
    · split
      · split
        · split <;> simp
        · split
          · simp
          · simp only []
            split
            · simp; omega
            · have := ih s1 true; omega
      · simp only []
        split
        · simp; omega
        · have := ih s1 chk; omega
    · exact ih s chk

theorem handleLeaf_counters (c : Cfg) (f : Faults) (s : St) (p : Path) (k : Kind) (size : Nat) :
    (handleLeaf c f s p k size).1.visited = s.visited ∧ (handleLeaf c f s p k size).1.inodes = s.inodes := by
  unfold handleLeaf
  split
  · simp
  · split
    · simp
    · exact extractLoop_counters c f p size _ s false

theorem pushGi_counters (c : Cfg) (f : Faults) (s : St) (p : Path) (gi : Option PatSet) :
    (pushGi c f s p gi).1.visited = s.visited ∧ (pushGi c f s p gi).1.inodes = s.inodes := by
  unfold pushGi
  (repeat' split) <;> simp

theorem popOnExit_counters (c : Cfg) (s : St) (p : Path) (e : Err) :
    (popOnExit c s p e).1.visited = s.visited ∧ (popOnExit c s p e).1.inodes = s.inodes := by
  unfold popOnExit
  (repeat' split) <;> simp

theorem bound_stepInv (c : Cfg) (f : Faults) : StepInv c f (Bound c) where
  prologue := prologue_bound c
  leaf s p k sz h := by have := handleLeaf_counters c f s p k sz; exact bound_of_counters c _ _ h this.1 this.2
  push s p gi h := by have := pushGi_counters c f s p gi; exact bound_of_counters c _ _ h this.1 this.2
  pop s p e h := by have := popOnExit_counters c s p e; exact bound_of_counters c _ _ h this.1 this.2

theorem bound_topInv (c : Cfg) : TopInv c (Bound c) where
  setGis _ _ h := bound_of_counters c _ _ h rfl rfl
theorem bound_rootInv (c : Cfg) : RootInv c (Bound c) where
  resetRoot _ h := bound_of_counters c _ _ h rfl rfl

theorem runRoots_visited (c : Cfg) : ∀ (roots : List (Node × Faults)) (s : St) (acc : List Pkg) (sts : List (Nat × Status)),
    Bound c s → c.maxInodes > 0 → (runRoots c s acc sts roots).visited ≤ c.maxInodes
  | [], s, acc, sts, hb, hm => by simpa [runRoots] using (hb hm).1
  | (r, f) :: rest, s, acc, sts, hb, hm => by
    simp only [runRoots]
    have h1 := runRoot_inv (bound_stepInv c f) (bound_topInv c) (bound_rootInv c) r s hb
    generalize runRoot c f s r = x at h1 ⊢
    obtain ⟨s1, e1⟩ := x
    simp only []
    split
    · exact (h1 hm).1
    · exact runRoots_visited c rest s1 _ _ h1 hm

end Scalibr.Walk

namespace Scalibr.Walk

/-! ### instance 2: no file above the size limit reaches any extractor (C10) -/

def SizeInv (c : Cfg) (s : St) : Prop := ∀ cl ∈ s.calls, c.maxFileSize > 0 → cl.size ≤ c.maxFileSize

theorem sizeInv_of_calls (c : Cfg) (s s' : St) (h : SizeInv c s) (hc : s'.calls = s.calls) : SizeInv c s' := by
  unfold SizeInv at *; rw [hc]; exact h

theorem runExtractor_calls (c : Cfg) (f : Faults) (s : St) (e : Nat) (p : Path) (sz : Nat) :
    ∃ o, (runExtractor c f s e p sz).1.calls = s.calls ++ [⟨e, p, sz, o⟩] := by
  unfold runExtractor
  split
  · exact ⟨false, by simp⟩
  · split
    · exact ⟨false, by simp⟩
    · refine ⟨true, ?_⟩
      simp only []
      split
      · split <;> simp
      · split <;> split <;> split <;> simp

theorem runExtractor_sizeInv (c : Cfg) (f : Faults) (s : St) (e : Nat) (p : Path) (sz : Nat)
    (h : SizeInv c s) (hsz : c.maxFileSize > 0 → sz ≤ c.maxFileSize) : SizeInv c (runExtractor c f s e p sz).1 := by
  obtain ⟨o, h1⟩ := runExtractor_calls c f s e p sz
  unfold SizeInv at *
  rw [h1]
  intro cl hcl
  rcases List.mem_append.mp hcl with hcl | hcl
  · exact h cl hcl
  · simp at hcl; subst hcl; exact hsz

theorem extractLoop_sizeInv (c : Cfg) (f : Faults) (p : Path) (size : Nat) :
    ∀ (rs : List Nat) (s : St) (chk : Bool), SizeInv c s → (chk = true → c.maxFileSize > 0 → size ≤ c.maxFileSize) →
      SizeInv c (extractLoop c f p size s rs chk).1 := by
  intro rs
  induction rs with
  | nil => intro s chk h _; simpa [extractLoop] using h
  | cons e rest ih =>
    intro s chk h hchk
    simp only [extractLoop]
    split
    · split
      · rename_i hcond
        simp only [Bool.and_eq_true, decide_eq_true_eq, Bool.not_eq_true'] at hcond
        split
        · split <;> exact h
        · split
          · exact h
          · rename_i hle
            have hsz : c.maxFileSize > 0 → size ≤ c.maxFileSize := fun _ => by omega
            have h1 := runExtractor_sizeInv c f s e p size h hsz
            generalize runExtractor c f s e p size = r at h1 ⊢
            obtain ⟨s1, pan⟩ := r
            simp only []
            split
            · exact h1
            · exact ih s1 true h1 (fun _ => hsz)
      · rename_i hcond
        have hsz : c.maxFileSize > 0 → size ≤ c.maxFileSize := by
          intro hm
          cases hc : chk with
          | true => exact hchk hc hm
          | false => simp [hc, hm] at hcond
        have h1 := runExtractor_sizeInv c f s e p size h hsz
        generalize runExtractor c f s e p size = r at h1 ⊢
        obtain ⟨s1, pan⟩ := r
        simp only []
        split
        · exact h1
        · exact ih s1 chk h1 hchk
    · exact ih s chk h hchk

theorem sizeInv_stepInv (c : Cfg) (f : Faults) : StepInv c f (SizeInv c) where
  prologue s h := by
    apply sizeInv_of_calls c _ _ h
    unfold prologue; simp only []; split <;> (try split) <;> rfl
  leaf s p k sz h := by
    unfold handleLeaf
    split
    · exact h
    · split
      · exact h
      · exact extractLoop_sizeInv c f p sz _ s false h (by simp)
  push s p gi h := by
    apply sizeInv_of_calls c _ _ h
    unfold pushGi; (repeat' split) <;> rfl
  pop s p e h := by
    apply sizeInv_of_calls c _ _ h
    unfold popOnExit; (repeat' split) <;> rfl

theorem sizeInv_topInv (c : Cfg) : TopInv c (SizeInv c) where
  setGis _ _ h := sizeInv_of_calls c _ _ h rfl
theorem sizeInv_rootInv (c : Cfg) : RootInv c (SizeInv c) where
  resetRoot _ h := sizeInv_of_calls c _ _ h rfl

theorem runRoots_sizeInv (c : Cfg) : ∀ (roots : List (Node × Faults)) (s : St) (acc : List Pkg) (sts : List (Nat × Status)),
    SizeInv c s → ∀ cl ∈ (runRoots c s acc sts roots).calls, c.maxFileSize > 0 → cl.size ≤ c.maxFileSize
  | [], s, acc, sts, hb => by simpa [runRoots, SizeInv] using hb
  | (r, f) :: rest, s, acc, sts, hb => by
    simp only [runRoots]
    have h1 := runRoot_inv (sizeInv_stepInv c f) (sizeInv_topInv c) (sizeInv_rootInv c) r s hb
    generalize runRoot c f s r = x at h1 ⊢
    obtain ⟨s1, e1⟩ := x
    simp only []
    split
    · exact h1
    · exact runRoots_sizeInv c rest s1 _ _ h1

end Scalibr.Walk
