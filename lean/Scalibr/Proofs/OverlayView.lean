/-
C04: from "what one layer does to a later view" (`revLayer_apply`) to "every view is the OCI visibility rule"
under the hypothesis `H`.
-/
import Scalibr.Proofs.Overlay
namespace Scalibr.Overlay

/-! ### distinct paths inside a fresh tar -/

theorem freshB_distinct : ∀ (rest done : Layer), freshB done rest = true →
    (∀ a ∈ done, ∀ b ∈ rest, a.p ≠ b.p) ∧ rest.Pairwise (fun a b => a.p ≠ b.p) ∧ ∀ b ∈ rest, b.p ≠ [] := by
  intro rest
  induction rest with
  | nil => intro done _; simp
  | cons e rest ih =>
    intro done hf
    simp only [freshB, Bool.and_eq_true, Bool.or_eq_true, Bool.not_eq_true', bne_iff_ne, ne_eq] at hf
    obtain ⟨⟨hfresh, hne⟩, hf'⟩ := hf
    obtain ⟨h1, h2, h3⟩ := ih (done ++ [e]) hf'
    have hnone : ∀ a ∈ done, a.p ≠ e.p := by
      intro a ha heq
      rcases hfresh with hnew | hupg
      · unfold mentionedBy at hnew
        rw [List.any_eq_false] at hnew
        have := hnew a ha; simp [heq] at this
      · unfold upgradeOK at hupg
        simp only [Bool.and_eq_true, Bool.not_eq_true', List.any_eq_false] at hupg
        have := hupg.2 a ha; simp [heq] at this
    refine ⟨?_, ?_, ?_⟩
    · intro a ha b hb
      rcases List.mem_cons.mp hb with rfl | hb
      · exact hnone a ha
      · exact h1 a (by simp [ha]) b hb
    · rw [List.pairwise_cons]
      exact ⟨fun b hb => h1 e (by simp) b hb, h2⟩
    · intro b hb
      rcases List.mem_cons.mp hb with rfl | hb
      · exact hne
      · exact h3 b hb

theorem pairwise_unique {l : Layer} (h : l.Pairwise (fun a b => a.p ≠ b.p)) :
    ∀ x ∈ l, ∀ y ∈ l, x.p = y.p → x = y := by
  induction l with
  | nil => intro x hx; cases hx
  | cons a l ih =>
    rw [List.pairwise_cons] at h
    intro x hx y hy hp
    rcases List.mem_cons.mp hx with hxa | hxl
    · rcases List.mem_cons.mp hy with hya | hyl
      · rw [hxa, hya]
      · rw [hxa] at hp; exact absurd hp (h.1 y hyl)
    · rcases List.mem_cons.mp hy with hya | hyl
      · rw [hya] at hp; exact absurd hp.symm (h.1 x hxl)
      · exact ih h.2 x hxl y hyl hp

theorem fresh_unique {l : Layer} (hf : freshB [] l = true) : ∀ x ∈ l, ∀ y ∈ l, x.p = y.p → x = y :=
  pairwise_unique (freshB_distinct l [] hf).2.1

theorem fresh_ne_nil {l : Layer} (hf : freshB [] l = true) : ∀ x ∈ l, x.p ≠ [] :=
  (freshB_distinct l [] hf).2.2

theorem find?_unique {α : Type} (p : α → Bool) : ∀ (l : List α) (e : α), e ∈ l → p e = true →
    (∀ x ∈ l, p x = true → x = e) → l.find? p = some e := by
  intro l
  induction l with
  | nil => intro e he; cases he
  | cons a l ih =>
    intro e he hp hu
    by_cases ha : p a = true
    · have := hu a (by simp) ha; subst this; simp [ha]
    · have hae : e ∈ l := by
        rcases List.mem_cons.mp he with rfl | h
        · exact absurd hp ha
        · exact h
      have hfa : p a = false := by cases h : p a <;> simp_all
      rw [List.find?_cons, hfa]
      exact ih e hae hp fun x hx hpx => hu x (by simp [hx]) hpx

theorem explicitFirst_of_mem (i : Nat) {l : Layer} (hf : freshB [] l = true) {e : Entry} (he : e ∈ l) :
    explicitFirst i l e.p = some (e.node i) := by
  unfold explicitFirst
  rw [find?_unique _ l e he (by simp) (fun x hx hp => fresh_unique hf x hx e he (by simpa using hp))]
  rfl

theorem explicitReal_of_mem (i : Nat) {l : Layer} (hf : freshB [] l = true) {e : Entry} (he : e ∈ l)
    (hw : e.wh = false) : explicitReal i l e.p = some (e.node i) := by
  unfold explicitReal
  rw [find?_unique _ l.reverse e (by simp [he]) (by simp [hw])
    (fun x hx hp => fresh_unique hf x (by simpa using hx) e he (by simp at hp; exact hp.2))]
  rfl

theorem explicitReal_none_of_wh (i : Nat) {l : Layer} (hf : freshB [] l = true) {e : Entry} (he : e ∈ l)
    (hw : e.wh = true) : explicitReal i l e.p = none := by
  unfold explicitReal
  simp only [Option.map_eq_none_iff, List.find?_eq_none, List.mem_reverse]
  intro x hx hp
  simp at hp
  have := fresh_unique hf x hx e he hp.2
  subst this
  rw [hw] at hp; exact absurd hp.1 (by simp)

theorem explicitReal_none_of_absent (i : Nat) {l : Layer} {q : Path} (h : ∀ e ∈ l, e.p ≠ q) :
    explicitReal i l q = none := by
  unfold explicitReal
  simp only [Option.map_eq_none_iff, List.find?_eq_none, List.mem_reverse]
  intro x hx hp
  simp at hp
  exact h x hx hp.2

/-! ### facts about the visibility rule -/

theorem explicitReal_some {i : Nat} {l : Layer} {q : Path} {n : Node} (h : explicitReal i l q = some n) :
    ∃ e ∈ l, e.wh = false ∧ e.p = q ∧ n = e.node i := by
  unfold explicitReal at h
  simp only [Option.map_eq_some_iff] at h
  obtain ⟨e, he, rfl⟩ := h
  have hm := List.mem_of_find?_eq_some he
  have hp := List.find?_some he
  simp at hp
  exact ⟨e, by simpa using hm, hp.1, hp.2, rfl⟩

theorem implied_split (l : Layer) (q : Path) : impliedDir l q = (realImplied l q || whImplied l q) := by
  unfold impliedDir realImplied whImplied
  induction l with
  | nil => rfl
  | cons e l ih => simp only [List.any_cons, ih]; cases e.wh <;> cases isUnder q e.p <;> simp

/-- case analysis of one step of the visibility rule -/
theorem visible_step (i : Nat) (l : Layer) (ls : List (Nat × Layer)) (q : Path) (n : Node)
    (h : visible ((i, l) :: ls) q = some n) :
    (explicitReal i l q = some n) ∨
    (explicitReal i l q = none ∧ realImplied l q = true ∧ n = implDir i) ∨
    (explicitReal i l q = none ∧ realImplied l q = true ∧ covers l q = false ∧ visible ls q = some n ∧ n.kind = .dir) ∨
    (explicitReal i l q = none ∧ realImplied l q = false ∧ covers l q = false ∧ visible ls q = some n) ∨
    (explicitReal i l q = none ∧ realImplied l q = false ∧ covers l q = false ∧ visible ls q = none ∧
      whImplied l q = true ∧ n = implDir i) := by
  rw [visible.eq_2] at h
  cases hx : explicitReal i l q with
  | some m => rw [hx] at h; left; simpa using h
  | none =>
    rw [hx] at h
    simp only at h
    right
    by_cases hr : realImplied l q = true
    · rw [if_pos hr] at h
      by_cases hc : covers l q = true
      · simp [hc] at h; left; exact ⟨rfl, hr, h.symm⟩
      · have hcf : covers l q = false := by cases hh : covers l q <;> simp_all
        simp only [hc, if_false] at h
        cases hv : visible ls q with
        | none => rw [hv] at h; simp at h; left; exact ⟨rfl, hr, h.symm⟩
        | some m =>
          rw [hv] at h
          by_cases hk : m.kind = .dir
          · simp [hk] at h; subst h; right; left; exact ⟨rfl, hr, hcf, rfl, hk⟩
          · simp [hk] at h; left; exact ⟨rfl, hr, h.symm⟩
    · have hrf : realImplied l q = false := by cases hh : realImplied l q <;> simp_all
      rw [if_neg hr] at h
      by_cases hc : covers l q = true
      · simp [hc] at h
      · have hcf : covers l q = false := by cases hh : covers l q <;> simp_all
        simp only [hc, if_false] at h
        cases hv : visible ls q with
        | some m => rw [hv] at h; simp at h; subst h; right; right; left; exact ⟨rfl, hrf, hcf, rfl⟩
        | none =>
          rw [hv] at h
          by_cases hwi : whImplied l q = true
          · simp [hwi] at h; right; right; right; exact ⟨rfl, hrf, hcf, rfl, hwi, h.symm⟩
          · simp [hwi] at h

theorem visible_not_wh : ∀ (ls : List (Nat × Layer)) (q : Path) (n : Node), visible ls q = some n → n.wh = false := by
  intro ls
  induction ls with
  | nil => intro q n h; simp [visible] at h
  | cons x ls ih =>
    obtain ⟨i, l⟩ := x
    intro q n h
    rcases visible_step i l ls q n h with hx | ⟨_, _, rfl⟩ | ⟨_, _, _, hv, _⟩ | ⟨_, _, _, hv⟩ | ⟨_, _, _, _, _, rfl⟩
    · obtain ⟨e, _, hw, _, rfl⟩ := explicitReal_some hx; exact hw
    · rfl
    · exact ih q n hv
    · exact ih q n hv
    · rfl

/-- a directory the rule finds at a path that no listed layer has a directory entry for is a made-up one -/
theorem visible_dir_synthetic : ∀ (ls : List (Nat × Layer)) (q : Path) (n : Node),
    (∀ x ∈ ls, explicitDirAt x.2 q = false) → visible ls q = some n → n.kind = .dir → n.obs = .dir 0 := by
  intro ls
  induction ls with
  | nil => intro q n _ h; simp [visible] at h
  | cons x ls ih =>
    obtain ⟨i, l⟩ := x
    intro q n hno h hk
    have hno' : ∀ x ∈ ls, explicitDirAt x.2 q = false := fun x hx => hno x (by simp [hx])
    rcases visible_step i l ls q n h with hx | ⟨_, _, rfl⟩ | ⟨_, _, _, hv, _⟩ | ⟨_, _, _, hv⟩ | ⟨_, _, _, _, _, rfl⟩
    · obtain ⟨e, he, hw, hp, rfl⟩ := explicitReal_some hx
      have := hno (i, l) (by simp)
      unfold explicitDirAt at this
      rw [List.any_eq_false] at this
      have h' := this e he
      have hk' : e.kind = .dir := hk
      simp [hw, hp, hk'] at h'
    · rfl
    · exact ih q n hno' hv hk
    · exact ih q n hno' hv hk
    · rfl

/-- whatever the rule finds at a path that no listed layer has an entry for is a made-up directory -/
theorem visible_synthetic : ∀ (ls : List (Nat × Layer)) (q : Path) (n : Node),
    (∀ x ∈ ls, explicitRealAt x.2 q = false) → visible ls q = some n → n.obs = .dir 0 := by
  intro ls
  induction ls with
  | nil => intro q n _ h; simp [visible] at h
  | cons x ls ih =>
    obtain ⟨i, l⟩ := x
    intro q n hno h
    have hno' : ∀ x ∈ ls, explicitRealAt x.2 q = false := fun x hx => hno x (by simp [hx])
    rcases visible_step i l ls q n h with hx | ⟨_, _, rfl⟩ | ⟨_, _, _, hv, _⟩ | ⟨_, _, _, hv⟩ | ⟨_, _, _, _, _, rfl⟩
    · obtain ⟨e, he, hw, hp, rfl⟩ := explicitReal_some hx
      have := hno (i, l) (by simp)
      unfold explicitRealAt at this
      rw [List.any_eq_false] at this
      have h' := this e he
      simp [hw, hp] at h'
    · rfl
    · exact ih q n hno' hv
    · exact ih q n hno' hv
    · rfl

theorem impliedDir_of_mentioned_false {l : Layer} {q : Path} (h : mentionedBy l q = false) :
    impliedDir l q = false ∧ ∀ e ∈ l, e.p ≠ q := by
  unfold mentionedBy at h
  rw [List.any_eq_false] at h
  constructor
  · unfold impliedDir; rw [List.any_eq_false]
    intro e he; have := h e he; simp at this; simp [this.2]
  · intro e he heq; have := h e he; simp [heq] at this

theorem visible_none_of_unmentioned : ∀ (ls : List (Nat × Layer)) (q : Path),
    (∀ x ∈ ls, mentionedBy x.2 q = false) → visible ls q = none := by
  intro ls
  induction ls with
  | nil => intro q _; simp [visible]
  | cons x ls ih =>
    obtain ⟨i, l⟩ := x
    intro q h
    obtain ⟨hi, ha⟩ := impliedDir_of_mentioned_false (h (i, l) (by simp))
    rw [implied_split, Bool.or_eq_false_iff] at hi
    rw [visible.eq_2, explicitReal_none_of_absent i ha]
    simp only [hi.1, hi.2]
    rw [ih q fun x hx => h x (by simp [hx])]
    by_cases hc : covers l q = true <;> simp [hc]

/-! ### the views -/

/-- non-blocking nodes of a view come from a directory mention of one of the layers already read -/
def Prov (v : Tree) (later : List Layer) : Prop :=
  ∀ q, q ≠ [] → ∀ n, v.get q = some n → n.blocks = false → ∃ l' ∈ later, dirMention l' q = true

theorem mention_cases (i : Nat) {l : Layer} (hf : freshB [] l = true) (q : Path) :
    (∃ e ∈ l, e.p = q ∧ mention i l q = some (e.node i)) ∨
    ((∀ e ∈ l, e.p ≠ q) ∧ impliedDir l q = true ∧ mention i l q = some (implDir i)) ∨
    ((∀ e ∈ l, e.p ≠ q) ∧ impliedDir l q = false ∧ mention i l q = none) := by
  by_cases h : ∃ e ∈ l, e.p = q
  · obtain ⟨e, he, hp⟩ := h
    left; refine ⟨e, he, hp, ?_⟩
    unfold mention; rw [← hp, explicitFirst_of_mem i hf he]
  · have h' : ∀ e ∈ l, e.p ≠ q := fun e he hp => h ⟨e, he, hp⟩
    right
    have hx := (explicitFirst_none_iff i l q).mpr h'
    cases hi : impliedDir l q with
    | true => left; exact ⟨h', rfl, by unfold mention; rw [hx]; simp [hi]⟩
    | false => right; exact ⟨h', rfl, by unfold mention; rw [hx]; simp [hi]⟩

theorem blocker_covers {l : Layer} (hno : noOpaque l = true) {b : Entry} (hb : b ∈ l) (hbl : b.blocker = true)
    {q : Path} (hu : isUnder b.p q = true) : covers l q = true := by
  unfold covers
  rw [List.any_eq_true]
  refine ⟨b, hb, ?_⟩
  unfold noOpaque at hno
  rw [List.all_eq_true] at hno
  have hopq := hno b hb
  simp only [Bool.not_eq_true'] at hopq
  unfold Entry.blocker at hbl
  cases hw : b.wh with
  | true => simp [hw, hopq, hu]
  | false => simp [hw] at hbl; simp [hw, hu, hbl]

theorem covers_blocker {l : Layer} (hno : noOpaque l = true) {q : Path} (habs : ∀ e ∈ l, e.p ≠ q)
    (hc : covers l q = true) : ∃ b ∈ l, b.blocker = true ∧ isUnder b.p q = true := by
  unfold covers at hc
  rw [List.any_eq_true] at hc
  obtain ⟨b, hb, h⟩ := hc
  unfold noOpaque at hno
  rw [List.all_eq_true] at hno
  have hopq := hno b hb
  simp only [Bool.not_eq_true'] at hopq
  refine ⟨b, hb, ?_⟩
  have hne := habs b hb
  unfold Entry.blocker
  cases hw : b.wh with
  | true => simp [hw, hopq, hne] at h; simp [h]
  | false => simp [hw, hopq] at h; simp [h.1, h.2]

theorem Hfrom_cons {later : List Layer} {l : Layer} {older : List Layer} (h : Hfrom later (l :: older) = true) :
    layerOK l = true ∧ noOpaque l = true ∧ noRecreateAt later l older = true ∧
    noImplicitOverExplicitAt l older = true ∧ Hfrom (l :: later) older = true := by
  simp only [Hfrom, Bool.and_eq_true] at h
  obtain ⟨⟨⟨⟨h1, h2⟩, h3⟩, h4⟩, h5⟩ := h
  exact ⟨h1, h2, h3, h4, h5⟩

/-- The induction over the layers of one view, newest first.  `v` = the view after the layers already read
(`later`), `k` = number of layers still to read. -/
theorem view_gen (layers : List Layer) : ∀ (k : Nat) (later : List Layer) (v : Tree),
    Prov v later → (∀ q n, v.get q = some n → n.virt = true → k ≤ n.layer) →
    Hfrom later ((newestFirst layers k).map (·.2)) = true →
    ((revFrom layers k v).get [] = v.get []) ∧
    ∀ q, q ≠ [] → obsOf ((revFrom layers k v).get q) =
      match v.get q with
      | some n => n.obs
      | none => if inWhDir v q then Obs.absent else obsOf (visible (newestFirst layers k) q) := by
  intro k
  induction k with
  | zero =>
    intro later v _ _ _
    refine ⟨rfl, ?_⟩
    intro q _
    simp only [revFrom, newestFirst, visible]
    cases v.get q with
    | none => simp [obsOf]
    | some n => simp [obsOf]
  | succ k ih =>
    intro later v hprov hvirt hH
    simp only [newestFirst, List.map_cons] at hH
    obtain ⟨hok, hnoopq, hrec, himp, hrest⟩ := Hfrom_cons hH
    have hok' := hok
    unfold layerOK at hok'
    rw [Bool.and_eq_true] at hok'
    obtain ⟨hfresh, hnubB⟩ := hok'
    have hnub := (noUnderBlocker_iff _).mp hnubB
    obtain ⟨hv1root, hv1⟩ := revLayer_apply k v (layers.getD k []) hok
      (fun q n hn hv => by have := hvirt q n hn hv; omega)
    -- abbreviations
    generalize hl : layers.getD k [] = l at *
    generalize hv1def : revLayer k v l = v1 at *
    have hprov1 : Prov v1 (l :: later) := by
      intro q hq n hn hnb
      rw [hv1 q hq] at hn
      cases hvq : v.get q with
      | some m =>
        rw [hvq] at hn; simp at hn; subst hn
        obtain ⟨l', hl', hd⟩ := hprov q hq m hvq hnb
        exact ⟨l', by simp [hl'], hd⟩
      | none =>
        rw [hvq] at hn
        simp only [Option.none_or] at hn
        by_cases hw : inWhDir v q = true
        · simp [hw] at hn
        · simp only [hw] at hn
          refine ⟨l, by simp, ?_⟩
          unfold dirMention
          rcases mention_cases k hfresh q with ⟨e, he, hp, hm⟩ | ⟨_, hi, _⟩ | ⟨_, _, hm⟩
          · rw [hm] at hn; simp at hn; subst hn
            rw [node_blocks] at hnb
            unfold Entry.blocker at hnb
            simp at hnb
            have : explicitDirAt l q = true := by
              unfold explicitDirAt; rw [List.any_eq_true]
              exact ⟨e, he, by simp [hnb.1, hnb.2, hp]⟩
            simp [this]
          · simp [hi]
          · rw [hm] at hn; cases hn
    have hvirt1 : ∀ q n, v1.get q = some n → n.virt = true → k ≤ n.layer := by
      intro q n hn hv
      by_cases hq : q = []
      · subst hq; rw [hv1root] at hn; have := hvirt [] n hn hv; omega
      · rw [hv1 q hq] at hn
        cases hvq : v.get q with
        | some m => rw [hvq] at hn; simp at hn; subst hn; have := hvirt q m hvq hv; omega
        | none =>
          rw [hvq] at hn
          simp only [Option.none_or] at hn
          by_cases hw : inWhDir v q = true
          · simp [hw] at hn
          · simp only [hw] at hn
            rcases mention_cases k hfresh q with ⟨e, _, _, hm⟩ | ⟨_, _, hm⟩ | ⟨_, _, hm⟩
            · rw [hm] at hn; simp at hn; subst hn; simp [Entry.node] at hv
            · rw [hm] at hn; simp at hn; subst hn; simp [implDir]
            · rw [hm] at hn; cases hn
    obtain ⟨ihroot, ihq⟩ := ih (l :: later) v1 hprov1 hvirt1 hrest
    refine ⟨by simp only [revFrom]; rw [hl, hv1def, ihroot, hv1root], ?_⟩
    intro q hq
    simp only [revFrom]
    rw [hl, hv1def, ihq q hq, hv1 q hq]
    cases hvq : v.get q with
    | some n => simp
    | none =>
      simp only [Option.none_or]
      -- no blocker of `v` above q unless inWhDir v q
      by_cases hw : inWhDir v q = true
      · -- hidden already: stays hidden
        have hw1 : inWhDir v1 q = true := by
          obtain ⟨d, hd, hb⟩ := (inWhDir_iff v q).mp hw
          refine (inWhDir_iff v1 q).mpr ⟨d, hd, ?_⟩
          unfold blocksAt at hb ⊢
          by_cases hd0 : d = []
          · subst hd0; rw [hv1root]; exact hb
          · rw [hv1 d hd0]
            cases hvd : v.get d with
            | none => rw [hvd] at hb; cases hb
            | some m => rw [hvd] at hb; simpa using hb
        simp [hw, hw1]
      · have hwf : inWhDir v q = false := by cases h : inWhDir v q <;> simp_all
        have hvnb : ∀ d, isUnder d q = true → blocksAt v d = false := (inWhDir_false_iff v q).mp hwf
        simp only [hw, if_false]
        simp only [newestFirst, hl]
        rcases mention_cases k hfresh q with ⟨e, he, hp, hm⟩ | ⟨habs, hi, hm⟩ | ⟨habs, hi, hm⟩
        · -- the layer lists q itself
          rw [hm]
          cases hwh : e.wh with
          | false =>
            rw [visible.eq_2]
            rw [← hp, explicitReal_of_mem k hfresh he hwh]
            simp [obsOf]
          | true =>
            have hx : explicitReal k l q = none := by rw [← hp]; exact explicitReal_none_of_wh k hfresh he hwh
            have hbl : e.blocker = true := by unfold Entry.blocker; simp [hwh]
            have hi : impliedDir l q = false := by
              unfold impliedDir; rw [List.any_eq_false]
              intro x hx'; rw [← hp]; simp [hnub e he hbl x hx']
            have hc : covers l q = true := by
              unfold covers; rw [List.any_eq_true]
              refine ⟨e, he, ?_⟩
              unfold noOpaque at hnoopq
              rw [List.all_eq_true] at hnoopq
              have := hnoopq e he
              simp only [Bool.not_eq_true'] at this
              simp [hwh, this, hp]
            rw [implied_split, Bool.or_eq_false_iff] at hi
            rw [visible.eq_2]
            rw [hx]
            simp [hi.1, hc, obsOf, Node.obs, Entry.node, hwh]
        · -- q is only implied by the layer
          rw [hm]
          have hx : explicitReal k l q = none := explicitReal_none_of_absent k habs
          have hnr : explicitRealAt l q = false := by
            unfold explicitRealAt; rw [List.any_eq_false]
            intro x hx'; simp [habs x hx']
          obtain ⟨e, he, hu⟩ := List.any_eq_true.mp (by unfold impliedDir at hi; exact hi)
          have hmem : q ∈ parents e.p := (mem_parents e.p q).mpr ⟨hq, hu⟩
          unfold noImplicitOverExplicitAt at himp
          rw [List.all_eq_true] at himp
          have h1 := himp e he
          rw [List.all_eq_true] at h1
          have h2 := h1 q hmem
          simp only [hnr, Bool.false_or, List.all_eq_true, List.mem_map] at h2
          rw [visible.eq_2]
          rw [hx]
          by_cases hr : realImplied l q = true
          · have hnoexp : ∀ x ∈ newestFirst layers k, explicitDirAt x.2 q = false := by
              intro x hx'
              have := h2 x.2 ⟨x, hx', rfl⟩
              simpa [hr] using this
            simp only [hr, if_true]
            cases hin : (if covers l q = true then none else visible (newestFirst layers k) q) with
            | none => simp [obsOf]
            | some m =>
              by_cases hk : m.kind = .dir
              · simp only [hk, if_true, obsOf]
                by_cases hc : covers l q = true
                · simp [hc] at hin
                · simp [hc] at hin
                  rw [visible_dir_synthetic _ q m hnoexp hin hk]; rfl
              · simp [hk, obsOf]
          · have hrf : realImplied l q = false := by cases hh : realImplied l q <;> simp_all
            have hwi : whImplied l q = true := by
              rw [implied_split, hrf] at hi; simpa using hi
            have hnoreal : ∀ x ∈ newestFirst layers k, explicitRealAt x.2 q = false := by
              intro x hx'
              have := h2 x.2 ⟨x, hx', rfl⟩
              simpa [hrf] using this
            have hc : covers l q = false := by
              cases hcc : covers l q with
              | false => rfl
              | true =>
                obtain ⟨b, hb, hbl, hub⟩ := covers_blocker hnoopq habs hcc
                have := hnub b hb hbl e he
                rw [isUnder_trans hub hu] at this; cases this
            simp only [hrf, hc, Bool.false_eq_true, if_false, hwi, if_true]
            cases hv : visible (newestFirst layers k) q with
            | none => simp [obsOf]
            | some m => simp only [obsOf]; rw [visible_synthetic _ q m hnoreal hv]; rfl
        · -- the layer says nothing about q itself
          rw [hm]
          have hx : explicitReal k l q = none := explicitReal_none_of_absent k habs
          rw [implied_split, Bool.or_eq_false_iff] at hi
          have hvis_eq : visible ((k, l) :: newestFirst layers k) q =
              if covers l q = true then none else visible (newestFirst layers k) q := by
            rw [visible.eq_2, hx]
            simp only [hi.1, hi.2, Bool.false_eq_true, if_false]
            by_cases hc : covers l q = true
            · simp [hc]
            · simp only [hc, if_false]; cases visible (newestFirst layers k) q <;> rfl
          rw [hvis_eq]
          by_cases hc : covers l q = true
          · simp only [hc, if_true, obsOf]
            obtain ⟨b, hb, hbl, hu⟩ := covers_blocker hnoopq habs hc
            have hbne : b.p ≠ [] := fresh_ne_nil hfresh b hb
            cases hvd : v.get b.p with
            | none =>
              -- the whiteout / file lands in the view and hides q
              have hwd : inWhDir v b.p = false := by
                rw [inWhDir_false_iff]; intro d hd; exact hvnb d (isUnder_trans hd hu)
              have : inWhDir v1 q = true := by
                refine (inWhDir_iff v1 q).mpr ⟨b.p, hu, ?_⟩
                unfold blocksAt
                rw [hv1 b.p hbne, hvd]
                simp only [Option.none_or, hwd, Bool.false_eq_true, if_false]
                rcases mention_cases k hfresh b.p with ⟨e, he, hp, hm'⟩ | ⟨habs', _, _⟩ | ⟨habs', _, _⟩
                · have := fresh_unique hfresh e he b hb hp; subst this
                  rw [hm']; simp [node_blocks, hbl]
                · exact absurd rfl (habs' b hb)
                · exact absurd rfl (habs' b hb)
              simp [this]
            | some m =>
              -- re-created by a later layer: allowed only when nothing older lies beneath
              have hmnb : m.blocks = false := by
                have := hvnb b.p hu; unfold blocksAt at this; rw [hvd] at this; exact this
              obtain ⟨l', hl', hdm⟩ := hprov b.p hbne m hvd hmnb
              unfold noRecreateAt at hrec
              rw [List.all_eq_true] at hrec
              have h1 := hrec b hb
              have hany : (later.any fun l' => dirMention l' b.p) = true := List.any_eq_true.mpr ⟨l', hl', hdm⟩
              simp only [hbl, hany, Bool.not_true, Bool.false_or, List.all_eq_true, List.mem_map] at h1
              have hvis : visible (newestFirst layers k) q = none := by
                apply visible_none_of_unmentioned
                intro x hx'
                have h2 := h1 x.2 ⟨x, hx', rfl⟩
                unfold mentionedBy; rw [List.any_eq_false]
                intro y hy
                have h3 := h2 y hy
                simp only [Bool.not_eq_true'] at h3
                simp only [Bool.or_eq_true, beq_iff_eq, not_or]
                constructor
                · intro hyq; rw [hyq, hu] at h3; cases h3
                · intro hyu; rw [isUnder_trans hu hyu] at h3; cases h3
              rw [hvis]; simp [obsOf]
          · -- not covered: nothing of this layer blocks above q
            simp only [hc, if_false]
            have : inWhDir v1 q = false := by
              rw [inWhDir_false_iff]
              intro d hd
              by_cases hd0 : d = []
              · subst hd0; unfold blocksAt; rw [hv1root]; exact hvnb [] hd
              · unfold blocksAt
                rw [hv1 d hd0]
                have hvd := hvnb d hd
                unfold blocksAt at hvd
                cases hvd' : v.get d with
                | some m => rw [hvd'] at hvd; simpa using hvd
                | none =>
                  have hwd : inWhDir v d = false := by
                    rw [inWhDir_false_iff]; intro d' hd'; exact hvnb d' (isUnder_trans hd' hd)
                  simp only [Option.none_or, hwd, Bool.false_eq_true, if_false]
                  rcases mention_cases k hfresh d with ⟨e, he, hp, hm'⟩ | ⟨_, _, hm'⟩ | ⟨_, _, hm'⟩
                  · rw [hm']
                    simp only [node_blocks]
                    cases hbl : e.blocker with
                    | false => rfl
                    | true => exact absurd (blocker_covers hnoopq he hbl (by rw [hp]; exact hd)) hc
                  · rw [hm']; rfl
                  · rw [hm']
            simp [this]

end Scalibr.Overlay
