import Scalibr.Spec.Phases
namespace Scalibr.Phases

theorem runUnit_started (rec : Bool) (ps : List Plugin) (s : St) :
    (runUnit rec ps s).started = s.started ++ ps.map (·.name) ∧
    (runUnit rec ps s).cancelled = (s.cancelled || ps.any (·.cancels)) := by
  induction ps generalizing s with
  | nil => simp [runUnit]
  | cons p ps ih =>
    unfold runUnit
    obtain ⟨h1, h2⟩ := ih ⟨s.cancelled || p.cancels, s.started ++ [p.name],
      if rec then s.status ++ [(p.name, p.fails (s.cancelled || p.cancels))] else s.status⟩
    refine ⟨?_, ?_⟩
    · rw [h1]; simp [List.append_assoc]
    · rw [h2]; simp [Bool.or_assoc]

/-- the iterations a loop runs / leaves out, given whether the context is cancelled on entry -/
def ran : Bool → List Iter → List Iter
  | true, _ => []
  | false, [] => []
  | false, u :: us => u :: ran u.cancels us

def left : Bool → List Iter → List Iter
  | true, us => us
  | false, [] => []
  | false, u :: us => left u.cancels us

theorem ran_append_left (c : Bool) (us : List Iter) : ran c us ++ left c us = us := by
  induction us generalizing c with
  | nil => cases c <;> rfl
  | cons u us ih => cases c <;> simp [ran, left, ih]

/-- what a loop starts and whether it returns ctx.Err() -/
theorem loop_started (us : List Iter) (s : St) :
    (loop us s).1.started = s.started ++ names (ran s.cancelled us) ∧
    (loop us s).2 = !(left s.cancelled us).isEmpty := by
  induction us generalizing s with
  | nil => cases hc : s.cancelled <;> simp [loop, ran, left, names]
  | cons u us ih =>
    unfold loop
    cases hc : s.cancelled with
    | true => simp [ran, left, names]
    | false =>
      simp only [Bool.false_eq_true, if_false]
      obtain ⟨h1, h2⟩ := runUnit_started u.records u.plugins s
      obtain ⟨i1, i2⟩ := ih (runUnit u.records u.plugins s)
      have hcu : (runUnit u.records u.plugins s).cancelled = u.cancels := by rw [h2, hc]; simp [Iter.cancels]
      refine ⟨?_, ?_⟩
      · rw [i1, h1, hcu]; simp [ran, names, List.append_assoc]
      · rw [i2, hcu]; simp [left]

theorem loop_cancelled (us : List Iter) (s : St) (h : (loop us s).2 = false) :
    (loop us s).1.cancelled = (s.cancelled || us.any (·.cancels)) := by
  induction us generalizing s with
  | nil => simp [loop]
  | cons u us ih =>
    unfold loop at h ⊢
    cases hc : s.cancelled with
    | true => simp [hc] at h
    | false =>
      simp only [hc, Bool.false_eq_true, if_false] at h ⊢
      rw [ih _ h, (runUnit_started u.records u.plugins s).2, hc]
      simp [Iter.cancels, Bool.or_assoc]

/-- two consecutive phase loops with the early return in between are one loop over the concatenation -/
theorem loop_append (a b : List Iter) (s : St) :
    loop (a ++ b) s = if (loop a s).2 then ((loop a s).1, true) else loop b (loop a s).1 := by
  induction a generalizing s with
  | nil => simp [loop]
  | cons u us ih =>
    cases hc : s.cancelled with
    | true => simp [loop, hc]
    | false => simp only [List.cons_append, loop, hc, Bool.false_eq_true, if_false]; exact ih _

theorem ran_false_eq_through (us : List Iter) : ran false us = through us := by
  unfold through
  induction us with
  | nil => rfl
  | cons u us ih =>
    cases hc : u.cancels with
    | true =>
      simp only [ran, hc, List.takeWhile_cons, Bool.not_true, Bool.false_eq_true, if_false, List.length_nil, Nat.zero_add,
        List.take_succ_cons, List.take_zero]
    | false =>
      simp only [ran, hc, List.takeWhile_cons, Bool.not_false, if_true, List.length_cons, List.take_succ_cons]
      rw [ih]

theorem left_false_eq_after (us : List Iter) : left false us = after us := by
  unfold after
  induction us with
  | nil => rfl
  | cons u us ih =>
    cases hc : u.cancels with
    | true =>
      simp only [left, hc, List.takeWhile_cons, Bool.not_true, Bool.false_eq_true, if_false, List.length_nil, Nat.zero_add,
        List.drop_succ_cons, List.drop_zero]
    | false =>
      simp only [left, hc, List.takeWhile_cons, Bool.not_false, if_true, List.length_cons, List.drop_succ_cons]
      rw [ih]

theorem takeWhile_all {α} (p : α → Bool) (l : List α) (h : ∀ x ∈ l, p x = true) : l.takeWhile p = l := by
  induction l with
  | nil => rfl
  | cons x xs ih =>
    rw [List.takeWhile_cons, h x (by simp)]
    simp [ih (fun y hy => h y (by simp [hy]))]

end Scalibr.Phases
