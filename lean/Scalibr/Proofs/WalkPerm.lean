/-
Order independence of the specification (C08): re-arranging the listing of EVERY directory by
ARBITRARY permutations leaves the owed `Extract` calls unchanged as a multiset (for fault plans that
do not contain failing directory reads, whose position in the listing is itself order dependent).
-/
import Scalibr.Spec.Walk
import Scalibr.Proofs.WalkSpec
namespace Scalibr.Walk

/-- a family of rearrangements, one per directory path; `ρ p l` must be a permutation of `l` -/
abbrev Rearr := Path → List (String × Node) → List (String × Node)

mutual
/-- the same content with every directory listed in a different order -/
def permuteTree (ρ : Rearr) (p : Path) : Node → Node
  | .file k sz => .file k sz
  | .dir gi es => .dir gi (ρ p (permuteEntries ρ p es))
def permuteEntries (ρ : Rearr) (p : Path) : List (String × Node) → List (String × Node)
  | [] => []
  | (s, n) :: rest => (s, permuteTree ρ (p ++ [s]) n) :: permuteEntries ρ p rest
end

def stripD (d : DirInfo) : DirInfo := { d with childIdx := 0 }
def strip (r : FileRec) : FileRec := { r with dirs := r.dirs.map stripD }

def NoReadFaults (f : Faults) : Prop := ∀ p k, f.readEntryFail p k = false

theorem giEntryOf_stripD (f : Faults) (d : DirInfo) : giEntryOf f (stripD d) = giEntryOf f d := rfl

theorem map_giEntryOf_strip (f : Faults) (l : List DirInfo) : (l.map stripD).map (giEntryOf f) = l.map (giEntryOf f) := by
  simp [List.map_map, Function.comp_def, giEntryOf_stripD]

theorem dirPasses_strip (c : Cfg) (f : Faults) (hf : NoReadFaults f) (above : List GiEntry) (dirs : List DirInfo) (i : Nat) :
    dirPasses c f above (dirs.map stripD) i = dirPasses c f above dirs i := by
  unfold dirPasses
  rw [List.getElem?_map]
  cases dirs[i]? with
  | none => rfl
  | some d =>
    simp only [Option.map_some]
    have h1 : (List.take i (dirs.map stripD)).map (giEntryOf f) = (List.take i dirs).map (giEntryOf f) := by
      rw [← List.map_take, map_giEntryOf_strip]
    rw [h1]
    have hf' : ∀ p k, f.readEntryFail p k = false := hf
    simp [stripD, hf']

/-- without failing directory reads the specification does not look at listing positions -/
theorem mustOne_strip (c : Cfg) (f : Faults) (hf : NoReadFaults f) (above : List GiEntry) (r : FileRec) :
    mustOne c f above (strip r) = mustOne c f above r := by
  unfold mustOne reached fileEligible sizeOk readable strip
  simp only [List.length_map, map_giEntryOf_strip]
  have : (List.range r.dirs.length).all (dirPasses c f above (r.dirs.map stripD))
       = (List.range r.dirs.length).all (dirPasses c f above r.dirs) := by
    congr 1; funext i; exact dirPasses_strip c f hf above r.dirs i
  rw [this]

mutual
theorem allFiles_strip_anc (p : Path) :
    ∀ (n : Node) (anc anc' : List DirInfo), anc.map stripD = anc'.map stripD →
      (allFiles p anc n).map strip = (allFiles p anc' n).map strip
  | .file k sz, anc, anc', h => by simp [allFiles, strip, h]
  | .dir gi es, anc, anc', h => by
    simp only [allFiles]
    exact allFilesList_strip_anc p gi es anc anc' 0 0 h
theorem allFilesList_strip_anc (p : Path) (gi : Option PatSet) :
    ∀ (es : List (String × Node)) (anc anc' : List DirInfo) (i j : Nat), anc.map stripD = anc'.map stripD →
      (allFilesList p gi anc es i).map strip = (allFilesList p gi anc' es j).map strip
  | [], _, _, _, _, _ => by simp [allFilesList]
  | (s, n) :: rest, anc, anc', i, j, h => by
    simp only [allFilesList, List.map_append]
    rw [allFiles_strip_anc (p ++ [s]) n (anc ++ [(⟨p, gi, i⟩ : DirInfo)]) (anc' ++ [(⟨p, gi, j⟩ : DirInfo)]) (by simp [h, stripD]),
        allFilesList_strip_anc p gi rest anc anc' (i+1) (j+1) h]
end

/-- the stripped enumeration of a listing is invariant under permutations of the listing -/
theorem allFilesList_perm (p : Path) (gi : Option PatSet) (anc : List DirInfo) {l l' : List (String × Node)}
    (hp : l.Perm l') : ∀ i j, ((allFilesList p gi anc l i).map strip).Perm ((allFilesList p gi anc l' j).map strip) := by
  induction hp with
  | nil => intro i j; simp [allFilesList]
  | cons x _ ih =>
    intro i j
    obtain ⟨s, n⟩ := x
    simp only [allFilesList, List.map_append]
    rw [allFiles_strip_anc (p ++ [s]) n (anc ++ [(⟨p, gi, i⟩ : DirInfo)]) (anc ++ [(⟨p, gi, j⟩ : DirInfo)]) (by simp [stripD])]
    exact List.Perm.append_left _ (ih (i+1) (j+1))
  | swap x y l =>
    intro i j
    obtain ⟨s, n⟩ := x
    obtain ⟨t, m⟩ := y
    simp only [allFilesList, List.map_append]
    rw [allFiles_strip_anc (p ++ [t]) m (anc ++ [(⟨p, gi, i⟩ : DirInfo)]) (anc ++ [(⟨p, gi, j+1⟩ : DirInfo)]) (by simp [stripD]),
        allFiles_strip_anc (p ++ [s]) n (anc ++ [(⟨p, gi, i+1⟩ : DirInfo)]) (anc ++ [(⟨p, gi, j⟩ : DirInfo)]) (by simp [stripD]),
        allFilesList_strip_anc p gi l anc anc (i+1+1) (j+1+1) rfl]
    rw [← List.append_assoc, ← List.append_assoc]
    exact List.Perm.append_right _ List.perm_append_comm
  | trans _ _ ih1 ih2 => intro i j; exact (ih1 i 0).trans (ih2 0 j)

mutual
theorem allFiles_permute (ρ : Rearr) (hρ : ∀ p l, (ρ p l).Perm l) (p : Path) :
    ∀ (n : Node) (anc : List DirInfo),
      ((allFiles p anc (permuteTree ρ p n)).map strip).Perm ((allFiles p anc n).map strip)
  | .file k sz, anc => by simp [permuteTree, allFiles]
  | .dir gi es, anc => by
    simp only [permuteTree, allFiles]
    exact (allFilesList_perm p gi anc (hρ p _) 0 0).trans (allFilesList_permute ρ hρ p gi es anc 0)
theorem allFilesList_permute (ρ : Rearr) (hρ : ∀ p l, (ρ p l).Perm l) (p : Path) (gi : Option PatSet) :
    ∀ (es : List (String × Node)) (anc : List DirInfo) (i : Nat),
      ((allFilesList p gi anc (permuteEntries ρ p es) i).map strip).Perm ((allFilesList p gi anc es i).map strip)
  | [], _, _ => by simp [permuteEntries, allFilesList]
  | (s, n) :: rest, anc, i => by
    simp only [permuteEntries, allFilesList, List.map_append]
    exact List.Perm.append (allFiles_permute ρ hρ (p ++ [s]) n _) (allFilesList_permute ρ hρ p gi rest anc (i+1))
end

theorem flatMap_strip (c : Cfg) (f : Faults) (hf : NoReadFaults f) (above : List GiEntry) (l : List FileRec) :
    l.flatMap (mustOne c f above) = (l.map strip).flatMap (mustOne c f above) := by
  rw [List.flatMap_map]
  exact flatMap_congr' (fun r _ => (mustOne_strip c f hf above r).symm)

/-- **Listing order is irrelevant to what must be extracted** from a walk. -/
theorem mustFrom_permute (c : Cfg) (f : Faults) (hf : NoReadFaults f) (above : List GiEntry)
    (ρ : Rearr) (hρ : ∀ p l, (ρ p l).Perm l) (p : Path) (n : Node) :
    (mustFrom c f above p (permuteTree ρ p n)).Perm (mustFrom c f above p n) := by
  unfold mustFrom
  rw [flatMap_strip c f hf, flatMap_strip c f hf above (allFiles p [] n)]
  exact List.Perm.flatMap_right _ (allFiles_permute ρ hρ p n [])

end Scalibr.Walk
