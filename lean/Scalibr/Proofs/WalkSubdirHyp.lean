/-
Decidable forms of two hypotheses, so that the driver can tell the checks when a theorem applies:
`distinctB` (= `DistinctNames`) and `subdirHyp` (= the hypotheses of the sub-directory theorem `C01_subdir_partial`).
-/
import Scalibr.Proofs.WalkSubdir
import Scalibr.Proofs.WalkMore
namespace Scalibr.Walk

/-- no name occurs twice in the list (Boolean) -/
def nodupB : List String → Bool
  | [] => true
  | x :: xs => !xs.contains x && nodupB xs

theorem nodupB_iff : ∀ l : List String, nodupB l = true ↔ l.Nodup
  | [] => by simp [nodupB]
  | x :: xs => by simp [nodupB, nodupB_iff xs, List.nodup_cons]

mutual
/-- every directory of the tree lists distinct names (Boolean form of `DistinctNames`) -/
def distinctB : Node → Bool
  | .file _ _ => true
  | .dir _ es => nodupB (es.map (·.1)) && distinctBL es
def distinctBL : List (String × Node) → Bool
  | [] => true
  | (_, n) :: rest => distinctB n && distinctBL rest
end

mutual
theorem distinctB_iff : ∀ n : Node, distinctB n = true ↔ DistinctNames n
  | .file _ _ => by simp [distinctB, DistinctNames]
  | .dir _ es => by
    simp only [distinctB, DistinctNames, Bool.and_eq_true, nodupB_iff, distinctBL_iff es]
theorem distinctBL_iff : ∀ es : List (String × Node), distinctBL es = true ↔ DistinctNamesL es
  | [] => by simp [distinctBL, DistinctNamesL]
  | (_, n) :: rest => by
    simp only [distinctBL, DistinctNamesL, Bool.and_eq_true, distinctB_iff n, distinctBL_iff rest]
end

/-- the hypotheses of the sub-directory theorem, for the whole-tree configuration `c` (`paths = []`), fault plan `f`,
tree `root` and directory path `d`: no sub-directory cut-off, distinct sibling names, `d` is a directory of the tree, the
whole-tree walk REACHES it (every directory above it lets the walk through), and the two start points can be stat'ed -/
def subdirHyp (c : Cfg) (f : Faults) (root : Node) (d : Path) : Bool :=
  c.paths.isEmpty && !c.ignoreSubDirs && distinctB root && !f.statFail [] && !f.statFail d &&
  match chainOf [] root d with
  | some (chain, .dir _ _) => (List.range chain.length).all fun i => dirPasses c f [] chain i
  | _ => false

/-- **Sub-directory equivalence from the decidable hypothesis** (specification level). -/
theorem mustRequested_subdir_of_hyp (c : Cfg) (f : Faults) (root : Node) (d : Path) (h : subdirHyp c f root d = true) :
    mustRequested { c with paths := [d] } f root d = (mustRoot c f root).filter (fun cl => under d cl.path) := by
  unfold subdirHyp at h
  simp only [Bool.and_eq_true, Bool.not_eq_true', List.isEmpty_iff] at h
  obtain ⟨⟨⟨⟨⟨hp, hisd⟩, hdn⟩, hs0⟩, hsd⟩, hch⟩ := h
  cases hc : chainOf [] root d with
  | none => rw [hc] at hch; cases hch
  | some x =>
    obtain ⟨chain, m⟩ := x
    rw [hc] at hch
    cases m with
    | file k sz => cases hch
    | dir gi es =>
      simp only [List.all_eq_true, List.mem_range] at hch
      exact mustRequested_subdir c hp hisd f root ((distinctB_iff root).mp hdn) d gi es chain hc hch hs0 hsd

end Scalibr.Walk
