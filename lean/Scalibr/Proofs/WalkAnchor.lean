/-
The structural walk specifications are anchored in the declarative enumeration of `Spec/WalkNodes.lean`,
for every tree, fault plan and configuration (no hypothesis on the configuration):

* `traversalFault … = ∃ enumerated node, visited ∧ told a fault there`   (`traversalFault_anchor`, `traversalFaultScan_anchor`)
* `visits … = Σ over visited nodes (1 + secondCalls)`                     (`visits_anchor`, `visitsScan_anchor`)
* `reachableInodes ≤ visits`, with equality when no operation fails        (`reachableInodesScan_le_visitsScan`, `visitsScan_eq_reachable`)

The proofs are the induction of `walkNode_spec` (Proofs/WalkSpec.lean) without engine state.
-/
import Scalibr.Spec.WalkNodes
import Scalibr.Proofs.WalkSpec
namespace Scalibr.Walk

/-! ### list facts -/

theorem any_range_shift (h : Nat → Bool) (k n : Nat) :
    (List.range (n + 2)).any (fun j => h (k + j)) = (h k || (List.range (n + 1)).any (fun j => h (k + 1 + j))) := by
  rw [List.range_succ_eq_map]
  simp only [List.any_cons, List.any_map, Nat.add_zero]
  congr 1
  congr 1
  funext j
  simp only [Function.comp]
  congr 1
  omega

theorem any_range_one (h : Nat → Bool) (k : Nat) : (List.range 1).any (fun j => h (k + j)) = h k := by
  simp [List.range_succ]

theorem any_range_head (h : Nat → Bool) (k n : Nat) (hk : h k = true) :
    (List.range (n + 1)).any (fun j => h (k + j)) = true := by
  rw [List.any_eq_true]
  exact ⟨0, List.mem_range.mpr (by omega), by simpa using hk⟩

theorem any_congr' {α} {l : List α} {g h : α → Bool} (heq : ∀ x ∈ l, g x = h x) : l.any g = l.any h := by
  induction l with
  | nil => rfl
  | cons a as ih =>
    simp only [List.any_cons]
    rw [heq a (by simp), ih (fun x hx => heq x (by simp [hx]))]

theorem sum_map_one_add {α} (g : α → Nat) (l : List α) :
    (l.map fun r => 1 + g r).sum = l.length + (l.map g).sum := by
  induction l with
  | nil => rfl
  | cons a as ih => simp only [List.map_cons, List.sum_cons, List.length_cons, ih]; omega

theorem sum_map_zero {α} (l : List α) : (l.map fun _ => 0).sum = 0 := by
  induction l with
  | nil => rfl
  | cons a as ih => simp only [List.map_cons, List.sum_cons, ih]

theorem sum_map_le {α} (g h : α → Nat) (l : List α) (hle : ∀ x ∈ l, g x ≤ h x) :
    (l.map g).sum ≤ (l.map h).sum := by
  induction l with
  | nil => simp
  | cons a as ih =>
    simp only [List.map_cons, List.sum_cons]
    have := hle a (by simp)
    have := ih (fun x hx => hle x (by simp [hx]))
    omega

theorem sum_map_congr {α} (g h : α → Nat) (l : List α) (heq : ∀ x ∈ l, g x = h x) :
    (l.map g).sum = (l.map h).sum := by
  induction l with
  | nil => simp
  | cons a as ih =>
    simp only [List.map_cons, List.sum_cons]
    rw [heq a (by simp), ih (fun x hx => heq x (by simp [hx]))]

/-! ### "visited", relative to a walk that has already passed the first `m` directories of the chain -/

def visitedFrom (m : Nat) (c : Cfg) (f : Faults) (above : List GiEntry) (r : NodeRec) : Bool :=
  (List.range r.dirs.length).all (fun i => decide (i < m) || dirPasses c f above r.dirs i)

theorem visitedFrom_zero (c : Cfg) (f : Faults) (above : List GiEntry) :
    visitedFrom 0 c f above = visitedRec c f above := by
  funext r; unfold visitedFrom visitedRec; simp

theorem visitedFrom_self (m : Nat) (c : Cfg) (f : Faults) (above : List GiEntry) (r : NodeRec)
    (hm : r.dirs.length ≤ m) : visitedFrom m c f above r = true := by
  unfold visitedFrom
  rw [List.all_eq_true]
  intro i hi
  have := List.mem_range.mp hi
  simp only [Bool.or_eq_true, decide_eq_true_eq]
  left; omega

theorem visitedFrom_mk (c : Cfg) (f : Faults) (above : List GiEntry) (p : Path) (sh : NodeShape) (anc : List DirInfo) :
    visitedFrom anc.length c f above ⟨p, sh, anc⟩ = true :=
  visitedFrom_self _ _ _ _ _ (Nat.le_refl _)

/-- peel one directory off the chain -/
theorem visitedFrom_peel (m : Nat) (c : Cfg) (f : Faults) (above : List GiEntry) (r : NodeRec)
    (hm : m < r.dirs.length) :
    visitedFrom m c f above r = (dirPasses c f above r.dirs m && visitedFrom (m+1) c f above r) := by
  unfold visitedFrom
  rw [Bool.eq_iff_iff]
  simp only [List.all_eq_true, List.mem_range, Bool.or_eq_true, decide_eq_true_eq, Bool.and_eq_true]
  constructor
  · intro h
    refine ⟨?_, ?_⟩
    · rcases h m hm with h | h
      · omega
      · exact h
    · intro i hi
      rcases h i hi with h | h
      · left; omega
      · right; exact h
  · rintro ⟨h1, h2⟩ i hi
    rcases h2 i hi with h | h
    · by_cases him : i < m
      · left; exact him
      · have : i = m := by omega
        subst this; right; exact h1
    · right; exact h

/-- directory `p`, at the end of chain `anc`, lets the walk through to its entry number `i` -/
def passes (c : Cfg) (f : Faults) (above : List GiEntry) (anc : List DirInfo) (p : Path) (i : Nat) : Bool :=
  !excludedDir c (above ++ anc.map (giEntryOf f)) p && !f.openFail p &&
    (List.range (i + 1)).all fun k => !f.readEntryFail p k

theorem visitedFrom_at (c : Cfg) (f : Faults) (above : List GiEntry) (anc : List DirInfo) (r : NodeRec)
    (p : Path) (gi : Option PatSet) (j : Nat)
    (htake : r.dirs.take anc.length = anc) (hget : r.dirs[anc.length]? = some ⟨p, gi, j⟩) :
    visitedFrom anc.length c f above r =
      (passes c f above anc p j && visitedFrom (anc.length + 1) c f above r) := by
  have hlen : anc.length < r.dirs.length := (List.getElem?_eq_some_iff.mp hget).1
  rw [visitedFrom_peel _ _ _ _ _ hlen]
  congr 1
  unfold dirPasses passes
  rw [hget, htake]

/-! ### every enumerated node carries the ancestor chain as a prefix of its own -/

theorem chain_snoc (dirs anc : List DirInfo) (d : DirInfo)
    (h : dirs.take (anc ++ [d]).length = anc ++ [d]) :
    dirs.take anc.length = anc ∧ dirs[anc.length]? = some d := by
  simp only [List.length_append, List.length_singleton] at h
  constructor
  · have : (dirs.take (anc.length + 1)).take anc.length = (anc ++ [d]).take anc.length := by rw [h]
    simpa [List.take_take, Nat.min_eq_left (Nat.le_succ _)] using this
  · have : (dirs.take (anc.length + 1))[anc.length]? = (anc ++ [d])[anc.length]? := by rw [h]
    simpa [List.getElem?_take] using this

mutual
theorem allNodes_chain (p : Path) (anc : List DirInfo) :
    ∀ (n : Node) (r : NodeRec), r ∈ allNodes p anc n → r.dirs.take anc.length = anc ∧ anc.length ≤ r.dirs.length
  | .file k sz, r, hr => by
    simp [allNodes] at hr; subst hr; simp
  | .dir gi es, r, hr => by
    simp only [allNodes, List.mem_cons] at hr
    rcases hr with hr | hr
    · subst hr; simp
    · exact allNodesList_chain p gi anc es 0 r hr |>.1
theorem allNodesList_chain (p : Path) (gi : Option PatSet) (anc : List DirInfo) :
    ∀ (es : List (String × Node)) (i : Nat) (r : NodeRec), r ∈ allNodesList p gi anc es i →
      (r.dirs.take anc.length = anc ∧ anc.length ≤ r.dirs.length) ∧
      ∃ j, i ≤ j ∧ r.dirs[anc.length]? = some ⟨p, gi, j⟩
  | [], i, r, hr => by simp [allNodesList] at hr
  | (s, n) :: rest, i, r, hr => by
    simp only [allNodesList, List.mem_append] at hr
    rcases hr with hr | hr
    · have ⟨h1, h2⟩ := allNodes_chain (p ++ [s]) (anc ++ [⟨p, gi, i⟩]) n r hr
      have ⟨h3, h4⟩ := chain_snoc r.dirs anc ⟨p, gi, i⟩ h1
      simp only [List.length_append, List.length_singleton] at h2
      exact ⟨⟨h3, by omega⟩, i, Nat.le_refl _, h4⟩
    · have ⟨h1, j, hj, h2⟩ := allNodesList_chain p gi anc rest (i+1) r hr
      exact ⟨h1, j, by omega, h2⟩
end

/-- a node enumerated below entry `i` of directory `p` -/
theorem visitedFrom_child (c : Cfg) (f : Faults) (above : List GiEntry) (anc : List DirInfo)
    (p : Path) (gi : Option PatSet) (i : Nat) (q : Path) (n : Node) (r : NodeRec)
    (hr : r ∈ allNodes q (anc ++ [⟨p, gi, i⟩]) n) :
    visitedFrom anc.length c f above r =
      (passes c f above anc p i && visitedFrom (anc ++ [(⟨p, gi, i⟩ : DirInfo)]).length c f above r) := by
  have ⟨h1, _⟩ := allNodes_chain q (anc ++ [⟨p, gi, i⟩]) n r hr
  have ⟨h3, h4⟩ := chain_snoc r.dirs anc ⟨p, gi, i⟩ h1
  rw [visitedFrom_at c f above anc r p gi i h3 h4]
  simp

/-- a node enumerated below directory `p` from entry `i` on -/
theorem visitedFrom_below (c : Cfg) (f : Faults) (above : List GiEntry) (anc : List DirInfo)
    (p : Path) (gi : Option PatSet) (es : List (String × Node)) (i : Nat) (r : NodeRec)
    (hr : r ∈ allNodesList p gi anc es i) :
    ∃ j, i ≤ j ∧ visitedFrom anc.length c f above r =
      (passes c f above anc p j && visitedFrom (anc.length + 1) c f above r) := by
  have ⟨⟨h1, _⟩, j, hj, h3⟩ := allNodesList_chain p gi anc es i r hr
  exact ⟨j, hj, visitedFrom_at c f above anc r p gi j h1 h3⟩

theorem passes_false_of_read (c : Cfg) (f : Faults) (above : List GiEntry) (anc : List DirInfo)
    (p : Path) (k j : Nat) (hkj : k ≤ j) (hrk : f.readEntryFail p k = true) :
    passes c f above anc p j = false := by
  unfold passes
  have : ((List.range (j + 1)).all fun k => !f.readEntryFail p k) = false := by
    rw [List.all_eq_false]
    exact ⟨k, List.mem_range.mpr (by omega), by simp [hrk]⟩
  rw [this]; simp

theorem passes_true (c : Cfg) (f : Faults) (above : List GiEntry) (anc : List DirInfo)
    (p : Path) (k : Nat)
    (hexf : excludedDir c (above ++ anc.map (giEntryOf f)) p = false) (hop : f.openFail p = false)
    (hread : ∀ j, j < k + 1 → f.readEntryFail p j = false) :
    passes c f above anc p k = true := by
  unfold passes
  rw [hexf, hop]
  simp only [Bool.not_false, Bool.true_and, List.all_eq_true, List.mem_range, Bool.not_eq_true']
  exact hread

/-- nothing enumerated below directory `p` from entry `k` on is visited when `p` does not let the walk
through to entry `k` -/
theorem not_visited_below (c : Cfg) (f : Faults) (above : List GiEntry) (anc : List DirInfo)
    (p : Path) (gi : Option PatSet) (es : List (String × Node)) (i : Nat)
    (hbad : ∀ j, i ≤ j → passes c f above anc p j = false) :
    ∀ r ∈ allNodesList p gi anc es i, visitedFrom anc.length c f above r = false := by
  intro r hr
  have ⟨j, hj, h⟩ := visitedFrom_below c f above anc p gi es i r hr
  rw [h, hbad j hj]; simp

/-- the context handed to the entries of a directory -/
theorem ctx_push (c : Cfg) (f : Faults) (above G : List GiEntry) (anc : List DirInfo) (p : Path) (gi : Option PatSet)
    (hg : c.useGitignore = true → G = above ++ anc.map (giEntryOf f)) :
    c.useGitignore = true →
      (if c.useGitignore then G ++ [giEntryOf f ⟨p, gi, 0⟩] else G) =
        above ++ anc.map (giEntryOf f) ++ [giEntryOf f ⟨p, gi, 0⟩] := by
  intro hu; simp only [hu, if_true]; rw [hg hu]

theorem ctx_child (c : Cfg) (f : Faults) (above G' : List GiEntry) (anc : List DirInfo) (p : Path) (gi : Option PatSet) (k : Nat)
    (hg : c.useGitignore = true → G' = above ++ anc.map (giEntryOf f) ++ [giEntryOf f ⟨p, gi, 0⟩]) :
    c.useGitignore = true → G' = above ++ (anc ++ [(⟨p, gi, k⟩ : DirInfo)]).map (giEntryOf f) := by
  intro hu; rw [hg hu]; simp [giEntryOf_idx f p gi k 0]

theorem toldFault_file (c : Cfg) (f : Faults) (above : List GiEntry) (p : Path) (k : Kind) (sz : Nat) (anc : List DirInfo) :
    toldFault c f above ⟨p, .file k sz, anc⟩ =
      (!((k = .special) || (k = .symlink && !c.readSymlinks)) &&
      !(c.useGitignore && stackMatch c (above ++ anc.map (giEntryOf f)) (tokens p) false) &&
      (List.range c.nExt).any (fun e => c.required e p) && decide (c.maxFileSize > 0) && f.statFail p) := rfl

theorem toldFault_dir (c : Cfg) (f : Faults) (above : List GiEntry) (p : Path) (gi : Option PatSet) (n : Nat) (anc : List DirInfo) :
    toldFault c f above ⟨p, .dir gi n, anc⟩ =
      (!excludedDir c (above ++ anc.map (giEntryOf f)) p &&
      ((c.useGitignore && f.openFail (p ++ [".gitignore"])) || f.openFail p || listingFails f p n)) := rfl

theorem secondCalls_file (c : Cfg) (f : Faults) (above : List GiEntry) (p : Path) (k : Kind) (sz : Nat) (anc : List DirInfo) :
    secondCalls c f above ⟨p, .file k sz, anc⟩ = 0 := rfl

theorem secondCalls_dir (c : Cfg) (f : Faults) (above : List GiEntry) (p : Path) (gi : Option PatSet) (n : Nat) (anc : List DirInfo) :
    secondCalls c f above ⟨p, .dir gi n, anc⟩ =
      (if excludedDir c (above ++ anc.map (giEntryOf f)) p then 0
       else if f.openFail p then 1
       else if listingFails f p n then 1
       else 0) := rfl

/-! ### 1. `traversalFault` is "some visited node is told a fault" -/

mutual
theorem traversalFault_anchor (c : Cfg) (f : Faults) (above : List GiEntry) (p : Path) (anc : List DirInfo) :
    ∀ (n : Node) (G : List GiEntry), (c.useGitignore = true → G = above ++ anc.map (giEntryOf f)) →
      traversalFault c f G p n =
        (allNodes p anc n).any (fun r => visitedFrom anc.length c f above r && toldFault c f above r)
  | .file k sz, G, hg => by
    simp only [traversalFault, allNodes, List.any_cons, List.any_nil, Bool.or_false]
    rw [visitedFrom_mk]
    simp only [toldFault_file, Bool.true_and]
    rw [gi_guard_congr c G _ (tokens p) false hg]
  | .dir gi es, G, hg => by
    simp only [traversalFault, allNodes, List.any_cons]
    rw [visitedFrom_mk]
    simp only [toldFault_dir, Bool.true_and]
    rw [excluded_congr c G _ p hg]
    by_cases hex : excludedDir c (above ++ anc.map (giEntryOf f)) p = true
    · -- an excluded directory: nothing is told here, nothing below is visited
      simp only [hex, if_true, Bool.not_true, Bool.false_and, Bool.false_or]
      symm
      rw [List.any_eq_false]
      intro r hr
      rw [not_visited_below c f above anc p gi es 0 (fun j _ => by unfold passes; rw [hex]; simp) r hr]
      simp
    · have hexf : excludedDir c (above ++ anc.map (giEntryOf f)) p = false := by simpa using hex
      simp only [hexf, Bool.false_eq_true, if_false, Bool.not_false, Bool.true_and]
      by_cases hop : f.openFail p = true
      · -- the failing Open is itself the witness
        simp [hop]
      · have hopf : f.openFail p = false := by simpa using hop
        rw [traversalFaultL_anchor c f above p gi anc es 0 _ (ctx_push c f above G anc p gi hg) hexf hopf
          (by intro j hj; omega)]
        simp only [hopf, listingFails, Nat.zero_add, Bool.or_false, Bool.or_assoc]
theorem traversalFaultL_anchor (c : Cfg) (f : Faults) (above : List GiEntry) (p : Path) (gi : Option PatSet)
    (anc : List DirInfo) :
    ∀ (es : List (String × Node)) (k : Nat) (G' : List GiEntry),
      (c.useGitignore = true → G' = above ++ anc.map (giEntryOf f) ++ [giEntryOf f ⟨p, gi, 0⟩]) →
      excludedDir c (above ++ anc.map (giEntryOf f)) p = false →
      f.openFail p = false →
      (∀ j, j < k → f.readEntryFail p j = false) →
      traversalFaultL c f G' p es k =
        ((List.range (es.length + 1)).any (fun j => f.readEntryFail p (k + j)) ||
         (allNodesList p gi anc es k).any (fun r => visitedFrom anc.length c f above r && toldFault c f above r))
  | [], k, G', _, _, _, _ => by
    simp only [traversalFaultL, allNodesList, List.length_nil, List.any_nil, Bool.or_false, Nat.zero_add]
    rw [any_range_one (f.readEntryFail p) k]
  | (name, n) :: rest, k, G', hg, hexf, hop, hread => by
    simp only [traversalFaultL, allNodesList, List.length_cons, List.any_append]
    by_cases hrk : f.readEntryFail p k = true
    · -- the failing read is itself the witness (the structural definition also looks below it)
      rw [any_range_head (f.readEntryFail p) k _ hrk]
      simp [hrk]
    · have hrk' : f.readEntryFail p k = false := by simpa using hrk
      have hread' : ∀ j, j < k + 1 → f.readEntryFail p j = false := by
        intro j hj
        by_cases hjk : j = k
        · subst hjk; exact hrk'
        · exact hread j (by omega)
      rw [traversalFault_anchor c f above (p ++ [name]) (anc ++ [⟨p, gi, k⟩]) n G' (ctx_child c f above G' anc p gi k hg),
        traversalFaultL_anchor c f above p gi anc rest (k+1) G' hg hexf hop hread',
        any_range_shift (f.readEntryFail p) k rest.length]
      have hfirst : (allNodes (p ++ [name]) (anc ++ [⟨p, gi, k⟩]) n).any
            (fun r => visitedFrom (anc ++ [(⟨p, gi, k⟩ : DirInfo)]).length c f above r && toldFault c f above r)
          = (allNodes (p ++ [name]) (anc ++ [⟨p, gi, k⟩]) n).any
            (fun r => visitedFrom anc.length c f above r && toldFault c f above r) := by
        apply any_congr'
        intro r hr
        rw [visitedFrom_child c f above anc p gi k _ n r hr, passes_true c f above anc p k hexf hop hread']
        simp
      rw [hfirst]
      simp only [hrk', Bool.false_or, Bool.or_left_comm]
end

/-- the anchor from the start of a walk: `traversalFault` is exactly "some node the walk gets to has a
failure `handleFile` is told about" -/
theorem traversalFault_anchor0 (c : Cfg) (f : Faults) (above : List GiEntry) (p : Path) (n : Node) :
    traversalFault c f above p n = toldFaultFrom c f above p n := by
  rw [traversalFault_anchor c f above p [] n above (by intro _; simp)]
  unfold toldFaultFrom
  simp only [List.length_nil, visitedFrom_zero]

theorem traversalFaultRequested_anchor (c : Cfg) (f : Faults) (root : Node) (p : Path) :
    traversalFaultRequested c f root p = toldFaultRequested c f root p := by
  unfold traversalFaultRequested toldFaultRequested
  by_cases hs : f.statFail p = true
  · simp only [hs, if_true]
  · simp only [hs, Bool.false_eq_true, if_false]
    cases hl : lookup root p with
    | none => rfl
    | some n =>
      cases n with
      | file k sz =>
        simp only []
        rw [traversalFault_anchor0]
        simp only [toldFaultFrom, allNodes, List.any_cons, List.any_nil, Bool.or_false, visitedRec,
          List.length_nil, List.range_zero, List.all_nil, Bool.true_and]
      | dir gi es =>
        simp only []
        by_cases hu : c.useGitignore = true
        · simp only [hu, if_true, Bool.true_and]
          rw [traversalFault_anchor0]
        · simp only [hu, Bool.false_eq_true, if_false, Bool.false_and, Bool.false_or]
          rw [traversalFault_anchor0]

theorem traversalFaultRoot_anchor (c : Cfg) (f : Faults) (root : Node) :
    traversalFaultRoot c f root = toldFaultRoot c f root := by
  unfold traversalFaultRoot toldFaultRoot
  rw [traversalFault_anchor0]
  rw [show traversalFaultRequested c f root = toldFaultRequested c f root from
    funext (traversalFaultRequested_anchor c f root)]

/-- C09's fault predicate is the declarative one -/
theorem traversalFaultScan_anchor (c : Cfg) (roots : List (Node × Faults)) :
    traversalFaultScan c roots = toldFaultScan c roots := by
  unfold traversalFaultScan toldFaultScan
  congr 1
  funext rf
  exact traversalFaultRoot_anchor c rf.2 rf.1

/-! ### 2. `visits` is "one call per visited node, plus its second calls" -/

/-- the summand -/
def callsOf (c : Cfg) (f : Faults) (above : List GiEntry) (r : NodeRec) : Nat := 1 + secondCalls c f above r

mutual
theorem visits_anchor (c : Cfg) (f : Faults) (above : List GiEntry) (p : Path) (anc : List DirInfo) :
    ∀ (n : Node) (G : List GiEntry), (c.useGitignore = true → G = above ++ anc.map (giEntryOf f)) →
      visits c f G p n =
        (((allNodes p anc n).filter (visitedFrom anc.length c f above)).map
          (fun r => 1 + secondCalls c f above r)).sum
  | .file k sz, G, _ => by
    simp only [visits, allNodes]
    rw [List.filter_cons_of_pos (visitedFrom_mk c f above p _ anc)]
    simp [secondCalls_file]
  | .dir gi es, G, hg => by
    simp only [visits, allNodes]
    rw [List.filter_cons_of_pos (visitedFrom_mk c f above p _ anc)]
    simp only [List.map_cons, List.sum_cons, secondCalls_dir]
    rw [excluded_congr c G _ p hg]
    by_cases hex : excludedDir c (above ++ anc.map (giEntryOf f)) p = true
    · simp only [hex, if_true]
      rw [List.filter_eq_nil_iff.mpr (fun r hr => by
        rw [not_visited_below c f above anc p gi es 0 (fun j _ => by unfold passes; rw [hex]; simp) r hr]
        simp)]
      simp
    · have hexf : excludedDir c (above ++ anc.map (giEntryOf f)) p = false := by simpa using hex
      simp only [hexf, Bool.false_eq_true, if_false]
      by_cases hop : f.openFail p = true
      · simp only [hop, if_true]
        rw [List.filter_eq_nil_iff.mpr (fun r hr => by
          rw [not_visited_below c f above anc p gi es 0 (fun j _ => by unfold passes; rw [hop]; simp) r hr]
          simp)]
        simp
      · have hopf : f.openFail p = false := by simpa using hop
        simp only [hopf, Bool.false_eq_true, if_false]
        rw [visitsL_anchor c f above p gi anc es 0 _ (ctx_push c f above G anc p gi hg) hexf hopf
          (by intro j hj; omega)]
        simp only [listingFails, Nat.zero_add]
        by_cases hb : (List.range (es.length + 1)).any (fun j => f.readEntryFail p j) = true
        · simp only [hb, if_true, Bool.toNat_true]; omega
        · have hb' : (List.range (es.length + 1)).any (fun j => f.readEntryFail p j) = false := by simpa using hb
          simp only [hb', Bool.false_eq_true, if_false, Bool.toNat_false]; omega
theorem visitsL_anchor (c : Cfg) (f : Faults) (above : List GiEntry) (p : Path) (gi : Option PatSet)
    (anc : List DirInfo) :
    ∀ (es : List (String × Node)) (k : Nat) (G' : List GiEntry),
      (c.useGitignore = true → G' = above ++ anc.map (giEntryOf f) ++ [giEntryOf f ⟨p, gi, 0⟩]) →
      excludedDir c (above ++ anc.map (giEntryOf f)) p = false →
      f.openFail p = false →
      (∀ j, j < k → f.readEntryFail p j = false) →
      visitsL c f G' p es k =
        ((List.range (es.length + 1)).any (fun j => f.readEntryFail p (k + j))).toNat +
        (((allNodesList p gi anc es k).filter (visitedFrom anc.length c f above)).map
          (fun r => 1 + secondCalls c f above r)).sum
  | [], k, G', _, _, _, _ => by
    simp only [visitsL, allNodesList, List.length_nil, Nat.zero_add, List.filter_nil, List.map_nil,
      List.sum_nil, Nat.add_zero]
    rw [any_range_one (f.readEntryFail p) k]
    cases f.readEntryFail p k <;> rfl
  | (name, n) :: rest, k, G', hg, hexf, hop, hread => by
    simp only [visitsL, allNodesList, List.length_cons]
    by_cases hrk : f.readEntryFail p k = true
    · -- the failing read is reported by one call and ends the listing: nothing from entry k on is visited
      rw [any_range_head (f.readEntryFail p) k _ hrk]
      simp only [hrk, if_true]
      have hnil : (allNodes (p ++ [name]) (anc ++ [⟨p, gi, k⟩]) n ++ allNodesList p gi anc rest (k+1)).filter
          (visitedFrom anc.length c f above) = [] := by
        rw [List.filter_eq_nil_iff]
        intro r hr
        have := not_visited_below c f above anc p gi ((name, n) :: rest) k
          (fun j hj => passes_false_of_read c f above anc p k j hj hrk) r (by simpa [allNodesList] using hr)
        simp [this]
      rw [hnil]; simp
    · have hrk' : f.readEntryFail p k = false := by simpa using hrk
      have hread' : ∀ j, j < k + 1 → f.readEntryFail p j = false := by
        intro j hj
        by_cases hjk : j = k
        · subst hjk; exact hrk'
        · exact hread j (by omega)
      simp only [hrk', Bool.false_eq_true, if_false]
      rw [visits_anchor c f above (p ++ [name]) (anc ++ [⟨p, gi, k⟩]) n G' (ctx_child c f above G' anc p gi k hg),
        visitsL_anchor c f above p gi anc rest (k+1) G' hg hexf hop hread',
        any_range_shift (f.readEntryFail p) k rest.length]
      have hfirst : (allNodes (p ++ [name]) (anc ++ [⟨p, gi, k⟩]) n).filter
            (visitedFrom (anc ++ [(⟨p, gi, k⟩ : DirInfo)]).length c f above)
          = (allNodes (p ++ [name]) (anc ++ [⟨p, gi, k⟩]) n).filter (visitedFrom anc.length c f above) := by
        apply List.filter_congr
        intro r hr
        rw [visitedFrom_child c f above anc p gi k _ n r hr, passes_true c f above anc p k hexf hop hread']
        simp
      rw [hfirst]
      simp only [hrk', Bool.false_or, List.filter_append, List.map_append, List.sum_append]
      omega
end

/-- the anchor from the start of a walk: `visits` is one `handleFile` call per node the walk gets to, plus
the second calls -/
theorem visits_anchor0 (c : Cfg) (f : Faults) (above : List GiEntry) (p : Path) (n : Node) :
    visits c f above p n = callsFrom c f above p n := by
  rw [visits_anchor c f above p [] n above (by intro _; simp)]
  unfold callsFrom
  simp only [List.length_nil, visitedFrom_zero]

/-- extra calls of a walk: the second calls of the nodes it gets to -/
def secondCallsFrom (c : Cfg) (f : Faults) (above : List GiEntry) (p : Path) (n : Node) : Nat :=
  (((allNodes p [] n).filter (visitedRec c f above)).map (secondCalls c f above)).sum

/-- `handleFile` calls = inodes processed + second calls -/
theorem visits_eq_reachable_add (c : Cfg) (f : Faults) (above : List GiEntry) (p : Path) (n : Node) :
    visits c f above p n = reachableInodes c f above p n + secondCallsFrom c f above p n := by
  rw [visits_anchor0]
  unfold callsFrom reachableInodes secondCallsFrom
  exact sum_map_one_add _ _

/-! ### 3. inodes ≤ calls, with equality when nothing fails -/

theorem reachableInodes_le_visits (c : Cfg) (f : Faults) (above : List GiEntry) (p : Path) (n : Node) :
    reachableInodes c f above p n ≤ visits c f above p n := by
  rw [visits_eq_reachable_add]; omega

theorem reachableInodesRequested_le (c : Cfg) (f : Faults) (root : Node) (p : Path) :
    reachableInodesRequested c f root p ≤ visitsRequested c f root p := by
  unfold reachableInodesRequested visitsRequested
  by_cases hs : f.statFail p = true
  · simp only [hs, if_true]; omega
  · simp only [hs, Bool.false_eq_true, if_false]
    cases hl : lookup root p with
    | none => simp
    | some n =>
      cases n with
      | file k sz => simp
      | dir gi es => exact reachableInodes_le_visits _ _ _ _ _

theorem reachableInodesRoot_le (c : Cfg) (f : Faults) (root : Node) :
    reachableInodesRoot c f root ≤ visitsRoot c f root := by
  unfold reachableInodesRoot visitsRoot
  by_cases hp : c.paths.isEmpty = true
  · simp only [hp, if_true]
    by_cases hs : f.statFail [] = true
    · simp only [hs, if_true]; omega
    · simp only [hs, Bool.false_eq_true, if_false]
      exact reachableInodes_le_visits _ _ _ _ _
  · simp only [hp, Bool.false_eq_true, if_false]
    exact sum_map_le _ _ _ (fun p _ => reachableInodesRequested_le c f root p)

/-- the inodes a scan processes never exceed its `handleFile` calls -/
theorem reachableInodesScan_le_visitsScan (c : Cfg) (roots : List (Node × Faults)) :
    reachableInodesScan c roots ≤ visitsScan c roots := by
  unfold reachableInodesScan visitsScan
  exact sum_map_le _ _ _ (fun rf _ => reachableInodesRoot_le c rf.2 rf.1)

/-- what "nothing fails" is really needed for inside a walk: directories open and list -/
def NoWalkFaults (f : Faults) : Prop :=
  (∀ p, f.openFail p = false) ∧ (∀ p k, f.readEntryFail p k = false)

theorem NoFaultsAt.walk {f : Faults} (h : NoFaultsAt f) : NoWalkFaults f := ⟨h.1, h.2.2⟩

theorem secondCalls_noFaults (c : Cfg) (f : Faults) (hf : NoWalkFaults f) (above : List GiEntry) (r : NodeRec) :
    secondCalls c f above r = 0 := by
  unfold secondCalls
  cases r.shape with
  | file k sz => rfl
  | dir gi n =>
    have : listingFails f r.path n = false := by
      unfold listingFails
      rw [List.any_eq_false]
      intro k _; simp [hf.2 r.path k]
    simp only [hf.1 r.path, this]
    split <;> rfl

theorem visits_eq_reachable (c : Cfg) (f : Faults) (hf : NoWalkFaults f) (above : List GiEntry) (p : Path) (n : Node) :
    visits c f above p n = reachableInodes c f above p n := by
  rw [visits_eq_reachable_add]
  unfold secondCallsFrom
  rw [sum_map_congr (secondCalls c f above) (fun _ => 0) _ (fun r _ => secondCalls_noFaults c f hf above r)]
  rw [sum_map_zero]; rfl

theorem visitsRequested_eq_reachable (c : Cfg) (f : Faults) (hf : NoWalkFaults f) (root : Node) (p : Path)
    (hs : f.statFail p = false) (hl : lookup root p ≠ none) :
    visitsRequested c f root p = reachableInodesRequested c f root p := by
  unfold reachableInodesRequested visitsRequested
  simp only [hs, Bool.false_eq_true, if_false]
  cases hl' : lookup root p with
  | none => exact absurd hl' hl
  | some n =>
    cases n with
    | file k sz => rfl
    | dir gi es => exact visits_eq_reachable c f hf _ _ _

/-- weakest convenient form per root: directories open and list, and every START path can be stat'ed and exists -/
theorem visitsRoot_eq_reachable (c : Cfg) (f : Faults) (hf : NoWalkFaults f) (root : Node)
    (hstart : if c.paths.isEmpty then f.statFail [] = false
              else ∀ p ∈ c.paths, f.statFail p = false ∧ lookup root p ≠ none) :
    visitsRoot c f root = reachableInodesRoot c f root := by
  unfold reachableInodesRoot visitsRoot
  by_cases hp : c.paths.isEmpty = true
  · simp only [hp, if_true] at hstart ⊢
    simp only [hstart, Bool.false_eq_true, if_false]
    exact visits_eq_reachable c f hf _ _ _
  · simp only [hp, Bool.false_eq_true, if_false] at hstart ⊢
    exact sum_map_congr _ _ _ (fun p hpm => visitsRequested_eq_reachable c f hf root p (hstart p hpm).1 (hstart p hpm).2)

theorem visitsScan_eq_reachable' (c : Cfg) (roots : List (Node × Faults))
    (h : ∀ rf ∈ roots, NoWalkFaults rf.2 ∧
      (if c.paths.isEmpty then rf.2.statFail [] = false
       else ∀ p ∈ c.paths, rf.2.statFail p = false ∧ lookup rf.1 p ≠ none)) :
    visitsScan c roots = reachableInodesScan c roots := by
  unfold reachableInodesScan visitsScan
  exact sum_map_congr _ _ _ (fun rf hrf => visitsRoot_eq_reachable c rf.2 (h rf hrf).1 rf.1 (h rf hrf).2)

/-- when no filesystem operation fails and every requested path exists, `handleFile` calls = inodes -/
theorem visitsScan_eq_reachable (c : Cfg) (roots : List (Node × Faults))
    (h : ∀ rf ∈ roots, NoFaultsAt rf.2 ∧ ∀ p ∈ c.paths, lookup rf.1 p ≠ none) :
    visitsScan c roots = reachableInodesScan c roots := by
  apply visitsScan_eq_reachable'
  intro rf hrf
  obtain ⟨hn, hl⟩ := h rf hrf
  refine ⟨hn.walk, ?_⟩
  split
  · exact hn.2.1 []
  · exact fun p hp => ⟨hn.2.1 p, hl p hp⟩

/-! scan-level form of 2 -/

def callsRequested (c : Cfg) (f : Faults) (root : Node) (p : Path) : Nat :=
  if f.statFail p then 1 else
  match lookup root p with
  | none => 1
  | some (.dir gi es) => callsFrom c f (if c.useGitignore then (parentGis f root p).1 else []) p (.dir gi es)
  | some (.file _ _) => 1

def callsRoot (c : Cfg) (f : Faults) (root : Node) : Nat :=
  if c.paths.isEmpty then (if f.statFail [] then 1 else callsFrom c f [] [] root)
  else (c.paths.map (callsRequested c f root)).sum

/-- `handleFile` calls of a scan, declaratively: per start path one call for a path that cannot be
stat'ed / does not exist / is a file, otherwise one per visited node plus its second calls -/
def callsScan (c : Cfg) (roots : List (Node × Faults)) : Nat :=
  (roots.map fun (r, f) => callsRoot c f r).sum

theorem visitsRequested_anchor (c : Cfg) (f : Faults) (root : Node) (p : Path) :
    visitsRequested c f root p = callsRequested c f root p := by
  unfold visitsRequested callsRequested
  split
  · rfl
  · cases hl : lookup root p with
    | none => rfl
    | some n =>
      cases n with
      | file k sz => rfl
      | dir gi es => exact visits_anchor0 _ _ _ _ _

theorem visitsRoot_anchor (c : Cfg) (f : Faults) (root : Node) :
    visitsRoot c f root = callsRoot c f root := by
  unfold visitsRoot callsRoot
  rw [visits_anchor0]
  rw [show visitsRequested c f root = callsRequested c f root from funext (visitsRequested_anchor c f root)]

/-- C10's count is the declarative one -/
theorem visitsScan_anchor (c : Cfg) (roots : List (Node × Faults)) :
    visitsScan c roots = callsScan c roots := by
  unfold visitsScan callsScan
  congr 1
  congr 1
  funext rf
  exact visitsRoot_anchor c rf.2 rf.1

/-! ### 4. sanity: the definitions on small concrete trees (specification side only) -/

section Examples

/-- one extractor that wants every file; size limit 1 so that the lazy size stat happens; the matcher
ignores an entry when its last path component is named by a pattern -/
private def exC : Cfg :=
  { nExt := 1, required := fun _ _ => true, extract := fun _ _ => {}, maxFileSize := 1,
    giMatch := fun ps _ toks _ => ps.any fun pt => toks.getLast? = some pt.name }

private def exT : Node := .dir none [("d", .dir none [])]
private def exT2 : Node := .dir none [("a", .file .reg 1), ("b", .file .reg 1)]
private def exT3 : Node := .dir none [("d", .dir none [("x", .file .reg 1)]), ("y", .file .reg 1)]
private def exT4 : Node := .dir (some [⟨"d", false, false⟩]) [("d", .dir none [("x", .file .reg 1)]), ("y", .file .reg 1)]

/-- the enumeration itself: every node, with its chain -/
example : (allNodes [] [] exT3).map (fun r => (r.path, r.dirs.map (fun d => (d.path, d.childIdx)))) =
    [([], []), (["d"], [([], 0)]), (["d", "x"], [([], 0), (["d"], 0)]), (["y"], [([], 1)])] := by decide

/-- the auditor's witness: an entered directory that cannot be opened is ONE inode but TWO calls -/
example : reachableInodes exC { openFail := fun p => p = ["d"] } [] [] exT = 2 ∧
    visits exC { openFail := fun p => p = ["d"] } [] [] exT = 3 := by decide
example : reachableInodesScan exC [(exT, { openFail := fun p => p = ["d"] })] = 2 ∧
    visitsScan exC [(exT, { openFail := fun p => p = ["d"] })] = 3 := by decide

/-- a failing read costs a call but is no inode, and hides the later entries: read 1 fails → root and `a` -/
example : reachableInodes exC { readEntryFail := fun p k => p = [] ∧ k = 1 } [] [] exT2 = 2 ∧
    visits exC { readEntryFail := fun p k => p = [] ∧ k = 1 } [] [] exT2 = 3 := by decide
/-- the read that should have returned EOF fails: every entry is an inode, one extra call -/
example : reachableInodes exC { readEntryFail := fun p k => p = [] ∧ k = 2 } [] [] exT2 = 3 ∧
    visits exC { readEntryFail := fun p k => p = [] ∧ k = 2 } [] [] exT2 = 4 := by decide
/-- a start path that does not exist / cannot be stat'ed: one call, no inode -/
example : reachableInodesScan { exC with paths := [["q"]] } [(exT, {})] = 0 ∧
    visitsScan { exC with paths := [["q"]] } [(exT, {})] = 1 := by decide
example : reachableInodesScan exC [(exT, { statFail := fun p => p = [] })] = 0 ∧
    visitsScan exC [(exT, { statFail := fun p => p = [] })] = 1 := by decide
/-- nothing fails: calls = inodes (requested directory and requested file) -/
example : reachableInodesScan { exC with paths := [["d"], ["y"]] } [(exT3, {})] = 3 ∧
    visitsScan { exC with paths := [["d"], ["y"]] } [(exT3, {})] = 3 := by decide
/-- an excluded directory is an inode (it is handed to `handleFile`), nothing below it is -/
example : reachableInodes { exC with dirsToSkip := fun p => p = ["d"] } {} [] [] exT3 = 3 ∧
    visits { exC with dirsToSkip := fun p => p = ["d"] } {} [] [] exT3 = 3 := by decide
example : reachableInodes { exC with useGitignore := true } {} [] [] exT4 = 3 ∧
    reachableInodes exC {} [] [] exT4 = 4 := by decide

/-- told faults: the failing size stat of a visited file -/
example : toldFaultScan exC [(exT3, { statFail := fun p => p = ["d", "x"] })] = true ∧
    traversalFaultScan exC [(exT3, { statFail := fun p => p = ["d", "x"] })] = true := by decide
/-- … is not told when the file is below an excluded directory (skip list, gitignore) -/
example : toldFaultScan { exC with dirsToSkip := fun p => p = ["d"] } [(exT3, { statFail := fun p => p = ["d", "x"] })] = false ∧
    traversalFaultScan { exC with dirsToSkip := fun p => p = ["d"] } [(exT3, { statFail := fun p => p = ["d", "x"] })] = false := by decide
example : toldFaultScan { exC with useGitignore := true } [(exT4, { statFail := fun p => p = ["d", "x"] })] = false ∧
    toldFaultScan exC [(exT4, { statFail := fun p => p = ["d", "x"] })] = true := by decide
/-- the subtlety: below an unopenable directory (or after a failing read) the structural definition still
ORs in the children; declaratively the only witness is the earlier failure itself -/
example :
    let f : Faults := { openFail := fun p => p = ["d"], statFail := fun p => p = ["d", "x"] }
    ((allNodes [] [] exT3).filter (fun r => visitedRec exC f [] r && toldFault exC f [] r)).map (·.path) = [["d"]] ∧
    ((allNodes [] [] exT3).filter (toldFault exC f [])).map (·.path) = [["d"], ["d", "x"]] ∧
    toldFaultScan exC [(exT3, f)] = true ∧ traversalFaultScan exC [(exT3, f)] = true := by decide
example :
    let f : Faults := { readEntryFail := fun p k => p = [] ∧ k = 0, statFail := fun p => p = ["y"] }
    ((allNodes [] [] exT3).filter (fun r => visitedRec exC f [] r && toldFault exC f [] r)).map (·.path) = [[]] ∧
    toldFaultScan exC [(exT3, f)] = true := by decide
/-- an unreadable `.gitignore` is told only with gitignore on; above a requested directory too -/
example : toldFaultScan { exC with useGitignore := true } [(exT3, { openFail := fun p => p = ["d", ".gitignore"] })] = true ∧
    toldFaultScan exC [(exT3, { openFail := fun p => p = ["d", ".gitignore"] })] = false ∧
    toldFaultScan { exC with useGitignore := true, paths := [["d"]] } [(exT3, { openFail := fun p => p = [".gitignore"] })] = true ∧
    toldFaultScan { exC with paths := [["d"]] } [(exT3, { openFail := fun p => p = [".gitignore"] })] = false := by decide
example : toldFaultScan exC [(exT3, {})] = false := by decide

/-! the hypotheses are satisfiable -/

/-- context hypothesis of `traversalFault_anchor` / `visits_anchor`, below one directory, gitignore on -/
example : ({ exC with useGitignore := true } : Cfg).useGitignore = true →
    [giEntryOf {} ⟨[], some [⟨"d", false, false⟩], 0⟩] = [] ++ [(⟨[], some [⟨"d", false, false⟩], 0⟩ : DirInfo)].map (giEntryOf {}) :=
  fun _ => rfl
/-- hypotheses of the listing lemmas: an entered, openable directory whose first `k` reads succeeded -/
example : excludedDir exC ([] ++ ([] : List DirInfo).map (giEntryOf {})) [] = false ∧
    ({} : Faults).openFail [] = false ∧ ∀ j, j < 1 → ({} : Faults).readEntryFail [] j = false :=
  ⟨by decide, rfl, fun _ _ => rfl⟩
example : NoFaultsAt {} := ⟨fun _ => rfl, fun _ => rfl, fun _ _ => rfl⟩
example : NoWalkFaults { statFail := fun p => p = ["y"] } := ⟨fun _ => rfl, fun _ _ => rfl⟩
/-- hypothesis of `visitsScan_eq_reachable` with requested paths, two roots -/
example : ∀ rf ∈ [(exT3, ({} : Faults)), (exT4, {})], NoFaultsAt rf.2 ∧
    ∀ p ∈ ({ exC with paths := [["d"], ["y"]] } : Cfg).paths, lookup rf.1 p ≠ none := by
  intro rf hrf
  refine ⟨?_, ?_⟩
  · simp only [List.mem_cons, List.not_mem_nil, or_false] at hrf
    rcases hrf with h | h <;> subst h <;> exact ⟨fun _ => rfl, fun _ => rfl, fun _ _ => rfl⟩
  · simp only [List.mem_cons, List.not_mem_nil, or_false] at hrf
    rcases hrf with h | h <;> subst h <;> decide
/-- hypothesis of `visitsScan_eq_reachable'`: a size stat may fail as long as no start path is affected -/
example : ∀ rf ∈ [(exT3, ({ statFail := fun p => p = ["y"] } : Faults))], NoWalkFaults rf.2 ∧
    (if exC.paths.isEmpty then rf.2.statFail [] = false
     else ∀ p ∈ exC.paths, rf.2.statFail p = false ∧ lookup rf.1 p ≠ none) := by
  intro rf hrf
  simp only [List.mem_cons, List.not_mem_nil, or_false] at hrf
  subst hrf
  exact ⟨⟨fun _ => rfl, fun _ _ => rfl⟩, by decide⟩

end Examples

end Scalibr.Walk
