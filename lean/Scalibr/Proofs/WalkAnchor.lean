/-
The structural walk specifications are anchored in the declarative enumeration of `Spec/WalkNodes.lean`,
for every tree, fault plan and configuration (no hypothesis on the configuration):

* `traversalFault … = ∃ enumerated node, visited ∧ told a fault there`   (`traversalFault_anchor`, `traversalFaultScan_anchor`)
* `visits … = Σ over visited nodes (1 + secondCalls)`                     (`visits_anchor`, `visitsScan_anchor`)
* `reachableInodes ≤ visits`, with equality when no operation fails        (`reachableInodesScan_le_visitsScan`, `visitsScan_eq_reachable`)

The proofs are the induction of `walkNode_spec` (Proofs/WalkSpec.lean) without engine state.
-/
import Scalibr.Spec.WalkNodes
import Scalibr.Proofs.WalkSpec
namespace Scalibr.Walk

/-! ### list facts -/

theorem any_range_shift (h : Nat → Bool) (k n : Nat) :
    (List.range (n + 2)).any (fun j => h (k + j)) = (h k || (List.range (n + 1)).any (fun j => h (k + 1 + j))) := by
  rw [List.range_succ_eq_map]
  simp only [List.any_cons, List.any_map, Nat.add_zero]
  congr 1
  congr 1
  funext j
  simp only [Function.comp]
  congr 1
  omega

theorem any_range_one (h : Nat → Bool) (k : Nat) : (List.range 1).any (fun j => h (k + j)) = h k := by
  simp [List.range_succ]

theorem any_range_head (h : Nat → Bool) (k n : Nat) (hk : h k = true) :
    (List.range (n + 1)).any (fun j => h (k + j)) = true := by
  rw [List.any_eq_true]
  exact ⟨0, List.mem_range.mpr (by omega), by simpa using hk⟩

theorem sum_map_one_add {α} (g : α → Nat) (l : List α) :
    (l.map fun r => 1 + g r).sum = l.length + (l.map g).sum := by
  induction l with
  | nil => rfl
  | cons a as ih => simp only [List.map_cons, List.sum_cons, List.length_cons, ih]; omega

theorem sum_map_le {α} (g h : α → Nat) (l : List α) (hle : ∀ x ∈ l, g x ≤ h x) :
    (l.map g).sum ≤ (l.map h).sum := by
  induction l with
  | nil => simp
  | cons a as ih =>
    simp only [List.map_cons, List.sum_cons]
    have := hle a (by simp)
    have := ih (fun x hx => hle x (by simp [hx]))
    omega

theorem sum_map_congr {α} (g h : α → Nat) (l : List α) (heq : ∀ x ∈ l, g x = h x) :
    (l.map g).sum = (l.map h).sum := by
  induction l with
  | nil => simp
  | cons a as ih =>
    simp only [List.map_cons, List.sum_cons]
    rw [heq a (by simp), ih (fun x hx => heq x (by simp [hx]))]

/-! ### "visited", relative to a walk that has already passed the first `m` directories of the chain -/

def visitedFrom (m : Nat) (c : Cfg) (f : Faults) (above : List GiEntry) (r : NodeRec) : Bool :=
  (List.range r.dirs.length).all (fun i => decide (i < m) || dirPasses c f above r.dirs i)

theorem visitedFrom_zero (c : Cfg) (f : Faults) (above : List GiEntry) :
    visitedFrom 0 c f above = visitedRec c f above := by
  funext r; unfold visitedFrom visitedRec; simp

theorem visitedFrom_self (m : Nat) (c : Cfg) (f : Faults) (above : List GiEntry) (r : NodeRec)
    (hm : r.dirs.length ≤ m) : visitedFrom m c f above r = true := by
  unfold visitedFrom
  rw [List.all_eq_true]
  intro i hi
  have := List.mem_range.mp hi
  simp only [Bool.or_eq_true, decide_eq_true_eq]
  left; omega

/-- peel one directory off the chain -/
theorem visitedFrom_peel (m : Nat) (c : Cfg) (f : Faults) (above : List GiEntry) (r : NodeRec)
    (hm : m < r.dirs.length) :
    visitedFrom m c f above r = (dirPasses c f above r.dirs m && visitedFrom (m+1) c f above r) := by
  unfold visitedFrom
  rw [Bool.eq_iff_iff]
  simp only [List.all_eq_true, List.mem_range, Bool.or_eq_true, decide_eq_true_eq, Bool.and_eq_true]
  constructor
  · intro h
    refine ⟨?_, ?_⟩
    · rcases h m hm with h | h
      · omega
      · exact h
    · intro i hi
      rcases h i hi with h | h
      · left; omega
      · right; exact h
  · rintro ⟨h1, h2⟩ i hi
    rcases h2 i hi with h | h
    · by_cases him : i < m
      · left; exact him
      · have : i = m := by omega
        subst this; right; exact h1
    · right; exact h

/-- directory `p`, at the end of chain `anc`, lets the walk through to its entry number `i` -/
def passes (c : Cfg) (f : Faults) (above : List GiEntry) (anc : List DirInfo) (p : Path) (i : Nat) : Bool :=
  !excludedDir c (above ++ anc.map (giEntryOf f)) p && !f.openFail p &&
    (List.range (i + 1)).all fun k => !f.readEntryFail p k

theorem visitedFrom_at (c : Cfg) (f : Faults) (above : List GiEntry) (anc : List DirInfo) (r : NodeRec)
    (p : Path) (gi : Option PatSet) (j : Nat)
    (htake : r.dirs.take anc.length = anc) (hget : r.dirs[anc.length]? = some ⟨p, gi, j⟩) :
    visitedFrom anc.length c f above r =
      (passes c f above anc p j && visitedFrom (anc.length + 1) c f above r) := by
  have hlen : anc.length < r.dirs.length := (List.getElem?_eq_some_iff.mp hget).1
  rw [visitedFrom_peel _ _ _ _ _ hlen]
  congr 1
  unfold dirPasses passes
  rw [hget, htake]

/-! ### every enumerated node carries the ancestor chain as a prefix of its own -/

theorem chain_snoc (dirs anc : List DirInfo) (d : DirInfo)
    (h : dirs.take (anc ++ [d]).length = anc ++ [d]) :
    dirs.take anc.length = anc ∧ dirs[anc.length]? = some d := by
  simp only [List.length_append, List.length_singleton] at h
  constructor
  · have : (dirs.take (anc.length + 1)).take anc.length = (anc ++ [d]).take anc.length := by rw [h]
    simpa [List.take_take, Nat.min_eq_left (Nat.le_succ _)] using this
  · have : (dirs.take (anc.length + 1))[anc.length]? = (anc ++ [d])[anc.length]? := by rw [h]
    simpa [List.getElem?_take] using this

mutual
theorem allNodes_chain (p : Path) (anc : List DirInfo) :
    ∀ (n : Node) (r : NodeRec), r ∈ allNodes p anc n → r.dirs.take anc.length = anc ∧ anc.length ≤ r.dirs.length
  | .file k sz, r, hr => by
    simp [allNodes] at hr; subst hr; simp
  | .dir gi es, r, hr => by
    simp only [allNodes, List.mem_cons] at hr
    rcases hr with hr | hr
    · subst hr; simp
    · exact allNodesList_chain p gi anc es 0 r hr |>.1
theorem allNodesList_chain (p : Path) (gi : Option PatSet) (anc : List DirInfo) :
    ∀ (es : List (String × Node)) (i : Nat) (r : NodeRec), r ∈ allNodesList p gi anc es i →
      (r.dirs.take anc.length = anc ∧ anc.length ≤ r.dirs.length) ∧
      ∃ j, i ≤ j ∧ r.dirs[anc.length]? = some ⟨p, gi, j⟩
  | [], i, r, hr => by simp [allNodesList] at hr
  | (s, n) :: rest, i, r, hr => by
    simp only [allNodesList, List.mem_append] at hr
    rcases hr with hr | hr
    · have ⟨h1, h2⟩ := allNodes_chain (p ++ [s]) (anc ++ [⟨p, gi, i⟩]) n r hr
      have ⟨h3, h4⟩ := chain_snoc r.dirs anc ⟨p, gi, i⟩ h1
      simp only [List.length_append, List.length_singleton] at h2
      exact ⟨⟨h3, by omega⟩, i, Nat.le_refl _, h4⟩
    · have ⟨h1, j, hj, h2⟩ := allNodesList_chain p gi anc rest (i+1) r hr
      exact ⟨h1, j, by omega, h2⟩
end

/-- a node enumerated below entry `i` of directory `p` -/
theorem visitedFrom_child (c : Cfg) (f : Faults) (above : List GiEntry) (anc : List DirInfo)
    (p : Path) (gi : Option PatSet) (i : Nat) (q : Path) (n : Node) (r : NodeRec)
    (hr : r ∈ allNodes q (anc ++ [⟨p, gi, i⟩]) n) :
    visitedFrom anc.length c f above r =
      (passes c f above anc p i && visitedFrom (anc ++ [(⟨p, gi, i⟩ : DirInfo)]).length c f above r) := by
  have ⟨h1, _⟩ := allNodes_chain q (anc ++ [⟨p, gi, i⟩]) n r hr
  have ⟨h3, h4⟩ := chain_snoc r.dirs anc ⟨p, gi, i⟩ h1
  rw [visitedFrom_at c f above anc r p gi i h3 h4]
  simp

/-- a node enumerated below directory `p` from entry `i` on -/
theorem visitedFrom_below (c : Cfg) (f : Faults) (above : List GiEntry) (anc : List DirInfo)
    (p : Path) (gi : Option PatSet) (es : List (String × Node)) (i : Nat) (r : NodeRec)
    (hr : r ∈ allNodesList p gi anc es i) :
    ∃ j, i ≤ j ∧ visitedFrom anc.length c f above r =
      (passes c f above anc p j && visitedFrom (anc.length + 1) c f above r) := by
  have ⟨⟨h1, _⟩, j, hj, h3⟩ := allNodesList_chain p gi anc es i r hr
  exact ⟨j, hj, visitedFrom_at c f above anc r p gi j h1 h3⟩

theorem passes_false_of_read (c : Cfg) (f : Faults) (above : List GiEntry) (anc : List DirInfo)
    (p : Path) (k j : Nat) (hkj : k ≤ j) (hrk : f.readEntryFail p k = true) :
    passes c f above anc p j = false := by
  unfold passes
  have : ((List.range (j + 1)).all fun k => !f.readEntryFail p k) = false := by
    rw [List.all_eq_false]
    exact ⟨k, List.mem_range.mpr (by omega), by simp [hrk]⟩
  rw [this]; simp

theorem passes_true (c : Cfg) (f : Faults) (above : List GiEntry) (anc : List DirInfo)
    (p : Path) (k : Nat)
    (hexf : excludedDir c (above ++ anc.map (giEntryOf f)) p = false) (hop : f.openFail p = false)
    (hread : ∀ j, j < k + 1 → f.readEntryFail p j = false) :
    passes c f above anc p k = true := by
  unfold passes
  rw [hexf, hop]
  simp only [Bool.not_false, Bool.true_and, List.all_eq_true, List.mem_range, Bool.not_eq_true']
  exact hread

/-- nothing enumerated below directory `p` from entry `k` on is visited when `p` does not let the walk
through to entry `k` -/
theorem not_visited_below (c : Cfg) (f : Faults) (above : List GiEntry) (anc : List DirInfo)
    (p : Path) (gi : Option PatSet) (es : List (String × Node)) (i : Nat)
    (hbad : ∀ j, i ≤ j → passes c f above anc p j = false) :
    ∀ r ∈ allNodesList p gi anc es i, visitedFrom anc.length c f above r = false := by
  intro r hr
  have ⟨j, hj, h⟩ := visitedFrom_below c f above anc p gi es i r hr
  rw [h, hbad j hj]; simp

/-- the context handed to the entries of a directory -/
theorem ctx_push (c : Cfg) (f : Faults) (above G : List GiEntry) (anc : List DirInfo) (p : Path) (gi : Option PatSet)
    (hg : c.useGitignore = true → G = above ++ anc.map (giEntryOf f)) :
    c.useGitignore = true →
      (if c.useGitignore then G ++ [giEntryOf f ⟨p, gi, 0⟩] else G) =
        above ++ anc.map (giEntryOf f) ++ [giEntryOf f ⟨p, gi, 0⟩] := by
  intro hu; simp only [hu, if_true]; rw [hg hu]

theorem ctx_child (c : Cfg) (f : Faults) (above G' : List GiEntry) (anc : List DirInfo) (p : Path) (gi : Option PatSet) (k : Nat)
    (hg : c.useGitignore = true → G' = above ++ anc.map (giEntryOf f) ++ [giEntryOf f ⟨p, gi, 0⟩]) :
    c.useGitignore = true → G' = above ++ (anc ++ [(⟨p, gi, k⟩ : DirInfo)]).map (giEntryOf f) := by
  intro hu; rw [hg hu]; simp [giEntryOf_idx f p gi k 0]

/-! ### 1. `traversalFault` is "some visited node is told a fault" -/

mutual
theorem traversalFault_anchor (c : Cfg) (f : Faults) (above : List GiEntry) (p : Path) (anc : List DirInfo) :
    ∀ (n : Node) (G : List GiEntry), (c.useGitignore = true → G = above ++ anc.map (giEntryOf f)) →
      traversalFault c f G p n =
        (allNodes p anc n).any (fun r => visitedFrom anc.length c f above r && toldFault c f above r)
  | .file k sz, G, hg => by
    simp only [traversalFault, allNodes, List.any_cons, List.any_nil, Bool.or_false]
    rw [visitedFrom_self _ _ _ _ _ (Nat.le_refl _)]
    simp only [toldFault, Bool.true_and]
    rw [gi_guard_congr c G _ (tokens p) false hg]
  | .dir gi es, G, hg => by
    simp only [traversalFault, allNodes, List.any_cons]
    rw [visitedFrom_self _ _ _ _ _ (Nat.le_refl _)]
    simp only [toldFault, Bool.true_and]
    rw [excluded_congr c G _ p hg]
    by_cases hex : excludedDir c (above ++ anc.map (giEntryOf f)) p = true
    · -- an excluded directory: nothing is told here, nothing below is visited
      simp only [hex, if_true, Bool.not_true, Bool.false_and, Bool.false_or]
      symm
      rw [List.any_eq_false]
      intro r hr
      rw [not_visited_below c f above anc p gi es 0 (fun j _ => by unfold passes; rw [hex]; simp) r hr]
      simp
    · have hexf : excludedDir c (above ++ anc.map (giEntryOf f)) p = false := by simpa using hex
      simp only [hexf, Bool.false_eq_true, if_false, Bool.not_false, Bool.true_and]
      by_cases hop : f.openFail p = true
      · -- the failing Open is itself the witness
        simp [hop]
      · have hopf : f.openFail p = false := by simpa using hop
        rw [traversalFaultL_anchor c f above p gi anc es 0 _ (ctx_push c f above G anc p gi hg) hexf hopf
          (by intro j hj; omega)]
        simp only [hopf, listingFails, Nat.zero_add, Bool.or_false, Bool.or_assoc]
theorem traversalFaultL_anchor (c : Cfg) (f : Faults) (above : List GiEntry) (p : Path) (gi : Option PatSet)
    (anc : List DirInfo) :
    ∀ (es : List (String × Node)) (k : Nat) (G' : List GiEntry),
      (c.useGitignore = true → G' = above ++ anc.map (giEntryOf f) ++ [giEntryOf f ⟨p, gi, 0⟩]) →
      excludedDir c (above ++ anc.map (giEntryOf f)) p = false →
      f.openFail p = false →
      (∀ j, j < k → f.readEntryFail p j = false) →
      traversalFaultL c f G' p es k =
        ((List.range (es.length + 1)).any (fun j => f.readEntryFail p (k + j)) ||
         (allNodesList p gi anc es k).any (fun r => visitedFrom anc.length c f above r && toldFault c f above r))
  | [], k, G', _, _, _, _ => by
    simp only [traversalFaultL, allNodesList, List.length_nil, List.any_nil, Bool.or_false, Nat.zero_add]
    rw [any_range_one (f.readEntryFail p) k]
  | (name, n) :: rest, k, G', hg, hexf, hop, hread => by
    simp only [traversalFaultL, allNodesList, List.length_cons, List.any_append]
    by_cases hrk : f.readEntryFail p k = true
    · -- the failing read is itself the witness (the structural definition also looks below it)
      rw [any_range_head (f.readEntryFail p) k _ hrk]
      simp [hrk]
    · have hrk' : f.readEntryFail p k = false := by simpa using hrk
      have hread' : ∀ j, j < k + 1 → f.readEntryFail p j = false := by
        intro j hj
        by_cases hjk : j = k
        · subst hjk; exact hrk'
        · exact hread j (by omega)
      rw [traversalFault_anchor c f above (p ++ [name]) (anc ++ [⟨p, gi, k⟩]) n G' (ctx_child c f above G' anc p gi k hg),
        traversalFaultL_anchor c f above p gi anc rest (k+1) G' hg hexf hop hread',
        any_range_shift (f.readEntryFail p) k rest.length]
      have hfirst : (allNodes (p ++ [name]) (anc ++ [⟨p, gi, k⟩]) n).any
            (fun r => visitedFrom (anc ++ [(⟨p, gi, k⟩ : DirInfo)]).length c f above r && toldFault c f above r)
          = (allNodes (p ++ [name]) (anc ++ [⟨p, gi, k⟩]) n).any
            (fun r => visitedFrom anc.length c f above r && toldFault c f above r) := by
        apply List.any_congr_mem
        intro r hr
        rw [visitedFrom_child c f above anc p gi k _ n r hr, passes_true c f above anc p k hexf hop hread']
        simp
      rw [hfirst]
      simp only [hrk', Bool.false_or, Bool.or_assoc, Bool.or_left_comm]
end

end Scalibr.Walk
