/-
Fault containment at ENGINE level (C09): what a benign whole-tree scan attempts under an arbitrary fault
plan, expressed through the fault-free specification; and the counterpart for unreadable `.gitignore`
files: such a file has exactly the effect of an absent one.
-/
import Scalibr.Proofs.WalkMore
namespace Scalibr.Walk

/-- what a whole-tree scan of one root owes under fault plan `f`, written with the FAULT-FREE rule
`mustOne c noFaults`: nothing when the root cannot be stat'ed; otherwise every file keeps its fault-free
attempts unless a fault lies on the way to it (`faultHits`), and `opened` records whether the file itself
could be opened and stat'ed -/
def containedRoot (c : Cfg) (f : Faults) (root : Node) : List Call :=
  if f.statFail [] then [] else
  (allFiles [] [] root).flatMap fun r =>
    if faultHits c f r then []
    else (mustOne c noFaults [] r).map fun cl => { cl with opened := readable f r }

/-- **Containment, engine level**: in a benign whole-tree scan (any number of roots, fault plans without
unreadable `.gitignore` files) the attempts are exactly the fault-free attempts of every file that no fault
lies on the way to — in order, with multiplicity. -/
theorem run_contained (c : Cfg) (hb : Benign c) (ho : GiOK c) (hp : c.paths = []) (roots : List (Node × Faults))
    (hg : ∀ rf ∈ roots, NoGiFaults rf.2) :
    (run c roots).err = .none ∧ (run c roots).calls = roots.flatMap fun rf => containedRoot c rf.2 rf.1 := by
  have h := run_spec c hb roots ho
  refine ⟨h.1, ?_⟩
  rw [h.2]
  unfold mustExtract
  apply flatMap_congr'
  intro rf hrf
  obtain ⟨r, f⟩ := rf
  simp only [mustRoot, hp, List.isEmpty_nil, if_true, containedRoot]
  split
  · rfl
  · unfold mustFrom
    exact flatMap_congr' (fun r _ => mustOne_contained c f (hg _ hrf) [] r)

/-- … and without faults `containedRoot` is just the specification (so the right-hand side above is "the
fault-free scan, minus the files a fault lies on the way to") -/
theorem containedRoot_noFaults (c : Cfg) (hp : c.paths = []) (root : Node) :
    containedRoot c noFaults root = mustRoot c noFaults root := by
  have hng : NoGiFaults noFaults := fun _ => rfl
  simp only [containedRoot, mustRoot, hp, List.isEmpty_nil, if_true]
  have : noFaults.statFail [] = false := rfl
  simp only [this, Bool.false_eq_true, if_false]
  unfold mustFrom
  exact (flatMap_congr' (fun r _ => mustOne_contained c noFaults hng [] r)).symm

/-! ### an unreadable `.gitignore` has exactly the effect of an absent one -/

mutual
/-- the tree with the `.gitignore` content removed from every directory whose `.gitignore` cannot be opened -/
def stripGi (f : Faults) (p : Path) : Node → Node
  | .file k sz => .file k sz
  | .dir gi es => .dir (if f.openFail (p ++ [".gitignore"]) then none else gi) (stripGiL f p es)
def stripGiL (f : Faults) (p : Path) : List (String × Node) → List (String × Node)
  | [] => []
  | (s, n) :: rest => (s, stripGi f (p ++ [s]) n) :: stripGiL f p rest
end

def stripGiD (f : Faults) (d : DirInfo) : DirInfo :=
  { d with gi := if f.openFail (d.path ++ [".gitignore"]) then none else d.gi }
def stripGiR (f : Faults) (r : FileRec) : FileRec := { r with dirs := r.dirs.map (stripGiD f) }

theorem giEntryOf_stripGiD (f : Faults) (d : DirInfo) : giEntryOf f (stripGiD f d) = giEntryOf f d := by
  unfold giEntryOf stripGiD
  by_cases h : f.openFail (d.path ++ [".gitignore"]) = true <;> simp [h]

theorem map_giEntryOf_stripGi (f : Faults) (l : List DirInfo) :
    (l.map (stripGiD f)).map (giEntryOf f) = l.map (giEntryOf f) := by
  simp [List.map_map, Function.comp_def, giEntryOf_stripGiD]

theorem dirPasses_stripGi (c : Cfg) (f : Faults) (above : List GiEntry) (dirs : List DirInfo) (i : Nat) :
    dirPasses c f above (dirs.map (stripGiD f)) i = dirPasses c f above dirs i := by
  unfold dirPasses
  rw [List.getElem?_map]
  cases dirs[i]? with
  | none => rfl
  | some d =>
    simp only [Option.map_some]
    have h1 : (List.take i (dirs.map (stripGiD f))).map (giEntryOf f) = (List.take i dirs).map (giEntryOf f) := by
      rw [← List.map_take, map_giEntryOf_stripGi]
    rw [h1]
    rfl

theorem mustOne_stripGi (c : Cfg) (f : Faults) (above : List GiEntry) (r : FileRec) :
    mustOne c f above (stripGiR f r) = mustOne c f above r := by
  unfold mustOne reached fileEligible sizeOk readable stripGiR
  simp only [List.length_map, map_giEntryOf_stripGi]
  have : (List.range r.dirs.length).all (dirPasses c f above (r.dirs.map (stripGiD f)))
       = (List.range r.dirs.length).all (dirPasses c f above r.dirs) := by
    congr 1; funext i; exact dirPasses_stripGi c f above r.dirs i
  rw [this]

mutual
theorem allFiles_stripGi (f : Faults) (p : Path) : ∀ (n : Node) (anc : List DirInfo),
    allFiles p (anc.map (stripGiD f)) (stripGi f p n) = (allFiles p anc n).map (stripGiR f)
  | .file k sz, anc => by simp [stripGi, allFiles, stripGiR]
  | .dir gi es, anc => by
    simp only [stripGi, allFiles]
    exact allFilesList_stripGi f p gi es anc 0
theorem allFilesList_stripGi (f : Faults) (p : Path) (gi : Option PatSet) : ∀ (es : List (String × Node)) (anc : List DirInfo) (i : Nat),
    allFilesList p (if f.openFail (p ++ [".gitignore"]) then none else gi) (anc.map (stripGiD f)) (stripGiL f p es) i
      = (allFilesList p gi anc es i).map (stripGiR f)
  | [], _, _ => by simp [stripGiL, allFilesList]
  | (s, n) :: rest, anc, i => by
    simp only [stripGiL, allFilesList, List.map_append]
    have h := allFiles_stripGi f (p ++ [s]) n (anc ++ [(⟨p, gi, i⟩ : DirInfo)])
    simp only [List.map_append, List.map_cons, List.map_nil, stripGiD] at h
    rw [h, allFilesList_stripGi f p gi rest anc (i+1)]
end

/-- **An unreadable `.gitignore` is an absent `.gitignore`** (specification): under ANY fault plan the owed
attempts are those for the tree from which the unreadable `.gitignore` contents have been removed — nothing
else is lost, nothing below the directory is skipped. -/
theorem mustFrom_stripGi (c : Cfg) (f : Faults) (above : List GiEntry) (p : Path) (n : Node) :
    mustFrom c f above p (stripGi f p n) = mustFrom c f above p n := by
  unfold mustFrom
  have := allFiles_stripGi f p n []
  simp only [List.map_nil] at this
  rw [this, List.flatMap_map]
  exact flatMap_congr' (fun r _ => mustOne_stripGi c f above r)

/-- … and for the engine (benign whole-tree scan, any number of roots): scanning the trees as they are makes
exactly the attempts of scanning the trees with the unreadable `.gitignore` contents removed. -/
theorem run_stripGi (c : Cfg) (hb : Benign c) (ho : GiOK c) (hp : c.paths = []) (roots : List (Node × Faults)) :
    (run c roots).calls = (run c (roots.map fun rf => (stripGi rf.2 [] rf.1, rf.2))).calls := by
  rw [(run_spec c hb roots ho).2, (run_spec c hb _ ho).2]
  unfold mustExtract
  rw [List.flatMap_map]
  apply flatMap_congr'
  intro rf _
  obtain ⟨r, f⟩ := rf
  simp only [mustRoot, hp, List.isEmpty_nil, if_true]
  split
  · rfl
  · exact (mustFrom_stripGi c f [] [] r).symm

end Scalibr.Walk
