/-
The gitignore stack discipline of model A, for EVERY tree, fault plan, limit and cancellation point:
`walkNode` returns with `wc.gitignores` and `wc.gitignoreDirs` exactly as it found them, and the
engine itself never panics (the deferred pop only ever removes what the same directory pushed).
This is the repaired behaviour (fix 7a773e8c); before it the statement was false.
-/
import Scalibr.Model.Walk
namespace Scalibr.Walk

def NoExtractorPanic (c : Cfg) : Prop := ∀ e p, (c.extract e p).panics = false

/-- "same stack": the two gitignore lists are untouched -/
def SameStack (s s' : St) : Prop := s'.gis = s.gis ∧ s'.giDirs = s.giDirs

theorem SameStack.refl (s : St) : SameStack s s := ⟨rfl, rfl⟩
theorem SameStack.trans {a b d : St} (h1 : SameStack a b) (h2 : SameStack b d) : SameStack a d :=
  ⟨h2.1.trans h1.1, h2.2.trans h1.2⟩

theorem prologue_same (c : Cfg) (s : St) : SameStack s (prologue c s).1 := by
  unfold prologue SameStack; simp only []; split <;> (try split) <;> exact ⟨rfl, rfl⟩

theorem prologue_nopanic (c : Cfg) (s : St) : (prologue c s).2 ≠ some .panic := by
  unfold prologue; simp only []; split <;> (try split) <;> simp

theorem fserrCall_same (c : Cfg) (s : St) : SameStack s (fserrCall c s).1 ∧ (fserrCall c s).2 ≠ .panic := by
  unfold fserrCall
  have h1 := prologue_same c s
  have h2 := prologue_nopanic c s
  generalize prologue c s = r at h1 h2 ⊢
  obtain ⟨s1, e1⟩ := r
  cases e1 with
  | some e => exact ⟨h1, by intro h; simp at h2; exact h2 h⟩
  | none => simp only []; split <;> exact ⟨h1, by simp⟩

theorem runExtractor_same (c : Cfg) (f : Faults) (s : St) (e : Nat) (p : Path) (sz : Nat) :
    SameStack s (runExtractor c f s e p sz).1 := by
  unfold runExtractor SameStack
  split
  · simp
  · split
    · simp
    · simp only []
      split
      · split <;> simp
      · split <;> split <;> split <;> simp

theorem runExtractor_panics (c : Cfg) (f : Faults) (s : St) (e : Nat) (p : Path) (sz : Nat) :
    (runExtractor c f s e p sz).2 = true → (c.extract e p).panics = true := by
  unfold runExtractor
  split
  · simp
  · split
    · simp
    · simp only []
      split
      · intro _; assumption
      · split <;> simp

theorem runExtractor_nopanic (c : Cfg) (hx : NoExtractorPanic c) (f : Faults) (s : St) (e : Nat) (p : Path) (sz : Nat) :
    (runExtractor c f s e p sz).2 = false := by
  cases h : (runExtractor c f s e p sz).2 with
  | false => rfl
  | true => have := runExtractor_panics c f s e p sz h; rw [hx e p] at this; cases this

theorem extractLoop_same (c : Cfg) (hx : NoExtractorPanic c) (f : Faults) (p : Path) (size : Nat) :
    ∀ (rs : List Nat) (s : St) (chk : Bool),
      SameStack s (extractLoop c f p size s rs chk).1 ∧ (extractLoop c f p size s rs chk).2 ≠ some .panic := by
  intro rs
  induction rs with
  | nil => intro s chk; simp [extractLoop, SameStack]
  | cons e rest ih =>
    intro s chk
    simp only [extractLoop]
    have hr := runExtractor_same c f s e p size
    have hn := runExtractor_nopanic c hx f s e p size
    generalize runExtractor c f s e p size = r at hr hn ⊢
    obtain ⟨s1, pan⟩ := r
    simp only [] at hn
    subst hn
    split
    · split
      · split
        · split <;> exact ⟨SameStack.refl s, by simp⟩
        · split
          · exact ⟨SameStack.refl s, by simp⟩
          · simp only [Bool.false_eq_true, if_false]
            have := ih s1 true
            exact ⟨hr.trans this.1, this.2⟩
      · simp only [Bool.false_eq_true, if_false]
        have := ih s1 chk
        exact ⟨hr.trans this.1, this.2⟩
    · exact ih s chk

theorem handleLeaf_same (c : Cfg) (hx : NoExtractorPanic c) (f : Faults) (s : St) (p : Path) (k : Kind) (size : Nat) :
    SameStack s (handleLeaf c f s p k size).1 ∧ (handleLeaf c f s p k size).2 ≠ some .panic := by
  unfold handleLeaf
  split
  · exact ⟨SameStack.refl s, by simp⟩
  · split
    · exact ⟨SameStack.refl s, by simp⟩
    · exact extractLoop_same c hx f p size _ s false

/-- what the directory part of `handleFile` does to the two stacks -/
theorem pushGi_cases (c : Cfg) (f : Faults) (s : St) (p : Path) (gi : Option PatSet) :
    (c.useGitignore = false ∧ pushGi c f s p gi = (s, none)) ∨
    (c.useGitignore = true ∧ (pushGi c f s p gi).2 = some .fs ∧ (pushGi c f s p gi).1 = s) ∨
    (c.useGitignore = true ∧ (pushGi c f s p gi).2 = none ∧
      ∃ x, (pushGi c f s p gi).1.gis = s.gis ++ [x] ∧ (pushGi c f s p gi).1.giDirs = s.giDirs ++ [p]) := by
  unfold pushGi
  cases hu : c.useGitignore with
  | false => left; simp
  | true =>
    right
    simp only [if_true]
    split
    · right; exact ⟨by trivial, rfl, _, rfl, rfl⟩
    · split
      · split
        · left; exact ⟨by trivial, rfl, rfl⟩
        · right; exact ⟨by trivial, rfl, _, rfl, rfl⟩
      · right; exact ⟨by trivial, rfl, _, rfl, rfl⟩

/-- no entry of `giDirs` equals `p` when all of them are shorter -/
theorem getLast_ne_of_short (l : List Path) (p : Path) (h : ∀ d ∈ l, d.length < p.length) :
    l.getLast? ≠ some p := by
  intro hl
  have : p ∈ l := List.mem_of_getLast? hl
  have := h p this
  omega

theorem popOnExit_nopush (c : Cfg) (s : St) (p : Path) (e : Err) (h : ∀ d ∈ s.giDirs, d.length < p.length) :
    popOnExit c s p e = (s, e) := by
  unfold popOnExit
  have := getLast_ne_of_short s.giDirs p h
  simp [this]

theorem popOnExit_nogi (c : Cfg) (hu : c.useGitignore = false) (s : St) (p : Path) (e : Err) :
    popOnExit c s p e = (s, e) := by
  unfold popOnExit; simp [hu]

/-- after a push by this very directory and a stack-neutral body, the pop restores both lists -/
theorem popOnExit_pushed (c : Cfg) (hu : c.useGitignore = true) (s0 s : St) (p : Path) (e : Err) (x : GiEntry)
    (hg : s.gis = s0.gis ++ [x]) (hd : s.giDirs = s0.giDirs ++ [p]) :
    SameStack s0 (popOnExit c s p e).1 ∧ (popOnExit c s p e).2 = e := by
  unfold popOnExit SameStack
  simp [hu, hg, hd]

mutual
theorem walkNode_stack (c : Cfg) (hx : NoExtractorPanic c) (f : Faults) (p : Path) :
    ∀ (n : Node) (s : St), (∀ d ∈ s.giDirs, d.length < p.length) →
      SameStack s (walkNode c f s p n).1 ∧ (walkNode c f s p n).2 ≠ .panic
  | .file k size, s, _ => by
    simp only [walkNode]
    have h1 := prologue_same c s
    have h2 := prologue_nopanic c s
    generalize prologue c s = r at h1 h2 ⊢
    obtain ⟨s1, e1⟩ := r
    cases e1 with
    | some e => exact ⟨h1, by intro h; simp at h2; exact h2 h⟩
    | none =>
      simp only []
      have := handleLeaf_same c hx f s1 p k size
      refine ⟨h1.trans this.1, ?_⟩
      generalize handleLeaf c f s1 p k size = r2 at this ⊢
      obtain ⟨s2, e2⟩ := r2
      cases e2 with
      | none => simp
      | some e => simp at this ⊢; exact this.2
  | .dir gi es, s, hshort => by
    simp only [walkNode]
    have h1 := prologue_same c s
    have h2 := prologue_nopanic c s
    generalize prologue c s = r at h1 h2 ⊢
    obtain ⟨s1, e1⟩ := r
    simp only [SameStack] at h1
    have hshort1 : ∀ d ∈ s1.giDirs, d.length < p.length := by rw [h1.2]; exact hshort
    cases e1 with
    | some e =>
      simp only []
      rw [popOnExit_nopush c s1 p e hshort1]
      exact ⟨h1, by intro h; simp at h2; exact h2 h⟩
    | none =>
      simp only []
      rcases pushGi_cases c f s1 p gi with ⟨hu, hpg⟩ | ⟨hu, he, hs⟩ | ⟨hu, he, x, hg, hd⟩
      · -- gitignore handling off: nothing is pushed or popped
        rw [hpg]
        simp only [popOnExit_nogi c hu]
        split
        · exact ⟨h1, by simp⟩
        · split
          · have := fserrCall_same c s1
            exact ⟨SameStack.trans h1 this.1, this.2⟩
          · have := walkEntries_stack c hx f p es 0 s1 (fun d hd => by have := hshort1 d hd; omega)
            exact ⟨SameStack.trans h1 this.1, this.2⟩
      · -- unreadable .gitignore with fatal errors: returns before the push
        generalize pushGi c f s1 p gi = r2 at he hs ⊢
        obtain ⟨s2, e2⟩ := r2
        simp only [] at he hs
        subst he hs
        simp only []
        rw [popOnExit_nopush c s2 p .fs hshort1]
        exact ⟨h1, by simp⟩
      · generalize pushGi c f s1 p gi = r2 at he hg hd ⊢
        obtain ⟨s2, e2⟩ := r2
        simp only [] at he hg hd
        subst he
        simp only []
        split
        · have := popOnExit_pushed c hu s1 s2 p .none x hg hd
          exact ⟨SameStack.trans h1 this.1, by rw [this.2]; simp⟩
        · split
          · have hf := fserrCall_same c s2
            generalize fserrCall c s2 = r3 at hf ⊢
            obtain ⟨s3, e3⟩ := r3
            simp only [SameStack] at hf
            have := popOnExit_pushed c hu s1 s3 p e3 x (by rw [hf.1.1, hg]) (by rw [hf.1.2, hd])
            exact ⟨SameStack.trans h1 this.1, by rw [this.2]; exact hf.2⟩
          · have hw := walkEntries_stack c hx f p es 0 s2 (by
              intro d hdm
              rw [hd] at hdm
              rcases List.mem_append.mp hdm with hdm | hdm
              · have := hshort1 d hdm; omega
              · simp at hdm; subst hdm; omega)
            generalize walkEntries c f s2 p es 0 = r3 at hw ⊢
            obtain ⟨s3, e3⟩ := r3
            simp only [SameStack] at hw
            have := popOnExit_pushed c hu s1 s3 p e3 x (by rw [hw.1.1, hg]) (by rw [hw.1.2, hd])
            exact ⟨SameStack.trans h1 this.1, by rw [this.2]; exact hw.2⟩
theorem walkEntries_stack (c : Cfg) (hx : NoExtractorPanic c) (f : Faults) (p : Path) :
    ∀ (es : List (String × Node)) (k : Nat) (s : St), (∀ d ∈ s.giDirs, d.length < p.length + 1) →
      SameStack s (walkEntries c f s p es k).1 ∧ (walkEntries c f s p es k).2 ≠ .panic
  | [], k, s, _ => by
    simp only [walkEntries]
    split
    · exact fserrCall_same c s
    · exact ⟨SameStack.refl s, by simp⟩
  | (name, n) :: rest, k, s, hshort => by
    simp only [walkEntries]
    split
    · exact fserrCall_same c s
    · have h1 := walkNode_stack c hx f (p ++ [name]) n s (by intro d hd; have := hshort d hd; simp; omega)
      generalize walkNode c f s (p ++ [name]) n = r at h1 ⊢
      obtain ⟨s1, e1⟩ := r
      simp only []
      split
      · exact h1
      · have h2 := walkEntries_stack c hx f p rest (k+1) s1 (by rw [h1.1.2]; exact hshort)
        exact ⟨SameStack.trans h1.1 h2.1, h2.2⟩
end

end Scalibr.Walk
