/-
Index lemmas: adding a package changes exactly one bucket (exactly, for `GetSpecific`; up to
permutation for the map-iterating queries).
-/
import Scalibr.Spec.Index
namespace Scalibr.Index

theorem look_innerAdd (m : Inner) (n : String) (p : Pkg) (k : String) :
    look (innerAdd m n p) k = if k = n then some ((look m n).getD [] ++ [p]) else look m k := by
  induction m with
  | nil =>
    by_cases h : k = n
    · subst h; simp [innerAdd, look]
    · have : ¬ n = k := fun e => h e.symm
      simp [innerAdd, look, h, this]
  | cons e rest ih =>
    obtain ⟨k', v⟩ := e
    unfold innerAdd
    by_cases h1 : k' = n
    · subst h1
      by_cases h2 : k = k'
      · subst h2; simp [look]
      · have : ¬ k' = k := fun e => h2 e.symm
        simp [look, h2, this]
    · simp only [h1, if_false]
      by_cases h2 : k = n
      · subst h2
        simp only [look, h1, if_false, ih, if_true]
      · simp only [look, ih, h2, if_false]

theorem innerAll_innerAdd (m : Inner) (n : String) (p : Pkg) :
    (innerAll (innerAdd m n p)).Perm (innerAll m ++ [p]) := by
  induction m with
  | nil => simp [innerAdd, innerAll]
  | cons e rest ih =>
    obtain ⟨k', v⟩ := e
    unfold innerAdd
    by_cases h1 : k' = n
    · simp only [h1, if_true, innerAll, List.flatMap_cons]
      -- (v ++ [p]) ++ R  ~  (v ++ R) ++ [p]
      rw [List.append_assoc, List.append_assoc]
      exact List.Perm.append_left v List.perm_append_comm
    · simp only [h1, if_false, innerAll, List.flatMap_cons]
      rw [List.append_assoc]
      exact List.Perm.append_left v ih

/-- the inner map found under a type after an insertion -/
theorem look_outerAdd (m : PkgMap) (t n : String) (p : Pkg) (k : String) :
    look (outerAdd m t n p) k = if k = t then some (innerAdd ((look m t).getD []) n p) else look m k := by
  induction m with
  | nil =>
    by_cases h : k = t
    · subst h; simp [outerAdd, look]
    · have : ¬ t = k := fun e => h e.symm
      simp [outerAdd, look, h, this]
  | cons e rest ih =>
    obtain ⟨k', v⟩ := e
    unfold outerAdd
    by_cases h1 : k' = t
    · subst h1
      by_cases h2 : k = k'
      · subst h2; simp [look]
      · have : ¬ k' = k := fun e => h2 e.symm
        simp [look, h2, this]
    · simp only [h1, if_false]
      by_cases h2 : k = t
      · subst h2
        simp only [look, h1, if_false, ih, if_true]
      · simp only [look, ih, h2, if_false]

theorem getAll_outerAdd (m : PkgMap) (t n : String) (p : Pkg) :
    (getAll (outerAdd m t n p)).Perm (getAll m ++ [p]) := by
  induction m with
  | nil => simp [outerAdd, getAll, innerAdd, innerAll]
  | cons e rest ih =>
    obtain ⟨k', v⟩ := e
    unfold outerAdd
    by_cases h1 : k' = t
    · simp only [h1, if_true, getAll, List.flatMap_cons]
      have := innerAll_innerAdd v n p
      -- innerAll (innerAdd v) ++ R ~ (innerAll v ++ R) ++ [p]
      refine (List.Perm.append_right _ this).trans ?_
      rw [List.append_assoc, List.append_assoc]
      exact List.Perm.append_left _ List.perm_append_comm
    · simp only [h1, if_false, getAll, List.flatMap_cons]
      rw [List.append_assoc]
      exact List.Perm.append_left _ ih

theorem getSpecific_addPkg (m : PkgMap) (p : Pkg) (n t : String) :
    getSpecific (addPkg m p) n t = getSpecific m n t ++ (if p.purl = some (t, n) then [p] else []) := by
  unfold addPkg
  cases hp : p.purl with
  | none => simp
  | some tn =>
    obtain ⟨t', n'⟩ := tn
    simp only [getSpecific, look_outerAdd]
    by_cases ht : t = t'
    · subst ht
      simp only [if_true, look_innerAdd]
      by_cases hn : n = n'
      · subst hn
        simp only [if_true]
        cases h1 : look m t with
        | none => simp [look]
        | some inner =>
          cases h2 : look inner n with
          | none => simp [h2]
          | some ps => simp [h2]
      · have : ¬ (some (t, n') : Option (String × String)) = some (t, n) := by
          intro e; injection e with e; injection e with _ e; exact hn e.symm
        simp only [hn, if_false, this, List.append_nil]
        cases h1 : look m t with
        | none => simp [look]
        | some inner => simp
    · have : ¬ (some (t', n') : Option (String × String)) = some (t, n) := by
        intro e; injection e with e; injection e with e _; exact ht e.symm
      simp [ht, this]

theorem getAllOfType_addPkg (m : PkgMap) (p : Pkg) (t : String) :
    (getAllOfType (addPkg m p) t).Perm (getAllOfType m t ++ (if purlType p = some t then [p] else [])) := by
  unfold addPkg purlType
  cases hp : p.purl with
  | none => simp
  | some tn =>
    obtain ⟨t', n'⟩ := tn
    simp only [getAllOfType, look_outerAdd, Option.map_some]
    by_cases ht : t = t'
    · subst ht
      simp only [if_true]
      cases h1 : look m t with
      | none => simp [innerAdd, innerAll]
      | some inner => simpa using innerAll_innerAdd inner n' p
    · have : ¬ (some t' : Option String) = some t := by
        intro e; injection e with e; exact ht e.symm
      simp [ht, this]

theorem getAll_addPkg (m : PkgMap) (p : Pkg) :
    (getAll (addPkg m p)).Perm (getAll m ++ (if hasPurl p then [p] else [])) := by
  unfold addPkg hasPurl
  cases hp : p.purl with
  | none => simp
  | some tn => obtain ⟨t', n'⟩ := tn; simpa using getAll_outerAdd m t' n' p

theorem getSpecific_foldl (pkgs : List Pkg) (m : PkgMap) (n t : String) :
    getSpecific (pkgs.foldl addPkg m) n t = getSpecific m n t ++ specSpecific pkgs n t := by
  induction pkgs generalizing m with
  | nil => simp [specSpecific]
  | cons p ps ih =>
    rw [List.foldl_cons, ih, getSpecific_addPkg]
    unfold specSpecific
    by_cases h : p.purl = some (t, n)
    · simp [h]
    · simp [h]

theorem getAllOfType_foldl (pkgs : List Pkg) (m : PkgMap) (t : String) :
    (getAllOfType (pkgs.foldl addPkg m) t).Perm (getAllOfType m t ++ specOfType pkgs t) := by
  induction pkgs generalizing m with
  | nil => simp [specOfType]
  | cons p ps ih =>
    rw [List.foldl_cons]
    refine (ih (addPkg m p)).trans ?_
    refine (List.Perm.append_right _ (getAllOfType_addPkg m p t)).trans ?_
    unfold specOfType
    by_cases h : purlType p = some t
    · simp [h]
    · simp [h]

theorem getAll_foldl (pkgs : List Pkg) (m : PkgMap) :
    (getAll (pkgs.foldl addPkg m)).Perm (getAll m ++ specAll pkgs) := by
  induction pkgs generalizing m with
  | nil => simp [specAll]
  | cons p ps ih =>
    rw [List.foldl_cons]
    refine (ih (addPkg m p)).trans ?_
    refine (List.Perm.append_right _ (getAll_addPkg m p)).trans ?_
    unfold specAll
    by_cases h : hasPurl p = true
    · simp [h]
    · simp [h]

/-! ### the laws of the finished index -/

/-- `GetSpecific` of the index built from `pkgs` is the list of packages whose purl has that type and
name, in extraction order. -/
theorem new_getSpecific (pkgs : List Pkg) (n t : String) :
    getSpecific (new pkgs) n t = specSpecific pkgs n t := by
  unfold new
  rw [getSpecific_foldl]
  simp [getSpecific, look]

/-- `GetAllOfType` returns, in some order (Go map iteration), exactly the packages whose purl has that type. -/
theorem new_getAllOfType (pkgs : List Pkg) (t : String) :
    (getAllOfType (new pkgs) t).Perm (specOfType pkgs t) := by
  unfold new
  simpa [getAllOfType, look] using getAllOfType_foldl pkgs [] t

/-- `GetAll` returns, in some order, exactly the packages that have a purl. -/
theorem new_getAll (pkgs : List Pkg) : (getAll (new pkgs)).Perm (specAll pkgs) := by
  unfold new
  simpa [getAll] using getAll_foldl pkgs []

/-- A package with a purl is found when queried by that purl's type and name. -/
theorem new_has (pkgs : List Pkg) (p : Pkg) (t n : String) (hp : p ∈ pkgs) (hu : p.purl = some (t, n)) :
    p ∈ getSpecific (new pkgs) n t ∧ p ∈ getAllOfType (new pkgs) t ∧ p ∈ getAll (new pkgs) := by
  refine ⟨?_, ?_, ?_⟩
  · rw [new_getSpecific]; simp [specSpecific, hp, hu]
  · rw [(new_getAllOfType pkgs t).mem_iff]; simp [specOfType, purlType, hp, hu]
  · rw [(new_getAll pkgs).mem_iff]; simp [specAll, hasPurl, hp, hu]

/-- A package without a purl is in no query result; nothing that was not extracted is ever returned. -/
theorem new_only (pkgs : List Pkg) (p : Pkg) (h : p ∈ getAll (new pkgs)) :
    p ∈ pkgs ∧ p.purl.isSome = true := by
  rw [(new_getAll pkgs).mem_iff] at h
  simpa [specAll, hasPurl] using h

end Scalibr.Index
