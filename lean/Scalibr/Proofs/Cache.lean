/-
C16(b): the invariant of the request-cache transition system, preserved by every action — hence by every
interleaving of any number of `Get` callers over any keys with `SetMap`/`GetMap` calls in between — and
the provenance of the ghost logs (`pub`, `setv`) in terms of the action history.
(Ported from the design probe DESIGN-APPENDIX-A.md A.8 and extended with SetMap/GetMap, value provenance
and the fetch counters.)
-/
import Scalibr.Model.Cache
namespace Scalibr.Cache

structure Inv (s : St) : Prop where
  calls_lt   : ∀ k c, s.calls k = some c → c < s.next
  calls_owner: ∀ k c, s.calls k = some c → ∃ t, s.pcs t = .fetching c k
  fetch_calls: ∀ t c k, s.pcs t = .fetching c k → s.calls k = some c
  fetch_uniq : ∀ t t' c c' k, s.pcs t = .fetching c k → s.pcs t' = .fetching c' k → t = t'
  succ_cache : ∀ k, s.succeeded k = true → (s.cache k).isSome = true
  no_late    : s.lateFetch = false
  res_lt     : ∀ c, s.next ≤ c → s.results c = none
  fetch_nores: ∀ t c k, s.pcs t = .fetching c k → s.results c = none
  ckey_fetch : ∀ t c k, s.pcs t = .fetching c k → s.ckey c = some k
  ckey_wait  : ∀ t c k, s.pcs t = .waiting c k → s.ckey c = some k ∧ c < s.next
  res_pub    : ∀ c r, s.results c = some r → ∃ k, s.ckey c = some k ∧ s.pub k r = true
  cache_org  : ∀ k v, s.cache k = some v → s.pub k (.ok v) = true ∨ s.setv k v = true
  done_org   : ∀ t k r, s.pcs t = .done k r → s.pub k r = true ∨ ∃ v, r = .ok v ∧ s.setv k v = true
  succ_nocall: ∀ k, s.succeeded k = true → s.calls k = none
  nok_succ   : ∀ k, s.nok k = if s.succeeded k = true then 1 else 0
  count      : ∀ k, s.nfetch k = s.nerr k + s.nokT k + (if (s.calls k).isSome = true then 1 else 0)

theorem inv_init (keyOf) : Inv (init keyOf) := by
  constructor <;> simp [init]
  · intro t c k; cases keyOf t <;> simp
  · intro t t' c c' k; cases keyOf t <;> simp
  all_goals (first | (intro t c k; cases keyOf t <;> simp) | (intro t k r; cases keyOf t <;> simp))

theorem inv_lookup (s : St) (t : Nat) (h : Inv s) : Inv (step s (.lookup t)) := by
  have hh := h
  obtain ⟨h1, h2, h3, h4, h5, h6, h7, h8, h9, h10, h11, h12, h13, h14, h15, h16⟩ := h
  simp only [step]
  cases hp : s.pcs t <;> simp only [] <;> try exact hh
  rename_i k
  cases hc : s.cache k with
  | some v =>
    simp only []
    constructor <;> simp only [upd] <;> grind
  | none =>
    simp only []
    cases hcl : s.calls k with
    | some c =>
      simp only []
      constructor <;> simp only [upd] <;> grind
    | none =>
      simp only []
      constructor <;> simp only [upd] <;> grind

theorem inv_publish (s : St) (t : Nat) (r : R) (h : Inv s) : Inv (step s (.publish t r)) := by
  have hh := h
  obtain ⟨h1, h2, h3, h4, h5, h6, h7, h8, h9, h10, h11, h12, h13, h14, h15, h16⟩ := h
  simp only [step]
  cases hp : s.pcs t <;> simp only [] <;> try exact hh
  rename_i c k
  have hck : s.calls k = some c := h3 t c k hp
  simp only [hck, if_true]
  cases r with
  | ok v => constructor <;> simp only [upd] <;> grind
  | err => constructor <;> simp only [upd] <;> grind

theorem inv_wake (s : St) (t : Nat) (h : Inv s) : Inv (step s (.wake t)) := by
  have hh := h
  obtain ⟨h1, h2, h3, h4, h5, h6, h7, h8, h9, h10, h11, h12, h13, h14, h15, h16⟩ := h
  simp only [step]
  cases hp : s.pcs t <;> simp only [] <;> try exact hh
  rename_i c k
  cases hr : s.results c with
  | none => exact hh
  | some r => constructor <;> simp only [upd] <;> grind

theorem inv_setMap (s : St) (m : K → Option V) (h : Inv s) : Inv (step s (.setMap m)) := by
  obtain ⟨h1, h2, h3, h4, h5, h6, h7, h8, h9, h10, h11, h12, h13, h14, h15, h16⟩ := h
  simp only [step]
  constructor <;> simp only [] <;> grind

theorem inv_step (s : St) (a : Act) (h : Inv s) : Inv (step s a) := by
  cases a with
  | lookup t => exact inv_lookup s t h
  | publish t r => exact inv_publish s t r h
  | wake t => exact inv_wake s t h
  | setMap m => exact inv_setMap s m h
  | getMap =>
    obtain ⟨h1, h2, h3, h4, h5, h6, h7, h8, h9, h10, h11, h12, h13, h14, h15, h16⟩ := h
    exact ⟨h1, h2, h3, h4, h5, h6, h7, h8, h9, h10, h11, h12, h13, h14, h15, h16⟩

theorem inv_runFrom (s : St) (h : Inv s) (as : List Act) : Inv (runFrom s as) := by
  unfold runFrom
  induction as generalizing s with
  | nil => exact h
  | cons a as ih => exact ih _ (inv_step s a h)

/-- every reachable state satisfies the invariant -/
theorem inv_run (keyOf) (as : List Act) : Inv (run keyOf as) := inv_runFrom _ (inv_init keyOf) as

/-- a published result is never overwritten: every waiter of a call reads what its fetcher stored -/
theorem results_stable (s : St) (a : Act) (h : Inv s) (c : Cid) (r : R) (hr : s.results c = some r) :
    (step s a).results c = some r := by
  cases a with
  | lookup t =>
    simp only [step]
    cases hp : s.pcs t <;> simp only [] <;> try exact hr
    rename_i k
    cases hc : s.cache k <;> simp only [] <;> try exact hr
    cases hcl : s.calls k <;> simp only [] <;> exact hr
  | publish t r' =>
    simp only [step]
    cases hp : s.pcs t <;> simp only [] <;> try exact hr
    rename_i c' k
    have := h.fetch_nores t c' k hp
    simp only [upd]; split
    · rename_i he; subst he; rw [hr] at this; cases this
    · exact hr
  | wake t =>
    simp only [step]
    cases hp : s.pcs t <;> simp only [] <;> try exact hr
    rename_i c' k
    cases hr' : s.results c' <;> simp only [] <;> exact hr
  | setMap m => exact hr
  | getMap => exact hr

/-! ### the ghost logs mean what they say -/

theorem pub_history (k : K) (r : R) : ∀ (as : List Act) (s : St), (runFrom s as).pub k r = true →
    s.pub k r = true ∨ ∃ as1 t as2 c, as = as1 ++ Act.publish t r :: as2 ∧ (runFrom s as1).pcs t = .fetching c k
  | [], s, h => Or.inl h
  | a :: as, s, h => by
    have ih := pub_history k r as (step s a) (by simpa [runFrom] using h)
    rcases ih with h1 | ⟨as1, t, as2, c, he, hp⟩
    · -- the first action set it, or it was set before
      cases a with
      | publish t r' =>
        simp only [step] at h1
        cases hp : s.pcs t with
        | fetching c k' =>
          rw [hp] at h1; simp only [] at h1
          split at h1
          · rename_i hkr
            exact Or.inr ⟨[], t, as, c, by simp [hkr.2], by simpa [runFrom, hkr.1] using hp⟩
          · exact Or.inl h1
        | _ => rw [hp] at h1; exact Or.inl h1
      | lookup t =>
        left; simp only [step] at h1
        cases hp : s.pcs t <;> rw [hp] at h1 <;> simp only [] at h1 <;> try exact h1
        rename_i k'
        cases hc : s.cache k' <;> rw [hc] at h1 <;> simp only [] at h1 <;> try exact h1
        cases hcl : s.calls k' <;> rw [hcl] at h1 <;> exact h1
      | wake t =>
        left; simp only [step] at h1
        cases hp : s.pcs t <;> rw [hp] at h1 <;> simp only [] at h1 <;> try exact h1
        rename_i c' k'
        cases hr : s.results c' <;> rw [hr] at h1 <;> exact h1
      | setMap m => exact Or.inl h1
      | getMap => exact Or.inl h1
    · exact Or.inr ⟨a :: as1, t, as2, c, by simp [he], by simpa [runFrom] using hp⟩

theorem setv_history (k : K) (v : V) : ∀ (as : List Act) (s : St), (runFrom s as).setv k v = true →
    s.setv k v = true ∨ ∃ as1 m as2, as = as1 ++ Act.setMap m :: as2 ∧ m k = some v
  | [], s, h => Or.inl h
  | a :: as, s, h => by
    have ih := setv_history k v as (step s a) (by simpa [runFrom] using h)
    rcases ih with h1 | ⟨as1, m, as2, he, hm⟩
    · cases a with
      | setMap m =>
        simp only [step, Bool.or_eq_true, decide_eq_true_eq] at h1
        rcases h1 with h1 | h1
        · exact Or.inl h1
        · exact Or.inr ⟨[], m, as, rfl, h1⟩
      | lookup t =>
        left; simp only [step] at h1
        cases hp : s.pcs t <;> rw [hp] at h1 <;> simp only [] at h1 <;> try exact h1
        rename_i k'
        cases hc : s.cache k' <;> rw [hc] at h1 <;> simp only [] at h1 <;> try exact h1
        cases hcl : s.calls k' <;> rw [hcl] at h1 <;> exact h1
      | publish t r =>
        left; simp only [step] at h1
        cases hp : s.pcs t <;> rw [hp] at h1 <;> exact h1
      | wake t =>
        left; simp only [step] at h1
        cases hp : s.pcs t <;> rw [hp] at h1 <;> simp only [] at h1 <;> try exact h1
        rename_i c' k'
        cases hr : s.results c' <;> rw [hr] at h1 <;> exact h1
      | getMap => exact Or.inl h1
    · exact Or.inr ⟨a :: as1, m, as2, by simp [he], hm⟩

/-- without SetMap the two success counters coincide -/
theorem nokT_eq_nok : ∀ (as : List Act) (s : St), (∀ a ∈ as, a.isSetMap = false) → (∀ k, s.nokT k = s.nok k) →
    ∀ k, (runFrom s as).nokT k = (runFrom s as).nok k
  | [], s, _, h => h
  | a :: as, s, hs, h => by
    have : ∀ k, (step s a).nokT k = (step s a).nok k := by
      intro k
      cases a with
      | setMap m => have := hs (.setMap m) (by simp); simp [Act.isSetMap] at this
      | lookup t =>
        simp only [step]
        cases hp : s.pcs t <;> simp only [] <;> try exact h k
        rename_i k'
        cases hc : s.cache k' <;> simp only [] <;> try exact h k
        cases hcl : s.calls k' <;> simp only [] <;> exact h k
      | publish t r =>
        simp only [step]
        cases hp : s.pcs t <;> simp only [] <;> try exact h k
        cases r <;> simp only [upd] <;> (try exact h k)
        split <;> simp_all
      | wake t =>
        simp only [step]
        cases hp : s.pcs t <;> simp only [] <;> try exact h k
        rename_i c' k'
        cases hr : s.results c' <;> simp only [] <;> exact h k
      | getMap => exact h k
    have := nokT_eq_nok as (step s a) (fun a' ha' => hs a' (by simp [ha'])) this
    simpa [runFrom] using this

end Scalibr.Cache
