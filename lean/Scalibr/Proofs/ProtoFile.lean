/-
`typeForPath` (Model/ProtoResult.lean: Go's `filepath.Ext` scan from the end, `strings.TrimSuffix`, the switch) accepts
exactly the paths the specification names by their endings (`specFileType`), with the same file type.
-/
import Scalibr.Spec.ProtoResult

namespace Scalibr.ProtoResult

/-- no dot and no slash -/
def Clean (w : List Char) : Prop := ∀ c ∈ w, c ≠ '.' ∧ c ≠ '/'

theorem extGo_clean (w r acc : List Char) (hw : Clean w) : extGo (w ++ '.' :: r) acc = '.' :: (w.reverse ++ acc) := by
  induction w generalizing acc with
  | nil => simp [extGo]
  | cons c w ih =>
    have hc := hw c (List.mem_cons_self ..)
    have hw' : Clean w := fun d hd => hw d (List.mem_cons_of_mem _ hd)
    simp only [List.cons_append, extGo, hc.1, hc.2, if_false, ih _ hw', List.reverse_cons, List.append_assoc,
      List.cons_append, List.nil_append]

theorem ext_append_dot (x w : List Char) (hw : Clean w) : ext (x ++ '.' :: w) = '.' :: w := by
  have hr : Clean w.reverse := fun c hc => hw c (List.mem_reverse.mp hc)
  unfold ext
  rw [List.reverse_append, List.reverse_cons, List.append_assoc, List.singleton_append, extGo_clean _ _ _ hr]
  simp

/-- what `extGo` returns is empty or a dot followed by clean characters, and `rev.reverse ++ acc` ends with it -/
theorem extGo_shape (rev acc : List Char) (hacc : Clean acc) :
    extGo rev acc = [] ∨ ∃ w, Clean w ∧ extGo rev acc = '.' :: w ∧ ∃ x, rev.reverse ++ acc = x ++ '.' :: w := by
  induction rev generalizing acc with
  | nil => left; rfl
  | cons c rev ih =>
    by_cases h1 : c = '/'
    · left; simp [extGo, h1]
    · by_cases h2 : c = '.'
      · right
        refine ⟨acc, hacc, by simp [extGo, h2], rev.reverse, by simp [h2]⟩
      · have hacc' : Clean (c :: acc) := by
          intro d hd
          rcases List.mem_cons.mp hd with h | h
          · subst h; exact ⟨h2, h1⟩
          · exact hacc d h
        rcases ih (c :: acc) hacc' with h | ⟨w, hw, he, x, hx⟩
        · left; simp [extGo, h1, h2, h]
        · right
          refine ⟨w, hw, by simp [extGo, h1, h2, he], x, ?_⟩
          simpa using hx

theorem ext_shape (p : List Char) : ext p = [] ∨ ∃ w, Clean w ∧ ext p = '.' :: w ∧ ('.' :: w) <:+ p := by
  rcases extGo_shape p.reverse [] (fun _ h => absurd h (List.not_mem_nil)) with h | ⟨w, hw, he, x, hx⟩
  · left; exact h
  · right
    refine ⟨w, hw, he, x, ?_⟩
    simpa using hx.symm

/-- for a dot followed by clean characters: it is the extension iff the path ends with it -/
theorem ext_eq_iff (p w : List Char) (hw : Clean w) : ext p = '.' :: w ↔ ('.' :: w) <:+ p := by
  constructor
  · intro h
    rcases ext_shape p with h0 | ⟨w', _, he, hs⟩
    · rw [h0] at h; cases h
    · rw [he] at h; rw [← h]; exact hs
  · rintro ⟨x, rfl⟩
    exact ext_append_dot x w hw

theorem trimSuffix_append (q e : List Char) : trimSuffix (q ++ e) e = q := by
  unfold trimSuffix
  have : e.isSuffixOf (q ++ e) = true := List.isSuffixOf_iff_suffix.mpr (List.suffix_append q e)
  simp [this]

theorem clean_gz : Clean ['g', 'z'] := by unfold Clean; decide
theorem clean_bin : Clean ['b', 'i', 'n', 'p', 'r', 'o', 't', 'o'] := by unfold Clean; decide
theorem clean_text : Clean ['t', 'e', 'x', 't', 'p', 'r', 'o', 't', 'o'] := by unfold Clean; decide

theorem ext_gz (p : List Char) : ext p = dotGz ↔ dotGz <:+ p := ext_eq_iff p _ clean_gz
theorem ext_bin (p : List Char) : ext p = dotBinproto ↔ dotBinproto <:+ p := ext_eq_iff p _ clean_bin
theorem ext_text (p : List Char) : ext p = dotTextproto ↔ dotTextproto <:+ p := ext_eq_iff p _ clean_text

theorem suffix_append_right (a q e : List Char) : (a ++ e) <:+ (q ++ e) ↔ a <:+ q := by
  constructor
  · rintro ⟨t, ht⟩
    refine ⟨t, ?_⟩
    rw [← List.append_assoc] at ht
    exact List.append_cancel_right ht
  · rintro ⟨t, rfl⟩
    exact ⟨t, by simp⟩

theorem suffix_trans_right (a e p : List Char) (h : (a ++ e) <:+ p) : e <:+ p :=
  (List.suffix_append a e).trans h

/-- `typeForPath` = the specification by endings -/
theorem typeForPath_spec (p : List Char) (ft : FileType) : typeForPath p = .ok ft ↔ specFileType p = some ft := by
  have hbg : dotBinproto ≠ dotGz := by decide
  have htg : dotTextproto ≠ dotGz := by decide
  have hbt : dotBinproto ≠ dotTextproto := by decide
  have hb0 : dotBinproto ≠ [] := by decide
  have ht0 : dotTextproto ≠ [] := by decide
  have hg0 : dotGz ≠ [] := by decide
  by_cases hg : ext p = dotGz
  · -- gzipped: p = q ++ ".gz"
    obtain ⟨q, rfl⟩ := (ext_gz p).mp hg
    have nb : ¬ dotBinproto <:+ (q ++ dotGz) := fun h => hbg (((ext_bin _).mpr h).symm.trans hg)
    have nt : ¬ dotTextproto <:+ (q ++ dotGz) := fun h => htg (((ext_text _).mpr h).symm.trans hg)
    have e1 : (dotBinproto ++ dotGz) <:+ (q ++ dotGz) ↔ ext q = dotBinproto := by rw [suffix_append_right, ext_bin]
    have e2 : (dotTextproto ++ dotGz) <:+ (q ++ dotGz) ↔ ext q = dotTextproto := by rw [suffix_append_right, ext_text]
    simp only [typeForPath, specFileType, hg, hg0, trimSuffix_append, List.isSuffixOf_iff_suffix, e1, e2, nb, nt,
      decide_true, if_true, if_false, true_and]
    by_cases h1 : ext q = dotBinproto
    · simp [h1, hb0]
    · by_cases h2 : ext q = dotTextproto
      · simp [h2, ht0, hbt.symm]
      · by_cases h0 : ext q = []
        · simp [h0, hb0.symm, ht0.symm]
        · simp [h0, h1, h2]
  · have ng : ¬ dotGz <:+ p := fun h => hg ((ext_gz p).mpr h)
    have n1 : ¬ (dotBinproto ++ dotGz) <:+ p := fun h => ng (suffix_trans_right _ _ _ h)
    have n2 : ¬ (dotTextproto ++ dotGz) <:+ p := fun h => ng (suffix_trans_right _ _ _ h)
    simp only [typeForPath, specFileType, hg, List.isSuffixOf_iff_suffix, n1, n2, ← ext_bin, ← ext_text,
      decide_false, if_false, Bool.false_eq_true, false_and]
    by_cases h1 : ext p = dotBinproto
    · simp [h1, hb0]
    · by_cases h2 : ext p = dotTextproto
      · simp [h2, ht0, hbt.symm]
      · by_cases h0 : ext p = []
        · simp [h0, hb0.symm, ht0.symm]
        · simp [h0, h1, h2]

end Scalibr.ProtoResult
