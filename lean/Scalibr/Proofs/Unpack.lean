/-
Helper lemmas for the unpack half of C06: with no ".." in any link text, physical resolution that starts inside the
target directory never leaves it; every step of the unpacker preserves `Safe`.
-/
import Scalibr.Spec.Unpack
namespace Scalibr.Unpack
open Scalibr.GoPath

/-! ### paths -/

theorem isPrefix_refl (D : Path) : isPrefix D D = true := by simp [isPrefix]

theorem isPrefix_append (D cur : Path) (c : String) (h : isPrefix D cur = true) : isPrefix D (cur ++ [c]) = true := by
  unfold isPrefix at h ⊢
  simp only [Bool.and_eq_true, decide_eq_true_eq, beq_iff_eq] at h ⊢
  refine ⟨by simp; omega, ?_⟩
  rw [List.take_append_of_le_length h.1]; exact h.2

theorem isPrefix_length {D p : Path} (h : isPrefix D p = true) : D.length ≤ p.length := by
  unfold isPrefix at h; simp at h; exact h.1

/-- `path.Clean` never leaves a ".." among the kept segments -/
theorem cleanStep_no_dotdot (rooted : Bool) (acc : Nat × List String) (c : String)
    (h : ∀ x ∈ acc.2, x ≠ "..") : ∀ x ∈ (cleanStep rooted acc c).2, x ≠ ".." := by
  unfold cleanStep
  split
  · exact h
  · split
    · split
      · split <;> simp_all
      · rename_i st heq; intro x hx; exact h x (by rw [heq]; simp [hx])
    · rename_i h1 h2
      intro x hx
      simp only [List.mem_cons] at hx
      rcases hx with rfl | hx
      · exact h2
      · exact h x hx

theorem cleanComps_no_dotdot (rooted : Bool) (cs : List String) : ".." ∉ (cleanComps rooted cs).2 := by
  unfold cleanComps
  simp only [List.mem_reverse]
  have : ∀ (cs : List String) (acc : Nat × List String), (∀ x ∈ acc.2, x ≠ "..") →
      ∀ x ∈ (cs.foldl (cleanStep rooted) acc).2, x ≠ ".." := by
    intro cs
    induction cs with
    | nil => intro acc h; exact h
    | cons c cs ih => intro acc h; exact ih _ (cleanStep_no_dotdot rooted acc c h)
  intro hm
  exact this cs (0, []) (by simp) ".." hm rfl

/-! ### the invariant -/

/-- nothing outside `D` differs from the start, every link below `D` has a `good` text, `D` is a directory -/
def SafeG (good : Target → Prop) (D : Path) (s0 s : FS) : Prop :=
  (∀ p, isPrefix D p = false → s.get p = s0.get p) ∧
  (∀ p t, isPrefix D p = true → s.get p = some (.link t) → good t) ∧
  s.get D = some .dir

/-- … with "no `..` in the link text" -/
def Safe (D : Path) (s0 s : FS) : Prop := SafeG (fun t => ".." ∉ t.comps) D s0 s

/-- **Resolution stays inside**: from a directory inside `D`, along components without "..", through links without
"..", the kernel never reaches a location outside `D`. -/
theorem resolve_inside (D : Path) (s : FS)
    (hl : ∀ p t, isPrefix D p = true → s.get p = some (.link t) → ".." ∉ t.comps) :
    ∀ (fuel : Nat) (cur : Path) (cs : List String) (r : Path), isPrefix D cur = true → ".." ∉ cs →
      resolve D s fuel cur cs = .ok r → isPrefix D r = true := by
  intro fuel
  induction fuel with
  | zero => intro cur cs r _ _ h; simp [resolve] at h
  | succ fuel ih =>
    intro cur cs r hcur hcs h
    cases cs with
    | nil => simp [resolve] at h; subst h; exact hcur
    | cons c rest =>
      have hrest : ".." ∉ rest := fun hm => hcs (by simp [hm])
      have hc : c ≠ ".." := fun he => hcs (by simp [he])
      unfold resolve at h
      split at h
      · exact ih cur rest r hcur hrest h
      · split at h
        · cases h
        · split at h
          · cases h
          · exact ih _ rest r (isPrefix_append D cur c hcur) hrest h
          · split at h
            · simp at h; subst h; exact isPrefix_append D cur c hcur
            · cases h
          · rename_i t hget
            have ht := hl (cur ++ [c]) t (isPrefix_append D cur c hcur) hget
            apply ih _ (t.comps ++ rest) r _ _ h
            · split
              · exact isPrefix_refl D
              · exact hcur
            · intro hm
              rcases List.mem_append.mp hm with hm | hm
              · exact ht hm
              · exact hrest hm

/-! ### fuel -/

/-- **Fuel monotonicity**: an answer other than "fuel exhausted" is the answer for every larger fuel. -/
theorem resolve_fuel_mono (D : Path) (s : FS) : ∀ (fuel : Nat) (cur : Path) (cs : List String) (x : Except RErr Path),
    resolve D s fuel cur cs = x → x ≠ .error .loop → ∀ k, resolve D s (fuel + k) cur cs = x := by
  intro fuel
  induction fuel with
  | zero => intro cur cs x h hx; simp [resolve] at h; exact absurd h.symm hx
  | succ fuel ih =>
    intro cur cs x h hx k
    rw [show fuel + 1 + k = (fuel + k) + 1 by omega]
    cases cs with
    | nil => simp [resolve] at h ⊢; exact h
    | cons c rest =>
      unfold resolve at h ⊢
      split
      · rename_i hc; rw [if_pos hc] at h; exact ih cur rest x h hx k
      · rename_i hc; rw [if_neg hc] at h
        split
        · rename_i hd; rw [if_pos hd] at h; exact ih _ rest x h hx k
        · rename_i hd; rw [if_neg hd] at h
          split
          · rename_i ht; rw [if_pos ht] at h; exact h
          · rename_i ht; rw [if_neg ht] at h
            cases hg : s.get (cur ++ [c]) with
            | none => rw [hg] at h; exact h
            | some o =>
              rw [hg] at h
              cases o with
              | dir => exact ih _ rest x h hx k
              | file cid => exact h
              | link t => exact ih _ _ x h hx k

/-- **Adequacy without links**: a path that meets no symbolic link is decided by one unit of fuel per component. -/
theorem resolve_nolink_adequate (D : Path) (s : FS) (hnl : ∀ p t, s.get p ≠ some (.link t)) :
    ∀ (cs : List String) (cur : Path) (k : Nat), resolve D s (cs.length + 1 + k) cur cs ≠ .error .loop := by
  intro cs
  induction cs with
  | nil => intro cur k; rw [show ([] : List String).length + 1 + k = k + 1 by simp; omega]; simp [resolve]
  | cons c rest ih =>
    intro cur k
    rw [show (c :: rest).length + 1 + k = (rest.length + 1 + k) + 1 by simp; omega]
    unfold resolve
    split
    · exact ih cur k
    · split
      · exact ih _ k
      · split
        · simp
        · cases hg : s.get (cur ++ [c]) with
          | none => simp
          | some o =>
            cases o with
            | dir => exact ih _ k
            | file cid => by_cases hr : rest = [] <;> simp [hr]
            | link t => exact absurd hg (hnl _ t)

theorem Safe_put {good : Target → Prop} {D : Path} {s0 s : FS} (hS : SafeG good D s0 s) {q : Path} (hq : isPrefix D q = true)
    (hnone : s.get q = none) (o : Obj) (ho : ∀ t, o = .link t → good t) : SafeG good D s0 (s.put q o) := by
  obtain ⟨h1, h2, h3⟩ := hS
  refine ⟨?_, ?_, ?_⟩
  · intro p hp
    have : p ≠ q := fun e => by subst e; rw [hq] at hp; cases hp
    simp [FS.put, this, h1 p hp]
  · intro p t hp hg
    by_cases hpq : p = q
    · subst hpq; simp [FS.put] at hg; exact ho t hg
    · simp [FS.put, hpq] at hg; exact h2 p t hp hg
  · have : D ≠ q := fun e => by subst e; rw [h3] at hnone; cases hnone
    simp [FS.put, this, h3]

theorem Safe_del {good : Target → Prop} {D : Path} {s0 s : FS} (hS : SafeG good D s0 s) {q : Path} (hq : isPrefix D q = true)
    {t : Target} (hg : s.get q = some (.link t)) : SafeG good D s0 (s.del q) := by
  obtain ⟨h1, h2, h3⟩ := hS
  refine ⟨?_, ?_, ?_⟩
  · intro p hp
    have : p ≠ q := fun e => by subst e; rw [hq] at hp; cases hp
    simp [FS.del, this, h1 p hp]
  · intro p t' hp hg'
    by_cases hpq : p = q
    · subst hpq; simp [FS.del] at hg'
    · simp [FS.del, hpq] at hg'; exact h2 p t' hp hg'
  · have : D ≠ q := fun e => by subst e; rw [h3] at hg; cases hg
    simp [FS.del, this, h3]

/-- `mkdirAllInside` only ever creates a directory whose evaluated parent was tested to be inside `D` -/
theorem mkdirAllIn_safe {good : Target → Prop} {D : Path} {s0 : FS} : ∀ (todo done : List String) (s : FS),
    SafeG good D s0 s → SafeG good D s0 (mkdirAllIn D s done todo).state := by
  intro todo
  induction todo with
  | nil => intro done s hS; exact hS
  | cons c rest ih =>
    intro done s hS
    unfold mkdirAllIn
    cases hst : statRel D s (done ++ [c]) with
    | some o =>
      cases o with
      | dir => exact ih _ s hS
      | file cid => exact hS
      | link t => exact hS
    | none =>
      simp only
      cases hres : resolveA D s D done with
      | error e => exact hS
      | ok pp =>
        simp only
        split
        · exact hS
        · rename_i hpp
          have hpp' : isPrefix D pp = true := by simpa using hpp
          split
          · exact hS
          · rename_i hcond
            have hnone : s.get (pp ++ [c]) = none := by
              simp only [Bool.or_eq_true, not_or, Bool.not_eq_true, Option.isSome_eq_false_iff, Option.isNone_iff_eq_none] at hcond
              exact hcond.2
            exact ih _ _ (Safe_put hS (isPrefix_append D pp c hpp') hnone .dir (fun t h => by cases h))

/-- the link text an entry would create is `good` -/
def goodEntryG (good : Target → Prop) (e : TarEntry) : Prop := e.typ = 'l' → good (entryTarget e)

/-- the entry's link text is harmless: relative targets have no ".." -/
def goodEntry (e : TarEntry) : Prop := e.typ = 'l' → e.linkAbs = false → ".." ∉ e.linkComps

theorem goodEntryG_of_goodEntry {e : TarEntry} (h : goodEntry e) : goodEntryG (fun t => ".." ∉ t.comps) e := by
  intro ht
  unfold entryTarget
  by_cases ha : e.linkAbs = true
  · simp only [ha, if_true]; exact cleanComps_no_dotdot _ _
  · have haf : e.linkAbs = false := by cases h' : e.linkAbs <;> simp_all
    simp only [haf, Bool.false_eq_true, if_false]; exact h ht haf

theorem state_ite (b : Bool) (f : FS) (x : PSt) : (if b = true then Step.fatal f else Step.ok x).state = if b = true then f else x.1 := by
  cases b <;> rfl

theorem linkAt_safe {good : Target → Prop} {D : Path} {s0 : FS} (cfg : Cfg) (fin : Bool) (s1 : FS) (tg0 : List String)
    (hS1 : SafeG good D s0 s1) (e : TarEntry) (he : goodEntryG good e) (hl : e.typ = 'l') (cleanSegs rel : List String) :
    SafeG good D s0 (linkAt cfg D fin s1 tg0 e cleanSegs rel).state := by
  unfold linkAt
  cases hres : resolveA D s1 D rel.dropLast with
  | error err => exact hS1
  | ok pp =>
    dsimp only
    by_cases hpp : isPrefix D pp = true
    · have hput : ∀ (o : Obj), (∀ t, o = .link t → good t) →
          (s1.get pp != some Obj.dir || tooLong (rel.getLast?.getD "") || (s1.get (pp ++ [rel.getLast?.getD ""])).isSome) = false →
          SafeG good D s0 (s1.put (pp ++ [rel.getLast?.getD ""]) o) := by
        intro o ho hc
        have hnone : s1.get (pp ++ [rel.getLast?.getD ""]) = none := by
          simp only [Bool.or_eq_false_iff, Option.isSome_eq_false_iff, Option.isNone_iff_eq_none] at hc
          exact hc.2
        exact Safe_put hS1 (isPrefix_append D pp _ hpp) hnone o ho
      simp only [hpp, Bool.not_true, Bool.false_eq_true, if_false]
      split
      · exact hS1
      · split
        · -- retain
          split
          · split <;> exact hS1
          · rename_i hcond
            have hc : (s1.get pp != some Obj.dir || tooLong (rel.getLast?.getD "") || (s1.get (pp ++ [rel.getLast?.getD ""])).isSome) = false := by
              cases hb : (s1.get pp != some Obj.dir || tooLong (rel.getLast?.getD "") || (s1.get (pp ++ [rel.getLast?.getD ""])).isSome) with
              | false => rfl
              | true => rw [hb] at hcond; simp at hcond
            apply hput _ _ hc
            intro t ht
            simp only [Obj.link.injEq] at ht
            subst ht
            exact he hl
        · -- non-retain: a regular file with the content read from the target
          split
          · split
            · exact hS1
            · split <;> exact hS1
          · split
            · split <;> exact hS1
            · rename_i hcond
              have hc : (s1.get pp != some Obj.dir || tooLong (rel.getLast?.getD "") || (s1.get (pp ++ [rel.getLast?.getD ""])).isSome) = false := by
                cases hb : (s1.get pp != some Obj.dir || tooLong (rel.getLast?.getD "") || (s1.get (pp ++ [rel.getLast?.getD ""])).isSome) with
                | false => rfl
                | true => rw [hb] at hcond; simp at hcond
              exact hput _ (fun t h => by cases h) hc
    · have hf : isPrefix D pp = false := by cases h : isPrefix D pp <;> simp_all
      simp only [hf, Bool.not_false, if_true]
      exact hS1

/-- every object a step creates is placed below a directory whose evaluated path was tested to be inside `D`
(regular files, links or — in the non-retain mode — the copies written for them, directory entries, and every level
`mkdirAllInside` makes), for every configuration -/
theorem stepAt_safe {good : Target → Prop} {D : Path} {s0 : FS} (cfg : Cfg) (fin : Bool) (st : PSt) (hS : SafeG good D s0 st.1)
    (e : TarEntry) (he : goodEntryG good e) (cleanSegs rel : List String) : SafeG good D s0 (stepAt cfg D fin st e cleanSegs rel).state := by
  obtain ⟨s, tg⟩ := st
  unfold stepAt
  dsimp only
  have hS1 := mkdirAllIn_safe (good := good) (D := D) (s0 := s0) rel.dropLast [] s hS
  split
  · -- regular file
    cases hmk : mkdirAllIn D s [] rel.dropLast with
    | fail s1 => rw [hmk] at hS1; exact hS1
    | outside s1 => rw [hmk] at hS1; exact hS1
    | ok s1 =>
      rw [hmk] at hS1
      have hS1' : SafeG good D s0 s1 := hS1
      simp only
      cases hres : resolveA D s1 D rel.dropLast with
      | error err => exact hS1'
      | ok pp =>
        simp only
        split
        · exact hS1'
        · rename_i hpp
          have hpp' : isPrefix D pp = true := by simpa using hpp
          split
          · exact hS1'
          · cases hg : s1.get (pp ++ [rel.getLast?.getD ""]) with
            | none => exact Safe_put hS1' (isPrefix_append D pp _ hpp') hg _ (fun t h => by cases h)
            | some o => exact hS1'
  · -- link
    generalize mkdirAllIn D s [] rel.dropLast = mk at hS1
    split
    · exact hS1
    · exact linkAt_safe cfg fin mk.state tg hS1 e he (by assumption) cleanSegs rel
  · -- directory
    cases hmk : mkdirAllIn D s [] rel.dropLast with
    | fail s1 => rw [hmk] at hS1; exact hS1
    | outside s1 => rw [hmk] at hS1; exact hS1
    | ok s1 =>
      rw [hmk] at hS1
      have hS1' : SafeG good D s0 s1 := hS1
      simp only
      cases hres : resolveA D s1 D rel.dropLast with
      | error err => exact hS1'
      | ok pp =>
        simp only
        split
        · exact hS1'
        · rename_i hpp
          have hpp' : isPrefix D pp = true := by simpa using hpp
          split
          · exact hS1'
          · rename_i hcond
            have hnone : s1.get (pp ++ [rel.getLast?.getD ""]) = none := by
              simp only [Bool.or_eq_true, not_or, Bool.not_eq_true, Option.isSome_eq_false_iff, Option.isNone_iff_eq_none] at hcond
              exact hcond.2
            exact Safe_put hS1' (isPrefix_append D pp _ hpp') hnone _ (fun t h => by cases h)
  · exact hS

theorem unpackStep_safe {good : Target → Prop} {D : Path} {s0 : FS} (cfg : Cfg) (fin : Bool) (st : PSt) (hS : SafeG good D s0 st.1)
    (e : TarEntry) (he : goodEntryG good e) : SafeG good D s0 (unpackStep cfg D fin st e).state := by
  unfold unpackStep
  dsimp only
  split
  · exact hS
  · split
    · exact hS
    · split
      · exact hS
      · split
        · exact hS
        · exact stepAt_safe cfg fin st hS e he _ _

theorem unpackPass_safe {good : Target → Prop} {D : Path} {s0 : FS} (cfg : Cfg) (fin : Bool) (es : List TarEntry)
    (hes : ∀ e ∈ es, goodEntryG good e) :
    ∀ (r : Step), SafeG good D s0 r.state →
      SafeG good D s0 (es.foldl (fun r e => match r with | .fatal f => .fatal f | .ok x => unpackStep cfg D fin x e) r).state := by
  induction es with
  | nil => intro r h; exact h
  | cons e es ih =>
    intro r h
    simp only [List.foldl_cons]
    apply ih (fun x hx => hes x (by simp [hx]))
    cases r with
    | fatal f => exact h
    | ok x => exact unpackStep_safe cfg fin x h e (hes e (by simp))

theorem removeObsolete_safe {good : Target → Prop} {D : Path} {s0 : FS} : ∀ (fuel : Nat) (s : FS) (d : Path), isPrefix D d = true →
    SafeG good D s0 s → SafeG good D s0 (removeObsolete D fuel s d) := by
  intro fuel
  induction fuel with
  | zero => intro s d _ h; exact h
  | succ fuel ih =>
    intro s d hd hS
    unfold removeObsolete
    generalize childNames s d = names
    induction names generalizing s with
    | nil => exact hS
    | cons name names ihn =>
      simp only [List.foldl_cons]
      apply ihn
      cases hg : s.get (d ++ [name]) with
      | none => exact hS
      | some o =>
        cases o with
        | dir => exact ih s _ (isPrefix_append D d name hd) hS
        | file c => exact hS
        | link t =>
          have key : ∀ b : Bool, SafeG good D s0 (if b = true then s else s.del (d ++ [name])) := by
            intro b; cases b
            · simpa using Safe_del hS (isPrefix_append D d name hd) hg
            · simpa using hS
          exact key _

theorem unpackPass_safe' {good : Target → Prop} {D : Path} {s0 : FS} (cfg : Cfg) (fin : Bool) (st : PSt) (es : List TarEntry)
    (hes : ∀ e ∈ es, goodEntryG good e) (h : SafeG good D s0 st.1) : SafeG good D s0 (unpackPass cfg D fin st es).state :=
  unpackPass_safe cfg fin es hes (Step.ok st) h

theorem passes_safe {good : Target → Prop} {D : Path} {s0 : FS} (cfg : Cfg) (es : List TarEntry) (hes : ∀ e ∈ es, goodEntryG good e) :
    ∀ (n k : Nat) (st : PSt), SafeG good D s0 st.1 → SafeG good D s0 (passes cfg D es n k st).state := by
  intro n
  induction n with
  | zero => intro k st h; exact h
  | succ n ih =>
    intro k st h
    unfold passes
    have p := unpackPass_safe' (D := D) cfg (k + 1 == cfg.maxPass) st es hes h
    cases hp : unpackPass cfg D (k + 1 == cfg.maxPass) st es with
    | fatal f => rw [hp] at p; exact p
    | ok st1 => rw [hp] at p; exact ih (k+1) st1 p

theorem unpackAllC_safeG {good : Target → Prop} {D : Path} {s0 : FS} (cfg : Cfg) (es : List TarEntry) (hes : ∀ e ∈ es, goodEntryG good e)
    (h0 : SafeG good D s0 s0) : SafeG good D s0 (unpackAllC cfg D s0 es).1 := by
  unfold unpackAllC
  have p := passes_safe (D := D) cfg es hes cfg.maxPass 0 (s0, []) h0
  cases hp : passes cfg D es cfg.maxPass 0 (s0, []) with
  | fatal f => rw [hp] at p; exact p
  | ok st => rw [hp] at p; exact removeObsolete_safe 64 st.1 D (isPrefix_refl D) p

theorem unpackAllCut_safeG {good : Target → Prop} {D : Path} {s0 : FS} (cfg : Cfg) (es : List TarEntry) (k : Nat)
    (hes : ∀ e ∈ es, goodEntryG good e) (h0 : SafeG good D s0 s0) : SafeG good D s0 (unpackAllCut cfg D s0 es k).1 := by
  unfold unpackAllCut
  split
  · exact removeObsolete_safe 64 s0 D (isPrefix_refl D) h0
  · exact unpackPass_safe' cfg _ (s0, []) (es.take k) (fun e he => hes e (List.mem_of_mem_take he)) h0

theorem unpackAll_safeG {good : Target → Prop} {D : Path} {s0 : FS} (es : List TarEntry) (hes : ∀ e ∈ es, goodEntryG good e)
    (h0 : SafeG good D s0 s0) : SafeG good D s0 (unpackAll D s0 es).1 := unpackAllC_safeG Cfg.dflt es hes h0

theorem unpackAllC_safe {D : Path} {s0 : FS} (cfg : Cfg) (es : List TarEntry) (hes : ∀ e ∈ es, goodEntry e)
    (h0 : Safe D s0 s0) : Safe D s0 (unpackAllC cfg D s0 es).1 :=
  unpackAllC_safeG cfg es (fun e he => goodEntryG_of_goodEntry (hes e he)) h0

theorem unpackAll_safe {D : Path} {s0 : FS} (es : List TarEntry) (hes : ∀ e ∈ es, goodEntry e)
    (h0 : Safe D s0 s0) : Safe D s0 (unpackAll D s0 es).1 := unpackAllC_safe Cfg.dflt es hes h0

end Scalibr.Unpack
