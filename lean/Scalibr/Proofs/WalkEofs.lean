/-
`ErrorOnFSErrors` is fatal ONLY by failing: for EVERY configuration (limits, cancellation, panicking
extractors), tree and fault plan, a scan with the flag set either ends with the filesystem error (or an
extractor's panic) or is IDENTICAL — error, inventory, statuses, attempts, visited inodes — to the scan
with the flag cleared.  Combined with `run_fatal` this gives the behaviour of a fatal-errors scan that
meets no traversal fault: it is the benign specification's.
-/
import Scalibr.Proofs.WalkFatal
namespace Scalibr.Walk

/-- the same configuration with `ErrorOnFSErrors` cleared -/
def nonFatal (c : Cfg) : Cfg := { c with errorOnFSErrors := false }

theorem nf_eofs (c : Cfg) : (nonFatal c).errorOnFSErrors = false := Eq.trans rfl rfl
theorem nf_required (c : Cfg) : (nonFatal c).required = c.required := Eq.trans rfl rfl
theorem nf_maxFileSize (c : Cfg) : (nonFatal c).maxFileSize = c.maxFileSize := Eq.trans rfl rfl
theorem nf_useGitignore (c : Cfg) : (nonFatal c).useGitignore = c.useGitignore := Eq.trans rfl rfl
theorem nf_readSymlinks (c : Cfg) : (nonFatal c).readSymlinks = c.readSymlinks := Eq.trans rfl rfl
theorem nf_nExt (c : Cfg) : (nonFatal c).nExt = c.nExt := Eq.trans rfl rfl
theorem nf_paths (c : Cfg) : (nonFatal c).paths = c.paths := Eq.trans rfl rfl
theorem nf_cancelBefore (c : Cfg) : (nonFatal c).cancelBefore = c.cancelBefore := Eq.trans rfl rfl
theorem nf_prologue (c : Cfg) (s : St) : prologue (nonFatal c) s = prologue c s := Eq.trans rfl rfl
theorem nf_popOnExit (c : Cfg) (s : St) (p : Path) (e : Err) : popOnExit (nonFatal c) s p e = popOnExit c s p e := Eq.trans rfl rfl
theorem nf_shouldSkipDir (c : Cfg) (g : List GiEntry) (p : Path) : shouldSkipDir (nonFatal c) g p = shouldSkipDir c g p := Eq.trans rfl rfl
theorem nf_stackMatch (c : Cfg) (g : List GiEntry) (t : List String) (d : Bool) : stackMatch (nonFatal c) g t d = stackMatch c g t d := Eq.trans rfl rfl
theorem nf_runExtractor (c : Cfg) (f : Faults) (s : St) (e : Nat) (p : Path) (sz : Nat) :
    runExtractor (nonFatal c) f s e p sz = runExtractor c f s e p sz := Eq.trans rfl rfl

theorem popOnExit_err (c : Cfg) (s : St) (p : Path) (e : Err) :
    (popOnExit c s p e).2 = e ∨ (popOnExit c s p e).2 = .panic := by
  unfold popOnExit; (repeat' split) <;> simp

theorem fserrCall_eofs (c : Cfg) (he : c.errorOnFSErrors = true) (s : St) :
    (fserrCall c s).2 = .fs ∨ fserrCall (nonFatal c) s = fserrCall c s := by
  unfold fserrCall
  rw [nf_prologue]
  generalize prologue c s = r
  obtain ⟨s1, e1⟩ := r
  cases e1 with
  | some e => right; rfl
  | none => left; simp [he]

theorem extractLoop_eofs (c : Cfg) (he : c.errorOnFSErrors = true) (f : Faults) (p : Path) (size : Nat) :
    ∀ (rs : List Nat) (s : St) (chk : Bool),
      (extractLoop c f p size s rs chk).2 = some .fs ∨
      extractLoop (nonFatal c) f p size s rs chk = extractLoop c f p size s rs chk := by
  intro rs
  induction rs with
  | nil => intro s chk; right; rfl
  | cons e rest ih =>
    intro s chk
    simp only [extractLoop, nf_required, nf_maxFileSize, nf_eofs, nf_runExtractor]
    by_cases hreq : c.required e p = true
    · simp only [hreq, if_true]
      by_cases hcond : (decide (c.maxFileSize > 0) && !chk) = true
      · simp only [hcond, if_true]
        by_cases hst : f.statFail p = true
        · left; simp [hst, he]
        · simp only [hst, Bool.false_eq_true, if_false]
          by_cases hgt : size > c.maxFileSize
          · right; simp [hgt]
          · simp only [hgt, if_false]
            by_cases hpan : (runExtractor c f s e p size).2 = true
            · right; simp [hpan]
            · simp only [hpan, Bool.false_eq_true, if_false]
              exact ih _ true
      · simp only [hcond, Bool.false_eq_true, if_false]
        by_cases hpan : (runExtractor c f s e p size).2 = true
        · right; simp [hpan]
        · simp only [hpan, Bool.false_eq_true, if_false]
          exact ih _ chk
    · simp only [hreq, Bool.false_eq_true, if_false]
      exact ih s chk

theorem handleLeaf_eofs (c : Cfg) (he : c.errorOnFSErrors = true) (f : Faults) (s : St) (p : Path) (k : Kind) (size : Nat) :
    (handleLeaf c f s p k size).2 = some .fs ∨ handleLeaf (nonFatal c) f s p k size = handleLeaf c f s p k size := by
  unfold handleLeaf
  simp only [nf_readSymlinks, nf_useGitignore, nf_stackMatch, nf_nExt]
  by_cases h1 : (k = .special || (k = .symlink && !c.readSymlinks)) = true
  · right; simp only [h1, if_true]
  · simp only [h1, Bool.false_eq_true, if_false]
    by_cases h2 : (c.useGitignore && stackMatch c s.gis (tokens p) false) = true
    · right; simp only [h2, if_true]
    · simp only [h2, Bool.false_eq_true, if_false]
      exact extractLoop_eofs c he f p size _ s false

theorem pushGi_eofs (c : Cfg) (he : c.errorOnFSErrors = true) (f : Faults) (s : St) (p : Path) (gi : Option PatSet) :
    (pushGi c f s p gi).2 = some .fs ∨ pushGi (nonFatal c) f s p gi = pushGi c f s p gi := by
  unfold pushGi
  simp only [nf_useGitignore, nf_shouldSkipDir, nf_eofs]
  by_cases hu : c.useGitignore = true
  · simp only [hu, if_true]
    by_cases h1 : shouldSkipDir c s.gis p = true
    · right; simp only [h1, if_true]
    · simp only [h1, Bool.false_eq_true, if_false]
      by_cases h2 : f.openFail (p ++ [".gitignore"]) = true
      · left; simp [h2, he]
      · right; simp only [h2, Bool.false_eq_true, if_false]
  · right; simp only [hu, Bool.false_eq_true, if_false]

/-- "ended with the filesystem error or a panic, or identical" -/
def FsOrSame (a b : St × Err) : Prop := a.2 = .fs ∨ a.2 = .panic ∨ b = a

theorem fsOrSame_pop (c : Cfg) (s : St) (p : Path) (e : Err) (h : e = .fs ∨ e = .panic) (b : St × Err) :
    FsOrSame (popOnExit c s p e) b := by
  rcases popOnExit_err c s p e with h1 | h1
  · rcases h with h | h
    · left; rw [h1, h]
    · right; left; rw [h1, h]
  · right; left; exact h1

mutual
theorem walkNode_eofs (c : Cfg) (he : c.errorOnFSErrors = true) (f : Faults) (p : Path) :
    ∀ (n : Node) (s : St), FsOrSame (walkNode c f s p n) (walkNode (nonFatal c) f s p n)
  | .file k size, s => by
    simp only [walkNode, nf_prologue]
    generalize prologue c s = r
    obtain ⟨s1, e1⟩ := r
    cases e1 with
    | some e => right; right; rfl
    | none =>
      simp only []
      rcases handleLeaf_eofs c he f s1 p k size with h | h
      · left
        generalize handleLeaf c f s1 p k size = y at h ⊢
        obtain ⟨s2, e2⟩ := y
        simp only [] at h; subst h; rfl
      · right; right; rw [h]
  | .dir gi es, s => by
    simp only [walkNode, nf_prologue, nf_popOnExit, nf_shouldSkipDir]
    generalize prologue c s = r
    obtain ⟨s1, e1⟩ := r
    cases e1 with
    | some e => right; right; rfl
    | none =>
      simp only []
      rcases pushGi_eofs c he f s1 p gi with h | h
      · generalize pushGi c f s1 p gi = y at h ⊢
        obtain ⟨s2, e2⟩ := y
        simp only [] at h; subst h
        exact fsOrSame_pop c s2 p .fs (Or.inl rfl) _
      · rw [h]
        generalize pushGi c f s1 p gi = y
        obtain ⟨s2, e2⟩ := y
        cases e2 with
        | some e => right; right; rfl
        | none =>
          simp only []
          by_cases hsk : shouldSkipDir c s2.gis p = true
          · simp only [hsk, if_true]; right; right; rfl
          · simp only [hsk, Bool.false_eq_true, if_false]
            by_cases hop : f.openFail p = true
            · simp only [hop, if_true]
              rcases fserrCall_eofs c he s2 with h2 | h2
              · generalize fserrCall c s2 = z at h2 ⊢
                obtain ⟨s3, e3⟩ := z
                simp only [] at h2; subst h2
                exact fsOrSame_pop c s3 p .fs (Or.inl rfl) _
              · rw [h2]; right; right; rfl
            · simp only [hop, Bool.false_eq_true, if_false]
              rcases walkEntries_eofs c he f p es 0 s2 with h2 | h2 | h2
              · generalize walkEntries c f s2 p es 0 = z at h2 ⊢
                obtain ⟨s3, e3⟩ := z
                simp only [] at h2; subst h2
                exact fsOrSame_pop c s3 p .fs (Or.inl rfl) _
              · generalize walkEntries c f s2 p es 0 = z at h2 ⊢
                obtain ⟨s3, e3⟩ := z
                simp only [] at h2; subst h2
                exact fsOrSame_pop c s3 p .panic (Or.inr rfl) _
              · rw [h2]; right; right; rfl
theorem walkEntries_eofs (c : Cfg) (he : c.errorOnFSErrors = true) (f : Faults) (p : Path) :
    ∀ (es : List (String × Node)) (k : Nat) (s : St), FsOrSame (walkEntries c f s p es k) (walkEntries (nonFatal c) f s p es k)
  | [], k, s => by
    simp only [walkEntries]
    by_cases hr : f.readEntryFail p k = true
    · simp only [hr, if_true]
      rcases fserrCall_eofs c he s with h | h
      · left; exact h
      · right; right; exact h
    · simp only [hr, Bool.false_eq_true, if_false]; right; right; rfl
  | (name, n) :: rest, k, s => by
    simp only [walkEntries]
    by_cases hr : f.readEntryFail p k = true
    · simp only [hr, if_true]
      rcases fserrCall_eofs c he s with h | h
      · left; exact h
      · right; right; exact h
    · simp only [hr, Bool.false_eq_true, if_false]
      rcases walkNode_eofs c he f (p ++ [name]) n s with h | h | h
      · left
        generalize walkNode c f s (p ++ [name]) n = z at h ⊢
        obtain ⟨s1, e1⟩ := z
        simp only [] at h; subst h; simp
      · right; left
        generalize walkNode c f s (p ++ [name]) n = z at h ⊢
        obtain ⟨s1, e1⟩ := z
        simp only [] at h; subst h; simp
      · rw [h]
        generalize walkNode c f s (p ++ [name]) n = z
        obtain ⟨s1, e1⟩ := z
        simp only []
        by_cases hne : e1 = .none
        · subst hne
          simp only [ne_eq, not_true_eq_false, if_false]
          exact walkEntries_eofs c he f p rest (k+1) s1
        · simp only [ne_eq, hne, not_false_eq_true, if_true]; right; right; rfl
end

theorem fsOrSame_of_fserr (c : Cfg) (he : c.errorOnFSErrors = true) (s : St) :
    FsOrSame (fserrCall c s) (fserrCall (nonFatal c) s) := by
  rcases fserrCall_eofs c he s with h | h
  · left; exact h
  · right; right; exact h

theorem walkFrom_eofs (c : Cfg) (he : c.errorOnFSErrors = true) (f : Faults) (root : Node) (p : Path) (s : St) :
    FsOrSame (walkFrom c f s root p) (walkFrom (nonFatal c) f s root p) := by
  unfold walkFrom
  split
  · exact fsOrSame_of_fserr c he s
  · split
    · exact fsOrSame_of_fserr c he s
    · exact walkNode_eofs c he f p _ s

theorem fsOrSame_setGis {a b : St × Err} (h : FsOrSame a b) (g : List GiEntry) :
    FsOrSame ({ a.1 with gis := g }, a.2) ({ b.1 with gis := g }, b.2) := by
  rcases h with h | h | h
  · left; exact h
  · right; left; exact h
  · right; right; rw [h]

theorem walkRequested_eofs (c : Cfg) (he : c.errorOnFSErrors = true) (f : Faults) (root : Node) (p : Path) (s : St) :
    FsOrSame (walkRequested c f s root p) (walkRequested (nonFatal c) f s root p) := by
  unfold walkRequested
  simp only [nf_useGitignore, nf_eofs, nf_prologue]
  split
  · exact fsOrSame_of_fserr c he s
  · split
    · exact fsOrSame_of_fserr c he s
    · by_cases hu : c.useGitignore = true
      · simp only [hu, if_true, he, Bool.and_true, Bool.and_false, Bool.false_eq_true, if_false]
        by_cases hfail : (parentGis f root p).2 = true
        · left; simp [hfail]
        · simp only [hfail, Bool.false_eq_true, if_false]
          exact fsOrSame_setGis (walkFrom_eofs c he f root p _) []
      · simp only [hu, Bool.false_eq_true, if_false]
        exact fsOrSame_setGis (walkFrom_eofs c he f root p s) []
    · rename_i k sz _
      generalize prologue c s = r
      obtain ⟨s1, e1⟩ := r
      cases e1 with
      | some e => right; right; rfl
      | none =>
        simp only []
        rcases handleLeaf_eofs c he f s1 p (statKind k) sz with h | h
        · left
          generalize handleLeaf c f s1 p (statKind k) sz = y at h ⊢
          obtain ⟨s2, e2⟩ := y
          simp only [] at h; subst h; rfl
        · right; right; rw [h]

theorem walkPaths_eofs (c : Cfg) (he : c.errorOnFSErrors = true) (f : Faults) (root : Node) :
    ∀ (ps : List Path) (s : St), FsOrSame (walkPaths c f root s ps) (walkPaths (nonFatal c) f root s ps)
  | [], s => by right; right; rfl
  | p :: rest, s => by
    simp only [walkPaths]
    rcases walkRequested_eofs c he f root p s with h | h | h
    · left
      generalize walkRequested c f s root p = z at h ⊢
      obtain ⟨s1, e1⟩ := z
      simp only [] at h; subst h; simp
    · right; left
      generalize walkRequested c f s root p = z at h ⊢
      obtain ⟨s1, e1⟩ := z
      simp only [] at h; subst h; simp
    · rw [h]
      generalize walkRequested c f s root p = z
      obtain ⟨s1, e1⟩ := z
      simp only []
      by_cases hne : e1 = .none
      · subst hne
        simp only [ne_eq, not_true_eq_false, if_false]
        exact walkPaths_eofs c he f root rest s1
      · simp only [ne_eq, hne, not_false_eq_true, if_true]; right; right; rfl

theorem runRoot_eofs (c : Cfg) (he : c.errorOnFSErrors = true) (f : Faults) (root : Node) (s : St) :
    FsOrSame (runRoot c f s root) (runRoot (nonFatal c) f s root) := by
  unfold runRoot
  simp only [nf_paths]
  split
  · exact walkFrom_eofs c he f root [] _
  · exact walkPaths_eofs c he f root _ _

theorem runRoots_eofs (c : Cfg) (he : c.errorOnFSErrors = true) :
    ∀ (roots : List (Node × Faults)) (s : St) (acc : List Pkg) (sts : List (Nat × Status)),
      (runRoots c s acc sts roots).err = .fs ∨ (runRoots c s acc sts roots).err = .panic ∨
      runRoots (nonFatal c) s acc sts roots = runRoots c s acc sts roots
  | [], s, acc, sts => by right; right; rfl
  | (r, f) :: rest, s, acc, sts => by
    simp only [runRoots, nf_nExt]
    rcases runRoot_eofs c he f r s with h | h | h
    · left
      generalize runRoot c f s r = z at h ⊢
      obtain ⟨s1, e1⟩ := z
      simp only [] at h; subst h; simp
    · right; left
      generalize runRoot c f s r = z at h ⊢
      obtain ⟨s1, e1⟩ := z
      simp only [] at h; subst h; simp
    · rw [h]
      generalize runRoot c f s r = z
      obtain ⟨s1, e1⟩ := z
      simp only []
      by_cases hne : e1 = .none
      · subst hne
        simp only [ne_eq, not_true_eq_false, if_false]
        exact runRoots_eofs c he rest s1 _ _
      · simp only [ne_eq, hne, not_false_eq_true, if_true]; right; right; trivial

/-- **`ErrorOnFSErrors` acts only by failing** (every configuration, forest and fault plan): a scan with the
flag set ends with the filesystem error (or an extractor's panic), or it is identical in every observable —
error, inventory, statuses, attempts, visited inodes — to the scan with the flag cleared. -/
theorem run_eofs (c : Cfg) (he : c.errorOnFSErrors = true) (roots : List (Node × Faults)) :
    (run c roots).err = .fs ∨ (run c roots).err = .panic ∨ run (nonFatal c) roots = run c roots := by
  unfold run
  simp only [nf_cancelBefore]
  exact runRoots_eofs c he roots _ [] []

/-- **A fatal-errors scan that meets no traversal fault is the benign scan**: it succeeds, and its attempts,
inventory and statuses are the benign specification's. -/
theorem run_fatal_clean (c : Cfg) (hb : FatalCfg c) (hd : DomainLaw c.giMatch) (roots : List (Node × Faults))
    (hnf : traversalFaultScan c roots = false) :
    (run c roots).err = .none ∧ (run c roots).calls = mustExtract c roots ∧
    (run c roots).pkgs = pkgsOfCalls c (mustExtract c roots) ∧
    (run c roots).statuses = roots.flatMap fun (r, f) => (List.range c.nExt).map fun e => (e, statusSpec c f r e) := by
  have herr := run_fatal c hb hd roots
  rw [hnf] at herr
  simp only [Bool.false_eq_true, if_false] at herr
  have hben : Benign (nonFatal c) := ⟨hb.1, rfl, hb.2.2.1, hb.2.2.2.1, hb.2.2.2.2⟩
  rcases run_eofs c hb.2.1 roots with h | h | h
  · rw [herr] at h; cases h
  · rw [herr] at h; cases h
  · have hs := run_spec (nonFatal c) hben roots hd
    have hr := run_results (nonFatal c) hben roots hd
    rw [h] at hs hr
    exact ⟨herr, hs.2, hr.1, hr.2⟩

end Scalibr.Walk
