/-
`ErrorOnFSErrors` is fatal ONLY by failing: for EVERY configuration (limits, cancellation, panicking
extractors), tree and fault plan, a scan with the flag set either ends with the filesystem error (or an
extractor's panic) or is IDENTICAL — error, inventory, statuses, attempts, visited inodes — to the scan
with the flag cleared.  Combined with `run_fatal` this gives the behaviour of a fatal-errors scan that
meets no traversal fault: it is the benign specification's.
-/
import Scalibr.Proofs.WalkFatal
namespace Scalibr.Walk

/-- the same configuration with `ErrorOnFSErrors` cleared -/
def nonFatal (c : Cfg) : Cfg := { c with errorOnFSErrors := false }

theorem popOnExit_err (c : Cfg) (s : St) (p : Path) (e : Err) :
    (popOnExit c s p e).2 = e ∨ (popOnExit c s p e).2 = .panic := by
  unfold popOnExit; (repeat' split) <;> simp

theorem fserrCall_eofs (c : Cfg) (he : c.errorOnFSErrors = true) (s : St) :
    (fserrCall c s).2 = .fs ∨ fserrCall (nonFatal c) s = fserrCall c s := by
  unfold fserrCall
  show _ ∨ (match prologue c s with | (s, some e) => (s, e) | (s, none) => if (nonFatal c).errorOnFSErrors then (s, .fs) else (s, .none)) = _
  generalize prologue c s = r
  obtain ⟨s1, e1⟩ := r
  cases e1 with
  | some e => right; rfl
  | none => left; simp [he]

theorem extractLoop_eofs (c : Cfg) (he : c.errorOnFSErrors = true) (f : Faults) (p : Path) (size : Nat) :
    ∀ (rs : List Nat) (s : St) (chk : Bool),
      (extractLoop c f p size s rs chk).2 = some .fs ∨
      extractLoop (nonFatal c) f p size s rs chk = extractLoop c f p size s rs chk := by
  intro rs
  induction rs with
  | nil => intro s chk; right; rfl
  | cons e rest ih =>
    intro s chk
    simp only [extractLoop]
    show _ ∨ (if c.required e p then
        if c.maxFileSize > 0 && !chk then
          if f.statFail p then (if (nonFatal c).errorOnFSErrors then (s, some Err.fs) else (s, none))
          else if size > c.maxFileSize then (s, none)
          else
            let (s', pan) := runExtractor c f s e p size
            if pan then (s', some .panic) else extractLoop (nonFatal c) f p size s' rest true
        else
          let (s', pan) := runExtractor c f s e p size
          if pan then (s', some .panic) else extractLoop (nonFatal c) f p size s' rest chk
      else extractLoop (nonFatal c) f p size s rest chk) = _
    generalize runExtractor c f s e p size = r
    obtain ⟨s1, pan⟩ := r
    simp only []
    split
    · split
      · split
        · left; simp [he]
        · split
          · right; rfl
          · split
            · right; rfl
            · exact ih s1 true
      · split
        · right; rfl
        · exact ih s1 chk
    · exact ih s chk

theorem handleLeaf_eofs (c : Cfg) (he : c.errorOnFSErrors = true) (f : Faults) (s : St) (p : Path) (k : Kind) (size : Nat) :
    (handleLeaf c f s p k size).2 = some .fs ∨ handleLeaf (nonFatal c) f s p k size = handleLeaf c f s p k size := by
  unfold handleLeaf
  show _ ∨ (if (k = .special) || (k = .symlink && !c.readSymlinks) then (s, none) else
      if c.useGitignore && stackMatch c s.gis (tokens p) false then (s, none) else
      extractLoop (nonFatal c) f p size s (List.range c.nExt) false) = _
  split
  · right; rfl
  · split
    · right; rfl
    · exact extractLoop_eofs c he f p size _ s false

theorem pushGi_eofs (c : Cfg) (he : c.errorOnFSErrors = true) (f : Faults) (s : St) (p : Path) (gi : Option PatSet) :
    (pushGi c f s p gi).2 = some .fs ∨ pushGi (nonFatal c) f s p gi = pushGi c f s p gi := by
  unfold pushGi
  show _ ∨ (if c.useGitignore then
      if shouldSkipDir c s.gis p then ({ s with gis := s.gis ++ [none], giDirs := s.giDirs ++ [p] }, none)
      else if f.openFail (p ++ [".gitignore"]) then
        if (nonFatal c).errorOnFSErrors then (s, some Err.fs)
        else ({ s with gis := s.gis ++ [none], giDirs := s.giDirs ++ [p] }, none)
      else ({ s with gis := s.gis ++ [gi.map fun ps => (domainOf p, ps)], giDirs := s.giDirs ++ [p] }, none)
    else (s, none)) = _
  split
  · split
    · right; rfl
    · split
      · left; simp [he]
      · right; rfl
  · right; rfl

/-- "ended with the filesystem error or a panic, or identical" -/
def FsOrSame (a b : St × Err) : Prop := a.2 = .fs ∨ a.2 = .panic ∨ b = a

theorem fsOrSame_pop (c : Cfg) (s : St) (p : Path) (e : Err) (h : e = .fs ∨ e = .panic) (b : St × Err) :
    FsOrSame (popOnExit c s p e) b := by
  rcases popOnExit_err c s p e with h1 | h1
  · rcases h with h | h
    · left; rw [h1, h]
    · right; left; rw [h1, h]
  · right; left; exact h1

mutual
theorem walkNode_eofs (c : Cfg) (he : c.errorOnFSErrors = true) (f : Faults) (p : Path) :
    ∀ (n : Node) (s : St), FsOrSame (walkNode c f s p n) (walkNode (nonFatal c) f s p n)
  | .file k size, s => by
    simp only [walkNode]
    show FsOrSame _ (match prologue c s with
      | (s, some e) => (s, e)
      | (s, none) => let (s, e) := handleLeaf (nonFatal c) f s p k size; (s, e.getD .none))
    generalize prologue c s = r
    obtain ⟨s1, e1⟩ := r
    cases e1 with
    | some e => right; right; rfl
    | none =>
      simp only []
      rcases handleLeaf_eofs c he f s1 p k size with h | h
      · left
        generalize handleLeaf c f s1 p k size = y at h ⊢
        obtain ⟨s2, e2⟩ := y
        simp only [] at h; subst h; rfl
      · right; right; rw [h]
  | .dir gi es, s => by
    simp only [walkNode]
    show FsOrSame _ (match prologue c s with
      | (s, some e) => popOnExit c s p e
      | (s, none) =>
        match pushGi (nonFatal c) f s p gi with
        | (s, some e) => popOnExit c s p e
        | (s, none) =>
          if shouldSkipDir c s.gis p then popOnExit c s p .none
          else if f.openFail p then
            let (s, e) := fserrCall (nonFatal c) s
            popOnExit c s p e
          else
            let (s, e) := walkEntries (nonFatal c) f s p es 0
            popOnExit c s p e)
    generalize prologue c s = r
    obtain ⟨s1, e1⟩ := r
    cases e1 with
    | some e => right; right; rfl
    | none =>
      simp only []
      rcases pushGi_eofs c he f s1 p gi with h | h
      · generalize pushGi c f s1 p gi = y at h ⊢
        obtain ⟨s2, e2⟩ := y
        simp only [] at h; subst h
        exact fsOrSame_pop c s2 p .fs (Or.inl rfl) _
      · rw [h]
        generalize pushGi c f s1 p gi = y
        obtain ⟨s2, e2⟩ := y
        cases e2 with
        | some e => right; right; rfl
        | none =>
          simp only []
          split
          · right; right; rfl
          · split
            · rcases fserrCall_eofs c he s2 with h2 | h2
              · generalize fserrCall c s2 = z at h2 ⊢
                obtain ⟨s3, e3⟩ := z
                simp only [] at h2; subst h2
                exact fsOrSame_pop c s3 p .fs (Or.inl rfl) _
              · rw [h2]; right; right; rfl
            · rcases walkEntries_eofs c he f p es 0 s2 with h2 | h2 | h2
              · generalize walkEntries c f s2 p es 0 = z at h2 ⊢
                obtain ⟨s3, e3⟩ := z
                simp only [] at h2; subst h2
                exact fsOrSame_pop c s3 p .fs (Or.inl rfl) _
              · generalize walkEntries c f s2 p es 0 = z at h2 ⊢
                obtain ⟨s3, e3⟩ := z
                simp only [] at h2; subst h2
                exact fsOrSame_pop c s3 p .panic (Or.inr rfl) _
              · rw [h2]; right; right; rfl
theorem walkEntries_eofs (c : Cfg) (he : c.errorOnFSErrors = true) (f : Faults) (p : Path) :
    ∀ (es : List (String × Node)) (k : Nat) (s : St), FsOrSame (walkEntries c f s p es k) (walkEntries (nonFatal c) f s p es k)
  | [], k, s => by
    simp only [walkEntries]
    split
    · rcases fserrCall_eofs c he s with h | h
      · left; exact h
      · right; right; exact h
    · right; right; rfl
  | (name, n) :: rest, k, s => by
    simp only [walkEntries]
    split
    · rcases fserrCall_eofs c he s with h | h
      · left; exact h
      · right; right; exact h
    · rcases walkNode_eofs c he f (p ++ [name]) n s with h | h | h
      · left
        generalize walkNode c f s (p ++ [name]) n = z at h ⊢
        obtain ⟨s1, e1⟩ := z
        simp only [] at h; subst h; simp
      · right; left
        generalize walkNode c f s (p ++ [name]) n = z at h ⊢
        obtain ⟨s1, e1⟩ := z
        simp only [] at h; subst h; simp
      · rw [h]
        generalize walkNode c f s (p ++ [name]) n = z
        obtain ⟨s1, e1⟩ := z
        simp only []
        split
        · right; right; rfl
        · exact walkEntries_eofs c he f p rest (k+1) s1
end

end Scalibr.Walk
