import Scalibr.Spec.PomWrite
import Scalibr.Proofs.PomProps
namespace Scalibr.Pom

theorem filterMap_congr' {α β} {f g : α → Option β} (l : List α) (h : ∀ x ∈ l, f x = g x) :
    l.filterMap f = l.filterMap g := by
  induction l with
  | nil => rfl
  | cons x xs ih =>
    simp only [List.filterMap_cons, h x (by simp)]
    rw [ih (fun y hy => h y (by simp [hy]))]

/-- a version without `${` -/
def literal (v : Str) : Prop := indexOf dollarBrace v = none

instance (v : Str) : Decidable (literal v) := by unfold literal; infer_instance

theorem interpolate_literal (σ : Str → Option Str) (v : Str) (h : literal v) : interpolate σ v = v :=
  subst_none σ _ v h

theorem resolvable_literal (σ : Str → Option Str) (n : Nat) (v : Str) (h : literal v) : resolvable σ n v = true := by
  cases n with
  | zero => rfl
  | succ n => unfold literal at h; simp [resolvable, h]

theorem containsProperty_literal (v : Str) (h : literal v) : containsProperty v = false := by
  unfold literal at h; simp [containsProperty, h]

/-- the requirement a dependency with a literal version yields -/
def reqOf (d : Dep) : Req := ⟨attrOrigin d.origin, d.key, d.ver⟩

theorem requirements_literal (pom : Pom) (h : ∀ d ∈ pom.deps, literal d.ver) :
    requirements pom = pom.deps.map reqOf := by
  unfold requirements
  rw [← List.filterMap_eq_map]
  apply filterMap_congr'
  intro d hd
  have hl := h d hd
  simp only [resolvable_literal _ _ _ hl, interpolate_literal _ _ hl, if_true, reqOf]
  split <;> rfl

structure LiteralCase (pom : Pom) (u : Upd) (d : Dep) : Prop where
  lit : ∀ x ∈ pom.deps, literal x.ver
  keys : (pom.deps.map (·.key)).Nodup
  mem : d ∈ pom.deps
  key : d.key = u.key
  origin : u.origin = attrOrigin d.origin
  frm : u.frm = d.ver
  nonempty : d.ver ≠ []
  toLit : literal u.to

theorem key_unique (l : List Dep) (hn : (l.map (·.key)).Nodup) (d x : Dep) (hd : d ∈ l) (hx : x ∈ l)
    (hk : x.key = d.key) : x = d := by
  induction l with
  | nil => cases hd
  | cons y ys ih =>
    simp only [List.map, List.nodup_cons] at hn
    simp at hd hx
    rcases hd with rfl | hd <;> rcases hx with rfl | hx
    · rfl
    · exfalso; apply hn.1; rw [← hk]; exact List.mem_map_of_mem hx
    · exfalso; apply hn.1; rw [hk]; exact List.mem_map_of_mem hd
    · exact ih hn.2 hd hx

theorem find_original (pom : Pom) (u : Upd) (d : Dep) (c : LiteralCase pom u d) :
    originalDependency u pom.deps = some d := by
  unfold originalDependency
  have hmem := c.mem
  have hkeys := c.keys
  generalize pom.deps = l at hmem hkeys
  induction l with
  | nil => cases hmem
  | cons y ys ih =>
    simp only [List.find?]
    by_cases hy : y.key = u.key
    · have : y = d := key_unique (y :: ys) hkeys d y hmem (by simp) (by rw [hy, c.key])
      subst this
      simp [hy, c.nonempty]
    · simp only [hy, decide_false, Bool.false_and]
      simp only [List.map, List.nodup_cons] at hkeys
      simp at hmem
      rcases hmem with rfl | hmem
      · exact absurd c.key hy
      · exact ih hmem hkeys.2

theorem buildPatches_literal (pom : Pom) (u : Upd) (d : Dep) (c : LiteralCase pom u d) :
    buildPatches pom [u] = ⟨[⟨d.origin, d.key, u.to, true⟩], []⟩ := by
  simp only [buildPatches, List.foldl, buildPatch1, find_original pom u d c,
    containsProperty_literal _ (c.lit d c.mem)]
  simp [addPatch]

theorem C13_pom_literal_roundtrip_aux (pom : Pom) (u : Upd) (d : Dep) (c : LiteralCase pom u d) :
    requirements (write pom [u]) = substitute (requirements pom) [u] := by
  have hw : write pom [u] = { pom with deps := pom.deps.map fun x => if x = d then { x with ver := u.to } else x } := by
    unfold write
    rw [buildPatches_literal pom u d c]
    simp only [newDeps, List.filter, Bool.not_true, List.map_nil, List.append_nil]
    congr 1
    · apply List.map_congr_left
      intro x hx
      unfold applyDep
      simp only [List.reverse_cons, List.reverse_nil, List.nil_append, List.find?]
      by_cases hxd : x = d
      · subst hxd; simp
      · have : ¬ (d.origin = x.origin ∧ d.key = x.key) := by
          intro h; exact hxd (key_unique pom.deps c.keys d x c.mem hx h.2.symm)
        simp [this, hxd]
    · have : pom.props.map (applyProp ⟨[⟨d.origin, d.key, u.to, true⟩], []⟩) = pom.props.map id := by
        apply List.map_congr_left; intro p _; simp [applyProp, propPatchLookup]
      simpa using this
  have hlit' : ∀ x ∈ (write pom [u]).deps, literal x.ver := by
    rw [hw]; intro x hx
    simp only [List.mem_map] at hx
    obtain ⟨y, hy, rfl⟩ := hx
    split
    · exact c.toLit
    · exact c.lit y hy
  rw [requirements_literal pom c.lit, requirements_literal _ hlit', hw]
  simp only [substitute, List.foldl, List.map_map]
  apply List.map_congr_left
  intro x hx
  simp only [Function.comp]
  by_cases hxd : x = d
  · subst hxd
    simp only [if_true]
    have ha : addresses u (reqOf x) = true := by
      unfold addresses reqOf
      simp [c.key, c.origin, c.frm]
    have ha' : addresses u ⟨attrOrigin x.origin, (x.g, x.a, normTyp x.typ, x.cls), x.ver⟩ = true := ha
    simp [substReq, reqOf, Dep.key, ha']
  · simp only [hxd, if_false]
    have hna : addresses u (reqOf x) = false := by
      unfold addresses reqOf
      have : x.key ≠ u.key := by
        intro h; exact hxd (key_unique pom.deps c.keys d x c.mem hx (by rw [h, c.key]))
      simp [this]
    simp [substReq, hna]

end Scalibr.Pom
