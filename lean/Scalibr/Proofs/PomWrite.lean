import Scalibr.Spec.PomWrite
import Scalibr.Proofs.PomProps
namespace Scalibr.Pom

theorem filterMap_congr' {α β} {f g : α → Option β} (l : List α) (h : ∀ x ∈ l, f x = g x) :
    l.filterMap f = l.filterMap g := by
  induction l with
  | nil => rfl
  | cons x xs ih =>
    simp only [List.filterMap_cons, h x (by simp)]
    rw [ih (fun y hy => h y (by simp [hy]))]

theorem find_congr' {α : Type} (p q : α → Bool) (l : List α) (h : ∀ x ∈ l, p x = q x) : l.find? p = l.find? q := by
  induction l with
  | nil => rfl
  | cons x xs ih =>
    simp only [List.find?, h x (by simp)]
    rw [ih (fun y hy => h y (by simp [hy]))]

/-- a version without `${` -/
def literal (v : Str) : Prop := indexOf dollarBrace v = none

instance (v : Str) : Decidable (literal v) := by unfold literal; infer_instance

theorem interpolate_literal (σ : Str → Option Str) (v : Str) (h : literal v) : interpolate σ v = v :=
  subst_none σ _ v h

theorem resolvable_literal (σ : Str → Option Str) (n : Nat) (v : Str) (h : literal v) : resolvable σ n v = true := by
  cases n with
  | zero => rfl
  | succ n => unfold literal at h; simp [resolvable, h]

theorem containsProperty_literal (v : Str) (h : literal v) : containsProperty v = false := by
  unfold literal at h; simp [containsProperty, h]

/-- the requirement a dependency with a literal version yields -/
def reqOf (d : Dep) : Req := ⟨attrOrigin d.origin, d.key, d.ver⟩

/-- a key without `${` in any of its parts -/
def plainKey (d : Dep) : Prop := literal d.g ∧ literal d.a ∧ literal d.typ ∧ literal d.cls

instance (d : Dep) : Decidable (plainKey d) := by unfold plainKey; infer_instance

theorem literal_normTyp (t : Str) (h : literal t) : literal (normTyp t) := by
  unfold normTyp; split
  · decide
  · exact h

theorem interpKey_plain (σ : Str → Option Str) (d : Dep) (h : plainKey d) : interpKey σ d = d.key := by
  obtain ⟨hg, ha, ht, hc⟩ := h
  simp only [interpKey, Dep.key, interpolate_literal _ _ hg, interpolate_literal _ _ ha,
    interpolate_literal _ _ (literal_normTyp _ ht), interpolate_literal _ _ hc]

theorem keyResolvable_plain (σ : Str → Option Str) (d : Dep) (h : plainKey d) : keyResolvable σ d = true := by
  obtain ⟨hg, ha, ht, hc⟩ := h
  simp only [keyResolvable, resolvable_literal _ _ _ hg, resolvable_literal _ _ _ ha,
    resolvable_literal _ _ _ (literal_normTyp _ ht), resolvable_literal _ _ _ hc, Bool.and_self]

theorem requirements_literal (pom : Pom) (h : ∀ d ∈ pom.deps, literal d.ver) (hp : ∀ d ∈ pom.deps, plainKey d) :
    requirements pom = pom.deps.map reqOf := by
  unfold requirements
  rw [← List.filterMap_eq_map]
  apply filterMap_congr'
  intro d hd
  have hl := h d hd
  simp only [resolvable_literal _ _ _ hl, interpolate_literal _ _ hl, if_true, reqOf,
    keyResolvable_plain _ _ (hp d hd), interpKey_plain _ _ (hp d hd), Bool.and_self]
  split <;> rfl

/-- The literal fragment, any number of updates: every version in the file is a literal, dependency keys are
unique over the whole file, the updates address pairwise different keys, and each update has a well-formed name,
addresses an existing entry by key, origin and old version, and carries a literal new version. -/
structure LiteralCases (pom : Pom) (us : List Upd) : Prop where
  lit : ∀ x ∈ pom.deps, literal x.ver
  plain : ∀ x ∈ pom.deps, plainKey x
  keys : (pom.deps.map (·.key)).Nodup
  ukeys : (us.map (·.key)).Nodup
  each : ∀ u ∈ us, u.ga.isSome = true ∧ literal u.to ∧
    ∃ d ∈ pom.deps, d.key = u.key ∧ u.origin = attrOrigin d.origin ∧ u.frm = d.ver ∧ d.ver ≠ []

theorem key_unique (l : List Dep) (hn : (l.map (·.key)).Nodup) (d x : Dep) (hd : d ∈ l) (hx : x ∈ l)
    (hk : x.key = d.key) : x = d := by
  induction l with
  | nil => cases hd
  | cons y ys ih =>
    simp only [List.map, List.nodup_cons] at hn
    simp at hd hx
    rcases hd with rfl | hd <;> rcases hx with rfl | hx
    · rfl
    · exfalso; apply hn.1; rw [← hk]; exact List.mem_map_of_mem hx
    · exfalso; apply hn.1; rw [hk]; exact List.mem_map_of_mem hd
    · exact ih hn.2 hd hx

theorem upd_key_unique (us : List Upd) (hnd : (us.map (·.key)).Nodup) (u w : Upd) (hu : u ∈ us) (hw : w ∈ us)
    (hk : w.key = u.key) : w = u := by
  induction us with
  | nil => cases hu
  | cons y ys ih =>
    simp only [List.map, List.nodup_cons] at hnd
    simp at hu hw
    rcases hu with rfl | hu <;> rcases hw with rfl | hw
    · rfl
    · exfalso; apply hnd.1; rw [← hk]; exact List.mem_map_of_mem hw
    · exfalso; apply hnd.1; rw [hk]; exact List.mem_map_of_mem hu
    · exact ih hnd.2 hu hw

theorem matchScore_same (u : Upd) (d : Dep) (ho : u.origin = attrOrigin d.origin) : (matchScore u d).isSome = true := by
  unfold matchScore
  have : (decide (attrOrigin d.origin = sManagement) != decide (u.origin = sManagement)) = false := by rw [ho]; simp
  simp [this]

theorem filter_unique {α : Type} [DecidableEq α] (p : α → Bool) (l : List α) (d : α) (hmem : d ∈ l) (hp : p d = true)
    (hnd : l.Nodup) (huniq : ∀ x ∈ l, p x = true → x = d) : l.filter p = [d] := by
  induction l with
  | nil => cases hmem
  | cons y ys ih =>
    simp only [List.nodup_cons] at hnd
    by_cases hy : y = d
    · subst hy
      have : ys.filter p = [] := by
        rw [List.filter_eq_nil_iff]
        intro x hx hpx
        have := huniq x (by simp [hx]) hpx
        subst this
        exact hnd.1 hx
      simp [List.filter, hp, this]
    · have hpy : p y = false := by
        cases h : p y with
        | false => rfl
        | true => exact absurd (huniq y (by simp) h) hy
      simp only [List.mem_cons] at hmem
      rcases hmem with rfl | hmem
      · exact absurd rfl hy
      · simp only [List.filter, hpy]
        exact ih hmem hnd.2 (fun x hx => huniq x (by simp [hx]))

theorem nodup_of_map_nodup {α β : Type} (f : α → β) (l : List α) (h : (l.map f).Nodup) : l.Nodup := by
  induction l with
  | nil => exact List.nodup_nil
  | cons x xs ih =>
    simp only [List.map, List.nodup_cons] at h ⊢
    exact ⟨fun hx => h.1 (List.mem_map_of_mem hx), ih h.2⟩

theorem find_original (σ : Str → Option Str) (pom : Pom) (u : Upd) (d : Dep) (hga : u.ga.isSome = true) (hkeys : (pom.deps.map (·.key)).Nodup)
    (hplain : ∀ x ∈ pom.deps, plainKey x)
    (hmem : d ∈ pom.deps) (hk : d.key = u.key) (hne : d.ver ≠ []) (ho : u.origin = attrOrigin d.origin) :
    originalDependency σ u pom.deps = some d := by
  unfold originalDependency
  have : u.ga.isNone = false := by cases h : u.ga <;> simp_all
  simp only [this, Bool.false_eq_true, if_false]
  -- with unique plain keys, d is the only declaration with the key of the update
  have hf : pom.deps.filter (fun x => (decide (x.key = u.key) || decide (interpKey σ x = u.key)) && decide (x.ver ≠ []) && (matchScore u x).isSome) = [d] := by
    apply filter_unique _ _ d hmem
    · simp [hk, hne, matchScore_same u d ho]
    · exact nodup_of_map_nodup _ _ hkeys
    · intro x hx hp
      rw [interpKey_plain σ x (hplain x hx)] at hp
      simp only [Bool.or_self, Bool.and_eq_true, decide_eq_true_eq] at hp
      exact key_unique pom.deps hkeys d x hmem hx (by rw [hp.1.1, hk])
  rw [hf]
  rfl

/-- the patch an update of the fragment turns into -/
def directOf (pom : Pom) (u : Upd) : DPatch :=
  match originalDependency (coordDict pom) u pom.deps with
  | some d => ⟨d.origin, d.key, u.to, true⟩
  | none => ⟨sManagement, u.key, u.to, false⟩

theorem buildPatch1_literal (pom : Pom) (ps : Patches) (u : Upd) (hlit : ∀ x ∈ pom.deps, literal x.ver)
    (hplain : ∀ x ∈ pom.deps, plainKey x)
    (hkeys : (pom.deps.map (·.key)).Nodup) (hga : u.ga.isSome = true)
    (hd : ∃ d ∈ pom.deps, d.key = u.key ∧ d.ver ≠ [] ∧ u.origin = attrOrigin d.origin) (hfresh : ∀ q ∈ ps.deps, q.key ≠ u.key) :
    buildPatch1 pom ps u = some ⟨ps.deps ++ [directOf pom u], ps.props⟩ := by
  obtain ⟨d, hm, hk, hne, hor⟩ := hd
  have ho := find_original (coordDict pom) pom u d hga hkeys hplain hm hk hne hor
  unfold buildPatch1 directOf
  have : u.ga.isNone = false := by cases h : u.ga <;> simp_all
  simp only [this, Bool.false_eq_true, if_false, ho, containsProperty_literal _ (hlit d hm), Bool.not_false, if_true]
  have hany : ps.deps.any (fun q => q.origin = d.origin ∧ q.key = d.key ∧ q.newReq = u.to) = false := by
    rw [List.any_eq_false]
    intro q hq
    have := hfresh q hq
    simp [hk, this]
  unfold addPatch
  rw [hany]
  simp

theorem buildFrom_literal (pom : Pom) (hlit : ∀ x ∈ pom.deps, literal x.ver) (hplain : ∀ x ∈ pom.deps, plainKey x)
    (hkeys : (pom.deps.map (·.key)).Nodup)
    (us : List Upd) (ps : Patches) (hu : (us.map (·.key)).Nodup)
    (each : ∀ u ∈ us, u.ga.isSome = true ∧ ∃ d ∈ pom.deps, d.key = u.key ∧ d.ver ≠ [] ∧ u.origin = attrOrigin d.origin)
    (hfresh : ∀ q ∈ ps.deps, ∀ u ∈ us, q.key ≠ u.key) :
    buildFrom pom ps us = some ⟨ps.deps ++ us.map (directOf pom), ps.props⟩ := by
  induction us generalizing ps with
  | nil => simp [buildFrom]
  | cons u us ih =>
    simp only [List.map, List.nodup_cons] at hu
    have e := each u (by simp)
    rw [buildFrom, buildPatch1_literal pom ps u hlit hplain hkeys e.1 e.2 (fun q hq => hfresh q hq u (by simp))]
    simp only
    rw [ih ⟨ps.deps ++ [directOf pom u], ps.props⟩ hu.2 (fun x hx => each x (by simp [hx]))]
    · simp
    · intro q hq x hx
      simp only [List.mem_append, List.mem_singleton] at hq
      rcases hq with hq | rfl
      · exact hfresh q hq x (by simp [hx])
      · -- the patch just added carries u's key
        obtain ⟨d, hm, hk, hne, hor⟩ := e.2
        have ho := find_original (coordDict pom) pom u d e.1 hkeys hplain hm hk hne hor
        simp only [directOf, ho]
        rw [hk]
        intro h
        apply hu.1
        rw [h]; exact List.mem_map_of_mem hx

theorem find_rev_unique {α : Type} (p : α → Bool) (l : List α) (hu : ∀ a ∈ l, ∀ b ∈ l, p a = true → p b = true → a = b) :
    l.reverse.find? p = l.find? p := by
  cases hf : l.find? p with
  | none =>
    rw [List.find?_eq_none] at hf ⊢
    intro x hx; exact hf x (List.mem_reverse.mp hx)
  | some a =>
    have ha := List.mem_of_find?_eq_some hf
    have hpa := List.find?_some hf
    cases hr : l.reverse.find? p with
    | none =>
      rw [List.find?_eq_none] at hr
      exact absurd hpa (hr a (List.mem_reverse.mpr ha))
    | some b =>
      have hb := List.mem_reverse.mp (List.mem_of_find?_eq_some hr)
      have hpb := List.find?_some hr
      rw [hu a ha b hb hpa hpb]

/-- what `write` does to one entry in the fragment: the version of the update with its key, if any -/
def updated (us : List Upd) (x : Dep) : Dep :=
  match us.find? (fun u => u.key = x.key) with
  | some u => { x with ver := u.to }
  | none => x

theorem applyDep_literal (pom : Pom) (us : List Upd) (c : LiteralCases pom us) (x : Dep) (hx : x ∈ pom.deps) :
    applyDep ⟨us.map (directOf pom), []⟩ x = updated us x := by
  unfold applyDep updated
  simp only
  -- every patch of the list is ⟨(its dependency).origin, u.key, u.to, true⟩
  have hdir : ∀ u ∈ us, ∃ d ∈ pom.deps, d.key = u.key ∧ directOf pom u = ⟨d.origin, u.key, u.to, true⟩ := by
    intro u hu
    obtain ⟨hga, _, d, hm, hk, hor, _, hne⟩ := c.each u hu
    refine ⟨d, hm, hk, ?_⟩
    simp only [directOf, find_original (coordDict pom) pom u d hga c.keys c.plain hm hk hne hor, hk]
  have hrev : (us.map (directOf pom)).reverse.find? (fun p => decide (p.origin = x.origin ∧ p.key = x.key)) =
      (us.map (directOf pom)).find? (fun p => decide (p.origin = x.origin ∧ p.key = x.key)) := by
    apply find_rev_unique
    intro a ha b hb h1 h2
    simp only [List.mem_map] at ha hb
    obtain ⟨u, hu, rfl⟩ := ha
    obtain ⟨w, hw, rfl⟩ := hb
    obtain ⟨d1, _, _, e1⟩ := hdir u hu
    obtain ⟨d2, _, _, e2⟩ := hdir w hw
    rw [e1] at h1; rw [e2] at h2
    simp only [decide_eq_true_eq] at h1 h2
    have huw : u.key = w.key := by rw [h1.2, h2.2]
    have : u = w := by
      have hnd := c.ukeys
      clear hdir e1 e2 h1 h2
      induction us with
      | nil => cases hu
      | cons y ys ih =>
        simp only [List.map, List.nodup_cons] at hnd
        simp at hu hw
        rcases hu with rfl | hu <;> rcases hw with rfl | hw
        · rfl
        · exfalso; apply hnd.1; rw [huw]; exact List.mem_map_of_mem hw
        · exfalso; apply hnd.1; rw [← huw]; exact List.mem_map_of_mem hu
        · exact ih (by constructor <;> first | exact fun x hx => c.lit x hx | exact fun x hx => c.plain x hx | exact c.keys | exact hnd.2 | exact fun u hu => c.each u (by simp [hu])) hu hw hnd.2
    rw [this]
  rw [hrev, List.find?_map]
  have hcongr : us.find? ((fun p => decide (p.origin = x.origin ∧ p.key = x.key)) ∘ directOf pom) = us.find? (fun u => u.key = x.key) := by
    apply find_congr'
    intro u hu
    obtain ⟨d, hm, hk, e⟩ := hdir u hu
    simp only [Function.comp, e]
    by_cases hkx : u.key = x.key
    · have : d = x := (key_unique pom.deps c.keys x d hx hm (by rw [hk, hkx])).symm ▸ rfl
      have hdx : d = x := key_unique pom.deps c.keys x d hx hm (by rw [hk, hkx])
      simp [hkx, hdx]
    · simp [hkx]
  rw [hcongr]
  cases hf : us.find? (fun u => u.key = x.key) with
  | none => simp
  | some u =>
    have hu := List.mem_of_find?_eq_some hf
    obtain ⟨d, _, _, e⟩ := hdir u hu
    simp [e]


theorem foldl_map_fusion {α β : Type} (f : β → α → α) (us : List β) (rs : List α) :
    us.foldl (fun rs u => rs.map (f u)) rs = rs.map (fun r => us.foldl (fun r u => f u r) r) := by
  induction us generalizing rs with
  | nil => simp
  | cons u us ih =>
    simp only [List.foldl]
    rw [ih, List.map_map]
    rfl

theorem foldl_substReq_other (us : List Upd) (r : Req) (h : ∀ u ∈ us, u.key ≠ r.key) :
    us.foldl (fun r u => substReq u r) r = r := by
  induction us with
  | nil => rfl
  | cons u us ih =>
    simp only [List.foldl]
    have : substReq u r = r := by
      unfold substReq addresses
      have := h u (by simp)
      simp [Ne.symm this]
    rw [this]
    exact ih (fun x hx => h x (by simp [hx]))

theorem substitute_literal (pom : Pom) (us : List Upd) (hu : (us.map (·.key)).Nodup) (hk : (pom.deps.map (·.key)).Nodup)
    (hfit : ∀ u ∈ us, ∀ d ∈ pom.deps, d.key = u.key → u.origin = attrOrigin d.origin ∧ u.frm = d.ver)
    (x : Dep) (hx : x ∈ pom.deps) :
    us.foldl (fun r u => substReq u r) (reqOf x) = reqOf (updated us x) := by
  induction us with
  | nil => rfl
  | cons u us ih =>
    simp only [List.map, List.nodup_cons] at hu
    simp only [List.foldl]
    by_cases hkx : u.key = x.key
    · have hf := hfit u (by simp) x hx hkx.symm
      have ha : addresses u (reqOf x) = true := by
        unfold addresses reqOf; simp [hkx, hf.1, hf.2]
      have h1 : substReq u (reqOf x) = reqOf { x with ver := u.to } := by
        unfold substReq; rw [if_pos ha]; rfl
      rw [h1, foldl_substReq_other]
      · unfold updated; simp [List.find?, hkx]
      · intro w hw hwk
        apply hu.1
        have : w.key = u.key := by rw [hwk]; simp [reqOf, Dep.key, hkx]
        rw [← this]; exact List.mem_map_of_mem hw
    · have hna : substReq u (reqOf x) = reqOf x := by
        unfold substReq addresses reqOf
        simp [Ne.symm hkx]
      rw [hna, ih hu.2 (fun w hw => hfit w (by simp [hw]))]
      unfold updated
      simp [List.find?, hkx]

theorem write_literal (pom : Pom) (us : List Upd) (c : LiteralCases pom us) :
    write pom us = some { pom with deps := pom.deps.map (updated us) } := by
  have hb : buildPatches pom us = some ⟨us.map (directOf pom), []⟩ := by
    unfold buildPatches
    rw [buildFrom_literal pom c.lit c.plain c.keys us ⟨[], []⟩ c.ukeys
      (fun u hu => by obtain ⟨a, _, d, hm, hk, hor, _, hne⟩ := c.each u hu; exact ⟨a, d, hm, hk, hne, hor⟩)
      (by intro q hq; cases hq)]
    simp
  unfold write
  rw [hb]
  simp only [Option.map, applyPatches]
  congr 1
  have hnew : newDeps ⟨us.map (directOf pom), []⟩ = [] := by
    unfold newDeps
    simp only [List.map_eq_nil_iff, List.filter_eq_nil_iff, List.mem_map]
    rintro p ⟨u, hu, rfl⟩
    obtain ⟨hga, _, d, hm, hk, hor, _, hne⟩ := c.each u hu
    simp [directOf, find_original (coordDict pom) pom u d hga c.keys c.plain hm hk hne hor]
  have hdeps : pom.deps.map (applyDep ⟨us.map (directOf pom), []⟩) = pom.deps.map (updated us) := by
    apply List.map_congr_left
    intro x hx
    exact applyDep_literal pom us c x hx
  have hprops : pom.props.map (applyProp ⟨us.map (directOf pom), []⟩) = pom.props := by
    have : pom.props.map (applyProp ⟨us.map (directOf pom), []⟩) = pom.props.map id := by
      apply List.map_congr_left; intro p _; simp [applyProp, propPatchLookup]
    simpa using this
  rw [hnew, hdeps, hprops]
  simp

theorem updated_literal (pom : Pom) (us : List Upd) (c : LiteralCases pom us) (x : Dep) (hx : x ∈ pom.deps) :
    literal (updated us x).ver := by
  unfold updated
  cases hf : us.find? (fun u => u.key = x.key) with
  | none => exact c.lit x hx
  | some u => exact (c.each u (List.mem_of_find?_eq_some hf)).2.1

theorem roundtrip_literal (pom pom' : Pom) (us : List Upd) (c : LiteralCases pom us) (h : write pom us = some pom') :
    requirements pom' = substitute (requirements pom) us ∧ pom'.deps = pom.deps.map (updated us) ∧ pom'.props = pom.props := by
  rw [write_literal pom us c] at h
  injection h with h
  subst h
  refine ⟨?_, rfl, rfl⟩
  have hlit' : ∀ x ∈ ({ pom with deps := pom.deps.map (updated us) } : Pom).deps, literal x.ver := by
    intro x hx
    simp only [List.mem_map] at hx
    obtain ⟨y, hy, rfl⟩ := hx
    exact updated_literal pom us c y hy
  have hplain' : ∀ x ∈ ({ pom with deps := pom.deps.map (updated us) } : Pom).deps, plainKey x := by
    intro x hx
    simp only [List.mem_map] at hx
    obtain ⟨y, hy, rfl⟩ := hx
    have := c.plain y hy
    unfold updated
    split <;> exact this
  rw [requirements_literal pom c.lit c.plain, requirements_literal _ hlit' hplain']
  unfold substitute
  rw [foldl_map_fusion (fun u r => substReq u r), List.map_map, List.map_map]
  apply List.map_congr_left
  intro x hx
  simp only [Function.comp]
  symm
  apply substitute_literal pom us c.ukeys c.keys _ x hx
  intro u hu d hd hk
  obtain ⟨_, _, d', hm', hk', ho, hf, _⟩ := c.each u hu
  have : d = d' := key_unique pom.deps c.keys d' d hm' hd (by rw [hk, hk'])
  subst this
  exact ⟨ho, hf⟩

end Scalibr.Pom
