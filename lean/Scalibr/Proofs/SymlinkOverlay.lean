/-
Two Lean models of the loader's symlink handling exist: `Scalibr.Symlink.targetOutsideRoot` /
`handleSymlink` (C17, Model/Symlink.lean: marker directory on a segment stack) and
`Scalibr.Overlay.targetOutsideRoot` / `targetSegs` (C04, Model/OverlayImage.lean via Model/GoPath.lean:
count of leading ".." of `path.Clean`). This file proves they are the same functions.
-/
import Scalibr.Proofs.Symlink
import Scalibr.Model.OverlayImage
namespace Scalibr.Symlink
open Scalibr.GoPath

theorem step_dot (r : Bool) (acc : Nat × List String) (s : String) (h : s = "" ∨ s = ".") :
    cleanStep r acc s = acc := by
  rcases h with h | h <;> simp [cleanStep, h]

theorem step_dd_nil (r : Bool) (u : Nat) : cleanStep r (u, []) ".." = if r then (u, []) else (u+1, []) := by
  simp [cleanStep]

theorem step_dd_cons (r : Bool) (u : Nat) (x : String) (st : List String) :
    cleanStep r (u, x :: st) ".." = (u, st) := by
  simp [cleanStep]

theorem step_name (r : Bool) (u : Nat) (st : List String) (s : String) (h1 : s ≠ "") (h2 : s ≠ ".") (h3 : s ≠ "..") :
    cleanStep r (u, st) s = (u, s :: st) := by
  simp [cleanStep, h1, h2, h3]

/-- `path.Clean` of a relative path has a leading ".." exactly when some prefix climbs above the start -/
theorem foldl_cleanStep_ups : ∀ (xs : List String) (u : Nat) (st : List String),
    (xs.foldl (cleanStep false) (u, st)).1 > 0 ↔ (u > 0 ∨ escapes st.length xs = true)
  | [], u, st => by simp [escapes]
  | s :: rest, u, st => by
    simp only [List.foldl_cons]
    unfold escapes
    by_cases hdot : s = "" ∨ s = "."
    · have hdot' : (s = "." || s = "") = true := by
        rcases hdot with h | h <;> simp [h]
      rw [step_dot false (u, st) s hdot]
      simp only [hdot', if_true]
      exact foldl_cleanStep_ups rest u st
    · simp only [not_or] at hdot
      have hdot' : (s = "." || s = "") = false := by simp [hdot.1, hdot.2]
      simp only [hdot', Bool.false_eq_true, if_false]
      by_cases hdd : s = ".."
      · subst hdd
        simp only [if_true]
        cases st with
        | nil =>
          rw [step_dd_nil]
          simp only [Bool.false_eq_true, if_false, List.length_nil]
          rw [foldl_cleanStep_ups rest (u+1) []]
          simp
        | cons x st' =>
          rw [step_dd_cons]
          simp only [List.length_cons]
          exact foldl_cleanStep_ups rest u st'
      · rw [step_name false u st s hdot.1 hdot.2 hdd]
        simp only [hdd, if_false]
        rw [foldl_cleanStep_ups rest u (s :: st)]
        simp

/-- rooted `path.Clean`: the kept segments are `cleanAbs` -/
theorem foldl_cleanStep_rooted : ∀ (xs : List String) (u : Nat) (st : List String),
    (xs.foldl (cleanStep true) (u, st)).2 = cleanAbsAux st xs
  | [], u, st => by simp [cleanAbsAux]
  | s :: rest, u, st => by
    simp only [List.foldl_cons]
    unfold cleanAbsAux
    by_cases hdot : s = "" ∨ s = "."
    · have hdot' : (s = "." || s = "") = true := by
        rcases hdot with h | h <;> simp [h]
      rw [step_dot true (u, st) s hdot]
      simp only [hdot', if_true]
      exact foldl_cleanStep_rooted rest u st
    · simp only [not_or] at hdot
      have hdot' : (s = "." || s = "") = false := by simp [hdot.1, hdot.2]
      simp only [hdot', Bool.false_eq_true, if_false]
      by_cases hdd : s = ".."
      · subst hdd
        simp only [if_true]
        cases st with
        | nil => rw [step_dd_nil]; simp only [if_true, List.tail_nil]; exact foldl_cleanStep_rooted rest u []
        | cons x st' => rw [step_dd_cons]; simp only [List.tail_cons]; exact foldl_cleanStep_rooted rest u st'
      · rw [step_name true u st s hdot.1 hdot.2 hdd]
        simp only [hdd, if_false]
        exact foldl_cleanStep_rooted rest u (s :: st)

end Scalibr.Symlink
